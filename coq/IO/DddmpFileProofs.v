(** * C15 (package C15h): the header loader [load_header] of IO/DddmpFile.v

    - fuel: the loop needs at most one iteration per input byte, any larger fuel gives the
      same result;
    - no panic: the loader never returns [HInternal], the value the model returns where the
      Rust code would index out of bounds or [unwrap] a [None] (and on fuel exhaustion);
    - SAFETY OF ACCEPTANCE: every accepted header is well-formed ([header_wf]): the relations
      between the fields that [DumpHeader::load] promises to its users hold. *)
From Coq Require Import String Ascii.
From Coq Require Import List NArith ZArith Bool Arith Lia.
From OxiVerif Require Import IO.Dddmp IO.DddmpProofs IO.DddmpFile.
Import ListNotations.
Open Scope N_scope.

Arguments N.add : simpl never.
Arguments N.sub : simpl never.
Arguments N.mul : simpl never.
Arguments N.div : simpl never.
Arguments N.modulo : simpl never.
Arguments N.pow : simpl never.

Ltac splits := repeat match goal with |- _ /\ _ => split end; try exact eq_refl; try exact I.

(** ** the result monad *)

Lemma hbind_ok {A B} (r : hres A) (f : A -> hres B) b :
  hbind r f = HOk b -> exists a, r = HOk a /\ f a = HOk b.
Proof. destruct r; cbn; [eauto|discriminate]. Qed.

Lemma hmap_ok {A B} (f : A -> B) (r : hres A) b : hmap f r = HOk b -> exists a, r = HOk a /\ b = f a.
Proof. destruct r; cbn; intros H; inversion H; eauto. Qed.

Lemma guard_ok b e : guard b e = HOk tt -> b = true.
Proof. destruct b; [reflexivity|discriminate]. Qed.

(** "no panic": the result is not the internal error *)
Definition no_int {A} (r : hres A) : Prop := r <> HErr HInternal.

Lemma no_int_ok {A} (a : A) : no_int (HOk a).
Proof. discriminate. Qed.

Lemma no_int_err {A} e : e <> HInternal -> no_int (@HErr A e).
Proof. intros H E. inversion E. contradiction. Qed.

Lemma no_int_hmap {A B} (f : A -> B) r : no_int r -> no_int (hmap f r).
Proof. destruct r; cbn; [discriminate|]. intros H E. apply H. inversion E. reflexivity. Qed.

Lemma no_int_hbind {A B} (r : hres A) (f : A -> hres B) :
  no_int r -> (forall a, r = HOk a -> no_int (f a)) -> no_int (hbind r f).
Proof. destruct r; cbn; [auto|]. intros H _ E. apply H. inversion E. reflexivity. Qed.

Lemma no_int_cast {A B} e : no_int (@HErr A e) -> no_int (@HErr B e).
Proof. intros H E. apply H. inversion E. reflexivity. Qed.

Lemma no_int_guard b e : e <> HInternal -> no_int (guard b e).
Proof. destruct b; [discriminate|apply no_int_err]. Qed.

(** ** the parsers *)

Lemma parse_single_go_spec limit : forall s acc num v,
  acc < limit -> parse_single_go limit s acc num = HOk v -> v < limit.
Proof.
  induction s as [|c s IH]; intros acc num v Ha H; cbn in H.
  - destruct num; inversion H; subst. exact Ha.
  - destruct (is_digit c); [|discriminate].
    destruct (N.leb_spec limit (acc * 10 + (c - 48))); [discriminate|]. eapply IH; eassumption.
Qed.

Lemma parse_single_go_no_int limit : forall s acc num, no_int (parse_single_go limit s acc num).
Proof.
  induction s as [|c s IH]; intros acc num; cbn.
  - destruct num; [discriminate|apply no_int_err; discriminate].
  - destruct (is_digit c); [|apply no_int_err; discriminate].
    destruct (limit <=? acc * 10 + (c - 48)); [apply no_int_err; discriminate|apply IH].
Qed.

Lemma parse_u32_list_go_spec : forall s i num l,
  i < u32_limit -> parse_u32_list_go s i num = HOk l -> Forall (fun x => x < u32_limit) l.
Proof.
  induction s as [|c s IH]; intros i num l Hi H; cbn in H.
  - destruct num; inversion H; subst; repeat constructor. exact Hi.
  - destruct (is_digit c).
    + destruct (N.leb_spec u32_limit (i * 10 + (c - 48))); [discriminate|]. eapply IH; eassumption.
    + destruct (is_sp c); [|discriminate]. destruct num.
      * apply hmap_ok in H. destruct H as (l' & H & ->). constructor; [exact Hi|].
        eapply IH; [|exact H]. reflexivity.
      * eapply IH; eassumption.
Qed.

Lemma parse_u32_list_go_no_int : forall s i num, no_int (parse_u32_list_go s i num).
Proof.
  induction s as [|c s IH]; intros i num; cbn; [discriminate|].
  destruct (is_digit c).
  - destruct (u32_limit <=? i * 10 + (c - 48)); [apply no_int_err; discriminate|apply IH].
  - destruct (is_sp c); [|apply no_int_err; discriminate].
    destruct num; [apply no_int_hmap|]; apply IH.
Qed.

Lemma parse_edge_list_go_spec : forall s i n num acc l,
  i <= isize_max -> Forall (fun z => Z.abs_N z <= isize_max) acc ->
  parse_edge_list_go s i n num acc = Ok l -> Forall (fun z => Z.abs_N z <= isize_max) l.
Proof.
  assert (Hpush : forall (n : bool) i, i <= isize_max ->
            Z.abs_N (if n then Z.opp (Z.of_N i) else Z.of_N i) <= isize_max).
  { intros [|] i Hi; lia. }
  induction s as [|c s IH]; intros i n num acc l Hi Hacc H; cbn in H.
  - destruct num; inversion H; subst; [|exact Hacc].
    apply Forall_app. split; [exact Hacc|]. constructor; [apply Hpush; exact Hi|constructor].
  - destruct (is_digit c).
    + destruct (N.ltb_spec isize_max (i * 10 + (c - 48))); [discriminate|]. eapply IH; eassumption.
    + destruct (c =? 45).
      * destruct n; [discriminate|]. destruct num; [discriminate|]. eapply IH; eassumption.
      * destruct (is_sp c); [|discriminate]. destruct num.
        -- eapply IH; [| |exact H]; [unfold isize_max; lia|].
           apply Forall_app. split; [exact Hacc|]. constructor; [apply Hpush; exact Hi|constructor].
        -- eapply IH; eassumption.
Qed.

Lemma parse_rootids_spec s l : parse_rootids s = HOk l -> Forall (fun z => Z.abs_N z <= isize_max) l.
Proof.
  unfold parse_rootids, parse_edge_list. destruct (parse_edge_list_go s 0 false false []) as [l'|e] eqn:E.
  - intros H; inversion H; subst. eapply parse_edge_list_go_spec; [| |exact E]; [unfold isize_max; lia|constructor].
  - destruct e; discriminate.
Qed.

Lemma parse_rootids_no_int s : no_int (parse_rootids s).
Proof.
  unfold parse_rootids. destruct (parse_edge_list s) as [l|e]; [discriminate|].
  destruct e; apply no_int_err; discriminate.
Qed.

(** [from_utf8_lossy] never turns a non-empty string into the empty one *)
Lemma utf8_lossy_nonempty s : s <> [] -> utf8_lossy s <> [].
Proof.
  destruct s as [|b r]; [contradiction|]. intros _. cbn [utf8_lossy]. unfold repl_char.
  repeat match goal with
         | |- context [if ?c then _ else _] => destruct c
         | |- context [match ?l with [] => _ | _ :: _ => _ end] => destruct l
         end; cbn; discriminate.
Qed.

Definition nonempty_names (l : list (list byte)) : Prop := Forall (fun n => n <> []) l.

Lemma str_list_go_nonempty : forall s cur, nonempty_names (str_list_go s cur).
Proof.
  assert (Hrev : forall (c : byte) cur, rev (c :: cur) <> []).
  { intros c cur. cbn. destruct (rev cur); discriminate. }
  induction s as [|c s IH]; intros cur; cbn.
  - destruct cur; [constructor|]. constructor; [apply Hrev|constructor].
  - destruct (is_sp c); [|apply IH].
    destruct cur; [apply IH|]. constructor; [apply Hrev|apply IH].
Qed.

Lemma parse_str_list_nonempty s : nonempty_names (parse_str_list s).
Proof.
  unfold parse_str_list, nonempty_names. rewrite Forall_map.
  eapply Forall_impl; [|apply str_list_go_nonempty]. intros a. apply utf8_lossy_nonempty.
Qed.

(** ** invariant of the loop state: what the parsers guarantee *)

Record state_ok (s : hstate) : Prop := {
  so_nnodes : s_nnodes s < usize_limit;
  so_nvars : s_nvars s < u32_limit;
  so_nsupp : s_nsupp s < u32_limit;
  so_nroots : s_nroots s < usize_limit;
  so_ids : Forall (fun x => x < u32_limit) (s_ids s);
  so_permids : Forall (fun x => x < u32_limit) (s_permids s);
  so_auxids : Forall (fun x => x < u32_limit) (s_auxids s);
  so_varnames : nonempty_names (s_varnames s);
  so_suppnames : nonempty_names (s_suppnames s);
  so_ordered : nonempty_names (s_ordered s);
  so_rootids : Forall (fun z => Z.abs_N z <= isize_max) (s_rootids s);
  so_rootnames : nonempty_names (s_rootnames s)
}.

Lemma init_state_ok : state_ok init_state.
Proof. split; cbn; try constructor; reflexivity. Qed.

Definition entry_ok (e : entry) : Prop :=
  match e with
  | ENnodes n | ENroots n => n < usize_limit
  | ENvars n | ENsupp n => n < u32_limit
  | EVarnames l | ESuppnames l | EOrdered l | ERootnames l => nonempty_names l
  | EIds l | EPermids l | EAuxids l => Forall (fun x => x < u32_limit) l
  | ERootids l => Forall (fun z => Z.abs_N z <= isize_max) l
  | _ => True
  end.

Ltac parse_entry_cases :=
  unfold parse_entry;
  match goal with |- context [match split_sp ?l with _ => _ end] => destruct (split_sp l) as [[key value]|] end;
  repeat match goal with |- context [if ?c then _ else _] => destruct c end.

Lemma parse_entry_ok line e : parse_entry line = HOk e -> entry_ok e.
Proof.
  parse_entry_cases; intros H; try discriminate;
    try (inversion H; subst; cbv beta iota delta [entry_ok]; solve [exact I | apply parse_str_list_nonempty]);
    apply hmap_ok in H; destruct H as (x & H & ->); cbv beta iota delta [entry_ok];
    solve [ eapply parse_single_go_spec; [|exact H]; reflexivity
          | eapply parse_u32_list_go_spec; [|exact H]; reflexivity
          | eapply parse_rootids_spec; exact H ].
Qed.

Lemma parse_entry_no_int line : no_int (parse_entry line).
Proof.
  parse_entry_cases;
    solve [ discriminate
          | apply no_int_err; discriminate
          | apply no_int_hmap; first [apply parse_single_go_no_int | apply parse_u32_list_go_no_int | apply parse_rootids_no_int] ].
Qed.

Lemma apply_entry_ok st e : state_ok st -> entry_ok e -> state_ok (apply_entry st e).
Proof.
  intros [] He. destruct st, e; cbn in *; split; cbn; assumption.
Qed.

(** ** the line loop: fuel *)

Lemma take_line_app : forall inp l r, take_line inp = (l, r) -> inp = l ++ r.
Proof.
  induction inp as [|b inp IH]; intros l r H; cbn in H.
  - inversion H; reflexivity.
  - destruct (b =? 10); [inversion H; reflexivity|].
    destruct (take_line inp) as [l1 r1]. inversion H; subst. cbn. f_equal. apply IH. reflexivity.
Qed.

Lemma read_line_suffix inp l r : read_line inp = Ok (l, r) ->
  exists pre, inp = pre ++ r /\ pre <> [].
Proof.
  unfold read_line. destruct inp as [|b inp]; [discriminate|].
  destruct (take_line (b :: inp)) as [l1 r1] eqn:E. intros H; inversion H; subst.
  exists l1. split; [apply take_line_app; exact E|].
  cbn in E. destruct (b =? 10); [inversion E; discriminate|]. destruct (take_line inp). inversion E; discriminate.
Qed.

Lemma read_line_shorter inp l r : read_line inp = Ok (l, r) -> (length r < length inp)%nat.
Proof.
  intros H. destruct (read_line_suffix _ _ _ H) as (pre & -> & Hne).
  rewrite app_length. destruct pre; [contradiction|cbn; lia].
Qed.

(** any fuel above the number of input bytes gives the same result *)
Theorem header_loop_fuel : forall f1 f2 st inp,
  (length inp < f1)%nat -> (length inp < f2)%nat -> header_loop f1 st inp = header_loop f2 st inp.
Proof.
  induction f1 as [|f1 IH]; intros f2 st inp H1 H2; [lia|]. destruct f2 as [|f2]; [lia|]. cbn.
  destruct (read_line inp) as [[line rest]|] eqn:R; [|reflexivity].
  apply read_line_shorter in R.
  destruct (parse_entry line) as [e|]; [|reflexivity]. cbn.
  destruct e; try reflexivity; apply IH; lia.
Qed.

(** the loop keeps the invariant, never runs out of fuel, and returns a suffix of the input *)
Lemma header_loop_spec : forall f st inp,
  (length inp < f)%nat -> state_ok st ->
  no_int (header_loop f st inp) /\
  forall st' rest, header_loop f st inp = HOk (st', rest) ->
    state_ok st' /\ exists pre, inp = pre ++ rest /\ pre <> [].
Proof.
  induction f as [|f IH]; intros st inp Hf Hst; [lia|]. cbn.
  destruct (read_line inp) as [[line rest]|] eqn:R.
  2:{ split; [apply no_int_err; discriminate|discriminate]. }
  pose proof (read_line_shorter _ _ _ R) as Hlen.
  destruct (read_line_suffix _ _ _ R) as (pre & Hpre & Hne).
  pose proof (parse_entry_no_int line) as Hni. pose proof (parse_entry_ok line) as Hok.
  destruct (parse_entry line) as [e|err]; cbn.
  2:{ split; [eapply no_int_cast; exact Hni|discriminate]. }
  specialize (Hok e eq_refl).
  assert (Hrec : no_int (header_loop f (apply_entry st e) rest) /\
                 forall st' rest', header_loop f (apply_entry st e) rest = HOk (st', rest') ->
                   state_ok st' /\ exists pre', inp = pre' ++ rest' /\ pre' <> []).
  { destruct (IH (apply_entry st e) rest ltac:(lia) (apply_entry_ok _ _ Hst Hok)) as [N S].
    split; [exact N|]. intros st' rest' H. destruct (S _ _ H) as (O & pre' & -> & _).
    split; [exact O|]. exists (pre ++ pre'). split; [rewrite <- app_assoc; exact Hpre|].
    destruct pre; [contradiction|discriminate]. }
  destruct e; try exact Hrec.
  split; [discriminate|]. intros st' rest' H. inversion H; subst.
  split; [exact Hst|]. exists pre. split; [reflexivity|exact Hne].
Qed.

(** ** list helpers *)

Lemma set_nth_some {A} : forall n (x : A) l, (n < length l)%nat -> exists l', set_nth n x l = Some l'.
Proof.
  induction n as [|n IH]; intros x [|y l] H; cbn in *; try lia; [eauto|].
  destruct (IH x l ltac:(lia)) as [l' ->]. eauto.
Qed.

Lemma set_nth_spec {A} : forall n (x : A) l l', set_nth n x l = Some l' ->
  length l' = length l /\ nth_error l' n = Some x /\ (n < length l)%nat /\
  forall m, m <> n -> nth_error l' m = nth_error l m.
Proof.
  induction n as [|n IH]; intros x [|y l] l' H; cbn in H; try discriminate.
  - inversion H; subst. splits; cbn; [lia|]. intros [|m] Hm; [contradiction|reflexivity].
  - destruct (set_nth n x l) as [r|] eqn:E; [|discriminate]. inversion H; subst.
    destruct (IH _ _ _ E) as (L & N1 & Lt & O). splits; cbn; [lia|exact N1|lia|].
    intros [|m] Hm; [reflexivity|]. cbn. apply O. lia.
Qed.

(** number of elements satisfying [p] *)
Definition count {A} (p : A -> bool) (l : list A) : nat := length (filter p l).

Lemma count_set_nth {A} (p : A -> bool) : forall n x l l' old,
  set_nth n x l = Some l' -> nth_error l n = Some old ->
  (count p l' + (if p old then 1 else 0) = count p l + (if p x then 1 else 0))%nat.
Proof.
  unfold count. induction n as [|n IH]; intros x [|y l] l' old H Ho; cbn in H, Ho; try discriminate.
  - inversion H; inversion Ho; subst. cbn. destruct (p old), (p x); cbn; lia.
  - destruct (set_nth n x l) as [r|] eqn:E; [|discriminate]. inversion H; subst.
    specialize (IH _ _ _ _ E Ho). cbn. destruct (p y); cbn; lia.
Qed.

Lemma count_le {A} (p : A -> bool) l : (count p l <= length l)%nat.
Proof. unfold count. induction l as [|x l IH]; cbn; [lia|]. destruct (p x); cbn; lia. Qed.

Lemma count_all {A} (p : A -> bool) l : Forall (fun x => p x = true) l -> count p l = length l.
Proof.
  unfold count. induction 1 as [|x l Hx _ IH]; cbn; [reflexivity|]. rewrite Hx. cbn. lia.
Qed.

Lemma nth_error_combine {A B} : forall (la : list A) (lb : list B) i a b,
  nth_error (combine la lb) i = Some (a, b) <-> nth_error la i = Some a /\ nth_error lb i = Some b.
Proof.
  induction la as [|x la IH]; intros [|y lb] [|i] a b; cbn; try (split; [discriminate|intros [? ?]; discriminate]).
  - split; [intros H; inversion H; auto|intros [H1 H2]; inversion H1; inversion H2; reflexivity].
  - apply IH.
Qed.

Lemma In_combine_nth {A B} (la : list A) (lb : list B) a b :
  In (a, b) (combine la lb) -> exists i, nth_error la i = Some a /\ nth_error lb i = Some b.
Proof.
  intros H. apply In_nth_error in H. destruct H as [i H]. exists i. apply nth_error_combine. exact H.
Qed.

Lemma NoDup_app_l {A} (l l' : list A) : NoDup (l ++ l') -> NoDup l.
Proof.
  induction l as [|a l IH]; cbn; intros H; [constructor|]. inversion H; subst.
  constructor; [|apply IH; assumption]. intros Hin. apply H2. apply in_or_app. left; exact Hin.
Qed.

(** ** [sorted_strict], [check_permids], [rank] *)

Lemma sorted_strict_incr l : sorted_strict l = true -> incr l.
Proof.
  induction l as [|a l IH]; intros H; [intros [|i] j x y Hx; discriminate|].
  assert (Hhd : forall j b, nth_error l j = Some b -> a < b /\ sorted_strict l = true).
  { destruct l as [|b l]; [intros [|j] ? ?; discriminate|].
    cbn in H. apply andb_prop in H. destruct H as [Hab Hs]. apply N.ltb_lt in Hab.
    specialize (IH Hs). intros [|j] c Hc; cbn in Hc.
    - inversion Hc; subst. auto.
    - split; [|exact Hs]. specialize (IH O (S j) b c eq_refl Hc ltac:(lia)). lia. }
  intros [|i] [|j] x y Hx Hy Hij; try lia; cbn in Hx, Hy.
  - inversion Hx; subst. apply (Hhd j y Hy).
  - destruct (Hhd j y Hy) as [_ Hs]. exact (IH Hs i j x y Hx Hy ltac:(lia)).
Qed.

Lemma incr_le_last l : incr l -> forall i a, nth_error l i = Some a -> a <= last l 0.
Proof.
  intros Hi i a Ha.
  assert (Hl : l <> []) by (destruct l; [destruct i; discriminate|discriminate]).
  destruct (exists_last Hl) as (l' & z & ->). rewrite last_last.
  destruct (Nat.eq_dec i (length l')) as [->|Hne].
  - rewrite nth_error_app2, Nat.sub_diag in Ha by lia. inversion Ha. lia.
  - assert (i < length l')%nat.
    { assert (i < length (l' ++ [z]))%nat by (apply nth_error_Some; congruence).
      rewrite app_length in *. cbn in *. lia. }
    assert (Hz : nth_error (l' ++ [z]) (length l') = Some z) by (rewrite nth_error_app2, Nat.sub_diag by lia; reflexivity).
    specialize (Hi i (length l') a z Ha Hz ltac:(lia)). lia.
Qed.

Lemma incr_NoDup l : incr l -> NoDup l.
Proof.
  intros Hi. apply NoDup_nth_error. intros i j Hlt E.
  destruct (nth_error l i) as [a|] eqn:Ea; [|apply nth_error_None in Ea; lia].
  symmetry in E. destruct (Nat.lt_trichotomy i j) as [H|[H|H]]; [|exact H|].
  - specialize (Hi i j a a Ea E H). lia.
  - specialize (Hi j i a a E Ea H). lia.
Qed.

Lemma check_permids_ok nvars : forall p seen, check_permids nvars p seen = HOk tt ->
  Forall (fun l => l < nvars) p /\ NoDup p /\ forall x, In x p -> ~ In x seen.
Proof.
  induction p as [|l p IH]; intros seen H; cbn in H.
  - splits; [constructor|constructor|intros x []].
  - destruct (N.leb_spec nvars l); [discriminate|].
    destruct (existsb (N.eqb l) seen) eqn:E; [discriminate|].
    destruct (IH _ H) as (F & ND & Dis).
    assert (Hl : ~ In l seen).
    { intros Hin. assert (existsb (N.eqb l) seen = true); [|congruence].
      apply existsb_exists. exists l. split; [exact Hin|apply N.eqb_refl]. }
    splits.
    + constructor; assumption.
    + constructor; [|exact ND]. intros Hin. apply (Dis l Hin). left; reflexivity.
    + intros x [->|Hx]; [exact Hl|]. intros Hs. apply (Dis x Hx). right; exact Hs.
Qed.

Lemma check_permids_no_int nvars : forall p seen, no_int (check_permids nvars p seen).
Proof.
  induction p as [|l p IH]; intros seen; cbn; [discriminate|].
  destruct (nvars <=? l); [apply no_int_err; discriminate|].
  destruct (existsb (N.eqb l) seen); [apply no_int_err; discriminate|apply IH].
Qed.

Definition rank_nat (p : list N) (l : N) : nat := length (filter (fun x => x <? l) p).

Lemma rank_to_nat p l : N.to_nat (rank p l) = rank_nat p l.
Proof. unfold rank, len, rank_nat. apply Nat2N.id. Qed.

Lemma rank_nat_mono p a b : a <= b -> (rank_nat p a <= rank_nat p b)%nat.
Proof.
  unfold rank_nat. intros Hab. induction p as [|x p IH]; cbn; [lia|].
  destruct (N.ltb_spec x a), (N.ltb_spec x b); cbn; lia.
Qed.

(** the rank is strictly monotone on the levels that occur *)
Lemma rank_nat_lt p a b : a < b -> In a p -> (rank_nat p a < rank_nat p b)%nat.
Proof.
  intros Hab. induction p as [|x p IH]; intros Hin; [destruct Hin|].
  pose proof (rank_nat_mono p a b ltac:(lia)) as Hm. unfold rank_nat in *. cbn.
  destruct Hin as [->|Hin].
  - destruct (N.ltb_spec a a); [lia|]. destruct (N.ltb_spec a b); [|lia]. cbn. lia.
  - specialize (IH Hin). destruct (N.ltb_spec x a), (N.ltb_spec x b); cbn; lia.
Qed.

Lemma rank_nat_bound p a : In a p -> (rank_nat p a < length p)%nat.
Proof.
  unfold rank_nat. induction p as [|x p IH]; intros Hin; [destruct Hin|]. cbn.
  pose proof (count_le (fun y => y <? a) p) as Hc. unfold count in Hc.
  destruct Hin as [->|Hin].
  - destruct (N.ltb_spec a a); [lia|]. lia.
  - specialize (IH Hin). destruct (x <? a); cbn; lia.
Qed.

Lemma rank_nat_inj p a b : In a p -> In b p -> rank_nat p a = rank_nat p b -> a = b.
Proof.
  intros Ha Hb E. destruct (N.lt_trichotomy a b) as [H|[H|H]]; [|exact H|].
  - pose proof (rank_nat_lt p a b H Ha). lia.
  - pose proof (rank_nat_lt p b a H Hb). lia.
Qed.

(** [support_var_order]: every pair (variable, level) ends up at the rank of its level *)
Lemma fill_order_spec p : forall pairs acc,
  NoDup (map snd pairs) -> (forall v l, In (v, l) pairs -> In l p) -> length acc = length p ->
  exists order, fill_order pairs p acc = HOk order /\ length order = length acc /\
    (forall v l, In (v, l) pairs -> nth_error order (rank_nat p l) = Some v) /\
    (forall m, (forall v l, In (v, l) pairs -> rank_nat p l <> m) -> nth_error order m = nth_error acc m).
Proof.
  induction pairs as [|[v l] pairs IH]; intros acc ND Hin Hlen.
  - exists acc. splits; [intros v l []|reflexivity].
  - cbn [fill_order]. rewrite rank_to_nat. cbn in ND. inversion ND as [|? ? Hnot ND']; subst.
    assert (Hl : In l p) by (apply (Hin v l); left; reflexivity).
    destruct (set_nth_some (rank_nat p l) v acc) as [acc' Hs]; [rewrite Hlen; apply rank_nat_bound; exact Hl|].
    rewrite Hs. destruct (set_nth_spec _ _ _ _ Hs) as (L & N1 & _ & O).
    destruct (IH acc' ND' (fun v' l' H => Hin v' l' (or_intror H)) ltac:(lia)) as (order & Hf & Lo & Hp & Hk).
    exists order. splits; [exact Hf|lia| |].
    + intros v' l' [E|H]; [inversion E; subst|apply Hp; exact H].
      rewrite Hk; [exact N1|]. intros v2 l2 H2 Er.
      assert (l2 = l') by (eapply rank_nat_inj; [|exact Hl|exact Er]; eapply Hin; right; exact H2). subst l2.
      apply Hnot. apply in_map_iff. exists (v2, l'). split; [reflexivity|exact H2].
    + intros m Hm. rewrite Hk.
      * apply O. intros E. apply (Hm v l); [left; reflexivity|congruence].
      * intros v2 l2 H2. apply (Hm v2 l2). right; exact H2.
Qed.

(** ** the variable name block *)

Lemma nth_name_ok l i : (N.to_nat i < length l)%nat -> exists x, nth_name l i = HOk x /\ nth_error l (N.to_nat i) = Some x.
Proof.
  intros H. unfold nth_name. destruct (nth_error l (N.to_nat i)) as [x|] eqn:E; [eauto|].
  apply nth_error_None in E. lia.
Qed.

Lemma place_names_spec : forall pairs v,
  (forall n t, In (n, t) pairs -> (N.to_nat t < length v)%nat) ->
  exists v', place_names pairs v = HOk v' /\ length v' = length v.
Proof.
  induction pairs as [|[n t] pairs IH]; intros v Hr; cbn; [eauto|].
  destruct (set_nth_some (N.to_nat t) n v) as [v1 Hs]; [apply (Hr n t); left; reflexivity|].
  rewrite Hs. destruct (set_nth_spec _ _ _ _ Hs) as (L & _).
  destruct (IH v1) as (v' & H & L'); [intros n' t' H; rewrite L; apply (Hr n' t'); right; exact H|].
  exists v'. split; [exact H|lia].
Qed.

Definition emp (s : list byte) : bool := is_nil s.
Definition nemp (s : list byte) : bool := negb (is_nil s).

(** [take_names]: as many names leave [ordered] as empty places of [varnames] are filled *)
Lemma take_names_spec nv : forall pairs v o,
  length v = nv -> length o = nv ->
  (forall id pm, In (id, pm) pairs -> (N.to_nat id < nv)%nat /\ (N.to_nat pm < nv)%nat) ->
  NoDup (map fst pairs) ->
  (forall id pm, In (id, pm) pairs -> nth_error v (N.to_nat id) = Some []) ->
  (count emp v <= count nemp o)%nat ->
  exists v' o', take_names pairs v o = HOk (v', o') /\ length v' = nv /\ length o' = nv /\
                (count emp v' <= count nemp o')%nat.
Proof.
  induction pairs as [|[id pm] pairs IH]; intros v o Lv Lo Hr ND Hemp Hc; cbn [take_names].
  - exists v, o. splits; assumption.
  - destruct (Hr id pm (or_introl eq_refl)) as [Hid Hpm].
    destruct (nth_name_ok o pm ltac:(lia)) as (name & Hn & Hno). rewrite Hn. cbn [hbind].
    destruct (set_nth_some (N.to_nat pm) [] o ltac:(lia)) as [o1 Ho]. rewrite Ho.
    destruct (set_nth_some (N.to_nat id) name v ltac:(lia)) as [v1 Hv]. rewrite Hv.
    destruct (set_nth_spec _ _ _ _ Ho) as (Lo1 & _ & _ & _).
    destruct (set_nth_spec _ _ _ _ Hv) as (Lv1 & _ & _ & Ov).
    pose proof (count_set_nth nemp _ _ _ _ _ Ho Hno) as Co.
    pose proof (count_set_nth emp _ _ _ _ _ Hv (Hemp id pm (or_introl eq_refl))) as Cv.
    cbn in ND. inversion ND as [|? ? Hnot ND']; subst.
    apply IH; try lia.
    + intros id' pm' H. apply (Hr id' pm'). right; exact H.
    + exact ND'.
    + intros id' pm' H. rewrite Ov; [apply (Hemp id' pm'); right; exact H|].
      intros E. apply Hnot. apply in_map_iff. exists (id', pm'). split; [cbn; lia|exact H].
    + unfold emp, nemp in *. cbn in Co, Cv. destruct name; cbn in *; lia.
Qed.

Lemma fill_names_spec : forall v pool, (count emp v <= length pool)%nat ->
  exists r, fill_names v pool = HOk r /\ length r = length v.
Proof.
  unfold count. induction v as [|n v IH]; intros pool H; cbn; [eauto|].
  destruct n as [|c n].
  - cbn in H. destruct pool as [|q pool]; [cbn in H; lia|].
    destruct (IH pool ltac:(cbn in H; lia)) as (r & -> & L). cbn. eexists; split; [reflexivity|cbn; lia].
  - cbn in H. destruct (IH pool H) as (r & -> & L). cbn. eexists; split; [reflexivity|cbn; lia].
Qed.

Lemma check_ordered_no_int : forall pairs v o,
  (forall id pm, In (id, pm) pairs -> (N.to_nat id < length v)%nat /\ (N.to_nat pm < length o)%nat) ->
  no_int (check_ordered pairs v o).
Proof.
  induction pairs as [|[id pm] pairs IH]; intros v o Hr; cbn; [discriminate|].
  destruct (Hr id pm (or_introl eq_refl)) as [H1 H2].
  destruct (nth_name_ok v id H1) as (a & -> & _). destruct (nth_name_ok o pm H2) as (b & -> & _). cbn.
  destruct (bytes_eqb a b); [|apply no_int_err; discriminate].
  apply IH. intros id' pm' H. apply Hr. right; exact H.
Qed.

Lemma check_supp_no_int : forall pairs v,
  (forall n id, In (n, id) pairs -> (N.to_nat id < length v)%nat) -> no_int (check_supp pairs v).
Proof.
  induction pairs as [|[n id] pairs IH]; intros v Hr; cbn; [discriminate|].
  destruct (nth_name_ok v id (Hr n id (or_introl eq_refl))) as (a & -> & _). cbn.
  destruct (bytes_eqb n a); [|apply no_int_err; discriminate].
  apply IH. intros n' id' H. apply (Hr n' id'). right; exact H.
Qed.

Lemma count_repeat_emp n : count emp (repeat [] n) = n.
Proof. unfold count. induction n; cbn; [reflexivity|lia]. Qed.

Lemma nth_error_repeat {A} (x : A) n i : (i < n)%nat -> nth_error (repeat x n) i = Some x.
Proof. revert i; induction n as [|n IH]; intros [|i] H; cbn; try lia; [reflexivity|apply IH; lia]. Qed.

(** the block neither panics nor returns a list of the wrong length *)
Lemma var_names_block_spec nvars ids permids varnames suppnames ordered :
  incr ids -> Forall (fun v => v < nvars) ids -> Forall (fun l => l < nvars) permids ->
  nonempty_names ordered ->
  (ordered = [] \/ len ordered = nvars) ->
  no_int (var_names_block nvars ids permids varnames suppnames ordered) /\
  forall r, var_names_block nvars ids permids varnames suppnames ordered = HOk r ->
            r = [] \/ len r = nvars.
Proof.
  intros Hinc Hids Hperm Hne Hol. unfold var_names_block, len in *.
  assert (Hidr : forall (A : Type) (l : list A) (n : A) id, In (n, id) (combine l ids) -> (N.to_nat id < N.to_nat nvars)%nat).
  { intros A l n id H. apply in_combine_r in H. rewrite Forall_forall in Hids. specialize (Hids _ H). lia. }
  assert (Hpr : forall id pm, In (id, pm) (combine ids permids) ->
                (N.to_nat id < N.to_nat nvars)%nat /\ (N.to_nat pm < N.to_nat nvars)%nat).
  { intros id pm H. pose proof (in_combine_l _ _ _ _ H) as H1. pose proof (in_combine_r _ _ _ _ H) as H2.
    rewrite Forall_forall in Hids, Hperm. specialize (Hids _ H1). specialize (Hperm _ H2). lia. }
  destruct varnames as [|vn varnames]; cbn [is_nil].
  - destruct ordered as [|on ordered]; cbn [is_nil].
    + destruct suppnames as [|sn suppnames]; cbn [is_nil]; [split; [discriminate|intros r H; inversion H; auto]|].
      destruct (place_names_spec (combine (sn :: suppnames) ids) (repeat [] (N.to_nat nvars))) as (v' & Hp & L).
      { intros n t H. rewrite repeat_length. eapply Hidr. exact H. }
      rewrite Hp. split; [discriminate|]. intros r H; inversion H; subst. right. rewrite L, repeat_length. lia.
    + destruct Hol as [Hol|Hol]; [discriminate|].
      set (o := on :: ordered) in *.
      destruct (take_names_spec (N.to_nat nvars) (combine ids permids) (repeat [] (N.to_nat nvars)) o) as (v1 & o1 & Ht & L1 & L2 & C).
      * apply repeat_length.
      * lia.
      * exact Hpr.
      * assert (Hm : map fst (combine ids permids) = firstn (length permids) ids).
        { clear. revert permids. induction ids as [|a ids IH]; intros [|b p]; cbn; try reflexivity. f_equal. apply IH. }
        rewrite Hm. pose proof (incr_NoDup _ Hinc) as ND. rewrite <- (firstn_skipn (length permids) ids) in ND.
        apply NoDup_app_l in ND. exact ND.
      * intros id pm H. apply nth_error_repeat. apply (Hpr id pm H).
      * rewrite count_repeat_emp. unfold nemp. rewrite count_all; [lia|].
        eapply Forall_impl; [|exact Hne]. intros [|c s] H; [contradiction|reflexivity].
      * rewrite Ht. cbn [hbind].
        destruct (fill_names_spec v1 (filter (fun s => negb (is_nil s)) o1) C) as (r & Hf & Lr).
        rewrite Hf. cbn [hbind]. split.
        -- apply no_int_hbind; [|discriminate]. apply check_supp_no_int. intros n id H. rewrite Lr, L1. eapply Hidr. exact H.
        -- intros r' H. apply hbind_ok in H. destruct H as (_ & _ & H). inversion H; subst. right. lia.
  - set (v := vn :: varnames) in *. unfold guard.
    destruct (N.eqb_spec (N.of_nat (length v)) nvars) as [Hv|Hv]; cbn [hbind]; [|split; [apply no_int_err; discriminate|discriminate]].
    assert (Hcs : no_int (check_supp (combine suppnames ids) v)).
    { apply check_supp_no_int. intros n id H. pose proof (Hidr _ _ _ _ H). lia. }
    destruct (is_nil ordered) eqn:En; cbn [hbind].
    + split; [apply no_int_hbind; [exact Hcs|discriminate]|].
      intros r H. apply hbind_ok in H. destruct H as (_ & _ & H). injection H as <-. right. exact Hv.
    + assert (Hco : no_int (check_ordered (combine ids permids) v ordered)).
      { apply check_ordered_no_int. intros id pm H. destruct (Hpr id pm H).
        destruct Hol as [->|Hol]; [discriminate|]. lia. }
      split.
      * apply no_int_hbind; [exact Hco|]. intros _ _. apply no_int_hbind; [exact Hcs|discriminate].
      * intros r H. apply hbind_ok in H. destruct H as (_ & _ & H).
        apply hbind_ok in H. destruct H as (_ & _ & H). injection H as <-. right. exact Hv.
Qed.

Lemma check_roots_ok nnodes : forall l, check_roots nnodes l = HOk tt ->
  Forall (fun r => r <> 0%Z /\ Z.abs_N r <= nnodes) l.
Proof.
  induction l as [|r l IH]; intros H; cbn in H; [constructor|].
  destruct (Z.eqb_spec r 0); [discriminate|]. destruct (N.ltb_spec nnodes (Z.abs_N r)); [discriminate|].
  constructor; [split; assumption|apply IH; exact H].
Qed.

Lemma check_roots_no_int nnodes : forall l, no_int (check_roots nnodes l).
Proof.
  induction l as [|r l IH]; cbn; [discriminate|].
  destruct (r =? 0)%Z; [apply no_int_err; discriminate|].
  destruct (nnodes <? Z.abs_N r); [apply no_int_err; discriminate|apply IH].
Qed.

(** ** well-formed headers *)

Record header_wf (h : header) : Prop := {
  hw_nnodes : h_nnodes h < usize_limit;
  hw_nvars : h_nvars h < u32_limit;
  hw_ids_incr : incr (h_ids h);                                   (* strictly ascending *)
  hw_ids_range : Forall (fun v => v < h_nvars h) (h_ids h);
  hw_perm_len : length (h_permids h) = length (h_ids h);
  hw_perm_range : Forall (fun l => l < h_nvars h) (h_permids h);
  hw_perm_nodup : NoDup (h_permids h);
  hw_aux : h_auxids h = [] \/ length (h_auxids h) = length (h_ids h);
  hw_order_len : length (h_order h) = length (h_ids h);
  (* support_var_order: the support variable with the k-th smallest level is at position k *)
  hw_order : forall i v l, nth_error (h_ids h) i = Some v -> nth_error (h_permids h) i = Some l ->
             nth_error (h_order h) (rank_nat (h_permids h) l) = Some v;
  hw_varnames : h_varnames h = [] \/ len (h_varnames h) = h_nvars h;
  hw_roots : Forall (fun r => r <> 0%Z /\ Z.abs_N r <= h_nnodes h /\ Z.abs_N r <= isize_max) (h_rootids h);
  hw_rootnames : h_rootnames h = [] \/ length (h_rootnames h) = length (h_rootids h);
  hw_rootnames_ne : nonempty_names (h_rootnames h)
}.

Lemma len_eq {A B} (la : list A) (lb : list B) n : len la = n -> len lb = n -> length la = length lb.
Proof. unfold len. lia. Qed.

(** the validation part: no panic, and acceptance implies well-formedness *)
Lemma validate_spec st : state_ok st ->
  no_int (validate st) /\ forall h, validate st = HOk h -> header_wf h.
Proof.
  intros Hst. unfold validate.
  repeat match goal with
  | |- no_int (hbind (guard ?b ?e) _) /\ _ =>
      destruct b eqn:?; cbn [guard hbind]; [|split; [apply no_int_err; discriminate|discriminate]]
  end.
  apply N.leb_le in Heqb. apply N.eqb_eq in Heqb0. apply N.eqb_eq in Heqb1.
  apply sorted_strict_incr in Heqb3.
  pose proof (check_permids_no_int (s_nvars st) (s_permids st) []) as Hcn.
  destruct (check_permids (s_nvars st) (s_permids st) []) as [[]|e] eqn:Ecp; cbn [hbind]; [|split; [eapply no_int_cast; exact Hcn|discriminate]].
  destruct (check_permids_ok _ _ _ Ecp) as (Hpr & Hpnd & _).
  assert (Hlen : length (s_ids st) = length (s_permids st)) by (eapply len_eq; eassumption).
  assert (Hir : Forall (fun v => v < s_nvars st) (s_ids st)).
  { apply Forall_forall. intros x Hx. apply In_nth_error in Hx. destruct Hx as [i Hi].
    pose proof (incr_le_last _ Heqb3 _ _ Hi). destruct (s_ids st) as [|a l] eqn:El; [destruct i; discriminate|].
    cbn [is_nil orb] in Heqb4. apply N.ltb_lt in Heqb4. lia. }
  (* support_var_order *)
  destruct (fill_order_spec (s_permids st) (combine (s_ids st) (s_permids st)) (repeat 0 (N.to_nat (s_nsupp st))))
    as (order & Hfo & Lo & Ho & _).
  { assert (Hm : map snd (combine (s_ids st) (s_permids st)) = s_permids st).
    { revert Hlen. generalize (s_ids st) (s_permids st). induction l as [|a l IH]; intros [|b p] H; cbn in *; try lia; [reflexivity|].
      f_equal. apply IH. lia. }
    rewrite Hm. exact Hpnd. }
  { intros v l H. eapply in_combine_r. exact H. }
  { rewrite repeat_length. unfold len in Heqb1. lia. }
  rewrite Hfo. cbn [hbind].
  repeat match goal with
  | |- no_int (hbind (guard ?b ?e) _) /\ _ =>
      destruct b eqn:?; cbn [guard hbind]; [|split; [apply no_int_err; discriminate|discriminate]]
  end.
  assert (Hol : s_ordered st = [] \/ len (s_ordered st) = s_nvars st).
  { destruct (s_ordered st); [left; reflexivity|right]. cbn [is_nil orb] in Heqb5. apply N.eqb_eq in Heqb5. exact Heqb5. }
  destruct (var_names_block_spec (s_nvars st) (s_ids st) (s_permids st) (s_varnames st) (s_suppnames st) (s_ordered st)
              Heqb3 Hir Hpr (so_ordered _ Hst) Hol) as [Hvn Hvl].
  destruct (var_names_block (s_nvars st) (s_ids st) (s_permids st) (s_varnames st) (s_suppnames st) (s_ordered st))
    as [varnames|e] eqn:Evn; cbn [hbind]; [|split; [eapply no_int_cast; exact Hvn|discriminate]].
  repeat match goal with
  | |- no_int (hbind (guard ?b ?e) _) /\ _ =>
      destruct b eqn:?; cbn [guard hbind]; [|split; [apply no_int_err; discriminate|discriminate]]
  end.
  pose proof (check_roots_no_int (s_nnodes st) (s_rootids st)) as Hrn.
  destruct (check_roots (s_nnodes st) (s_rootids st)) as [[]|e] eqn:Ecr; cbn [hbind]; [|split; [eapply no_int_cast; exact Hrn|discriminate]].
  repeat match goal with
  | |- no_int (hbind (guard ?b ?e) _) /\ _ =>
      destruct b eqn:?; cbn [guard hbind]; [|split; [apply no_int_err; discriminate|discriminate]]
  end.
  split; [discriminate|]. intros h H. inversion H; subst; clear H.
  apply N.eqb_eq in Heqb7.
  split; cbn.
  - apply Hst.
  - apply Hst.
  - exact Heqb3.
  - exact Hir.
  - lia.
  - exact Hpr.
  - exact Hpnd.
  - destruct (s_auxids st); [left; reflexivity|right]. cbn [is_nil orb] in Heqb2. apply N.eqb_eq in Heqb2.
    eapply len_eq; eassumption.
  - rewrite Lo, repeat_length. unfold len in Heqb0. lia.
  - intros i v l Hv Hl. apply Ho. apply nth_error_In with (n := i). apply nth_error_combine. auto.
  - apply Hvl. reflexivity.
  - pose proof (check_roots_ok _ _ Ecr) as Hr. pose proof (so_rootids _ Hst) as Hb.
    rewrite Forall_forall in *. intros r Hin. destruct (Hr r Hin). splits; auto.
  - destruct (s_rootnames st); [left; reflexivity|right]. cbn [is_nil orb] in Heqb8. apply N.eqb_eq in Heqb8.
    eapply len_eq; eassumption.
  - apply Hst.
Qed.

(** ** the loader as a whole *)

(** no panic: the loader never reaches an out-of-bounds index, an [unwrap] of [None], or the
    end of its fuel *)
Theorem load_header_no_internal inp : load_header inp <> HErr HInternal.
Proof.
  unfold load_header.
  destruct (header_loop_spec (S (length inp)) init_state inp ltac:(lia) init_state_ok) as [Hn Hs].
  destruct (header_loop (S (length inp)) init_state inp) as [[st rest]|e] eqn:E; cbn [hbind]; [|eapply no_int_cast; exact Hn].
  destruct (Hs _ _ eq_refl) as (Hok & _).
  destruct (validate_spec st Hok) as [Hv _].
  destruct (validate st) as [h|e]; cbn [hbind]; [discriminate|eapply no_int_cast; exact Hv].
Qed.

(** SAFETY OF ACCEPTANCE of the header: whatever byte string is accepted, the header is
    well-formed and the remaining input is a proper suffix *)
Theorem load_header_wf inp h rest : load_header inp = HOk (h, rest) ->
  header_wf h /\ exists pre, inp = pre ++ rest /\ pre <> [].
Proof.
  unfold load_header. intros H.
  destruct (header_loop_spec (S (length inp)) init_state inp ltac:(lia) init_state_ok) as [_ Hs].
  destruct (header_loop (S (length inp)) init_state inp) as [[st rest']|e] eqn:E; cbn [hbind] in H; [|discriminate].
  destruct (Hs _ _ eq_refl) as (Hok & Hsuf).
  destruct (validate_spec st Hok) as [_ Hv].
  destruct (validate st) as [h'|e]; cbn [hbind] in H; [|discriminate]. inversion H; subst.
  split; [apply Hv; reflexivity|exact Hsuf].
Qed.

(** the fuel of [load_header] is sufficient: any larger fuel gives the same loop result *)
Theorem load_header_fuel inp f : (length inp < f)%nat ->
  header_loop f init_state inp = header_loop (S (length inp)) init_state inp.
Proof. intros H. apply header_loop_fuel; lia. Qed.

(** [support_var_order] lists the support variables by ascending level *)
Theorem header_order_by_level h : header_wf h ->
  forall i j v w l m, nth_error (h_ids h) i = Some v -> nth_error (h_permids h) i = Some l ->
    nth_error (h_ids h) j = Some w -> nth_error (h_permids h) j = Some m -> l < m ->
    exists p q, (p < q)%nat /\ nth_error (h_order h) p = Some v /\ nth_error (h_order h) q = Some w.
Proof.
  intros Hwf i j v w l m Hv Hl Hw Hm Hlt.
  exists (rank_nat (h_permids h) l), (rank_nat (h_permids h) m). splits.
  - apply rank_nat_lt; [exact Hlt|]. eapply nth_error_In. exact Hl.
  - eapply hw_order; eassumption.
  - eapply hw_order; eassumption.
Qed.
