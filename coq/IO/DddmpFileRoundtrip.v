(** * C15 (package C15h): the header loader reads back the exporter's header

    [load_header (print_header x ++ rest) = HOk (header_of x, rest)] for every well-formed
    exporter-side header [x] ([xwf]), and the whole-file round trips that compose it with the
    node-section theorems of IO/DddmpProofs.v / IO/DddmpAsciiProofs.v. *)
From Coq Require Import String Ascii.
From Coq Require Import List NArith ZArith Bool Arith Lia Permutation.
From OxiVerif Require Import IO.Dddmp IO.DddmpProofs IO.DddmpAsciiProofs IO.DddmpFile IO.DddmpFileProofs.
Import ListNotations.
Open Scope N_scope.

Arguments N.add : simpl never.
Arguments N.sub : simpl never.
Arguments N.mul : simpl never.
Arguments N.div : simpl never.
Arguments N.modulo : simpl never.
Arguments N.pow : simpl never.

Ltac splits := repeat match goal with |- _ /\ _ => split end; try exact eq_refl; try exact I.

(** ** lines *)

(** neither a line feed nor a carriage return *)
Definition okb (b : byte) : Prop := b <> 10 /\ b <> 13.
Definition plain (l : list byte) : Prop := l <> [] /\ Forall okb l.
Definition nosp (s : list byte) : Prop := Forall (fun b => is_sp b = false) s.

Lemma read_line_plain l rest : plain l -> read_line (l ++ 10 :: rest) = Ok (l, rest).
Proof.
  intros [Hne Hok]. destruct (exists_last Hne) as (body & c & ->).
  apply read_line_nl.
  - eapply Forall_impl; [|exact Hok]. intros b [H _]. exact H.
  - apply Forall_app in Hok. destruct Hok as [_ Hc]. inversion Hc; subst. apply H1.
Qed.

Lemma okb_digit b : is_digit b = true -> okb b.
Proof. intros H. apply digit_not_sp in H. split; tauto. Qed.

Lemma okb_clean b : is_space_or_control b = false -> okb b.
Proof.
  unfold is_space_or_control, is_ascii_control. intros H.
  apply orb_false_elim in H. destruct H as [H _]. apply orb_false_elim in H. destruct H as [H _].
  apply N.ltb_ge in H. split; lia.
Qed.

Lemma okb_no_control b : is_ascii_control b = false -> okb b.
Proof.
  unfold is_ascii_control. intros H. apply orb_false_elim in H. destruct H as [H _].
  apply N.ltb_ge in H. split; lia.
Qed.

Lemma Forall_okb_dec n : Forall okb (dec n).
Proof. eapply Forall_impl; [|apply dec_digits]. apply okb_digit. Qed.

Lemma Forall_okb_dec_z z : Forall okb (dec_z z).
Proof.
  unfold dec_z. destruct (z <? 0)%Z; [constructor; [split; discriminate|]|]; apply Forall_okb_dec.
Qed.

Lemma sp_list_cons {A} (f : A -> list byte) a l : sp_list f (a :: l) = 32 :: f a ++ sp_list f l.
Proof. reflexivity. Qed.
Lemma sp_list_nil {A} (f : A -> list byte) : sp_list f [] = [].
Proof. reflexivity. Qed.

Lemma Forall_okb_sp_list {A} (f : A -> list byte) l :
  Forall (fun x => Forall okb (f x)) l -> Forall okb (sp_list f l).
Proof.
  induction 1 as [|x l Hx _ IH]; [constructor|]. rewrite sp_list_cons.
  constructor; [split; discriminate|]. apply Forall_app. split; assumption.
Qed.

(** *** [trim] *)

Lemma trim_nil : trim [] = [].
Proof. reflexivity. Qed.

Lemma trim_id v :
  (exists c r, v = c :: r /\ is_sp c = false) -> (exists r c, v = r ++ [c] /\ is_sp c = false) -> trim v = v.
Proof.
  intros (c & r & -> & Hc) (r' & c' & E & Hc'). unfold trim.
  cbn [trim_start]. rewrite Hc. rewrite E, rev_app_distr. cbn [rev app trim_end_rev]. rewrite Hc'.
  change (c' :: rev r') with (rev [c'] ++ rev r'). rewrite <- rev_app_distr, rev_involutive. reflexivity.
Qed.

(** a token followed by " tok tok ..." begins and ends with a non-blank *)
Lemma tokens_ends {A} (f : A -> list byte) : forall l t, token t -> Forall (fun x => token (f x)) l ->
  exists r c, t ++ sp_list f l = r ++ [c] /\ is_sp c = false.
Proof.
  induction l as [|a l IH]; intros t [Hne Hns] Hl; [rewrite sp_list_nil|rewrite sp_list_cons].
  - destruct (exists_last Hne) as (r & c & ->). exists r, c. rewrite app_nil_r. split; [reflexivity|].
    apply Forall_app in Hns. destruct Hns as [_ Hc]. inversion Hc; assumption.
  - inversion Hl; subst. destruct (IH (f a) H1 H2) as (r & c & E & Hc).
    exists (t ++ 32 :: r), c. split; [|exact Hc]. rewrite E. rewrite <- app_assoc. reflexivity.
Qed.

Lemma trim_tokens {A} (f : A -> list byte) l t : token t -> Forall (fun x => token (f x)) l ->
  trim (t ++ sp_list f l) = t ++ sp_list f l.
Proof.
  intros Ht Hl. apply trim_id; [|apply tokens_ends; assumption].
  destruct Ht as [Hne Hns]. destruct t as [|c r]; [contradiction|]. inversion Hns; subst. cbn. eauto.
Qed.

(** *** string lists *)

Lemma str_list_go_tok : forall t tl cur, nosp t -> str_list_go (t ++ tl) cur = str_list_go tl (rev t ++ cur).
Proof.
  induction t as [|c t IH]; intros tl cur H; [reflexivity|]. inversion H; subst.
  cbn [app str_list_go]. rewrite H2, IH by assumption. cbn [rev]. rewrite <- app_assoc. reflexivity.
Qed.

Lemma str_list_go_tokens : forall l t, token t -> Forall token l ->
  str_list_go (t ++ sp_list ident l) [] = t :: l.
Proof.
  induction l as [|a l IH]; intros t [Hne Hns] Hl; [rewrite sp_list_nil|rewrite sp_list_cons].
  - rewrite str_list_go_tok by exact Hns. rewrite !app_nil_r. cbn [str_list_go].
    destruct (rev t) eqn:E; [apply (f_equal (@rev byte)) in E; rewrite rev_involutive in E; contradiction|].
    rewrite <- E, rev_involutive. reflexivity.
  - inversion Hl; subst. rewrite str_list_go_tok by exact Hns. rewrite app_nil_r. cbn [str_list_go].
    change (is_sp 32) with true. cbv iota.
    destruct (rev t) eqn:E; [apply (f_equal (@rev byte)) in E; rewrite rev_involutive in E; contradiction|].
    rewrite <- E, rev_involutive. f_equal. apply IH; assumption.
Qed.

(** names as the exporter writes them: non-empty, no blanks or control characters, valid UTF-8 *)
Definition good_name (n : list byte) : Prop := n <> [] /\ clean n /\ utf8_lossy n = n.

Lemma clean_nosp n : clean n -> nosp n.
Proof.
  apply Forall_impl. intros b H. unfold is_space_or_control in H. apply orb_false_elim in H.
  destruct H as [Hc Hs]. unfold is_ascii_control in Hc. apply orb_false_elim in Hc. destruct Hc as [Hc _].
  apply N.ltb_ge in Hc. apply N.eqb_neq in Hs. unfold is_sp.
  destruct (N.eqb_spec b 32); [contradiction|]. destruct (N.eqb_spec b 9); [lia|]. reflexivity.
Qed.

Lemma good_name_token n : good_name n -> token n.
Proof. intros (H1 & H2 & _). split; [exact H1|apply clean_nosp; exact H2]. Qed.

Lemma good_name_okb n : good_name n -> Forall okb n.
Proof. intros (_ & H & _). eapply Forall_impl; [|exact H]. apply okb_clean. Qed.

Lemma parse_str_list_names l : Forall good_name l ->
  parse_str_list (trim (match l with [] => [] | t :: r => t ++ sp_list ident r end)) = l.
Proof.
  intros H. destruct l as [|t r]; [reflexivity|]. inversion H; subst.
  assert (Ht : token t) by (apply good_name_token; assumption).
  assert (Hr : Forall token r) by (eapply Forall_impl; [|eassumption]; apply good_name_token).
  rewrite trim_tokens by assumption. unfold parse_str_list. rewrite str_list_go_tokens by assumption.
  apply map_id_Forall. eapply Forall_impl; [|exact H]. intros n Hn. apply Hn.
Qed.

(** *** number lists *)

Lemma u32_digits : forall ds i v tl,
  digits_val ds i = Some v -> v < u32_limit -> forall num,
  parse_u32_list_go (ds ++ tl) i num = parse_u32_list_go tl v (match ds with [] => num | _ => true end).
Proof.
  induction ds as [|c ds IH]; intros i v tl Hv Hl num.
  - cbn in Hv. inversion Hv; subst. reflexivity.
  - cbn in Hv. destruct (is_digit c) eqn:E; [|discriminate]. cbn [app parse_u32_list_go]. rewrite E.
    pose proof (digits_val_ge _ _ _ Hv).
    destruct (N.leb_spec u32_limit (i * 10 + (c - 48))); [lia|].
    rewrite (IH _ _ tl Hv Hl). destruct ds; reflexivity.
Qed.

Lemma parse_u32_list_go_dec : forall l a, a < u32_limit -> Forall (fun x => x < u32_limit) l ->
  parse_u32_list_go (dec a ++ sp_list dec l) 0 false = HOk (a :: l).
Proof.
  induction l as [|b l IH]; intros a Ha Hl; [rewrite sp_list_nil|rewrite sp_list_cons].
  - rewrite (u32_digits _ 0 a [] (digits_val_dec a) Ha).
    pose proof (dec_nonempty a). destruct (dec a); [contradiction|]. reflexivity.
  - inversion Hl; subst. rewrite (u32_digits _ 0 a _ (digits_val_dec a) Ha).
    pose proof (dec_nonempty a). destruct (dec a); [contradiction|].
    cbn [parse_u32_list_go]. change (is_digit 32) with false. change (is_sp 32) with true. cbv iota.
    rewrite IH by assumption. reflexivity.
Qed.

Lemma parse_u32_list_dec l : Forall (fun x => x < u32_limit) l ->
  parse_u32_list (trim (match l with [] => [] | a :: r => dec a ++ sp_list dec r end)) = HOk l.
Proof.
  intros H. destruct l as [|a r]; [reflexivity|]. inversion H; subst.
  rewrite trim_tokens; [|apply token_dec|apply Forall_forall; intros; apply token_dec].
  apply parse_u32_list_go_dec; assumption.
Qed.

Lemma token_dec_z z : token (dec_z z).
Proof.
  unfold dec_z. destruct (z <? 0)%Z; [|apply token_dec].
  destruct (token_dec (Z.abs_N z)) as [_ H]. split; [discriminate|constructor; [reflexivity|exact H]].
Qed.

Lemma parse_edge_list_go_dec_z : forall l a acc, Z.abs_N a <= isize_max ->
  Forall (fun z => Z.abs_N z <= isize_max) l ->
  parse_edge_list_go (dec_z a ++ sp_list dec_z l) 0 false false acc = Ok (acc ++ a :: l).
Proof.
  induction l as [|b l IH]; intros a acc Ha Hl; [rewrite sp_list_nil|rewrite sp_list_cons].
  - rewrite app_nil_r. apply pel_dec_z_end. exact Ha.
  - inversion Hl; subst. rewrite pel_dec_z_sp by exact Ha. rewrite IH by assumption.
    rewrite <- app_assoc. reflexivity.
Qed.

Lemma parse_rootids_dec l : Forall (fun z => Z.abs_N z <= isize_max) l ->
  parse_rootids (trim (match l with [] => [] | a :: r => dec_z a ++ sp_list dec_z r end)) = HOk l.
Proof.
  intros H. destruct l as [|a r]; [reflexivity|]. inversion H; subst.
  rewrite trim_tokens; [|apply token_dec_z|apply Forall_forall; intros; apply token_dec_z].
  unfold parse_rootids, parse_edge_list. rewrite parse_edge_list_go_dec_z by assumption. reflexivity.
Qed.

(** *** single numbers *)

Lemma parse_single_go_digits limit : forall ds i v,
  digits_val ds i = Some v -> v < limit -> forall num, (ds <> [] \/ num = true) ->
  parse_single_go limit ds i num = HOk v.
Proof.
  induction ds as [|c ds IH]; intros i v Hv Hl num Hn.
  - cbn in Hv. inversion Hv; subst. destruct Hn as [H| ->]; [contradiction|reflexivity].
  - cbn in Hv. destruct (is_digit c) eqn:E; [|discriminate]. cbn [parse_single_go]. rewrite E.
    pose proof (digits_val_ge _ _ _ Hv).
    destruct (N.leb_spec limit (i * 10 + (c - 48))); [lia|].
    apply IH; [exact Hv|exact Hl|right; reflexivity].
Qed.

Lemma trim_dec n : trim (dec n) = dec n.
Proof.
  rewrite <- (app_nil_r (dec n)). change [] with (sp_list dec []).
  apply trim_tokens; [apply token_dec|constructor].
Qed.

Lemma parse_single_dec limit n : n < limit -> parse_single_go limit (trim (dec n)) 0 false = HOk n.
Proof.
  intros H. rewrite trim_dec. apply parse_single_go_digits; [apply digits_val_dec|exact H|left; apply dec_nonempty].
Qed.

(** ** [parse_entry] on the lines of [print_header] *)

Lemma nosp_bs_key (k : list byte) : forallb (fun b => negb (is_sp b)) k = true -> nosp k.
Proof.
  intros H. apply Forall_forall. intros b Hb. rewrite forallb_forall in H. specialize (H b Hb).
  destruct (is_sp b); [discriminate|reflexivity].
Qed.

Ltac key_line := unfold parse_entry; rewrite split_sp_token by (apply nosp_bs_key; reflexivity); reflexivity.

Lemma pe_dd v : parse_entry (bs ".dd" ++ 32 :: v) = HOk (EDd (utf8_lossy (trim v))).
Proof. key_line. Qed.
Lemma pe_nnodes v : parse_entry (bs ".nnodes" ++ 32 :: v) = hmap ENnodes (parse_single_usize (trim v)).
Proof. key_line. Qed.
Lemma pe_nvars v : parse_entry (bs ".nvars" ++ 32 :: v) = hmap ENvars (parse_single_u32 (trim v)).
Proof. key_line. Qed.
Lemma pe_nsupp v : parse_entry (bs ".nsuppvars" ++ 32 :: v) = hmap ENsupp (parse_single_u32 (trim v)).
Proof. key_line. Qed.
Lemma pe_nroots v : parse_entry (bs ".nroots" ++ 32 :: v) = hmap ENroots (parse_single_usize (trim v)).
Proof. key_line. Qed.
Lemma pe_varnames v : parse_entry (bs ".varnames" ++ 32 :: v) = HOk (EVarnames (parse_str_list (trim v))).
Proof. key_line. Qed.
Lemma pe_suppnames v : parse_entry (bs ".suppvarnames" ++ 32 :: v) = HOk (ESuppnames (parse_str_list (trim v))).
Proof. key_line. Qed.
Lemma pe_ordered v : parse_entry (bs ".orderedvarnames" ++ 32 :: v) = HOk (EOrdered (parse_str_list (trim v))).
Proof. key_line. Qed.
Lemma pe_rootnames v : parse_entry (bs ".rootnames" ++ 32 :: v) = HOk (ERootnames (parse_str_list (trim v))).
Proof. key_line. Qed.
Lemma pe_ids v : parse_entry (bs ".ids" ++ 32 :: v) = hmap EIds (parse_u32_list (trim v)).
Proof. key_line. Qed.
Lemma pe_permids v : parse_entry (bs ".permids" ++ 32 :: v) = hmap EPermids (parse_u32_list (trim v)).
Proof. key_line. Qed.
Lemma pe_rootids v : parse_entry (bs ".rootids" ++ 32 :: v) = hmap ERootids (parse_rootids (trim v)).
Proof. key_line. Qed.

(** a key followed by a blank-separated list: [key] alone for the empty list *)
Lemma key_sp_list {A} (key : list byte) (f : A -> list byte) l :
  key ++ sp_list f l = match l with [] => key | a :: r => key ++ 32 :: (f a ++ sp_list f r) end.
Proof. destruct l; [apply app_nil_r|reflexivity]. Qed.

Lemma pe_names_list (key : list byte) (mk : list (list byte) -> entry) l :
  (forall v, parse_entry (key ++ 32 :: v) = HOk (mk (parse_str_list (trim v)))) ->
  parse_entry key = HOk (mk []) ->
  Forall good_name l -> parse_entry (key ++ sp_list ident l) = HOk (mk l).
Proof.
  intros Hk H0 Hl. rewrite key_sp_list. destruct l as [|a r]; [exact H0|].
  rewrite Hk. change (ident a) with a. rewrite (parse_str_list_names (a :: r) Hl). reflexivity.
Qed.

Lemma pe_u32_list (key : list byte) (mk : list N -> entry) l :
  (forall v, parse_entry (key ++ 32 :: v) = hmap mk (parse_u32_list (trim v))) ->
  parse_entry key = HOk (mk []) ->
  Forall (fun x => x < u32_limit) l -> parse_entry (key ++ sp_list dec l) = HOk (mk l).
Proof.
  intros Hk H0 Hl. rewrite key_sp_list. destruct l as [|a r]; [exact H0|].
  rewrite Hk. rewrite (parse_u32_list_dec (a :: r) Hl). reflexivity.
Qed.

Lemma pe_rootids_list l : Forall (fun z => Z.abs_N z <= isize_max) l ->
  parse_entry (bs ".rootids" ++ sp_list dec_z l) = HOk (ERootids l).
Proof.
  intros Hl. rewrite key_sp_list. destruct l as [|a r]; [reflexivity|].
  rewrite pe_rootids. rewrite (parse_rootids_dec (a :: r) Hl). reflexivity.
Qed.

(** ** the lines of [print_header] and the entries they parse to *)

Notation xlines := header_lines.

Definition xentries (x : xheader) : list entry :=
  [EVer; EMode (x_ascii x); EVarinfo VINone] ++
  (if is_nil (x_dd x) then [] else [EDd (utf8_lossy (trim (wdd x)))]) ++
  [ENnodes (x_nnodes x); ENvars (x_nvars x); ENsupp (len (x_supp x))] ++
  (match x_names x with
   | None => []
   | Some names =>
     (if x_ver3 x then [EVarnames names] else []) ++
     [ESuppnames (map (name_of names) (x_ids x)); EOrdered (map (name_of names) (x_l2v x))]
   end) ++
  [EIds (x_ids x); EPermids (x_permids x); ENroots (len (x_rootids x)); ERootids (x_rootids x)] ++
  (match x_rootnames x with None => [] | Some rn => [ERootnames rn] end).

Lemma unlines_app a b : unlines (a ++ b) = unlines a ++ unlines b.
Proof. apply flat_map_app. Qed.

Lemma print_header_lines x : print_header x = unlines (xlines x) ++ bs ".nodes" ++ [10].
Proof. reflexivity. Qed.

(** the well-formedness of the exporter-side header: what [export_common] reads from a manager *)
Record xwf (x : xheader) : Prop := {
  xw_nnodes : x_nnodes x < usize_limit;
  xw_nvars : x_nvars x < u32_limit;
  (* [var_to_level] is injective into [0, nvars) and [level_to_var] is its inverse *)
  xw_levels : Forall (fun p => fst p < x_nvars x) (x_vars x);
  xw_levels_nodup : NoDup (map fst (x_vars x));
  xw_l2v_len : len (x_l2v x) = x_nvars x;
  xw_l2v : forall v l s, nth_error (x_vars x) v = Some (l, s) -> nth_error (x_l2v x) (N.to_nat l) = Some (N.of_nat v);
  (* names as [write_var] prints them *)
  xw_names : match x_names x with None => True | Some ns => len ns = x_nvars x /\ Forall good_name ns end;
  xw_nroots : len (x_rootids x) < usize_limit;
  xw_rootids : Forall (fun r => r <> 0%Z /\ Z.abs_N r <= x_nnodes x /\ Z.abs_N r <= isize_max) (x_rootids x);
  xw_rootnames : match x_rootnames x with
                 | None => True
                 | Some rn => length rn = length (x_rootids x) /\ Forall good_name rn
                 end
}.

(** *** facts about the support lists *)

Lemma supp_from_spec : forall vars v p,
  In p (supp_from v vars) <->
  exists i, nth_error vars i = Some (snd p, true) /\ fst p = v + N.of_nat i.
Proof.
  induction vars as [|[l s] vars IH]; intros v p; cbn [supp_from].
  - split; [intros []|intros (i & H & _); destruct i; discriminate].
  - assert (Hrec : In p (supp_from (v + 1) vars) <->
                   exists i, nth_error ((l, s) :: vars) (S i) = Some (snd p, true) /\ fst p = v + N.of_nat (S i)).
    { rewrite IH. split; intros (i & H & E); exists i; (split; [exact H|lia]). }
    destruct s.
    + split.
      * intros [<-|H]; [exists O; cbn; split; [reflexivity|lia]|].
        apply Hrec in H. destruct H as (i & H & E). exists (S i). auto.
      * intros ([|i] & H & E).
        -- left. cbn in H. inversion H. destruct p; cbn in *. f_equal; lia.
        -- right. apply Hrec. exists i. auto.
    + rewrite Hrec. split.
      * intros (i & H & E). exists (S i). auto.
      * intros ([|i] & H & E); [cbn in H; inversion H|]. exists i. auto.
Qed.

Lemma supp_from_length : forall vars v, (length (supp_from v vars) <= length vars)%nat.
Proof. induction vars as [|[l [|]] vars IH]; intros v; cbn; [lia| |]; specialize (IH (v + 1)); lia. Qed.

Lemma supp_from_sorted : forall vars v,
  sorted_strict (map fst (supp_from v vars)) = true /\ Forall (fun p => v <= fst p) (supp_from v vars).
Proof.
  induction vars as [|[l s] vars IH]; intros v; cbn [supp_from]; [split; [reflexivity|constructor]|].
  destruct (IH (v + 1)) as [Hs Hf].
  assert (Hf' : Forall (fun p => v <= fst p) (supp_from (v + 1) vars)).
  { eapply Forall_impl; [|exact Hf]. cbn. intros; lia. }
  destruct s; [|split; assumption]. split; [|constructor; [cbn; lia|exact Hf']].
  cbn [map fst]. destruct (supp_from (v + 1) vars) as [|q r] eqn:E; [reflexivity|].
  cbn [map sorted_strict] in *. rewrite Hs. inversion Hf; subst.
  destruct (N.ltb_spec v (fst q)); [reflexivity|lia].
Qed.

(** *** every line is plain and parses to its entry *)

Lemma plain_key_app (k v : list byte) : k <> [] -> Forall okb k -> Forall okb v -> plain (k ++ v).
Proof.
  intros Hk Fk Fv. split; [destruct k; [contradiction|discriminate]|]. apply Forall_app. split; assumption.
Qed.

Ltac okb_closed := repeat constructor; discriminate.

Lemma Forall_okb_bs_key (k : list byte) : forallb (fun b => negb ((b =? 10) || (b =? 13))) k = true -> Forall okb k.
Proof.
  intros H. apply Forall_forall. intros b Hb. rewrite forallb_forall in H. specialize (H b Hb).
  destruct (N.eqb_spec b 10); [discriminate|]. destruct (N.eqb_spec b 13); [discriminate|]. split; assumption.
Qed.

Ltac plain_line := apply plain_key_app; [discriminate|apply Forall_okb_bs_key; reflexivity|].

Definition line_entry (l : list byte) (e : entry) : Prop := plain l /\ parse_entry l = HOk e /\ e <> ENodes.

Lemma sp_list_map {A} (f : A -> list byte) l : sp_list f l = sp_list ident (map f l).
Proof. unfold sp_list. induction l as [|a l IH]; cbn; [reflexivity|]. rewrite IH. reflexivity. Qed.

Lemma le_number (key : string) (mk : N -> entry) limit n :
  (forall v, parse_entry (bs key ++ 32 :: v) = hmap mk (parse_single_go limit (trim v) 0 false)) ->
  bs key <> [] -> forallb (fun b => negb ((b =? 10) || (b =? 13))) (bs key) = true ->
  (forall m, mk m <> ENodes) ->
  n < limit -> line_entry ((bs key ++ [32]) ++ dec n) (mk n).
Proof.
  intros Hk Hne Hkb Hmk Hn. split; [|split].
  - rewrite <- app_assoc. apply plain_key_app; [exact Hne|apply Forall_okb_bs_key; exact Hkb|].
    constructor; [split; discriminate|apply Forall_okb_dec].
  - rewrite <- app_assoc. cbn [app]. rewrite Hk, parse_single_dec by exact Hn. reflexivity.
  - apply Hmk.
Qed.

Lemma le_names (key : string) (mk : list (list byte) -> entry) l :
  (forall v, parse_entry (bs key ++ 32 :: v) = HOk (mk (parse_str_list (trim v)))) ->
  parse_entry (bs key) = HOk (mk []) ->
  bs key <> [] -> forallb (fun b => negb ((b =? 10) || (b =? 13))) (bs key) = true ->
  (forall m, mk m <> ENodes) ->
  Forall good_name l -> line_entry (bs key ++ sp_list ident l) (mk l).
Proof.
  intros Hk H0 Hne Hkb Hmk Hl. split; [|split].
  - apply plain_key_app; [exact Hne|apply Forall_okb_bs_key; exact Hkb|].
    apply Forall_okb_sp_list. eapply Forall_impl; [|exact Hl]. apply good_name_okb.
  - apply pe_names_list; assumption.
  - apply Hmk.
Qed.

Lemma le_u32s (key : string) (mk : list N -> entry) l :
  (forall v, parse_entry (bs key ++ 32 :: v) = hmap mk (parse_u32_list (trim v))) ->
  parse_entry (bs key) = HOk (mk []) ->
  bs key <> [] -> forallb (fun b => negb ((b =? 10) || (b =? 13))) (bs key) = true ->
  (forall m, mk m <> ENodes) ->
  Forall (fun x => x < u32_limit) l -> line_entry (bs key ++ sp_list dec l) (mk l).
Proof.
  intros Hk H0 Hne Hkb Hmk Hl. split; [|split].
  - apply plain_key_app; [exact Hne|apply Forall_okb_bs_key; exact Hkb|].
    apply Forall_okb_sp_list. apply Forall_forall. intros; apply Forall_okb_dec.
  - apply pe_u32_list; assumption.
  - apply Hmk.
Qed.

Lemma x_ids_range x : xwf x -> Forall (fun v => v < x_nvars x) (x_ids x).
Proof.
  intros Hx. unfold x_ids. rewrite Forall_map. apply Forall_forall. intros p Hp.
  apply supp_from_spec in Hp. destruct Hp as (i & Hi & E).
  assert (i < length (x_vars x))%nat by (apply nth_error_Some; congruence).
  unfold x_nvars, len. lia.
Qed.

Lemma x_permids_range x : xwf x -> Forall (fun l => l < x_nvars x) (x_permids x).
Proof.
  intros Hx. unfold x_permids. rewrite Forall_map. apply Forall_forall. intros p Hp.
  apply supp_from_spec in Hp. destruct Hp as (i & Hi & E).
  pose proof (xw_levels x Hx) as Hl. rewrite Forall_forall in Hl.
  apply (Hl (snd p, true)). eapply nth_error_In. exact Hi.
Qed.

Lemma Forall_lt_trans (l : list N) a b : a <= b -> Forall (fun v => v < a) l -> Forall (fun v => v < b) l.
Proof. intros H. apply Forall_impl. intros; lia. Qed.

Lemma name_of_good names v : Forall good_name names -> (N.to_nat v < length names)%nat -> good_name (name_of names v).
Proof.
  intros Hn Hv. unfold name_of. rewrite Forall_forall in Hn. apply Hn. apply nth_In. exact Hv.
Qed.

Lemma x_l2v_range x : xwf x -> Forall (fun v => v < x_nvars x) (x_l2v x).
Proof.
  intros Hx. apply Forall_forall. intros v Hv. apply In_nth_error in Hv. destruct Hv as [l Hl].
  (* every level below nvars is the level of some variable (pigeonhole) *)
  assert (Hlt : (l < length (x_l2v x))%nat) by (apply nth_error_Some; congruence).
  pose proof (xw_l2v_len x Hx) as Hlen. unfold x_nvars, len in *.
  set (levels := map fst (x_vars x)).
  assert (Hincl : incl (map N.of_nat (seq 0 (length (x_vars x)))) levels).
  { apply NoDup_length_incl.
    - apply (xw_levels_nodup x Hx).
    - unfold levels. rewrite !map_length, seq_length. lia.
    - intros a Ha. unfold levels in Ha. apply in_map_iff in Ha. destruct Ha as (p & <- & Hp).
      pose proof (xw_levels x Hx) as Hr. rewrite Forall_forall in Hr. specialize (Hr p Hp). unfold x_nvars, len in Hr.
      apply in_map_iff. exists (N.to_nat (fst p)). split; [lia|]. apply in_seq. lia. }
  assert (Hin : In (N.of_nat l) levels).
  { apply Hincl. apply in_map. apply in_seq. lia. }
  unfold levels in Hin. apply in_map_iff in Hin. destruct Hin as ([l' s] & El & Hp). cbn in El. subst l'.
  apply In_nth_error in Hp. destruct Hp as [w Hw].
  pose proof (xw_l2v x Hx w _ _ Hw) as H. rewrite Nat2N.id in H.
  assert (v = N.of_nat w) by congruence. subst v.
  assert (w < length (x_vars x))%nat by (apply nth_error_Some; congruence). lia.
Qed.

Lemma lines_entries x : xwf x -> Forall2 line_entry (xlines x) (xentries x).
Proof.
  intros Hx. unfold xlines, xentries.
  pose proof (x_ids_range x Hx) as Hids. pose proof (x_permids_range x Hx) as Hperm.
  pose proof (xw_nvars x Hx) as Hnv.
  repeat apply Forall2_app.
  - (* .ver .mode .varinfo *)
    unfold vername. destruct (x_ver3 x), (x_ascii x);
      repeat constructor; solve [discriminate | apply Forall_okb_bs_key; reflexivity].
  - (* .dd *)
    destruct (x_dd x) as [|c dd] eqn:Edd; cbn [is_nil]; [constructor|]. constructor; [|constructor].
    split; [|split; [|discriminate]].
    + plain_line. unfold wdd, write_replacing_control. cbn [fst]. rewrite Forall_map.
      apply Forall_forall. intros b _. destruct (is_ascii_control b) eqn:E; [split; discriminate|apply okb_no_control; exact E].
    + change (bs ".dd " ++ wdd x) with (bs ".dd" ++ 32 :: wdd x). apply pe_dd.
  - (* numbers *)
    constructor; [|constructor; [|constructor; [|constructor]]].
    + apply (le_number ".nnodes" ENnodes usize_limit); [apply pe_nnodes|discriminate|reflexivity|discriminate|apply Hx].
    + apply (le_number ".nvars" ENvars u32_limit); [apply pe_nvars|discriminate|reflexivity|discriminate|exact Hnv].
    + apply (le_number ".nsuppvars" ENsupp u32_limit); [apply pe_nsupp|discriminate|reflexivity|discriminate|].
      pose proof (supp_from_length (x_vars x) 0). unfold x_supp, x_nvars in *. unfold len in *. lia.
  - (* names *)
    pose proof (xw_names x Hx) as Hn. destruct (x_names x) as [names|]; [|constructor].
    destruct Hn as [Hlen Hgood]. apply Forall2_app.
    + destruct (x_ver3 x); [|constructor]. constructor; [|constructor].
      apply (le_names ".varnames" EVarnames); [apply pe_varnames|reflexivity|discriminate|reflexivity|discriminate|exact Hgood].
    + assert (Hnm : forall l, Forall (fun v => v < x_nvars x) l -> Forall good_name (map (name_of names) l)).
      { intros l Hl. rewrite Forall_map. eapply Forall_impl; [|exact Hl]. intros v Hv.
        apply name_of_good; [exact Hgood|]. cbv beta in Hv. unfold len in Hlen. lia. }
      constructor; [|constructor; [|constructor]].
      * rewrite sp_list_map.
        apply (le_names ".suppvarnames" ESuppnames); [apply pe_suppnames|reflexivity|discriminate|reflexivity|discriminate|].
        apply Hnm. exact Hids.
      * rewrite sp_list_map.
        apply (le_names ".orderedvarnames" EOrdered); [apply pe_ordered|reflexivity|discriminate|reflexivity|discriminate|].
        apply Hnm. apply x_l2v_range. exact Hx.
  - (* .ids .permids .nroots .rootids *)
    constructor; [|constructor; [|constructor; [|constructor; [|constructor]]]].
    + apply (le_u32s ".ids" EIds); [apply pe_ids|reflexivity|discriminate|reflexivity|discriminate|].
      eapply Forall_lt_trans; [|exact Hids]. lia.
    + apply (le_u32s ".permids" EPermids); [apply pe_permids|reflexivity|discriminate|reflexivity|discriminate|].
      eapply Forall_lt_trans; [|exact Hperm]. lia.
    + apply (le_number ".nroots" ENroots usize_limit); [apply pe_nroots|discriminate|reflexivity|discriminate|apply Hx].
    + split; [|split; [|discriminate]].
      * plain_line. apply Forall_okb_sp_list. apply Forall_forall. intros; apply Forall_okb_dec_z.
      * apply pe_rootids_list. eapply Forall_impl; [|apply (xw_rootids x Hx)]. cbn. tauto.
  - (* .rootnames *)
    pose proof (xw_rootnames x Hx) as Hr. destruct (x_rootnames x) as [rn|]; [|constructor].
    constructor; [|constructor].
    apply (le_names ".rootnames" ERootnames); [apply pe_rootnames|reflexivity|discriminate|reflexivity|discriminate|apply Hr].
Qed.

(** ** the loop over the lines *)

Definition hl (st : hstate) (inp : list byte) : hres (hstate * list byte) :=
  header_loop (S (length inp)) st inp.

Lemma header_loop_S f st inp :
  header_loop (S f) st inp =
  match read_line inp with
  | Err _ => HErr HEof
  | Ok (line, rest) =>
    e <~ parse_entry line ;;
    match e with
    | ENodes => HOk (st, rest)
    | _ => header_loop f (apply_entry st e) rest
    end
  end.
Proof. reflexivity. Qed.

Lemma hl_step st l e rest : line_entry l e -> hl st (l ++ 10 :: rest) = hl (apply_entry st e) rest.
Proof.
  intros (Hp & He & Hn). unfold hl at 1. rewrite header_loop_S.
  rewrite read_line_plain by exact Hp. rewrite He. cbn [hbind].
  assert (header_loop (length (l ++ 10 :: rest)) (apply_entry st e) rest = hl (apply_entry st e) rest).
  { apply header_loop_fuel; [rewrite app_length; cbn; lia|lia]. }
  destruct e; try exact H. contradiction.
Qed.

Lemma hl_lines : forall ls es st tail, Forall2 line_entry ls es ->
  hl st (unlines ls ++ tail) = hl (fold_left apply_entry es st) tail.
Proof.
  induction ls as [|l ls IH]; intros es st tail H; inversion H; subst; [reflexivity|].
  cbn [unlines flat_map fold_left]. rewrite <- !app_assoc. cbn [app].
  rewrite (hl_step st l y) by assumption. apply IH. assumption.
Qed.

Lemma pe_nodes : parse_entry (bs ".nodes") = HOk ENodes.
Proof. vm_compute. reflexivity. Qed.

Lemma hl_nodes st rest : hl st (bs ".nodes" ++ 10 :: rest) = HOk (st, rest).
Proof.
  unfold hl. rewrite header_loop_S.
  rewrite read_line_plain by (split; [discriminate|apply Forall_okb_bs_key; reflexivity]).
  rewrite pe_nodes. reflexivity.
Qed.

(** the local variables of the loader after the header lines of [print_header x] *)
Definition st_of (x : xheader) : hstate :=
  mkHS (x_ascii x) VINone (utf8_lossy (trim (wdd x))) (x_nnodes x) (x_nvars x) (len (x_supp x)) (len (x_rootids x))
       (x_ids x) (x_permids x) []
       (match x_names x with Some ns => if x_ver3 x then ns else [] | None => [] end)
       (match x_names x with Some ns => map (name_of ns) (x_ids x) | None => [] end)
       (match x_names x with Some ns => map (name_of ns) (x_l2v x) | None => [] end)
       (x_rootids x)
       (match x_rootnames x with Some rn => rn | None => [] end).

Lemma fold_entries x : fold_left apply_entry (xentries x) init_state = st_of x.
Proof.
  unfold xentries, st_of, wdd.
  destruct (x_dd x) as [|c dd], (x_names x) as [names|], (x_ver3 x), (x_rootnames x) as [rn|]; reflexivity.
Qed.

Lemma header_loop_print x rest : xwf x ->
  header_loop (S (length (print_header x ++ rest))) init_state (print_header x ++ rest) = HOk (st_of x, rest).
Proof.
  intros Hx. change (hl init_state (print_header x ++ rest) = HOk (st_of x, rest)).
  rewrite print_header_lines, <- !app_assoc. cbn [app].
  rewrite (hl_lines _ _ _ _ (lines_entries x Hx)), fold_entries.
  apply (hl_nodes (st_of x) rest).
Qed.
