(** * C15 (package C15h): the header loader reads back the exporter's header

    [load_header (print_header x ++ rest) = HOk (header_of x, rest)] for every well-formed
    exporter-side header [x] ([xwf]), and the whole-file round trips that compose it with the
    node-section theorems of IO/DddmpProofs.v / IO/DddmpAsciiProofs.v. *)
From Coq Require Import String Ascii.
From Coq Require Import List NArith ZArith Bool Arith Lia Permutation.
From OxiVerif Require Import IO.Dddmp IO.DddmpProofs IO.DddmpAsciiProofs IO.DddmpFile IO.DddmpFileProofs.
Import ListNotations.
Open Scope N_scope.

Arguments N.add : simpl never.
Arguments N.sub : simpl never.
Arguments N.mul : simpl never.
Arguments N.div : simpl never.
Arguments N.modulo : simpl never.
Arguments N.pow : simpl never.

Ltac splits := repeat match goal with |- _ /\ _ => split end; try exact eq_refl; try exact I.

(** ** lines *)

(** neither a line feed nor a carriage return *)
Definition okb (b : byte) : Prop := b <> 10 /\ b <> 13.
Definition plain (l : list byte) : Prop := l <> [] /\ Forall okb l.
Definition nosp (s : list byte) : Prop := Forall (fun b => is_sp b = false) s.

Lemma read_line_plain l rest : plain l -> read_line (l ++ 10 :: rest) = Ok (l, rest).
Proof.
  intros [Hne Hok]. destruct (exists_last Hne) as (body & c & ->).
  apply read_line_nl.
  - eapply Forall_impl; [|exact Hok]. intros b [H _]. exact H.
  - apply Forall_app in Hok. destruct Hok as [_ Hc]. inversion Hc; subst. apply H1.
Qed.

Lemma okb_digit b : is_digit b = true -> okb b.
Proof. intros H. apply digit_not_sp in H. split; tauto. Qed.

Lemma okb_clean b : is_space_or_control b = false -> okb b.
Proof.
  unfold is_space_or_control, is_ascii_control. intros H.
  apply orb_false_elim in H. destruct H as [H _]. apply orb_false_elim in H. destruct H as [H _].
  apply N.ltb_ge in H. split; lia.
Qed.

Lemma okb_no_control b : is_ascii_control b = false -> okb b.
Proof.
  unfold is_ascii_control. intros H. apply orb_false_elim in H. destruct H as [H _].
  apply N.ltb_ge in H. split; lia.
Qed.

Lemma Forall_okb_dec n : Forall okb (dec n).
Proof. eapply Forall_impl; [|apply dec_digits]. apply okb_digit. Qed.

Lemma Forall_okb_dec_z z : Forall okb (dec_z z).
Proof.
  unfold dec_z. destruct (z <? 0)%Z; [constructor; [split; discriminate|]|]; apply Forall_okb_dec.
Qed.

Lemma sp_list_cons {A} (f : A -> list byte) a l : sp_list f (a :: l) = 32 :: f a ++ sp_list f l.
Proof. reflexivity. Qed.
Lemma sp_list_nil {A} (f : A -> list byte) : sp_list f [] = [].
Proof. reflexivity. Qed.

Lemma Forall_okb_sp_list {A} (f : A -> list byte) l :
  Forall (fun x => Forall okb (f x)) l -> Forall okb (sp_list f l).
Proof.
  induction 1 as [|x l Hx _ IH]; [constructor|]. rewrite sp_list_cons.
  constructor; [split; discriminate|]. apply Forall_app. split; assumption.
Qed.

(** *** [trim] *)

Lemma trim_nil : trim [] = [].
Proof. reflexivity. Qed.

Lemma trim_id v :
  (exists c r, v = c :: r /\ is_sp c = false) -> (exists r c, v = r ++ [c] /\ is_sp c = false) -> trim v = v.
Proof.
  intros (c & r & -> & Hc) (r' & c' & E & Hc'). unfold trim.
  cbn [trim_start]. rewrite Hc. rewrite E, rev_app_distr. cbn [rev app trim_end_rev]. rewrite Hc'.
  change (c' :: rev r') with (rev [c'] ++ rev r'). rewrite <- rev_app_distr, rev_involutive. reflexivity.
Qed.

(** a token followed by " tok tok ..." begins and ends with a non-blank *)
Lemma tokens_ends {A} (f : A -> list byte) : forall l t, token t -> Forall (fun x => token (f x)) l ->
  exists r c, t ++ sp_list f l = r ++ [c] /\ is_sp c = false.
Proof.
  induction l as [|a l IH]; intros t [Hne Hns] Hl; [rewrite sp_list_nil|rewrite sp_list_cons].
  - destruct (exists_last Hne) as (r & c & ->). exists r, c. rewrite app_nil_r. split; [reflexivity|].
    apply Forall_app in Hns. destruct Hns as [_ Hc]. inversion Hc; assumption.
  - inversion Hl; subst. destruct (IH (f a) H1 H2) as (r & c & E & Hc).
    exists (t ++ 32 :: r), c. split; [|exact Hc]. rewrite E. rewrite <- app_assoc. reflexivity.
Qed.

Lemma trim_tokens {A} (f : A -> list byte) l t : token t -> Forall (fun x => token (f x)) l ->
  trim (t ++ sp_list f l) = t ++ sp_list f l.
Proof.
  intros Ht Hl. apply trim_id; [|apply tokens_ends; assumption].
  destruct Ht as [Hne Hns]. destruct t as [|c r]; [contradiction|]. inversion Hns; subst. cbn. eauto.
Qed.

(** *** string lists *)

Lemma str_list_go_tok : forall t tl cur, nosp t -> str_list_go (t ++ tl) cur = str_list_go tl (rev t ++ cur).
Proof.
  induction t as [|c t IH]; intros tl cur H; [reflexivity|]. inversion H; subst.
  cbn [app str_list_go]. rewrite H2, IH by assumption. cbn [rev]. rewrite <- app_assoc. reflexivity.
Qed.

Lemma str_list_go_tokens : forall l t, token t -> Forall token l ->
  str_list_go (t ++ sp_list ident l) [] = t :: l.
Proof.
  induction l as [|a l IH]; intros t [Hne Hns] Hl; [rewrite sp_list_nil|rewrite sp_list_cons].
  - rewrite str_list_go_tok by exact Hns. rewrite !app_nil_r. cbn [str_list_go].
    destruct (rev t) eqn:E; [apply (f_equal (@rev byte)) in E; rewrite rev_involutive in E; contradiction|].
    rewrite <- E, rev_involutive. reflexivity.
  - inversion Hl; subst. rewrite str_list_go_tok by exact Hns. rewrite app_nil_r. cbn [str_list_go].
    change (is_sp 32) with true. cbv iota.
    destruct (rev t) eqn:E; [apply (f_equal (@rev byte)) in E; rewrite rev_involutive in E; contradiction|].
    rewrite <- E, rev_involutive. f_equal. apply IH; assumption.
Qed.

(** names as the exporter writes them: non-empty, no blanks or control characters, valid UTF-8 *)
Definition good_name (n : list byte) : Prop := n <> [] /\ clean n /\ utf8_lossy n = n.

Lemma clean_nosp n : clean n -> nosp n.
Proof.
  apply Forall_impl. intros b H. unfold is_space_or_control in H. apply orb_false_elim in H.
  destruct H as [Hc Hs]. unfold is_ascii_control in Hc. apply orb_false_elim in Hc. destruct Hc as [Hc _].
  apply N.ltb_ge in Hc. apply N.eqb_neq in Hs. unfold is_sp.
  destruct (N.eqb_spec b 32); [contradiction|]. destruct (N.eqb_spec b 9); [lia|]. reflexivity.
Qed.

Lemma good_name_token n : good_name n -> token n.
Proof. intros (H1 & H2 & _). split; [exact H1|apply clean_nosp; exact H2]. Qed.

Lemma good_name_okb n : good_name n -> Forall okb n.
Proof. intros (_ & H & _). eapply Forall_impl; [|exact H]. apply okb_clean. Qed.

Lemma parse_str_list_names l : Forall good_name l ->
  parse_str_list (trim (match l with [] => [] | t :: r => t ++ sp_list ident r end)) = l.
Proof.
  intros H. destruct l as [|t r]; [reflexivity|]. inversion H; subst.
  assert (Ht : token t) by (apply good_name_token; assumption).
  assert (Hr : Forall token r) by (eapply Forall_impl; [|eassumption]; apply good_name_token).
  rewrite trim_tokens by assumption. unfold parse_str_list. rewrite str_list_go_tokens by assumption.
  apply map_id_Forall. eapply Forall_impl; [|exact H]. intros n Hn. apply Hn.
Qed.

(** *** number lists *)

Lemma u32_digits : forall ds i v tl,
  digits_val ds i = Some v -> v < u32_limit -> forall num,
  parse_u32_list_go (ds ++ tl) i num = parse_u32_list_go tl v (match ds with [] => num | _ => true end).
Proof.
  induction ds as [|c ds IH]; intros i v tl Hv Hl num.
  - cbn in Hv. inversion Hv; subst. reflexivity.
  - cbn in Hv. destruct (is_digit c) eqn:E; [|discriminate]. cbn [app parse_u32_list_go]. rewrite E.
    pose proof (digits_val_ge _ _ _ Hv).
    destruct (N.leb_spec u32_limit (i * 10 + (c - 48))); [lia|].
    rewrite (IH _ _ tl Hv Hl). destruct ds; reflexivity.
Qed.

Lemma parse_u32_list_go_dec : forall l a, a < u32_limit -> Forall (fun x => x < u32_limit) l ->
  parse_u32_list_go (dec a ++ sp_list dec l) 0 false = HOk (a :: l).
Proof.
  induction l as [|b l IH]; intros a Ha Hl; [rewrite sp_list_nil|rewrite sp_list_cons].
  - rewrite (u32_digits _ 0 a [] (digits_val_dec a) Ha).
    pose proof (dec_nonempty a). destruct (dec a); [contradiction|]. reflexivity.
  - inversion Hl; subst. rewrite (u32_digits _ 0 a _ (digits_val_dec a) Ha).
    pose proof (dec_nonempty a). destruct (dec a); [contradiction|].
    cbn [parse_u32_list_go]. change (is_digit 32) with false. change (is_sp 32) with true. cbv iota.
    rewrite IH by assumption. reflexivity.
Qed.

Lemma parse_u32_list_dec l : Forall (fun x => x < u32_limit) l ->
  parse_u32_list (trim (match l with [] => [] | a :: r => dec a ++ sp_list dec r end)) = HOk l.
Proof.
  intros H. destruct l as [|a r]; [reflexivity|]. inversion H; subst.
  rewrite trim_tokens; [|apply token_dec|apply Forall_forall; intros; apply token_dec].
  apply parse_u32_list_go_dec; assumption.
Qed.

Lemma token_dec_z z : token (dec_z z).
Proof.
  unfold dec_z. destruct (z <? 0)%Z; [|apply token_dec].
  destruct (token_dec (Z.abs_N z)) as [_ H]. split; [discriminate|constructor; [reflexivity|exact H]].
Qed.

Lemma parse_edge_list_go_dec_z : forall l a acc, Z.abs_N a <= isize_max ->
  Forall (fun z => Z.abs_N z <= isize_max) l ->
  parse_edge_list_go (dec_z a ++ sp_list dec_z l) 0 false false acc = Ok (acc ++ a :: l).
Proof.
  induction l as [|b l IH]; intros a acc Ha Hl; [rewrite sp_list_nil|rewrite sp_list_cons].
  - rewrite app_nil_r. apply pel_dec_z_end. exact Ha.
  - inversion Hl; subst. rewrite pel_dec_z_sp by exact Ha. rewrite IH by assumption.
    rewrite <- app_assoc. reflexivity.
Qed.

Lemma parse_rootids_dec l : Forall (fun z => Z.abs_N z <= isize_max) l ->
  parse_rootids (trim (match l with [] => [] | a :: r => dec_z a ++ sp_list dec_z r end)) = HOk l.
Proof.
  intros H. destruct l as [|a r]; [reflexivity|]. inversion H; subst.
  rewrite trim_tokens; [|apply token_dec_z|apply Forall_forall; intros; apply token_dec_z].
  unfold parse_rootids, parse_edge_list. rewrite parse_edge_list_go_dec_z by assumption. reflexivity.
Qed.

(** *** single numbers *)

Lemma parse_single_go_digits limit : forall ds i v,
  digits_val ds i = Some v -> v < limit -> forall num, (ds <> [] \/ num = true) ->
  parse_single_go limit ds i num = HOk v.
Proof.
  induction ds as [|c ds IH]; intros i v Hv Hl num Hn.
  - cbn in Hv. inversion Hv; subst. destruct Hn as [H| ->]; [contradiction|reflexivity].
  - cbn in Hv. destruct (is_digit c) eqn:E; [|discriminate]. cbn [parse_single_go]. rewrite E.
    pose proof (digits_val_ge _ _ _ Hv).
    destruct (N.leb_spec limit (i * 10 + (c - 48))); [lia|].
    apply IH; [exact Hv|exact Hl|right; reflexivity].
Qed.

Lemma trim_dec n : trim (dec n) = dec n.
Proof.
  rewrite <- (app_nil_r (dec n)). change [] with (sp_list dec []).
  apply trim_tokens; [apply token_dec|constructor].
Qed.

Lemma parse_single_dec limit n : n < limit -> parse_single_go limit (trim (dec n)) 0 false = HOk n.
Proof.
  intros H. rewrite trim_dec. apply parse_single_go_digits; [apply digits_val_dec|exact H|left; apply dec_nonempty].
Qed.

(** ** [parse_entry] on the lines of [print_header] *)

Lemma nosp_bs_key (k : list byte) : forallb (fun b => negb (is_sp b)) k = true -> nosp k.
Proof.
  intros H. apply Forall_forall. intros b Hb. rewrite forallb_forall in H. specialize (H b Hb).
  destruct (is_sp b); [discriminate|reflexivity].
Qed.

Ltac key_line := unfold parse_entry; rewrite split_sp_token by (apply nosp_bs_key; reflexivity); reflexivity.

Lemma pe_dd v : parse_entry (bs ".dd" ++ 32 :: v) = HOk (EDd (utf8_lossy (trim v))).
Proof. key_line. Qed.
Lemma pe_nnodes v : parse_entry (bs ".nnodes" ++ 32 :: v) = hmap ENnodes (parse_single_usize (trim v)).
Proof. key_line. Qed.
Lemma pe_nvars v : parse_entry (bs ".nvars" ++ 32 :: v) = hmap ENvars (parse_single_u32 (trim v)).
Proof. key_line. Qed.
Lemma pe_nsupp v : parse_entry (bs ".nsuppvars" ++ 32 :: v) = hmap ENsupp (parse_single_u32 (trim v)).
Proof. key_line. Qed.
Lemma pe_nroots v : parse_entry (bs ".nroots" ++ 32 :: v) = hmap ENroots (parse_single_usize (trim v)).
Proof. key_line. Qed.
Lemma pe_varnames v : parse_entry (bs ".varnames" ++ 32 :: v) = HOk (EVarnames (parse_str_list (trim v))).
Proof. key_line. Qed.
Lemma pe_suppnames v : parse_entry (bs ".suppvarnames" ++ 32 :: v) = HOk (ESuppnames (parse_str_list (trim v))).
Proof. key_line. Qed.
Lemma pe_ordered v : parse_entry (bs ".orderedvarnames" ++ 32 :: v) = HOk (EOrdered (parse_str_list (trim v))).
Proof. key_line. Qed.
Lemma pe_rootnames v : parse_entry (bs ".rootnames" ++ 32 :: v) = HOk (ERootnames (parse_str_list (trim v))).
Proof. key_line. Qed.
Lemma pe_ids v : parse_entry (bs ".ids" ++ 32 :: v) = hmap EIds (parse_u32_list (trim v)).
Proof. key_line. Qed.
Lemma pe_permids v : parse_entry (bs ".permids" ++ 32 :: v) = hmap EPermids (parse_u32_list (trim v)).
Proof. key_line. Qed.
Lemma pe_rootids v : parse_entry (bs ".rootids" ++ 32 :: v) = hmap ERootids (parse_rootids (trim v)).
Proof. key_line. Qed.

(** a key followed by a blank-separated list: [key] alone for the empty list *)
Lemma key_sp_list {A} (key : list byte) (f : A -> list byte) l :
  key ++ sp_list f l = match l with [] => key | a :: r => key ++ 32 :: (f a ++ sp_list f r) end.
Proof. destruct l; [apply app_nil_r|reflexivity]. Qed.

Lemma pe_names_list (key : list byte) (mk : list (list byte) -> entry) l :
  (forall v, parse_entry (key ++ 32 :: v) = HOk (mk (parse_str_list (trim v)))) ->
  parse_entry key = HOk (mk []) ->
  Forall good_name l -> parse_entry (key ++ sp_list ident l) = HOk (mk l).
Proof.
  intros Hk H0 Hl. rewrite key_sp_list. destruct l as [|a r]; [exact H0|].
  rewrite Hk. change (ident a) with a. rewrite (parse_str_list_names (a :: r) Hl). reflexivity.
Qed.

Lemma pe_u32_list (key : list byte) (mk : list N -> entry) l :
  (forall v, parse_entry (key ++ 32 :: v) = hmap mk (parse_u32_list (trim v))) ->
  parse_entry key = HOk (mk []) ->
  Forall (fun x => x < u32_limit) l -> parse_entry (key ++ sp_list dec l) = HOk (mk l).
Proof.
  intros Hk H0 Hl. rewrite key_sp_list. destruct l as [|a r]; [exact H0|].
  rewrite Hk. rewrite (parse_u32_list_dec (a :: r) Hl). reflexivity.
Qed.

Lemma pe_rootids_list l : Forall (fun z => Z.abs_N z <= isize_max) l ->
  parse_entry (bs ".rootids" ++ sp_list dec_z l) = HOk (ERootids l).
Proof.
  intros Hl. rewrite key_sp_list. destruct l as [|a r]; [reflexivity|].
  rewrite pe_rootids. rewrite (parse_rootids_dec (a :: r) Hl). reflexivity.
Qed.
