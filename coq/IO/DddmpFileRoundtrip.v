(** * C15 (package C15h): the header loader reads back the exporter's header

    [load_header (print_header x ++ rest) = HOk (header_of x, rest)] for every well-formed
    exporter-side header [x] ([xwf]), and the whole-file round trips that compose it with the
    node-section theorems of IO/DddmpProofs.v / IO/DddmpAsciiProofs.v. *)
From Coq Require Import String Ascii.
From Coq Require Import List NArith ZArith Bool Arith Lia Permutation.
From OxiVerif Require Import IO.Dddmp IO.DddmpProofs IO.DddmpAsciiProofs IO.DddmpFile IO.DddmpFileProofs.
Import ListNotations.
Open Scope N_scope.

Arguments N.add : simpl never.
Arguments N.sub : simpl never.
Arguments N.mul : simpl never.
Arguments N.div : simpl never.
Arguments N.modulo : simpl never.
Arguments N.pow : simpl never.

Ltac splits := repeat match goal with |- _ /\ _ => split end; try exact eq_refl; try exact I.

(** ** lines *)

(** neither a line feed nor a carriage return *)
Definition okb (b : byte) : Prop := b <> 10 /\ b <> 13.
Definition plain (l : list byte) : Prop := l <> [] /\ Forall okb l.
Definition nosp (s : list byte) : Prop := Forall (fun b => is_sp b = false) s.

Lemma read_line_plain l rest : plain l -> read_line (l ++ 10 :: rest) = Ok (l, rest).
Proof.
  intros [Hne Hok]. destruct (exists_last Hne) as (body & c & ->).
  apply read_line_nl.
  - eapply Forall_impl; [|exact Hok]. intros b [H _]. exact H.
  - apply Forall_app in Hok. destruct Hok as [_ Hc]. inversion Hc; subst. apply H1.
Qed.

Lemma okb_digit b : is_digit b = true -> okb b.
Proof. intros H. apply digit_not_sp in H. split; tauto. Qed.

Lemma okb_clean b : is_space_or_control b = false -> okb b.
Proof.
  unfold is_space_or_control, is_ascii_control. intros H.
  apply orb_false_elim in H. destruct H as [H _]. apply orb_false_elim in H. destruct H as [H _].
  apply N.ltb_ge in H. split; lia.
Qed.

Lemma okb_no_control b : is_ascii_control b = false -> okb b.
Proof.
  unfold is_ascii_control. intros H. apply orb_false_elim in H. destruct H as [H _].
  apply N.ltb_ge in H. split; lia.
Qed.

Lemma Forall_okb_dec n : Forall okb (dec n).
Proof. eapply Forall_impl; [|apply dec_digits]. apply okb_digit. Qed.

Lemma Forall_okb_dec_z z : Forall okb (dec_z z).
Proof.
  unfold dec_z. destruct (z <? 0)%Z; [constructor; [split; discriminate|]|]; apply Forall_okb_dec.
Qed.

Lemma sp_list_cons {A} (f : A -> list byte) a l : sp_list f (a :: l) = 32 :: f a ++ sp_list f l.
Proof. reflexivity. Qed.
Lemma sp_list_nil {A} (f : A -> list byte) : sp_list f [] = [].
Proof. reflexivity. Qed.

Lemma Forall_okb_sp_list {A} (f : A -> list byte) l :
  Forall (fun x => Forall okb (f x)) l -> Forall okb (sp_list f l).
Proof.
  induction 1 as [|x l Hx _ IH]; [constructor|]. rewrite sp_list_cons.
  constructor; [split; discriminate|]. apply Forall_app. split; assumption.
Qed.

(** *** [trim] *)

Lemma trim_nil : trim [] = [].
Proof. reflexivity. Qed.

Lemma trim_id v :
  (exists c r, v = c :: r /\ is_sp c = false) -> (exists r c, v = r ++ [c] /\ is_sp c = false) -> trim v = v.
Proof.
  intros (c & r & -> & Hc) (r' & c' & E & Hc'). unfold trim.
  cbn [trim_start]. rewrite Hc. rewrite E, rev_app_distr. cbn [rev app trim_end_rev]. rewrite Hc'.
  change (c' :: rev r') with (rev [c'] ++ rev r'). rewrite <- rev_app_distr, rev_involutive. reflexivity.
Qed.

(** a token followed by " tok tok ..." begins and ends with a non-blank *)
Lemma tokens_ends {A} (f : A -> list byte) : forall l t, token t -> Forall (fun x => token (f x)) l ->
  exists r c, t ++ sp_list f l = r ++ [c] /\ is_sp c = false.
Proof.
  induction l as [|a l IH]; intros t [Hne Hns] Hl; [rewrite sp_list_nil|rewrite sp_list_cons].
  - destruct (exists_last Hne) as (r & c & ->). exists r, c. rewrite app_nil_r. split; [reflexivity|].
    apply Forall_app in Hns. destruct Hns as [_ Hc]. inversion Hc; assumption.
  - inversion Hl; subst. destruct (IH (f a) H1 H2) as (r & c & E & Hc).
    exists (t ++ 32 :: r), c. split; [|exact Hc]. rewrite E. rewrite <- app_assoc. reflexivity.
Qed.

Lemma trim_tokens {A} (f : A -> list byte) l t : token t -> Forall (fun x => token (f x)) l ->
  trim (t ++ sp_list f l) = t ++ sp_list f l.
Proof.
  intros Ht Hl. apply trim_id; [|apply tokens_ends; assumption].
  destruct Ht as [Hne Hns]. destruct t as [|c r]; [contradiction|]. inversion Hns; subst. cbn. eauto.
Qed.

(** *** string lists *)

Lemma str_list_go_tok : forall t tl cur, nosp t -> str_list_go (t ++ tl) cur = str_list_go tl (rev t ++ cur).
Proof.
  induction t as [|c t IH]; intros tl cur H; [reflexivity|]. inversion H; subst.
  cbn [app str_list_go]. rewrite H2, IH by assumption. cbn [rev]. rewrite <- app_assoc. reflexivity.
Qed.

Lemma str_list_go_tokens : forall l t, token t -> Forall token l ->
  str_list_go (t ++ sp_list ident l) [] = t :: l.
Proof.
  induction l as [|a l IH]; intros t [Hne Hns] Hl; [rewrite sp_list_nil|rewrite sp_list_cons].
  - rewrite str_list_go_tok by exact Hns. rewrite !app_nil_r. cbn [str_list_go].
    destruct (rev t) eqn:E; [apply (f_equal (@rev byte)) in E; rewrite rev_involutive in E; contradiction|].
    rewrite <- E, rev_involutive. reflexivity.
  - inversion Hl; subst. rewrite str_list_go_tok by exact Hns. rewrite app_nil_r. cbn [str_list_go].
    change (is_sp 32) with true. cbv iota.
    destruct (rev t) eqn:E; [apply (f_equal (@rev byte)) in E; rewrite rev_involutive in E; contradiction|].
    rewrite <- E, rev_involutive. f_equal. apply IH; assumption.
Qed.

(** names as the exporter writes them: non-empty, no blanks or control characters, valid UTF-8 *)
Definition good_name (n : list byte) : Prop := n <> [] /\ clean n /\ utf8_lossy n = n.

Lemma clean_nosp n : clean n -> nosp n.
Proof.
  apply Forall_impl. intros b H. unfold is_space_or_control in H. apply orb_false_elim in H.
  destruct H as [Hc Hs]. unfold is_ascii_control in Hc. apply orb_false_elim in Hc. destruct Hc as [Hc _].
  apply N.ltb_ge in Hc. apply N.eqb_neq in Hs. unfold is_sp.
  destruct (N.eqb_spec b 32); [contradiction|]. destruct (N.eqb_spec b 9); [lia|]. reflexivity.
Qed.

Lemma good_name_token n : good_name n -> token n.
Proof. intros (H1 & H2 & _). split; [exact H1|apply clean_nosp; exact H2]. Qed.

Lemma good_name_okb n : good_name n -> Forall okb n.
Proof. intros (_ & H & _). eapply Forall_impl; [|exact H]. apply okb_clean. Qed.

Lemma parse_str_list_names l : Forall good_name l ->
  parse_str_list (trim (match l with [] => [] | t :: r => t ++ sp_list ident r end)) = l.
Proof.
  intros H. destruct l as [|t r]; [reflexivity|]. inversion H; subst.
  assert (Ht : token t) by (apply good_name_token; assumption).
  assert (Hr : Forall token r) by (eapply Forall_impl; [|eassumption]; apply good_name_token).
  rewrite trim_tokens by assumption. unfold parse_str_list. rewrite str_list_go_tokens by assumption.
  apply map_id_Forall. eapply Forall_impl; [|exact H]. intros n Hn. apply Hn.
Qed.

(** *** number lists *)

Lemma u32_digits : forall ds i v tl,
  digits_val ds i = Some v -> v < u32_limit -> forall num,
  parse_u32_list_go (ds ++ tl) i num = parse_u32_list_go tl v (match ds with [] => num | _ => true end).
Proof.
  induction ds as [|c ds IH]; intros i v tl Hv Hl num.
  - cbn in Hv. inversion Hv; subst. reflexivity.
  - cbn in Hv. destruct (is_digit c) eqn:E; [|discriminate]. cbn [app parse_u32_list_go]. rewrite E.
    pose proof (digits_val_ge _ _ _ Hv).
    destruct (N.leb_spec u32_limit (i * 10 + (c - 48))); [lia|].
    rewrite (IH _ _ tl Hv Hl). destruct ds; reflexivity.
Qed.

Lemma parse_u32_list_go_dec : forall l a, a < u32_limit -> Forall (fun x => x < u32_limit) l ->
  parse_u32_list_go (dec a ++ sp_list dec l) 0 false = HOk (a :: l).
Proof.
  induction l as [|b l IH]; intros a Ha Hl; [rewrite sp_list_nil|rewrite sp_list_cons].
  - rewrite (u32_digits _ 0 a [] (digits_val_dec a) Ha).
    pose proof (dec_nonempty a). destruct (dec a); [contradiction|]. reflexivity.
  - inversion Hl; subst. rewrite (u32_digits _ 0 a _ (digits_val_dec a) Ha).
    pose proof (dec_nonempty a). destruct (dec a); [contradiction|].
    cbn [parse_u32_list_go]. change (is_digit 32) with false. change (is_sp 32) with true. cbv iota.
    rewrite IH by assumption. reflexivity.
Qed.

Lemma parse_u32_list_dec l : Forall (fun x => x < u32_limit) l ->
  parse_u32_list (trim (match l with [] => [] | a :: r => dec a ++ sp_list dec r end)) = HOk l.
Proof.
  intros H. destruct l as [|a r]; [reflexivity|]. inversion H; subst.
  rewrite trim_tokens; [|apply token_dec|apply Forall_forall; intros; apply token_dec].
  apply parse_u32_list_go_dec; assumption.
Qed.

Lemma token_dec_z z : token (dec_z z).
Proof.
  unfold dec_z. destruct (z <? 0)%Z; [|apply token_dec].
  destruct (token_dec (Z.abs_N z)) as [_ H]. split; [discriminate|constructor; [reflexivity|exact H]].
Qed.

Lemma parse_edge_list_go_dec_z : forall l a acc, Z.abs_N a <= isize_max ->
  Forall (fun z => Z.abs_N z <= isize_max) l ->
  parse_edge_list_go (dec_z a ++ sp_list dec_z l) 0 false false acc = Ok (acc ++ a :: l).
Proof.
  induction l as [|b l IH]; intros a acc Ha Hl; [rewrite sp_list_nil|rewrite sp_list_cons].
  - rewrite app_nil_r. apply pel_dec_z_end. exact Ha.
  - inversion Hl; subst. rewrite pel_dec_z_sp by exact Ha. rewrite IH by assumption.
    rewrite <- app_assoc. reflexivity.
Qed.

Lemma parse_rootids_dec l : Forall (fun z => Z.abs_N z <= isize_max) l ->
  parse_rootids (trim (match l with [] => [] | a :: r => dec_z a ++ sp_list dec_z r end)) = HOk l.
Proof.
  intros H. destruct l as [|a r]; [reflexivity|]. inversion H; subst.
  rewrite trim_tokens; [|apply token_dec_z|apply Forall_forall; intros; apply token_dec_z].
  unfold parse_rootids, parse_edge_list. rewrite parse_edge_list_go_dec_z by assumption. reflexivity.
Qed.

(** *** single numbers *)

Lemma parse_single_go_digits limit : forall ds i v,
  digits_val ds i = Some v -> v < limit -> forall num, (ds <> [] \/ num = true) ->
  parse_single_go limit ds i num = HOk v.
Proof.
  induction ds as [|c ds IH]; intros i v Hv Hl num Hn.
  - cbn in Hv. inversion Hv; subst. destruct Hn as [H| ->]; [contradiction|reflexivity].
  - cbn in Hv. destruct (is_digit c) eqn:E; [|discriminate]. cbn [parse_single_go]. rewrite E.
    pose proof (digits_val_ge _ _ _ Hv).
    destruct (N.leb_spec limit (i * 10 + (c - 48))); [lia|].
    apply IH; [exact Hv|exact Hl|right; reflexivity].
Qed.

Lemma trim_dec n : trim (dec n) = dec n.
Proof.
  rewrite <- (app_nil_r (dec n)). change [] with (sp_list dec []).
  apply trim_tokens; [apply token_dec|constructor].
Qed.

Lemma parse_single_dec limit n : n < limit -> parse_single_go limit (trim (dec n)) 0 false = HOk n.
Proof.
  intros H. rewrite trim_dec. apply parse_single_go_digits; [apply digits_val_dec|exact H|left; apply dec_nonempty].
Qed.

(** ** [parse_entry] on the lines of [print_header] *)

Lemma nosp_bs_key (k : list byte) : forallb (fun b => negb (is_sp b)) k = true -> nosp k.
Proof.
  intros H. apply Forall_forall. intros b Hb. rewrite forallb_forall in H. specialize (H b Hb).
  destruct (is_sp b); [discriminate|reflexivity].
Qed.

Ltac key_line := unfold parse_entry; rewrite split_sp_token by (apply nosp_bs_key; reflexivity); reflexivity.

Lemma pe_dd v : parse_entry (bs ".dd" ++ 32 :: v) = HOk (EDd (utf8_lossy (trim v))).
Proof. key_line. Qed.
Lemma pe_nnodes v : parse_entry (bs ".nnodes" ++ 32 :: v) = hmap ENnodes (parse_single_usize (trim v)).
Proof. key_line. Qed.
Lemma pe_nvars v : parse_entry (bs ".nvars" ++ 32 :: v) = hmap ENvars (parse_single_u32 (trim v)).
Proof. key_line. Qed.
Lemma pe_nsupp v : parse_entry (bs ".nsuppvars" ++ 32 :: v) = hmap ENsupp (parse_single_u32 (trim v)).
Proof. key_line. Qed.
Lemma pe_nroots v : parse_entry (bs ".nroots" ++ 32 :: v) = hmap ENroots (parse_single_usize (trim v)).
Proof. key_line. Qed.
Lemma pe_varnames v : parse_entry (bs ".varnames" ++ 32 :: v) = HOk (EVarnames (parse_str_list (trim v))).
Proof. key_line. Qed.
Lemma pe_suppnames v : parse_entry (bs ".suppvarnames" ++ 32 :: v) = HOk (ESuppnames (parse_str_list (trim v))).
Proof. key_line. Qed.
Lemma pe_ordered v : parse_entry (bs ".orderedvarnames" ++ 32 :: v) = HOk (EOrdered (parse_str_list (trim v))).
Proof. key_line. Qed.
Lemma pe_rootnames v : parse_entry (bs ".rootnames" ++ 32 :: v) = HOk (ERootnames (parse_str_list (trim v))).
Proof. key_line. Qed.
Lemma pe_ids v : parse_entry (bs ".ids" ++ 32 :: v) = hmap EIds (parse_u32_list (trim v)).
Proof. key_line. Qed.
Lemma pe_permids v : parse_entry (bs ".permids" ++ 32 :: v) = hmap EPermids (parse_u32_list (trim v)).
Proof. key_line. Qed.
Lemma pe_rootids v : parse_entry (bs ".rootids" ++ 32 :: v) = hmap ERootids (parse_rootids (trim v)).
Proof. key_line. Qed.

(** a key followed by a blank-separated list: [key] alone for the empty list *)
Lemma key_sp_list {A} (key : list byte) (f : A -> list byte) l :
  key ++ sp_list f l = match l with [] => key | a :: r => key ++ 32 :: (f a ++ sp_list f r) end.
Proof. destruct l; [apply app_nil_r|reflexivity]. Qed.

Lemma pe_names_list (key : list byte) (mk : list (list byte) -> entry) l :
  (forall v, parse_entry (key ++ 32 :: v) = HOk (mk (parse_str_list (trim v)))) ->
  parse_entry key = HOk (mk []) ->
  Forall good_name l -> parse_entry (key ++ sp_list ident l) = HOk (mk l).
Proof.
  intros Hk H0 Hl. rewrite key_sp_list. destruct l as [|a r]; [exact H0|].
  rewrite Hk. change (ident a) with a. rewrite (parse_str_list_names (a :: r) Hl). reflexivity.
Qed.

Lemma pe_u32_list (key : list byte) (mk : list N -> entry) l :
  (forall v, parse_entry (key ++ 32 :: v) = hmap mk (parse_u32_list (trim v))) ->
  parse_entry key = HOk (mk []) ->
  Forall (fun x => x < u32_limit) l -> parse_entry (key ++ sp_list dec l) = HOk (mk l).
Proof.
  intros Hk H0 Hl. rewrite key_sp_list. destruct l as [|a r]; [exact H0|].
  rewrite Hk. rewrite (parse_u32_list_dec (a :: r) Hl). reflexivity.
Qed.

Lemma pe_rootids_list l : Forall (fun z => Z.abs_N z <= isize_max) l ->
  parse_entry (bs ".rootids" ++ sp_list dec_z l) = HOk (ERootids l).
Proof.
  intros Hl. rewrite key_sp_list. destruct l as [|a r]; [reflexivity|].
  rewrite pe_rootids. rewrite (parse_rootids_dec (a :: r) Hl). reflexivity.
Qed.

(** ** the lines of [print_header] and the entries they parse to *)

Notation xlines := header_lines.

Definition xentries (x : xheader) : list entry :=
  [EVer; EMode (x_ascii x); EVarinfo VINone] ++
  (if is_nil (x_dd x) then [] else [EDd (utf8_lossy (trim (wdd x)))]) ++
  [ENnodes (x_nnodes x); ENvars (x_nvars x); ENsupp (len (x_supp x))] ++
  (match x_names x with
   | None => []
   | Some names =>
     (if x_ver3 x then [EVarnames names] else []) ++
     [ESuppnames (map (name_of names) (x_ids x)); EOrdered (map (name_of names) (x_l2v x))]
   end) ++
  [EIds (x_ids x); EPermids (x_permids x); ENroots (len (x_rootids x)); ERootids (x_rootids x)] ++
  (match x_rootnames x with None => [] | Some rn => [ERootnames rn] end).

Lemma unlines_app a b : unlines (a ++ b) = unlines a ++ unlines b.
Proof. apply flat_map_app. Qed.

Lemma print_header_lines x : print_header x = unlines (xlines x) ++ bs ".nodes" ++ [10].
Proof. reflexivity. Qed.

(** the well-formedness of the exporter-side header: what [export_common] reads from a manager *)
Record xwf (x : xheader) : Prop := {
  xw_nnodes : x_nnodes x < usize_limit;
  xw_nvars : x_nvars x < u32_limit;
  (* [var_to_level] is injective into [0, nvars) and [level_to_var] is its inverse *)
  xw_levels : Forall (fun p => fst p < x_nvars x) (x_vars x);
  xw_levels_nodup : NoDup (map fst (x_vars x));
  xw_l2v_len : len (x_l2v x) = x_nvars x;
  xw_l2v : forall v l s, nth_error (x_vars x) v = Some (l, s) -> nth_error (x_l2v x) (N.to_nat l) = Some (N.of_nat v);
  (* names as [write_var] prints them *)
  xw_names : match x_names x with None => True | Some ns => len ns = x_nvars x /\ Forall good_name ns end;
  xw_nroots : len (x_rootids x) < usize_limit;
  xw_rootids : Forall (fun r => r <> 0%Z /\ Z.abs_N r <= x_nnodes x /\ Z.abs_N r <= isize_max) (x_rootids x);
  xw_rootnames : match x_rootnames x with
                 | None => True
                 | Some rn => length rn = length (x_rootids x) /\ Forall good_name rn
                 end
}.

(** *** facts about the support lists *)

Lemma supp_from_spec : forall vars v p,
  In p (supp_from v vars) <->
  exists i, nth_error vars i = Some (snd p, true) /\ fst p = v + N.of_nat i.
Proof.
  induction vars as [|[l s] vars IH]; intros v p; cbn [supp_from].
  - split; [intros []|intros (i & H & _); destruct i; discriminate].
  - assert (Hrec : In p (supp_from (v + 1) vars) <->
                   exists i, nth_error ((l, s) :: vars) (S i) = Some (snd p, true) /\ fst p = v + N.of_nat (S i)).
    { rewrite IH. split; intros (i & H & E); exists i; (split; [exact H|lia]). }
    destruct s.
    + split.
      * intros [<-|H]; [exists O; cbn; split; [reflexivity|lia]|].
        apply Hrec in H. destruct H as (i & H & E). exists (S i). auto.
      * intros ([|i] & H & E).
        -- left. cbn in H. inversion H. destruct p; cbn in *. f_equal; lia.
        -- right. apply Hrec. exists i. auto.
    + rewrite Hrec. split.
      * intros (i & H & E). exists (S i). auto.
      * intros ([|i] & H & E); [cbn in H; inversion H|]. exists i. auto.
Qed.

Lemma supp_from_length : forall vars v, (length (supp_from v vars) <= length vars)%nat.
Proof. induction vars as [|[l [|]] vars IH]; intros v; cbn; [lia| |]; specialize (IH (v + 1)); lia. Qed.

Lemma supp_from_sorted : forall vars v,
  sorted_strict (map fst (supp_from v vars)) = true /\ Forall (fun p => v <= fst p) (supp_from v vars).
Proof.
  induction vars as [|[l s] vars IH]; intros v; cbn [supp_from]; [split; [reflexivity|constructor]|].
  destruct (IH (v + 1)) as [Hs Hf].
  assert (Hf' : Forall (fun p => v <= fst p) (supp_from (v + 1) vars)).
  { eapply Forall_impl; [|exact Hf]. cbn. intros; lia. }
  destruct s; [|split; assumption]. split; [|constructor; [cbn; lia|exact Hf']].
  cbn [map fst]. destruct (supp_from (v + 1) vars) as [|q r] eqn:E; [reflexivity|].
  cbn [map sorted_strict] in *. rewrite Hs. inversion Hf; subst.
  destruct (N.ltb_spec v (fst q)); [reflexivity|lia].
Qed.

(** *** every line is plain and parses to its entry *)

Lemma plain_key_app (k v : list byte) : k <> [] -> Forall okb k -> Forall okb v -> plain (k ++ v).
Proof.
  intros Hk Fk Fv. split; [destruct k; [contradiction|discriminate]|]. apply Forall_app. split; assumption.
Qed.

Ltac okb_closed := repeat constructor; discriminate.

Lemma Forall_okb_bs_key (k : list byte) : forallb (fun b => negb ((b =? 10) || (b =? 13))) k = true -> Forall okb k.
Proof.
  intros H. apply Forall_forall. intros b Hb. rewrite forallb_forall in H. specialize (H b Hb).
  destruct (N.eqb_spec b 10); [discriminate|]. destruct (N.eqb_spec b 13); [discriminate|]. split; assumption.
Qed.

Ltac plain_line := apply plain_key_app; [discriminate|apply Forall_okb_bs_key; reflexivity|].

Definition line_entry (l : list byte) (e : entry) : Prop := plain l /\ parse_entry l = HOk e /\ e <> ENodes.

Lemma sp_list_map {A} (f : A -> list byte) l : sp_list f l = sp_list ident (map f l).
Proof. unfold sp_list. induction l as [|a l IH]; cbn; [reflexivity|]. rewrite IH. reflexivity. Qed.

Lemma le_number (key : string) (mk : N -> entry) limit n :
  (forall v, parse_entry (bs key ++ 32 :: v) = hmap mk (parse_single_go limit (trim v) 0 false)) ->
  bs key <> [] -> forallb (fun b => negb ((b =? 10) || (b =? 13))) (bs key) = true ->
  (forall m, mk m <> ENodes) ->
  n < limit -> line_entry ((bs key ++ [32]) ++ dec n) (mk n).
Proof.
  intros Hk Hne Hkb Hmk Hn. split; [|split].
  - rewrite <- app_assoc. apply plain_key_app; [exact Hne|apply Forall_okb_bs_key; exact Hkb|].
    constructor; [split; discriminate|apply Forall_okb_dec].
  - rewrite <- app_assoc. cbn [app]. rewrite Hk, parse_single_dec by exact Hn. reflexivity.
  - apply Hmk.
Qed.

Lemma le_names (key : string) (mk : list (list byte) -> entry) l :
  (forall v, parse_entry (bs key ++ 32 :: v) = HOk (mk (parse_str_list (trim v)))) ->
  parse_entry (bs key) = HOk (mk []) ->
  bs key <> [] -> forallb (fun b => negb ((b =? 10) || (b =? 13))) (bs key) = true ->
  (forall m, mk m <> ENodes) ->
  Forall good_name l -> line_entry (bs key ++ sp_list ident l) (mk l).
Proof.
  intros Hk H0 Hne Hkb Hmk Hl. split; [|split].
  - apply plain_key_app; [exact Hne|apply Forall_okb_bs_key; exact Hkb|].
    apply Forall_okb_sp_list. eapply Forall_impl; [|exact Hl]. apply good_name_okb.
  - apply pe_names_list; assumption.
  - apply Hmk.
Qed.

Lemma le_u32s (key : string) (mk : list N -> entry) l :
  (forall v, parse_entry (bs key ++ 32 :: v) = hmap mk (parse_u32_list (trim v))) ->
  parse_entry (bs key) = HOk (mk []) ->
  bs key <> [] -> forallb (fun b => negb ((b =? 10) || (b =? 13))) (bs key) = true ->
  (forall m, mk m <> ENodes) ->
  Forall (fun x => x < u32_limit) l -> line_entry (bs key ++ sp_list dec l) (mk l).
Proof.
  intros Hk H0 Hne Hkb Hmk Hl. split; [|split].
  - apply plain_key_app; [exact Hne|apply Forall_okb_bs_key; exact Hkb|].
    apply Forall_okb_sp_list. apply Forall_forall. intros; apply Forall_okb_dec.
  - apply pe_u32_list; assumption.
  - apply Hmk.
Qed.

Lemma x_ids_range x : xwf x -> Forall (fun v => v < x_nvars x) (x_ids x).
Proof.
  intros Hx. unfold x_ids. rewrite Forall_map. apply Forall_forall. intros p Hp.
  apply supp_from_spec in Hp. destruct Hp as (i & Hi & E).
  assert (i < length (x_vars x))%nat by (apply nth_error_Some; congruence).
  unfold x_nvars, len. lia.
Qed.

Lemma x_permids_range x : xwf x -> Forall (fun l => l < x_nvars x) (x_permids x).
Proof.
  intros Hx. unfold x_permids. rewrite Forall_map. apply Forall_forall. intros p Hp.
  apply supp_from_spec in Hp. destruct Hp as (i & Hi & E).
  pose proof (xw_levels x Hx) as Hl. rewrite Forall_forall in Hl.
  apply (Hl (snd p, true)). eapply nth_error_In. exact Hi.
Qed.

Lemma Forall_lt_trans (l : list N) a b : a <= b -> Forall (fun v => v < a) l -> Forall (fun v => v < b) l.
Proof. intros H. apply Forall_impl. intros; lia. Qed.

Lemma name_of_good names v : Forall good_name names -> (N.to_nat v < length names)%nat -> good_name (name_of names v).
Proof.
  intros Hn Hv. unfold name_of. rewrite Forall_forall in Hn. apply Hn. apply nth_In. exact Hv.
Qed.

Lemma x_l2v_range x : xwf x -> Forall (fun v => v < x_nvars x) (x_l2v x).
Proof.
  intros Hx. apply Forall_forall. intros v Hv. apply In_nth_error in Hv. destruct Hv as [l Hl].
  (* every level below nvars is the level of some variable (pigeonhole) *)
  assert (Hlt : (l < length (x_l2v x))%nat) by (apply nth_error_Some; congruence).
  pose proof (xw_l2v_len x Hx) as Hlen. unfold x_nvars, len in *.
  set (levels := map fst (x_vars x)).
  assert (Hincl : incl (map N.of_nat (seq 0 (length (x_vars x)))) levels).
  { apply NoDup_length_incl.
    - apply (xw_levels_nodup x Hx).
    - unfold levels. rewrite !map_length, seq_length. lia.
    - intros a Ha. unfold levels in Ha. apply in_map_iff in Ha. destruct Ha as (p & <- & Hp).
      pose proof (xw_levels x Hx) as Hr. rewrite Forall_forall in Hr. specialize (Hr p Hp). unfold x_nvars, len in Hr.
      apply in_map_iff. exists (N.to_nat (fst p)). split; [lia|]. apply in_seq. lia. }
  assert (Hin : In (N.of_nat l) levels).
  { apply Hincl. apply in_map. apply in_seq. lia. }
  unfold levels in Hin. apply in_map_iff in Hin. destruct Hin as ([l' s] & El & Hp). cbn in El. subst l'.
  apply In_nth_error in Hp. destruct Hp as [w Hw].
  pose proof (xw_l2v x Hx w _ _ Hw) as H. rewrite Nat2N.id in H.
  assert (v = N.of_nat w) by congruence. subst v.
  assert (w < length (x_vars x))%nat by (apply nth_error_Some; congruence). lia.
Qed.

Lemma lines_entries x : xwf x -> Forall2 line_entry (xlines x) (xentries x).
Proof.
  intros Hx. unfold xlines, xentries.
  pose proof (x_ids_range x Hx) as Hids. pose proof (x_permids_range x Hx) as Hperm.
  pose proof (xw_nvars x Hx) as Hnv.
  repeat apply Forall2_app.
  - (* .ver .mode .varinfo *)
    unfold vername. destruct (x_ver3 x), (x_ascii x);
      repeat constructor; solve [discriminate | apply Forall_okb_bs_key; reflexivity].
  - (* .dd *)
    destruct (x_dd x) as [|c dd] eqn:Edd; cbn [is_nil]; [constructor|]. constructor; [|constructor].
    split; [|split; [|discriminate]].
    + plain_line. unfold wdd, write_replacing_control. cbn [fst]. rewrite Forall_map.
      apply Forall_forall. intros b _. destruct (is_ascii_control b) eqn:E; [split; discriminate|apply okb_no_control; exact E].
    + change (bs ".dd " ++ wdd x) with (bs ".dd" ++ 32 :: wdd x). apply pe_dd.
  - (* numbers *)
    constructor; [|constructor; [|constructor; [|constructor]]].
    + apply (le_number ".nnodes" ENnodes usize_limit); [apply pe_nnodes|discriminate|reflexivity|discriminate|apply Hx].
    + apply (le_number ".nvars" ENvars u32_limit); [apply pe_nvars|discriminate|reflexivity|discriminate|exact Hnv].
    + apply (le_number ".nsuppvars" ENsupp u32_limit); [apply pe_nsupp|discriminate|reflexivity|discriminate|].
      pose proof (supp_from_length (x_vars x) 0). unfold x_supp, x_nvars in *. unfold len in *. lia.
  - (* names *)
    pose proof (xw_names x Hx) as Hn. destruct (x_names x) as [names|]; [|constructor].
    destruct Hn as [Hlen Hgood]. apply Forall2_app.
    + destruct (x_ver3 x); [|constructor]. constructor; [|constructor].
      apply (le_names ".varnames" EVarnames); [apply pe_varnames|reflexivity|discriminate|reflexivity|discriminate|exact Hgood].
    + assert (Hnm : forall l, Forall (fun v => v < x_nvars x) l -> Forall good_name (map (name_of names) l)).
      { intros l Hl. rewrite Forall_map. eapply Forall_impl; [|exact Hl]. intros v Hv.
        apply name_of_good; [exact Hgood|]. cbv beta in Hv. unfold len in Hlen. lia. }
      constructor; [|constructor; [|constructor]].
      * rewrite sp_list_map.
        apply (le_names ".suppvarnames" ESuppnames); [apply pe_suppnames|reflexivity|discriminate|reflexivity|discriminate|].
        apply Hnm. exact Hids.
      * rewrite sp_list_map.
        apply (le_names ".orderedvarnames" EOrdered); [apply pe_ordered|reflexivity|discriminate|reflexivity|discriminate|].
        apply Hnm. apply x_l2v_range. exact Hx.
  - (* .ids .permids .nroots .rootids *)
    constructor; [|constructor; [|constructor; [|constructor; [|constructor]]]].
    + apply (le_u32s ".ids" EIds); [apply pe_ids|reflexivity|discriminate|reflexivity|discriminate|].
      eapply Forall_lt_trans; [|exact Hids]. lia.
    + apply (le_u32s ".permids" EPermids); [apply pe_permids|reflexivity|discriminate|reflexivity|discriminate|].
      eapply Forall_lt_trans; [|exact Hperm]. lia.
    + apply (le_number ".nroots" ENroots usize_limit); [apply pe_nroots|discriminate|reflexivity|discriminate|apply Hx].
    + split; [|split; [|discriminate]].
      * plain_line. apply Forall_okb_sp_list. apply Forall_forall. intros; apply Forall_okb_dec_z.
      * apply pe_rootids_list. eapply Forall_impl; [|apply (xw_rootids x Hx)]. cbn. tauto.
  - (* .rootnames *)
    pose proof (xw_rootnames x Hx) as Hr. destruct (x_rootnames x) as [rn|]; [|constructor].
    constructor; [|constructor].
    apply (le_names ".rootnames" ERootnames); [apply pe_rootnames|reflexivity|discriminate|reflexivity|discriminate|apply Hr].
Qed.

(** ** the loop over the lines *)

Definition hl (st : hstate) (inp : list byte) : hres (hstate * list byte) :=
  header_loop (S (length inp)) st inp.

Lemma header_loop_S f st inp :
  header_loop (S f) st inp =
  match read_line inp with
  | Err _ => HErr HEof
  | Ok (line, rest) =>
    e <~ parse_entry line ;;
    match e with
    | ENodes => HOk (st, rest)
    | _ => header_loop f (apply_entry st e) rest
    end
  end.
Proof. reflexivity. Qed.

Lemma hl_step st l e rest : line_entry l e -> hl st (l ++ 10 :: rest) = hl (apply_entry st e) rest.
Proof.
  intros (Hp & He & Hn). unfold hl at 1. rewrite header_loop_S.
  rewrite read_line_plain by exact Hp. rewrite He. cbn [hbind].
  assert (header_loop (length (l ++ 10 :: rest)) (apply_entry st e) rest = hl (apply_entry st e) rest).
  { apply header_loop_fuel; [rewrite app_length; cbn; lia|lia]. }
  destruct e; try exact H. contradiction.
Qed.

Lemma hl_lines : forall ls es st tail, Forall2 line_entry ls es ->
  hl st (unlines ls ++ tail) = hl (fold_left apply_entry es st) tail.
Proof.
  induction ls as [|l ls IH]; intros es st tail H; inversion H; subst; [reflexivity|].
  cbn [unlines flat_map fold_left]. rewrite <- !app_assoc. cbn [app].
  rewrite (hl_step st l y) by assumption. apply IH. assumption.
Qed.

Lemma pe_nodes : parse_entry (bs ".nodes") = HOk ENodes.
Proof. vm_compute. reflexivity. Qed.

Lemma hl_nodes st rest : hl st (bs ".nodes" ++ 10 :: rest) = HOk (st, rest).
Proof.
  unfold hl. rewrite header_loop_S.
  rewrite read_line_plain by (split; [discriminate|apply Forall_okb_bs_key; reflexivity]).
  rewrite pe_nodes. reflexivity.
Qed.

(** the local variables of the loader after the header lines of [print_header x] *)
Definition st_of (x : xheader) : hstate :=
  mkHS (x_ascii x) VINone (utf8_lossy (trim (wdd x))) (x_nnodes x) (x_nvars x) (len (x_supp x)) (len (x_rootids x))
       (x_ids x) (x_permids x) []
       (match x_names x with Some ns => if x_ver3 x then ns else [] | None => [] end)
       (match x_names x with Some ns => map (name_of ns) (x_ids x) | None => [] end)
       (match x_names x with Some ns => map (name_of ns) (x_l2v x) | None => [] end)
       (x_rootids x)
       (match x_rootnames x with Some rn => rn | None => [] end).

Lemma fold_entries x : fold_left apply_entry (xentries x) init_state = st_of x.
Proof.
  unfold xentries, st_of, wdd.
  destruct (x_dd x) as [|c dd], (x_names x) as [names|], (x_ver3 x), (x_rootnames x) as [rn|]; reflexivity.
Qed.

Lemma header_loop_print x rest : xwf x ->
  header_loop (S (length (print_header x ++ rest))) init_state (print_header x ++ rest) = HOk (st_of x, rest).
Proof.
  intros Hx. change (hl init_state (print_header x ++ rest) = HOk (st_of x, rest)).
  rewrite print_header_lines, <- !app_assoc. cbn [app].
  rewrite (hl_lines _ _ _ _ (lines_entries x Hx)), fold_entries.
  apply (hl_nodes (st_of x) rest).
Qed.

(** ** the validation accepts the state and yields [header_of x] *)

Lemma check_permids_complete nvars : forall p seen,
  Forall (fun l => l < nvars) p -> NoDup p -> (forall x, In x p -> ~ In x seen) ->
  check_permids nvars p seen = HOk tt.
Proof.
  induction p as [|l p IH]; intros seen Hr Hn Hd; [reflexivity|]. cbn [check_permids].
  inversion Hr; subst. inversion Hn; subst.
  destruct (N.leb_spec nvars l); [lia|].
  assert (E : existsb (N.eqb l) seen = false).
  { destruct (existsb (N.eqb l) seen) eqn:E; [|reflexivity]. apply existsb_exists in E.
    destruct E as (y & Hy & Ey). apply N.eqb_eq in Ey. subst y. exfalso. apply (Hd l); [left; reflexivity|exact Hy]. }
  rewrite E. apply IH; [assumption..|].
  intros x Hx [->|Hs]; [contradiction|]. apply (Hd x); [right; exact Hx|exact Hs].
Qed.

Lemma check_roots_complete nnodes : forall l,
  Forall (fun r => r <> 0%Z /\ Z.abs_N r <= nnodes) l -> check_roots nnodes l = HOk tt.
Proof.
  induction 1 as [|r l [H0 Hr] _ IH]; [reflexivity|]. cbn [check_roots].
  destruct (Z.eqb_spec r 0); [contradiction|]. destruct (N.ltb_spec nnodes (Z.abs_N r)); [lia|exact IH].
Qed.

Lemma combine_fst_snd {A B} (l : list (A * B)) : combine (map fst l) (map snd l) = l.
Proof. induction l as [|[a b] l IH]; cbn; [reflexivity|]. rewrite IH. reflexivity. Qed.

Lemma x_supp_combine x : combine (x_ids x) (x_permids x) = x_supp x.
Proof. apply combine_fst_snd. Qed.

Lemma supp_from_levels : forall vars v l, In l (map snd (supp_from v vars)) -> In l (map fst vars).
Proof.
  induction vars as [|[l' s] vars IH]; intros v l H; cbn [supp_from] in H; [destruct H|].
  destruct s; [destruct H as [<-|H]; [left; reflexivity|]|]; right; eapply IH; exact H.
Qed.

Lemma supp_from_levels_nodup : forall vars v, NoDup (map fst vars) -> NoDup (map snd (supp_from v vars)).
Proof.
  induction vars as [|[l s] vars IH]; intros v H; cbn [supp_from]; [constructor|].
  cbn in H. inversion H; subst. destruct s; [|apply IH; assumption].
  cbn [map snd]. constructor; [|apply IH; assumption].
  intros Hin. apply H2. eapply supp_from_levels. exact Hin.
Qed.

(** *** [support_var_order] = the support sorted by level *)

Fixpoint ssorted (l : list (N * N)) : Prop :=
  match l with
  | [] => True
  | p :: r => Forall (fun q => snd p < snd q) r /\ ssorted r
  end.

Lemma insert_perm p : forall l, Permutation (insert_by_level p l) (p :: l).
Proof.
  induction l as [|q l IH]; cbn; [apply Permutation_refl|].
  destruct (snd p <? snd q); [apply Permutation_refl|].
  eapply Permutation_trans; [apply perm_skip; exact IH|apply perm_swap].
Qed.

Lemma sort_perm l : Permutation (sort_by_level l) l.
Proof.
  induction l as [|p l IH]; cbn; [constructor|].
  eapply Permutation_trans; [apply insert_perm|apply perm_skip; exact IH].
Qed.

Lemma insert_sorted p : forall l, ssorted l -> (forall q, In q l -> snd q <> snd p) -> ssorted (insert_by_level p l).
Proof.
  induction l as [|q l IH]; intros Hs Hd; cbn; [split; [constructor|exact I]|].
  destruct Hs as [Hq Hs]. destruct (N.ltb_spec (snd p) (snd q)).
  - split; [|split; assumption]. constructor; [exact H|]. eapply Forall_impl; [|exact Hq]. cbn. intros; lia.
  - split; [|apply IH; [exact Hs|intros q' Hq'; apply Hd; right; exact Hq']].
    eapply Permutation_Forall; [apply Permutation_sym, insert_perm|].
    constructor; [|exact Hq]. specialize (Hd q (or_introl eq_refl)). lia.
Qed.

Lemma sort_sorted : forall l, NoDup (map snd l) -> ssorted (sort_by_level l).
Proof.
  induction l as [|p l IH]; intros H; cbn; [exact I|]. cbn in H. inversion H; subst.
  apply insert_sorted; [apply IH; assumption|].
  intros q Hq E. apply H2. rewrite <- E. apply in_map.
  eapply Permutation_in; [apply sort_perm|exact Hq].
Qed.

Lemma rank_nat_perm a b l : Permutation a b -> rank_nat a l = rank_nat b l.
Proof.
  unfold rank_nat. induction 1; cbn; try lia.
  - destruct (x <? l); cbn; lia.
  - destruct (x <? l), (y <? l); cbn; lia.
Qed.

Lemma rank_nat_sorted : forall S k v l, ssorted S -> nth_error S k = Some (v, l) -> rank_nat (map snd S) l = k.
Proof.
  unfold rank_nat. induction S as [|q S IH]; intros [|k] v l Hs Hn; cbn in Hn; try discriminate.
  - inversion Hn; subst. destruct Hs as [Hq _]. cbn. destruct (N.ltb_spec l l); [lia|].
    assert (E : filter (fun x => x <? l) (map snd S) = []).
    { clear -Hq. induction S as [|p S IH]; [reflexivity|]. inversion Hq; subst. cbn in *.
      destruct (N.ltb_spec (snd p) l); [lia|]. apply IH. assumption. }
    rewrite E. reflexivity.
  - destruct Hs as [Hq Hs]. cbn. rewrite Forall_forall in Hq. specialize (Hq _ (nth_error_In _ _ Hn)). cbn in Hq.
    destruct (N.ltb_spec (snd q) l); [|lia]. cbn. f_equal. eapply IH; eassumption.
Qed.

Lemma nth_error_ext {A} (a b : list A) : length a = length b ->
  (forall k, (k < length a)%nat -> nth_error a k = nth_error b k) -> a = b.
Proof.
  revert b. induction a as [|x a IH]; intros [|y b] L H; cbn in L; try lia; [reflexivity|].
  pose proof (H O ltac:(cbn; lia)) as H0. cbn in H0. inversion H0; subst. f_equal.
  apply IH; [lia|]. intros k Hk. apply (H (S k)). cbn. lia.
Qed.

Lemma fill_order_sorted supp : NoDup (map snd supp) ->
  fill_order supp (map snd supp) (repeat 0 (length supp)) = HOk (map fst (sort_by_level supp)).
Proof.
  intros Hnd.
  destruct (fill_order_spec (map snd supp) supp (repeat 0 (length supp))) as (order & Hf & Lo & Ho & _).
  - exact Hnd.
  - intros v l H. apply in_map_iff. exists (v, l). auto.
  - rewrite repeat_length, map_length. reflexivity.
  - rewrite Hf. f_equal. rewrite repeat_length in Lo.
    pose proof (Permutation_length (sort_perm supp)) as Ls.
    apply nth_error_ext; [rewrite map_length; lia|].
    intros k Hk. rewrite nth_error_map.
    destruct (nth_error (sort_by_level supp) k) as [[v l]|] eqn:E; [|apply nth_error_None in E; lia].
    cbn [option_map fst].
    rewrite <- (rank_nat_sorted _ _ _ _ (sort_sorted _ Hnd) E).
    rewrite <- (rank_nat_perm (map snd supp) (map snd (sort_by_level supp)) l)
      by (apply Permutation_map, Permutation_sym, sort_perm).
    apply Ho. eapply Permutation_in; [apply sort_perm|]. eapply nth_error_In. exact E.
Qed.

(** *** names *)

Lemma bytes_eqb_refl a : bytes_eqb a a = true.
Proof. induction a as [|x a IH]; cbn; [reflexivity|]. rewrite N.eqb_refl. exact IH. Qed.

Lemma nth_name_name_of names v : (N.to_nat v < length names)%nat -> nth_name names v = HOk (name_of names v).
Proof.
  intros H. unfold nth_name, name_of. rewrite (nth_error_nth' names [] H). reflexivity.
Qed.

Lemma check_supp_complete names : forall ids,
  Forall (fun v => (N.to_nat v < length names)%nat) ids ->
  check_supp (combine (map (name_of names) ids) ids) names = HOk tt.
Proof.
  induction 1 as [|v ids Hv _ IH]; [reflexivity|]. cbn [map combine check_supp].
  rewrite nth_name_name_of by exact Hv. cbn [hbind]. rewrite bytes_eqb_refl. exact IH.
Qed.

(** a list that agrees with [names] on the given positions *)
Lemma check_supp_agree names r : forall ids,
  Forall (fun v => nth_error r (N.to_nat v) = Some (name_of names v)) ids ->
  check_supp (combine (map (name_of names) ids) ids) r = HOk tt.
Proof.
  induction 1 as [|v ids Hv _ IH]; [reflexivity|]. cbn [map combine check_supp].
  unfold nth_name. rewrite Hv. cbn [hbind]. rewrite bytes_eqb_refl. exact IH.
Qed.

Lemma check_ordered_complete names ordered : forall pairs,
  Forall (fun p => (N.to_nat (fst p) < length names)%nat /\
                   nth_error ordered (N.to_nat (snd p)) = Some (name_of names (fst p))) pairs ->
  check_ordered pairs names ordered = HOk tt.
Proof.
  induction 1 as [|[id pm] pairs [Hv Ho] _ IH]; [reflexivity|]. cbn [check_ordered]. cbn [fst snd] in *.
  rewrite nth_name_name_of by exact Hv. cbn [hbind]. unfold nth_name. rewrite Ho. cbn [hbind].
  rewrite bytes_eqb_refl. exact IH.
Qed.

(** what [take_names] puts where *)
Lemma take_names_content : forall pairs v o v' o',
  take_names pairs v o = HOk (v', o') ->
  NoDup (map fst pairs) -> NoDup (map snd pairs) ->
  (forall id pm, In (id, pm) pairs -> nth_error v' (N.to_nat id) = nth_error o (N.to_nat pm)) /\
  (forall m, (forall id pm, In (id, pm) pairs -> N.to_nat id <> m) -> nth_error v' m = nth_error v m).
Proof.
  induction pairs as [|[id pm] pairs IH]; intros v o v' o' H N1 N2; cbn [take_names] in H.
  - inversion H; subst. split; [intros id pm []|reflexivity].
  - apply hbind_ok in H. destruct H as (name & Hn & H).
    destruct (set_nth (N.to_nat pm) [] o) as [o1|] eqn:Eo; [|discriminate].
    destruct (set_nth (N.to_nat id) name v) as [v1|] eqn:Ev; [|discriminate].
    cbn in N1, N2. inversion N1 as [|? ? Hn1 N1']; subst. inversion N2 as [|? ? Hn2 N2']; subst.
    destruct (IH _ _ _ _ H N1' N2') as [Hc Hk].
    destruct (set_nth_spec _ _ _ _ Eo) as (_ & _ & _ & Oo).
    destruct (set_nth_spec _ _ _ _ Ev) as (_ & Nv & _ & Ov).
    unfold nth_name in Hn. destruct (nth_error o (N.to_nat pm)) as [nm|] eqn:En; [|discriminate].
    inversion Hn; subst nm.
    split.
    + intros id' pm' [E|Hin].
      * inversion E; subst. rewrite Hk; [rewrite Nv, En; reflexivity|].
        intros id2 pm2 Hi2 E2. apply Hn1. apply in_map_iff. exists (id2, pm2). split; [cbn; lia|exact Hi2].
      * rewrite (Hc _ _ Hin). apply Oo. intros E2. apply Hn2. apply in_map_iff.
        exists (id', pm'). split; [cbn; lia|exact Hin].
    + intros m Hm. rewrite Hk; [apply Ov; intros E; apply (Hm id pm); [left; reflexivity|lia]|].
      intros id2 pm2 Hi2. apply (Hm id2 pm2). right; exact Hi2.
Qed.

Lemma fill_names_content : forall v pool r, fill_names v pool = HOk r ->
  forall m n, nth_error v m = Some n -> n <> [] -> nth_error r m = Some n.
Proof.
  induction v as [|a v IH]; intros pool r H m n Hn Hne; [destruct m; discriminate|].
  cbn [fill_names] in H. destruct a as [|c a].
  - destruct pool as [|q pool]; [discriminate|]. apply hmap_ok in H. destruct H as (r' & H & ->).
    destruct m as [|m]; cbn in Hn; [inversion Hn; subst; contradiction|]. cbn. eapply IH; eassumption.
  - apply hmap_ok in H. destruct H as (r' & H & ->).
    destruct m as [|m]; cbn in Hn |- *; [exact Hn|]. eapply IH; eassumption.
Qed.

(** *** the main lemma *)

Lemma len_map {A B} (f : A -> B) l : len (map f l) = len l.
Proof. unfold len. rewrite map_length. reflexivity. Qed.

Lemma x_ids_len x : len (x_ids x) = len (x_supp x).
Proof. apply len_map. Qed.
Lemma x_permids_len x : len (x_permids x) = len (x_supp x).
Proof. apply len_map. Qed.

Lemma supp_l2v x : xwf x -> forall id pm, In (id, pm) (x_supp x) ->
  nth_error (x_l2v x) (N.to_nat pm) = Some id /\ id < x_nvars x /\ pm < x_nvars x.
Proof.
  intros Hx id pm H. apply supp_from_spec in H. cbn [fst snd] in H. destruct H as (i & Hi & E).
  rewrite N.add_0_l in E. subst id. splits.
  - eapply xw_l2v; eassumption.
  - assert (i < length (x_vars x))%nat by (apply nth_error_Some; congruence). unfold x_nvars, len. lia.
  - pose proof (xw_levels x Hx) as Hl. rewrite Forall_forall in Hl.
    apply (Hl (pm, true)). eapply nth_error_In. exact Hi.
Qed.

Lemma var_names_block_print x : xwf x ->
  var_names_block (x_nvars x) (x_ids x) (x_permids x) (s_varnames (st_of x)) (s_suppnames (st_of x)) (s_ordered (st_of x))
  = HOk (h_varnames (header_of x)).
Proof.
  intros Hx. unfold st_of, header_of. cbn [s_varnames s_suppnames s_ordered h_varnames].
  pose proof (xw_names x Hx) as Hn. destruct (x_names x) as [names|]; [|reflexivity].
  destruct Hn as [Hlen Hgood]. unfold len in Hlen.
  pose proof (x_ids_range x Hx) as Hids. pose proof (xw_l2v_len x Hx) as Hl2v. unfold len in Hl2v.
  assert (Hidn : Forall (fun v => (N.to_nat v < length names)%nat) (x_ids x)).
  { eapply Forall_impl; [|exact Hids]. cbn. intros; lia. }
  assert (Hord : forall id pm, In (id, pm) (x_supp x) ->
           nth_error (map (name_of names) (x_l2v x)) (N.to_nat pm) = Some (name_of names id)).
  { intros id pm H. destruct (supp_l2v x Hx id pm H) as (H1 & _ & _). rewrite nth_error_map, H1. reflexivity. }
  destruct (Nat.eq_dec (length (x_l2v x)) 0) as [E0|E0].
  - (* no variables at all *)
    assert (El2v : x_l2v x = []) by (apply length_zero_iff_nil; exact E0).
    assert (Hv0 : x_vars x = []).
    { unfold x_nvars, len in Hl2v. rewrite E0 in Hl2v. destruct (x_vars x); [reflexivity|cbn in Hl2v; lia]. }
    assert (names = []) by (unfold x_nvars, len in Hlen; rewrite Hv0 in Hlen; destruct names; [reflexivity|cbn in Hlen; lia]).
    subst names. unfold recover_names, x_ids, x_permids, x_supp, x_nvars. rewrite Hv0, El2v.
    destruct (x_ver3 x); reflexivity.
  - assert (Hnv : 0 < x_nvars x) by lia.
    assert (Hordne : is_nil (map (name_of names) (x_l2v x)) = false).
    { destruct (x_l2v x); [cbn in E0; lia|reflexivity]. }
    destruct (x_ver3 x).
    + (* 3.0: .varnames is there *)
      unfold var_names_block. destruct names as [|n0 names']; [cbn in Hlen; lia|].
      set (names := n0 :: names') in *. cbn [is_nil].
      assert (E : (len names =? x_nvars x) = true) by (apply N.eqb_eq; unfold len; exact Hlen).
      rewrite E. cbn [guard hbind]. rewrite Hordne.
      rewrite check_ordered_complete.
      * cbn [hbind]. rewrite check_supp_complete by exact Hidn. reflexivity.
      * rewrite x_supp_combine. apply Forall_forall. intros [id pm] H. cbn [fst snd]. split.
        -- destruct (supp_l2v x Hx id pm H) as (_ & H2 & _). lia.
        -- apply Hord. exact H.
    + (* 2.0: the names are rebuilt from .orderedvarnames *)
      unfold var_names_block. cbn [is_nil]. rewrite Hordne. unfold recover_names.
      assert (N1 : NoDup (map fst (combine (x_ids x) (x_permids x)))).
      { rewrite x_supp_combine. apply incr_NoDup. apply sorted_strict_incr. apply supp_from_sorted. }
      assert (N2 : NoDup (map snd (combine (x_ids x) (x_permids x)))).
      { rewrite x_supp_combine. apply supp_from_levels_nodup. apply Hx. }
      assert (Hgo : Forall good_name (map (name_of names) (x_l2v x))).
      { rewrite Forall_map. eapply Forall_impl; [|apply (x_l2v_range x Hx)]. intros v Hv.
        apply name_of_good; [exact Hgood|]. cbv beta in Hv. lia. }
      destruct (take_names_spec (N.to_nat (x_nvars x)) (combine (x_ids x) (x_permids x))
                  (repeat [] (N.to_nat (x_nvars x))) (map (name_of names) (x_l2v x)))
        as (v1 & o1 & Ht & L1 & L2 & C).
      * apply repeat_length.
      * rewrite map_length. lia.
      * intros id pm H. rewrite x_supp_combine in H. destruct (supp_l2v x Hx id pm H) as (_ & H2 & H3). lia.
      * exact N1.
      * intros id pm H. apply nth_error_repeat. rewrite x_supp_combine in H.
        destruct (supp_l2v x Hx id pm H) as (_ & H2 & _). lia.
      * rewrite count_repeat_emp. unfold nemp. rewrite count_all; [rewrite map_length; lia|].
        eapply Forall_impl; [|exact Hgo]. intros [|c s] [H _]; [contradiction|reflexivity].
      * rewrite Ht. cbn [hbind].
        destruct (fill_names_spec v1 (filter (fun s => negb (is_nil s)) o1) C) as (r & Hf & Lr).
        rewrite Hf. cbn [hbind].
        rewrite check_supp_agree; [reflexivity|].
        destruct (take_names_content _ _ _ _ _ Ht N1 N2) as [Hc _].
        apply Forall_forall. intros id Hid.
        assert (exists pm, In (id, pm) (x_supp x)) as [pm Hp].
        { unfold x_ids in Hid. apply in_map_iff in Hid. destruct Hid as ([a b] & <- & H). exists b. exact H. }
        eapply fill_names_content; [exact Hf| |].
        -- rewrite (Hc id pm) by (rewrite x_supp_combine; exact Hp). apply Hord. exact Hp.
        -- destruct (supp_l2v x Hx id pm Hp) as (_ & H2 & _).
           apply (name_of_good names id Hgood). lia.
Qed.

Lemma is_nil_or {A} (l : list A) b : (l <> [] -> b = true) -> is_nil l || b = true.
Proof. destruct l; [reflexivity|]. intros H. cbn. apply H. discriminate. Qed.

Theorem validate_print x : xwf x -> validate (st_of x) = HOk (header_of x).
Proof.
  intros Hx. unfold validate.
  pose proof (var_names_block_print x Hx) as Hvn.
  assert (Hsupp : len (x_supp x) <= x_nvars x).
  { pose proof (supp_from_length (x_vars x) 0). unfold x_supp, x_nvars, len. lia. }
  assert (G1 : (s_nsupp (st_of x) <=? s_nvars (st_of x)) = true) by (apply N.leb_le; exact Hsupp).
  assert (G2 : (len (s_ids (st_of x)) =? s_nsupp (st_of x)) = true) by (apply N.eqb_eq; apply x_ids_len).
  assert (G3 : (len (s_permids (st_of x)) =? s_nsupp (st_of x)) = true) by (apply N.eqb_eq; apply x_permids_len).
  assert (G5 : sorted_strict (s_ids (st_of x)) = true) by apply supp_from_sorted.
  assert (G6 : is_nil (s_ids (st_of x)) || (last (s_ids (st_of x)) 0 <? s_nvars (st_of x)) = true).
  { apply is_nil_or. intros Hne. apply N.ltb_lt. cbn [st_of s_ids s_nvars] in *.
    pose proof (x_ids_range x Hx) as Hr. rewrite Forall_forall in Hr. apply Hr.
    destruct (exists_last Hne) as (l' & a & ->). rewrite last_last. apply in_or_app. right. left. reflexivity. }
  assert (G7 : check_permids (s_nvars (st_of x)) (s_permids (st_of x)) [] = HOk tt).
  { apply check_permids_complete; [apply (x_permids_range x Hx)|apply supp_from_levels_nodup; apply Hx|intros ? _ []]. }
  assert (G8 : fill_order (combine (s_ids (st_of x)) (s_permids (st_of x))) (s_permids (st_of x))
                 (repeat 0 (N.to_nat (s_nsupp (st_of x)))) = HOk (h_order (header_of x))).
  { cbn [st_of s_ids s_permids s_nsupp header_of h_order]. rewrite x_supp_combine. unfold len. rewrite Nat2N.id.
    apply fill_order_sorted. apply supp_from_levels_nodup. apply Hx. }
  assert (G9 : is_nil (s_ordered (st_of x)) || (len (s_ordered (st_of x)) =? s_nvars (st_of x)) = true).
  { cbn [st_of s_ordered s_nvars]. destruct (x_names x); [|reflexivity]. apply is_nil_or. intros _.
    apply N.eqb_eq. rewrite len_map. apply Hx. }
  assert (G10 : is_nil (s_suppnames (st_of x)) || (len (s_suppnames (st_of x)) =? s_nsupp (st_of x)) = true).
  { cbn [st_of s_suppnames s_nsupp]. destruct (x_names x); [|reflexivity]. apply is_nil_or. intros _.
    apply N.eqb_eq. rewrite len_map. apply x_ids_len. }
  assert (G12 : (len (s_rootids (st_of x)) =? s_nroots (st_of x)) = true) by apply N.eqb_refl.
  assert (G13 : check_roots (s_nnodes (st_of x)) (s_rootids (st_of x)) = HOk tt).
  { apply check_roots_complete. eapply Forall_impl; [|apply (xw_rootids x Hx)]. cbn. tauto. }
  assert (G14 : is_nil (s_rootnames (st_of x)) || (len (s_rootnames (st_of x)) =? s_nroots (st_of x)) = true).
  { cbn [st_of s_rootnames s_nroots]. pose proof (xw_rootnames x Hx) as Hr.
    destruct (x_rootnames x) as [rn|]; [|reflexivity]. apply is_nil_or. intros _. apply N.eqb_eq. unfold len. destruct Hr as [-> _]. reflexivity. }
  rewrite G1, G2, G3. cbn [guard hbind].
  change (is_nil (s_auxids (st_of x))) with true. cbn [orb guard hbind].
  rewrite G5, G6. cbn [guard hbind]. rewrite G7. cbn [hbind]. rewrite G8. cbn [hbind].
  rewrite G9, G10. cbn [guard hbind].
  change (s_nvars (st_of x)) with (x_nvars x). change (s_ids (st_of x)) with (x_ids x).
  change (s_permids (st_of x)) with (x_permids x). rewrite Hvn. cbn [hbind].
  rewrite G12. cbn [guard hbind]. rewrite G13. cbn [hbind]. rewrite G14. cbn [guard hbind].
  reflexivity.
Qed.

(** ** [load_header] reads back [print_header] *)

Theorem load_print_header x rest : xwf x -> load_header (print_header x ++ rest) = HOk (header_of x, rest).
Proof.
  intros Hx. unfold load_header. rewrite (header_loop_print x rest Hx). cbn [hbind].
  rewrite (validate_print x Hx). reflexivity.
Qed.
