(** * C15 (package C15h): SAFETY OF ACCEPTANCE of the node-section importers

    Whatever the model importers of IO/Dddmp.v accept — on ARBITRARY bytes — is a well-formed
    diagram: every node of the unique table refers to earlier nodes only (so the table is
    acyclic), the level of a node is strictly smaller than the levels of its children, all
    levels are levels of the support ([suppvar_level_map]), the vector [nodes] holds one valid
    edge per node ID of the file, the roots are valid edges, and every root denotes a
    well-defined function (the evaluation neither runs out of fuel nor into a dangling index:
    it is the unique value of a big-step relation and independent of the fuel). *)
From Coq Require Import List NArith ZArith Bool Arith Lia.
From OxiVerif Require Import IO.Dddmp IO.DddmpProofs.
Import ListNotations.
Open Scope N_scope.

Arguments N.add : simpl never.
Arguments N.sub : simpl never.
Arguments N.mul : simpl never.
Arguments N.div : simpl never.
Arguments N.modulo : simpl never.
Arguments N.pow : simpl never.

Ltac splits := repeat match goal with |- _ /\ _ => split end; try exact eq_refl; try exact I.

(** ** well-formed unique tables *)

(** the edge points to a terminal or to an entry of [s] *)
Definition edge_in (s : list cnode) (e : cedge) : Prop :=
  match ce_ref e with RTerm _ => True | RNode i => (N.to_nat i < length s)%nat end.

(** the edge points to a terminal or to an entry before index [i] *)
Definition ref_below (i : nat) (e : cedge) : Prop :=
  match ce_ref e with RTerm _ => True | RNode j => (N.to_nat j < i)%nat end.

Definition node_ok (s : list cnode) (i : nat) (n : cnode) : Prop :=
  ref_below i (cn_t n) /\ ref_below i (cn_e n) /\
  cn_level n < edge_level s (cn_t n) /\ cn_level n < edge_level s (cn_e n).

(** children first (acyclic) and levels strictly increasing along edges *)
Definition store_wf (s : list cnode) : Prop :=
  forall i n, nth_error s i = Some n -> node_ok s i n.

(** every level of the table is one of the given support levels *)
Definition levels_in (slm : list N) (s : list cnode) : Prop :=
  Forall (fun n => In (cn_level n) slm) s.

Definition ext (s s' : list cnode) : Prop := exists x, s' = s ++ x.

Lemma ext_refl s : ext s s.
Proof. exists []. now rewrite app_nil_r. Qed.

Lemma ext_trans a b c : ext a b -> ext b c -> ext a c.
Proof. intros [x ->] [y ->]. exists (x ++ y). now rewrite app_assoc. Qed.

Lemma ext_snoc s n : ext s (s ++ [n]).
Proof. now exists [n]. Qed.

Lemma ref_below_mono i j e : (i <= j)%nat -> ref_below i e -> ref_below j e.
Proof. unfold ref_below. destruct (ce_ref e); [trivial|lia]. Qed.

Lemma edge_in_ext s s' e : ext s s' -> edge_in s e -> edge_in s' e.
Proof.
  intros [x ->]. unfold edge_in. destruct (ce_ref e); [trivial|]. rewrite app_length. lia.
Qed.

Lemma edge_level_ext s s' e : ext s s' -> edge_in s e -> edge_level s' e = edge_level s e.
Proof.
  intros [x ->]. unfold edge_in, edge_level. destruct (ce_ref e); [reflexivity|].
  intros H. rewrite nth_error_app1 by exact H. reflexivity.
Qed.

Lemma ref_below_in s i e : (i <= length s)%nat -> ref_below i e -> edge_in s e.
Proof. unfold ref_below, edge_in. destruct (ce_ref e); [trivial|lia]. Qed.

Lemma edge_in_neg s e : edge_in s (neg e) <-> edge_in s e.
Proof. reflexivity. Qed.

Lemma edge_level_neg s e : edge_level s (neg e) = edge_level s e.
Proof. reflexivity. Qed.

Lemma Forall_edge_in_ext s s' l : ext s s' -> Forall (edge_in s) l -> Forall (edge_in s') l.
Proof. intros He. apply Forall_impl. intros e. apply edge_in_ext. exact He. Qed.

Lemma store_wf_nil : store_wf [].
Proof. intros [|i] n H; discriminate. Qed.

(** appending a node whose children are in the table and lie strictly below its level *)
Lemma store_wf_snoc s n :
  store_wf s -> edge_in s (cn_t n) -> edge_in s (cn_e n) ->
  cn_level n < edge_level s (cn_t n) -> cn_level n < edge_level s (cn_e n) ->
  store_wf (s ++ [n]).
Proof.
  intros Hwf Ht He Lt Le i m Hi.
  destruct (Nat.lt_ge_cases i (length s)) as [Hlt|Hge].
  - rewrite nth_error_app1 in Hi by exact Hlt.
    destruct (Hwf i m Hi) as (R1 & R2 & L1 & L2).
    assert (I1 : edge_in s (cn_t m)) by (eapply ref_below_in; [|exact R1]; lia).
    assert (I2 : edge_in s (cn_e m)) by (eapply ref_below_in; [|exact R2]; lia).
    unfold node_ok. splits; try assumption.
    + rewrite (edge_level_ext s) by (auto using ext_snoc). exact L1.
    + rewrite (edge_level_ext s) by (auto using ext_snoc). exact L2.
  - rewrite nth_error_app2 in Hi by exact Hge.
    destruct (i - length s)%nat as [|d] eqn:E; [|destruct d; discriminate].
    cbn in Hi. inversion Hi; subst m. assert (i = length s) by lia. subst i.
    unfold node_ok. splits.
    + unfold edge_in in Ht. unfold ref_below. destruct (ce_ref (cn_t n)); [trivial|exact Ht].
    + unfold edge_in in He. unfold ref_below. destruct (ce_ref (cn_e n)); [trivial|exact He].
    + rewrite (edge_level_ext s) by (auto using ext_snoc). exact Lt.
    + rewrite (edge_level_ext s) by (auto using ext_snoc). exact Le.
Qed.

(** ** the unique table operations keep the table well-formed *)

Lemma find_index_some {A} (p : A -> bool) l : forall i k,
  find_index p l i = Some k ->
  exists x, nth_error l (N.to_nat (k - i)) = Some x /\ p x = true /\ i <= k.
Proof.
  induction l as [|y l IH]; intros i k H; cbn in H; [discriminate|].
  destruct (p y) eqn:E.
  - inversion H; subst. exists y. rewrite N.sub_diag. cbn. splits; [exact E|lia].
  - destruct (IH _ _ H) as (x & Hx & Hp & Hle). exists x.
    replace (N.to_nat (k - i)) with (S (N.to_nat (k - (i + 1)))) by lia.
    cbn. splits; [exact Hx|exact Hp|lia].
Qed.

(** result of [find_or_add]: the table grows by at most the new node; the returned
    reference points to a node equal to [n] *)
Lemma find_or_add_spec s n s' r :
  find_or_add s n = (s', r) ->
  exists i, r = RNode i /\ nth_error s' (N.to_nat i) = Some n /\ (s' = s \/ s' = s ++ [n]).
Proof.
  unfold find_or_add. destruct (find_index (cnode_eqb n) s 0) as [k|] eqn:E; intros H; inversion H; subst.
  - destruct (find_index_some _ _ _ _ E) as (x & Hx & Hp & _).
    rewrite N.sub_0_r in Hx. apply cnode_eqb_eq in Hp. subst x.
    exists k. splits; [exact Hx|left; reflexivity].
  - exists (N.of_nat (length s)). rewrite Nat2N.id. splits.
    + rewrite nth_error_app2 by lia. rewrite Nat.sub_diag. reflexivity.
    + right; reflexivity.
Qed.

Lemma levels_in_snoc slm s n : levels_in slm s -> In (cn_level n) slm -> levels_in slm (s ++ [n]).
Proof. intros H Hn. apply Forall_app. split; [exact H|]. constructor; [exact Hn|constructor]. Qed.

(** inserting a node through [find_or_add] *)
Lemma find_or_add_wf slm s level t e s' r :
  store_wf s -> levels_in slm s -> In level slm ->
  edge_in s t -> edge_in s e -> level < edge_level s t -> level < edge_level s e ->
  find_or_add s (mkN level t e) = (s', r) ->
  store_wf s' /\ levels_in slm s' /\ ext s s' /\
  (forall tag, edge_in s' (mkE r tag) /\ edge_level s' (mkE r tag) = level).
Proof.
  intros Hwf Hl Hin It Ie Lt Le H.
  destruct (find_or_add_spec _ _ _ _ H) as (i & -> & Hnth & [->| ->]).
  - splits; try assumption; [apply ext_refl|]. intros tag. split.
    + unfold edge_in. cbn. apply nth_error_Some. congruence.
    + unfold edge_level. cbn. rewrite Hnth. reflexivity.
  - splits.
    + apply store_wf_snoc; assumption.
    + apply levels_in_snoc; assumption.
    + apply ext_snoc.
    + intros tag. split.
      * unfold edge_in. cbn. apply nth_error_Some. congruence.
      * unfold edge_level. cbn. rewrite Hnth. reflexivity.
Qed.

(** [mk_node] of all four kinds: the table stays well-formed, the result is a valid edge
    whose level is not above [level] *)
Lemma mk_node_wf k slm s level t e s' r :
  store_wf s -> levels_in slm s -> In level slm ->
  edge_in s t -> edge_in s e -> level < edge_level s t -> level < edge_level s e ->
  mk_node k s level t e = (s', r) ->
  store_wf s' /\ levels_in slm s' /\ ext s s' /\ edge_in s' r /\ level <= edge_level s' r.
Proof.
  intros Hwf Hl Hin It Ie Lt Le H.
  assert (Hsame : forall x, edge_in s x -> level < edge_level s x -> (s', r) = (s, x) ->
                  store_wf s' /\ levels_in slm s' /\ ext s s' /\ edge_in s' r /\ level <= edge_level s' r).
  { intros x Ix Lx E. inversion E; subst. splits; try assumption; [apply ext_refl|lia]. }
  assert (Hadd : forall t0 e0 tag s1 r1, edge_in s t0 -> edge_in s e0 ->
                 level < edge_level s t0 -> level < edge_level s e0 ->
                 find_or_add s (mkN level t0 e0) = (s1, r1) -> (s', r) = (s1, mkE r1 tag) ->
                 store_wf s' /\ levels_in slm s' /\ ext s s' /\ edge_in s' r /\ level <= edge_level s' r).
  { intros t0 e0 tag s1 r1 I1 I2 L1 L2 F E. inversion E; subst.
    destruct (find_or_add_wf slm s level t0 e0 s1 r1 Hwf Hl Hin I1 I2 L1 L2 F) as (W & L & X & R).
    destruct (R tag) as [Ri Rl]. splits; try assumption. rewrite Rl. lia. }
  unfold mk_node in H. destruct k.
  - (* BDD *)
    destruct (cedge_eqb t e); [apply (Hsame t); [assumption..|now symmetry]|].
    destruct (find_or_add s (mkN level t e)) as [s1 r1] eqn:F.
    eapply (Hadd t e false); eauto.
  - (* BCDD *)
    destruct (cedge_eqb t e); [apply (Hsame t); [assumption..|now symmetry]|].
    destruct (ce_tag t).
    + destruct (find_or_add s (mkN level (neg t) (neg e))) as [s1 r1] eqn:F.
      eapply (Hadd (neg t) (neg e) true); eauto.
    + destruct (find_or_add s (mkN level t e)) as [s1 r1] eqn:F.
      eapply (Hadd t e false); eauto.
  - (* ZBDD *)
    destruct (cref_eqb (ce_ref t) (RTerm (TNum 0))); [apply (Hsame e); [assumption..|now symmetry]|].
    destruct (find_or_add s (mkN level t e)) as [s1 r1] eqn:F.
    eapply (Hadd t e false); eauto.
  - (* MTBDD *)
    destruct (cedge_eqb t e); [apply (Hsame t); [assumption..|now symmetry]|].
    destruct (find_or_add s (mkN level t e)) as [s1 r1] eqn:F.
    eapply (Hadd t e false); eauto.
Qed.

(** levels of the nodes an edge can point to *)
Lemma edge_level_in slm s e : levels_in slm s -> edge_in s e ->
  edge_level s e = level_max \/ In (edge_level s e) slm.
Proof.
  unfold edge_in, edge_level, levels_in. intros Hl. destruct (ce_ref e) as [v|i]; [now left|].
  intros Hi. destruct (nth_error s (N.to_nat i)) as [n|] eqn:E; [|now left].
  right. rewrite Forall_forall in Hl. apply Hl. eapply nth_error_In. exact E.
Qed.

(** [BDDFunction::not_edge_owned] *)
Lemma bdd_not_wf slm : forall fuel s e s' e',
  store_wf s -> levels_in slm s -> edge_in s e ->
  bdd_not s fuel e = Ok (s', e') ->
  store_wf s' /\ levels_in slm s' /\ ext s s' /\ edge_in s' e' /\ edge_level s e <= edge_level s' e'.
Proof.
  induction fuel as [|f IH]; intros s e s' e' Hwf Hl Hin H.
  - cbn in H. destruct (ce_ref e) as [[z| | |]|i] eqn:Er; try discriminate.
    inversion H; subst. splits; try assumption; [apply ext_refl|].
    unfold edge_level. rewrite Er. cbn. lia.
  - cbn in H. destruct (ce_ref e) as [[z| | |]|i] eqn:Er; try discriminate.
    + inversion H; subst. splits; try assumption; [apply ext_refl|].
      unfold edge_level. rewrite Er. cbn. lia.
    + destruct (nth_error s (N.to_nat i)) as [n|] eqn:En; [|discriminate].
      destruct (Hwf _ _ En) as (R1 & R2 & L1 & L2).
      assert (Hi : (N.to_nat i < length s)%nat) by (apply nth_error_Some; congruence).
      assert (I1 : edge_in s (cn_t n)) by (eapply ref_below_in; [|exact R1]; lia).
      assert (I2 : edge_in s (cn_e n)) by (eapply ref_below_in; [|exact R2]; lia).
      destruct (bdd_not s f (cn_t n)) as [[s1 t']|] eqn:B1; [|discriminate]. cbn [bind] in H.
      destruct (IH _ _ _ _ Hwf Hl I1 B1) as (W1 & Lv1 & X1 & It' & Lt').
      destruct (bdd_not s1 f (cn_e n)) as [[s2 e2]|] eqn:B2; [|discriminate]. cbn [bind] in H.
      destruct (IH _ _ _ _ W1 Lv1 (edge_in_ext _ _ _ X1 I2) B2) as (W2 & Lv2 & X2 & Ie' & Le').
      rewrite (edge_level_ext s s1) in Le' by assumption.
      inversion H as [Hmk]. clear H.
      assert (Hlv : In (cn_level n) slm).
      { unfold levels_in in Hl. rewrite Forall_forall in Hl. apply Hl. eapply nth_error_In. exact En. }
      destruct (mk_node_wf KBDD slm s2 (cn_level n) t' e2 s' e' W2 Lv2 Hlv
                  (edge_in_ext _ _ _ X2 It') Ie'
                  ltac:(rewrite (edge_level_ext s1 s2) by assumption; lia) ltac:(lia) Hmk)
        as (W & Lv & X & Ir & Lr).
      splits; try assumption.
      * eapply ext_trans; [exact X1|]. eapply ext_trans; [exact X2|exact X].
      * unfold edge_level at 1. rewrite Er, En. exact Lr.
Qed.

(** the [complement] argument of [import] *)
Lemma complement_wf k slm s e s' e' :
  store_wf s -> levels_in slm s -> edge_in s e ->
  complement k s e = Ok (s', e') ->
  store_wf s' /\ levels_in slm s' /\ ext s s' /\ edge_in s' e' /\ edge_level s e <= edge_level s' e'.
Proof.
  intros Hwf Hl Hin H. destruct k; unfold complement in H; try discriminate.
  - eapply bdd_not_wf; eassumption.
  - inversion H; subst. splits; try assumption; [apply ext_refl|].
    rewrite edge_level_neg. lia.
Qed.

(** ** importer states *)

Record st_wf (slm : list N) (st : ist) : Prop := {
  sw_store : store_wf (st_store st);
  sw_levels : levels_in slm (st_store st);
  sw_nodes : Forall (edge_in (st_store st)) (st_nodes st)
}.

Lemma st_wf_empty slm : st_wf slm empty_state.
Proof. split; [apply store_wf_nil|constructor|constructor]. Qed.

Lemma node_at_in slm st i e : st_wf slm st -> node_at st i = Ok e -> edge_in (st_store st) e.
Proof.
  intros [_ _ Hn] H. unfold node_at in H.
  destruct (nth_error (st_nodes st) (N.to_nat i)) as [x|] eqn:E; [|discriminate].
  inversion H; subst. rewrite Forall_forall in Hn. apply Hn. eapply nth_error_In. exact E.
Qed.

Lemma st_wf_push slm st s' r :
  st_wf slm st -> store_wf s' -> levels_in slm s' -> ext (st_store st) s' -> edge_in s' r ->
  st_wf slm (mkS s' (st_nodes st ++ [r])).
Proof.
  intros [_ _ Hn] W L X R. split; cbn; try assumption.
  apply Forall_app. split; [eapply Forall_edge_in_ext; eassumption|]. constructor; [exact R|constructor].
Qed.

(** *** binary node section *)

Lemma read_unescape_shorter inp b inp' : read_unescape inp = Ok (b, inp') -> (length inp' < length inp)%nat.
Proof.
  destruct inp as [|x r]; cbn; [discriminate|].
  destruct (x =? 0).
  - destruct r as [|c r']; [discriminate|]. destruct (unescape_code c); [|discriminate].
    intros H; inversion H; subst. cbn. lia.
  - intros H; inversion H; subst. cbn. lia.
Qed.

Lemma dec7_shorter : forall inp acc v inp', dec7 acc inp = Ok (v, inp') -> (length inp' <= length inp)%nat.
Proof.
  induction inp as [inp IH] using (induction_ltof1 _ (@length byte)). unfold ltof in IH.
  intros acc v inp' H. destruct inp as [|x r]; cbn in H; [discriminate|].
  destruct (x =? 0).
  - destruct r as [|c r']; [discriminate|]. destruct (unescape_code c); [|discriminate].
    destruct (dec7_step acc b) as [[a' [|]]|]; try discriminate.
    + inversion H; subst. cbn. lia.
    + apply IH in H; cbn in *; lia.
  - destruct (dec7_step acc x) as [[a' [|]]|]; try discriminate.
    + inversion H; subst. cbn. lia.
    + apply IH in H; cbn in *; lia.
Qed.

Lemma decode_7bit_shorter inp v inp' : decode_7bit inp = Ok (v, inp') -> (length inp' <= length inp)%nat.
Proof. apply dec7_shorter. Qed.

Lemma idx_ref_spec inp node_id c i inp' :
  idx_ref inp node_id c = Ok (i, inp') -> i + 1 < node_id /\ (length inp' <= length inp)%nat.
Proof.
  unfold idx_ref. intros H.
  match type of H with bind ?r _ = _ => destruct r as [[id inp1]|] eqn:E; [|discriminate] end.
  cbn [bind] in H.
  destruct (N.eqb_spec id 0); [discriminate|]. destruct (N.leb_spec node_id id); [discriminate|].
  inversion H; subst. split; [lia|].
  destruct c.
  - inversion E; subst. lia.
  - apply decode_7bit_shorter in E. exact E.
  - destruct (decode_7bit inp) as [[d inp2]|] eqn:D; [|discriminate]. cbn [bind] in E.
    destruct (node_id <? d); [discriminate|]. inversion E; subst.
    apply decode_7bit_shorter in D. exact D.
  - inversion E; subst. lia.
Qed.

Lemma import_bin_node_wf k slm nlevels terminal st node_id inp st' inp' :
  st_wf slm st -> (exists v, ce_ref terminal = RTerm v) ->
  import_bin_node k slm nlevels terminal st node_id inp = Ok (st', inp') ->
  st_wf slm st' /\ length (st_nodes st') = S (length (st_nodes st)) /\ (length inp' < length inp)%nat /\
  ext (st_store st) (st_store st').
Proof.
  intros Hst [tv Htv] H. unfold import_bin_node in H.
  destruct (read_unescape inp) as [[b inp0]|] eqn:R; [|discriminate]. cbn [bind] in H.
  pose proof (read_unescape_shorter _ _ _ R) as Hlen0.
  destruct (split_node_code b) as [[[vc tc] ecompl] ec].
  assert (Hterm : Ok (mkS (st_store st) (st_nodes st ++ [terminal]), inp0) = Ok (st', inp') ->
          st_wf slm st' /\ length (st_nodes st') = S (length (st_nodes st)) /\ (length inp' < length inp)%nat /\
          ext (st_store st) (st_store st')).
  { intros E. inversion E; subst. splits.
    - apply (st_wf_push slm st); try apply Hst; [apply ext_refl|]. unfold edge_in. rewrite Htv. trivial.
    - cbn. rewrite app_length. cbn. lia.
    - exact Hlen0.
    - apply ext_refl. }
  assert (Hinner : vc <> CTerminal ->
    (('(vid, inp) <- (if has_arg vc then decode_7bit inp0 else Ok (1, inp0)) ;;
      '(ti, inp) <- idx_ref inp node_id tc ;;
      t <- node_at st ti ;;
      let t_level := edge_level (st_store st) t in
      '(ei, inp) <- idx_ref inp node_id ec ;;
      e <- node_at st ei ;;
      let e_level := edge_level (st_store st) e in
      '(store, e) <- (if ecompl then complement k (st_store st) e else Ok (st_store st, e)) ;;
      vid <- resolve_vid slm nlevels vc vid t_level e_level ;;
      match nth_error slm (N.to_nat vid) with
      | None => Err EVarRange
      | Some level =>
        if (t_level <=? level) || (e_level <=? level) then Err ELevel
        else
          let '(store, r) := mk_node k store level t e in
          Ok (mkS store (st_nodes st ++ [r]), inp)
      end) = Ok (st', inp')) ->
    st_wf slm st' /\ length (st_nodes st') = S (length (st_nodes st)) /\ (length inp' < length inp)%nat /\
    ext (st_store st) (st_store st')).
  { intros _ E.
    match type of E with bind ?r _ = _ => destruct r as [[vid inp1]|] eqn:E1; [|discriminate] end.
    cbn [bind] in E.
    assert (Hl1 : (length inp1 <= length inp0)%nat).
    { destruct (has_arg vc); [apply decode_7bit_shorter in E1; exact E1|inversion E1; subst; lia]. }
    destruct (idx_ref inp1 node_id tc) as [[ti inp2]|] eqn:E2; [|discriminate]. cbn [bind] in E.
    destruct (idx_ref_spec _ _ _ _ _ E2) as [_ Hl2].
    destruct (node_at st ti) as [t|] eqn:E3; [|discriminate]. cbn [bind] in E.
    destruct (idx_ref inp2 node_id ec) as [[ei inp3]|] eqn:E4; [|discriminate]. cbn [bind] in E.
    destruct (idx_ref_spec _ _ _ _ _ E4) as [_ Hl3].
    destruct (node_at st ei) as [e|] eqn:E5; [|discriminate]. cbn [bind] in E.
    pose proof (node_at_in _ _ _ _ Hst E3) as It. pose proof (node_at_in _ _ _ _ Hst E5) as Ie.
    match type of E with bind ?r _ = _ => destruct r as [[store e2]|] eqn:E6; [|discriminate] end.
    cbn [bind] in E.
    assert (Hc : store_wf store /\ levels_in slm store /\ ext (st_store st) store /\ edge_in store e2 /\
                 edge_level (st_store st) e <= edge_level store e2).
    { destruct ecompl.
      - eapply complement_wf; try eassumption; apply Hst.
      - inversion E6; subst. splits; try apply Hst; [apply ext_refl|exact Ie|lia]. }
    destruct Hc as (W & L & X & Ie2 & Le2).
    destruct (resolve_vid slm nlevels vc vid (edge_level (st_store st) t) (edge_level (st_store st) e))
      as [vid'|] eqn:E7; [|discriminate]. cbn [bind] in E.
    destruct (nth_error slm (N.to_nat vid')) as [level|] eqn:E8; [|discriminate].
    destruct (N.leb_spec (edge_level (st_store st) t) level); [discriminate|].
    destruct (N.leb_spec (edge_level (st_store st) e) level); [discriminate|]. cbn [orb] in E.
    destruct (mk_node k store level t e2) as [store' r] eqn:E9.
    inversion E; subst.
    destruct (mk_node_wf k slm store level t e2 store' r W L (nth_error_In _ _ E8)
                (edge_in_ext _ _ _ X It) Ie2
                ltac:(rewrite (edge_level_ext (st_store st)) by assumption; lia) ltac:(lia) E9)
      as (W' & L' & X' & Ir & _).
    splits.
    - apply (st_wf_push slm st); try assumption. eapply ext_trans; eassumption.
    - cbn. rewrite app_length. cbn. lia.
    - lia.
    - cbn. eapply ext_trans; eassumption. }
  destruct vc; [exact (Hterm H)|apply Hinner; [discriminate|exact H]..].
Qed.

Lemma import_bin_loop_wf k slm nlevels terminal : (exists v, ce_ref terminal = RTerm v) ->
  forall n node_id st inp st' inp',
  st_wf slm st ->
  import_bin_loop k slm nlevels terminal n node_id st inp = Ok (st', inp') ->
  st_wf slm st' /\ length (st_nodes st') = (length (st_nodes st) + n)%nat /\
  (length inp' + n <= length inp)%nat /\ ext (st_store st) (st_store st').
Proof.
  intros Hterm. induction n as [|n IH]; intros node_id st inp st' inp' Hst H; cbn in H.
  - inversion H; subst. splits; try apply Hst; [lia|lia|apply ext_refl].
  - destruct (import_bin_node k slm nlevels terminal st node_id inp) as [[st1 inp1]|] eqn:E; [|discriminate].
    cbn [bind] in H.
    destruct (import_bin_node_wf _ _ _ _ _ _ _ _ _ Hst Hterm E) as (W1 & L1 & I1 & X1).
    destruct (IH _ _ _ _ _ W1 H) as (W & L & I & X).
    splits; try apply W; [lia|lia|eapply ext_trans; eassumption].
Qed.

Lemma bin_terminal_term k t : bin_terminal k = Some t -> exists v, ce_ref t = RTerm v.
Proof. destruct k; cbn; intros H; inversion H; subst; eexists; reflexivity. Qed.

Theorem import_bin_wf k slm nlevels nnodes inp st inp' :
  import_bin k slm nlevels nnodes inp = Ok (st, inp') ->
  st_wf slm st /\ length (st_nodes st) = N.to_nat nnodes /\ (length inp' + N.to_nat nnodes <= length inp)%nat.
Proof.
  unfold import_bin. destruct (N.eqb_spec nnodes 0) as [->|Hn].
  - intros H; inversion H; subst. splits; try apply st_wf_empty; cbn; lia.
  - destruct (bin_terminal k) as [t|] eqn:Et; [|discriminate]. intros H.
    destruct (import_bin_loop_wf k slm nlevels t (bin_terminal_term _ _ Et) _ _ _ _ _ _ (st_wf_empty slm) H)
      as (W & L & I & _).
    splits; try apply W; [exact L|exact I].
Qed.

(** *** ASCII node section *)

Lemma take_line_length : forall inp l r, take_line inp = (l, r) -> length inp = (length l + length r)%nat.
Proof.
  induction inp as [|b inp IH]; intros l r H; cbn in H.
  - inversion H; subst. reflexivity.
  - destruct (b =? 10).
    + inversion H; subst. cbn. lia.
    + destruct (take_line inp) as [l1 r1] eqn:E. inversion H; subst. cbn. rewrite (IH _ _ eq_refl). lia.
Qed.

Lemma take_line_nonempty b inp l r : take_line (b :: inp) = (l, r) -> l <> [].
Proof.
  cbn. destruct (b =? 10); [intros H; inversion H; discriminate|].
  destruct (take_line inp). intros H; inversion H; discriminate.
Qed.

Lemma read_line_shorter inp l r : read_line inp = Ok (l, r) -> (length r < length inp)%nat.
Proof.
  unfold read_line. destruct inp as [|b inp]; [discriminate|].
  destruct (take_line (b :: inp)) as [l1 r1] eqn:E. intros H; inversion H; subst.
  pose proof (take_line_length _ _ _ E). pose proof (take_line_nonempty _ _ _ _ E).
  destruct l1; [contradiction|]. cbn in *. lia.
Qed.

Lemma ascii_child_check_in slm st node_id level child e :
  st_wf slm st -> ascii_child_check st node_id level child = Ok e ->
  edge_in (st_store st) e /\ level < edge_level (st_store st) e.
Proof.
  intros Hst H. unfold ascii_child_check in H.
  destruct (node_id <=? Z.abs_N child); [discriminate|].
  destruct (node_at st (Z.abs_N child - 1)) as [x|] eqn:E; [|discriminate]. cbn [bind] in H.
  destruct (N.leb_spec (edge_level (st_store st) x) level); [discriminate|].
  inversion H; subst. split; [eapply node_at_in; eassumption|assumption].
Qed.

Lemma ascii_child_edge_wf k slm s e child s' e' :
  store_wf s -> levels_in slm s -> edge_in s e ->
  ascii_child_edge k s e child = Ok (s', e') ->
  store_wf s' /\ levels_in slm s' /\ ext s s' /\ edge_in s' e' /\ edge_level s e <= edge_level s' e'.
Proof.
  intros W L I H. unfold ascii_child_edge in H. destruct (child <? 0)%Z.
  - eapply complement_wf; eassumption.
  - inversion H; subst. splits; try assumption; [apply ext_refl|lia].
Qed.

Lemma parse_terminal_term k tok e : parse_terminal k tok = Some e -> exists v, ce_ref e = RTerm v.
Proof.
  unfold parse_terminal. destruct k;
    repeat match goal with |- context [if ?c then _ else _] => destruct c end;
    try (intros H; inversion H; subst; eexists; reflexivity); try discriminate.
  destruct (parse_i64 tok); [|discriminate]. intros H; inversion H; subst; eexists; reflexivity.
Qed.

Lemma import_ascii_line_wf k vin slm st node_id line st' :
  st_wf slm st -> import_ascii_line k vin slm st node_id line = Ok st' ->
  st_wf slm st' /\ length (st_nodes st') = S (length (st_nodes st)) /\ ext (st_store st) (st_store st').
Proof.
  intros Hst H. unfold import_ascii_line in H.
  destruct (parse_usize line) as [[rest nid]|]; [|discriminate]. cbn [bind] in H.
  destruct (negb (nid =? node_id)); [discriminate|].
  match type of H with bind ?r _ = _ => destruct r as [rest1|]; [|discriminate] end. cbn [bind] in H.
  destruct (split_sp (trim_start rest1)) as [[var_tok rest2]|]; [|discriminate].
  destruct (parse_edge_list rest2) as [children|]; [|discriminate]. cbn [bind] in H.
  destruct children as [|c1 [|c2 [|c3 cs]]]; try discriminate.
  destruct ((c1 =? 0)%Z || (c2 =? 0)%Z).
  - destruct (parse_terminal k var_tok) as [e|] eqn:Et; [|discriminate]. inversion H; subst.
    destruct (parse_terminal_term _ _ _ Et) as [v Hv]. splits.
    + apply (st_wf_push slm st); try apply Hst; [apply ext_refl|]. unfold edge_in. rewrite Hv. trivial.
    + cbn. rewrite app_length. cbn. lia.
    + apply ext_refl.
  - destruct (parse_u32 var_tok) as [[r0 var_id]|]; [|discriminate]. cbn [bind] in H.
    destruct (nth_error slm (N.to_nat var_id)) as [level|] eqn:El; [|discriminate].
    destruct (ascii_child_check st node_id level c1) as [e1|] eqn:C1; [|discriminate]. cbn [bind] in H.
    destruct (ascii_child_check st node_id level c2) as [e2|] eqn:C2; [|discriminate]. cbn [bind] in H.
    destruct (ascii_child_check_in _ _ _ _ _ _ Hst C1) as [I1 L1].
    destruct (ascii_child_check_in _ _ _ _ _ _ Hst C2) as [I2 L2].
    destruct (ascii_child_edge k (st_store st) e1 c1) as [[s1 e1']|] eqn:A1; [|discriminate]. cbn [bind] in H.
    destruct (ascii_child_edge_wf _ slm _ _ _ _ _ (sw_store _ _ Hst) (sw_levels _ _ Hst) I1 A1)
      as (W1 & Lv1 & X1 & I1' & L1').
    destruct (ascii_child_edge k s1 e2 c2) as [[s2 e2']|] eqn:A2; [|discriminate]. cbn [bind] in H.
    destruct (ascii_child_edge_wf _ slm _ _ _ _ _ W1 Lv1 (edge_in_ext _ _ _ X1 I2) A2)
      as (W2 & Lv2 & X2 & I2' & L2').
    rewrite (edge_level_ext (st_store st) s1) in L2' by assumption.
    destruct (mk_node k s2 level e1' e2') as [s3 r] eqn:M. inversion H; subst.
    destruct (mk_node_wf k slm s2 level e1' e2' s3 r W2 Lv2 (nth_error_In _ _ El)
                (edge_in_ext _ _ _ X2 I1') I2'
                ltac:(rewrite (edge_level_ext s1 s2) by assumption; lia) ltac:(lia) M)
      as (W3 & Lv3 & X3 & Ir & _).
    assert (X : ext (st_store st) s3) by (eapply ext_trans; [exact X1|]; eapply ext_trans; eassumption).
    splits.
    + apply (st_wf_push slm st); assumption.
    + cbn. rewrite app_length. cbn. lia.
    + exact X.
Qed.

Lemma import_ascii_loop_wf k vin slm : forall n node_id st inp st' inp',
  st_wf slm st ->
  import_ascii_loop k vin slm n node_id st inp = Ok (st', inp') ->
  st_wf slm st' /\ length (st_nodes st') = (length (st_nodes st) + n)%nat /\
  (length inp' + n <= length inp)%nat /\ ext (st_store st) (st_store st').
Proof.
  induction n as [|n IH]; intros node_id st inp st' inp' Hst H; cbn in H.
  - inversion H; subst. splits; try apply Hst; [lia|lia|apply ext_refl].
  - destruct (read_line inp) as [[line inp1]|] eqn:R; [|discriminate]. cbn [bind] in H.
    apply read_line_shorter in R.
    destruct (import_ascii_line k vin slm st node_id line) as [st1|] eqn:E; [|discriminate]. cbn [bind] in H.
    destruct (import_ascii_line_wf _ _ _ _ _ _ _ Hst E) as (W1 & L1 & X1).
    destruct (IH _ _ _ _ _ W1 H) as (W & L & I & X).
    splits; try apply W; [lia|lia|eapply ext_trans; eassumption].
Qed.

Theorem import_ascii_wf k vin slm nnodes inp st inp' :
  import_ascii k vin slm nnodes inp = Ok (st, inp') ->
  st_wf slm st /\ length (st_nodes st) = N.to_nat nnodes /\ (length inp' + N.to_nat nnodes <= length inp)%nat.
Proof.
  unfold import_ascii. intros H.
  destruct (import_ascii_loop_wf _ _ _ _ _ _ _ _ _ (st_wf_empty slm) H) as (W & L & I & _).
  splits; try apply W; [exact L|exact I].
Qed.

(** *** roots *)

Lemma import_roots_wf k slm : forall rootids st st' roots,
  st_wf slm st -> import_roots k st rootids = Ok (st', roots) ->
  st_wf slm st' /\ st_nodes st' = st_nodes st /\ ext (st_store st) (st_store st') /\
  Forall (edge_in (st_store st')) roots /\ length roots = length rootids /\
  Forall (fun r => r <> 0%Z /\ (N.to_nat (Z.abs_N r) <= length (st_nodes st))%nat) rootids.
Proof.
  induction rootids as [|r rs IH]; intros st st' roots Hst H; cbn in H.
  - inversion H; subst. splits; try apply Hst; [apply ext_refl|constructor|constructor].
  - destruct (Z.eqb_spec r 0); [discriminate|].
    destruct (nth_error (st_nodes st) (N.to_nat (Z.abs_N r - 1))) as [e|] eqn:E; [|discriminate]. cbn [bind] in H.
    assert (Ie : edge_in (st_store st) e).
    { pose proof (sw_nodes _ _ Hst) as Hn. rewrite Forall_forall in Hn. apply Hn. eapply nth_error_In. exact E. }
    match type of H with bind ?c _ = _ => destruct c as [[store e']|] eqn:C; [|discriminate] end. cbn [bind] in H.
    assert (Hc : store_wf store /\ levels_in slm store /\ ext (st_store st) store /\ edge_in store e').
    { destruct (r <? 0)%Z.
      - destruct (complement_wf k slm _ _ _ _ (sw_store _ _ Hst) (sw_levels _ _ Hst) Ie C) as (a & b & c & d & _).
        splits; assumption.
      - inversion C; subst. splits; try apply Hst; [apply ext_refl|exact Ie]. }
    destruct Hc as (W & L & X & Ie').
    destruct (import_roots k (mkS store (st_nodes st)) rs) as [[st2 es]|] eqn:R; [|discriminate]. cbn [bind] in H.
    inversion H; subst.
    assert (Hst1 : st_wf slm (mkS store (st_nodes st))).
    { split; cbn; try assumption. eapply Forall_edge_in_ext; [exact X|apply Hst]. }
    destruct (IH _ _ _ Hst1 R) as (W2 & N2 & X2 & F2 & Len & Rng). cbn in N2, X2, Rng.
    splits; try apply W2.
    + exact N2.
    + eapply ext_trans; eassumption.
    + constructor; [eapply edge_in_ext; eassumption|exact F2].
    + cbn. lia.
    + constructor; [|exact Rng]. split; [assumption|].
      assert ((N.to_nat (Z.abs_N r - 1) < length (st_nodes st))%nat) by (apply nth_error_Some; congruence).
      lia.
Qed.

(** ** SAFETY OF ACCEPTANCE for [import] (node section + trailer + roots), on arbitrary input *)

Theorem import_file_safe k ascii vin slm nlevels nnodes rootids inp st roots :
  import_file k ascii vin slm nlevels nnodes rootids inp = Ok (st, roots) ->
  st_wf slm st /\
  length (st_nodes st) = N.to_nat nnodes /\
  Forall (edge_in (st_store st)) roots /\ length roots = length rootids /\
  Forall (fun r => r <> 0%Z /\ Z.abs_N r <= nnodes) rootids /\
  (N.to_nat nnodes <= length inp)%nat.
Proof.
  unfold import_file. intros H.
  match type of H with bind ?c _ = _ => destruct c as [[st0 rest]|] eqn:C; [|discriminate] end. cbn [bind] in H.
  destruct (negb (reads_end rest)); [discriminate|].
  assert (H0 : st_wf slm st0 /\ length (st_nodes st0) = N.to_nat nnodes /\
               (length rest + N.to_nat nnodes <= length inp)%nat).
  { destruct ascii; [eapply import_ascii_wf|eapply import_bin_wf]; exact C. }
  destruct H0 as (W0 & L0 & I0).
  destruct (import_roots_wf k slm _ _ _ _ W0 H) as (W & N1 & _ & F & Len & Rng).
  splits; try apply W; try assumption.
  - rewrite N1. exact L0.
  - eapply Forall_impl; [|exact Rng]. cbn. intros r [Hr Hl]. split; [exact Hr|]. rewrite L0 in Hl. lia.
  - lia.
Qed.

(** ** every valid edge of a well-formed table denotes a well-defined value *)

(** big-step evaluation (no fuel) *)
Inductive denotes (s : list cnode) (env : N -> bool) : cedge -> tval -> Prop :=
| DTerm e v : ce_ref e = RTerm v -> denotes s env e (if ce_tag e then tneg v else v)
| DNode e i n v : ce_ref e = RNode i -> nth_error s (N.to_nat i) = Some n ->
    denotes s env (if env (cn_level n) then cn_t n else cn_e n) v ->
    denotes s env e (if ce_tag e then tneg v else v).

Lemma eval_edge_unfold s fuel env e :
  eval_edge s fuel env e =
  let flip v := if ce_tag e then tneg v else v in
  match ce_ref e with
  | RTerm v => flip v
  | RNode i =>
    match fuel with
    | O => TNaN
    | S f => match nth_error s (N.to_nat i) with
             | None => TNaN
             | Some n => flip (eval_edge s f env (if env (cn_level n) then cn_t n else cn_e n))
             end
    end
  end.
Proof. destruct fuel; reflexivity. Qed.

Lemma denotes_det s env e v1 : denotes s env e v1 -> forall v2, denotes s env e v2 -> v1 = v2.
Proof.
  induction 1 as [e v Hr|e i n v Hr Hn Hd IH]; intros v2 H2; inversion H2; subst; try congruence.
  - replace v0 with v by congruence. reflexivity.
  - assert (i0 = i) by congruence. subst i0. assert (n0 = n) by congruence. subst n0.
    rewrite (IH _ H1). reflexivity.
Qed.

(** an edge below index [b] is evaluated with any fuel above [b]; the value is the one of the
    big-step relation *)
Lemma eval_edge_denotes s env : store_wf s ->
  forall b e fuel, ref_below b e -> (b <= length s)%nat -> (b < fuel)%nat ->
  denotes s env e (eval_edge s fuel env e).
Proof.
  intros Hwf. induction b as [|b IH]; intros e fuel Hb Hbl Hf; rewrite eval_edge_unfold; cbv zeta.
  - unfold ref_below in Hb. destruct (ce_ref e) as [v|i] eqn:Er; [|lia]. apply DTerm. exact Er.
  - unfold ref_below in Hb. destruct (ce_ref e) as [v|i] eqn:Er; [apply DTerm; exact Er|].
    destruct fuel as [|f]; [lia|].
    destruct (nth_error s (N.to_nat i)) as [n|] eqn:En.
    + destruct (Hwf _ _ En) as (R1 & R2 & _ & _).
      eapply DNode; [exact Er|exact En|].
      apply IH; [|lia|lia].
      destruct (env (cn_level n)); (eapply ref_below_mono; [|eassumption]; lia).
    + exfalso. apply nth_error_None in En. lia.
Qed.

(** well-definedness: the value exists, is unique, and is what the executable evaluation
    computes with every sufficient fuel (in particular [S (length s)], the fuel of [eval_root]) *)
Theorem edge_denotes s env e : store_wf s -> edge_in s e ->
  exists v, denotes s env e v /\ (forall v', denotes s env e v' -> v' = v) /\
            forall fuel, (length s < fuel)%nat -> eval_edge s fuel env e = v.
Proof.
  intros Hwf Hin. exists (eval_edge s (S (length s)) env e).
  assert (Hb : ref_below (length s) e) by (unfold ref_below, edge_in in *; destruct (ce_ref e); auto).
  assert (D : denotes s env e (eval_edge s (S (length s)) env e)) by (eapply eval_edge_denotes; eauto).
  splits.
  - exact D.
  - intros v' H'. eapply denotes_det; eassumption.
  - intros fuel Hf. eapply denotes_det; [|exact D]. eapply eval_edge_denotes; eauto.
Qed.

(** ZBDD semantics ([zeval_edge]: a skipped level means "variable false"): independent of the
    fuel as soon as it exceeds the table size *)
Lemma zeval_edge_fuel s env nlevels : store_wf s ->
  forall b e lo f1 f2, ref_below b e -> (b <= length s)%nat -> (b < f1)%nat -> (b < f2)%nat ->
  zeval_edge s f1 env nlevels lo e = zeval_edge s f2 env nlevels lo e.
Proof.
  intros Hwf. induction b as [|b IH]; intros e lo f1 f2 Hb Hbl H1 H2.
  - unfold ref_below in Hb. destruct f1, f2; cbn; destruct (ce_ref e); try reflexivity; lia.
  - unfold ref_below in Hb. destruct f1 as [|f1]; [lia|]. destruct f2 as [|f2]; [lia|]. cbn.
    destruct (ce_ref e) as [v|i]; [reflexivity|].
    destruct (nth_error s (N.to_nat i)) as [n|] eqn:En; [|reflexivity].
    destruct (Hwf _ _ En) as (R1 & R2 & _ & _). f_equal.
    apply IH; try lia.
    destruct (env (cn_level n)); (eapply ref_below_mono; [|eassumption]; lia).
Qed.

Theorem eval_root_fuel k s nlevels env e : store_wf s -> edge_in s e ->
  forall fuel, (length s < fuel)%nat ->
  eval_root k s nlevels env e =
  match k with
  | KZBDD => TNum (if zeval_edge s fuel env nlevels 0 e then 1 else 0)
  | _ => eval_edge s fuel env e
  end.
Proof.
  intros Hwf Hin fuel Hf.
  assert (Hb : ref_below (length s) e) by (unfold ref_below, edge_in in *; destruct (ce_ref e); auto).
  destruct (edge_denotes s env e Hwf Hin) as (v & _ & _ & Hv).
  unfold eval_root. destruct k; try (rewrite !Hv by lia; reflexivity).
  rewrite (zeval_edge_fuel s env nlevels Hwf (length s) e 0 (S (length s)) fuel) by (auto; lia).
  reflexivity.
Qed.
