(** * C15 (package C15h): the manager operations of the importer preserve the meaning

    What the importer does with the manager — reduction rule, unique table, complement-edge
    normalisation ([mk_node]) and negation ([complement]: tag flip for BCDD, [bdd_not] for BDD) —
    yields edges that denote exactly the intended function: the new node denotes
    "if the variable at [level] then [t] else [e]", a complemented edge denotes the negation.
    (The ZBDD rule is stated for the ZBDD semantics in IO/Dddmp.v [zeval_edge] and is covered by
    the correspondence run only.) *)
From Coq Require Import List NArith ZArith Bool Arith Lia.
From OxiVerif Require Import IO.Dddmp IO.DddmpProofs IO.DddmpFileSafety.
Import ListNotations.
Open Scope N_scope.

Arguments N.add : simpl never.
Arguments N.sub : simpl never.
Arguments N.mul : simpl never.

Ltac splits := repeat match goal with |- _ /\ _ => split end; try exact eq_refl; try exact I.

Lemma tneg_invol v : tneg (tneg v) = v.
Proof. destruct v; try reflexivity. unfold tneg. f_equal. lia. Qed.

Definition flip (e : cedge) (v : tval) : tval := if ce_tag e then tneg v else v.

Lemma denotes_term s env e u v : ce_ref e = RTerm u -> v = flip e u -> denotes s env e v.
Proof. intros H ->. apply DTerm. exact H. Qed.

Lemma denotes_node s env e i n u v : ce_ref e = RNode i -> nth_error s (N.to_nat i) = Some n ->
  denotes s env (if env (cn_level n) then cn_t n else cn_e n) u -> v = flip e u -> denotes s env e v.
Proof. intros H1 H2 H3 ->. eapply DNode; eassumption. Qed.

Lemma denotes_inv s env e v : denotes s env e v ->
  (exists u, ce_ref e = RTerm u /\ v = flip e u) \/
  (exists i n u, ce_ref e = RNode i /\ nth_error s (N.to_nat i) = Some n /\
                 denotes s env (if env (cn_level n) then cn_t n else cn_e n) u /\ v = flip e u).
Proof. destruct 1; [left|right]; eauto 10. Qed.

(** the meaning of an edge does not change when the table grows *)
Lemma denotes_ext s s' env e v : ext s s' -> denotes s env e v -> denotes s' env e v.
Proof.
  intros [x ->]. induction 1 as [e u Hr|e i n u Hr Hn Hd IH].
  - apply DTerm. exact Hr.
  - eapply DNode; [exact Hr| |exact IH]. rewrite nth_error_app1; [exact Hn|]. apply nth_error_Some. congruence.
Qed.

Lemma denotes_ext_inv s s' env e v : store_wf s -> edge_in s e -> ext s s' ->
  denotes s' env e v -> denotes s env e v.
Proof.
  intros Hwf Hin Hx H. destruct (edge_denotes s env e Hwf Hin) as (w & Hw & _ & _).
  rewrite (denotes_det _ _ _ _ H _ (denotes_ext _ _ _ _ _ Hx Hw)). exact Hw.
Qed.

(** a flipped tag negates *)
Lemma denotes_neg s env e v : denotes s env (neg e) v <-> denotes s env e (tneg v).
Proof.
  assert (Hf : forall u, flip (neg e) u = tneg (flip e u)).
  { intros u. unfold flip, neg. cbn. destruct (ce_tag e); cbn; [rewrite tneg_invol|]; reflexivity. }
  split; intros H.
  - destruct (denotes_inv _ _ _ _ H) as [(u & Hr & ->)|(i & n & u & Hr & Hn & Hd & ->)].
    + eapply denotes_term; [exact Hr|]. rewrite Hf, tneg_invol. reflexivity.
    + eapply denotes_node; [exact Hr|exact Hn|exact Hd|]. rewrite Hf, tneg_invol. reflexivity.
  - destruct (denotes_inv _ _ _ _ H) as [(u & Hr & Hv)|(i & n & u & Hr & Hn & Hd & Hv)].
    + eapply denotes_term; [exact Hr|]. rewrite Hf, <- Hv, tneg_invol. reflexivity.
    + eapply denotes_node; [exact Hr|exact Hn|exact Hd|]. rewrite Hf, <- Hv, tneg_invol. reflexivity.
Qed.

(** an untagged edge to a node equal to [mkN level t e] denotes the Shannon expansion *)
Lemma denotes_new_node s env i level t e tag v :
  nth_error s (N.to_nat i) = Some (mkN level t e) ->
  (denotes s env (mkE (RNode i) tag) v <->
   denotes s env (if env level then t else e) (if tag then tneg v else v)).
Proof.
  intros Hn. split; intros H.
  - destruct (denotes_inv _ _ _ _ H) as [(u & Hr & _)|(i0 & n & u & Hr & Hn0 & Hd & ->)]; [discriminate|].
    cbn in Hr. inversion Hr; subst i0. rewrite Hn in Hn0. inversion Hn0; subst n. cbn in Hd.
    unfold flip. cbn. destruct tag; [rewrite tneg_invol|]; exact Hd.
  - eapply denotes_node; [reflexivity|exact Hn|exact H|]. unfold flip. cbn. destruct tag; [rewrite tneg_invol|]; reflexivity.
Qed.

(** [reduce(..).then_insert(..)] of BDD, BCDD and MTBDD: the returned edge denotes
    "if x_level then t else e" *)
Theorem mk_node_denotes k slm s level t e s' r :
  k <> KZBDD ->
  store_wf s -> levels_in slm s -> In level slm ->
  edge_in s t -> edge_in s e -> level < edge_level s t -> level < edge_level s e ->
  mk_node k s level t e = (s', r) ->
  forall env v, denotes s' env r v <-> denotes s' env (if env level then t else e) v.
Proof.
  intros Hk Hwf Hl Hin It Ie Lt Le H env v.
  assert (Hsame : cedge_eqb t e = true -> (s', r) = (s, t) ->
            (denotes s' env r v <-> denotes s' env (if env level then t else e) v)).
  { intros E1 E2. apply cedge_eqb_eq in E1. inversion E2; subst. destruct (env level); reflexivity. }
  assert (Hadd : forall t0 e0 tag s1 r1, find_or_add s (mkN level t0 e0) = (s1, r1) -> (s', r) = (s1, mkE r1 tag) ->
            (denotes s' env r v <-> denotes s' env (if env level then t0 else e0) (if tag then tneg v else v))).
  { intros t0 e0 tag s1 r1 F E. inversion E; subst.
    destruct (find_or_add_spec _ _ _ _ F) as (i & -> & Hn & _). apply denotes_new_node. exact Hn. }
  unfold mk_node in H. destruct k; [| |contradiction|].
  - destruct (cedge_eqb t e) eqn:Eq; [apply Hsame; [reflexivity|now symmetry]|].
    destruct (find_or_add s (mkN level t e)) as [s1 r1] eqn:F. apply (Hadd t e false s1 r1 F). now symmetry.
  - destruct (cedge_eqb t e) eqn:Eq; [apply Hsame; [reflexivity|now symmetry]|].
    destruct (ce_tag t).
    + destruct (find_or_add s (mkN level (neg t) (neg e))) as [s1 r1] eqn:F.
      rewrite (Hadd (neg t) (neg e) true s1 r1 F) by now symmetry.
      destruct (env level); rewrite denotes_neg, tneg_invol; reflexivity.
    + destruct (find_or_add s (mkN level t e)) as [s1 r1] eqn:F. apply (Hadd t e false s1 r1 F). now symmetry.
  - destruct (cedge_eqb t e) eqn:Eq; [apply Hsame; [reflexivity|now symmetry]|].
    destruct (find_or_add s (mkN level t e)) as [s1 r1] eqn:F. apply (Hadd t e false s1 r1 F). now symmetry.
Qed.

(** ** negation of a BDD without complement edges *)

(** BDD edges carry no tag and point to the terminals ⊥ = 0 / ⊤ = 1 *)
Definition plain_edge (e : cedge) : Prop :=
  ce_tag e = false /\ match ce_ref e with RTerm v => exists z, v = TNum z | RNode _ => True end.
Definition plain_store (s : list cnode) : Prop :=
  Forall (fun n => plain_edge (cn_t n) /\ plain_edge (cn_e n)) s.

Lemma mk_node_bdd_plain s level t e s' r :
  plain_store s -> plain_edge t -> plain_edge e -> mk_node KBDD s level t e = (s', r) ->
  plain_store s' /\ plain_edge r.
Proof.
  intros Hs Ht He H. unfold mk_node in H. destruct (cedge_eqb t e); [inversion H; subst; split; assumption|].
  destruct (find_or_add s (mkN level t e)) as [s1 r1] eqn:F. inversion H; subst.
  destruct (find_or_add_spec _ _ _ _ F) as (i & -> & _ & [->| ->]).
  - split; [exact Hs|split; [reflexivity|exact I]].
  - split; [|split; [reflexivity|exact I]]. apply Forall_app. split; [exact Hs|]. constructor; [split; assumption|constructor].
Qed.

(** [BDDFunction::not_edge_owned]: the result denotes the negation, and nothing that existed
    before changes its meaning *)
Theorem bdd_not_denotes slm : forall fuel s e s' e',
  store_wf s -> levels_in slm s -> plain_store s -> edge_in s e -> plain_edge e ->
  bdd_not s fuel e = Ok (s', e') ->
  plain_store s' /\ plain_edge e' /\
  forall env v, denotes s env e v -> denotes s' env e' (tneg v).
Proof.
  induction fuel as [|f IH]; intros s e s' e' Hwf Hl Hps Hin [Htag Hpe] H.
  - cbn in H. destruct (ce_ref e) as [[z| | |]|i] eqn:Er; try discriminate. inversion H; subst.
    splits; [exact Hps|split; [reflexivity|cbn; eauto]|].
    intros env v Hd. destruct (denotes_inv _ _ _ _ Hd) as [(u & Hr & ->)|(i0 & n & u & Hr & _)]; [|congruence].
    rewrite Er in Hr. inversion Hr; subst u. unfold flip. rewrite Htag.
    eapply denotes_term; [reflexivity|]. reflexivity.
  - cbn in H. destruct (ce_ref e) as [[z| | |]|i] eqn:Er; try discriminate.
    + inversion H; subst. splits; [exact Hps|split; [reflexivity|cbn; eauto]|].
      intros env v Hd. destruct (denotes_inv _ _ _ _ Hd) as [(u & Hr & ->)|(i0 & n & u & Hr & _)]; [|congruence].
      rewrite Er in Hr. inversion Hr; subst u. unfold flip. rewrite Htag.
      eapply denotes_term; [reflexivity|]. reflexivity.
    + destruct (nth_error s (N.to_nat i)) as [n|] eqn:En; [|discriminate].
      destruct (Hwf _ _ En) as (R1 & R2 & L1 & L2).
      assert (Hi : (N.to_nat i < length s)%nat) by (apply nth_error_Some; congruence).
      assert (I1 : edge_in s (cn_t n)) by (eapply ref_below_in; [|exact R1]; lia).
      assert (I2 : edge_in s (cn_e n)) by (eapply ref_below_in; [|exact R2]; lia).
      pose proof Hps as Hps'. unfold plain_store in Hps'. rewrite Forall_forall in Hps'.
      destruct (Hps' n (nth_error_In _ _ En)) as [P1 P2].
      destruct (bdd_not s f (cn_t n)) as [[s1 t']|] eqn:B1; [|discriminate]. cbn [bind] in H.
      destruct (IH _ _ _ _ Hwf Hl Hps I1 P1 B1) as (Ps1 & Pt' & D1).
      destruct (bdd_not_wf slm _ _ _ _ _ Hwf Hl I1 B1) as (W1 & Lv1 & X1 & It' & Lt').
      destruct (bdd_not s1 f (cn_e n)) as [[s2 e2]|] eqn:B2; [|discriminate]. cbn [bind] in H.
      destruct (IH _ _ _ _ W1 Lv1 Ps1 (edge_in_ext _ _ _ X1 I2) P2 B2) as (Ps2 & Pe2 & D2).
      destruct (bdd_not_wf slm _ _ _ _ _ W1 Lv1 (edge_in_ext _ _ _ X1 I2) B2) as (W2 & Lv2 & X2 & Ie2 & Le2).
      rewrite (edge_level_ext s s1) in Le2 by assumption.
      inversion H as [Hmk]. clear H.
      assert (Hlv : In (cn_level n) slm).
      { unfold levels_in in Hl. rewrite Forall_forall in Hl. apply Hl. eapply nth_error_In. exact En. }
      destruct (mk_node_bdd_plain _ _ _ _ _ _ Ps2 Pt' Pe2 Hmk) as [Ps' Pe'].
      pose proof (mk_node_wf KBDD slm s2 (cn_level n) t' e2 s' e' W2 Lv2 Hlv (edge_in_ext _ _ _ X2 It') Ie2
                    ltac:(rewrite (edge_level_ext s1 s2) by assumption; lia) ltac:(lia) Hmk) as (W' & _ & X' & _ & _).
      pose proof (mk_node_denotes KBDD slm s2 (cn_level n) t' e2 s' e' ltac:(discriminate) W2 Lv2 Hlv
                    (edge_in_ext _ _ _ X2 It') Ie2
                    ltac:(rewrite (edge_level_ext s1 s2) by assumption; lia) ltac:(lia) Hmk) as Hmd.
      splits; [exact Ps'|exact Pe'|].
      intros env v Hd. destruct (denotes_inv _ _ _ _ Hd) as [(u & Hr & _)|(i0 & n0 & u & Hr & Hn0 & Hd0 & ->)]; [congruence|].
      rewrite Er in Hr. inversion Hr; subst i0. rewrite En in Hn0. inversion Hn0; subst n0. unfold flip. rewrite Htag.
      apply Hmd. destruct (env (cn_level n)).
      * apply (denotes_ext s1); [eapply ext_trans; eassumption|]. apply D1. exact Hd0.
      * apply (denotes_ext s2); [exact X'|]. apply D2. apply (denotes_ext s); [exact X1|exact Hd0].
Qed.
