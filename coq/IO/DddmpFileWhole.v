(** * C15 (package C15h): the whole DDDMP file

    - SAFETY OF ACCEPTANCE of [import_whole] on arbitrary bytes,
    - the short cut [import_whole_guarded] used by the extracted code is equivalent,
    - whole-file round trips: header + node section + [.end] written by the exporter models
      are read back by [import_whole] (binary mode: BCDD; ASCII mode: BDD, BCDD, ZBDD, MTBDD). *)
From Coq Require Import String Ascii.
From Coq Require Import List NArith ZArith Bool Arith Lia.
From OxiVerif Require Import IO.Dddmp IO.DddmpProofs IO.DddmpAsciiProofs IO.DddmpFile IO.DddmpFileProofs
  IO.DddmpFileSafety IO.DddmpFileRoundtrip.
Import ListNotations.
Open Scope N_scope.

Arguments N.add : simpl never.
Arguments N.sub : simpl never.
Arguments N.mul : simpl never.
Arguments N.div : simpl never.
Arguments N.modulo : simpl never.
Arguments N.pow : simpl never.

Ltac splits := repeat match goal with |- _ /\ _ => split end; try exact eq_refl; try exact I.

(** ** safety of acceptance *)

(** "never builds a wrong diagram": whatever byte string [import_whole] accepts,
    - the header is well-formed ([header_wf]: ids ascending and in range, levels distinct and
      in range, counts consistent, root references non-zero and in range),
    - the unique table is well-formed: children come before their parents (acyclic), levels
      strictly increase along edges, all levels are support levels,
    - there is one valid edge per node ID of the file and one valid root edge per root ID,
    - every root denotes a well-defined function: for every assignment the value exists, is
      unique, and is what the executable evaluation computes with any sufficient fuel. *)
Theorem import_whole_safe k slm nlevels inp h st roots :
  import_whole k slm nlevels inp = WOk (h, st, roots) ->
  header_wf h /\
  length slm = length (h_ids h) /\
  st_wf slm st /\
  length (st_nodes st) = N.to_nat (h_nnodes h) /\
  Forall (edge_in (st_store st)) roots /\ length roots = length (h_rootids h) /\
  forall r, In r roots -> forall env,
    exists v, denotes (st_store st) env r v /\ (forall v', denotes (st_store st) env r v' -> v' = v) /\
              (forall fuel, (length (st_store st) < fuel)%nat -> eval_edge (st_store st) fuel env r = v).
Proof.
  unfold import_whole. destruct (load_header inp) as [[h0 rest]|e] eqn:L; [|discriminate].
  destruct (Nat.eqb_spec (length slm) (length (h_ids h0))) as [Hlen|]; cbn [negb]; [|discriminate].
  unfold import_body.
  destruct (import_file k (h_ascii h0) (varinfo_none (h_varinfo h0)) slm nlevels (h_nnodes h0) (h_rootids h0) rest)
    as [[st0 roots0]|] eqn:Ei; [|discriminate].
  intros H; inversion H; subst. clear H.
  destruct (load_header_wf _ _ _ L) as [Hwf _].
  destruct (import_file_safe _ _ _ _ _ _ _ _ _ _ Ei) as (W & Ln & F & Lr & _ & _).
  splits; try assumption.
  intros r Hr env. apply edge_denotes; [apply W|]. rewrite Forall_forall in F. apply F. exact Hr.
Qed.

(** [import_whole] never blames the caller when the caller passes one level per support variable *)
Lemma import_whole_pre k slm nlevels inp h rest :
  load_header inp = HOk (h, rest) -> length slm = length (h_ids h) -> import_whole k slm nlevels inp <> WPre.
Proof.
  intros L E. unfold import_whole. rewrite L. rewrite (proj2 (Nat.eqb_eq _ _) E). cbn [negb].
  unfold import_body. destruct (import_file _ _ _ _ _ _ _ _) as [[? ?]|]; discriminate.
Qed.

(** ** the short cut of the extracted importer *)

Definition wres_equiv {A} (a b : wres A) : Prop :=
  match a, b with
  | WOk x, WOk y => x = y
  | WHdr _, WHdr _ | WPre, WPre | WBody _, WBody _ => True
  | _, _ => False
  end.

(** same acceptance, same result; only the error value may differ *)
Theorem import_whole_guarded_equiv k slm nlevels inp :
  wres_equiv (import_whole k slm nlevels inp) (import_whole_guarded k slm nlevels inp).
Proof.
  unfold import_whole, import_whole_guarded. destruct (load_header inp) as [[h rest]|e]; [|exact I].
  destruct (negb (Nat.eqb (length slm) (length (h_ids h)))); [exact I|].
  destruct (N.ltb_spec (N.of_nat (length rest)) (h_nnodes h)) as [Hlt|Hge].
  - unfold import_body.
    destruct (import_file k (h_ascii h) (varinfo_none (h_varinfo h)) slm nlevels (h_nnodes h) (h_rootids h) rest)
      as [[st roots]|] eqn:Ei; [|exact I].
    exfalso. destruct (import_file_safe _ _ _ _ _ _ _ _ _ _ Ei) as (_ & _ & _ & _ & _ & Hn). lia.
  - unfold import_body. destruct (import_file _ _ _ _ _ _ _ _) as [[st roots]|]; [reflexivity|exact I].
Qed.

(** ** whole-file round trip, binary mode *)

Theorem import_export_whole_bin x slm nlevels l :
  xwf x -> x_ascii x = false ->
  x_nnodes x = N.of_nat (length (dag_of l)) ->
  length slm = length (x_ids x) ->
  wf_dag (N.of_nat (length slm)) l -> incr slm -> Forall (fun v => v < level_max) slm ->
  N.of_nat (length slm) < usize_limit -> N.of_nat (length l) + 1 < usize_limit ->
  import_whole KBCDD slm nlevels (export_whole_bin x (dag_of l))
  = WOk (header_of x, state_of slm l (length l),
         map (fun r => eref (Z.abs_N r) (r <? 0)%Z) (x_rootids x)).
Proof.
  intros Hx Ha Hn Hs Hwf Hi Hm L1 L2. unfold import_whole, export_whole_bin.
  rewrite (load_print_header x _ Hx).
  change (h_ids (header_of x)) with (x_ids x). rewrite (proj2 (Nat.eqb_eq _ _) Hs). cbn [negb].
  unfold import_body. change (h_ascii (header_of x)) with (x_ascii x). rewrite Ha.
  change (h_nnodes (header_of x)) with (x_nnodes x). rewrite Hn.
  change (h_rootids (header_of x)) with (x_rootids x).
  change end_line with trailer.
  rewrite import_file_export_bin; try assumption; [reflexivity..|].
  eapply Forall_impl; [|apply (xw_rootids x Hx)]. intros r (H0 & H1 & _). split; [exact H0|].
  rewrite Hn in H1. unfold dag_of in H1. cbn [length] in H1. rewrite map_length in H1. lia.
Qed.

(** ** whole-file round trip, ASCII mode *)

(** the root references of an ASCII file: a negative reference needs complement edges *)
Definition aroot_ok (k : kind) (tedges : list cedge) (l : list ainode) (r : Z) : Prop :=
  r <> 0%Z /\ Z.abs_N r <= N.of_nat (length tedges) + N.of_nat (length l) /\ ((r < 0)%Z -> k = KBCDD).

Lemma import_roots_astate k slm tedges l : forall rootids,
  Forall (aroot_ok k tedges l) rootids ->
  import_roots k (astate slm tedges l (length l)) rootids
  = Ok (astate slm tedges l (length l), map (sref tedges) rootids).
Proof.
  induction 1 as [|r rs (H0 & Hr & Hk) _ IH]; [reflexivity|]. cbn [import_roots map].
  destruct (Z.eqb_spec r 0); [contradiction|].
  change (st_nodes (astate slm tedges l (length l))) with (anodes_upto tedges (length l)).
  rewrite nth_error_anodes by lia. cbn [bind].
  assert (Hc : (if (r <? 0)%Z then complement k (st_store (astate slm tedges l (length l))) (aref tedges (Z.abs_N r))
                else Ok (st_store (astate slm tedges l (length l)), aref tedges (Z.abs_N r)))
               = Ok (st_store (astate slm tedges l (length l)), sref tedges r)).
  { unfold sref. destruct (Z.ltb_spec r 0); [|reflexivity]. rewrite (Hk H). reflexivity. }
  rewrite Hc. cbn [bind].
  change (mkS (st_store (astate slm tedges l (length l))) (anodes_upto tedges (length l)))
    with (astate slm tedges l (length l)).
  rewrite IH. reflexivity.
Qed.

Theorem import_export_whole_ascii k x slm nlevels descs tedges l :
  xwf x -> x_ascii x = true ->
  x_nnodes x = N.of_nat (length descs + length l) ->
  length slm = length (x_ids x) ->
  terms_ok k descs tedges -> Forall (fun e => exists v, ce_ref e = RTerm v) tedges ->
  incr slm -> Forall (fun v => v < level_max) slm ->
  awf_dag k slm tedges l ->
  N.of_nat (length tedges) + 1 + N.of_nat (length l) <= isize_max ->
  N.of_nat (length slm) <= 4294967296 ->
  Forall (aroot_ok k tedges l) (x_rootids x) ->
  import_whole k slm nlevels (export_whole_ascii x (map ATerm descs ++ map ainner l))
  = WOk (header_of x, astate slm tedges l (length l), map (sref tedges) (x_rootids x)).
Proof.
  intros Hx Ha Hn Hs Hto Hte Hi Hm Hwf L1 L2 Hr. unfold import_whole, export_whole_ascii.
  rewrite (load_print_header x _ Hx).
  change (h_ids (header_of x)) with (x_ids x). rewrite (proj2 (Nat.eqb_eq _ _) Hs). cbn [negb].
  unfold import_body, import_file. change (h_ascii (header_of x)) with (x_ascii x). rewrite Ha.
  change (h_nnodes (header_of x)) with (x_nnodes x). rewrite Hn.
  change (h_rootids (header_of x)) with (x_rootids x).
  change (varinfo_none (h_varinfo (header_of x))) with true.
  rewrite (import_export_ascii k slm descs tedges l) by assumption. cbn [bind].
  change (reads_end end_line) with true. cbn [negb].
  rewrite import_roots_astate by assumption. reflexivity.
Qed.

(** ** the hypotheses are satisfiable *)

(** ASCII strings are valid UTF-8 *)
Lemma utf8_lossy_ascii s : Forall (fun b => b < 128) s -> utf8_lossy s = s.
Proof.
  induction 1 as [|b s Hb _ IH]; [reflexivity|]. cbn [utf8_lossy].
  destruct (N.ltb_spec b 128); [|lia]. rewrite IH. reflexivity.
Qed.

(** names of printable ASCII characters are good names *)
Lemma good_name_ascii n : n <> [] -> Forall (fun b => 32 < b /\ b < 127) n -> good_name n.
Proof.
  intros Hne H. split; [exact Hne|split].
  - eapply Forall_impl; [|exact H]. intros b [H1 H2]. unfold is_space_or_control, is_ascii_control.
    destruct (N.ltb_spec b 32); [lia|]. destruct (N.eqb_spec b 127); [lia|]. destruct (N.eqb_spec b 32); [lia|]. reflexivity.
  - apply utf8_lossy_ascii. eapply Forall_impl; [|exact H]. cbn. intros; lia.
Qed.

(** five variables; 0, 2, 3 are in the support (levels 1, 3, 4), named a..e, three roots *)
Definition ex_x : xheader :=
  mkX true false (bs "my dd") 6 [(1, true); (0, false); (3, true); (4, true); (2, false)] [1; 0; 4; 2; 3]
      (Some [bs "a"; bs "b"; bs "c"; bs "d"; bs "e"]) [4; -5; 6]%Z (Some [bs "f"; bs "g"; bs "h"]).

Example ex_x_wf : xwf ex_x.
Proof.
  split.
  - reflexivity.
  - reflexivity.
  - repeat constructor.
  - cbn. repeat constructor; cbn; intuition discriminate.
  - reflexivity.
  - intros [|[|[|[|[|v]]]]] l s H; cbn in H; inversion H; subst; try reflexivity. destruct v; discriminate.
  - split; [reflexivity|]. repeat constructor; try discriminate; vm_compute; try reflexivity; intuition discriminate.
  - reflexivity.
  - repeat constructor; try discriminate; vm_compute; discriminate.
  - split; [reflexivity|]. repeat constructor; try discriminate; vm_compute; try reflexivity; intuition discriminate.
Qed.

Example ex_x_text :
  print_header ex_x = bs ".ver DDDMP-3.0
.mode B
.varinfo 4
.dd my dd
.nnodes 6
.nvars 5
.nsuppvars 3
.varnames a b c d e
.suppvarnames a c d
.orderedvarnames b a e c d
.ids 0 2 3
.permids 1 3 4
.nroots 3
.rootids 4 -5 6
.rootnames f g h
.nodes
".
Proof. vm_compute. reflexivity. Qed.

Example ex_x_header :
  header_of ex_x = mkH false VINone (bs "my dd") 6 5 [0; 2; 3] [0; 2; 3] [1; 3; 4] []
                       [bs "a"; bs "b"; bs "c"; bs "d"; bs "e"] [4; -5; 6]%Z [bs "f"; bs "g"; bs "h"].
Proof. vm_compute. reflexivity. Qed.

(** the whole-file theorem applies to a concrete file (and agrees with plain computation) *)
Example ex_whole_bin :
  import_whole KBCDD [1; 4; 5] 6 (export_whole_bin ex_x (dag_of ex_dag))
  = WOk (header_of ex_x, state_of [1; 4; 5] ex_dag 5, [eref 4 false; eref 5 true; eref 6 false]).
Proof.
  apply (import_export_whole_bin ex_x [1; 4; 5] 6 ex_dag); try reflexivity.
  - exact ex_x_wf.
  - exact ex_dag_wf.
  - exact ex_slm_incr.
  - repeat constructor.
Qed.

Example ex_whole_bin_computed :
  import_whole KBCDD [1; 4; 5] 6 (export_whole_bin ex_x (dag_of ex_dag))
  = WOk (header_of ex_x, state_of [1; 4; 5] ex_dag 5, [eref 4 false; eref 5 true; eref 6 false]).
Proof. vm_compute. reflexivity. Qed.

(** malformed inputs are rejected by values, e.g. a truncated file, a level that occurs twice,
    a root reference beyond [.nnodes] *)
Example ex_rejects :
  import_whole KBCDD [1; 4; 5] 6 (firstn 23 (export_whole_bin ex_x (dag_of ex_dag))) = WHdr HEof /\
  load_header (bs ".nvars 3
.nsuppvars 2
.ids 0 1
.permids 2 2
.nodes
") = HErr HPermDup /\
  load_header (bs ".nnodes 2
.nroots 1
.rootids -3
.nodes
") = HErr HRootRange.
Proof. vm_compute. repeat split. Qed.

Lemma fill_names_length : forall v pool r, fill_names v pool = HOk r -> length r = length v.
Proof.
  induction v as [|a v IH]; intros pool r H; cbn in H; [inversion H; reflexivity|].
  destruct a.
  - destruct pool; [discriminate|]. apply hmap_ok in H. destruct H as (r' & H & ->). cbn. f_equal. eapply IH; exact H.
  - apply hmap_ok in H. destruct H as (r' & H & ->). cbn. f_equal. eapply IH; exact H.
Qed.

Lemma take_names_length : forall pairs v o v' o', take_names pairs v o = HOk (v', o') -> length v' = length v.
Proof.
  induction pairs as [|[id pm] pairs IH]; intros v o v' o' H; cbn [take_names] in H; [inversion H; reflexivity|].
  apply hbind_ok in H. destruct H as (name & _ & H).
  destruct (set_nth (N.to_nat pm) [] o) as [o1|]; [|discriminate].
  destruct (set_nth (N.to_nat id) name v) as [v1|] eqn:Ev; [|discriminate].
  rewrite (IH _ _ _ _ H). apply (set_nth_spec _ _ _ _ Ev).
Qed.

(** format 2.0: the names of the support variables are recovered exactly *)
Theorem recover_names_support x names : xwf x -> x_names x = Some names -> x_ver3 x = false ->
  h_varnames (header_of x) = recover_names x names /\
  len (recover_names x names) = x_nvars x /\
  forall id pm, In (id, pm) (x_supp x) ->
    nth_error (recover_names x names) (N.to_nat id) = Some (name_of names id).
Proof.
  intros Hx En Ev.
  assert (Hh : h_varnames (header_of x) = recover_names x names).
  { unfold header_of. cbn [h_varnames]. rewrite En, Ev. reflexivity. }
  split; [exact Hh|].
  pose proof (var_names_block_print x Hx) as Hb. rewrite Hh in Hb.
  unfold st_of in Hb. cbn [s_varnames s_suppnames s_ordered] in Hb. rewrite En, Ev in Hb.
  set (R := recover_names x names) in *.
  pose proof (xw_names x Hx) as Hn. rewrite En in Hn. destruct Hn as [Hlen Hgood].
  pose proof (xw_l2v_len x Hx) as Hl.
  unfold var_names_block in Hb. cbn [is_nil] in Hb.
  destruct (is_nil (map (name_of names) (x_l2v x))) eqn:Eo.
  - (* no variables *)
    assert (E1 : x_l2v x = []) by (destruct (x_l2v x); [reflexivity|discriminate]).
    rewrite E1 in Hl. cbn in Hl.
    assert (E2 : x_vars x = []) by (unfold x_nvars, len in Hl; destruct (x_vars x); [reflexivity|cbn in Hl; lia]).
    unfold x_ids, x_supp in Hb |- *. rewrite E2 in Hb |- *. cbn in Hb. inversion Hb as [Hr].
    split; [unfold x_nvars; rewrite E2; reflexivity|intros ? ? []].
  - apply hbind_ok in Hb. destruct Hb as ([v1 o1] & Ht & Hb).
    apply hbind_ok in Hb. destruct Hb as (r & Hf & Hb).
    apply hbind_ok in Hb. destruct Hb as (_ & _ & Hb). inversion Hb as [Hr]. clear Hb.
    assert (N1 : NoDup (map fst (combine (x_ids x) (x_permids x)))).
    { rewrite x_supp_combine. apply incr_NoDup. apply sorted_strict_incr. apply supp_from_sorted. }
    assert (N2 : NoDup (map snd (combine (x_ids x) (x_permids x)))).
    { rewrite x_supp_combine. apply supp_from_levels_nodup. apply Hx. }
    destruct (take_names_content _ _ _ _ _ Ht N1 N2) as [Hc _].
    rewrite <- Hr. split.
    + unfold len. rewrite (fill_names_length _ _ _ Hf), (take_names_length _ _ _ _ _ Ht), repeat_length. lia.
    + intros id pm Hp.
      eapply fill_names_content; [exact Hf| |].
      * rewrite (Hc id pm) by (rewrite x_supp_combine; exact Hp).
        destruct (supp_l2v x Hx id pm Hp) as (H1 & _ & _). rewrite nth_error_map, H1. reflexivity.
      * destruct (supp_l2v x Hx id pm Hp) as (_ & H2 & _).
        apply (name_of_good names id Hgood). unfold len in Hlen. lia.
Qed.
