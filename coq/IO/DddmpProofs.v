(** * C15 proofs about the model coq/IO/Dddmp.v

    (a) 7-bit integers, (b) escaping, (c) node codes and the binary node
    section: the importer reads back what the exporter wrote, (d) names. *)
From Coq Require Import String Ascii.
From Coq Require Import List NArith ZArith Bool Arith Lia.
From OxiVerif Require Import IO.Dddmp.
Import ListNotations.
Open Scope N_scope.

Ltac Zify.zify_post_hook ::= Z.to_euclidean_division_equations.

Arguments N.add : simpl never.
Arguments N.sub : simpl never.
Arguments N.mul : simpl never.
Arguments N.div : simpl never.
Arguments N.modulo : simpl never.
Arguments N.pow : simpl never.

(** ** (b) escaping *)

Lemma escape_app a b : escape (a ++ b) = escape a ++ escape b.
Proof. apply flat_map_app. Qed.

Lemma escape_cons b l : escape (b :: l) = escape_byte b ++ escape l.
Proof. reflexivity. Qed.

Lemma escape_one b : escape [b] = escape_byte b.
Proof. unfold escape. cbn [flat_map]. apply app_nil_r. Qed.

Ltac esc_cases b :=
  unfold escape_byte;
  destruct (N.eqb_spec b 0) as [->|H0]; [|
  destruct (N.eqb_spec b 10) as [->|H10]; [|
  destruct (N.eqb_spec b 13) as [->|H13]; [|
  destruct (N.eqb_spec b 26) as [->|H26]]]].

Theorem read_unescape_escape : forall b rest,
  read_unescape (escape_byte b ++ rest) = Ok (b, rest).
Proof.
  intros b rest. esc_cases b; try reflexivity.
  cbn [app read_unescape]. destruct (N.eqb_spec b 0); [contradiction|reflexivity].
Qed.

Theorem unescape_escape : forall bs, unescape_all (escape bs) = Ok bs.
Proof.
  induction bs as [|b bs IH]; [reflexivity|].
  rewrite escape_cons.
  esc_cases b; cbn [app unescape_all N.eqb unescape_code]; try (rewrite IH; reflexivity).
  destruct (N.eqb_spec b 0); [contradiction|]. rewrite IH. reflexivity.
Qed.

(** the escaped stream never contains the bytes the format reserves *)
Theorem escape_no_reserved : forall bs, Forall (fun b => b < 256) bs ->
  Forall (fun b => b <> 10 /\ b <> 13 /\ b <> 26) (escape bs).
Proof.
  induction bs as [|b bs IH]; intros H; [constructor|].
  inversion H; subst. rewrite escape_cons. apply Forall_app. split; [|auto].
  esc_cases b; repeat constructor; try lia; auto.
Qed.

(** ** (a) 7-bit integers *)

Lemma dec7_escape_cons : forall acc b tl,
  dec7 acc (escape_byte b ++ tl) =
  match dec7_step acc b with
  | Err e => Err e
  | Ok (acc', true) => Ok (acc', tl)
  | Ok (acc', false) => dec7 acc' tl
  end.
Proof.
  intros acc b tl. esc_cases b; try reflexivity.
  cbn [app dec7]. destruct (N.eqb_spec b 0); [contradiction|reflexivity].
Qed.

Lemma shl7_limit_eq : shl7_limit = 2 ^ 57.
Proof. reflexivity. Qed.
Lemma usize_limit_eq : usize_limit = 2 ^ 64.
Proof. reflexivity. Qed.

Lemma dec7_hi : forall f w tl,
  w < 128 ^ (N.of_nat f) -> w < shl7_limit ->
  dec7 0 (escape (enc7_hi f w) ++ tl) = dec7 w tl.
Proof.
  induction f as [|f IH]; intros w tl Hf Hw.
  - cbn in Hf. assert (w = 0) by lia. subst. reflexivity.
  - cbn [enc7_hi]. destruct (N.eqb_spec w 0) as [->|Hne]; [reflexivity|].
    rewrite escape_app, <- app_assoc, escape_one.
    assert (Hdiv : w / 128 < 128 ^ N.of_nat f).
    { apply N.div_lt_upper_bound; [lia|].
      rewrite Nat2N.inj_succ, N.pow_succ_r' in Hf. lia. }
    assert (Hle : w / 128 <= w) by (apply N.div_le_upper_bound; lia).
    rewrite IH by lia.
    rewrite dec7_escape_cons. unfold dec7_step.
    destruct (N.leb_spec shl7_limit (w / 128)); [lia|].
    replace (((w mod 128) * 2 + 1) / 2) with (w mod 128).
    2:{ lia. }
    replace (((w mod 128) * 2 + 1) mod 2) with 1 by lia.
    cbn [N.eqb].
    replace (w / 128 * 128 + w mod 128) with w by lia. reflexivity.
Qed.

Lemma size_pow128 v : v / 128 < 128 ^ N.of_nat (N.to_nat (N.size v)).
Proof.
  rewrite N2Nat.id.
  destruct (N.eq_dec v 0) as [->|Hne]; [reflexivity|].
  assert (H1 : v < 2 ^ N.size v) by apply N.size_gt.
  assert (H2 : 2 ^ N.size v <= 128 ^ N.size v) by (apply N.pow_le_mono_l; lia).
  assert (v / 128 <= v) by (apply N.div_le_upper_bound; lia). lia.
Qed.

(** [decode_7bit] reads back what [encode_7bit] wrote (usize = 64 bit) *)
Theorem decode_encode_7bit : forall v rest, v < usize_limit ->
  decode_7bit (encode_7bit v ++ rest) = Ok (v, rest).
Proof.
  intros v rest Hv. unfold decode_7bit, encode_7bit, encode_7bit_raw.
  rewrite escape_app, <- app_assoc, escape_one.
  assert (Hd : v / 128 < shl7_limit).
  { rewrite shl7_limit_eq. apply N.div_lt_upper_bound; [lia|].
    rewrite usize_limit_eq in Hv. change (128 * 2 ^ 57) with (2 ^ 64). exact Hv. }
  rewrite dec7_hi; [|apply size_pow128|exact Hd].
  rewrite dec7_escape_cons. unfold dec7_step.
  destruct (N.leb_spec shl7_limit (v / 128)); [lia|].
  replace ((v mod 128) * 2 / 2) with (v mod 128) by lia.
  replace ((v mod 128) * 2 mod 2) with 0 by lia.
  cbn [N.eqb].
  replace (v / 128 * 128 + v mod 128) with v by lia. reflexivity.
Qed.

(** the decoder is the one with the overflow check: a value >= 2^64 is an error, never a
    wrapped number *)
Lemma dec7_step_bound : forall acc b acc' fin, b < 256 ->
  dec7_step acc b = Ok (acc', fin) -> acc < shl7_limit /\ acc' < usize_limit /\ acc' = acc * 128 + b / 2.
Proof.
  intros acc b acc' fin Hb H. unfold dec7_step in H.
  destruct (N.leb_spec shl7_limit acc); [discriminate|]. inversion H; subst.
  assert (b / 2 < 128) by (apply N.div_lt_upper_bound; lia).
  rewrite shl7_limit_eq in *. rewrite usize_limit_eq. change (2 ^ 64) with (2 ^ 57 * 128). lia.
Qed.

(** ** (c) node code byte *)

Theorem split_node_code_roundtrip : forall v t c e,
  split_node_code (node_code v t c e) = (v, t, c, e).
Proof. intros [] [] [] []; reflexivity. Qed.

Lemma node_code_lt_256 : forall v t c e, node_code v t c e < 256.
Proof. intros [] [] [] []; reflexivity. Qed.

(** ** (c) the binary node section *)

(** *** diagrams as the exporter numbers them

    The binary exporter writes the single terminal first (node ID 1) and then the inner
    nodes bottom-up, level by level.  [l] lists the inner nodes in this order: entry [j]
    has node ID [j + 2]. *)
Record inode := mkI { iv : N; it : N; ie : N; ic : bool }.

Definition xi (nd : inode) : xnode := XInner (iv nd) (it nd) (ie nd) (ic nd).
Definition dag_of (l : list inode) : list xnode := XTerm :: map xi l.

(** child reference [ch] of entry [j] with variable index [v]: a smaller node ID, and a
    variable below [v] if the child is an inner node *)
Definition child_ok (l : list inode) (j : nat) (v ch : N) : Prop :=
  1 <= ch /\ ch < N.of_nat j + 2 /\
  (ch <> 1 -> exists nd', nth_error l (N.to_nat (ch - 2)) = Some nd' /\ v < iv nd').

Definition wf_at (nsupp : N) (l : list inode) (j : nat) (nd : inode) : Prop :=
  iv nd < nsupp /\ child_ok l j (iv nd) (it nd) /\ child_ok l j (iv nd) (ie nd) /\
  ~ (it nd = ie nd /\ ic nd = false).

(** reduced (no node with two equal children), no duplicate nodes, children first, ordered *)
Definition wf_dag (nsupp : N) (l : list inode) : Prop :=
  NoDup l /\ forall j nd, nth_error l j = Some nd -> wf_at nsupp l j nd.

(** [suppvar_level_map]: strictly increasing levels *)
Definition incr (slm : list N) : Prop :=
  forall i j a b, nth_error slm i = Some a -> nth_error slm j = Some b -> (i < j)%nat -> a < b.

(** *** what the importer is expected to build *)

Definition lvl (slm : list N) (v : N) : N := nth (N.to_nat v) slm 0.

Definition eref (id : N) (tag : bool) : cedge :=
  if id =? 1 then mkE (RTerm (TNum 1)) tag else mkE (RNode (id - 2)) tag.

Definition cn_of (slm : list N) (nd : inode) : cnode :=
  mkN (lvl slm (iv nd)) (eref (it nd) false) (eref (ie nd) (ic nd)).

Definition nodes_upto (j : nat) : list cedge :=
  mkE (RTerm (TNum 1)) false :: map (fun i => mkE (RNode (N.of_nat i)) false) (seq 0 j).

(** state of the importer after the terminal and the first [j] inner nodes *)
Definition state_of (slm : list N) (l : list inode) (j : nat) : ist :=
  mkS (map (cn_of slm) (firstn j l)) (nodes_upto j).

(** *** list helpers *)

Lemma firstn_snoc {A} (l : list A) j x :
  nth_error l j = Some x -> firstn (S j) l = firstn j l ++ [x].
Proof.
  revert j; induction l as [|a l IH]; intros [|j] H; cbn in *; try discriminate.
  - inversion H; reflexivity.
  - rewrite (IH j H). reflexivity.
Qed.

Lemma nth_error_firstn {A} (l : list A) j i : (i < j)%nat -> nth_error (firstn j l) i = nth_error l i.
Proof.
  revert j i; induction l as [|a l IH]; intros [|j] [|i] H; cbn; try reflexivity; try lia.
  apply IH. lia.
Qed.

Lemma nodes_upto_S j : nodes_upto (S j) = nodes_upto j ++ [mkE (RNode (N.of_nat j)) false].
Proof. unfold nodes_upto. rewrite seq_S, map_app. reflexivity. Qed.

Lemma nodes_upto_length j : length (nodes_upto j) = S j.
Proof. unfold nodes_upto. cbn. rewrite map_length, seq_length. reflexivity. Qed.

Lemma nth_error_nodes_upto j ch : 1 <= ch -> ch < N.of_nat j + 2 ->
  nth_error (nodes_upto j) (N.to_nat (ch - 1)) = Some (eref ch false).
Proof.
  intros H1 H2. unfold nodes_upto, eref.
  destruct (N.eqb_spec ch 1) as [->|Hne]; [reflexivity|].
  replace (N.to_nat (ch - 1)) with (S (N.to_nat (ch - 2))) by lia.
  cbn [nth_error]. rewrite nth_error_map.
  rewrite nth_error_nth' with (d := O) by (rewrite seq_length; lia).
  rewrite seq_nth by lia. cbn. rewrite N2Nat.id. reflexivity.
Qed.

Lemma node_at_state slm l j ch : 1 <= ch -> ch < N.of_nat j + 2 ->
  node_at (state_of slm l j) (ch - 1) = Ok (eref ch false).
Proof.
  intros. unfold node_at, state_of. cbn [st_nodes].
  rewrite nth_error_nodes_upto by assumption. reflexivity.
Qed.

(** *** the exporter's view of the diagram *)

Lemma xvar_dag l ch : 1 <= ch ->
  xvar (dag_of l) ch = if ch =? 1 then None else option_map iv (nth_error l (N.to_nat (ch - 2))).
Proof.
  intros H. unfold xvar, xnth, dag_of.
  destruct (N.eqb_spec ch 0); [lia|].
  destruct (N.eqb_spec ch 1) as [->|Hne]; [reflexivity|].
  replace (N.to_nat (ch - 1)) with (S (N.to_nat (ch - 2))) by lia.
  cbn [nth_error]. rewrite nth_error_map.
  destruct (nth_error l (N.to_nat (ch - 2))); reflexivity.
Qed.

Lemma xvar_child l j v ch : child_ok l j v ch ->
  (ch = 1 /\ xvar (dag_of l) ch = None) \/
  (ch <> 1 /\ exists nd', nth_error l (N.to_nat (ch - 2)) = Some nd' /\ v < iv nd' /\
              xvar (dag_of l) ch = Some (iv nd')).
Proof.
  intros (H1 & H2 & H3). rewrite xvar_dag by assumption.
  destruct (N.eqb_spec ch 1) as [->|Hne]; [left; auto|].
  right. split; [assumption|]. destruct (H3 Hne) as (nd' & Hn & Hv).
  exists nd'. rewrite Hn. auto.
Qed.

(** *** then/else references *)

Lemma opt_arg_decode c x rest : x < usize_limit ->
  (if has_arg c then decode_7bit (opt_arg c x ++ rest) else Ok (1, opt_arg c x ++ rest)) =
  Ok ((if has_arg c then x else 1), rest).
Proof.
  intros Hx. unfold opt_arg. destruct (has_arg c).
  - apply decode_encode_7bit; assumption.
  - reflexivity.
Qed.

Theorem idx_ref_bin_idx : forall l j v ch node_id rest,
  node_id = N.of_nat j + 2 -> node_id < usize_limit -> child_ok l j v ch ->
  let '(c, x) := bin_idx (dag_of l) node_id ch in
  idx_ref (opt_arg c x ++ rest) node_id c = Ok (ch - 1, rest).
Proof.
  intros l j v ch node_id rest Hid Hlim Hc.
  pose proof Hc as (H1 & H2 & _).
  unfold bin_idx.
  destruct (xvar_child _ _ _ _ Hc) as [[-> Hx]|(Hne & nd' & _ & _ & Hx)]; rewrite Hx.
  - (* terminal *)
    unfold idx_ref, opt_arg, bind. cbn [has_arg app].
    destruct (N.eqb_spec 1 0); [lia|]. destruct (N.leb_spec node_id 1); [lia|]. reflexivity.
  - destruct (N.eqb_spec ch (node_id - 1)) as [->|Hn1].
    + unfold idx_ref, opt_arg, bind. cbn [has_arg app].
      destruct (N.eqb_spec (node_id - 1) 0); [lia|].
      destruct (N.leb_spec node_id (node_id - 1)); [lia|]. reflexivity.
    + destruct (N.ltb_spec (node_id - ch) ch).
      * unfold idx_ref, opt_arg, bind. cbn [has_arg].
        rewrite decode_encode_7bit by lia.
        destruct (N.ltb_spec node_id (node_id - ch)); [lia|].
        replace (node_id - (node_id - ch)) with ch by lia.
        destruct (N.eqb_spec ch 0); [lia|]. destruct (N.leb_spec node_id ch); [lia|]. reflexivity.
      * unfold idx_ref, opt_arg, bind. cbn [has_arg].
        rewrite decode_encode_7bit by lia.
        destruct (N.eqb_spec ch 0); [lia|]. destruct (N.leb_spec node_id ch); [lia|]. reflexivity.
Qed.

(** *** levels *)

Definition olevel (slm : list N) (o : option N) : N :=
  match o with None => level_max | Some x => lvl slm x end.

Lemma lvl_nth_error slm v : v < N.of_nat (length slm) ->
  nth_error slm (N.to_nat v) = Some (lvl slm v).
Proof. intros H. unfold lvl. apply nth_error_nth'. lia. Qed.

Lemma lvl_lt slm a b : incr slm -> a < b -> b < N.of_nat (length slm) -> lvl slm a < lvl slm b.
Proof.
  intros Hi Hab Hb. apply (Hi (N.to_nat a) (N.to_nat b)); try (apply lvl_nth_error; lia). lia.
Qed.

Lemma lvl_lt_max slm v : Forall (fun x => x < level_max) slm -> v < N.of_nat (length slm) ->
  lvl slm v < level_max.
Proof.
  intros Hf Hv. rewrite Forall_forall in Hf. apply Hf.
  apply nth_error_In with (n := N.to_nat v). apply lvl_nth_error. assumption.
Qed.

Lemma find_index_shift {A} (p : A -> bool) l i :
  find_index p l i = option_map (N.add i) (find_index p l 0).
Proof.
  revert i; induction l as [|x l IH]; intros i; cbn; [reflexivity|].
  destruct (p x); [cbn; f_equal; lia|].
  rewrite (IH (i + 1)), (IH (0 + 1)).
  destruct (find_index p l 0); cbn; [f_equal; lia|reflexivity].
Qed.

Lemma find_index_first {A} (p : A -> bool) l k y :
  nth_error l k = Some y -> p y = true ->
  (forall i z, (i < k)%nat -> nth_error l i = Some z -> p z = false) ->
  find_index p l 0 = Some (N.of_nat k).
Proof.
  revert k; induction l as [|x l IH]; intros [|k] Hn Hp Hlt; cbn in *; try discriminate.
  - inversion Hn; subst. rewrite Hp. reflexivity.
  - rewrite (Hlt O x) by (try lia; reflexivity).
    rewrite find_index_shift, (IH k Hn Hp).
    + cbn. f_equal. lia.
    + intros i z Hi Hz. apply (Hlt (S i) z); [lia|exact Hz].
Qed.

Lemma find_index_none {A} (p : A -> bool) l i :
  (forall x, In x l -> p x = false) -> find_index p l i = None.
Proof.
  revert i; induction l as [|x l IH]; intros i H; cbn; [reflexivity|].
  rewrite (H x) by (left; reflexivity). apply IH. intros y Hy. apply H. right. exact Hy.
Qed.

Lemma lsm_lookup_lvl slm v : incr slm -> v < N.of_nat (length slm) ->
  lsm_lookup slm (lvl slm v) = Ok v.
Proof.
  intros Hi Hv. unfold lsm_lookup.
  rewrite (find_index_first _ slm (N.to_nat v) (lvl slm v)).
  - rewrite N2Nat.id. reflexivity.
  - apply lvl_nth_error; assumption.
  - apply N.eqb_refl.
  - intros i z Hlt Hz. apply N.eqb_neq.
    pose proof (Hi i (N.to_nat v) z (lvl slm v) Hz (lvl_nth_error _ _ Hv) Hlt). lia.
Qed.

Lemma olevel_min slm a b : incr slm -> Forall (fun x => x < level_max) slm ->
  (forall x, a = Some x -> x < N.of_nat (length slm)) ->
  (forall x, b = Some x -> x < N.of_nat (length slm)) ->
  N.min (olevel slm a) (olevel slm b) = olevel slm (min_opt a b).
Proof.
  intros Hi Hf Ha Hb. destruct a as [x|], b as [y|]; cbn [olevel min_opt].
  - pose proof (Ha x eq_refl). pose proof (Hb y eq_refl).
    destruct (N.lt_trichotomy x y) as [Hxy|[->|Hxy]].
    + pose proof (lvl_lt slm x y Hi Hxy ltac:(assumption)). rewrite !N.min_l by lia. reflexivity.
    + rewrite !N.min_id. reflexivity.
    + pose proof (lvl_lt slm y x Hi Hxy ltac:(assumption)). rewrite !N.min_r by lia. reflexivity.
  - pose proof (lvl_lt_max slm x Hf (Ha x eq_refl)). apply N.min_l. lia.
  - pose proof (lvl_lt_max slm y Hf (Hb y eq_refl)). apply N.min_r. lia.
  - apply N.min_id.
Qed.

(** level of the edge stored for node ID [ch] = level of the variable the exporter sees *)
Lemma edge_level_state slm l j ch tag : 1 <= ch -> ch < N.of_nat j + 2 -> (j <= length l)%nat ->
  edge_level (st_store (state_of slm l j)) (eref ch tag) = olevel slm (xvar (dag_of l) ch).
Proof.
  intros H1 H2 Hj. rewrite xvar_dag by assumption. unfold eref, edge_level, state_of. cbn [st_store].
  destruct (N.eqb_spec ch 1) as [->|Hne]; [reflexivity|]. cbn [ce_ref].
  rewrite nth_error_map, nth_error_firstn by lia.
  destruct (nth_error l (N.to_nat (ch - 2))) as [nd'|] eqn:E; [reflexivity|].
  apply nth_error_None in E. lia.
Qed.

(** *** the variable code *)

Notation final_vid := resolve_vid.

Lemma min_opt_some a b m : min_opt a b = Some m ->
  (a = Some m \/ b = Some m) /\ (forall x, a = Some x -> m <= x) /\ (forall x, b = Some x -> m <= x).
Proof.
  destruct a as [x|], b as [y|]; cbn; intros H; inversion H; subst.
  - split; [|split; intros z Hz; inversion Hz; subst; lia].
    destruct (N.min_spec x y) as [[_ ->]|[_ ->]]; auto.
  - split; [auto|split; intros z Hz; inversion Hz; subst; lia].
  - split; [auto|split; intros z Hz; inversion Hz; subst; lia].
Qed.

Theorem var_code_decode : forall slm nlevels l v t e,
  incr slm -> Forall (fun x => x < level_max) slm ->
  v < N.of_nat (length slm) -> N.of_nat (length slm) < usize_limit ->
  (forall x, xvar (dag_of l) t = Some x -> v < x /\ x < N.of_nat (length slm)) ->
  (forall x, xvar (dag_of l) e = Some x -> v < x /\ x < N.of_nat (length slm)) ->
  let '(vc, vx) := var_code (dag_of l) v t e in
  vc <> CTerminal /\ vx < usize_limit /\
  final_vid slm nlevels vc (if has_arg vc then vx else 1)
            (olevel slm (xvar (dag_of l) t)) (olevel slm (xvar (dag_of l) e)) = Ok v.
Proof.
  intros slm nlevels l v t e Hi Hf Hv Hlim Ht He.
  unfold var_code.
  destruct (min_opt (xvar (dag_of l) t) (xvar (dag_of l) e)) as [mv|] eqn:Em.
  - destruct (min_opt_some _ _ _ Em) as (Hsrc & _ & _).
    assert (Hmv : v < mv /\ mv < N.of_nat (length slm)) by (destruct Hsrc as [H|H]; [apply Ht|apply He]; exact H).
    assert (Hmin : N.min (olevel slm (xvar (dag_of l) t)) (olevel slm (xvar (dag_of l) e)) = lvl slm mv).
    { rewrite olevel_min; try assumption.
      - rewrite Em. reflexivity.
      - intros x Hx. apply Ht. exact Hx.
      - intros x Hx. apply He. exact Hx. }
    pose proof (lvl_lt_max slm mv Hf (proj2 Hmv)) as Hlm.
    destruct (N.eqb_spec v (mv - 1)) as [Hv1|Hv1].
    + split; [discriminate|]. split; [lia|]. cbn [has_arg]. unfold resolve_vid. rewrite Hmin.
      destruct (N.eqb_spec (lvl slm mv) level_max); [lia|].
      rewrite lsm_lookup_lvl by (try assumption; lia). cbn [bind].
      destruct (N.ltb_spec mv 1); [lia|]. f_equal. lia.
    + destruct (N.ltb_spec (mv - v) v).
      * split; [discriminate|]. split; [lia|]. cbn [has_arg]. unfold resolve_vid. rewrite Hmin.
        destruct (N.eqb_spec (lvl slm mv) level_max); [lia|].
        rewrite lsm_lookup_lvl by (try assumption; lia). cbn [bind].
        destruct (N.ltb_spec mv (mv - v)); [lia|]. f_equal. lia.
      * split; [discriminate|]. split; [lia|]. cbn [has_arg]. unfold resolve_vid.
        destruct (N.leb_spec (N.of_nat (length slm)) v); [lia|]. reflexivity.
  - split; [discriminate|]. split; [lia|]. cbn [has_arg]. unfold resolve_vid.
    destruct (N.leb_spec (N.of_nat (length slm)) v); [lia|]. reflexivity.
Qed.

(** *** the unique table *)

Lemma tval_eqb_eq a b : tval_eqb a b = true -> a = b.
Proof. destruct a, b; cbn; intros H; try discriminate; try reflexivity. apply Z.eqb_eq in H. congruence. Qed.

Lemma cref_eqb_eq a b : cref_eqb a b = true -> a = b.
Proof.
  destruct a, b; cbn; intros H; try discriminate.
  - apply tval_eqb_eq in H. congruence.
  - apply N.eqb_eq in H. congruence.
Qed.

Lemma cedge_eqb_eq a b : cedge_eqb a b = true -> a = b.
Proof.
  destruct a as [ra ta], b as [rb tb]. unfold cedge_eqb. cbn [ce_ref ce_tag]. intros H.
  apply andb_prop in H. destruct H as [H1 H2]. apply cref_eqb_eq in H1. apply eqb_prop in H2. congruence.
Qed.

Lemma cnode_eqb_eq a b : cnode_eqb a b = true -> a = b.
Proof.
  destruct a as [la ta ea], b as [lb tb eb]. unfold cnode_eqb. cbn [cn_level cn_t cn_e]. intros H.
  apply andb_prop in H. destruct H as [H H3]. apply andb_prop in H. destruct H as [H1 H2].
  apply N.eqb_eq in H1. apply cedge_eqb_eq in H2. apply cedge_eqb_eq in H3. congruence.
Qed.

Lemma eref_inj a b ta tb : 1 <= a -> 1 <= b -> eref a ta = eref b tb -> a = b /\ ta = tb.
Proof.
  unfold eref. intros Ha Hb.
  destruct (N.eqb_spec a 1), (N.eqb_spec b 1); intros H; inversion H; subst; split; try reflexivity; lia.
Qed.

Lemma cn_of_inj slm a b : incr slm ->
  iv a < N.of_nat (length slm) -> iv b < N.of_nat (length slm) ->
  1 <= it a -> 1 <= it b -> 1 <= ie a -> 1 <= ie b ->
  cn_of slm a = cn_of slm b -> a = b.
Proof.
  intros Hi Ha Hb Hta Htb Hea Heb H. unfold cn_of in H. inversion H as [[Hl Ht He]].
  apply eref_inj in Ht; [|assumption..]. apply eref_inj in He; [|assumption..].
  assert (iv a = iv b).
  { destruct (N.lt_trichotomy (iv a) (iv b)) as [Hlt|[Heq|Hlt]]; [|exact Heq|].
    - pose proof (lvl_lt slm _ _ Hi Hlt Hb). lia.
    - pose proof (lvl_lt slm _ _ Hi Hlt Ha). lia. }
  destruct a, b; cbn in *. destruct Ht, He. congruence.
Qed.

Lemma find_or_add_fresh store n :
  (forall x, In x store -> x <> n) ->
  find_or_add store n = (store ++ [n], RNode (N.of_nat (length store))).
Proof.
  intros H. unfold find_or_add. rewrite find_index_none; [reflexivity|].
  intros x Hx. destruct (cnode_eqb n x) eqn:E; [|reflexivity].
  apply cnode_eqb_eq in E. exfalso. apply (H x Hx). congruence.
Qed.

(** on a reduced node with an uncomplemented then-edge whose triple is new, all rule
    sets insert exactly this node *)
Lemma mk_node_fresh k store level t e :
  k = KBCDD -> t <> e -> ce_tag t = false ->
  (forall x, In x store -> x <> mkN level t e) ->
  mk_node k store level t e = (store ++ [mkN level t e], mkE (RNode (N.of_nat (length store))) false).
Proof.
  intros Hk Hne Htag Hnew.
  assert (Heq : cedge_eqb t e = false).
  { destruct (cedge_eqb t e) eqn:E; [|reflexivity]. apply cedge_eqb_eq in E. contradiction. }
  subst k. unfold mk_node. rewrite Heq, Htag, find_or_add_fresh by assumption. reflexivity.
Qed.

(** *** one node *)

Lemma code_match {A} (vc : code) (a b : A) : vc <> CTerminal ->
  match vc with CTerminal => a | CAbsolute => b | CRelative => b | CRelative1 => b end = b.
Proof. destruct vc; intros H; [contradiction|reflexivity..]. Qed.

Lemma complement_eref (k : kind) (store : list cnode) (id : N) (c : bool) : k = KBCDD ->
  (if c then complement k store (eref id false) else Ok (store, eref id false)) = Ok (store, eref id c).
Proof.
  intros ->. destruct c; try reflexivity. unfold complement, neg, eref.
  destruct (id =? 1); reflexivity.
Qed.

Lemma eref_tag (id : N) (c : bool) : ce_tag (eref id c) = c.
Proof. unfold eref. destruct (id =? 1); reflexivity. Qed.

Lemma child_var_bound (slm : list N) l j v ch :
  (forall j nd, nth_error l j = Some nd -> wf_at (N.of_nat (length slm)) l j nd) ->
  child_ok l j v ch ->
  forall x, xvar (dag_of l) ch = Some x -> v < x /\ x < N.of_nat (length slm).
Proof.
  intros Hwf Hc x Hx.
  destruct (xvar_child _ _ _ _ Hc) as [[_ H]|(_ & nd' & Hn & Hv & H)]; rewrite H in Hx; [discriminate|].
  inversion Hx; subst. split; [assumption|]. apply (Hwf _ _ Hn).
Qed.

Lemma state_store_length (slm : list N) (l : list inode) j : (j <= length l)%nat -> length (st_store (state_of slm l j)) = j.
Proof. intros H. unfold state_of. cbn [st_store]. rewrite map_length, firstn_length. lia. Qed.

Theorem import_bin_node_step : forall k slm nlevels l j nd rest,
  k = KBCDD ->
  wf_dag (N.of_nat (length slm)) l -> incr slm -> Forall (fun x => x < level_max) slm ->
  N.of_nat (length slm) < usize_limit ->
  nth_error l j = Some nd ->
  N.of_nat j + 2 < usize_limit ->
  import_bin_node k slm nlevels (mkE (RTerm (TNum 1)) false) (state_of slm l j) (N.of_nat j + 2)
    (export_node (dag_of l) (N.of_nat j + 2) (xi nd) ++ rest)
  = Ok (state_of slm l (S j), rest).
Proof.
  intros k slm nlevels l j nd rest Hk [Hnodup Hwf] Hi Hf Hlim Hn Hid.
  destruct (Hwf j nd Hn) as (Hv & Hct & Hce & Hred).
  assert (Hj : (j < length l)%nat) by (apply nth_error_Some; congruence).
  pose proof (child_var_bound slm l j _ _ Hwf Hct) as Htb.
  pose proof (child_var_bound slm l j _ _ Hwf Hce) as Heb.
  pose proof (var_code_decode slm nlevels l (iv nd) (it nd) (ie nd) Hi Hf Hv Hlim Htb Heb) as HV.
  unfold xi, export_node.
  destruct (var_code (dag_of l) (iv nd) (it nd) (ie nd)) as [vc vx].
  destruct HV as (Hvc & Hvx & HF).
  pose proof (fun r : list byte => idx_ref_bin_idx l j (iv nd) (it nd) (N.of_nat j + 2) r eq_refl Hid Hct) as HT.
  pose proof (fun r : list byte => idx_ref_bin_idx l j (iv nd) (ie nd) (N.of_nat j + 2) r eq_refl Hid Hce) as HE.
  destruct (bin_idx (dag_of l) (N.of_nat j + 2) (it nd)) as [tc tx].
  destruct (bin_idx (dag_of l) (N.of_nat j + 2) (ie nd)) as [ec ex].
  destruct Hct as (Ht1 & Ht2 & Ht3). destruct Hce as (He1 & He2 & He3).
  unfold import_bin_node.
  rewrite <- !app_assoc, escape_one, read_unescape_escape. cbn [bind].
  rewrite split_node_code_roundtrip.
  rewrite code_match by assumption.
  rewrite opt_arg_decode by assumption. cbn [bind].
  rewrite HT. cbn [bind].
  rewrite node_at_state by assumption. cbn [bind].
  rewrite HE. cbn [bind].
  rewrite node_at_state by assumption. cbn [bind].
  rewrite complement_eref by assumption. cbn [bind].
  rewrite !edge_level_state by (try assumption; lia).
  rewrite HF. cbn [bind].
  rewrite lvl_nth_error by assumption.
  (* level check *)
  assert (Hlt : forall ch, (forall x, xvar (dag_of l) ch = Some x -> iv nd < x /\ x < N.of_nat (length slm)) ->
                           olevel slm (xvar (dag_of l) ch) <=? lvl slm (iv nd) = false).
  { intros ch Hb. apply N.leb_gt. destruct (xvar (dag_of l) ch) as [x|]; cbn [olevel].
    - destruct (Hb x eq_refl). apply lvl_lt; assumption.
    - apply lvl_lt_max; assumption. }
  rewrite (Hlt _ Htb), (Hlt _ Heb). cbn [orb].
  (* the node is new *)
  rewrite mk_node_fresh.
  - rewrite state_store_length by lia.
    unfold state_of. cbn [st_store st_nodes].
    rewrite (firstn_snoc l j nd Hn), map_app, nodes_upto_S. reflexivity.
  - assumption.
  - intros Heq. apply eref_inj in Heq; [|assumption..]. destruct Heq as [H1 H2]. apply Hred. auto.
  - apply eref_tag.
  - intros x Hx Heq. unfold state_of in Hx. cbn [st_store] in Hx.
    apply in_map_iff in Hx. destruct Hx as (nd' & Hcn & Hin).
    apply In_nth_error in Hin. destruct Hin as (i & Hi').
    assert (Hij : (i < j)%nat).
    { assert (i < length (firstn j l))%nat by (apply nth_error_Some; congruence).
      rewrite firstn_length in H. lia. }
    rewrite nth_error_firstn in Hi' by assumption.
    destruct (Hwf i nd' Hi') as (Hv' & (Ht1' & _) & (He1' & _) & _).
    assert (nd' = nd).
    { apply (cn_of_inj slm); try assumption. rewrite Hcn, Heq. reflexivity. }
    subst nd'.
    (* the same node at two positions contradicts NoDup *)
    rewrite NoDup_nth_error in Hnodup.
    assert (i = j) by (apply Hnodup; [apply nth_error_Some; congruence|congruence]). lia.
Qed.

(** *** the whole node section *)

Lemma skipn_nth {A} (l : list A) j x : nth_error l j = Some x -> skipn j l = x :: skipn (S j) l.
Proof.
  revert j; induction l as [|a l IH]; intros [|j] H; cbn in *; try discriminate.
  - inversion H; reflexivity.
  - apply IH. exact H.
Qed.

Lemma import_bin_loop_export : forall k slm nlevels l rest,
  k = KBCDD ->
  wf_dag (N.of_nat (length slm)) l -> incr slm -> Forall (fun x => x < level_max) slm ->
  N.of_nat (length slm) < usize_limit ->
  N.of_nat (length l) + 1 < usize_limit ->
  forall n j, (j + n = length l)%nat ->
  import_bin_loop k slm nlevels (mkE (RTerm (TNum 1)) false) n (N.of_nat j + 2) (state_of slm l j)
    (export_from (dag_of l) (N.of_nat j + 2) (map xi (skipn j l)) ++ rest)
  = Ok (state_of slm l (length l), rest).
Proof.
  intros k slm nlevels l rest Hk Hwf Hi Hf Hlim Hlen.
  induction n as [|n IH]; intros j Hj.
  - assert (j = length l) by lia. subst j. rewrite skipn_all. reflexivity.
  - assert (Hjl : (j < length l)%nat) by lia.
    destruct (nth_error l j) as [nd|] eqn:Hn; [|apply nth_error_None in Hn; lia].
    rewrite (skipn_nth l j nd Hn). cbn [map export_from import_bin_loop].
    rewrite <- app_assoc.
    rewrite import_bin_node_step; try assumption; [|lia].
    cbn [bind].
    replace (N.of_nat j + 2 + 1) with (N.of_nat (S j) + 2) by lia.
    apply IH. lia.
Qed.

(** The importer reads the exporter's binary node section back: node ID [i + 2] denotes
    entry [i] of the unique table, which holds exactly the exported nodes (levels via
    [suppvar_level_map]), and nothing of the input after the section is consumed. *)
Theorem import_export_bin : forall k slm nlevels l rest,
  k = KBCDD ->
  wf_dag (N.of_nat (length slm)) l -> incr slm -> Forall (fun x => x < level_max) slm ->
  N.of_nat (length slm) < usize_limit ->
  N.of_nat (length l) + 1 < usize_limit ->
  import_bin k slm nlevels (N.of_nat (length (dag_of l))) (export_nodes (dag_of l) ++ rest)
  = Ok (state_of slm l (length l), rest).
Proof.
  intros k slm nlevels l rest Hk Hwf Hi Hf Hlim Hlen.
  unfold import_bin, export_nodes. change (length (dag_of l)) with (S (length (map xi l))).
  rewrite map_length.
  destruct (N.eqb_spec (N.of_nat (S (length l))) 0); [lia|].
  change (export_from (dag_of l) 1 (dag_of l))
    with (export_node (dag_of l) 1 XTerm ++ export_from (dag_of l) (1 + 1) (map xi l)).
  assert (Hbt : bin_terminal k = Some (mkE (RTerm (TNum 1)) false)) by (subst k; reflexivity).
  rewrite Hbt, Nat2N.id.
  cbn [import_bin_loop export_node].
  rewrite <- app_assoc.
  unfold import_bin_node.
  rewrite escape_one, read_unescape_escape. cbn [bind].
  change (split_node_code (node_code CTerminal CTerminal false CTerminal))
    with (CTerminal, CTerminal, false, CTerminal).
  cbn [bind].
  change (mkS (st_store empty_state) (st_nodes empty_state ++ [mkE (RTerm (TNum 1)) false]))
    with (state_of slm l 0).
  change (1 + 1) with (N.of_nat 0 + 2).
  pose proof (import_bin_loop_export k slm nlevels l rest Hk Hwf Hi Hf Hlim Hlen (length l) O eq_refl) as H.
  cbn [skipn] in H. exact H.
Qed.

(** no nodes at all (export of no function) *)
Theorem import_export_bin_empty : forall k slm nlevels rest,
  import_bin k slm nlevels 0 (export_nodes [] ++ rest) = Ok (empty_state, rest).
Proof. reflexivity. Qed.

(** *** roots and the complete binary file body *)

Definition root_ok (l : list inode) (r : Z) : Prop :=
  (r <> 0)%Z /\ Z.abs_N r <= N.of_nat (length l) + 1.

Lemma import_roots_state : forall k slm l rootids,
  k = KBCDD -> Forall (root_ok l) rootids ->
  import_roots k (state_of slm l (length l)) rootids =
  Ok (state_of slm l (length l), map (fun r => eref (Z.abs_N r) (r <? 0)%Z) rootids).
Proof.
  intros k slm l rootids Hk. induction 1 as [|r rs [Hr0 Hr] _ IH]; [reflexivity|].
  cbn [import_roots map].
  destruct (Z.eqb_spec r 0); [contradiction|].
  assert (H1 : 1 <= Z.abs_N r) by lia.
  change (st_nodes (state_of slm l (length l))) with (nodes_upto (length l)).
  rewrite nth_error_nodes_upto by lia. cbn [bind].
  rewrite complement_eref by assumption. cbn [bind].
  change (mkS (st_store (state_of slm l (length l))) (nodes_upto (length l)))
    with (state_of slm l (length l)).
  rewrite IH. reflexivity.
Qed.

(** [.end] followed by a line break is what the exporter writes after the nodes *)
Definition trailer : list byte := [46; 101; 110; 100; 10].

Theorem import_file_export_bin : forall k vin slm nlevels l rootids,
  k = KBCDD ->
  wf_dag (N.of_nat (length slm)) l -> incr slm -> Forall (fun x => x < level_max) slm ->
  N.of_nat (length slm) < usize_limit ->
  N.of_nat (length l) + 1 < usize_limit ->
  Forall (root_ok l) rootids ->
  import_file k false vin slm nlevels (N.of_nat (length (dag_of l))) rootids
              (export_nodes (dag_of l) ++ trailer)
  = Ok (state_of slm l (length l), map (fun r => eref (Z.abs_N r) (r <? 0)%Z) rootids).
Proof.
  intros. unfold import_file.
  rewrite import_export_bin by assumption. cbn [bind].
  change (reads_end trailer) with true. cbn [negb].
  apply import_roots_state; assumption.
Qed.

(** *** the hypotheses are satisfiable: x0 ∧ x1, x0 ⊕ x1 and ¬x1 over three support levels *)

Definition ex_dag : list inode :=
  [ mkI 2 1 1 true;      (* id 2: x2 ? ⊤ : ⊥ *)
    mkI 1 1 1 true;      (* id 3: x1 *)
    mkI 0 3 1 true;      (* id 4: x0 ∧ x1 *)
    mkI 0 3 3 true;      (* id 5: x0 ? x1 : ¬x1 *)
    mkI 1 2 1 true ].    (* id 6: x1 ∧ x2 *)

Definition childb (l : list inode) (j : nat) (v ch : N) : bool :=
  (1 <=? ch) && (ch <? N.of_nat j + 2) &&
  ((ch =? 1) || match nth_error l (N.to_nat (ch - 2)) with
                | Some nd' => v <? iv nd' | None => false end).

Definition wf_atb (nsupp : N) (l : list inode) (j : nat) (nd : inode) : bool :=
  (iv nd <? nsupp) && childb l j (iv nd) (it nd) && childb l j (iv nd) (ie nd)
  && negb ((it nd =? ie nd) && negb (ic nd)).

Lemma childb_sound l j v ch : childb l j v ch = true -> child_ok l j v ch.
Proof.
  unfold childb, child_ok. intros H.
  apply andb_prop in H. destruct H as [H H3].
  apply andb_prop in H. destruct H as [H1 H2].
  apply N.leb_le in H1. apply N.ltb_lt in H2.
  split; [assumption|]. split; [assumption|]. intros Hne.
  apply orb_prop in H3. destruct H3 as [H3|H3].
  - apply N.eqb_eq in H3. contradiction.
  - destruct (nth_error l (N.to_nat (ch - 2))) as [nd'|]; [|discriminate].
    exists nd'. split; [reflexivity|]. apply N.ltb_lt. assumption.
Qed.

Lemma wf_atb_sound nsupp l j nd : wf_atb nsupp l j nd = true -> wf_at nsupp l j nd.
Proof.
  unfold wf_atb, wf_at. intros H.
  apply andb_prop in H. destruct H as [H Hred].
  apply andb_prop in H. destruct H as [H He].
  apply andb_prop in H. destruct H as [Hv Ht].
  apply N.ltb_lt in Hv. apply childb_sound in Ht. apply childb_sound in He.
  split; [assumption|]. split; [assumption|]. split; [assumption|].
  intros [Heq Hc]. apply negb_true_iff in Hred.
  rewrite Heq, Hc, N.eqb_refl in Hred. discriminate.
Qed.

Example ex_dag_wf : wf_dag 3 ex_dag.
Proof.
  split.
  - repeat constructor; cbn; intuition discriminate.
  - intros j nd H. apply wf_atb_sound.
    do 5 (destruct j as [|j]; [inversion H; subst; reflexivity|]).
    destruct j; discriminate.
Qed.

Example ex_slm_incr : incr [1; 4; 5].
Proof.
  intros i j a b Ha Hb Hij.
  do 3 (destruct i as [|i]; [do 3 (destruct j as [|j]; [try lia; inversion Ha; inversion Hb; subst; lia|]); destruct j; discriminate|]).
  destruct i; discriminate.
Qed.

(** the exported bytes of the example (node section of a BCDD dump), and its import
    into a manager with six levels where the support sits at levels 1, 4, 5 *)
Example ex_dag_bytes :
  export_nodes (dag_of ex_dag) = [0; 0; 36; 4; 36; 2; 124; 118; 4; 4; 108; 4].
Proof. vm_compute. reflexivity. Qed.

Example ex_dag_roundtrip :
  import_file KBCDD false true [1; 4; 5] 6 6 [4; -5; 6; -1]%Z (export_nodes (dag_of ex_dag) ++ trailer)
  = Ok (state_of [1; 4; 5] ex_dag 5, [eref 4 false; eref 5 true; eref 6 false; eref 1 true]).
Proof. vm_compute. reflexivity. Qed.

(** ** (d) names *)

(** a name the format can carry inside a space-separated header line *)
Definition clean (s : list byte) : Prop := Forall (fun b => is_space_or_control b = false) s.
Definition no_control (s : list byte) : Prop := Forall (fun b => is_ascii_control b = false) s.

Lemma existsb_false_Forall {A} (p : A -> bool) l : existsb p l = false <-> Forall (fun x => p x = false) l.
Proof.
  induction l as [|x l IH]; cbn; [split; auto|].
  rewrite orb_false_iff, IH. split.
  - intros [H1 H2]. constructor; assumption.
  - intros H. inversion H; auto.
Qed.

Lemma map_id_Forall {A} (f : A -> A) l : Forall (fun x => f x = x) l -> map f l = l.
Proof. induction 1; cbn; congruence. Qed.

Theorem replace_space_and_control_clean : forall s, clean (fst (replace_space_and_control s)).
Proof.
  intros s. unfold clean. cbn [replace_space_and_control fst]. apply Forall_map.
  apply Forall_forall. intros b _. destruct (is_space_or_control b) eqn:E; [reflexivity|exact E].
Qed.

Theorem replace_space_and_control_length : forall s,
  length (fst (replace_space_and_control s)) = length s.
Proof. intros. apply map_length. Qed.

Theorem replace_space_and_control_flag : forall s,
  snd (replace_space_and_control s) = false <-> clean s.
Proof. intros s. apply existsb_false_Forall. Qed.

Theorem replace_space_and_control_id : forall s, clean s -> replace_space_and_control s = (s, false).
Proof.
  intros s H. unfold replace_space_and_control. f_equal.
  - apply map_id_Forall. eapply Forall_impl; [|exact H]. cbn. intros b Hb. rewrite Hb. reflexivity.
  - apply existsb_false_Forall. exact H.
Qed.

Theorem write_replacing_control_spec : forall s,
  no_control (fst (write_replacing_control s)) /\
  length (fst (write_replacing_control s)) = length s /\
  (snd (write_replacing_control s) = false <-> no_control s) /\
  (no_control s -> fst (write_replacing_control s) = s).
Proof.
  intros s. cbn [write_replacing_control fst snd]. repeat split.
  - unfold no_control. apply Forall_map. apply Forall_forall. intros b _.
    destruct (is_ascii_control b) eqn:E; [reflexivity|exact E].
  - apply map_length.
  - apply existsb_false_Forall.
  - apply existsb_false_Forall.
  - intros H. apply map_id_Forall. eapply Forall_impl; [|exact H]. cbn. intros b Hb. rewrite Hb. reflexivity.
Qed.

(** decimal digits *)
Lemma dec_go_digits : forall fuel n acc,
  Forall (fun b => is_digit b = true) acc -> Forall (fun b => is_digit b = true) (dec_go fuel n acc).
Proof.
  induction fuel as [|f IH]; intros n acc H; cbn [dec_go]; [assumption|].
  assert (Hd : is_digit (48 + n mod 10) = true).
  { unfold is_digit. assert (n mod 10 < 10) by (apply N.mod_lt; lia).
    apply andb_true_intro. split; [apply N.leb_le|apply N.leb_le]; lia. }
  destruct (n <? 10); [constructor; assumption|]. apply IH. constructor; assumption.
Qed.

Lemma dec_go_nonempty : forall fuel n acc, acc <> [] \/ fuel <> O -> dec_go fuel n acc <> [].
Proof.
  induction fuel as [|f IH]; intros n acc H; cbn [dec_go].
  - destruct H; [assumption|contradiction].
  - destruct (n <? 10); [discriminate|]. apply IH. left. discriminate.
Qed.

Lemma digit_clean b : is_digit b = true -> is_space_or_control b = false.
Proof.
  unfold is_digit, is_space_or_control, is_ascii_control. intros H.
  apply andb_prop in H. destruct H as [H1 H2]. apply N.leb_le in H1. apply N.leb_le in H2.
  destruct (N.ltb_spec b 32); [lia|]. destruct (N.eqb_spec b 127); [lia|]. destruct (N.eqb_spec b 32); [lia|].
  reflexivity.
Qed.

Lemma dec_clean n : clean (dec n) /\ dec n <> [].
Proof.
  split.
  - unfold clean, dec. eapply Forall_impl; [apply digit_clean|]. apply dec_go_digits. constructor.
  - apply dec_go_nonempty. right. discriminate.
Qed.

Lemma clean_app a b : clean a -> clean b -> clean (a ++ b).
Proof. intros. apply Forall_app. split; assumption. Qed.

Lemma underscores_clean n : clean (underscores n).
Proof. unfold clean, underscores. apply Forall_forall. intros b Hb. apply repeat_spec in Hb. subst. reflexivity. Qed.

(** root names: the written name is clean and non-empty; clean non-empty names are
    written unchanged and are the only ones not reported in strict mode *)
Theorem sanitize_root_name_spec : forall i name,
  clean (fst (sanitize_root_name i name)) /\ fst (sanitize_root_name i name) <> [] /\
  (snd (sanitize_root_name i name) = false <-> (clean name /\ name <> [])) /\
  (clean name -> name <> [] -> fst (sanitize_root_name i name) = name).
Proof.
  intros i name. destruct name as [|b name].
  - cbn [sanitize_root_name fst snd].
    split; [apply clean_app; [repeat constructor|apply dec_clean]|].
    split; [discriminate|].
    split; [split; [discriminate|intros [_ Hne]; contradiction]|].
    intros _ Hne. contradiction.
  - cbn [sanitize_root_name].
    split; [apply replace_space_and_control_clean|].
    split.
    { intros Hnil. apply (f_equal (@length _)) in Hnil.
      rewrite replace_space_and_control_length in Hnil. discriminate. }
    split.
    { rewrite replace_space_and_control_flag. split; [intros Hc; split; [exact Hc|discriminate]|intros [Hc _]; exact Hc]. }
    intros Hc _. rewrite replace_space_and_control_id by assumption. reflexivity.
Qed.

(** variable names *)
Lemma var_out_name_ok lead prefix_all i orig :
  let r := replace_space_and_control orig in
  clean (var_out_name lead prefix_all i orig r) /\ var_out_name lead prefix_all i orig r <> [].
Proof.
  cbn zeta. unfold var_out_name.
  destruct (replace_space_and_control orig) as [n owned] eqn:E.
  assert (Hn : clean n) by (pose proof (replace_space_and_control_clean orig) as H; rewrite E in H; exact H).
  assert (Hl : length n = length orig) by (pose proof (replace_space_and_control_length orig) as H; rewrite E in H; exact H).
  assert (Hf : owned = false <-> clean orig) by (pose proof (replace_space_and_control_flag orig) as H; rewrite E in H; exact H).
  destruct owned.
  - destruct prefix_all.
    + split.
      * repeat apply clean_app; try apply underscores_clean; try apply dec_clean; try assumption; repeat constructor.
      * intros H. apply app_eq_nil in H. destruct H as [_ H]. discriminate.
    + split; [assumption|]. intros ->. destruct orig; [|discriminate].
      cbn in E. inversion E.
  - destruct orig as [|b orig].
    + split.
      * repeat apply clean_app; try apply underscores_clean; try apply dec_clean; repeat constructor.
      * intros H. apply app_eq_nil in H. destruct H as [_ H]. discriminate.
    + split; [apply Hf; reflexivity|discriminate].
Qed.

Lemma map_vars_ok lead prefix_all : forall names i,
  Forall (fun n => clean n /\ n <> [])
         (map_vars lead prefix_all i names (map replace_space_and_control names)) /\
  length (map_vars lead prefix_all i names (map replace_space_and_control names)) = length names.
Proof.
  induction names as [|o os IH]; intros i; cbn [map map_vars]; [split; [constructor|reflexivity]|].
  destruct (IH (i + 1)) as [H1 H2]. split.
  - constructor; [apply var_out_name_ok|exact H1].
  - cbn [length]. rewrite H2. reflexivity.
Qed.

(** every variable name written to the file is non-empty and free of spaces and control
    characters, and there is one per variable *)
Theorem export_var_names_clean : forall strict names out err,
  export_var_names strict names = (Some out, err) ->
  Forall (fun n => clean n /\ n <> []) out /\ length out = length names.
Proof.
  intros strict names out err H. unfold export_var_names in H.
  destruct (Nat.eqb _ _ || _); [|discriminate]. inversion H; subst. apply map_vars_ok.
Qed.

Lemma map_vars_id lead : forall names i,
  Forall (fun n => clean n /\ n <> []) names ->
  map_vars lead false i names (map replace_space_and_control names) = names.
Proof.
  induction names as [|o os IH]; intros i H; [reflexivity|].
  inversion H as [|? ? [Hc Hne] Hr]; subst. cbn [map map_vars].
  rewrite IH by assumption. f_equal.
  rewrite replace_space_and_control_id by assumption. cbn [var_out_name].
  destruct o; [contradiction|reflexivity].
Qed.

(** names that the format can carry are written unchanged, without an error, in both modes *)
Theorem export_var_names_id : forall strict names,
  names <> [] -> Forall (fun n => clean n /\ n <> []) names ->
  export_var_names strict names = (Some names, false).
Proof.
  intros strict names Hne H. unfold export_var_names.
  assert (Hfil : filter (fun n => negb (bytes_eqb n [])) names = names).
  { clear Hne. induction H as [|n l [_ Hn] _ IH]; [reflexivity|]. cbn [filter].
    destruct n; [contradiction|]. cbn. rewrite IH. reflexivity. }
  rewrite Hfil, Nat.eqb_refl. cbn [orb].
  assert (Hrep : existsb snd (map replace_space_and_control names) = false).
  { apply existsb_false_Forall. apply Forall_map. eapply Forall_impl; [|exact H].
    cbn. intros n [Hc _]. apply replace_space_and_control_flag. exact Hc. }
  rewrite Hrep. cbn [andb]. rewrite andb_false_r.
  rewrite map_vars_id by assumption. reflexivity.
Qed.

Lemma filter_len_le {A} (p : A -> bool) l : (length (filter p l) <= length l)%nat.
Proof. induction l as [|x l IH]; cbn; [lia|]. destruct (p x); cbn; lia. Qed.

(** strict mode reports an error exactly when the names are written and one of them
    contains a space or a control character *)
Theorem export_var_names_strict : forall names,
  snd (export_var_names true names) = true <->
  (Forall (fun n => n <> []) names /\ exists n, In n names /\ ~ clean n).
Proof.
  intros names. unfold export_var_names. cbn [negb andb orb]. rewrite orb_false_r.
  set (named := length (filter (fun n => negb (bytes_eqb n [])) names)).
  assert (Hall : Nat.eqb named (length names) = true <-> Forall (fun n => n <> []) names).
  { subst named. rewrite Nat.eqb_eq. clear. induction names as [|n l IH]; [split; auto|].
    cbn [filter length]. destruct n as [|b n]; cbn [bytes_eqb negb].
    - split.
      + intros H. pose proof (filter_len_le (fun n => negb (bytes_eqb n [])) l). lia.
      + intros H. inversion H; contradiction.
    - cbn [length]. split.
      + intros H. constructor; [discriminate|]. apply IH. lia.
      + intros H. inversion H; subst. f_equal. apply IH. assumption. }
  assert (Hex : existsb snd (map replace_space_and_control names) = true <-> exists n, In n names /\ ~ clean n).
  { rewrite existsb_exists. split.
    - intros (r & Hin & Hs). apply in_map_iff in Hin. destruct Hin as (n & <- & Hn).
      exists n. split; [assumption|]. intros Hc. apply replace_space_and_control_flag in Hc. congruence.
    - intros (n & Hn & Hc). exists (replace_space_and_control n). split; [apply in_map; assumption|].
      destruct (snd (replace_space_and_control n)) eqn:E; [reflexivity|].
      apply replace_space_and_control_flag in E. contradiction. }
  destruct (Nat.eqb named (length names)) eqn:E; cbn [snd].
  - rewrite Hex. split; [intros H; split; [apply Hall; reflexivity|exact H]|intros [_ H]; exact H].
  - split; [discriminate|]. intros [H _]. apply Hall in H. discriminate.
Qed.

(** ** semantics: the imported handles denote the functions of the exported nodes *)

(** natural semantics of the exporter's node list: node ID 1 is ⊤, an inner node
    branches on the variable at its level, a complemented reference negates *)
Fixpoint sem (slm : list N) (l : list inode) (fuel : nat) (env : N -> bool) (id : N) (tag : bool) : tval :=
  let flip v := if tag then tneg v else v in
  if id =? 1 then flip (TNum 1)
  else match fuel with
       | O => TNaN
       | S f =>
         match nth_error l (N.to_nat (id - 2)) with
         | None => TNaN
         | Some nd => flip (if env (lvl slm (iv nd)) then sem slm l f env (it nd) false
                            else sem slm l f env (ie nd) (ic nd))
         end
       end.

Theorem eval_state_sem : forall slm l fuel env id tag,
  eval_edge (st_store (state_of slm l (length l))) fuel env (eref id tag) = sem slm l fuel env id tag.
Proof.
  intros slm l. unfold state_of. cbn [st_store]. rewrite firstn_all.
  induction fuel as [|f IH]; intros env id tag.
  - unfold eref. cbn [sem eval_edge]. destruct (id =? 1); reflexivity.
  - unfold eref. cbn [sem]. destruct (N.eqb_spec id 1) as [->|Hne]; [reflexivity|].
    cbn [eval_edge ce_ref ce_tag]. rewrite nth_error_map.
    destruct (nth_error l (N.to_nat (id - 2))) as [nd|]; [|reflexivity].
    cbn [option_map cn_of cn_level cn_t cn_e].
    destruct (env (lvl slm (iv nd))); rewrite IH; reflexivity.
Qed.
