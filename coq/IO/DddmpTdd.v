(** C15 (package C15t) — DDDMP for ternary decision diagrams (TDD) and the export settings.

    What /repo does for the TDD kind ([oxidd::tdd], nodes with three children then / unknown /
    else, terminals False / Unknown / True, no edge tags):

    - export.rs [ExportSettings::binary_supported] is [ARITY == 2 && num_terminals == 1], so a
      TDD is always written in ASCII mode, whatever the settings say.  Terminal lines are
      ["{id} {desc} 0 0"] (TWO zeros, also for ternary nodes), inner node lines are
      ["{id} {var_idx} {then} {unknown} {else}"].
    - import.rs [import::<TDDFunction>] cannot be instantiated: [import_bin] contains
      [const { assert!(M::InnerNode::ARITY == 2) }] and [import] calls it in one of its
      branches (error E0080 when the harness tries).  The generic ASCII reader
      [import_ascii] demands [children.len() == ARITY] BEFORE it looks for a zero child,
      i.e. with ARITY = 3 it would reject the exporter's own terminal lines.

    The model below has one reader with a flag:
      [strict = true]   the generic [import_ascii] instantiated with ARITY = 3, statement by
                        statement (what the code would do if the static assertion were not
                        there; proof-only, there is no executable counterpart in /repo);
      [strict = false]  the same reader with the arity check moved into the inner-node
                        branch: the decoder of the format the exporter really writes.  The
                        round-trip theorems are about this decoder, the driver uses it to
                        read every TDD file the real exporter produces.

    Bytes, numbers and the header are those of IO/Dddmp.v and IO/DddmpFile.v (the header
    code does not depend on the diagram kind).  No proofs in this file. *)
From Coq Require Import String Ascii.
From Coq Require Import List NArith ZArith Bool.
From OxiVerif Require Import IO.Dddmp IO.DddmpFile.
Import ListNotations.
Open Scope N_scope.

(** ** export.rs [struct ExportSettings], its builder methods and getters *)

Record settings := mkSet {
  get_version3 : bool;            (* [get_version() == DDDMPVersion::V3_0] *)
  is_ascii : bool;                (* [is_ascii()] *)
  is_strict : bool;               (* [is_strict()] *)
  get_diagram_name : list byte    (* [get_diagram_name()] *)
}.

(** [impl Default for ExportSettings]: version 2.0, binary if supported, strict, no name *)
Definition settings_default : settings := mkSet false false true [].

Definition set_version (s : settings) (v3 : bool) : settings :=
  mkSet v3 (is_ascii s) (is_strict s) (get_diagram_name s).
Definition set_ascii (s : settings) : settings :=
  mkSet (get_version3 s) true (is_strict s) (get_diagram_name s).
Definition set_binary (s : settings) : settings :=
  mkSet (get_version3 s) false (is_strict s) (get_diagram_name s).
Definition set_strict (s : settings) (b : bool) : settings :=
  mkSet (get_version3 s) (is_ascii s) b (get_diagram_name s).
Definition set_diagram_name (s : settings) (n : list byte) : settings :=
  mkSet (get_version3 s) (is_ascii s) (is_strict s) n.

(** one call of a builder method *)
Inductive setter :=
| SVersion (v3 : bool) | SAscii | SBinary | SStrict (b : bool) | SName (n : list byte).

Definition apply_setter (s : settings) (c : setter) : settings :=
  match c with
  | SVersion v => set_version s v
  | SAscii => set_ascii s
  | SBinary => set_binary s
  | SStrict b => set_strict s b
  | SName n => set_diagram_name s n
  end.

Definition apply_setters (cs : list setter) : settings := fold_left apply_setter cs settings_default.

(** [ExportSettings::binary_supported]: [M::InnerNode::ARITY == 2 && manager.num_terminals() == 1] *)
Definition binary_supported (arity nterm : N) : bool := (arity =? 2) && (nterm =? 1).

(** the local [ascii] of [export_common]: forced by the settings, by the diagram kind, or by
    an exported terminal whose [AsciiDisplay] is not "T"; [descs] = the descriptions of the
    exported terminals *)
Definition export_ascii_mode (s : settings) (arity nterm : N) (descs : list (list byte)) : bool :=
  is_ascii s || negb (binary_supported arity nterm)
  || existsb (fun d => negb (bytes_eqb d (bs "T"))) descs.

Definition tdd_arity : N := 3.

(** ** the TDD manager as far as the importer uses it *)

(** oxidd-rules-tdd [enum TDDTerminal] *)
Inductive tterm := TFalse | TUnknown | TTrue.

(** an edge: TDD edges carry no tag ([EdgeTag = ()]) *)
Inductive tref := TRTerm (v : tterm) | TRNode (i : N).

Record tnode := mkTN { tn_level : N; tn_t : tref; tn_u : tref; tn_e : tref }.

Definition tterm_eqb (a b : tterm) : bool :=
  match a, b with
  | TFalse, TFalse | TUnknown, TUnknown | TTrue, TTrue => true
  | _, _ => false
  end.

Definition tref_eqb (a b : tref) : bool :=
  match a, b with
  | TRTerm x, TRTerm y => tterm_eqb x y
  | TRNode i, TRNode j => i =? j
  | _, _ => false
  end.

Definition tnode_eqb (a b : tnode) : bool :=
  (tn_level a =? tn_level b) && tref_eqb (tn_t a) (tn_t b) && tref_eqb (tn_u a) (tn_u b)
  && tref_eqb (tn_e a) (tn_e b).

(** unique table: [LevelView::get_or_insert] *)
Definition tdd_find_or_add (store : list tnode) (n : tnode) : list tnode * tref :=
  match find_index (tnode_eqb n) store 0 with
  | Some i => (store, TRNode i)
  | None => (store ++ [n], TRNode (N.of_nat (length store)))
  end.

(** oxidd-rules-tdd [TDDRules::reduce(..)] followed by [then_insert(..)]: a node whose three
    children are equal is replaced by the child *)
Definition tdd_mk_node (store : list tnode) (level : N) (t u e : tref) : list tnode * tref :=
  if tref_eqb t u && tref_eqb u e then (store, t)
  else tdd_find_or_add store (mkTN level t u e).

(** [manager.get_node(e).level()] ([LevelNo::MAX] for terminals) *)
Definition tref_level (store : list tnode) (r : tref) : N :=
  match r with
  | TRTerm _ => level_max
  | TRNode i => match nth_error store (N.to_nat i) with Some n => tn_level n | None => level_max end
  end.

(** [impl AsciiDisplay for TDDTerminal] *)
Definition tdd_desc (v : tterm) : list byte :=
  match v with TFalse => [70] | TUnknown => [85] | TTrue => [84] end.      (* "F" "U" "T" *)

Definition unknown_lits : list string := ["u"; "U"; "unknown"; "Unknown"; "UNKNOWN"; "?"]%string.

(** [impl ParseTagged for TDDTerminal] (the order of the match arms: false, unknown, true;
    the literal sets are disjoint) *)
Definition tdd_parse_terminal (tok : list byte) : option tref :=
  if one_of tok false_lits then Some (TRTerm TFalse)
  else if one_of tok unknown_lits then Some (TRTerm TUnknown)
  else if one_of tok true_lits then Some (TRTerm TTrue)
  else None.

(** the [complement] argument of [import]: TDD edges cannot be complemented; like for ZBDD and
    MTBDD a rejecting function ([Err(OutOfMemory)]) is what a caller can pass *)
Definition tdd_complement (r : tref) : res tref := Err EOom.

(** ** the ASCII reader *)

(** importer state: unique table and the vector [nodes] *)
Record tst := mkTS { ts_store : list tnode; ts_nodes : list tref }.

Definition tdd_empty : tst := mkTS [] [].

Definition tnode_at (st : tst) (i : N) : res tref :=
  match nth_error (ts_nodes st) (N.to_nat i) with Some r => Ok r | None => Err EInternal end.

(** first loop over the children of an inner node: id and level checks *)
Definition tdd_child_check (st : tst) (node_id level : N) (child : Z) : res tref :=
  let c := Z.abs_N child in
  if node_id <=? c then Err EIdLarge
  else
    r <- tnode_at st (c - 1) ;;
    if tref_level (ts_store st) r <=? level then Err ELevel else Ok r.

(** second loop: clone the edge, complement it for a negative reference *)
Definition tdd_child_edge (r : tref) (child : Z) : res tref :=
  if (child <? 0)%Z then tdd_complement r else Ok r.

(** one iteration of the node loop of [import_ascii] with [ARITY = 3].  [strict = true] is
    the Rust code; [strict = false] tests the number of children only for inner nodes. *)
Definition tdd_import_line (strict varinfo_none : bool) (slm : list N)
           (st : tst) (node_id : N) (line : list byte) : res tst :=
  '(rest, nid) <- parse_usize line ;;
  if negb (nid =? node_id) then Err ENodeId
  else
    let rest := trim_start rest in
    rest <- (if varinfo_none then Ok rest
             else match split_sp rest with Some (_, r) => Ok r | None => Err ESyntax end) ;;
    let rest := trim_start rest in
    match split_sp rest with
    | None => Err ESyntax
    | Some (var_tok, rest) =>
      children <- parse_edge_list rest ;;
      (* [if children.len() != M::InnerNode::ARITY { return err(..) }] *)
      if strict && negb (Nat.eqb (length children) 3) then Err EArity
      else if existsb (Z.eqb 0) children then
        (* terminal: [std::str::from_utf8] + [M::Terminal::parse]; both failures are
           "invalid terminal description" errors *)
        match tdd_parse_terminal var_tok with
        | None => Err ETerminal
        | Some r => Ok (mkTS (ts_store st) (ts_nodes st ++ [r]))
        end
      else
        match children with
        | [c1; c2; c3] =>
          '(_, var_id) <- parse_u32 var_tok ;;
          match nth_error slm (N.to_nat var_id) with
          | None => Err EVarRange
          | Some level =>
            r1 <- tdd_child_check st node_id level c1 ;;
            r2 <- tdd_child_check st node_id level c2 ;;
            r3 <- tdd_child_check st node_id level c3 ;;
            r1 <- tdd_child_edge r1 c1 ;;
            r2 <- tdd_child_edge r2 c2 ;;
            r3 <- tdd_child_edge r3 c3 ;;
            let '(store, r) := tdd_mk_node (ts_store st) level r1 r2 r3 in
            Ok (mkTS store (ts_nodes st ++ [r]))
          end
        | _ => Err EArity
        end
    end.

Fixpoint tdd_import_loop (strict varinfo_none : bool) (slm : list N)
         (n : nat) (node_id : N) (st : tst) (inp : list byte) : res (tst * list byte) :=
  match n with
  | O => Ok (st, inp)
  | S n' =>
    '(line, inp') <- read_line inp ;;
    st' <- tdd_import_line strict varinfo_none slm st node_id line ;;
    tdd_import_loop strict varinfo_none slm n' (node_id + 1) st' inp'
  end.

(** import.rs [import_ascii] *)
Definition tdd_import_ascii (strict varinfo_none : bool) (slm : list N) (nnodes : N) (inp : list byte)
  : res (tst * list byte) :=
  tdd_import_loop strict varinfo_none slm (N.to_nat nnodes) 1 tdd_empty inp.

(** the root loop of [import] *)
Fixpoint tdd_import_roots (st : tst) (rootids : list Z) : res (list tref) :=
  match rootids with
  | [] => Ok []
  | r :: rs =>
    if (r =? 0)%Z then Err ERoot
    else
      e <- match nth_error (ts_nodes st) (N.to_nat (Z.abs_N r - 1)) with
           | Some e => Ok e
           | None => Err ERoot
           end ;;
      e <- (if (r <? 0)%Z then tdd_complement e else Ok e) ;;
      es <- tdd_import_roots st rs ;;
      Ok (e :: es)
  end.

(** [import] after the header, ASCII mode *)
Definition tdd_import_file (strict varinfo_none : bool) (slm : list N) (nnodes : N)
           (rootids : list Z) (inp : list byte) : res (tst * list tref) :=
  '(st, rest) <- tdd_import_ascii strict varinfo_none slm nnodes inp ;;
  if negb (reads_end rest) then Err EEnd
  else
    roots <- tdd_import_roots st rootids ;;
    Ok (st, roots).

(** ** the whole file *)

Inductive tres (A : Type) :=
| TOk (a : A)
| THdr (e : herr)          (* [DumpHeader::load] returned an error *)
| TPre                     (* precondition of [import]: one level per support variable *)
| TBinary                  (* [.mode B]: [import_bin] exists for [ARITY = 2] only (static assertion) *)
| TBody (e : err).         (* the node section / trailer / roots are rejected *)
Arguments TOk {A} a.
Arguments THdr {A} e.
Arguments TPre {A}.
Arguments TBinary {A}.
Arguments TBody {A} e.

Definition tdd_import_body (strict : bool) (slm : list N) (h : header) (rest : list byte)
  : tres (header * tst * list tref) :=
  match tdd_import_file strict (varinfo_none (h_varinfo h)) slm (h_nnodes h) (h_rootids h) rest with
  | Ok (st, roots) => TOk (h, st, roots)
  | Err e => TBody e
  end.

(** [DumpHeader::load] + [import] *)
Definition tdd_import_whole (strict : bool) (slm : list N) (inp : list byte)
  : tres (header * tst * list tref) :=
  match load_header inp with
  | HErr e => THdr e
  | HOk (h, rest) =>
    if negb (Nat.eqb (length slm) (length (h_ids h))) then TPre
    else if negb (h_ascii h) then TBinary
    else tdd_import_body strict slm h rest
  end.

(** the same with the short cut for the extracted code (every node line takes at least one
    byte; [N.to_nat] of an absurd [.nnodes] would not terminate in practice); proved
    equivalent up to the error value *)
Definition tdd_import_whole_guarded (strict : bool) (slm : list N) (inp : list byte)
  : tres (header * tst * list tref) :=
  match load_header inp with
  | HErr e => THdr e
  | HOk (h, rest) =>
    if negb (Nat.eqb (length slm) (length (h_ids h))) then TPre
    else if negb (h_ascii h) then TBinary
    else if N.of_nat (length rest) <? h_nnodes h then TBody EEof
    else tdd_import_body strict slm h rest
  end.

(** ** the exporter: ASCII node lines of [export_common] for ternary nodes *)

Inductive tanode :=
| TATerm (desc : list byte)
| TAInner (v : N) (t u e : Z).

Definition tdd_export_line (node_id : N) (nd : tanode) : list byte :=
  match nd with
  | TATerm desc => dec node_id ++ [32] ++ desc ++ [32; 48; 32; 48; 10]         (* "{id} {desc} 0 0\n" *)
  | TAInner v t u e =>
    dec node_id ++ [32] ++ dec v ++ [32] ++ dec_z t ++ [32] ++ dec_z u ++ [32] ++ dec_z e ++ [10]
  end.

Fixpoint tdd_export_from (node_id : N) (todo : list tanode) : list byte :=
  match todo with
  | [] => []
  | nd :: r => tdd_export_line node_id nd ++ tdd_export_from (node_id + 1) r
  end.

Definition tdd_export_nodes (dag : list tanode) : list byte := tdd_export_from 1 dag.

(** a complete TDD file as [export_common] writes it *)
Definition tdd_export_whole (x : xheader) (dag : list tanode) : list byte :=
  print_header x ++ tdd_export_nodes dag ++ end_line.

(** The node list of the exporter for the content of an importer state: [terms] are the
    exported terminals (node IDs [1 .. T]), store entry [i] has node ID [T + 1 + i];
    [pos level] = position of the level among the support levels ([var_idx]).  Used by the
    driver to re-print what the decoder read. *)
Definition tdd_ref_id (terms : list tterm) (r : tref) : Z :=
  match r with
  | TRTerm v => match find_index (tterm_eqb v) terms 0 with Some i => Z.of_N (i + 1) | None => 0%Z end
  | TRNode i => Z.of_N (N.of_nat (length terms) + 1 + i)
  end.

Definition tdd_anodes (terms : list tterm) (pos : N -> N) (store : list tnode) : list tanode :=
  map (fun v => TATerm (tdd_desc v)) terms ++
  map (fun n => TAInner (pos (tn_level n)) (tdd_ref_id terms (tn_t n)) (tdd_ref_id terms (tn_u n))
                        (tdd_ref_id terms (tn_e n))) store.

(** ** semantics: oxidd-rules-tdd [TVLFunction::eval_edge] ([inner]: child 0 for true, 1 for
    unknown, 2 for false); [env level] = value of the variable at [level] *)
Fixpoint tdd_eval (store : list tnode) (fuel : nat) (env : N -> tterm) (r : tref) : tterm :=
  match r with
  | TRTerm v => v
  | TRNode i =>
    match fuel with
    | O => TUnknown
    | S f =>
      match nth_error store (N.to_nat i) with
      | None => TUnknown
      | Some n =>
        tdd_eval store f env
                 (match env (tn_level n) with TTrue => tn_t n | TUnknown => tn_u n | TFalse => tn_e n end)
      end
    end
  end.

Definition tdd_eval_root (store : list tnode) (env : N -> tterm) (r : tref) : tterm :=
  tdd_eval store (S (length store)) env r.
