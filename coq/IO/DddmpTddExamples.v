(** * C15 (package C15t): the hypotheses of the TDD theorems are satisfiable

    The Kleene conjunction x0 ∧ x2 in a manager with three variables a, b, c whose order is
    b, a, c (variable 1 is not in the support): terminals F, U, T = node IDs 1, 2, 3;
    node 4 = x2, node 5 = (x2 ? U : U : F), node 6 = (x0 ? 4 : 5 : F); roots 6 and 4. *)
From Coq Require Import String Ascii.
From Coq Require Import List NArith ZArith Bool Arith Lia.
From OxiVerif Require Import IO.Dddmp IO.DddmpProofs IO.DddmpAsciiProofs IO.DddmpFile IO.DddmpFileProofs
  IO.DddmpFileRoundtrip IO.DddmpFileWhole IO.DddmpTdd IO.DddmpTddProofs IO.DddmpTddSafety.
Import ListNotations.
Open Scope N_scope.

Definition ex_tslm : list N := [1; 2].
Definition ex_terms : list tterm := [TFalse; TUnknown; TTrue].
Definition ex_tdag : list tainode := [mkTA 1 3 2 1; mkTA 1 2 2 1; mkTA 0 4 5 1].

Definition ex_tx : xheader :=
  mkX false true (bs "kleene and") 6 [(1, true); (0, false); (2, true)] [1; 0; 2]
      (Some [bs "a"; bs "b"; bs "c"]) [6; 4]%Z (Some [bs "f"; bs "g"]).

Example ex_tx_wf : xwf ex_tx.
Proof.
  split.
  - reflexivity.
  - reflexivity.
  - repeat constructor.
  - cbn. repeat constructor; cbn; intuition discriminate.
  - reflexivity.
  - intros [|[|[|v]]] l s H; cbn in H; inversion H; subst; try reflexivity. destruct v; discriminate.
  - split; [reflexivity|]. repeat constructor; try discriminate; vm_compute; try reflexivity; intuition discriminate.
  - reflexivity.
  - repeat constructor; try discriminate; vm_compute; discriminate.
  - split; [reflexivity|]. repeat constructor; try discriminate; vm_compute; try reflexivity; intuition discriminate.
Qed.

Example ex_tslm_incr : incr ex_tslm.
Proof.
  intros [|[|i]] [|[|j]] a b Ha Hb Hij; cbn in Ha, Hb; try lia; try (destruct i; discriminate);
    try (destruct j; discriminate); inversion Ha; inversion Hb; subst; lia.
Qed.

Example ex_tdag_wf : twf_dag ex_tslm ex_terms ex_tdag.
Proof.
  split.
  - cbn. repeat constructor; cbn; intuition discriminate.
  - intros j nd H. destruct j as [|[|[|j]]]; cbn in H; inversion H; subst; clear H.
    + unfold twf_at, tchild_ok. cbn. repeat split; try lia; try discriminate. intros [E _]. discriminate.
    + unfold twf_at, tchild_ok. cbn. repeat split; try lia; try discriminate. intros [_ E]. discriminate.
    + unfold twf_at, tchild_ok. cbn. repeat split; try lia; try discriminate.
      * intros _. exists (mkTA 1 3 2 1). split; [reflexivity|cbn; lia].
      * intros _. exists (mkTA 1 2 2 1). split; [reflexivity|cbn; lia].
      * intros [E _]. discriminate.
    + destruct j; discriminate.
Qed.

Example ex_tdd_file :
  tdd_export_whole ex_tx (tterm_nodes ex_terms ++ map tainner ex_tdag) = bs ".ver DDDMP-2.0
.mode A
.varinfo 4
.dd kleene and
.nnodes 6
.nvars 3
.nsuppvars 2
.suppvarnames a c
.orderedvarnames b a c
.ids 0 2
.permids 1 2
.nroots 2
.rootids 6 4
.rootnames f g
.nodes
1 F 0 0
2 U 0 0
3 T 0 0
4 1 3 2 1
5 1 2 2 1
6 0 4 5 1
.end
".
Proof. vm_compute. reflexivity. Qed.

(** the whole-file theorem applies to this file ... *)
Example ex_tdd_whole :
  tdd_import_whole false ex_tslm (tdd_export_whole ex_tx (tterm_nodes ex_terms ++ map tainner ex_tdag))
  = TOk (header_of ex_tx, tstate ex_tslm ex_terms ex_tdag 3, [TRNode 2; TRNode 0]).
Proof.
  apply (tdd_import_export_whole ex_tx ex_tslm ex_terms ex_tdag); try reflexivity.
  - exact ex_tx_wf.
  - exact ex_tslm_incr.
  - repeat constructor.
  - exact ex_tdag_wf.
  - vm_compute. discriminate.
  - vm_compute. discriminate.
  - repeat constructor; cbn; lia.
Qed.

(** ... and agrees with plain computation, also through the guarded reader *)
Example ex_tdd_whole_computed :
  tdd_import_whole_guarded false ex_tslm (tdd_export_whole ex_tx (tterm_nodes ex_terms ++ map tainner ex_tdag))
  = TOk (header_of ex_tx,
         mkTS [mkTN 2 (TRTerm TTrue) (TRTerm TUnknown) (TRTerm TFalse);
               mkTN 2 (TRTerm TUnknown) (TRTerm TUnknown) (TRTerm TFalse);
               mkTN 1 (TRNode 0) (TRNode 1) (TRTerm TFalse)]
              [TRTerm TFalse; TRTerm TUnknown; TRTerm TTrue; TRNode 0; TRNode 1; TRNode 2],
         [TRNode 2; TRNode 0]).
Proof. vm_compute. reflexivity. Qed.

(** the reader of the code stops at the first terminal line *)
Example ex_tdd_strict :
  tdd_import_whole true ex_tslm (tdd_export_whole ex_tx (tterm_nodes ex_terms ++ map tainner ex_tdag))
  = TBody EArity.
Proof. vm_compute. reflexivity. Qed.

(** the decoded root is the Kleene conjunction of the variables at levels 1 and 2 *)
Definition kleene_and (a b : tterm) : tterm :=
  match a, b with
  | TFalse, _ | _, TFalse => TFalse
  | TTrue, TTrue => TTrue
  | _, _ => TUnknown
  end.

Example ex_tdd_semantics : forall a b : tterm,
  tdd_eval_root (ts_store (tstate ex_tslm ex_terms ex_tdag 3))
                (fun l => if l =? 1 then a else if l =? 2 then b else TUnknown) (TRNode 2)
  = kleene_and a b.
Proof. intros [] []; vm_compute; reflexivity. Qed.

(** malformed inputs are rejected by values: a line with a forward reference, a level that does
    not increase, a negative reference (no complement edges), a binary-mode header *)
Example ex_tdd_rejects :
  tdd_import_ascii false true ex_tslm 4 (bs "1 F 0 0
2 T 0 0
3 1 2 4 1
") = Err EIdLarge /\
  tdd_import_ascii false true ex_tslm 5 (bs "1 F 0 0
2 T 0 0
3 0 2 1 1
4 1 3 2 1
") = Err ELevel /\
  tdd_import_ascii false true ex_tslm 3 (bs "1 F 0 0
2 T 0 0
3 1 2 -1 1
") = Err EOom /\
  tdd_import_whole false [] (bs ".mode B
.nodes
.end
") = TBinary.
Proof. vm_compute. repeat split. Qed.
