(** * C15 (package C15t): TDD files — the decoder reads back what the exporter model writes,
      the arity check of the code rejects the exporter's terminal lines, export settings *)
From Coq Require Import String Ascii.
From Coq Require Import List NArith ZArith Bool Arith Lia.
From OxiVerif Require Import IO.Dddmp IO.DddmpProofs IO.DddmpAsciiProofs IO.DddmpFile IO.DddmpFileProofs
  IO.DddmpFileRoundtrip IO.DddmpTdd.
Import ListNotations.
Open Scope N_scope.

Ltac Zify.zify_post_hook ::= Z.to_euclidean_division_equations.

Arguments N.add : simpl never.
Arguments N.sub : simpl never.
Arguments N.mul : simpl never.
Arguments N.div : simpl never.
Arguments N.modulo : simpl never.
Arguments N.pow : simpl never.

(** ** export settings *)

(** every getter returns what the matching builder method stored; the other fields are untouched *)
Theorem settings_get_set s :
  (forall v, get_version3 (set_version s v) = v /\ is_ascii (set_version s v) = is_ascii s /\
             is_strict (set_version s v) = is_strict s /\ get_diagram_name (set_version s v) = get_diagram_name s) /\
  (is_ascii (set_ascii s) = true /\ get_version3 (set_ascii s) = get_version3 s /\
   is_strict (set_ascii s) = is_strict s /\ get_diagram_name (set_ascii s) = get_diagram_name s) /\
  (is_ascii (set_binary s) = false /\ get_version3 (set_binary s) = get_version3 s /\
   is_strict (set_binary s) = is_strict s /\ get_diagram_name (set_binary s) = get_diagram_name s) /\
  (forall b, is_strict (set_strict s b) = b /\ get_version3 (set_strict s b) = get_version3 s /\
             is_ascii (set_strict s b) = is_ascii s /\ get_diagram_name (set_strict s b) = get_diagram_name s) /\
  (forall n, get_diagram_name (set_diagram_name s n) = n /\ get_version3 (set_diagram_name s n) = get_version3 s /\
             is_ascii (set_diagram_name s n) = is_ascii s /\ is_strict (set_diagram_name s n) = is_strict s).
Proof. repeat split. Qed.

(** a chain of builder calls: every field is decided by the last call that concerns it *)
Definition last_version (cs : list setter) : bool :=
  fold_left (fun a c => match c with SVersion v => v | _ => a end) cs false.
Definition last_ascii (cs : list setter) : bool :=
  fold_left (fun a c => match c with SAscii => true | SBinary => false | _ => a end) cs false.
Definition last_strict (cs : list setter) : bool :=
  fold_left (fun a c => match c with SStrict b => b | _ => a end) cs true.
Definition last_name (cs : list setter) : list byte :=
  fold_left (fun a c => match c with SName n => n | _ => a end) cs [].

Lemma apply_setters_from cs : forall s,
  fold_left apply_setter cs s =
  mkSet (fold_left (fun a c => match c with SVersion v => v | _ => a end) cs (get_version3 s))
        (fold_left (fun a c => match c with SAscii => true | SBinary => false | _ => a end) cs (is_ascii s))
        (fold_left (fun a c => match c with SStrict b => b | _ => a end) cs (is_strict s))
        (fold_left (fun a c => match c with SName n => n | _ => a end) cs (get_diagram_name s)).
Proof.
  induction cs as [|c cs IH]; intros [v a st n]; [reflexivity|].
  cbn [fold_left]. rewrite IH. destruct c; reflexivity.
Qed.

Theorem settings_chain cs :
  apply_setters cs = mkSet (last_version cs) (last_ascii cs) (last_strict cs) (last_name cs).
Proof. unfold apply_setters. rewrite apply_setters_from. reflexivity. Qed.

(** binary mode is never chosen for a ternary diagram, whatever the settings and terminals are *)
Theorem tdd_binary_unsupported nterm : binary_supported tdd_arity nterm = false.
Proof. reflexivity. Qed.

Theorem tdd_export_always_ascii s nterm descs : export_ascii_mode s tdd_arity nterm descs = true.
Proof. unfold export_ascii_mode. rewrite tdd_binary_unsupported. cbn [negb]. rewrite orb_true_r. reflexivity. Qed.

Lemma bytes_eqb_iff : forall a b, bytes_eqb a b = true <-> a = b.
Proof.
  induction a as [|x a IH]; intros [|y b]; cbn [bytes_eqb]; try (split; [discriminate|discriminate]); [tauto|].
  rewrite andb_true_iff, N.eqb_eq, IH. split; [intros [-> ->]; reflexivity|intros H; inversion H; auto].
Qed.

(** for the binary kinds the mode line is "B" exactly when the settings ask for it, the
    manager has a single terminal and every exported terminal is written as "T" *)
Theorem export_binary_iff s nterm descs :
  export_ascii_mode s 2 nterm descs = false <->
  is_ascii s = false /\ nterm = 1 /\ Forall (fun d => d = bs "T") descs.
Proof.
  unfold export_ascii_mode, binary_supported. change (2 =? 2) with true. cbn [andb].
  rewrite !orb_false_iff, negb_false_iff, N.eqb_eq.
  assert (H : existsb (fun d => negb (bytes_eqb d (bs "T"))) descs = false <-> Forall (fun d => d = bs "T") descs).
  { induction descs as [|d ds IH]; cbn [existsb].
    - split; [constructor|reflexivity].
    - rewrite orb_false_iff, negb_false_iff, IH. split.
      + intros [H1 H2]. constructor; [apply bytes_eqb_iff; exact H1|exact H2].
      + intros H. inversion H; subst. split; [apply bytes_eqb_iff; reflexivity|assumption]. }
  rewrite H. tauto.
Qed.

(** ** the TDD manager model *)

Lemma tterm_eqb_eq a b : tterm_eqb a b = true <-> a = b.
Proof. destruct a, b; cbn; split; intros H; try reflexivity; discriminate. Qed.

Lemma tref_eqb_eq a b : tref_eqb a b = true <-> a = b.
Proof.
  destruct a as [x|i], b as [y|j]; cbn [tref_eqb]; try (split; discriminate).
  - rewrite tterm_eqb_eq. split; [intros ->; reflexivity|intros H; inversion H; reflexivity].
  - rewrite N.eqb_eq. split; [intros ->; reflexivity|intros H; inversion H; reflexivity].
Qed.

Lemma tnode_eqb_eq a b : tnode_eqb a b = true <-> a = b.
Proof.
  destruct a as [l1 t1 u1 e1], b as [l2 t2 u2 e2]. unfold tnode_eqb. cbn [tn_level tn_t tn_u tn_e].
  rewrite !andb_true_iff, N.eqb_eq, !tref_eqb_eq. split.
  - intros [[[-> ->] ->] ->]. reflexivity.
  - intros H. inversion H. auto.
Qed.

Lemma tnode_eqb_neq a b : a <> b -> tnode_eqb a b = false.
Proof. intros H. destruct (tnode_eqb a b) eqn:E; [|reflexivity]. apply tnode_eqb_eq in E. contradiction. Qed.

Lemma tdd_find_or_add_fresh store n :
  (forall x, In x store -> x <> n) ->
  tdd_find_or_add store n = (store ++ [n], TRNode (N.of_nat (length store))).
Proof.
  intros H. unfold tdd_find_or_add. rewrite find_index_none; [reflexivity|].
  intros x Hx. apply tnode_eqb_neq. intros ->. exact (H _ Hx eq_refl).
Qed.

(** [AsciiDisplay] followed by [ParseTagged::parse] is the identity on the three terminals *)
Theorem tdd_parse_desc v : tdd_parse_terminal (tdd_desc v) = Some (TRTerm v).
Proof. destruct v; vm_compute; reflexivity. Qed.

Lemma tdd_desc_token v : token (tdd_desc v).
Proof. destruct v; (split; [discriminate|repeat constructor]). Qed.

Lemma tdd_desc_no_nl v : no_nl (tdd_desc v).
Proof. destruct v; repeat constructor; discriminate. Qed.

(** ** one line *)

Lemma tdd_export_line_term id desc : tdd_export_line id (TATerm desc) = term_text id desc ++ [10].
Proof. unfold tdd_export_line, term_text. rewrite <- !app_assoc. reflexivity. Qed.

(** the decoder reads a terminal line of the exporter *)
Theorem tdd_import_line_term : forall slm st id desc r,
  id < usize_limit -> token desc -> tdd_parse_terminal desc = Some r ->
  tdd_import_line false true slm st id (term_text id desc) = Ok (mkTS (ts_store st) (ts_nodes st ++ [r])).
Proof.
  intros slm st id desc r Hid Htok Hp. unfold tdd_import_line, term_text.
  change (desc ++ [32; 48; 32; 48]) with (desc ++ 32 :: [48; 32; 48]).
  rewrite line_head by assumption. cbn [bind]. rewrite N.eqb_refl. cbn [negb].
  rewrite trim_start_sp_token by assumption. cbn [bind].
  rewrite trim_start_token by assumption.
  rewrite split_sp_token by apply Htok.
  rewrite parse_edge_list_zeros. cbn [bind andb existsb Z.eqb orb].
  rewrite Hp. reflexivity.
Qed.

(** the reader of the code ([children.len() != ARITY] comes first) rejects the same line *)
Theorem tdd_import_line_term_strict : forall slm st id desc,
  id < usize_limit -> token desc ->
  tdd_import_line true true slm st id (term_text id desc) = Err EArity.
Proof.
  intros slm st id desc Hid Htok. unfold tdd_import_line, term_text.
  change (desc ++ [32; 48; 32; 48]) with (desc ++ 32 :: [48; 32; 48]).
  rewrite line_head by assumption. cbn [bind]. rewrite N.eqb_refl. cbn [negb].
  rewrite trim_start_sp_token by assumption. cbn [bind].
  rewrite trim_start_token by assumption.
  rewrite split_sp_token by apply Htok.
  rewrite parse_edge_list_zeros. reflexivity.
Qed.

Definition tinner_text (id v : N) (t u e : Z) : list byte :=
  dec id ++ [32] ++ dec v ++ [32] ++ dec_z t ++ [32] ++ dec_z u ++ [32] ++ dec_z e.

Lemma tdd_export_line_inner id v t u e :
  tdd_export_line id (TAInner v t u e) = tinner_text id v t u e ++ [10].
Proof. unfold tdd_export_line, tinner_text. rewrite <- !app_assoc. reflexivity. Qed.

Lemma read_line_tinner id v t u e rest :
  read_line ((tinner_text id v t u e ++ [10]) ++ rest) = Ok (tinner_text id v t u e, rest).
Proof.
  destruct (dec_z_last e) as (body & lastc & E & Hl).
  unfold tinner_text. rewrite E.
  replace (dec id ++ [32] ++ dec v ++ [32] ++ dec_z t ++ [32] ++ dec_z u ++ [32] ++ body ++ [lastc])
    with ((dec id ++ [32] ++ dec v ++ [32] ++ dec_z t ++ [32] ++ dec_z u ++ [32] ++ body) ++ [lastc])
    by (rewrite <- !app_assoc; reflexivity).
  rewrite <- app_assoc. cbn [app].
  apply read_line_nl.
  - assert (Hz : no_nl (body ++ [lastc])) by (rewrite <- E; apply dec_z_no_nl).
    apply Forall_app in Hz. destruct Hz as [Hz1 Hz2].
    solve_no_nl.
  - apply digit_not_sp in Hl. tauto.
Qed.

Lemma read_line_tinner2 id v t u e mid rest :
  read_line (((tinner_text id v t u e ++ [10]) ++ mid) ++ rest) = Ok (tinner_text id v t u e, mid ++ rest).
Proof. rewrite <- app_assoc. apply read_line_tinner. Qed.

Theorem parse_edge_list_three : forall t u e,
  Z.abs_N t <= isize_max -> Z.abs_N u <= isize_max -> Z.abs_N e <= isize_max ->
  parse_edge_list (dec_z t ++ [32] ++ dec_z u ++ [32] ++ dec_z e) = Ok [t; u; e].
Proof.
  intros t u e Ht Hu He. unfold parse_edge_list. cbn [app].
  rewrite pel_dec_z_sp by assumption. rewrite pel_dec_z_sp by assumption.
  rewrite pel_dec_z_end by assumption. reflexivity.
Qed.

(** ** diagrams as the exporter numbers them

    The exported terminals come first (node IDs [1 .. T]), then the inner nodes bottom-up;
    entry [j] of [l] has node ID [T + 1 + j].  TDD edges are never complemented: all
    references are positive. *)
Record tainode := mkTA { tav : N; tat : Z; tau : Z; tae : Z }.

Definition tainner (nd : tainode) : tanode := TAInner (tav nd) (tat nd) (tau nd) (tae nd).

Section TddDag.
Variable slm : list N.
Variable terms : list tterm.
Let T := N.of_nat (length terms).

Definition taref (id : N) : tref :=
  if id <=? T then TRTerm (nth (N.to_nat (id - 1)) terms TUnknown) else TRNode (id - T - 1).

Definition tsref (z : Z) : tref := taref (Z.abs_N z).

Definition tacn (nd : tainode) : tnode :=
  mkTN (lvl slm (tav nd)) (tsref (tat nd)) (tsref (tau nd)) (tsref (tae nd)).

Definition tnodes_upto (j : nat) : list tref :=
  map TRTerm terms ++ map (fun i => TRNode (N.of_nat i)) (seq 0 j).

(** state of the reader after the terminals and the first [j] inner nodes *)
Definition tstate (l : list tainode) (j : nat) : tst := mkTS (map tacn (firstn j l)) (tnodes_upto j).

Definition tchild_ok (l : list tainode) (j : nat) (v : N) (c : Z) : Prop :=
  (0 < c)%Z /\ Z.abs_N c < T + 1 + N.of_nat j /\
  (T < Z.abs_N c -> exists nd', nth_error l (N.to_nat (Z.abs_N c - T - 1)) = Some nd' /\ v < tav nd').

Definition twf_at (l : list tainode) (j : nat) (nd : tainode) : Prop :=
  tav nd < N.of_nat (length slm) /\
  tchild_ok l j (tav nd) (tat nd) /\ tchild_ok l j (tav nd) (tau nd) /\ tchild_ok l j (tav nd) (tae nd) /\
  ~ (tsref (tat nd) = tsref (tau nd) /\ tsref (tau nd) = tsref (tae nd)).

(** reduced (no node with three equal children), no duplicate nodes, children first, ordered *)
Definition twf_dag (l : list tainode) : Prop :=
  NoDup (map tacn l) /\ forall j nd, nth_error l j = Some nd -> twf_at l j nd.

Hypothesis slm_incr : incr slm.
Hypothesis slm_max : Forall (fun x => x < level_max) slm.

Lemma tnodes_upto_S j : tnodes_upto (S j) = tnodes_upto j ++ [TRNode (N.of_nat j)].
Proof. unfold tnodes_upto. rewrite seq_S, map_app, app_assoc. reflexivity. Qed.

Lemma nth_error_tnodes j id : 1 <= id -> id < T + 1 + N.of_nat j ->
  nth_error (tnodes_upto j) (N.to_nat (id - 1)) = Some (taref id).
Proof.
  intros H1 H2. unfold tnodes_upto, taref. destruct (N.leb_spec id T).
  - rewrite nth_error_app1 by (rewrite map_length; subst T; lia).
    rewrite nth_error_map. rewrite nth_error_nth' with (d := TUnknown) by (subst T; lia). reflexivity.
  - rewrite nth_error_app2 by (rewrite map_length; subst T; lia). rewrite map_length.
    replace (N.to_nat (id - 1) - length terms)%nat with (N.to_nat (id - T - 1)) by (subst T; lia).
    rewrite nth_error_map.
    rewrite nth_error_nth' with (d := O) by (rewrite seq_length; lia).
    rewrite seq_nth by lia. cbn. rewrite N2Nat.id. reflexivity.
Qed.

Lemma taref_level l j id : 1 <= id -> id < T + 1 + N.of_nat j -> (j <= length l)%nat ->
  tref_level (ts_store (tstate l j)) (taref id) =
  if id <=? T then level_max
  else match nth_error l (N.to_nat (id - T - 1)) with Some nd' => lvl slm (tav nd') | None => level_max end.
Proof.
  intros H1 H2 Hj. unfold taref, tref_level. destruct (N.leb_spec id T); [reflexivity|].
  unfold tstate. cbn [ts_store].
  rewrite nth_error_map, nth_error_firstn by lia.
  destruct (nth_error l (N.to_nat (id - T - 1))); reflexivity.
Qed.

Lemma tdd_mk_node_fresh store level t u e :
  ~ (t = u /\ u = e) -> (forall x, In x store -> x <> mkTN level t u e) ->
  tdd_mk_node store level t u e = (store ++ [mkTN level t u e], TRNode (N.of_nat (length store))).
Proof.
  intros Hn Hnew. unfold tdd_mk_node.
  destruct (tref_eqb t u && tref_eqb u e) eqn:E.
  - apply andb_true_iff in E. destruct E as [E1 E2]. apply tref_eqb_eq in E1, E2. tauto.
  - apply tdd_find_or_add_fresh. exact Hnew.
Qed.

(** checks and edge of one child reference *)
Lemma tchild_steps l j v c : (j <= length l)%nat ->
  (forall j nd, nth_error l j = Some nd -> twf_at l j nd) ->
  v < N.of_nat (length slm) ->
  tchild_ok l j v c ->
  tdd_child_check (tstate l j) (T + 1 + N.of_nat j) (lvl slm v) c = Ok (tsref c) /\
  tdd_child_edge (tsref c) c = Ok (tsref c).
Proof.
  intros Hj Hwf Hv (Hc0 & Hc1 & Hc2).
  assert (H1 : 1 <= Z.abs_N c) by lia.
  split.
  - unfold tdd_child_check, tnode_at, tsref.
    destruct (N.leb_spec (T + 1 + N.of_nat j) (Z.abs_N c)); [lia|].
    unfold tstate at 1. cbn [ts_nodes].
    rewrite nth_error_tnodes by assumption. cbn [bind].
    rewrite taref_level by assumption.
    destruct (N.leb_spec (Z.abs_N c) T).
    + pose proof (lvl_lt_max slm v slm_max Hv). destruct (N.leb_spec level_max (lvl slm v)); [lia|reflexivity].
    + destruct (Hc2 ltac:(assumption)) as (nd' & Hn & Hlt). rewrite Hn.
      assert (tav nd' < N.of_nat (length slm)) by (apply (Hwf _ _ Hn)).
      pose proof (lvl_lt slm _ _ slm_incr Hlt ltac:(assumption)).
      destruct (N.leb_spec (lvl slm (tav nd')) (lvl slm v)); [lia|reflexivity].
  - unfold tdd_child_edge. destruct (Z.ltb_spec c 0); [lia|reflexivity].
Qed.

(** the decoder reads an inner node line of the exporter; with three children the arity check
    of the code passes as well, so both readers agree on these lines *)
Theorem tdd_import_line_inner : forall strict l j nd,
  twf_dag l -> nth_error l j = Some nd ->
  T + 1 + N.of_nat j <= isize_max -> N.of_nat (length slm) <= 4294967296 ->
  tdd_import_line strict true slm (tstate l j) (T + 1 + N.of_nat j)
                  (tinner_text (T + 1 + N.of_nat j) (tav nd) (tat nd) (tau nd) (tae nd))
  = Ok (tstate l (S j)).
Proof.
  intros strict l j nd [Hnodup Hwf] Hn Hid Hns.
  destruct (Hwf j nd Hn) as (Hv & Hct & Hcu & Hce & Hnf).
  assert (Hj : (j < length l)%nat) by (apply nth_error_Some; congruence).
  assert (Hidu : T + 1 + N.of_nat j < usize_limit) by (unfold isize_max, usize_limit in *; lia).
  unfold tdd_import_line, tinner_text.
  change ([32] ++ dec (tav nd) ++ [32] ++ dec_z (tat nd) ++ [32] ++ dec_z (tau nd) ++ [32] ++ dec_z (tae nd))
    with ([32] ++ dec (tav nd) ++ 32 :: (dec_z (tat nd) ++ [32] ++ dec_z (tau nd) ++ [32] ++ dec_z (tae nd))).
  rewrite line_head by (try assumption; apply token_dec). cbn [bind]. rewrite N.eqb_refl. cbn [negb].
  rewrite trim_start_sp_token by apply token_dec. cbn [bind].
  rewrite trim_start_token by apply token_dec.
  rewrite split_sp_token by apply token_dec.
  pose proof Hct as (Ht0 & Ht1 & _). pose proof Hcu as (Hu0 & Hu1 & _). pose proof Hce as (He0 & He1 & _).
  rewrite parse_edge_list_three by lia. cbn [bind length Nat.eqb negb andb].
  rewrite andb_false_r.
  cbn [existsb].
  destruct (Z.eqb_spec 0 (tat nd)); [lia|]. destruct (Z.eqb_spec 0 (tau nd)); [lia|].
  destruct (Z.eqb_spec 0 (tae nd)); [lia|]. cbn [orb].
  rewrite parse_u32_dec by lia. cbn [bind].
  rewrite lvl_nth_error by assumption.
  destruct (tchild_steps l j (tav nd) (tat nd) ltac:(lia) Hwf Hv Hct) as [Hc1 Hd1].
  destruct (tchild_steps l j (tav nd) (tau nd) ltac:(lia) Hwf Hv Hcu) as [Hc2 Hd2].
  destruct (tchild_steps l j (tav nd) (tae nd) ltac:(lia) Hwf Hv Hce) as [Hc3 Hd3].
  rewrite Hc1. cbn [bind]. rewrite Hc2. cbn [bind]. rewrite Hc3. cbn [bind].
  rewrite Hd1. cbn [bind]. rewrite Hd2. cbn [bind]. rewrite Hd3. cbn [bind].
  rewrite tdd_mk_node_fresh.
  - unfold tstate. cbn [ts_store ts_nodes].
    rewrite map_length, firstn_length, Nat.min_l by lia.
    rewrite (firstn_snoc l j nd Hn), map_app, tnodes_upto_S. reflexivity.
  - exact Hnf.
  - intros x Hx Heq. unfold tstate in Hx. cbn [ts_store] in Hx.
    apply In_nth_error in Hx. destruct Hx as (i & Hi).
    assert (Hij : (i < j)%nat).
    { assert (Hl : (i < length (map tacn (firstn j l)))%nat) by (apply nth_error_Some; congruence).
      rewrite map_length, firstn_length in Hl. lia. }
    rewrite <- (firstn_skipn j l) in Hnodup. rewrite map_app in Hnodup.
    rewrite (skipn_nth l j nd Hn) in Hnodup. cbn [map] in Hnodup.
    apply NoDup_remove_2 in Hnodup. apply Hnodup. apply in_or_app. left.
    change (tacn nd) with (mkTN (lvl slm (tav nd)) (tsref (tat nd)) (tsref (tau nd)) (tsref (tae nd))).
    rewrite <- Heq. eapply nth_error_In. exact Hi.
Qed.

End TddDag.

(** ** the whole node section *)

Lemma tdd_import_loop_app : forall strict vin slm n1 n2 id st inp,
  tdd_import_loop strict vin slm (n1 + n2) id st inp =
  bind (tdd_import_loop strict vin slm n1 id st inp)
       (fun r => tdd_import_loop strict vin slm n2 (id + N.of_nat n1) (fst r) (snd r)).
Proof.
  induction n1 as [|n1 IH]; intros n2 id st inp.
  - cbn [Nat.add tdd_import_loop bind fst snd]. f_equal. lia.
  - cbn [Nat.add tdd_import_loop].
    destruct (read_line inp) as [[line inp']|]; cbn [bind]; [|reflexivity].
    destruct (tdd_import_line strict vin slm st id line); cbn [bind]; [|reflexivity].
    rewrite IH. replace (id + 1 + N.of_nat n1) with (id + N.of_nat (S n1)) by lia. reflexivity.
Qed.

Lemma tdd_export_from_app : forall a b id,
  tdd_export_from id (a ++ b) = tdd_export_from id a ++ tdd_export_from (id + N.of_nat (length a)) b.
Proof.
  induction a as [|x a IH]; intros b id.
  - cbn. f_equal. lia.
  - cbn [app tdd_export_from length]. rewrite IH, <- app_assoc. do 3 f_equal. lia.
Qed.

Definition tterm_nodes (terms : list tterm) : list tanode := map (fun v => TATerm (tdd_desc v)) terms.

Lemma tdd_loop_terms : forall slm terms rest,
  N.of_nat (length terms) < usize_limit ->
  forall n i, (i + n = length terms)%nat ->
  tdd_import_loop false true slm n (N.of_nat i + 1) (mkTS [] (map TRTerm (firstn i terms)))
    (tdd_export_from (N.of_nat i + 1) (tterm_nodes (skipn i terms)) ++ rest)
  = Ok (mkTS [] (map TRTerm terms), rest).
Proof.
  intros slm terms rest Hlim.
  induction n as [|n IH]; intros i Hi.
  - assert (i = length terms) by lia. subst i. rewrite skipn_all, firstn_all. reflexivity.
  - destruct (nth_error terms i) as [v|] eqn:Hv; [|apply nth_error_None in Hv; lia].
    rewrite (skipn_nth terms i v Hv). unfold tterm_nodes. cbn [map tdd_export_from tdd_import_loop].
    rewrite tdd_export_line_term.
    rewrite read_line_term2 by apply tdd_desc_no_nl. cbn [bind].
    rewrite (tdd_import_line_term slm _ _ (tdd_desc v) (TRTerm v))
      by (try apply tdd_desc_token; try apply tdd_parse_desc; lia).
    cbn [bind ts_store ts_nodes].
    replace (map TRTerm (firstn i terms) ++ [TRTerm v]) with (map TRTerm (firstn (S i) terms))
      by (rewrite (firstn_snoc terms i v Hv), map_app; reflexivity).
    replace (N.of_nat i + 1 + 1) with (N.of_nat (S i) + 1) by lia.
    apply IH. lia.
Qed.

Lemma tdd_loop_inner : forall strict slm terms l rest,
  incr slm -> Forall (fun x => x < level_max) slm ->
  twf_dag slm terms l ->
  N.of_nat (length terms) + 1 + N.of_nat (length l) <= isize_max ->
  N.of_nat (length slm) <= 4294967296 ->
  forall n j, (j + n = length l)%nat ->
  tdd_import_loop strict true slm n (N.of_nat (length terms) + 1 + N.of_nat j) (tstate slm terms l j)
    (tdd_export_from (N.of_nat (length terms) + 1 + N.of_nat j) (map tainner (skipn j l)) ++ rest)
  = Ok (tstate slm terms l (length l), rest).
Proof.
  intros strict slm terms l rest Hi Hf Hwf Hlim Hns.
  induction n as [|n IH]; intros j Hj.
  - assert (j = length l) by lia. subst j. rewrite skipn_all. reflexivity.
  - destruct (nth_error l j) as [nd|] eqn:Hn; [|apply nth_error_None in Hn; lia].
    rewrite (skipn_nth l j nd Hn). cbn [map tdd_export_from tdd_import_loop].
    unfold tainner at 1. rewrite tdd_export_line_inner.
    rewrite read_line_tinner2. cbn [bind].
    rewrite (tdd_import_line_inner slm terms Hi Hf strict l j nd Hwf Hn) by lia. cbn [bind].
    replace (N.of_nat (length terms) + 1 + N.of_nat j + 1)
      with (N.of_nat (length terms) + 1 + N.of_nat (S j)) by lia.
    apply IH. lia.
Qed.

(** THE ROUND TRIP OF THE NODE SECTION.  The decoder reads the exporter's ASCII node section of
    a ternary diagram back: the terminal lines become the terminals, node ID [T + 1 + i]
    denotes entry [i] of the unique table, which holds exactly the exported nodes (same
    levels, same three children), and nothing after the section is consumed. *)
Theorem tdd_import_export_nodes : forall slm terms l rest,
  incr slm -> Forall (fun x => x < level_max) slm ->
  twf_dag slm terms l ->
  N.of_nat (length terms) + 1 + N.of_nat (length l) <= isize_max ->
  N.of_nat (length slm) <= 4294967296 ->
  tdd_import_ascii false true slm (N.of_nat (length terms + length l))
                   (tdd_export_nodes (tterm_nodes terms ++ map tainner l) ++ rest)
  = Ok (tstate slm terms l (length l), rest).
Proof.
  intros slm terms l rest Hi Hf Hwf Hlim Hns.
  unfold tdd_import_ascii, tdd_export_nodes. rewrite Nat2N.id.
  rewrite tdd_import_loop_app, tdd_export_from_app, <- app_assoc.
  unfold tterm_nodes at 2. rewrite map_length.
  pose proof (tdd_loop_terms slm terms
                (tdd_export_from (1 + N.of_nat (length terms)) (map tainner l) ++ rest)
                ltac:(unfold isize_max, usize_limit in *; lia) (length terms) O eq_refl) as H1.
  cbn [firstn skipn N.of_nat map] in H1. change (0 + 1) with 1 in H1.
  unfold tdd_empty. rewrite H1. cbn [bind fst snd].
  pose proof (tdd_loop_inner false slm terms l rest Hi Hf Hwf Hlim Hns (length l) O eq_refl) as H2.
  cbn [skipn] in H2.
  replace (N.of_nat (length terms) + 1 + N.of_nat 0) with (1 + N.of_nat (length terms)) in H2 by lia.
  unfold tstate at 1 in H2. cbn [firstn map] in H2. unfold tnodes_upto in H2. cbn [seq map] in H2.
  rewrite app_nil_r in H2. exact H2.
Qed.

(** a diagram with an inner node has a terminal (the children of the first node) *)
Lemma twf_dag_terms slm terms l : twf_dag slm terms l -> l <> [] -> terms <> [].
Proof.
  intros [_ Hwf] Hl Ht. subst terms. destruct l as [|nd l]; [contradiction|].
  destruct (Hwf O nd eq_refl) as (_ & (H0 & H1 & _) & _). cbn in H1. lia.
Qed.

(** WHAT THE CODE DOES: [import_ascii] with [ARITY = 3] stops at the first line of every
    non-empty node section the exporter writes (a terminal line with two zeros) with
    "expected 3 children, got 2" *)
Theorem tdd_strict_rejects_export : forall slm terms l rest,
  twf_dag slm terms l -> (length terms + length l <> 0)%nat ->
  N.of_nat (length terms) < usize_limit ->
  tdd_import_ascii true true slm (N.of_nat (length terms + length l))
                   (tdd_export_nodes (tterm_nodes terms ++ map tainner l) ++ rest)
  = Err EArity.
Proof.
  intros slm terms l rest Hwf Hn Hlim.
  assert (Ht : terms <> []).
  { destruct l as [|nd l]; [destruct terms; [cbn in Hn; lia|discriminate]|].
    eapply twf_dag_terms; [exact Hwf|discriminate]. }
  destruct terms as [|v terms]; [contradiction|].
  unfold tdd_import_ascii, tdd_export_nodes. rewrite Nat2N.id.
  cbn [length Nat.add tterm_nodes map app tdd_export_from tdd_import_loop].
  rewrite tdd_export_line_term.
  rewrite read_line_term2 by apply tdd_desc_no_nl. cbn [bind].
  rewrite tdd_import_line_term_strict; [reflexivity|unfold usize_limit; lia|apply tdd_desc_token].
Qed.

(** ** the whole file *)

(** root references of a TDD file: positive (no complement edges) and in range *)
Definition troot_ok (terms : list tterm) (l : list tainode) (r : Z) : Prop :=
  (0 < r)%Z /\ Z.abs_N r <= N.of_nat (length terms) + N.of_nat (length l).

Lemma tdd_import_roots_tstate slm terms l : forall rootids,
  Forall (troot_ok terms l) rootids ->
  tdd_import_roots (tstate slm terms l (length l)) rootids = Ok (map (tsref terms) rootids).
Proof.
  induction 1 as [|r rs (H0 & Hr) _ IH]; [reflexivity|]. cbn [tdd_import_roots map].
  destruct (Z.eqb_spec r 0); [lia|].
  change (ts_nodes (tstate slm terms l (length l))) with (tnodes_upto terms (length l)).
  rewrite nth_error_tnodes by lia. cbn [bind].
  destruct (Z.ltb_spec r 0); [lia|]. cbn [bind]. rewrite IH. reflexivity.
Qed.

(** THE WHOLE-FILE ROUND TRIP: header + ASCII node section + [.end] written by the exporter
    models for a ternary diagram are read back to the header [header_of x], exactly the exported
    nodes and exactly the exported roots. *)
Theorem tdd_import_export_whole x slm terms l :
  xwf x -> x_ascii x = true ->
  x_nnodes x = N.of_nat (length terms + length l) ->
  length slm = length (x_ids x) ->
  incr slm -> Forall (fun v => v < level_max) slm ->
  twf_dag slm terms l ->
  N.of_nat (length terms) + 1 + N.of_nat (length l) <= isize_max ->
  N.of_nat (length slm) <= 4294967296 ->
  Forall (troot_ok terms l) (x_rootids x) ->
  tdd_import_whole false slm (tdd_export_whole x (tterm_nodes terms ++ map tainner l))
  = TOk (header_of x, tstate slm terms l (length l), map (tsref terms) (x_rootids x)).
Proof.
  intros Hx Ha Hn Hs Hi Hm Hwf L1 L2 Hr. unfold tdd_import_whole, tdd_export_whole.
  rewrite (load_print_header x _ Hx).
  change (h_ids (header_of x)) with (x_ids x). rewrite (proj2 (Nat.eqb_eq _ _) Hs). cbn [negb].
  change (h_ascii (header_of x)) with (x_ascii x). rewrite Ha. cbn [negb].
  unfold tdd_import_body, tdd_import_file.
  change (h_nnodes (header_of x)) with (x_nnodes x). rewrite Hn.
  change (h_rootids (header_of x)) with (x_rootids x).
  change (varinfo_none (h_varinfo (header_of x))) with true.
  rewrite (tdd_import_export_nodes slm terms l) by assumption. cbn [bind].
  change (reads_end end_line) with true. cbn [negb].
  rewrite tdd_import_roots_tstate by assumption. reflexivity.
Qed.

(** ... and the reader of the code rejects every such file that contains a node *)
Theorem tdd_strict_rejects_whole x slm terms l :
  xwf x -> x_ascii x = true ->
  x_nnodes x = N.of_nat (length terms + length l) -> (length terms + length l <> 0)%nat ->
  length slm = length (x_ids x) ->
  twf_dag slm terms l ->
  tdd_import_whole true slm (tdd_export_whole x (tterm_nodes terms ++ map tainner l)) = TBody EArity.
Proof.
  intros Hx Ha Hn Hne Hs Hwf. unfold tdd_import_whole, tdd_export_whole.
  rewrite (load_print_header x _ Hx).
  change (h_ids (header_of x)) with (x_ids x). rewrite (proj2 (Nat.eqb_eq _ _) Hs). cbn [negb].
  change (h_ascii (header_of x)) with (x_ascii x). rewrite Ha. cbn [negb].
  unfold tdd_import_body, tdd_import_file.
  change (h_nnodes (header_of x)) with (x_nnodes x). rewrite Hn.
  change (varinfo_none (h_varinfo (header_of x))) with true.
  rewrite (tdd_strict_rejects_export slm terms l); [reflexivity|assumption|assumption|].
  pose proof (xw_nnodes x Hx) as Hl. rewrite Hn in Hl. lia.
Qed.

(** a binary-mode header is never followed by a ternary node section the importer could read *)
Theorem tdd_binary_rejected strict slm inp h rest :
  load_header inp = HOk (h, rest) -> length slm = length (h_ids h) -> h_ascii h = false ->
  tdd_import_whole strict slm inp = TBinary.
Proof.
  intros L Hs Ha. unfold tdd_import_whole. rewrite L, (proj2 (Nat.eqb_eq _ _) Hs), Ha. reflexivity.
Qed.
