(** * C15 (package C15t): the TDD reader on ARBITRARY bytes

    - no internal error: the reader never reaches a state in which the Rust code would index
      out of bounds ([nodes[child - 1]]) — for both variants of the arity check;
    - safety of acceptance: whatever is accepted is a well-formed ternary diagram (children
      before parents, levels strictly increasing along all three edges, levels from the
      support), one valid reference per node ID, valid roots, and every root denotes a
      well-defined three-valued function;
    - the reader of the code ([strict = true]) is a restriction of the decoder
      ([strict = false]): same result whenever it accepts;
    - [TDDRules::reduce] + unique table preserve the meaning. *)
From Coq Require Import List NArith ZArith Bool Arith Lia.
From OxiVerif Require Import IO.Dddmp IO.DddmpProofs IO.DddmpFile IO.DddmpFileProofs IO.DddmpFileSafety
  IO.DddmpFileNoPanic IO.DddmpTdd IO.DddmpTddProofs.
Import ListNotations.
Open Scope N_scope.

Arguments N.add : simpl never.
Arguments N.sub : simpl never.
Arguments N.mul : simpl never.
Arguments N.div : simpl never.
Arguments N.modulo : simpl never.
Arguments N.pow : simpl never.

(** ** well-formed ternary unique tables *)

Definition tref_in (s : list tnode) (r : tref) : Prop :=
  match r with TRTerm _ => True | TRNode i => (N.to_nat i < length s)%nat end.

Definition tref_below (i : nat) (r : tref) : Prop :=
  match r with TRTerm _ => True | TRNode j => (N.to_nat j < i)%nat end.

Definition tnode_ok (s : list tnode) (i : nat) (n : tnode) : Prop :=
  tref_below i (tn_t n) /\ tref_below i (tn_u n) /\ tref_below i (tn_e n) /\
  tn_level n < tref_level s (tn_t n) /\ tn_level n < tref_level s (tn_u n) /\ tn_level n < tref_level s (tn_e n).

(** children first (acyclic) and levels strictly increasing along edges *)
Definition tstore_wf (s : list tnode) : Prop :=
  forall i n, nth_error s i = Some n -> tnode_ok s i n.

Definition tlevels_in (slm : list N) (s : list tnode) : Prop :=
  Forall (fun n => In (tn_level n) slm) s.

Definition text (s s' : list tnode) : Prop := exists x, s' = s ++ x.

Lemma text_refl s : text s s.
Proof. exists []. now rewrite app_nil_r. Qed.

Lemma text_trans a b c : text a b -> text b c -> text a c.
Proof. intros [x ->] [y ->]. exists (x ++ y). now rewrite app_assoc. Qed.

Lemma text_snoc s n : text s (s ++ [n]).
Proof. now exists [n]. Qed.

Lemma tref_in_ext s s' r : text s s' -> tref_in s r -> tref_in s' r.
Proof. intros [x ->]. destruct r; cbn; [trivial|]. rewrite app_length. lia. Qed.

Lemma tref_level_ext s s' r : text s s' -> tref_in s r -> tref_level s' r = tref_level s r.
Proof.
  intros [x ->]. destruct r as [v|i]; cbn; [reflexivity|]. intros H. rewrite nth_error_app1 by exact H. reflexivity.
Qed.

Lemma tref_below_in s i r : (i <= length s)%nat -> tref_below i r -> tref_in s r.
Proof. destruct r; cbn; [trivial|lia]. Qed.

Lemma tref_below_mono i j r : (i <= j)%nat -> tref_below i r -> tref_below j r.
Proof. destruct r; cbn; [trivial|lia]. Qed.

Lemma tstore_wf_nil : tstore_wf [].
Proof. intros [|i] n H; discriminate. Qed.

Lemma tstore_wf_snoc s n :
  tstore_wf s -> tref_in s (tn_t n) -> tref_in s (tn_u n) -> tref_in s (tn_e n) ->
  tn_level n < tref_level s (tn_t n) -> tn_level n < tref_level s (tn_u n) -> tn_level n < tref_level s (tn_e n) ->
  tstore_wf (s ++ [n]).
Proof.
  intros Hwf It Iu Ie Lt Lu Le i m Hi.
  destruct (Nat.lt_ge_cases i (length s)) as [Hlt|Hge].
  - rewrite nth_error_app1 in Hi by exact Hlt.
    destruct (Hwf i m Hi) as (R1 & R2 & R3 & L1 & L2 & L3).
    assert (I1 : tref_in s (tn_t m)) by (eapply tref_below_in; [|exact R1]; lia).
    assert (I2 : tref_in s (tn_u m)) by (eapply tref_below_in; [|exact R2]; lia).
    assert (I3 : tref_in s (tn_e m)) by (eapply tref_below_in; [|exact R3]; lia).
    unfold tnode_ok. rewrite !(tref_level_ext s (s ++ [n])) by (auto using text_snoc). splits; assumption.
  - rewrite nth_error_app2 in Hi by exact Hge.
    destruct (i - length s)%nat as [|d] eqn:E; [|destruct d; discriminate].
    cbn in Hi. inversion Hi; subst m. assert (i = length s) by lia. subst i.
    unfold tnode_ok. rewrite !(tref_level_ext s (s ++ [n])) by (auto using text_snoc).
    splits; assumption.
Qed.

Lemma tdd_find_or_add_spec s n s' r :
  tdd_find_or_add s n = (s', r) ->
  exists i, r = TRNode i /\ nth_error s' (N.to_nat i) = Some n /\ (s' = s \/ s' = s ++ [n]).
Proof.
  unfold tdd_find_or_add. destruct (find_index (tnode_eqb n) s 0) as [k|] eqn:E; intros H; inversion H; subst.
  - destruct (find_index_some _ _ _ _ E) as (x & Hx & Hp & _).
    rewrite N.sub_0_r in Hx. apply tnode_eqb_eq in Hp. subst x.
    exists k. splits; [exact Hx|left; reflexivity].
  - exists (N.of_nat (length s)). rewrite Nat2N.id. splits.
    + rewrite nth_error_app2 by lia. rewrite Nat.sub_diag. reflexivity.
    + right; reflexivity.
Qed.

(** [TDDRules::reduce] + [then_insert]: the table stays well-formed, the result is a valid
    reference whose level is not above [level] *)
Lemma tdd_mk_node_wf slm s level t u e s' r :
  tstore_wf s -> tlevels_in slm s -> In level slm ->
  tref_in s t -> tref_in s u -> tref_in s e ->
  level < tref_level s t -> level < tref_level s u -> level < tref_level s e ->
  tdd_mk_node s level t u e = (s', r) ->
  tstore_wf s' /\ tlevels_in slm s' /\ text s s' /\ tref_in s' r /\ level <= tref_level s' r.
Proof.
  intros Hwf Hl Hin It Iu Ie Lt Lu Le H. unfold tdd_mk_node in H.
  destruct (tref_eqb t u && tref_eqb u e).
  - inversion H; subst. splits; try assumption; [apply text_refl|lia].
  - destruct (tdd_find_or_add_spec _ _ _ _ H) as (i & -> & Hnth & [->| ->]).
    + splits; try assumption; [apply text_refl| |].
      * cbn. apply nth_error_Some. congruence.
      * cbn. rewrite Hnth. cbn. lia.
    + splits.
      * apply tstore_wf_snoc; assumption.
      * apply Forall_app. split; [exact Hl|]. constructor; [exact Hin|constructor].
      * apply text_snoc.
      * cbn. apply nth_error_Some. congruence.
      * cbn. rewrite Hnth. cbn. lia.
Qed.

(** ** the invariant of the node loop *)

Record tst_ok (slm : list N) (st : tst) (node_id : N) : Prop := {
  tk_store : tstore_wf (ts_store st);
  tk_levels : tlevels_in slm (ts_store st);
  tk_nodes : Forall (tref_in (ts_store st)) (ts_nodes st);
  tk_id : N.of_nat (length (ts_nodes st)) + 1 = node_id
}.

Lemma tst_ok_empty slm : tst_ok slm tdd_empty 1.
Proof. split; [apply tstore_wf_nil|constructor|constructor|reflexivity]. Qed.

Lemma tst_ok_push slm st node_id s' r :
  tst_ok slm st node_id -> tstore_wf s' -> tlevels_in slm s' -> text (ts_store st) s' -> tref_in s' r ->
  tst_ok slm (mkTS s' (ts_nodes st ++ [r])) (node_id + 1).
Proof.
  intros [_ _ Hn Hid] W L X R. split; cbn; try assumption.
  - apply Forall_app. split; [|constructor; [exact R|constructor]].
    eapply Forall_impl; [|exact Hn]. intros a. apply tref_in_ext. exact X.
  - rewrite app_length. cbn. lia.
Qed.

Lemma tdd_child_check_ok slm st node_id level child :
  tst_ok slm st node_id -> child <> 0%Z ->
  tdd_child_check st node_id level child <> Err EInternal /\
  forall r, tdd_child_check st node_id level child = Ok r ->
    tref_in (ts_store st) r /\ level < tref_level (ts_store st) r.
Proof.
  intros Hok Hc. unfold tdd_child_check, tnode_at. pose proof (tk_id _ _ _ Hok) as Hid.
  destruct (N.leb_spec node_id (Z.abs_N child)); [split; discriminate|].
  destruct (nth_error (ts_nodes st) (N.to_nat (Z.abs_N child - 1))) as [x|] eqn:E.
  - cbn [bind]. destruct (N.leb_spec (tref_level (ts_store st) x) level); [split; discriminate|].
    split; [discriminate|]. intros r Hr. inversion Hr; subst. split; [|assumption].
    pose proof (tk_nodes _ _ _ Hok) as Hn. rewrite Forall_forall in Hn. apply Hn. eapply nth_error_In. exact E.
  - exfalso. apply nth_error_None in E. lia.
Qed.

Lemma tdd_child_edge_spec r child :
  tdd_child_edge r child <> Err EInternal /\ forall r', tdd_child_edge r child = Ok r' -> r' = r.
Proof.
  unfold tdd_child_edge, tdd_complement. destruct (child <? 0)%Z; split; try discriminate.
  intros r' H. inversion H. reflexivity.
Qed.

Lemma existsb_zero_false : forall cs, existsb (Z.eqb 0) cs = false -> Forall (fun c => c <> 0%Z) cs.
Proof.
  induction cs as [|c cs IH]; cbn [existsb]; intros H; [constructor|].
  apply orb_false_iff in H. destruct H as [H1 H2]. constructor; [|apply IH; exact H2].
  intros ->. discriminate.
Qed.

Lemma tdd_parse_terminal_term tok r : tdd_parse_terminal tok = Some r -> exists v, r = TRTerm v.
Proof.
  unfold tdd_parse_terminal.
  destruct (one_of tok false_lits); [intros H; inversion H; eauto|].
  destruct (one_of tok unknown_lits); [intros H; inversion H; eauto|].
  destruct (one_of tok true_lits); [intros H; inversion H; eauto|discriminate].
Qed.

Definition ni_and {A} (r : res A) (P : A -> Prop) : Prop := r <> Err EInternal /\ forall a, r = Ok a -> P a.

Lemma ni_and_bind {A B} (r : res A) (f : A -> res B) (P : B -> Prop) :
  r <> Err EInternal -> (forall a, r = Ok a -> ni_and (f a) P) -> ni_and (bind r f) P.
Proof.
  intros Hr Hf. destruct r as [a|e]; cbn [bind].
  - apply Hf. reflexivity.
  - split; [intros E; apply Hr; inversion E; reflexivity|discriminate].
Qed.

Lemma ni_and_err {A} e (P : A -> Prop) : e <> EInternal -> ni_and (Err e) P.
Proof. intros H. split; [intros E; inversion E; contradiction|discriminate]. Qed.

Lemma ni_and_ok {A} (a : A) (P : A -> Prop) : P a -> ni_and (Ok a) P.
Proof. intros H. split; [discriminate|]. intros a' E. inversion E; subst. exact H. Qed.

(** one line: no internal error; an accepted line keeps the invariant and extends the table *)
Lemma tdd_import_line_ok strict vin slm st node_id line :
  tst_ok slm st node_id ->
  ni_and (tdd_import_line strict vin slm st node_id line)
         (fun st' => tst_ok slm st' (node_id + 1) /\ text (ts_store st) (ts_store st')).
Proof.
  intros Hok. unfold tdd_import_line.
  apply ni_and_bind; [apply (parse_unsigned_go_ni usize_limit line 0 false)|]. intros [rest nid] _.
  destruct (negb (nid =? node_id)); [apply ni_and_err; discriminate|].
  apply ni_and_bind.
  { destruct vin; [discriminate|destruct (split_sp (trim_start rest)) as [[? ?]|]; discriminate]. }
  intros rest1 _.
  destruct (split_sp (trim_start rest1)) as [[var_tok rest2]|]; [|apply ni_and_err; discriminate].
  apply ni_and_bind; [apply (parse_edge_list_go_ni rest2 0 false false [])|]. intros children _.
  destruct (strict && negb (Nat.eqb (length children) 3)); [apply ni_and_err; discriminate|].
  destruct (existsb (Z.eqb 0) children) eqn:Ez.
  - destruct (tdd_parse_terminal var_tok) as [r|] eqn:Et; [|apply ni_and_err; discriminate].
    apply ni_and_ok. destruct (tdd_parse_terminal_term _ _ Et) as [v ->]. split; [|apply text_refl].
    apply (tst_ok_push slm st node_id (ts_store st)); try apply Hok; [apply text_refl|exact I].
  - apply existsb_zero_false in Ez.
    destruct children as [|c1 [|c2 [|c3 [|c4 cs]]]]; try (apply ni_and_err; discriminate).
    inversion Ez as [|? ? Hc1 Ez1]; subst. inversion Ez1 as [|? ? Hc2 Ez2]; subst. inversion Ez2 as [|? ? Hc3 _]; subst.
    apply ni_and_bind; [apply (parse_unsigned_go_ni 4294967296 var_tok 0 false)|]. intros [r0 var_id] _.
    destruct (nth_error slm (N.to_nat var_id)) as [level|] eqn:El; [|apply ni_and_err; discriminate].
    destruct (tdd_child_check_ok slm st node_id level c1 Hok Hc1) as [N1 I1].
    apply ni_and_bind; [exact N1|]. intros r1 E1. destruct (I1 _ E1) as [In1 L1].
    destruct (tdd_child_check_ok slm st node_id level c2 Hok Hc2) as [N2 I2].
    apply ni_and_bind; [exact N2|]. intros r2 E2. destruct (I2 _ E2) as [In2 L2].
    destruct (tdd_child_check_ok slm st node_id level c3 Hok Hc3) as [N3 I3].
    apply ni_and_bind; [exact N3|]. intros r3 E3. destruct (I3 _ E3) as [In3 L3].
    destruct (tdd_child_edge_spec r1 c1) as [Na Ea]. apply ni_and_bind; [exact Na|]. intros r1' E1'. rewrite (Ea _ E1').
    destruct (tdd_child_edge_spec r2 c2) as [Nb Eb]. apply ni_and_bind; [exact Nb|]. intros r2' E2'. rewrite (Eb _ E2').
    destruct (tdd_child_edge_spec r3 c3) as [Nc Ec]. apply ni_and_bind; [exact Nc|]. intros r3' E3'. rewrite (Ec _ E3').
    destruct (tdd_mk_node (ts_store st) level r1 r2 r3) as [s3 r] eqn:M.
    destruct (tdd_mk_node_wf slm _ level r1 r2 r3 s3 r (tk_store _ _ _ Hok) (tk_levels _ _ _ Hok)
                (nth_error_In _ _ El) In1 In2 In3 L1 L2 L3 M) as (W & L & X & Ir & _).
    apply ni_and_ok. split; [|exact X]. apply (tst_ok_push slm st node_id s3); assumption.
Qed.

Lemma read_line_ni inp : read_line inp <> Err EInternal.
Proof. unfold read_line. destruct inp; [discriminate|]. destruct (take_line (b :: inp)); discriminate. Qed.

Lemma tdd_import_loop_ok strict vin slm : forall n node_id st inp, tst_ok slm st node_id ->
  ni_and (tdd_import_loop strict vin slm n node_id st inp)
         (fun r => tst_ok slm (fst r) (node_id + N.of_nat n) /\ text (ts_store st) (ts_store (fst r)) /\
                   (length (snd r) + n <= length inp)%nat).
Proof.
  induction n as [|n IH]; intros node_id st inp Hok; cbn [tdd_import_loop].
  - apply ni_and_ok. cbn [fst snd]. rewrite N.add_0_r. splits; [exact Hok|apply text_refl|lia].
  - apply ni_and_bind; [apply read_line_ni|]. intros [line inp1] R. apply read_line_shorter in R.
    destruct (tdd_import_line_ok strict vin slm st node_id line Hok) as [Hn Hs].
    apply ni_and_bind; [exact Hn|]. intros st1 E1. destruct (Hs _ E1) as [Hok1 X1].
    destruct (IH (node_id + 1) st1 inp1 Hok1) as [Hn' Hs']. split; [exact Hn'|].
    intros [st' inp'] H. destruct (Hs' _ H) as (A & B & C). cbn [fst snd] in *.
    replace (node_id + N.of_nat (S n)) with (node_id + 1 + N.of_nat n) by lia.
    splits; [exact A|eapply text_trans; eassumption|lia].
Qed.

Lemma tdd_import_roots_ok slm st node_id : tst_ok slm st node_id -> forall rootids,
  ni_and (tdd_import_roots st rootids)
         (fun roots => Forall (tref_in (ts_store st)) roots /\ length roots = length rootids /\
                       Forall (fun r => (0 < r)%Z /\ Z.abs_N r + 1 <= node_id) rootids).
Proof.
  intros Hok. induction rootids as [|r rs IH]; cbn [tdd_import_roots].
  - apply ni_and_ok. splits; constructor.
  - destruct (Z.eqb_spec r 0); [apply ni_and_err; discriminate|].
    destruct (nth_error (ts_nodes st) (N.to_nat (Z.abs_N r - 1))) as [e|] eqn:E; cbn [bind]; [|apply ni_and_err; discriminate].
    unfold tdd_complement. destruct (Z.ltb_spec r 0); cbn [bind]; [apply ni_and_err; discriminate|].
    destruct IH as [IH1 IH2]. apply ni_and_bind; [exact IH1|]. intros es Ees. destruct (IH2 _ Ees) as (F & L & R).
    apply ni_and_ok. splits.
    + constructor; [|exact F]. pose proof (tk_nodes _ _ _ Hok) as Hn. rewrite Forall_forall in Hn.
      apply Hn. eapply nth_error_In. exact E.
    + cbn. lia.
    + constructor; [|exact R]. split; [lia|].
      assert ((N.to_nat (Z.abs_N r - 1) < length (ts_nodes st))%nat) by (apply nth_error_Some; congruence).
      pose proof (tk_id _ _ _ Hok). lia.
Qed.

(** ** NO INTERNAL ERROR + SAFETY OF ACCEPTANCE, node section + trailer + roots, arbitrary input *)
Theorem tdd_import_file_safe strict vin slm nnodes rootids inp :
  tdd_import_file strict vin slm nnodes rootids inp <> Err EInternal /\
  forall st roots, tdd_import_file strict vin slm nnodes rootids inp = Ok (st, roots) ->
    tstore_wf (ts_store st) /\ tlevels_in slm (ts_store st) /\
    Forall (tref_in (ts_store st)) (ts_nodes st) /\ length (ts_nodes st) = N.to_nat nnodes /\
    Forall (tref_in (ts_store st)) roots /\ length roots = length rootids /\
    Forall (fun r => (0 < r)%Z /\ Z.abs_N r <= nnodes) rootids /\
    (N.to_nat nnodes <= length inp)%nat.
Proof.
  unfold tdd_import_file, tdd_import_ascii.
  destruct (tdd_import_loop_ok strict vin slm (N.to_nat nnodes) 1 tdd_empty inp (tst_ok_empty slm)) as [A B].
  destruct (tdd_import_loop strict vin slm (N.to_nat nnodes) 1 tdd_empty inp) as [[st0 rest]|e]; cbn [bind].
  2:{ split; [intros E; apply A; inversion E; reflexivity|discriminate]. }
  destruct (B _ eq_refl) as (Hok & _ & Hlen). cbn [fst snd] in Hok, Hlen.
  destruct (negb (reads_end rest)); [split; discriminate|].
  destruct (tdd_import_roots_ok slm st0 _ Hok rootids) as [C D].
  destruct (tdd_import_roots st0 rootids) as [roots0|e]; cbn [bind].
  2:{ split; [intros E; apply C; inversion E; reflexivity|discriminate]. }
  split; [discriminate|]. intros st roots H. inversion H; subst.
  destruct (D _ eq_refl) as (F & L & R). pose proof (tk_id _ _ _ Hok) as Hid.
  splits; try apply Hok; try assumption; try lia.
  eapply Forall_impl; [|exact R]. cbn. intros r [H0 H1]. split; [exact H0|lia].
Qed.

(** NO PANIC for the whole TDD reader: on every input it accepts or returns one of the error
    values that stand for an [io::Error] (or for the precondition / the static restriction) *)
Theorem tdd_import_whole_no_internal strict slm inp :
  tdd_import_whole strict slm inp <> THdr HInternal /\ tdd_import_whole strict slm inp <> TBody EInternal.
Proof.
  unfold tdd_import_whole. pose proof (load_header_no_internal inp) as Hl.
  destruct (load_header inp) as [[h rest]|e].
  - destruct (negb (Nat.eqb (length slm) (length (h_ids h)))); [split; discriminate|].
    destruct (negb (h_ascii h)); [split; discriminate|].
    unfold tdd_import_body.
    destruct (tdd_import_file_safe strict (varinfo_none (h_varinfo h)) slm (h_nnodes h) (h_rootids h) rest) as [Hi _].
    destruct (tdd_import_file strict (varinfo_none (h_varinfo h)) slm (h_nnodes h) (h_rootids h) rest) as [[st roots]|e];
      split; try discriminate. intros E. apply Hi. inversion E. reflexivity.
  - split; [|discriminate]. intros E. apply Hl. inversion E. reflexivity.
Qed.

(** the short cut of the extracted reader: same acceptance, same result *)
Definition tres_equiv {A} (a b : tres A) : Prop :=
  match a, b with
  | TOk x, TOk y => x = y
  | THdr _, THdr _ | TPre, TPre | TBinary, TBinary | TBody _, TBody _ => True
  | _, _ => False
  end.

Theorem tdd_import_whole_guarded_equiv strict slm inp :
  tres_equiv (tdd_import_whole strict slm inp) (tdd_import_whole_guarded strict slm inp).
Proof.
  unfold tdd_import_whole, tdd_import_whole_guarded. destruct (load_header inp) as [[h rest]|e]; [|exact I].
  destruct (negb (Nat.eqb (length slm) (length (h_ids h)))); [exact I|].
  destruct (negb (h_ascii h)); [exact I|].
  destruct (N.ltb_spec (N.of_nat (length rest)) (h_nnodes h)) as [Hlt|Hge].
  - unfold tdd_import_body.
    destruct (tdd_import_file_safe strict (varinfo_none (h_varinfo h)) slm (h_nnodes h) (h_rootids h) rest) as [_ Hs].
    destruct (tdd_import_file strict (varinfo_none (h_varinfo h)) slm (h_nnodes h) (h_rootids h) rest)
      as [[st roots]|]; [|exact I].
    exfalso. destruct (Hs _ _ eq_refl) as (_ & _ & _ & _ & _ & _ & _ & Hn). lia.
  - unfold tdd_import_body. destruct (tdd_import_file _ _ _ _ _ _) as [[st roots]|]; [reflexivity|exact I].
Qed.

(** ** the reader of the code is a restriction of the decoder *)

Lemma tdd_strict_line vin slm st node_id line st' :
  tdd_import_line true vin slm st node_id line = Ok st' ->
  tdd_import_line false vin slm st node_id line = Ok st'.
Proof.
  unfold tdd_import_line.
  destruct (parse_usize line) as [[rest nid]|]; [|discriminate]. cbn [bind].
  destruct (negb (nid =? node_id)); [discriminate|].
  match goal with |- bind ?r _ = _ -> _ => destruct r as [rest1|]; [|discriminate] end. cbn [bind].
  destruct (split_sp (trim_start rest1)) as [[var_tok rest2]|]; [|discriminate].
  destruct (parse_edge_list rest2) as [children|]; [|discriminate]. cbn [bind andb].
  destruct (negb (Nat.eqb (length children) 3)); [discriminate|]. tauto.
Qed.

Lemma tdd_strict_loop vin slm : forall n node_id st inp r,
  tdd_import_loop true vin slm n node_id st inp = Ok r ->
  tdd_import_loop false vin slm n node_id st inp = Ok r.
Proof.
  induction n as [|n IH]; intros node_id st inp r; cbn [tdd_import_loop]; [tauto|].
  destruct (read_line inp) as [[line inp1]|]; [|discriminate]. cbn [bind].
  destruct (tdd_import_line true vin slm st node_id line) as [st1|] eqn:E; [|discriminate]. cbn [bind].
  rewrite (tdd_strict_line _ _ _ _ _ _ E). cbn [bind]. apply IH.
Qed.

Theorem tdd_strict_implies_lenient slm inp x :
  tdd_import_whole true slm inp = TOk x -> tdd_import_whole false slm inp = TOk x.
Proof.
  unfold tdd_import_whole. destruct (load_header inp) as [[h rest]|]; [|discriminate].
  destruct (negb (Nat.eqb (length slm) (length (h_ids h)))); [discriminate|].
  destruct (negb (h_ascii h)); [discriminate|].
  unfold tdd_import_body, tdd_import_file, tdd_import_ascii.
  destruct (tdd_import_loop true (varinfo_none (h_varinfo h)) slm (N.to_nat (h_nnodes h)) 1 tdd_empty rest)
    as [[st0 rest0]|] eqn:E; [|discriminate].
  rewrite (tdd_strict_loop _ _ _ _ _ _ _ E). tauto.
Qed.

(** ** semantics *)

Definition tsel (v : tterm) (t u e : tref) : tref :=
  match v with TTrue => t | TUnknown => u | TFalse => e end.

(** big-step three-valued evaluation (no fuel) *)
Inductive tdenotes (s : list tnode) (env : N -> tterm) : tref -> tterm -> Prop :=
| TDTerm v : tdenotes s env (TRTerm v) v
| TDNode i n v : nth_error s (N.to_nat i) = Some n ->
    tdenotes s env (tsel (env (tn_level n)) (tn_t n) (tn_u n) (tn_e n)) v ->
    tdenotes s env (TRNode i) v.

Lemma tdenotes_det s env r v1 : tdenotes s env r v1 -> forall v2, tdenotes s env r v2 -> v1 = v2.
Proof.
  induction 1 as [v|i n v Hn Hd IH]; intros v2 H2; inversion H2; subst; [reflexivity|].
  assert (n0 = n) by congruence. subst n0. apply IH. assumption.
Qed.

Lemma tdd_eval_unfold s fuel env r :
  tdd_eval s fuel env r =
  match r with
  | TRTerm v => v
  | TRNode i =>
    match fuel with
    | O => TUnknown
    | S f => match nth_error s (N.to_nat i) with
             | None => TUnknown
             | Some n => tdd_eval s f env (tsel (env (tn_level n)) (tn_t n) (tn_u n) (tn_e n))
             end
    end
  end.
Proof. destruct fuel; destruct r; reflexivity. Qed.

Lemma tdd_eval_denotes s env : tstore_wf s ->
  forall b r fuel, tref_below b r -> (b <= length s)%nat -> (b < fuel)%nat ->
  tdenotes s env r (tdd_eval s fuel env r).
Proof.
  intros Hwf. induction b as [|b IH]; intros r fuel Hb Hbl Hf; rewrite tdd_eval_unfold.
  - destruct r as [v|i]; [constructor|]. cbn in Hb. lia.
  - destruct r as [v|i]; [constructor|]. cbn in Hb.
    destruct fuel as [|f]; [lia|].
    destruct (nth_error s (N.to_nat i)) as [n|] eqn:En.
    + destruct (Hwf _ _ En) as (R1 & R2 & R3 & _).
      eapply TDNode; [exact En|]. apply IH; [|lia|lia].
      destruct (env (tn_level n)); cbn [tsel]; (eapply tref_below_mono; [|eassumption]; lia).
    + exfalso. apply nth_error_None in En. lia.
Qed.

(** every valid reference of a well-formed table has exactly one value, and it is what the
    executable evaluation computes with every sufficient fuel (in particular [tdd_eval_root]) *)
Theorem tref_denotes s env r : tstore_wf s -> tref_in s r ->
  exists v, tdenotes s env r v /\ (forall v', tdenotes s env r v' -> v' = v) /\
            (forall fuel, (length s < fuel)%nat -> tdd_eval s fuel env r = v) /\
            tdd_eval_root s env r = v.
Proof.
  intros Hwf Hin. exists (tdd_eval s (S (length s)) env r).
  assert (Hb : tref_below (length s) r) by (destruct r; cbn in *; auto).
  assert (D : tdenotes s env r (tdd_eval s (S (length s)) env r)) by (eapply tdd_eval_denotes; eauto).
  splits.
  - exact D.
  - intros v' H'. eapply tdenotes_det; eassumption.
  - intros fuel Hf. eapply tdenotes_det; [|exact D]. eapply tdd_eval_denotes; eauto.
Qed.

(** the reference returned by [reduce(..).then_insert(..)] denotes
    "case x_level of true -> t | unknown -> u | false -> e" *)
Theorem tdd_mk_node_denotes s level t u e s' r :
  tdd_mk_node s level t u e = (s', r) ->
  forall env v, tdenotes s' env r v <-> tdenotes s' env (tsel (env level) t u e) v.
Proof.
  intros H env v. unfold tdd_mk_node in H.
  destruct (tref_eqb t u && tref_eqb u e) eqn:E.
  - apply andb_true_iff in E. destruct E as [E1 E2]. apply tref_eqb_eq in E1, E2. subst u e.
    inversion H; subst. destruct (env level); reflexivity.
  - destruct (tdd_find_or_add_spec _ _ _ _ H) as (i & -> & Hnth & _). split.
    + intros D. inversion D; subst. assert (n = mkTN level t u e) by congruence. subst n. assumption.
    + intros D. eapply TDNode; [exact Hnth|exact D].
Qed.

(** extending the table does not change the meaning of the references it already had *)
Lemma tdenotes_ext s s' env r v : text s s' -> tdenotes s env r v -> tdenotes s' env r v.
Proof.
  intros [x ->]. induction 1 as [v|i n v Hn Hd IH]; [constructor|].
  eapply TDNode; [|exact IH]. rewrite nth_error_app1; [exact Hn|]. apply nth_error_Some. congruence.
Qed.

(** ** SAFETY OF ACCEPTANCE for the whole file: "never builds a wrong diagram" *)
Theorem tdd_import_whole_safe strict slm inp h st roots :
  tdd_import_whole strict slm inp = TOk (h, st, roots) ->
  header_wf h /\ h_ascii h = true /\ length slm = length (h_ids h) /\
  tstore_wf (ts_store st) /\ tlevels_in slm (ts_store st) /\
  Forall (tref_in (ts_store st)) (ts_nodes st) /\ length (ts_nodes st) = N.to_nat (h_nnodes h) /\
  Forall (tref_in (ts_store st)) roots /\ length roots = length (h_rootids h) /\
  forall r, In r roots -> forall env,
    exists v, tdenotes (ts_store st) env r v /\ (forall v', tdenotes (ts_store st) env r v' -> v' = v) /\
              tdd_eval_root (ts_store st) env r = v.
Proof.
  unfold tdd_import_whole. destruct (load_header inp) as [[h0 rest]|e] eqn:L; [|discriminate].
  destruct (Nat.eqb_spec (length slm) (length (h_ids h0))) as [Hlen|]; cbn [negb]; [|discriminate].
  destruct (h_ascii h0) eqn:Ha; cbn [negb]; [|discriminate].
  unfold tdd_import_body.
  destruct (tdd_import_file_safe strict (varinfo_none (h_varinfo h0)) slm (h_nnodes h0) (h_rootids h0) rest) as [_ Hs].
  destruct (tdd_import_file strict (varinfo_none (h_varinfo h0)) slm (h_nnodes h0) (h_rootids h0) rest)
    as [[st0 roots0]|]; [|discriminate].
  intros H; inversion H; subst. clear H.
  destruct (load_header_wf _ _ _ L) as [Hwf _].
  destruct (Hs _ _ eq_refl) as (W & Lv & Fn & Ln & Fr & Lr & _ & _).
  splits; try assumption.
  intros r Hr env. rewrite Forall_forall in Fr.
  destruct (tref_denotes (ts_store st) env r W (Fr _ Hr)) as (v & D & U & _ & E).
  exists v. splits; assumption.
Qed.
