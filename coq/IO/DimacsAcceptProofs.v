(** * C18q proofs, part 9: the circuit of every accepted DIMACS file

    [parse_dimacs_topo]: for every accepted file (CNF or a SAT format, any options) gate [k] only
    refers to input variables below the number of variables and to gates with a SMALLER number,
    and the root is in range -- so the circuit is closed, topologically ordered and acyclic. *)
From Coq Require Import List NArith ZArith Bool Arith Lia Relations.
From OxiVerif Require Import IO.AigerParse IO.AigerLexProofs IO.AigerSecProofs IO.AigerTotalProofs
  IO.DimacsParse IO.DimacsProofs IO.TreeParse IO.TreeProofs IO.GateAcyclicProofs IO.PreambleProofs
  IO.DimacsSatParse IO.DimacsSatProofs.
Import ListNotations.
Open Scope N_scope.

Arguments N.add : simpl never.
Arguments N.sub : simpl never.
Arguments N.mul : simpl never.
Arguments N.ltb : simpl never.
Arguments N.leb : simpl never.
Arguments N.eqb : simpl never.
Arguments N.of_nat : simpl never.
Arguments N.to_nat : simpl never.

(** a literal over [nv] inputs and the gates below [ng] *)
Definition lit_in (nv ng : N) (l : alit) : Prop :=
  match l with
  | ALConst _ => True
  | ALIn _ k => k < nv
  | ALGate _ g => g < ng
  | ALUndef _ => False
  end.

(** gate [k] reads inputs below [nv] and gates below [k] *)
Definition gates_topo (nv : N) (gs : list dgate) : Prop :=
  forall k x l, nth_error gs k = Some x -> In l (snd x) -> lit_in nv (N.of_nat k) l.

Lemma lit_in_mono nv a b l : lit_in nv a l -> a <= b -> lit_in nv b l.
Proof. destruct l; cbn; try tauto. lia. Qed.

Lemma lit_in_not nv ng l : lit_in nv ng l -> lit_in nv ng (alit_not l).
Proof. destruct l; cbn; tauto. Qed.

Lemma gates_topo_nil nv : gates_topo nv [].
Proof. intros k x l H. destruct k; discriminate. Qed.

Lemma gates_topo_snoc nv gs g : gates_topo nv gs -> Forall (lit_in nv (lenN gs)) (snd g) ->
  gates_topo nv (gs ++ [g]).
Proof.
  intros Ht Hg k x l Hk Hl. destruct (Nat.lt_ge_cases k (length gs)) as [Hlt|Hge].
  - rewrite nth_error_app1 in Hk by exact Hlt. eapply Ht; eassumption.
  - rewrite nth_error_app2 in Hk by exact Hge. destruct (k - length gs)%nat as [|j] eqn:E.
    + cbn in Hk. inversion Hk; subst x. rewrite Forall_forall in Hg. specialize (Hg l Hl).
      eapply lit_in_mono; [exact Hg|]. unfold lenN. lia.
    + destruct j; discriminate.
Qed.

Lemma gates_topo_topo_g nv gs : gates_topo nv gs -> topo_g gs.
Proof. intros H k x s h Hk Hl. specialize (H k x _ Hk Hl). cbn in H. lia. Qed.

(* ------------------------------------------------------------------ *)
(** ** SAT formats *)

Lemma sat_lex_var_range nv bs n r : sat_lex nv bs = LTok (SVarT n) r -> n <> 0 /\ n <= nv.
Proof.
  unfold sat_lex. destruct (multispace0 bs) as [|b m]; [discriminate|].
  destruct (p_u64 (b :: m)) as [[v r']| |].
  - destruct (N.eqb_spec v 0) as [|Hv0]; [discriminate|]. cbn [orb].
    destruct (N.ltb_spec nv v) as [|Hvle]; [discriminate|].
    intros E; inversion E; subst. split; assumption.
  - cbn [starts_with tl].
    destruct (b =? 40); [discriminate|]. destruct (b =? 41); [discriminate|]. destruct (b =? 45); [discriminate|].
    destruct (b =? 42); [discriminate|]. destruct (b =? 43); [discriminate|].
    destruct (strip_prefix [120; 111; 114] (b :: m)) as [r'|]; [destruct (word_end r'); discriminate|].
    destruct (b =? 61); discriminate.
  - cbn [starts_with tl].
    destruct (b =? 40); [discriminate|]. destruct (b =? 41); [discriminate|]. destruct (b =? 45); [discriminate|].
    destruct (b =? 42); [discriminate|]. destruct (b =? 43); [discriminate|].
    destruct (strip_prefix [120; 111; 114] (b :: m)) as [r'|]; [destruct (word_end r'); discriminate|].
    destruct (b =? 61); discriminate.
Qed.

Lemma sat_combine_topo nv op ch gs l gs' : sat_combine op ch gs = (l, gs') ->
  gates_topo nv gs -> Forall (lit_in nv (lenN gs)) ch ->
  (exists ext, gs' = gs ++ ext) /\ gates_topo nv gs' /\ lit_in nv (lenN gs') l.
Proof.
  intros H Ht Hch. unfold sat_combine in H. destruct ch as [|c [|c2 ch']].
  - inversion H; subst. split; [exists []; rewrite app_nil_r; reflexivity|]. split; [exact Ht|exact I].
  - inversion H; subst. split; [exists []; rewrite app_nil_r; reflexivity|]. split; [exact Ht|].
    inversion Hch; assumption.
  - set (k := match op with OpAnd => DAnd | OpOr => DOr | _ => DXor end) in *.
    set (e := N.even (lenN (c :: c2 :: ch'))) in *. clearbody e.
    injection H as Hl Hgs. subst gs'. split; [eexists; reflexivity|]. split.
    + apply gates_topo_snoc; [exact Ht|exact Hch].
    + rewrite lenN_app. change (lit_in nv (lenN gs + 1) l).
      subst l. destruct op; cbn [lit_in]; try lia.
      destruct e; cbn [alit_not lit_in negb]; lia.
Qed.

Definition f_inv (nv : N) (gs : list dgate) (x : fres) : Prop :=
  match x with
  | FOk l gs' _ => (exists ext, gs' = gs ++ ext) /\ gates_topo nv gs' /\ lit_in nv (lenN gs') l
  | _ => True
  end.
Definition l_inv (nv : N) (gs : list dgate) (x : flres) : Prop :=
  match x with
  | LOk ch gs' _ => (exists ext, gs' = gs ++ ext) /\ gates_topo nv gs' /\ Forall (lit_in nv (lenN gs')) ch
  | _ => True
  end.

Lemma formula_topo ax ae nv : forall f,
  (forall gs bs, gates_topo nv gs -> f_inv nv gs (formula f ax ae nv gs bs)) /\
  (forall gs acc bs, gates_topo nv gs -> Forall (lit_in nv (lenN gs)) acc ->
                     l_inv nv gs (formula_loop f ax ae nv gs acc bs)).
Proof.
  induction f as [|f [IHf IHl]]; [split; intros; exact I|]. split.
  - intros gs bs Ht. cbn [formula].
    assert (Hnary : forall op r,
              f_inv nv gs (match expect_tok true nv r with
                           | None => FErr
                           | Some r' =>
                             match formula_loop f ax ae nv gs [] r' with
                             | LOk children gates' r'' =>
                               let '(l, gates'') := sat_combine op children gates' in FOk l gates'' r''
                             | LErr => FErr
                             | LFuel => FFuel
                             end
                           end)).
    { intros op r. destruct (expect_tok true nv r) as [r'|]; [|exact I].
      specialize (IHl gs [] r' Ht (Forall_nil _)). unfold l_inv in IHl.
      destruct (formula_loop f ax ae nv gs [] r') as [ch g' r''| |]; try exact I.
      destruct IHl as ((ext & ->) & Ht' & Hch).
      destruct (sat_combine op ch (gs ++ ext)) as [l g''] eqn:Ec.
      destruct (sat_combine_topo nv _ _ _ _ _ Ec Ht' Hch) as ((ext2 & ->) & Ht2 & Hl).
      cbn. split; [exists (ext ++ ext2); rewrite app_assoc; reflexivity|]. split; assumption. }
    destruct (sat_lex nv bs) as [t r| |] eqn:El; try exact I.
    destruct t.
    + apply sat_lex_var_range in El. cbn. split; [exists []; rewrite app_nil_r; reflexivity|].
      split; [exact Ht|]. lia.
    + specialize (IHf gs r Ht). unfold f_inv in IHf.
      destruct (formula f ax ae nv gs r) as [l g r'|r'| |]; try exact I.
      destruct (expect_tok false nv r'); [exact IHf|exact I].
    + exact I.
    + destruct (sat_lex nv r) as [t2 r2| |] eqn:El2; try exact I.
      destruct t2; try exact I.
      * apply sat_lex_var_range in El2. cbn. split; [exists []; rewrite app_nil_r; reflexivity|].
        split; [exact Ht|]. lia.
      * specialize (IHf gs r2 Ht). unfold f_inv in IHf.
        destruct (formula f ax ae nv gs r2) as [l g r'|r'| |]; try exact I.
        destruct (expect_tok false nv r'); [|exact I].
        destruct IHf as (He & Ht' & Hl). cbn. split; [exact He|]. split; [exact Ht'|apply lit_in_not; exact Hl].
    + apply Hnary.
    + apply Hnary.
    + destruct ax; [apply Hnary|exact I].
    + destruct ae; [apply Hnary|exact I].
  - intros gs acc bs Ht Hacc. cbn [formula_loop].
    specialize (IHf gs bs Ht). unfold f_inv in IHf.
    destruct (formula f ax ae nv gs bs) as [l g r|r| |]; try exact I.
    + destruct IHf as ((ext & ->) & Ht' & Hl).
      assert (Hacc' : Forall (lit_in nv (lenN (gs ++ ext))) (l :: acc)).
      { constructor; [exact Hl|]. eapply Forall_impl; [|exact Hacc]. intros a Ha.
        eapply lit_in_mono; [exact Ha|]. rewrite lenN_app. lia. }
      specialize (IHl (gs ++ ext) (l :: acc) r Ht' Hacc'). unfold l_inv in *.
      destruct (formula_loop f ax ae nv (gs ++ ext) (l :: acc) r) as [ch g' r'| |]; try exact I.
      destruct IHl as ((ext2 & ->) & Ht2 & Hch). split; [exists (ext ++ ext2); rewrite app_assoc; reflexivity|].
      split; assumption.
    + cbn. split; [exists []; rewrite app_nil_r; reflexivity|]. split; [exact Ht|].
      apply Forall_rev. exact Hacc.
Qed.

(* ------------------------------------------------------------------ *)
(** ** CNF *)

Definition in_lit (nv : N) (l : alit) : Prop := match l with ALIn _ k => k < nv | _ => False end.

Lemma cnf_loop_lits nv : forall f done ck cur neg bs gates r,
  cnf_loop f nv done ck cur neg bs = POk (gates, r) ->
  Forall (fun g => Forall (in_lit nv) (snd g)) done -> Forall (in_lit nv) cur ->
  Forall (fun g => Forall (in_lit nv) (snd g)) gates.
Proof.
  induction f as [|f IH]; intros done ck cur neg bs gates r H Hd Hc; [discriminate|]. cbn [cnf_loop] in H.
  assert (Hfin : Forall (fun g : dgate => Forall (in_lit nv) (snd g)) ((ck, rev cur) :: done)).
  { constructor; [cbn [snd]; apply Forall_rev; exact Hc|exact Hd]. }
  destruct (lex bs) as [[[n| |] r0]|].
  - destruct (N.eqb_spec n 0).
    + eapply IH; [exact H|exact Hfin|constructor].
    + destruct (N.ltb_spec nv n); [discriminate|].
      eapply IH; [exact H|exact Hd|]. constructor; [cbn; lia|exact Hc].
  - destruct neg; [discriminate|]. eapply IH; eassumption.
  - destruct cur; [|discriminate]. eapply IH; eassumption.
  - injection H as Hg Hr. subst gates. apply Forall_app. split; [apply Forall_rev; exact Hd|].
    constructor; [cbn [snd]; apply Forall_rev; exact Hc|constructor].
Qed.

Lemma fix_count_sub gates nc gs : fix_count gates nc = Some gs -> incl gs gates.
Proof.
  unfold fix_count. destruct (lenN gates =? nc); [intros H; inversion H; subst; apply incl_refl|].
  destruct (lenN gates =? nc + 1); [|discriminate].
  destruct (rev gates) as [|[k [|? ?]] r] eqn:E; try discriminate. intros H; inversion H; subst.
  intros x Hx. apply in_rev. rewrite E. right. apply in_rev. exact Hx.
Qed.

(** [retain]: the gates kept are among the clause gates; the conjuncts are input literals or
    positive references to the kept gates, numbered from [g0] *)
Lemma retain_spec nv : forall gs g0 kept cj, retain gs g0 = Some (kept, cj) ->
  Forall (fun g => Forall (in_lit nv) (snd g)) gs ->
  Forall (fun g => Forall (in_lit nv) (snd g)) kept /\
  Forall (fun l => in_lit nv l \/ exists j, l = ALGate false j /\ g0 <= j < g0 + lenN kept) cj.
Proof.
  induction gs as [|[k ins] gs IH]; intros g0 kept cj H Hall; cbn [retain] in H.
  - inversion H; subst. split; constructor.
  - inversion Hall as [|? ? Hg Hgs]; subst. cbn [snd] in Hg.
    destruct ins as [|l [|l2 ins']]; [discriminate| |].
    + destruct (retain gs g0) as [[kept0 cj0]|] eqn:E; [|discriminate]. inversion H; subst.
      destruct (IH _ _ _ E Hgs) as [Hk Hc]. split; [exact Hk|]. constructor; [|exact Hc].
      left. inversion Hg; assumption.
    + destruct (retain gs (g0 + 1)) as [[kept0 cj0]|] eqn:E; [|discriminate]. inversion H; subst.
      destruct (IH _ _ _ E Hgs) as [Hk Hc]. split; [constructor; [exact Hg|exact Hk]|].
      constructor.
      * right. exists g0. split; [reflexivity|]. rewrite lenN_cons. lia.
      * eapply Forall_impl; [|exact Hc]. intros a [Ha|(j & -> & Hj)]; [left; exact Ha|right].
        exists j. split; [reflexivity|]. rewrite lenN_cons. lia.
Qed.

Lemma in_lit_lit_in nv ng l : in_lit nv l -> lit_in nv ng l.
Proof. destruct l; cbn; tauto. Qed.

Lemma input_gates_topo nv gs : Forall (fun g => Forall (in_lit nv) (snd g)) gs -> gates_topo nv gs.
Proof.
  intros H k x l Hk Hl. apply in_lit_lit_in. rewrite Forall_forall in H.
  specialize (H x (nth_error_In _ _ Hk)). rewrite Forall_forall in H. exact (H l Hl).
Qed.

(** [make_conj_tree] *)
Lemma conj_tree_topo nv cj : forall t gs l gs', conj_tree t cj gs = (l, gs') ->
  gates_topo nv gs -> Forall (lit_in nv (lenN gs)) cj ->
  (exists ext, gs' = gs ++ ext) /\ gates_topo nv gs' /\ lit_in nv (lenN gs') l.
Proof.
  induction t as [i|ch IH] using tree_ind2; intros gs l gs' H Ht Hcj.
  - cbn [conj_tree] in H. inversion H; subst. split; [exists []; rewrite app_nil_r; reflexivity|].
    split; [exact Ht|].
    destruct (Nat.lt_ge_cases (N.to_nat i) (length cj)) as [Hlt|Hge].
    + rewrite Forall_forall in Hcj. apply Hcj. apply nth_In. exact Hlt.
    + rewrite nth_overflow by exact Hge. exact I.
  - cbn [conj_tree] in H.
    set (go := fix go (l0 : list tree) (ls : list alit) (gs0 : list dgate) {struct l0} : list alit * list dgate :=
                 match l0 with
                 | [] => (ls, gs0)
                 | c :: r => let '(x, gs1) := conj_tree c cj gs0 in go r (ls ++ [x]) gs1
                 end) in *.
    assert (Hgo : forall ch0, Forall (fun t => forall gs l gs', conj_tree t cj gs = (l, gs') ->
                                   gates_topo nv gs -> Forall (lit_in nv (lenN gs)) cj ->
                                   (exists ext, gs' = gs ++ ext) /\ gates_topo nv gs' /\ lit_in nv (lenN gs') l) ch0 ->
              forall ls gs0 ls' gs1, go ch0 ls gs0 = (ls', gs1) ->
              gates_topo nv gs0 -> Forall (lit_in nv (lenN gs0)) cj -> Forall (lit_in nv (lenN gs0)) ls ->
              (exists ext, gs1 = gs0 ++ ext) /\ gates_topo nv gs1 /\ Forall (lit_in nv (lenN gs1)) ls').
    { induction ch0 as [|c ch0 IHc]; intros Hall ls gs0 ls' gs1 Hg Ht0 Hcj0 Hls.
      - cbn in Hg. inversion Hg; subst. split; [exists []; rewrite app_nil_r; reflexivity|]. split; assumption.
      - inversion Hall as [|? ? Hc Hrest]; subst. cbn [go] in Hg. fold go in Hg.
        destruct (conj_tree c cj gs0) as [x gsx] eqn:Ec.
        destruct (Hc _ _ _ Ec Ht0 Hcj0) as ((ext & ->) & Htx & Hx).
        assert (Hmono : forall L, Forall (lit_in nv (lenN gs0)) L -> Forall (lit_in nv (lenN (gs0 ++ ext))) L).
        { intros L HL. eapply Forall_impl; [|exact HL]. intros a Ha. eapply lit_in_mono; [exact Ha|].
          rewrite lenN_app. lia. }
        destruct (IHc Hrest _ _ _ _ Hg Htx (Hmono _ Hcj0)) as ((ext2 & ->) & Ht2 & Hl2).
        { apply Forall_app. split; [apply Hmono; exact Hls|constructor; [exact Hx|constructor]]. }
        split; [exists (ext ++ ext2); rewrite app_assoc; reflexivity|]. split; assumption. }
    destruct (go ch [] gs) as [lits gsl] eqn:Eg.
    destruct (Hgo ch IH [] gs lits gsl Eg Ht Hcj (Forall_nil _)) as ((ext & ->) & Htl & Hlits).
    inversion H; subst. split; [exists (ext ++ [(DAnd, lits)]); rewrite app_assoc; reflexivity|]. split.
    + apply gates_topo_snoc; [exact Htl|exact Hlits].
    + rewrite (lenN_app (gs ++ ext)). change (lit_in nv (lenN (gs ++ ext) + 1) (ALGate false (lenN (gs ++ ext)))).
      cbn [lit_in]. lia.
Qed.

(* ------------------------------------------------------------------ *)
(** ** The theorem *)

Theorem parse_dimacs_topo vo ct bs p : parse_dimacs vo ct bs = POk p ->
  gates_topo (vs_len (rp_vars p)) (rp_gates p) /\
  lit_in (vs_len (rp_vars p)) (lenN (rp_gates p)) (rp_root p) /\
  topo_g (rp_gates p) /\ acyclic_g (rp_gates p) = true /\
  forall g, ~ clos_trans nat (reads_g (rp_gates p)) g g.
Proof.
  intros H.
  assert (Hmain : gates_topo (vs_len (rp_vars p)) (rp_gates p) /\
                  lit_in (vs_len (rp_vars p)) (lenN (rp_gates p)) (rp_root p)).
  { unfold parse_dimacs in H.
    destruct (dimacs_preamble vo ct bs) as [[pre r]| |]; cbn [pbind] in H; try discriminate.
    destruct (pre_fmt pre).
    - unfold cnf_parse in H. set (nv := vs_len (pre_vars pre)) in *.
      destruct (cnf_loop (S (length r)) nv [] DOr [] false r) as [[gates r1]| |] eqn:El; cbn [pbind] in H; try discriminate.
      destruct (multispace0 r1); [|discriminate].
      pose proof (cnf_loop_lits nv _ _ _ _ _ _ _ _ El (Forall_nil _) (Forall_nil _)) as Hg.
      unfold cnf_finish in H. destruct (fix_count gates (pre_nclauses pre)) as [gs|] eqn:Ef; [|discriminate].
      assert (Hgs : Forall (fun g : dgate => Forall (in_lit nv) (snd g)) gs).
      { apply Forall_forall. intros x Hx. rewrite Forall_forall in Hg. apply Hg. eapply fix_count_sub; eassumption. }
      destruct gs as [|g0 gs']; [inversion H; subst; cbn; split; [apply gates_topo_nil|exact I]|].
      destruct (retain (g0 :: gs') 0) as [[kept cj]|] eqn:Er;
        [|inversion H; subst; cbn; split; [apply gates_topo_nil|exact I]].
      destruct (retain_spec nv _ _ _ _ Er Hgs) as [Hk Hc].
      assert (Hcj : Forall (lit_in nv (lenN kept)) cj).
      { eapply Forall_impl; [|exact Hc]. intros a [Ha|(j & -> & Hj)]; [apply in_lit_lit_in; exact Ha|cbn; lia]. }
      pose proof (input_gates_topo nv kept Hk) as Htk.
      destruct (pre_ctree pre) as [t|].
      + destruct (conj_tree t cj kept) as [root gs2] eqn:Ec. inversion H; subst. cbn [rp_vars rp_gates rp_root].
        destruct (conj_tree_topo nv cj t kept root gs2 Ec Htk Hcj) as (_ & Ht2 & Hr). split; assumption.
      + inversion H; subst. cbn [rp_vars rp_gates rp_root]. split.
        * apply gates_topo_snoc; [exact Htk|exact Hcj].
        * rewrite lenN_app. change (lit_in nv (lenN kept + 1) (ALGate false (lenN kept))). cbn [lit_in]. lia.
    - unfold sat_parse in H.
      pose proof (proj1 (formula_topo xor eq (vs_len (pre_vars pre)) (S (2 * length r))) [] r
                        (gates_topo_nil _)) as Hf. unfold f_inv in Hf.
      destruct (formula (S (2 * length r)) xor eq (vs_len (pre_vars pre)) [] r) as [l g r'|r'| |]; try discriminate.
      destruct (multispace0 r'); [|discriminate]. inversion H; subst. cbn [rp_vars rp_gates rp_root].
      destruct Hf as (_ & Ht & Hl). split; assumption. }
  destruct Hmain as [Ht Hr]. split; [exact Ht|]. split; [exact Hr|].
  pose proof (gates_topo_topo_g _ _ Ht) as Htg. split; [exact Htg|].
  split; [apply acyclic_g_topo; exact Htg|apply topo_g_no_cycle; exact Htg].
Qed.
