(** * Model of the DIMACS CNF reader (crates/oxidd-parser/src/dimacs.rs), options
      [var_order = false], [clause_tree = false]

    Executable Gallina only.  Mirrored Rust functions:
    - [skip_comments]  = [many0_count(util::comment)] (a comment starts with 'c' and
                         extends to the next '\n' inclusive, or to the end)
    - [p_fmt]          = [dimacs::format] ([word] around the match on cnf / satex / sate / satx / sat)
    - [problem_line]   = [dimacs::problem_line]
    - [multispace0] [lex] = nom [multispace0], [cnf::lex]
    - [cnf_loop]       = the token loop of [cnf::parse] (the gate under construction
                         is kept apart from the finished ones)
    - [retain]         = the closure passed to [Circuit::retain_gates] (empty clause ->
                         the formula is false, unit clause -> its literal, other
                         clauses keep their gate)
    - [parse_cnf]      = [dimacs::parse] for a [p cnf] file

    A SAT-format problem line ([sat], [satx], [sate], [satex]) is outside this
    model: the result is [DSat] and the driver compares nothing.

    Shares the lexical primitives and the literal type with IO/AigerParse.v. *)
From Coq Require Import List NArith Bool.
From OxiVerif Require Import IO.AigerParse.
Import ListNotations.
Open Scope N_scope.

Inductive dkind := DOr | DXor | DAnd.
Definition dgate := (dkind * list alit)%type.

(** [Problem { circuit, details: Root(root) }]: number of variables, gates, root *)
Record dproblem := mkDProblem { dp_nvars : N; dp_gates : list dgate; dp_root : alit }.

Inductive dres := DOk (p : dproblem) | DErr | DFuel | DSat.

(** [many0_count(util::comment)] *)
Fixpoint skip_comments (in_comment : bool) (bs : list N) : list N :=
  match bs with
  | [] => []
  | b :: r =>
    if in_comment then (if b =? 10 then skip_comments false r else skip_comments true r)
    else if b =? 99 then skip_comments true r
    else bs
  end.

(** [word]: the byte after the format name must not be alphanumeric *)
Definition word_end (r : list N) : bool :=
  match r with
  | d :: _ => negb (is_alnum d)
  | [] => true
  end.

(** [Some (true, rest)] = cnf, [Some (false, rest)] = one of the SAT formats *)
Definition p_fmt (bs : list N) : option (bool * list N) :=
  match bs with
  | 99 :: 110 :: 102 :: r => if word_end r then Some (true, r) else None
  | 115 :: 97 :: 116 :: r =>
    match r with
    | 101 :: 120 :: r' => if word_end r' then Some (false, r') else None
    | 101 :: r' => if word_end r' then Some (false, r') else None
    | 120 :: r' => if word_end r' then Some (false, r') else None
    | _ => if word_end r then Some (false, r) else None
    end
  | _ => None
  end.

(** the number of a problem line: [u64], at most MAX_CAPACITY *)
Definition p_count (bs : list N) : pres (N * list N) :=
  do '(v, r) <- p_u64 bs;
  if max_capacity <? v then PErr else POk (v, r).

Inductive pline := PLCnf (nvars nclauses : N) | PLSat.

Definition problem_line (bs : list N) : pres (pline * list N) :=
  match bs with
  | b :: r0 =>
    if b =? 112 then
      do r1 <- space1 r0;
      match p_fmt r1 with
      | None => PErr
      | Some (false, r2) => POk (PLSat, r2)
      | Some (true, r2) =>
        do r3 <- space1 r2;
        do '(nv, r4) <- p_count r3;
        do r5 <- space1 r4;
        do '(nc, r6) <- p_count r5;
        do r7 <- line_ending (space0 r6);
        POk (PLCnf nv nc, r7)
      end
    else PErr
  | [] => PErr
  end.

Fixpoint multispace0 (bs : list N) : list N :=
  match bs with
  | b :: r => if (b =? 32) || (b =? 9) || (b =? 13) || (b =? 10) then multispace0 r else bs
  | [] => []
  end.

Inductive dtok := TInt (n : N) | TNeg | TXor.

(** [cnf::lex]: a number, '-', or 'x' / 'X' after optional white space *)
Definition lex (bs : list N) : option (dtok * list N) :=
  let r := multispace0 bs in
  match p_u64 r with
  | POk (n, r') => Some (TInt n, r')
  | _ =>
    match r with
    | b :: r' =>
      if b =? 45 then Some (TNeg, r')
      else if (b =? 120) || (b =? 88) then Some (TXor, r')
      else None
    | [] => None
    end
  end.

(** the token loop; [done] are the finished gates (latest first), [ck] / [cur]
    kind and inputs (latest first) of the gate under construction.  Returns all
    gates in order and the input at the point where [lex] failed. *)
Fixpoint cnf_loop (fuel : nat) (nvars : N) (done : list dgate) (ck : dkind) (cur : list alit)
         (neg : bool) (bs : list N) : pres (list dgate * list N) :=
  match fuel with
  | O => PFuel
  | S f =>
    match lex bs with
    | None => POk (rev ((ck, rev cur) :: done), bs)
    | Some (TInt n, r) =>
      if n =? 0 then cnf_loop f nvars ((ck, rev cur) :: done) DOr [] neg r
      else if nvars <? n then PErr
      else cnf_loop f nvars done ck (ALIn neg (n - 1) :: cur) false r
    | Some (TNeg, r) => if neg then PErr else cnf_loop f nvars done ck cur true r
    | Some (TXor, r) =>
      match cur with
      | [] => cnf_loop f nvars done DXor cur neg r
      | _ => PErr
      end
    end
  end.

(** [retain_gates] closure: [None] = an empty clause was seen ([is_false]);
    otherwise the gates kept and the conjuncts *)
Fixpoint retain (gs : list dgate) (gate_no : N) : option (list dgate * list alit) :=
  match gs with
  | [] => Some ([], [])
  | (k, ins) :: r =>
    match ins with
    | [] => None
    | [l] =>
      match retain r gate_no with
      | Some (kept, cj) => Some (kept, l :: cj)
      | None => None
      end
    | _ =>
      match retain r (gate_no + 1) with
      | Some (kept, cj) => Some ((k, ins) :: kept, ALGate false gate_no :: cj)
      | None => None
      end
    end
  end.

(** drop the last gate if it has no inputs (a final "0" opened one clause too many) *)
Definition fix_count (gates : list dgate) (nclauses : N) : option (list dgate) :=
  if lenN gates =? nclauses then Some gates
  else if lenN gates =? nclauses + 1 then
    match rev gates with
    | (_, []) :: r => Some (rev r)
    | _ => None
    end
  else None.

Definition parse_cnf (bs : list N) : dres :=
  match problem_line (skip_comments false bs) with
  | PErr => DErr
  | PFuel => DFuel
  | POk (PLSat, _) => DSat
  | POk (PLCnf nvars nclauses, r0) =>
    match cnf_loop (S (length r0)) nvars [] DOr [] false r0 with
    | PErr => DErr
    | PFuel => DFuel
    | POk (gates, r1) =>
      match multispace0 r1 with
      | _ :: _ => DErr
      | [] =>
        match fix_count gates nclauses with
        | None => DErr
        | Some [] => DOk (mkDProblem nvars [] (ALConst true))
        | Some gates' =>
          match retain gates' 0 with
          | None => DOk (mkDProblem nvars [] (ALConst false))
          | Some (kept, cj) =>
            DOk (mkDProblem nvars (kept ++ [(DAnd, cj)]) (ALGate false (lenN kept)))
          end
        end
      end
    end
  end.

(** ** Printer (one clause per line; [true] marks an XOR clause) *)

Definition print_lit (l : bool * N) : list N :=
  (if fst l then [45] else []) ++ dec (snd l + 1) ++ sp.

Definition print_clause (c : bool * list (bool * N)) : list N :=
  (if fst c then [120; 32] else []) ++ flat_map print_lit (snd c) ++ [48; 10].

Definition print_cnf (nvars : N) (clauses : list (bool * list (bool * N))) : list N :=
  [112; 32; 99; 110; 102; 32] ++ dec nvars ++ sp ++ dec (lenN clauses) ++ nl
  ++ flat_map print_clause clauses.
