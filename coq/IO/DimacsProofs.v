(** * C18p: the model of the DIMACS CNF reader is total *)
From Coq Require Import List NArith ZArith Bool Arith Lia.
From OxiVerif Require Import IO.AigerParse IO.AigerTotalProofs IO.DimacsParse.
Import ListNotations.
Open Scope N_scope.

Arguments N.add : simpl never.
Arguments N.sub : simpl never.
Arguments N.mul : simpl never.
Arguments N.ltb : simpl never.
Arguments N.leb : simpl never.
Arguments N.eqb : simpl never.

Lemma multispace0_len : forall bs, (length (multispace0 bs) <= length bs)%nat.
Proof.
  induction bs as [|b r IH]; cbn; [lia|].
  destruct ((b =? 32) || (b =? 9) || (b =? 13) || (b =? 10)); cbn; lia.
Qed.

(** a token consumes at least one byte *)
Lemma lex_len bs t r : lex bs = Some (t, r) -> (length r < length bs)%nat.
Proof.
  unfold lex. pose proof (multispace0_len bs) as Hm.
  pose proof (p_u64_len (multispace0 bs)) as Hu. unfold strict in Hu.
  destruct (p_u64 (multispace0 bs)) as [[n r']| |].
  - intros H. inversion H; subst. lia.
  - destruct (multispace0 bs) as [|b r0]; [discriminate|]. cbn [length] in Hm.
    destruct (b =? 45); [intros H; inversion H; subst; lia|].
    destruct ((b =? 120) || (b =? 88)); [intros H; inversion H; subst; lia|discriminate].
  - contradiction.
Qed.

Lemma cnf_loop_nofuel nvars : forall f done ck cur neg bs, (length bs < f)%nat ->
  cnf_loop f nvars done ck cur neg bs <> PFuel.
Proof.
  induction f as [|f IH]; intros done ck cur neg bs Hf; [lia|]. cbn [cnf_loop].
  destruct (lex bs) as [[t r]|] eqn:E; [|discriminate].
  apply lex_len in E. destruct t as [n| |].
  - destruct (n =? 0); [apply IH; lia|]. destruct (nvars <? n); [discriminate|apply IH; lia].
  - destruct neg; [discriminate|apply IH; lia].
  - destruct cur; [apply IH; lia|discriminate].
Qed.

Lemma p_count_nofuel bs : p_count bs <> PFuel.
Proof.
  unfold p_count. pose proof (p_u64_len bs) as H. unfold strict in H.
  destruct (p_u64 bs) as [[v r]| |]; cbn [pbind]; try discriminate; [|contradiction].
  destruct (max_capacity <? v); discriminate.
Qed.

Lemma problem_line_nofuel bs : problem_line bs <> PFuel.
Proof.
  unfold problem_line. destruct bs as [|b r0]; [discriminate|]. destruct (b =? 112); [|discriminate].
  pose proof (space1_len r0) as H1. unfold strict0 in H1.
  destruct (space1 r0) as [r1| |]; cbn [pbind]; try discriminate; [|contradiction].
  destruct (p_fmt r1) as [[[|] r2]|]; try discriminate.
  pose proof (space1_len r2) as H2. unfold strict0 in H2.
  destruct (space1 r2) as [r3| |]; cbn [pbind]; try discriminate; [|contradiction].
  pose proof (p_count_nofuel r3) as H3.
  destruct (p_count r3) as [[nv r4]| |]; cbn [pbind]; try discriminate; [|contradiction].
  pose proof (space1_len r4) as H4. unfold strict0 in H4.
  destruct (space1 r4) as [r5| |]; cbn [pbind]; try discriminate; [|contradiction].
  pose proof (p_count_nofuel r5) as H5.
  destruct (p_count r5) as [[nc r6]| |]; cbn [pbind]; try discriminate; [|contradiction].
  pose proof (line_ending_len (space0 r6)) as H6. unfold strict0 in H6.
  destruct (line_ending (space0 r6)) as [r7| |]; cbn [pbind]; try discriminate. contradiction.
Qed.

(** the model of the CNF reader returns a problem, a diagnostic, or "SAT format"
    for every byte string *)
Theorem parse_cnf_total bs : parse_cnf bs <> DFuel.
Proof.
  unfold parse_cnf.
  pose proof (problem_line_nofuel (skip_comments false bs)) as H0.
  destruct (problem_line (skip_comments false bs)) as [[[nv nc|] r0]| |]; try discriminate; [|contradiction].
  pose proof (cnf_loop_nofuel nv (S (length r0)) [] DOr [] false r0 (Nat.lt_succ_diag_r _)) as H1.
  destruct (cnf_loop (S (length r0)) nv [] DOr [] false r0) as [[gates r1]| |]; try discriminate; [|contradiction].
  destruct (multispace0 r1); [|discriminate].
  destruct (fix_count gates nc) as [[|g gs]|]; try discriminate.
  destruct (retain (g :: gs) 0) as [[kept cj]|]; discriminate.
Qed.

(* ------------------------------------------------------------------ *)
(** ** Round trip: a printed CNF is read back as the problem [cnf::parse] builds *)

From OxiVerif Require Import IO.AigerLexProofs IO.AigerSecProofs.

Definition dlit_of (l : bool * N) : alit := ALIn (fst l) (snd l).
Definition gate_of (c : bool * list (bool * N)) : dgate :=
  (if fst c then DXor else DOr, map dlit_of (snd c)).

(** what [cnf::parse] makes of the clause gates *)
Definition result_of (nvars : N) (gs : list dgate) : dres :=
  match gs with
  | [] => DOk (mkDProblem nvars [] (ALConst true))
  | _ =>
    match retain gs 0 with
    | None => DOk (mkDProblem nvars [] (ALConst false))
    | Some (kept, cj) => DOk (mkDProblem nvars (kept ++ [(DAnd, cj)]) (ALGate false (lenN kept)))
    end
  end.

Definition cnf_ok (nvars : N) (clauses : list (bool * list (bool * N))) : Prop :=
  nvars <= max_capacity /\ lenN clauses <= max_capacity /\
  Forall (fun c => Forall (fun l : bool * N => snd l < nvars) (snd c)) clauses.

Lemma cnf_loop_mono nvars : forall f f' done ck cur neg bs x,
  cnf_loop f nvars done ck cur neg bs = POk x -> (f <= f')%nat ->
  cnf_loop f' nvars done ck cur neg bs = POk x.
Proof.
  induction f as [|f IH]; intros f' done ck cur neg bs x H Hle; [discriminate|].
  destruct f' as [|f']; [lia|]. cbn [cnf_loop] in *.
  destruct (lex bs) as [[[n| |] r]|]; [| | |exact H].
  - destruct (n =? 0); [apply (IH f'); [exact H|lia]|]. destruct (nvars <? n); [discriminate|].
    apply (IH f'); [exact H|lia].
  - destruct neg; [discriminate|]. apply (IH f'); [exact H|lia].
  - destruct cur; [|discriminate]. apply (IH f'); [exact H|lia].
Qed.

Lemma lex_sp X : lex (32 :: X) = lex X.
Proof. reflexivity. Qed.
Lemma lex_nl X : lex (10 :: X) = lex X.
Proof. reflexivity. Qed.

Lemma multispace0_dec n R : multispace0 (dec n ++ R) = dec n ++ R.
Proof.
  destruct (dec_head n) as (c & t & E & Hc). rewrite E. cbn [app multispace0].
  apply is_digit_range in Hc.
  destruct (N.eqb_spec c 32); [lia|]. destruct (N.eqb_spec c 9); [lia|].
  destruct (N.eqb_spec c 13); [lia|]. destruct (N.eqb_spec c 10); [lia|]. reflexivity.
Qed.

Lemma lex_int n R : n < two64 -> nodigit R -> lex (dec n ++ R) = Some (TInt n, R).
Proof.
  intros Hn HR. unfold lex. rewrite multispace0_dec, p_u64_dec by assumption. reflexivity.
Qed.

Lemma lex_neg R : lex (45 :: R) = Some (TNeg, R).
Proof. reflexivity. Qed.

Lemma lex_xor R : lex (120 :: R) = Some (TXor, R).
Proof. reflexivity. Qed.

(** the loop's result up to the white space left in front of the remaining input
    (the caller applies [multispace0] to it) *)
Definition fin (r : pres (list dgate * list N)) : pres (list dgate * list N) :=
  match r with POk (g, r1) => POk (g, multispace0 r1) | PErr => PErr | PFuel => PFuel end.

Lemma fin_mono nvars f f' done ck cur neg bs x :
  fin (cnf_loop f nvars done ck cur neg bs) = POk x -> (f <= f')%nat ->
  fin (cnf_loop f' nvars done ck cur neg bs) = POk x.
Proof.
  intros H Hle. destruct (cnf_loop f nvars done ck cur neg bs) as [y| |] eqn:E; try discriminate.
  rewrite (cnf_loop_mono nvars f f' _ _ _ _ _ _ E Hle). exact H.
Qed.

Lemma loop_ws nvars w R : (w = 32 \/ w = 10) -> forall f done ck cur neg,
  fin (cnf_loop f nvars done ck cur neg (w :: R)) = fin (cnf_loop f nvars done ck cur neg R).
Proof.
  intros Hw f done ck cur neg. destruct f as [|f]; [reflexivity|]. cbn [cnf_loop].
  assert (E : lex (w :: R) = lex R) by (destruct Hw; subst; reflexivity). rewrite E.
  destruct (lex R) as [[[n| |] r]|]; try reflexivity.
  cbn [fin]. f_equal. f_equal. destruct Hw; subst; reflexivity.
Qed.

Section Roundtrip.
  Variable nvars : N.
  Hypothesis Hcap : nvars <= max_capacity.

  (** one literal: one or two tokens *)
  Lemma loop_lit l done ck cur R f x : snd l < nvars ->
    fin (cnf_loop f nvars done ck (dlit_of l :: cur) false R) = POk x ->
    fin (cnf_loop (2 + f) nvars done ck cur false (print_lit l ++ R)) = POk x.
  Proof.
    intros Hl H. destruct l as [s v]. cbn [snd fst] in *. unfold print_lit. cbn [fst snd].
    assert (Hv : v + 1 < two64) by (unfold max_capacity, two64 in *; lia).
    assert (Step : forall neg g, fin (cnf_loop g nvars done ck (ALIn neg v :: cur) false R) = POk x ->
                                 fin (cnf_loop (S g) nvars done ck cur neg (dec (v + 1) ++ sp ++ R)) = POk x).
    { intros neg g Hg. cbn [cnf_loop]. rewrite lex_int by (try assumption; reflexivity).
      destruct (N.eqb_spec (v + 1) 0); [lia|]. destruct (N.ltb_spec nvars (v + 1)); [lia|].
      replace (v + 1 - 1) with v by lia. cbn [app sp]. rewrite loop_ws by (left; reflexivity). exact Hg. }
    destruct s.
    - cbn [app plus]. cbn [cnf_loop]. rewrite lex_neg. rewrite <- app_assoc. apply Step. exact H.
    - cbn [app]. rewrite <- app_assoc. eapply fin_mono; [apply Step; exact H|lia].
  Qed.

  Lemma loop_lits : forall lits done ck cur R f x,
    Forall (fun l : bool * N => snd l < nvars) lits ->
    fin (cnf_loop f nvars done ck (rev (map dlit_of lits) ++ cur) false R) = POk x ->
    fin (cnf_loop (2 * length lits + f) nvars done ck cur false (flat_map print_lit lits ++ R)) = POk x.
  Proof.
    induction lits as [|l lits IH]; intros done ck cur R f x Hok H; [exact H|].
    inversion Hok; subst. cbn [flat_map length]. rewrite <- app_assoc.
    replace (2 * S (length lits) + f)%nat with (2 + (2 * length lits + f))%nat by lia.
    apply loop_lit; [assumption|]. apply IH; [assumption|].
    cbn [map rev] in H. rewrite <- app_assoc in H. exact H.
  Qed.

  (** one clause *)
  Lemma loop_clause c done R f x :
    Forall (fun l : bool * N => snd l < nvars) (snd c) ->
    fin (cnf_loop f nvars (gate_of c :: done) DOr [] false R) = POk x ->
    fin (cnf_loop (2 + 2 * length (snd c) + f) nvars done DOr [] false (print_clause c ++ R)) = POk x.
  Proof.
    intros Hok H. destruct c as [xor lits]. cbn [fst snd] in *. unfold print_clause. cbn [fst snd].
    assert (Zero : forall ck g, fin (cnf_loop g nvars ((ck, map dlit_of lits) :: done) DOr [] false R) = POk x ->
                   fin (cnf_loop (2 * length lits + S g) nvars done ck [] false
                                 (flat_map print_lit lits ++ [48; 10] ++ R)) = POk x).
    { intros ck g Hg. apply loop_lits; [assumption|]. rewrite app_nil_r.
      cbn [cnf_loop]. change ([48; 10] ++ R) with (dec 0 ++ 10 :: R).
      rewrite lex_int by reflexivity. change (0 =? 0) with true. cbn match.
      rewrite rev_involutive. rewrite loop_ws by (right; reflexivity). exact Hg. }
    destruct xor.
    - cbn [app]. replace (2 + 2 * length lits + f)%nat with (S (2 * length lits + S f)) by lia.
      cbn [cnf_loop]. rewrite lex_xor. rewrite <- app_assoc.
      rewrite loop_ws by (left; reflexivity). apply Zero. exact H.
    - cbn [app]. rewrite <- app_assoc. eapply fin_mono; [apply Zero; exact H|lia].
  Qed.

  Lemma loop_clauses : forall clauses done,
    Forall (fun c => Forall (fun l : bool * N => snd l < nvars) (snd c)) clauses ->
    exists f, fin (cnf_loop f nvars done DOr [] false (flat_map print_clause clauses))
              = POk (rev done ++ map gate_of clauses ++ [(DOr, [])], []).
  Proof.
    induction clauses as [|c clauses IH]; intros done Hok.
    - exists 1%nat. reflexivity.
    - inversion Hok; subst. destruct (IH (gate_of c :: done) H2) as [f Hf].
      exists (2 + 2 * length (snd c) + f)%nat. cbn [flat_map].
      apply loop_clause; [assumption|]. rewrite Hf. cbn [rev map]. rewrite <- app_assoc. reflexivity.
  Qed.
End Roundtrip.

Lemma space1_32 n X : space1 (32 :: dec n ++ X) = POk (dec n ++ X).
Proof. apply (space1_sp (dec n ++ X)). apply dec_nosp. Qed.

Lemma problem_line_print nv nc R : nv <= max_capacity -> nc <= max_capacity ->
  problem_line ([112; 32; 99; 110; 102; 32] ++ dec nv ++ sp ++ dec nc ++ nl ++ R) = POk (PLCnf nv nc, R).
Proof.
  intros Hv Hc. cbn [app]. unfold problem_line. change (112 =? 112) with true. cbn match.
  change (space1 (32 :: 99 :: 110 :: 102 :: 32 :: dec nv ++ sp ++ dec nc ++ nl ++ R))
    with (POk (99 :: 110 :: 102 :: 32 :: dec nv ++ sp ++ dec nc ++ nl ++ R) : pres (list N)).
  cbn [pbind].
  change (p_fmt (99 :: 110 :: 102 :: 32 :: dec nv ++ sp ++ dec nc ++ nl ++ R))
    with (Some (true, 32 :: dec nv ++ sp ++ dec nc ++ nl ++ R)).
  cbn match.
  rewrite space1_32. cbn [pbind].
  unfold p_count. rewrite p_u64_dec by (try reflexivity; unfold max_capacity, two64 in *; lia). cbn [pbind].
  destruct (N.ltb_spec max_capacity nv); [lia|]. cbn [pbind].
  rewrite space1_sp by apply dec_nosp. cbn [pbind].
  rewrite p_u64_dec by (try reflexivity; unfold max_capacity, two64 in *; lia). cbn [pbind].
  destruct (N.ltb_spec max_capacity nc); [lia|]. cbn [pbind]. reflexivity.
Qed.

Lemma fix_count_extra gs n : lenN gs = n -> fix_count (gs ++ [(DOr, [])]) n = Some gs.
Proof.
  intros <-. unfold fix_count, lenN. rewrite app_length. cbn [length].
  destruct (N.eqb_spec (N.of_nat (length gs + 1)) (N.of_nat (length gs))); [lia|].
  destruct (N.eqb_spec (N.of_nat (length gs + 1)) (N.of_nat (length gs) + 1)); [|lia].
  rewrite rev_app_distr. cbn [rev app]. rewrite rev_involutive. reflexivity.
Qed.

(** a printed CNF is read back as exactly the problem [cnf::parse] builds from
    its clauses (unit clauses become literals, an empty clause makes it false) *)
Theorem parse_print_cnf nvars clauses : cnf_ok nvars clauses ->
  parse_cnf (print_cnf nvars clauses) = result_of nvars (map gate_of clauses).
Proof.
  intros (Hv & Hc & Hok). unfold parse_cnf, print_cnf.
  change (skip_comments false ([112; 32; 99; 110; 102; 32] ++ ?x))
    with ([112; 32; 99; 110; 102; 32] ++ x).
  rewrite problem_line_print by assumption.
  destruct (loop_clauses nvars Hv clauses [] Hok) as [f Hf].
  apply fin_mono with (f' := Nat.max f (S (length (flat_map print_clause clauses)))) in Hf; [|lia].
  assert (Hg : fin (cnf_loop (S (length (flat_map print_clause clauses))) nvars [] DOr [] false
                             (flat_map print_clause clauses))
               = POk (map gate_of clauses ++ [(DOr, [])], [])).
  { pose proof (cnf_loop_nofuel nvars (S (length (flat_map print_clause clauses))) [] DOr [] false
                                (flat_map print_clause clauses) (Nat.lt_succ_diag_r _)) as Hnf.
    destruct (cnf_loop (S (length (flat_map print_clause clauses))) nvars [] DOr [] false
                       (flat_map print_clause clauses)) as [y| |] eqn:E; try contradiction.
    - rewrite (cnf_loop_mono nvars _ (Nat.max f (S (length (flat_map print_clause clauses)))) _ _ _ _ _ _ E) in Hf by lia.
      exact Hf.
    - (* a diagnostic with little fuel stays a diagnostic: excluded because more fuel gives POk *)
      exfalso. clear Hnf.
      assert (Hmono : forall g g' done ck cur neg bs, cnf_loop g nvars done ck cur neg bs = PErr ->
                       (g <= g')%nat -> cnf_loop g' nvars done ck cur neg bs = PErr).
      { induction g as [|g IH]; intros g' done ck cur neg bs H Hle; [discriminate|].
        destruct g' as [|g']; [lia|]. cbn [cnf_loop] in *.
        destruct (lex bs) as [[[n| |] r]|]; [| | |exact H].
        - destruct (n =? 0); [apply (IH g'); [exact H|lia]|]. destruct (nvars <? n); [reflexivity|].
          apply (IH g'); [exact H|lia].
        - destruct neg; [reflexivity|]. apply (IH g'); [exact H|lia].
        - destruct cur; [|reflexivity]. apply (IH g'); [exact H|lia]. }
      rewrite (Hmono _ (Nat.max f (S (length (flat_map print_clause clauses)))) _ _ _ _ _ E) in Hf by lia.
      discriminate. }
  destruct (cnf_loop (S (length (flat_map print_clause clauses))) nvars [] DOr [] false
                     (flat_map print_clause clauses)) as [[gates r1]| |]; try discriminate.
  cbn [fin] in Hg. inversion Hg as [[Eg Er]]. rewrite Er.
  rewrite fix_count_extra by (apply lenN_map).
  unfold result_of. destruct (map gate_of clauses); reflexivity.
Qed.
