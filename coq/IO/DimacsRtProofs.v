(** * C18q proofs, part 8: round trips of the complete DIMACS reader with a preamble

    - [dimacs_preamble_print]: variable-order lines, an optional clause-tree line and the problem
      line are read back as the preamble they were written from
    - [sat_roundtrip_vo]: SAT formats behind a variable-order preamble
    - [cnf_roundtrip_full]: CNF with / without clause tree, with / without variable order: the
      result is the circuit [cnf::parse] builds, with [make_conj_tree] for the clause tree *)
From Coq Require Import List NArith ZArith Bool Arith Lia.
From OxiVerif Require Import IO.AigerParse IO.AigerLexProofs IO.AigerSecProofs IO.AigerTotalProofs
  IO.DimacsParse IO.DimacsProofs IO.TreeParse IO.TreeProofs IO.PreambleProofs IO.PreambleRtProofs
  IO.DimacsSatParse IO.DimacsSatProofs.
Import ListNotations.
Open Scope N_scope.

Arguments N.add : simpl never.
Arguments N.sub : simpl never.
Arguments N.mul : simpl never.
Arguments N.ltb : simpl never.
Arguments N.leb : simpl never.
Arguments N.eqb : simpl never.
Arguments N.of_nat : simpl never.
Arguments N.to_nat : simpl never.

(* ------------------------------------------------------------------ *)
(** ** Preamble *)

(** what may stand in front of the problem line: a clause tree needs the option and the CNF format *)
Definition ctree_ok (ct : bool) (ctree : option tree) (fmt : dformat) (nc : N) : Prop :=
  match ctree with
  | None => True
  | Some t => ct = true /\ tree_top_ok_b false false t = true /\ is_cnf fmt = true /\
              list_maxN (flatten t) + 1 = nc
  end.

Lemma dimacs_preamble_print vo ct vars ctree pl rest fmt nc :
  vo || ct = true -> wf_vars_b vars = true -> ctree_ok ct ctree fmt nc ->
  starts_with 99 (pl ++ rest) = false ->
  dimacs_problem_line (pl ++ rest) = POk ((fmt, vs_len vars, nc), rest) ->
  dimacs_preamble vo ct (print_dimacs_vo vars ctree (pl ++ rest)) = POk (mkDPre fmt vars nc ctree, rest).
Proof.
  intros Hopt Hvars Hct Hp Hpl. unfold dimacs_preamble, print_dimacs_vo. rewrite Hopt.
  destruct (steps_print_vars (Some ct) vars (match ctree with Some t => print_ctree t | None => [] end ++ pl ++ rest) Hvars)
    as (st & Hsteps & Hb & Ha & Hvs & Hcn).
  destruct ctree as [t|].
  - destruct Hct as (-> & Htok & Hcnf & Hmax).
    assert (Hsteps2 : steps (Some true) ps_init (print_vars vars ++ print_ctree t ++ pl ++ rest)
                            (mkPS (ps_names st) (ps_order st) (ps_tree st) (Some (t, list_maxN (flatten t)))) (pl ++ rest)).
    { eapply steps_trans; [exact Hsteps|]. apply steps_one. apply pre_step_co; assumption. }
    rewrite (pre_loop_run _ _ _ _ _ Hsteps2) by (apply pre_step_break; exact Hp). cbn [pbind].
    unfold pre_before in *. cbn [ps_tree ps_names ps_order]. rewrite Hb. rewrite Hpl. cbn [pbind].
    unfold pre_after in *. cbn [ps_tree ps_names ps_order ps_ctree]. rewrite Ha.
    rewrite Hcnf. destruct (N.eqb_spec (list_maxN (flatten t) + 1) nc); [|contradiction]. cbn [andb].
    unfold varset_of in *. cbn [ps_tree ps_names ps_order ps_ctree option_map fst]. rewrite Hvs. reflexivity.
  - cbn [app] in *. rewrite (pre_loop_run _ _ _ _ _ Hsteps) by (apply pre_step_break; exact Hp). cbn [pbind].
    rewrite Hb, Hpl. cbn [pbind]. rewrite Ha, Hcn, Hvs. reflexivity.
Qed.

(* ------------------------------------------------------------------ *)
(** ** SAT formats behind a preamble *)

Lemma sat_parse_print vars ax ae f : vs_len vars <= max_capacity -> sform_ok_b ax ae (vs_len vars) f = true ->
  sat_parse vars ax ae (print_sform f ++ nl) = POk (sat_problem vars f).
Proof.
  intros Hv Hok. unfold sat_parse.
  pose proof (proj1 (formula_nofuel ax ae (vs_len vars) (S (2 * length (print_sform f ++ nl)))) []
                    (print_sform f ++ nl) ltac:(lia)) as Hnf.
  destruct (form_print ax ae (vs_len vars) Hv f Hok (S (2 * length (print_sform f ++ nl))) [] nl ltac:(reflexivity))
    as [E|E]; [congruence|].
  rewrite E. unfold sat_problem. destruct (build_sform f []) as [root gates]. reflexivity.
Qed.

Lemma wf_vars_cap vars : wf_vars_b vars = true -> vs_len vars <= max_capacity.
Proof. intros H. apply (wf_cap vars (wf_vars_facts vars H)). Qed.

Theorem sat_roundtrip_vo vo ct vars ax ae f :
  vo || ct = true -> wf_vars_b vars = true -> sform_ok_b ax (ax && ae) (vs_len vars) f = true ->
  parse_dimacs vo ct (print_dimacs_vo vars None (print_sat_body ax ae (vs_len vars) f))
  = POk (sat_problem vars f).
Proof.
  intros Hopt Hvars Hok. pose proof (wf_vars_cap vars Hvars) as Hcap.
  unfold parse_dimacs, print_sat_body.
  set (pl := [112; 32] ++ print_fmt (FSat ax ae) ++ sp ++ dec (vs_len vars) ++ nl).
  replace ([112; 32] ++ print_fmt (FSat ax ae) ++ sp ++ dec (vs_len vars) ++ nl ++ print_sform f ++ nl)
    with (pl ++ print_sform f ++ nl) by (unfold pl; rewrite <- !app_assoc; reflexivity).
  rewrite (dimacs_preamble_print vo ct vars None pl (print_sform f ++ nl) (FSat ax (ax && ae)) 0); try assumption.
  - cbn [pbind pre_fmt pre_vars]. apply sat_parse_print; assumption.
  - exact I.
  - reflexivity.
  - unfold pl. rewrite <- !app_assoc. apply sat_problem_line_print. exact Hcap.
Qed.

(* ------------------------------------------------------------------ *)
(** ** CNF *)

(** the token loop on printed clauses (the derivation inside [parse_print_cnf], as a lemma) *)
Lemma cnf_loop_print nvars clauses : nvars <= max_capacity ->
  Forall (fun c => Forall (fun l : bool * N => snd l < nvars) (snd c)) clauses ->
  exists r1, cnf_loop (S (length (flat_map print_clause clauses))) nvars [] DOr [] false (flat_map print_clause clauses)
             = POk (map gate_of clauses ++ [(DOr, [])], r1) /\ multispace0 r1 = [].
Proof.
  intros Hv Hok.
  destruct (loop_clauses nvars Hv clauses [] Hok) as [f Hf].
  set (bs := flat_map print_clause clauses) in *.
  pose proof (cnf_loop_nofuel nvars (S (length bs)) [] DOr [] false bs (Nat.lt_succ_diag_r _)) as Hnf.
  destruct (cnf_loop (S (length bs)) nvars [] DOr [] false bs) as [[gates r1]| |] eqn:E; try contradiction.
  - apply fin_mono with (f' := Nat.max f (S (length bs))) in Hf; [|lia].
    rewrite (cnf_loop_mono nvars _ (Nat.max f (S (length bs))) _ _ _ _ _ _ E) in Hf by lia.
    cbn [fin] in Hf. injection Hf as Eg Er. exists r1. split; [rewrite Eg; reflexivity|exact Er].
  - exfalso.
    assert (Hmono : forall g g' done ck cur neg bs0, cnf_loop g nvars done ck cur neg bs0 = PErr ->
                     (g <= g')%nat -> cnf_loop g' nvars done ck cur neg bs0 = PErr).
    { induction g as [|g IH]; intros g' done ck cur neg bs0 H Hle; [discriminate|].
      destruct g' as [|g']; [lia|]. cbn [cnf_loop] in *.
      destruct (lex bs0) as [[[n| |] r]|]; [| | |exact H].
      - destruct (n =? 0); [apply (IH g'); [exact H|lia]|]. destruct (nvars <? n); [reflexivity|].
        apply (IH g'); [exact H|lia].
      - destruct neg; [reflexivity|]. apply (IH g'); [exact H|lia].
      - destruct cur; [|reflexivity]. apply (IH g'); [exact H|lia]. }
    apply fin_mono with (f' := Nat.max f (S (length bs))) in Hf; [|lia].
    rewrite (Hmono _ (Nat.max f (S (length bs))) _ _ _ _ _ E) in Hf by lia. discriminate.
Qed.

(** the problem [cnf::parse] builds from the clause gates: TRUE without clauses, FALSE with an
    empty clause, otherwise the conjunction of the clause literals -- one AND gate, or the gates
    of [make_conj_tree] along the clause tree *)
Definition cnf_result (vars : varset) (ctree : option tree) (gs : list dgate) : pres rproblem :=
  match gs with
  | [] => POk (mkRProblem vars [] (ALConst true))
  | _ =>
    match retain gs 0 with
    | None => POk (mkRProblem vars [] (ALConst false))
    | Some (kept, cj) =>
      match ctree with
      | Some t => let '(root, g) := conj_tree t cj kept in POk (mkRProblem vars g root)
      | None => POk (mkRProblem vars (kept ++ [(DAnd, cj)]) (ALGate false (lenN kept)))
      end
    end
  end.

Lemma cnf_parse_print pre clauses :
  vs_len (pre_vars pre) <= max_capacity -> pre_nclauses pre = lenN clauses ->
  Forall (fun c => Forall (fun l : bool * N => snd l < vs_len (pre_vars pre)) (snd c)) clauses ->
  cnf_parse pre (flat_map print_clause clauses) = cnf_result (pre_vars pre) (pre_ctree pre) (map gate_of clauses).
Proof.
  intros Hv Hn Hok. unfold cnf_parse.
  destruct (cnf_loop_print _ clauses Hv Hok) as (r1 & E & Er). rewrite E. cbn [pbind]. rewrite Er.
  unfold cnf_finish. rewrite Hn. rewrite fix_count_extra by apply lenN_map.
  unfold cnf_result. destruct (map gate_of clauses); reflexivity.
Qed.

Lemma cnf_problem_line_print nv nc R : nv <= max_capacity -> nc <= max_capacity ->
  dimacs_problem_line ([112; 32; 99; 110; 102; 32] ++ dec nv ++ sp ++ dec nc ++ nl ++ R) = POk ((FCnf, nv, nc), R).
Proof.
  intros Hv Hc. unfold dimacs_problem_line. cbn [app strip_prefix]. rewrite N.eqb_refl.
  change (space1 (32 :: 99 :: 110 :: 102 :: 32 :: ?x)) with (POk (99 :: 110 :: 102 :: 32 :: x) : pres (list N)).
  cbn [pbind].
  change (p_format (99 :: 110 :: 102 :: 32 :: ?x)) with (Some (FCnf, 32 :: x)).
  cbv beta iota. rewrite space1_32. cbn [pbind].
  unfold p_count. rewrite p_u64_dec by (try reflexivity; unfold max_capacity, two64 in *; lia). cbn [pbind].
  destruct (N.ltb_spec max_capacity nv); [lia|]. cbn [pbind].
  cbn [sp app]. rewrite space1_32. cbn [pbind].
  rewrite p_u64_dec by (try reflexivity; unfold max_capacity, two64 in *; lia). cbn [pbind].
  destruct (N.ltb_spec max_capacity nc); [lia|]. cbn [pbind]. reflexivity.
Qed.

Definition clauses_ok (nv : N) (clauses : list (bool * list (bool * N))) : Prop :=
  lenN clauses <= max_capacity /\
  Forall (fun c => Forall (fun l : bool * N => snd l < nv) (snd c)) clauses.

(** CNF behind a preamble (variable order and / or clause tree) *)
Theorem cnf_roundtrip_vo vo ct vars ctree clauses :
  vo || ct = true -> wf_vars_b vars = true -> clauses_ok (vs_len vars) clauses ->
  ctree_ok ct ctree FCnf (lenN clauses) ->
  parse_dimacs vo ct (print_dimacs_vo vars ctree (print_cnf (vs_len vars) clauses))
  = cnf_result vars ctree (map gate_of clauses).
Proof.
  intros Hopt Hvars [Hnc Hok] Hct. pose proof (wf_vars_cap vars Hvars) as Hcap.
  unfold parse_dimacs, print_cnf.
  set (pl := [112; 32; 99; 110; 102; 32] ++ dec (vs_len vars) ++ sp ++ dec (lenN clauses) ++ nl).
  replace ([112; 32; 99; 110; 102; 32] ++ dec (vs_len vars) ++ sp ++ dec (lenN clauses) ++ nl
           ++ flat_map print_clause clauses)
    with (pl ++ flat_map print_clause clauses) by (unfold pl; rewrite <- !app_assoc; reflexivity).
  rewrite (dimacs_preamble_print vo ct vars ctree pl (flat_map print_clause clauses) FCnf (lenN clauses)); try assumption.
  - cbn [pbind pre_fmt].
    apply (cnf_parse_print (mkDPre FCnf vars (lenN clauses) ctree) clauses); [exact Hcap|reflexivity|exact Hok].
  - reflexivity.
  - unfold pl. rewrite <- !app_assoc. apply cnf_problem_line_print; assumption.
Qed.

(** CNF without options (the same files as [C18_dimacs_cnf_roundtrip], through the complete model) *)
Theorem cnf_roundtrip_plain nv clauses : nv <= max_capacity -> clauses_ok nv clauses ->
  parse_dimacs false false (print_cnf nv clauses) = cnf_result (varset_new nv) None (map gate_of clauses).
Proof.
  intros Hv [Hnc Hok]. unfold parse_dimacs, dimacs_preamble, print_cnf. cbn [orb].
  change (skip_comments false ([112; 32; 99; 110; 102; 32] ++ ?x)) with ([112; 32; 99; 110; 102; 32] ++ x).
  rewrite cnf_problem_line_print by assumption. cbn [pbind pre_fmt].
  apply (cnf_parse_print (mkDPre FCnf (varset_new nv) (lenN clauses) None) clauses); [exact Hv|reflexivity|exact Hok].
Qed.

(** example: two variables with an order tree and a name, three clauses (one XOR clause, one
    unit clause) under a clause tree that uses clause 0 twice *)
Definition ex_vars : varset := mkVarSet 2 [1; 0] (Some (TInner [TLeaf 1; TLeaf 0])) [None; Some [98]].
Definition ex_clauses : list (bool * list (bool * N)) :=
  [(false, [(false, 0); (true, 1)]); (true, [(false, 0); (false, 1)]); (false, [(true, 0)])].
Definition ex_ctree : tree := TInner [TInner [TLeaf 0; TLeaf 2]; TLeaf 1; TLeaf 0].

Lemma ex_cnf_hyps :
  wf_vars_b ex_vars = true /\ clauses_ok 2 ex_clauses /\ ctree_ok true (Some ex_ctree) FCnf 3 /\
  parse_dimacs true true (print_dimacs_vo ex_vars (Some ex_ctree) (print_cnf 2 ex_clauses))
  = POk (mkRProblem ex_vars
           [(DOr, [ALIn false 0; ALIn true 1]); (DXor, [ALIn false 0; ALIn false 1]);
            (DAnd, [ALGate false 0; ALIn true 0]); (DAnd, [ALGate false 2; ALGate false 1; ALGate false 0])]
           (ALGate false 3)).
Proof.
  split; [vm_compute; reflexivity|]. split.
  - split; [vm_compute; discriminate|]. repeat constructor.
  - split; [repeat split; vm_compute; reflexivity|vm_compute; reflexivity].
Qed.

(* ------------------------------------------------------------------ *)
(** ** The variable set of every accepted DIMACS file *)

Lemma dimacs_preamble_varset vo ct bs pre r : dimacs_preamble vo ct bs = POk (pre, r) ->
  varset_valid (pre_vars pre) /\ varset_order_ok (pre_vars pre).
Proof.
  unfold dimacs_preamble. destruct (vo || ct).
  - destruct (pre_loop (S (length bs)) (Some ct) ps_init bs) as [[st r0]| |] eqn:El; cbn [pbind]; try discriminate.
    destruct (pre_before st) eqn:Eb; [|discriminate].
    destruct (dimacs_problem_line r0) as [[[[fmt nv] nc] r1]| |]; cbn [pbind]; try discriminate.
    destruct (pre_after st nv) eqn:Ea; [|discriminate].
    destruct (match ps_ctree st with Some (_, mc) => is_cnf fmt && (mc + 1 =? nc) | None => true end); [|discriminate].
    intros H; inversion H; subst. cbn [pre_vars]. eapply pre_loop_varset; eassumption.
  - destruct (dimacs_problem_line (skip_comments false bs)) as [[[[fmt nv] nc] r1]| |]; cbn [pbind]; try discriminate.
    intros H; inversion H; subst. cbn [pre_vars]. unfold varset_valid, varset_order_ok, varset_new.
    cbn [vs_order vs_tree vs_names vs_len]. repeat split; auto; try discriminate. unfold lenN. cbn [length]. lia.
Qed.

(** every accepted DIMACS file (any format, any options): the variable set satisfies
    [VarSet::check_valid], its order is empty or a permutation of the variables *)
Theorem parse_dimacs_varset vo ct bs p : parse_dimacs vo ct bs = POk p ->
  varset_valid (rp_vars p) /\ varset_order_ok (rp_vars p).
Proof.
  unfold parse_dimacs. destruct (dimacs_preamble vo ct bs) as [[pre r]| |] eqn:Ep; cbn [pbind]; try discriminate.
  apply dimacs_preamble_varset in Ep. intros H.
  assert (Hv : rp_vars p = pre_vars pre).
  { destruct (pre_fmt pre).
    - unfold cnf_parse in H.
      destruct (cnf_loop (S (length r)) (vs_len (pre_vars pre)) [] DOr [] false r) as [[gates r1]| |];
        cbn [pbind] in H; try discriminate.
      destruct (multispace0 r1); [|discriminate]. unfold cnf_finish in H.
      destruct (fix_count gates (pre_nclauses pre)) as [[|g gs]|]; try discriminate.
      + inversion H; reflexivity.
      + destruct (retain (g :: gs) 0) as [[kept cj]|]; [|inversion H; reflexivity].
        destruct (pre_ctree pre) as [t|]; [|inversion H; reflexivity].
        destruct (conj_tree t cj kept). inversion H; reflexivity.
    - unfold sat_parse in H.
      destruct (formula (S (2 * length r)) xor (eq) (vs_len (pre_vars pre)) [] r); try discriminate.
      destruct (multispace0 r0); [|discriminate]. inversion H; reflexivity. }
  rewrite Hv. exact Ep.
Qed.

(** example for the SAT round trips: all operators, an empty and a unary operator, [-( )], [( )] *)
Definition ex_sform : sform :=
  SOp OpEq [SOp OpXor [SLit false 0; SLit true 1]; SOp OpAnd [SLit false 1; SLit false 2; SOp OpOr []];
            SNot (SOp OpOr [SLit false 0; SLit false 2]); SPar (SOp OpAnd [SLit true 2])].

Lemma ex_sform_hyps :
  sform_ok_b true (andb true true) 3 ex_sform = true /\
  parse_dimacs false false (print_sat_body true true 3 ex_sform)
  = POk (mkRProblem (varset_new 3)
           [(DXor, [ALIn false 0; ALIn true 1]); (DAnd, [ALIn false 1; ALIn false 2; ALConst false]);
            (DOr, [ALIn false 0; ALIn false 2]);
            (DXor, [ALGate false 0; ALGate false 1; ALGate true 2; ALIn true 2])]
           (ALGate true 3)).
Proof. split; vm_compute; reflexivity. Qed.
