(** * Model of the complete DIMACS reader (crates/oxidd-parser/src/dimacs.rs): all four SAT formats,
      variable orders / order trees / clause trees, every combination of the options

    Executable Gallina only (no proofs here).  Mirrored Rust functions:
    - [dformat] [p_format]   = [dimacs::Format], [dimacs::format] with [util::word].  [SATE] is
                               [Format::SAT { xor: false, eq: false }] in the code (so a [p sate]
                               file rejects '=' with the diagnostic "'=' is only allowed in formats
                               'sate' and 'satex'"): the model copies the code, see notes/C18q.md
    - [dimacs_problem_line]  = [dimacs::problem_line] (CNF: two numbers, SAT formats: one number,
                               [space0] and a line break)
    - [dimacs_preamble]      = [dimacs::preamble]: without options comments are skipped, with
                               [var_order] or [clause_tree] the loop of TreeParse.v with
                               [co = Some clause_tree] and the additional checks "clause tree only
                               supported for 'cnf' format", "number of clauses does not match"
    - [conj_tree]            = [cnf::make_conj_tree]
    - [cnf_finish]           = the part of [cnf::parse] after the token loop ([cnf_loop],
                               [fix_count], [retain] of DimacsParse.v are reused)
    - [stok] [sat_lex]       = [sat::TokenKind], [sat::lex]
    - [expect_tok]           = [sat::expect]
    - [formula] [formula_loop] = [sat::formula] and its [loop] over the operands of an n-ary
                               operator.  [FRpar] is [Err(Err::Error(SatParserErr::Rpar{..}))]: the
                               loop ends on it, every other frame passes it on (so "*(1 ( )" is
                               AND(1): the code behaves like that, the model copies it)
    - [sat_parse]            = [sat::parse] + the [preceded(multispace0, eof)] of [dimacs::parse]
    - [parse_dimacs]         = [dimacs::parse]

    Not modelled: allocation sized by the problem line ([Vec::with_capacity(2 * num_vars)], known
    finding), the recursion depth of [formula] (known finding), the diagnostics' text/spans.

    Printers ([print_sform], [print_sat], [print_cnf_tree]): no Rust counterpart. *)

From Coq Require Import List NArith Bool.
From OxiVerif Require Import IO.AigerParse IO.DimacsParse IO.TreeParse.
Import ListNotations.
Open Scope N_scope.

(* ------------------------------------------------------------------ *)
(** ** Problem line *)

Inductive dformat := FCnf | FSat (xor eq : bool).

(** [dimacs::format]; the order of the alternatives is the one of the [match] *)
Definition p_format (bs : list N) : option (dformat * list N) :=
  let w (f : dformat) (r : list N) := if word_end r then Some (f, r) else None in
  match bs with
  | 99 :: 110 :: 102 :: r => w FCnf r
  | 115 :: 97 :: 116 :: r =>
    match r with
    | 101 :: 120 :: r' => w (FSat true true) r'
    | 101 :: r' => w (FSat false false) r'     (* const SATE: eq is false in the code *)
    | 120 :: r' => w (FSat true false) r'
    | _ => w (FSat false false) r
    end
  | _ => None
  end.

(** format, number of variables, number of clauses (0 for the SAT formats) *)
Definition dimacs_problem_line (bs : list N) : pres ((dformat * N * N) * list N) :=
  match strip_prefix [112] bs with
  | Some r0 =>
    do r1 <- space1 r0;
    match p_format r1 with
    | None => PErr
    | Some (fmt, r2) =>
      do r3 <- space1 r2;
      do '(nv, r4) <- p_count r3;
      match fmt with
      | FCnf =>
        do r5 <- space1 r4;
        do '(nc, r6) <- p_count r5;
        do r7 <- line_ending (space0 r6);
        POk ((fmt, nv, nc), r7)
      | FSat _ _ =>
        do r5 <- line_ending (space0 r4);
        POk ((fmt, nv, 0), r5)
      end
    end
  | None => PErr
  end.

(* ------------------------------------------------------------------ *)
(** ** Preamble *)

Record dpreamble := mkDPre { pre_fmt : dformat; pre_vars : varset; pre_nclauses : N; pre_ctree : option tree }.

Definition is_cnf (f : dformat) : bool := match f with FCnf => true | _ => false end.

Definition dimacs_preamble (var_order clause_tree : bool) (bs : list N) : pres (dpreamble * list N) :=
  if var_order || clause_tree then
    do '(st, r0) <- pre_loop (S (length bs)) (Some clause_tree) ps_init bs;
    if pre_before st then
      do '((fmt, nv, nc), r1) <- dimacs_problem_line r0;
      if pre_after st nv then
        if match ps_ctree st with
           | Some (_, mc) => is_cnf fmt && (mc + 1 =? nc)
           | None => true
           end
        then POk (mkDPre fmt (varset_of st nv) nc (option_map fst (ps_ctree st)), r1)
        else PErr
      else PErr
    else PErr
  else
    do '((fmt, nv, nc), r1) <- dimacs_problem_line (skip_comments false bs);
    POk (mkDPre fmt (varset_new nv) nc None, r1).

(* ------------------------------------------------------------------ *)
(** ** CNF with a clause tree *)

(** [cnf::make_conj_tree]; [gates] are the gates of the circuit so far *)
Fixpoint conj_tree (t : tree) (conj : list alit) (gates : list dgate) : alit * list dgate :=
  match t with
  | TLeaf i => (nth (N.to_nat i) conj (ALConst false), gates)
  | TInner ch =>
    let '(lits, gates') :=
      (fix go (l : list tree) (ls : list alit) (gs : list dgate) : list alit * list dgate :=
         match l with
         | [] => (ls, gs)
         | c :: r => let '(x, gs') := conj_tree c conj gs in go r (ls ++ [x]) gs'
         end) ch [] gates in
    (ALGate false (lenN gates'), gates' ++ [(DAnd, lits)])
  end.

(** [cnf::parse] behind the token loop *)
Definition cnf_finish (vars : varset) (nclauses : N) (ctree : option tree) (gates : list dgate)
  : pres rproblem :=
  match fix_count gates nclauses with
  | None => PErr
  | Some [] => POk (mkRProblem vars [] (ALConst true))
  | Some gates' =>
    match retain gates' 0 with
    | None => POk (mkRProblem vars [] (ALConst false))
    | Some (kept, cj) =>
      match ctree with
      | Some t => let '(root, gs) := conj_tree t cj kept in POk (mkRProblem vars gs root)
      | None => POk (mkRProblem vars (kept ++ [(DAnd, cj)]) (ALGate false (lenN kept)))
      end
    end
  end.

Definition cnf_parse (pre : dpreamble) (bs : list N) : pres rproblem :=
  do '(gates, r1) <- cnf_loop (S (length bs)) (vs_len (pre_vars pre)) [] DOr [] false bs;
  match multispace0 r1 with
  | _ :: _ => PErr
  | [] => cnf_finish (pre_vars pre) (pre_nclauses pre) (pre_ctree pre) gates
  end.

(* ------------------------------------------------------------------ *)
(** ** SAT formats *)

Inductive stok := SVarT (n : N) | SLpar | SRpar | SNegT | SAndT | SOrT | SXorT | SEqT.

Inductive lexres := LTok (t : stok) (r : list N) | LEnd | LFail.

(** [sat::lex(num_vars)]: [LEnd] = [Ok(None)] (only white space left), [LFail] = an error
    (unknown token, or a number outside [1, #vars] which is a [Failure]) *)
Definition sat_lex (nv : N) (bs : list N) : lexres :=
  match multispace0 bs with
  | [] => LEnd
  | r =>
    match p_u64 r with
    | POk (n, r') => if (n =? 0) || (nv <? n) then LFail else LTok (SVarT n) r'
    | _ =>
      if starts_with 40 r then LTok SLpar (tl r)
      else if starts_with 41 r then LTok SRpar (tl r)
      else if starts_with 45 r then LTok SNegT (tl r)
      else if starts_with 42 r then LTok SAndT (tl r)
      else if starts_with 43 r then LTok SOrT (tl r)
      else match strip_prefix [120; 111; 114] r with
           | Some r' => if word_end r' then LTok SXorT r' else LFail
           | None => if starts_with 61 r then LTok SEqT (tl r) else LFail
           end
    end
  end.

(** [sat::expect(Lpar | Rpar)] *)
Definition expect_tok (lpar : bool) (nv : N) (bs : list N) : option (list N) :=
  match sat_lex nv bs with
  | LTok SLpar r => if lpar then Some r else None
  | LTok SRpar r => if lpar then None else Some r
  | _ => None
  end.

(** [impl Not for Literal] *)
Definition alit_not (l : alit) : alit :=
  match l with
  | ALConst a => ALConst (negb a)
  | ALIn a k => ALIn (negb a) k
  | ALGate a g => ALGate (negb a) g
  | ALUndef a => ALUndef (negb a)
  end.

Inductive sop := OpAnd | OpOr | OpXor | OpEq.

(** the literal (and the new gate) an n-ary operator gives for its operands *)
Definition sat_combine (op : sop) (children : list alit) (gates : list dgate) : alit * list dgate :=
  match children with
  | [] => (ALConst (match op with OpAnd | OpEq => true | _ => false end), gates)
  | [l] => (l, gates)
  | _ =>
    let k := match op with OpAnd => DAnd | OpOr => DOr | _ => DXor end in
    let l := ALGate false (lenN gates) in
    (match op with
     | OpEq => if N.even (lenN children) then alit_not l else l
     | _ => l
     end, gates ++ [(k, children)])
  end.

Inductive fres :=
| FOk (l : alit) (gates : list dgate) (r : list N)
| FRpar (r : list N)
| FErr
| FFuel.

Inductive flres :=
| LOk (children : list alit) (gates : list dgate) (r : list N)
| LErr
| LFuel.

(** [sat::formula]; [ax] / [ae] = [allow_xor] / [allow_eq]; [gates] = the circuit so far *)
Fixpoint formula (fuel : nat) (ax ae : bool) (nv : N) (gates : list dgate) (bs : list N) {struct fuel}
  : fres :=
  match fuel with
  | O => FFuel
  | S f =>
    let nary (op : sop) (r : list N) : fres :=
      match expect_tok true nv r with
      | None => FErr
      | Some r' =>
        match formula_loop f ax ae nv gates [] r' with
        | LOk children gates' r'' =>
          let '(l, gates'') := sat_combine op children gates' in FOk l gates'' r''
        | LErr => FErr
        | LFuel => FFuel
        end
      end in
    match sat_lex nv bs with
    | LEnd => FErr
    | LFail => FErr
    | LTok t r =>
      match t with
      | SVarT n => FOk (ALIn false (n - 1)) gates r
      | SLpar =>
        match formula f ax ae nv gates r with
        | FOk l g r' =>
          match expect_tok false nv r' with
          | Some r'' => FOk l g r''
          | None => FErr
          end
        | x => x
        end
      | SRpar => FRpar r
      | SNegT =>
        match sat_lex nv r with
        | LTok (SVarT n) r' => FOk (ALIn true (n - 1)) gates r'
        | LTok SLpar r' =>
          match formula f ax ae nv gates r' with
          | FOk l g r'' =>
            match expect_tok false nv r'' with
            | Some r3 => FOk (alit_not l) g r3
            | None => FErr
            end
          | x => x
          end
        | _ => FErr
        end
      | SAndT => nary OpAnd r
      | SOrT => nary OpOr r
      | SXorT => if ax then nary OpXor r else FErr
      | SEqT => if ae then nary OpEq r else FErr
      end
    end
  end
(** the [loop] over the operands; [acc] = the operands so far (latest first) *)
with formula_loop (fuel : nat) (ax ae : bool) (nv : N) (gates : list dgate) (acc : list alit)
                  (bs : list N) {struct fuel} : flres :=
  match fuel with
  | O => LFuel
  | S f =>
    match formula f ax ae nv gates bs with
    | FOk l g r => formula_loop f ax ae nv g (l :: acc) r
    | FRpar r => LOk (rev acc) gates r
    | FErr => LErr
    | FFuel => LFuel
    end
  end.

(** [sat::parse] and the end-of-file check of [dimacs::parse] *)
Definition sat_parse (vars : varset) (ax ae : bool) (bs : list N) : pres rproblem :=
  match formula (S (2 * length bs)) ax ae (vs_len vars) [] bs with
  | FOk root gates r =>
    match multispace0 r with
    | [] => POk (mkRProblem vars gates root)
    | _ => PErr
    end
  | FRpar _ => PErr
  | FErr => PErr
  | FFuel => PFuel
  end.

(** [dimacs::parse] *)
Definition parse_dimacs (var_order clause_tree : bool) (bs : list N) : pres rproblem :=
  do '(pre, r) <- dimacs_preamble var_order clause_tree bs;
  match pre_fmt pre with
  | FCnf => cnf_parse pre r
  | FSat ax ae => sat_parse (pre_vars pre) ax ae r
  end.

(* ------------------------------------------------------------------ *)
(** ** Printers *)

(** SAT formulas as syntax trees: a variable with polarity, [-( f )], [( f )], an n-ary operator *)
Inductive sform :=
| SLit (neg : bool) (v : N)
| SNot (f : sform)
| SPar (f : sform)
| SOp (op : sop) (l : list sform).

Definition print_sop (op : sop) : list N :=
  match op with
  | OpAnd => [42]
  | OpOr => [43]
  | OpXor => [120; 111; 114]
  | OpEq => [61]
  end.

Fixpoint print_sform (f : sform) : list N :=
  match f with
  | SLit neg v => (if neg then [45] else []) ++ dec (v + 1)
  | SNot g => [45; 40] ++ print_sform g ++ [41]
  | SPar g => [40] ++ print_sform g ++ [41]
  | SOp op l =>
    print_sop op ++ [40]
    ++ (fix go (l : list sform) : list N :=
          match l with
          | [] => []
          | x :: r => print_sform x ++ sp ++ go r
          end) l ++ [41]
  end.

(** the circuit [sat::formula] builds *)
Fixpoint build_sform (f : sform) (gates : list dgate) : alit * list dgate :=
  match f with
  | SLit neg v => (ALIn neg v, gates)
  | SNot g => let '(l, gs) := build_sform g gates in (alit_not l, gs)
  | SPar g => build_sform g gates
  | SOp op l =>
    let '(children, gs) :=
      (fix go (l : list sform) (acc : list alit) (gs : list dgate) : list alit * list dgate :=
         match l with
         | [] => (acc, gs)
         | x :: r => let '(c, gs') := build_sform x gs in go r (acc ++ [c]) gs'
         end) l [] gates in
    sat_combine op children gs
  end.

Definition print_fmt (f : dformat) : list N :=
  match f with
  | FCnf => [99; 110; 102]
  | FSat false false => [115; 97; 116]
  | FSat true false => [115; 97; 116; 120]
  | FSat false true => [115; 97; 116; 101]
  | FSat true true => [115; 97; 116; 101; 120]
  end.

(** [p <fmt> <nv>\n<formula>\n] *)
Definition print_sat_body (ax ae : bool) (nv : N) (f : sform) : list N :=
  [112; 32] ++ print_fmt (FSat ax ae) ++ sp ++ dec nv ++ nl ++ print_sform f ++ nl.

Definition sat_problem (vars : varset) (f : sform) : rproblem :=
  let '(root, gates) := build_sform f [] in mkRProblem vars gates root.

(** CNF body with the number of clauses, clauses as in [print_cnf] *)
Definition print_cnf_body (nvars : N) (clauses : list (bool * list (bool * N))) : list N :=
  print_cnf nvars clauses.

(** a whole DIMACS file for the options [var_order] / [clause_tree] = true *)
Definition print_dimacs_vo (vars : varset) (ctree : option tree) (body : list N) : list N :=
  print_vars vars ++ match ctree with Some t => print_ctree t | None => [] end ++ body.

(* ------------------------------------------------------------------ *)
(** ** Well-formedness of a formula for a format, decidable *)

Fixpoint sform_ok_b (ax ae : bool) (nv : N) (f : sform) : bool :=
  match f with
  | SLit _ v => v <? nv
  | SNot g => sform_ok_b ax ae nv g
  | SPar g => sform_ok_b ax ae nv g
  | SOp op l =>
    (match op with OpXor => ax | OpEq => ae | _ => true end)
    && forallb (sform_ok_b ax ae nv) l
  end.
