(** * C18q proofs, part 5: the complete DIMACS reader

    - [parse_dimacs_total]: a problem or a diagnostic for ALL byte strings and all options (CNF and
      the four SAT formats, with and without order / clause-tree preamble)
    - [sat_roundtrip]: a printed SAT formula is read back as exactly the circuit [sat::formula]
      builds for it *)
From Coq Require Import List NArith ZArith Bool Arith Lia.
From OxiVerif Require Import IO.AigerParse IO.AigerLexProofs IO.AigerSecProofs IO.AigerTotalProofs
  IO.DimacsParse IO.DimacsProofs IO.TreeParse IO.TreeProofs IO.PreambleProofs IO.DimacsSatParse.
Import ListNotations.
Open Scope N_scope.

Arguments N.add : simpl never.
Arguments N.sub : simpl never.
Arguments N.mul : simpl never.
Arguments N.ltb : simpl never.
Arguments N.leb : simpl never.
Arguments N.eqb : simpl never.
Arguments N.of_nat : simpl never.
Arguments N.to_nat : simpl never.

(* ------------------------------------------------------------------ *)
(** ** Totality *)

Lemma p_count_len bs : strict (p_count bs) bs.
Proof.
  unfold p_count, strict. pose proof (p_u64_len bs) as H. unfold strict in H.
  destruct (p_u64 bs) as [[v r]| |]; cbn [pbind]; try exact I; [|contradiction].
  destruct (max_capacity <? v); [exact I|exact H].
Qed.

Lemma dimacs_problem_line_nofuel bs : dimacs_problem_line bs <> PFuel.
Proof.
  unfold dimacs_problem_line. destruct (strip_prefix [112] bs) as [r0|]; [|discriminate].
  pose proof (space1_len r0) as H1. unfold strict0 in H1.
  destruct (space1 r0) as [r1| |]; cbn [pbind]; try discriminate; [|contradiction].
  destruct (p_format r1) as [[fmt r2]|]; [|discriminate].
  pose proof (space1_len r2) as H2. unfold strict0 in H2.
  destruct (space1 r2) as [r3| |]; cbn [pbind]; try discriminate; [|contradiction].
  pose proof (p_count_len r3) as H3. unfold strict in H3.
  destruct (p_count r3) as [[nv r4]| |]; cbn [pbind]; try discriminate; [|contradiction].
  destruct fmt.
  - pose proof (space1_len r4) as H4. unfold strict0 in H4.
    destruct (space1 r4) as [r5| |]; cbn [pbind]; try discriminate; [|contradiction].
    pose proof (p_count_len r5) as H5. unfold strict in H5.
    destruct (p_count r5) as [[nc r6]| |]; cbn [pbind]; try discriminate; [|contradiction].
    pose proof (line_ending_len (space0 r6)) as H6. unfold strict0 in H6.
    destruct (line_ending (space0 r6)); cbn [pbind]; try discriminate. contradiction.
  - pose proof (line_ending_len (space0 r4)) as H6. unfold strict0 in H6.
    destruct (line_ending (space0 r4)); cbn [pbind]; try discriminate. contradiction.
Qed.

Lemma dimacs_preamble_nofuel vo ct bs : dimacs_preamble vo ct bs <> PFuel.
Proof.
  unfold dimacs_preamble. destruct (vo || ct).
  - pose proof (pre_loop_nofuel (Some ct) (S (length bs)) ps_init bs (Nat.lt_succ_diag_r _)) as H0.
    destruct (pre_loop (S (length bs)) (Some ct) ps_init bs) as [[st r0]| |]; cbn [pbind]; try discriminate;
      [|contradiction].
    destruct (pre_before st); [|discriminate].
    pose proof (dimacs_problem_line_nofuel r0) as H1.
    destruct (dimacs_problem_line r0) as [[[[fmt nv] nc] r1]| |]; cbn [pbind]; try discriminate; [|contradiction].
    destruct (pre_after st nv); [|discriminate].
    destruct (match ps_ctree st with Some (_, mc) => is_cnf fmt && (mc + 1 =? nc) | None => true end); discriminate.
  - pose proof (dimacs_problem_line_nofuel (skip_comments false bs)) as H1.
    destruct (dimacs_problem_line (skip_comments false bs)) as [[[[fmt nv] nc] r1]| |]; cbn [pbind];
      try discriminate. contradiction.
Qed.

Lemma cnf_finish_nofuel vars nc ct gates : cnf_finish vars nc ct gates <> PFuel.
Proof.
  unfold cnf_finish. destruct (fix_count gates nc) as [[|g gs]|]; try discriminate.
  destruct (retain (g :: gs) 0) as [[kept cj]|]; [|discriminate].
  destruct ct as [t|]; [|discriminate]. destruct (conj_tree t cj kept). discriminate.
Qed.

Lemma cnf_parse_nofuel pre bs : cnf_parse pre bs <> PFuel.
Proof.
  unfold cnf_parse.
  pose proof (cnf_loop_nofuel (vs_len (pre_vars pre)) (S (length bs)) [] DOr [] false bs (Nat.lt_succ_diag_r _)) as H.
  destruct (cnf_loop (S (length bs)) (vs_len (pre_vars pre)) [] DOr [] false bs) as [[gates r1]| |];
    cbn [pbind]; try discriminate; [|contradiction].
  destruct (multispace0 r1); [apply cnf_finish_nofuel|discriminate].
Qed.

(** a token consumes at least one byte *)
Lemma sat_lex_len nv bs t r : sat_lex nv bs = LTok t r -> (length r < length bs)%nat.
Proof.
  unfold sat_lex. pose proof (multispace0_len bs) as Hm.
  destruct (multispace0 bs) as [|b m] eqn:E; [discriminate|].
  pose proof (p_u64_len (b :: m)) as Hu. unfold strict in Hu.
  destruct (p_u64 (b :: m)) as [[n r']| |].
  - destruct ((n =? 0) || (nv <? n)); [discriminate|]. intros H; inversion H; subst. lia.
  - cbn [starts_with tl].
    destruct (b =? 40); [intros H; inversion H; subst; cbn [length] in *; lia|].
    destruct (b =? 41); [intros H; inversion H; subst; cbn [length] in *; lia|].
    destruct (b =? 45); [intros H; inversion H; subst; cbn [length] in *; lia|].
    destruct (b =? 42); [intros H; inversion H; subst; cbn [length] in *; lia|].
    destruct (b =? 43); [intros H; inversion H; subst; cbn [length] in *; lia|].
    destruct (strip_prefix [120; 111; 114] (b :: m)) as [r'|] eqn:Es.
    + apply strip_prefix_len in Es. cbn [length] in *.
      destruct (word_end r'); [|discriminate]. intros H; inversion H; subst. lia.
    + destruct (b =? 61); [|discriminate]. intros H; inversion H; subst; cbn [length] in *; lia.
  - contradiction.
Qed.

Lemma expect_tok_len lp nv bs r : expect_tok lp nv bs = Some r -> (length r < length bs)%nat.
Proof.
  unfold expect_tok. destruct (sat_lex nv bs) as [t r'| |] eqn:E; try discriminate.
  apply sat_lex_len in E. destruct t; try discriminate; destruct lp; try discriminate;
    intros H; inversion H; subst; exact E.
Qed.

Definition fstrict (x : fres) (bs : list N) : Prop :=
  match x with
  | FOk _ _ r => (length r < length bs)%nat
  | FRpar r => (length r < length bs)%nat
  | _ => True
  end.
Definition lstrict (x : flres) (bs : list N) : Prop :=
  match x with
  | LOk _ _ r => (length r < length bs)%nat
  | _ => True
  end.

Lemma formula_len ax ae nv : forall f,
  (forall gates bs, fstrict (formula f ax ae nv gates bs) bs) /\
  (forall gates acc bs, lstrict (formula_loop f ax ae nv gates acc bs) bs).
Proof.
  induction f as [|f [IHf IHl]]; [split; intros; exact I|]. split.
  - intros gates bs. cbn [formula].
    assert (Hnary : forall op r, (length r < length bs)%nat ->
              fstrict (match expect_tok true nv r with
                       | None => FErr
                       | Some r' =>
                         match formula_loop f ax ae nv gates [] r' with
                         | LOk children gates' r'' =>
                           let '(l, gates'') := sat_combine op children gates' in FOk l gates'' r''
                         | LErr => FErr
                         | LFuel => FFuel
                         end
                       end) bs).
    { intros op r Hr. destruct (expect_tok true nv r) as [r'|] eqn:Ee; [|exact I].
      apply expect_tok_len in Ee. specialize (IHl gates [] r'). unfold lstrict in IHl.
      destruct (formula_loop f ax ae nv gates [] r') as [ch g' r''| |]; try exact I.
      destruct (sat_combine op ch g'). cbn. lia. }
    destruct (sat_lex nv bs) as [t r| |] eqn:El; try exact I. apply sat_lex_len in El.
    destruct t.
    + cbn. exact El.
    + specialize (IHf gates r). unfold fstrict in IHf.
      destruct (formula f ax ae nv gates r) as [l g r'|r'| |]; try exact I.
      * destruct (expect_tok false nv r') as [r''|] eqn:Ee; [|exact I]. apply expect_tok_len in Ee. cbn. lia.
      * cbn. lia.
    + cbn. exact El.
    + destruct (sat_lex nv r) as [t2 r2| |] eqn:El2; try exact I. apply sat_lex_len in El2.
      destruct t2; try exact I.
      * cbn. lia.
      * specialize (IHf gates r2). unfold fstrict in IHf.
        destruct (formula f ax ae nv gates r2) as [l g r'|r'| |]; try exact I.
        -- destruct (expect_tok false nv r') as [r''|] eqn:Ee; [|exact I]. apply expect_tok_len in Ee. cbn. lia.
        -- cbn. lia.
    + apply Hnary. exact El.
    + apply Hnary. exact El.
    + destruct ax; [apply Hnary; exact El|exact I].
    + destruct ae; [apply Hnary; exact El|exact I].
  - intros gates acc bs. cbn [formula_loop].
    pose proof (IHf gates bs) as H1. unfold fstrict in H1.
    destruct (formula f ax ae nv gates bs) as [l g r|r| |]; try exact I.
    + specialize (IHl g (l :: acc) r). unfold lstrict in *.
      destruct (formula_loop f ax ae nv g (l :: acc) r); try exact I. lia.
    + cbn. exact H1.
Qed.

Lemma formula_nofuel ax ae nv : forall f,
  (forall gates bs, (2 * length bs + 1 <= f)%nat -> formula f ax ae nv gates bs <> FFuel) /\
  (forall gates acc bs, (2 * length bs + 2 <= f)%nat -> formula_loop f ax ae nv gates acc bs <> LFuel).
Proof.
  induction f as [|f [IHf IHl]]; [split; intros; lia|]. split.
  - intros gates bs Hf. cbn [formula].
    assert (Hnary : forall op r, (length r < length bs)%nat ->
              (match expect_tok true nv r with
               | None => FErr
               | Some r' =>
                 match formula_loop f ax ae nv gates [] r' with
                 | LOk children gates' r'' =>
                   let '(l, gates'') := sat_combine op children gates' in FOk l gates'' r''
                 | LErr => FErr
                 | LFuel => FFuel
                 end
               end) <> FFuel).
    { intros op r Hr. destruct (expect_tok true nv r) as [r'|] eqn:Ee; [|discriminate].
      apply expect_tok_len in Ee. specialize (IHl gates [] r' ltac:(lia)).
      destruct (formula_loop f ax ae nv gates [] r') as [ch g' r''| |]; try discriminate; [|contradiction].
      destruct (sat_combine op ch g'). discriminate. }
    destruct (sat_lex nv bs) as [t r| |] eqn:El; try discriminate. apply sat_lex_len in El.
    destruct t; try discriminate.
    + specialize (IHf gates r ltac:(lia)).
      destruct (formula f ax ae nv gates r) as [l g r'|r'| |]; try discriminate; [|contradiction].
      destruct (expect_tok false nv r'); discriminate.
    + destruct (sat_lex nv r) as [t2 r2| |] eqn:El2; try discriminate. apply sat_lex_len in El2.
      destruct t2; try discriminate.
      specialize (IHf gates r2 ltac:(lia)).
      destruct (formula f ax ae nv gates r2) as [l g r'|r'| |]; try discriminate; [|contradiction].
      destruct (expect_tok false nv r'); discriminate.
    + apply Hnary. exact El.
    + apply Hnary. exact El.
    + destruct ax; [apply Hnary; exact El|discriminate].
    + destruct ae; [apply Hnary; exact El|discriminate].
  - intros gates acc bs Hf. cbn [formula_loop].
    pose proof (proj1 (formula_len ax ae nv f) gates bs) as H1. unfold fstrict in H1.
    specialize (IHf gates bs ltac:(lia)).
    destruct (formula f ax ae nv gates bs) as [l g r|r| |]; try discriminate; [|contradiction].
    apply IHl. lia.
Qed.

Lemma sat_parse_nofuel vars ax ae bs : sat_parse vars ax ae bs <> PFuel.
Proof.
  unfold sat_parse.
  pose proof (proj1 (formula_nofuel ax ae (vs_len vars) (S (2 * length bs))) [] bs ltac:(lia)) as H.
  destruct (formula (S (2 * length bs)) ax ae (vs_len vars) [] bs) as [l g r|r| |]; try discriminate;
    [|contradiction].
  destruct (multispace0 r); discriminate.
Qed.

(** the model of the DIMACS reader returns a problem or a diagnostic for every byte string *)
Theorem parse_dimacs_total vo ct bs : parse_dimacs vo ct bs <> PFuel.
Proof.
  unfold parse_dimacs. pose proof (dimacs_preamble_nofuel vo ct bs) as H.
  destruct (dimacs_preamble vo ct bs) as [[pre r]| |]; cbn [pbind]; try discriminate; [|contradiction].
  destruct (pre_fmt pre); [apply cnf_parse_nofuel|apply sat_parse_nofuel].
Qed.

(* ------------------------------------------------------------------ *)
(** ** Round trip of the SAT formats *)

Section sform_ind2.
  Variable P : sform -> Prop.
  Hypothesis Hlit : forall neg v, P (SLit neg v).
  Hypothesis Hnot : forall f, P f -> P (SNot f).
  Hypothesis Hpar : forall f, P f -> P (SPar f).
  Hypothesis Hop : forall op l, Forall P l -> P (SOp op l).
  Fixpoint sform_ind2 (f : sform) : P f :=
    match f with
    | SLit neg v => Hlit neg v
    | SNot g => Hnot g (sform_ind2 g)
    | SPar g => Hpar g (sform_ind2 g)
    | SOp op l =>
      Hop op l ((fix go (l : list sform) : Forall P l :=
                   match l with
                   | [] => Forall_nil P
                   | x :: r => Forall_cons x (sform_ind2 x) (go r)
                   end) l)
    end.
End sform_ind2.

(** the inner loops of [print_sform] / [build_sform], named *)
Fixpoint print_sforms (l : list sform) : list N :=
  match l with
  | [] => []
  | x :: r => print_sform x ++ sp ++ print_sforms r
  end.

Fixpoint build_sforms (l : list sform) (acc : list alit) (gs : list dgate) : list alit * list dgate :=
  match l with
  | [] => (acc, gs)
  | x :: r => let '(c, gs') := build_sform x gs in build_sforms r (acc ++ [c]) gs'
  end.

Lemma print_sform_op op l : print_sform (SOp op l) = print_sop op ++ [40] ++ print_sforms l ++ [41].
Proof.
  cbn [print_sform].
  assert (H : forall l,
            (fix go (l : list sform) : list N :=
               match l with
               | [] => []
               | x :: r => print_sform x ++ sp ++ go r
               end) l = print_sforms l).
  { clear. induction l as [|x l IH]; [reflexivity|]. cbn [print_sforms]. rewrite <- IH. reflexivity. }
  rewrite H. reflexivity.
Qed.

Lemma build_sform_op op l gates :
  build_sform (SOp op l) gates = let '(ch, gs) := build_sforms l [] gates in sat_combine op ch gs.
Proof.
  cbn [build_sform].
  assert (H : forall l acc gs,
            (fix go (l : list sform) (acc : list alit) (gs : list dgate) {struct l} : list alit * list dgate :=
               match l with
               | [] => (acc, gs)
               | x :: r => let '(c, gs') := build_sform x gs in go r (acc ++ [c]) gs'
               end) l acc gs = build_sforms l acc gs).
  { clear. induction l as [|x l IH]; intros acc gs; [reflexivity|]. cbn [build_sforms].
    destruct (build_sform x gs) as [c gs']. apply IH. }
  rewrite H. reflexivity.
Qed.

Lemma multispace0_32 X : multispace0 (32 :: X) = multispace0 X.
Proof. reflexivity. Qed.

(** input that begins with a token character other than white space *)
Lemma sat_lex_sp nv X : sat_lex nv (32 :: X) = sat_lex nv X.
Proof. unfold sat_lex. rewrite multispace0_32. reflexivity. Qed.

Lemma sat_lex_var nv v R : v < nv -> nv <= max_capacity -> nodigit R ->
  sat_lex nv (dec (v + 1) ++ R) = LTok (SVarT (v + 1)) R.
Proof.
  intros Hv Hcap HR. unfold sat_lex. rewrite multispace0_dec.
  destruct (dec_head (v + 1)) as (c & t & E & Hc).
  assert (Ed : dec (v + 1) ++ R = c :: (t ++ R)) by (rewrite E; reflexivity).
  rewrite Ed. cbv beta iota. rewrite <- Ed.
  rewrite p_u64_dec by (try exact HR; unfold max_capacity, two64 in *; lia).
  destruct (N.eqb_spec (v + 1) 0); [lia|]. destruct (N.ltb_spec nv (v + 1)); [lia|]. reflexivity.
Qed.

Lemma sat_lex_char nv c R t :
  is_digit c = false -> multispace0 (c :: R) = c :: R ->
  (if c =? 40 then LTok SLpar R
   else if c =? 41 then LTok SRpar R
   else if c =? 45 then LTok SNegT R
   else if c =? 42 then LTok SAndT R
   else if c =? 43 then LTok SOrT R
   else match strip_prefix [120; 111; 114] (c :: R) with
        | Some r' => if word_end r' then LTok SXorT r' else LFail
        | None => if c =? 61 then LTok SEqT R else LFail
        end) = t ->
  sat_lex nv (c :: R) = t.
Proof.
  intros Hd Hm Ht. unfold sat_lex. rewrite Hm. rewrite p_u64_nodigit_head by exact Hd.
  cbn [starts_with tl]. exact Ht.
Qed.

Lemma sat_lex_lpar nv R : sat_lex nv (40 :: R) = LTok SLpar R.
Proof. apply sat_lex_char; reflexivity. Qed.
Lemma sat_lex_rpar nv R : sat_lex nv (41 :: R) = LTok SRpar R.
Proof. apply sat_lex_char; reflexivity. Qed.
Lemma sat_lex_neg nv R : sat_lex nv (45 :: R) = LTok SNegT R.
Proof. apply sat_lex_char; reflexivity. Qed.

Lemma sat_lex_op nv op R :
  sat_lex nv (print_sop op ++ 40 :: R)
  = LTok (match op with OpAnd => SAndT | OpOr => SOrT | OpXor => SXorT | OpEq => SEqT end) (40 :: R).
Proof. destruct op; cbn [print_sop app]; apply sat_lex_char; reflexivity. Qed.

Definition fokf (x : fres) (l : alit) (g : list dgate) (r : list N) : Prop := x = FFuel \/ x = FOk l g r.
Definition lokf (x : flres) (c : list alit) (g : list dgate) (r : list N) : Prop := x = LFuel \/ x = LOk c g r.

Lemma if_true_eq {A} (b : bool) (x y : A) : b = true -> (if b then x else y) = x.
Proof. intros ->. reflexivity. Qed.

Section SatPrint.
  Variables (ax ae : bool) (nv : N).
  Hypothesis Hcap : nv <= max_capacity.

  Definition form_ok (x : sform) : Prop :=
    forall f gates rest, nodigit rest ->
      fokf (formula f ax ae nv gates (print_sform x ++ rest))
           (fst (build_sform x gates)) (snd (build_sform x gates)) rest.

  Lemma loop_forms : forall l, Forall form_ok l ->
    forall f gates acc rest,
      lokf (formula_loop f ax ae nv gates acc (print_sforms l ++ 41 :: rest))
           (fst (build_sforms l (rev acc) gates)) (snd (build_sforms l (rev acc) gates)) rest.
  Proof.
    induction l as [|x l IH]; intros Hall f gates acc rest.
    - destruct f as [|f]; [left; reflexivity|]. cbn [formula_loop print_sforms app build_sforms fst snd].
      destruct f as [|f]; [left; reflexivity|]. right. cbn [formula]. rewrite sat_lex_rpar. reflexivity.
    - inversion Hall as [|? ? Hx Hl]; subst.
      destruct f as [|f]; [left; reflexivity|]. cbn [formula_loop print_sforms build_sforms].
      rewrite <- !app_assoc.
      destruct (Hx f gates (sp ++ print_sforms l ++ 41 :: rest) ltac:(reflexivity)) as [E|E].
      + left. rewrite E. reflexivity.
      + rewrite E. destruct (build_sform x gates) as [c gs'] eqn:Eb. cbn [fst snd].
        specialize (IH Hl f gs' (c :: acc) rest). cbn [rev] in IH.
        (* one blank in front of the next operand *)
        assert (Esp : forall g a, formula_loop f ax ae nv g a (sp ++ print_sforms l ++ 41 :: rest)
                              = formula_loop f ax ae nv g a (print_sforms l ++ 41 :: rest)).
        { intros g a. destruct f as [|f']; [reflexivity|]. cbn [formula_loop sp app].
          destruct f' as [|f'']; [reflexivity|]. cbn [formula]. rewrite sat_lex_sp. reflexivity. }
        rewrite Esp. exact IH.
  Qed.

  Lemma form_print : forall x, sform_ok_b ax ae nv x = true -> form_ok x.
  Proof.
    induction x as [neg v|g IH|g IH|op l IH] using sform_ind2; intros Hok; unfold form_ok;
      intros f gates rest Hrest; cbn [sform_ok_b] in Hok.
    - apply N.ltb_lt in Hok. destruct f as [|f]; [left; reflexivity|]. right.
      cbn [formula print_sform build_sform fst snd]. destruct neg; cbn [app].
      + rewrite sat_lex_neg. rewrite sat_lex_var by assumption.
        replace (v + 1 - 1) with v by lia. reflexivity.
      + rewrite sat_lex_var by assumption. replace (v + 1 - 1) with v by lia. reflexivity.
    - destruct f as [|f]; [left; reflexivity|]. cbn [formula print_sform app]. rewrite sat_lex_neg, sat_lex_lpar.
      rewrite <- app_assoc. cbn [app].
      destruct (IH Hok f gates (41 :: rest) ltac:(reflexivity)) as [E|E]; rewrite E; [left; reflexivity|].
      right. unfold expect_tok. rewrite sat_lex_rpar. cbn [build_sform].
      destruct (build_sform g gates). reflexivity.
    - destruct f as [|f]; [left; reflexivity|]. cbn [formula print_sform app]. rewrite sat_lex_lpar.
      rewrite <- app_assoc. cbn [app].
      destruct (IH Hok f gates (41 :: rest) ltac:(reflexivity)) as [E|E]; rewrite E; [left; reflexivity|].
      right. unfold expect_tok. rewrite sat_lex_rpar. reflexivity.
    - apply andb_true_iff in Hok. destruct Hok as [Hop Hl].
      assert (Hall : Forall form_ok l).
      { rewrite forallb_forall in Hl. rewrite Forall_forall in *. intros y Hy. apply IH; auto. }
      destruct f as [|f]; [left; reflexivity|]. rewrite print_sform_op, build_sform_op.
      rewrite <- !app_assoc. cbn [formula]. cbn [app]. rewrite sat_lex_op.
      assert (Hnary : forall op0, op0 = op ->
                fokf (match expect_tok true nv (40 :: print_sforms l ++ [41] ++ rest) with
                      | None => FErr
                      | Some r' =>
                        match formula_loop f ax ae nv gates [] r' with
                        | LOk children gates' r'' =>
                          let '(l0, gates'') := sat_combine op0 children gates' in FOk l0 gates'' r''
                        | LErr => FErr
                        | LFuel => FFuel
                        end
                      end)
                     (fst (let '(ch, gs) := build_sforms l [] gates in sat_combine op ch gs))
                     (snd (let '(ch, gs) := build_sforms l [] gates in sat_combine op ch gs)) rest).
      { intros op0 ->. unfold expect_tok. rewrite sat_lex_lpar.
        destruct (loop_forms l Hall f gates [] rest) as [E|E]; cbn [app]; rewrite E; [left; reflexivity|].
        right. cbn [rev]. destruct (build_sforms l [] gates) as [ch gs]. cbn [fst snd].
        destruct (sat_combine op ch gs). reflexivity. }
      destruct op; cbn [print_sop app] in *.
      + apply Hnary. reflexivity.
      + apply Hnary. reflexivity.
      + rewrite (if_true_eq _ _ _ Hop). apply Hnary. reflexivity.
      + rewrite (if_true_eq _ _ _ Hop). apply Hnary. reflexivity.
  Qed.
End SatPrint.

(** the format a printed problem line is read as: [sate] gives [eq = false] (const SATE of dimacs.rs) *)
Lemma p_format_print ax ae R :
  p_format (print_fmt (FSat ax ae) ++ 32 :: R) = Some (FSat ax (ax && ae), 32 :: R).
Proof. destruct ax, ae; reflexivity. Qed.

Lemma space1_fmt f R : space1 (32 :: print_fmt f ++ R) = POk (print_fmt f ++ R).
Proof. destruct f as [|[|] [|]]; reflexivity. Qed.

Lemma sat_problem_line_print ax ae nv R : nv <= max_capacity ->
  dimacs_problem_line ([112; 32] ++ print_fmt (FSat ax ae) ++ sp ++ dec nv ++ nl ++ R)
  = POk ((FSat ax (ax && ae), nv, 0), R).
Proof.
  intros Hv. unfold dimacs_problem_line. cbn [app strip_prefix]. rewrite N.eqb_refl.
  rewrite space1_fmt. cbn [pbind]. cbn [sp app]. rewrite p_format_print.
  rewrite space1_32. cbn [pbind].
  unfold p_count. rewrite p_u64_dec by (try reflexivity; unfold max_capacity, two64 in *; lia). cbn [pbind].
  destruct (N.ltb_spec max_capacity nv); [lia|]. cbn [pbind]. reflexivity.
Qed.

(** round trip of the SAT formats: the file [p <fmt> <nv>\n<formula>\n] is read back as exactly the
    circuit [sat::formula] builds for the formula.  The operators the FILE'S format allows are the
    ones the code allows for it: 'xor' for satx / satex, '=' for satex only ([sate] files are read
    with [eq = false], see the note on [const SATE]). *)
Theorem sat_roundtrip ax ae nv f : nv <= max_capacity -> sform_ok_b ax (ax && ae) nv f = true ->
  parse_dimacs false false (print_sat_body ax ae nv f) = POk (sat_problem (varset_new nv) f).
Proof.
  intros Hv Hok. unfold parse_dimacs, dimacs_preamble, print_sat_body. cbn [orb].
  change (skip_comments false ([112; 32] ++ ?x)) with ([112; 32] ++ x).
  rewrite sat_problem_line_print by exact Hv. cbn [pbind pre_fmt pre_vars].
  unfold sat_parse. cbn [vs_len varset_new].
  pose proof (proj1 (formula_nofuel ax (ax && ae) nv (S (2 * length (print_sform f ++ nl)))) []
                    (print_sform f ++ nl) ltac:(lia)) as Hnf.
  destruct (form_print ax (ax && ae) nv Hv f Hok (S (2 * length (print_sform f ++ nl))) [] nl ltac:(reflexivity))
    as [E|E]; [congruence|].
  rewrite E. unfold sat_problem. destruct (build_sform f []) as [root gates]. reflexivity.
Qed.

(** the [const SATE] quirk: a [p sate] file that uses '=' is rejected (with a diagnostic) *)
Lemma sate_rejects_eq :
  parse_dimacs false false (print_sat_body false true 1 (SOp OpEq [SLit false 0; SLit false 0])) = PErr.
Proof. vm_compute. reflexivity. Qed.

(** ... although the same formula is accepted in a [p satex] file *)
Lemma satex_accepts_eq :
  parse_dimacs false false (print_sat_body true true 1 (SOp OpEq [SLit false 0; SLit false 0]))
  = POk (mkRProblem (varset_new 1) [(DXor, [ALIn false 0; ALIn false 0])] (ALGate true 0)).
Proof. vm_compute. reflexivity. Qed.
