(** * C18q proofs, part 2: [acyclic_g] (the model's counterpart of [Circuit::find_cycle] for gates
      of any arity) is sound -- a gate list that passes has no gate depending on itself -- and
      accepts every topologically ordered list *)
From Coq Require Import List NArith ZArith Bool Arith Lia Relations.
From OxiVerif Require Import IO.AigerParse IO.DimacsParse IO.TreeParse.
Import ListNotations.
Open Scope N_scope.

Arguments N.of_nat : simpl never.
Arguments N.to_nat : simpl never.

(** gate [g] reads the output of gate [g'] *)
Definition reads_g (gates : list dgate) (g g' : nat) : Prop :=
  exists x s, nth_error gates g = Some x /\ In (ALGate s (N.of_nat g')) (snd x).

(** gate [k] only refers to gates with a smaller number *)
Definition topo_g (gates : list dgate) : Prop :=
  forall k x s h, nth_error gates k = Some x -> In (ALGate s h) (snd x) -> (N.to_nat h < k)%nat.

Lemma mark_round_g_length gates marks : length (mark_round_g gates marks) = length gates.
Proof. unfold mark_round_g. apply map_length. Qed.

Lemma mark_rounds_g_length : forall r gates marks, length marks = length gates ->
  length (mark_rounds_g r gates marks) = length gates.
Proof.
  induction r; intros gates marks H; cbn; [exact H|]. apply IHr. apply mark_round_g_length.
Qed.

Lemma mark_rounds_g_S : forall k gates m,
  mark_rounds_g (S k) gates m = mark_round_g gates (mark_rounds_g k gates m).
Proof.
  induction k as [|k IH]; intros gates m; [reflexivity|].
  change (mark_rounds_g (S (S k)) gates m) with (mark_rounds_g (S k) gates (mark_round_g gates m)).
  rewrite IH. reflexivity.
Qed.

Lemma nth_mark_round_g gates m g x : nth_error gates g = Some x ->
  nth g (mark_round_g gates m) false = forallb (lit_marked m) (snd x).
Proof.
  intros Hx. unfold mark_round_g.
  assert (Hlt : (g < length gates)%nat) by (apply nth_error_Some; congruence).
  rewrite (nth_indep _ false (forallb (lit_marked m) (snd (DOr, @nil alit)))) by (rewrite map_length; assumption).
  rewrite (map_nth (fun g0 : dgate => forallb (lit_marked m) (snd g0))).
  rewrite (nth_error_nth _ _ _ Hx). reflexivity.
Qed.

(** a gate marked after a round: all gates it reads were marked before the round *)
Lemma mark_round_g_reads gates m g : nth g (mark_round_g gates m) false = true ->
  forall g', reads_g gates g g' -> nth g' m false = true.
Proof.
  intros H g' (x & s & Hx & Hr). rewrite (nth_mark_round_g _ _ _ _ Hx) in H.
  rewrite forallb_forall in H. specialize (H _ Hr). cbn in H. rewrite Nat2N.id in H. exact H.
Qed.

Lemma nth_map_false_g {A} : forall (l : list A) g, nth g (map (fun _ => false) l) false = false.
Proof. induction l; destruct g; cbn; auto. Qed.

Section Sound.
  Variable gates : list dgate.
  Let m0 := map (fun _ : dgate => false) gates.
  Let marks k := mark_rounds_g k gates m0.

  Lemma marks_g_0 g : nth g (marks O) false = false.
  Proof. unfold marks, m0. cbn [mark_rounds_g]. apply nth_map_false_g. Qed.

  (** along a dependency path the round in which a gate is marked strictly decreases *)
  Lemma marks_g_path : forall g g', clos_trans nat (reads_g gates) g g' ->
    forall k, nth g (marks k) false = true -> exists k', (k' < k)%nat /\ nth g' (marks k') false = true.
  Proof.
    intros g g' Hc. induction Hc as [g g' Hr|g mid g' _ IH1 _ IH2]; intros k Hk.
    - destruct k as [|k]; [rewrite marks_g_0 in Hk; discriminate|].
      unfold marks in Hk. rewrite mark_rounds_g_S in Hk.
      exists k. split; [lia|]. eapply mark_round_g_reads; eassumption.
    - destruct (IH1 k Hk) as (k1 & Hlt1 & Hk1). destruct (IH2 k1 Hk1) as (k2 & Hlt2 & Hk2).
      exists k2. split; [lia|assumption].
  Qed.

  Lemma marks_g_no_cycle : forall k g, nth g (marks k) false = true -> ~ clos_trans nat (reads_g gates) g g.
  Proof.
    induction k as [k IH] using lt_wf_ind. intros g Hk Hc.
    destruct (marks_g_path g g Hc k Hk) as (k' & Hlt & Hk'). exact (IH k' Hlt g Hk' Hc).
  Qed.

  (** soundness of the acyclicity test *)
  Theorem acyclic_g_sound : acyclic_g gates = true -> forall g, ~ clos_trans nat (reads_g gates) g g.
  Proof.
    unfold acyclic_g. fold m0. fold (marks (length gates)). intros H g Hc.
    assert (Hlt : (g < length gates)%nat).
    { clear H. remember g as g2 in Hc at 2.
      clear Heqg2. induction Hc as [g g' (x & s & Hx & _)|]; [apply nth_error_Some; congruence|assumption]. }
    rewrite forallb_forall in H.
    assert (Hm : nth g (marks (length gates)) false = true).
    { apply H. apply nth_In. unfold marks. rewrite mark_rounds_g_length; [assumption|].
      unfold m0. apply map_length. }
    exact (marks_g_no_cycle _ _ Hm Hc).
  Qed.
End Sound.

Lemma mark_rounds_g_topo gates : topo_g gates ->
  forall r c marks,
  (forall k, (k < c)%nat -> (k < length gates)%nat -> nth k marks false = true) ->
  forall k, (k < c + r)%nat -> (k < length gates)%nat -> nth k (mark_rounds_g r gates marks) false = true.
Proof.
  intros Ht. induction r as [|r IH]; intros c marks Hm k Hk Hlen.
  - cbn. apply Hm; [lia|assumption].
  - cbn [mark_rounds_g]. apply (IH (S c)); [|lia|assumption].
    intros k' Hk' Hlen'.
    destruct (nth_error gates k') as [g|] eqn:Eg; [|apply nth_error_None in Eg; lia].
    rewrite (nth_mark_round_g _ _ _ _ Eg). apply forallb_forall. intros l Hl.
    destruct l as [| | s j |]; try reflexivity. cbn.
    specialize (Ht k' g s j Eg Hl). apply Hm; lia.
Qed.

(** completeness on topologically ordered lists *)
Lemma acyclic_g_topo gates : topo_g gates -> acyclic_g gates = true.
Proof.
  intros Ht. unfold acyclic_g. apply forallb_forall. intros b Hb.
  apply In_nth with (d := false) in Hb. destruct Hb as (k & Hk & <-).
  rewrite mark_rounds_g_length in Hk by apply map_length.
  apply (mark_rounds_g_topo gates Ht (length gates) O); [intros; lia|lia|assumption].
Qed.

Lemma topo_g_no_cycle gates : topo_g gates -> forall g, ~ clos_trans nat (reads_g gates) g g.
Proof.
  intros Ht. assert (H : forall g g', clos_trans nat (reads_g gates) g g' -> (g' < g)%nat).
  { intros g g' Hc. induction Hc as [g g' (x & s & Hx & Hr)|g m g' _ IH1 _ IH2]; [|lia].
    specialize (Ht g x s _ Hx Hr). lia. }
  intros g Hc. apply H in Hc. lia.
Qed.
