(** * Model of the c2d NNF reader (crates/oxidd-parser/src/nnf.rs)

    Executable Gallina only (no proofs here).  Mirrored Rust functions:
    - [nnf_problem_line] = [nnf::problem_line] ([nnf <#nodes> <#edges> <#inputs>], numbers read by
                           [util::usize], a line break directly after the third number)
    - [nnf_preamble]     = [nnf::preamble]: without [var_order] comments are skipped
                           ([many0_count(util::comment)]), with [var_order] the loop of
                           TreeParse.v ([pre_loop] with [co = None]: no clause trees in NNF files)
    - [p_i64]            = nom [i64] (optional sign, at least one digit, overflow = error)
    - [nnf_child]        = [preceded(space1, consumed(u64))] + the check "invalid node number"
    - [nnf_line]         = one iteration of the [for _ in 0..num_nodes] loop of [nnf::parse]: the
                           [match input] on the first byte (A a B b X x / O o / L l), the children,
                           and the final [preceded(space0, line_ending)]
    - [node_lits] [gates_of] = the vector [nodes] (one literal per line: gates are numbered in file
                           order, a gate line without children is a constant and pushes no gate) and
                           the pass [*l = nodes[l.0]] over all gate inputs
    - [parse_nnf]        = [nnf::parse]

    Structure: the Rust loop pushes the gates while it reads; the model first reads all lines
    ([collect], the count-driven loop of AigerParse.v) and then numbers the gates -- same result,
    every error is a diagnostic in both.  [Circuit::find_cycle] is [acyclic_g] (TreeParse.v).

    NOT enforced by the code (and therefore not by the model): a topological order of the node
    lines ("In contrast to the original c2d format, we do not enforce a topological order"), the
    number of edges of the problem line (only used to reserve memory).

    Not modelled: allocation sized by the problem line (known finding), diagnostics' text/spans.

    Printer [print_nnf]: no Rust counterpart. *)

From Coq Require Import List NArith Bool.
From OxiVerif Require Import IO.AigerParse IO.DimacsParse IO.TreeParse.
Import ListNotations.
Open Scope N_scope.

Definition list_sumN (l : list N) : N := fold_right N.add 0 l.

(** [nnf::problem_line] *)
Definition nnf_problem_line (bs : list N) : pres ((N * N * N) * list N) :=
  match strip_prefix [110; 110; 102] bs with
  | Some r0 =>
    do r1 <- space1 r0;
    do '(nodes, r2) <- p_usize r1;
    do r3 <- space1 r2;
    do '(edges, r4) <- p_usize r3;
    do r5 <- space1 r4;
    do '(inputs, r6) <- p_usize r5;
    do r7 <- line_ending r6;
    POk ((nodes, edges, inputs), r7)
  | None => PErr
  end.

(** [nnf::preamble] *)
Definition nnf_preamble (var_order : bool) (bs : list N) : pres ((varset * (N * N * N)) * list N) :=
  if var_order then
    do '(st, r0) <- pre_loop (S (length bs)) None ps_init bs;
    if pre_before st then
      do '((nodes, edges, inputs), r1) <- nnf_problem_line r0;
      if pre_after st inputs then POk ((varset_of st inputs, (nodes, edges, inputs)), r1)
      else PErr
    else PErr
  else
    do '((nodes, edges, inputs), r1) <- nnf_problem_line (skip_comments false bs);
    POk ((varset_new inputs, (nodes, edges, inputs)), r1).

Definition two63 : N := 9223372036854775808.

(** nom [i64]: sign (true = negative), magnitude *)
Definition p_i64 (bs : list N) : pres ((bool * N) * list N) :=
  let '(neg, r) := if starts_with 45 bs then (true, tl bs)
                   else if starts_with 43 bs then (false, tl bs)
                   else (false, bs) in
  match r with
  | b :: _ =>
    if is_digit b then
      let '(v, r') := digits_val r 0 in
      if (if neg then v <=? two63 else v <? two63) then POk ((neg, v), r') else PErr
    else PErr
  | [] => PErr
  end.

(** one child of a gate line *)
Definition nnf_child (num_nodes : N) (bs : list N) : pres (N * list N) :=
  do r <- space1 bs;
  do '(c, r') <- p_u64 r;
  if num_nodes <=? c then PErr else POk (c, r').

(** what one node line contributes: a literal (input literal or constant), or a gate over
    node numbers *)
Inductive nline := NLit (l : alit) | NGate (k : dkind) (ch : list N).

Definition nnf_line (num_nodes num_inputs : N) (bs : list N) : pres (nline * list N) :=
  do '(x, r) <-
    match bs with
    | b :: inp =>
      if (b =? 65) || (b =? 97) || (b =? 66) || (b =? 98) || (b =? 88) || (b =? 120) then
        let kind := if (b =? 88) || (b =? 120) then DXor else DAnd in
        do r0 <- space1 inp;
        do '(children, r1) <- p_u64 r0;
        if children =? 0 then
          POk (NLit (ALConst (match kind with DAnd => true | _ => false end)), r1)
        else
          do '(ch, r2) <- collect children (nnf_child num_nodes) r1;
          POk (NGate kind ch, r2)
      else if (b =? 79) || (b =? 111) then
        do r0 <- space1 inp;
        do '(conflict, r1) <- p_u64 r0;
        if num_inputs <? conflict then PErr
        else
          do r2 <- space1 r1;
          do '(children, r3) <- p_u64 r2;
          if negb (conflict =? 0) && negb (children =? 2) then PErr
          else if children =? 0 then POk (NLit (ALConst false), r3)
          else
            do '(ch, r4) <- collect children (nnf_child num_nodes) r3;
            POk (NGate DOr ch, r4)
      else if (b =? 76) || (b =? 108) then
        do r0 <- space1 inp;
        do '(lit, r1) <- p_i64 r0;
        let '(neg, var) := lit in
        if (var =? 0) || (num_inputs <? var) then PErr
        else POk (NLit (ALIn neg (var - 1)), r1)
      else PErr
    | [] => PErr
    end;
  do r' <- line_ending (space0 r);
  POk (x, r').

(** the literal of every node: gate lines are numbered in file order *)
Fixpoint node_lits (ls : list nline) (g : N) : list alit :=
  match ls with
  | [] => []
  | NLit l :: r => l :: node_lits r g
  | NGate _ _ :: r => ALGate false g :: node_lits r (g + 1)
  end.

(** the gates, node numbers replaced by the nodes' literals *)
Definition gates_of (ls : list nline) (nodes : list alit) : list dgate :=
  flat_map (fun l => match l with
                     | NGate k ch => [(k, map (fun c => nth (N.to_nat c) nodes (ALConst false)) ch)]
                     | NLit _ => []
                     end) ls.

(** [nnf::parse] *)
Definition parse_nnf (var_order check_acyclic : bool) (bs : list N) : pres rproblem :=
  do '((vars, (num_nodes, _, num_inputs)), r0) <- nnf_preamble var_order bs;
  if num_nodes =? 0 then PErr
  else
    do '(ls, r1) <- collect num_nodes (nnf_line num_nodes num_inputs) r0;
    match multispace0 r1 with
    | _ :: _ => PErr
    | [] =>
      let nodes := node_lits ls 0 in
      let gates := gates_of ls nodes in
      if check_acyclic && negb (acyclic_g gates) then PErr
      else POk (mkRProblem vars gates (last nodes (ALConst false)))
    end.

(* ------------------------------------------------------------------ *)
(** ** Printer

    Node numbering of the printed file: nodes [2k] / [2k+1] are the literals [k+1] / [-(k+1)],
    node [2n] is the empty AND (true), node [2n+1] the empty OR (false), node [2n+2+g] is gate [g];
    a root that is not the last gate is written once more as the last line. *)

Definition nnf_node_of (nv : N) (l : alit) : N :=
  match l with
  | ALIn neg k => 2 * k + b2n neg
  | ALConst true => 2 * nv
  | ALConst false => 2 * nv + 1
  | ALGate _ g => 2 * nv + 2 + g
  | ALUndef _ => 0
  end.

Definition print_nnf_lit (neg : bool) (k : N) : list N :=
  [76; 32] ++ (if neg then [45] else []) ++ dec (k + 1) ++ nl.

Definition print_nnf_gate (nv : N) (g : dgate) : list N :=
  (match fst g with
   | DAnd => [65; 32]
   | DXor => [88; 32]
   | DOr => [79; 32; 48; 32]
   end) ++ dec (lenN (snd g)) ++ flat_map (fun l => sp ++ dec (nnf_node_of nv l)) (snd g) ++ nl.

(** the extra last line for a root that is an input literal or a constant *)
Definition print_nnf_root (root : alit) : list N :=
  match root with
  | ALIn neg k => print_nnf_lit neg k
  | ALConst true => [65; 32; 48; 10]
  | ALConst false => [79; 32; 48; 32; 48; 10]
  | _ => []
  end.

Definition nnf_root_extra (root : alit) : N :=
  match root with ALGate _ _ | ALUndef _ => 0 | _ => 1 end.

Definition print_nnf_body (p : rproblem) : list N :=
  let nv := vs_len (rp_vars p) in
  let gates := rp_gates p in
  let nodes := 2 * nv + 2 + lenN gates + nnf_root_extra (rp_root p) in
  [110; 110; 102; 32] ++ dec nodes ++ sp
  ++ dec (list_sumN (map (fun g => lenN (snd g)) gates)) ++ sp ++ dec nv ++ nl
  ++ flat_map (fun k => print_nnf_lit false k ++ print_nnf_lit true k) (seqN 0 nv)
  ++ [65; 32; 48; 10] ++ [79; 32; 48; 32; 48; 10]
  ++ flat_map (print_nnf_gate nv) gates
  ++ print_nnf_root (rp_root p).

(** file read back with [var_order = true] *)
Definition print_nnf_vo (p : rproblem) : list N := print_vars (rp_vars p) ++ print_nnf_body p.
(** file read back with [var_order = false] (variable set without order and names) *)
Definition print_nnf (p : rproblem) : list N := print_nnf_body p.

(* ------------------------------------------------------------------ *)
(** ** Well-formed problems (what [print_nnf] can write), decidable *)

(** gate inputs as the reader produces them: input literals, constants, positive gate literals *)
Definition nnf_lit_ok_b (nv ngates : N) (l : alit) : bool :=
  match l with
  | ALConst _ => true
  | ALIn _ k => k <? nv
  | ALGate neg g => negb neg && (g <? ngates)
  | ALUndef _ => false
  end.

Definition nnf_root_ok_b (nv ngates : N) (root : alit) : bool :=
  match root with
  | ALConst _ => true
  | ALIn _ k => k <? nv
  | ALGate neg g => negb neg && (g + 1 =? ngates)
  | ALUndef _ => false
  end.

Definition wf_nnf_b (check_acyclic : bool) (p : rproblem) : bool :=
  let nv := vs_len (rp_vars p) in
  let ng := lenN (rp_gates p) in
  (2 * nv + 3 + ng <=? max_capacity)
  && (list_sumN (map (fun g => lenN (snd g)) (rp_gates p)) <=? max_capacity)
  && forallb (fun g => match snd g with [] => false | _ => true end
                       && (lenN (snd g) <? two64)
                       && forallb (nnf_lit_ok_b nv ng) (snd g)) (rp_gates p)
  && nnf_root_ok_b nv ng (rp_root p)
  && (negb check_acyclic || acyclic_g (rp_gates p)).
