(** * C18q proofs, part 4: the NNF reader

    - [parse_nnf_total]: a problem or a diagnostic for ALL byte strings and all options
    - [parse_nnf_accept]: every accepted file yields a variable set satisfying
      [VarSet::check_valid], a linear order that is empty or a permutation of the variables, gates
      with at least one input whose literals are in range (inputs below the number of variables,
      positive references to existing gates), a root in range, and -- with [check_acyclic] -- no
      gate that depends on itself.  (The code does NOT require references to point backwards:
      [forward_ref_accepted] shows a file with a forward reference that is accepted.) *)
From Coq Require Import List NArith ZArith Bool Arith Lia Permutation Relations.
From OxiVerif Require Import IO.AigerParse IO.AigerLexProofs IO.AigerSecProofs IO.AigerTotalProofs
  IO.DimacsParse IO.DimacsProofs IO.TreeParse IO.TreeProofs IO.GateAcyclicProofs IO.PreambleProofs IO.NnfParse.
Import ListNotations.
Open Scope N_scope.

Arguments N.add : simpl never.
Arguments N.sub : simpl never.
Arguments N.mul : simpl never.
Arguments N.ltb : simpl never.
Arguments N.leb : simpl never.
Arguments N.eqb : simpl never.
Arguments N.of_nat : simpl never.
Arguments N.to_nat : simpl never.

(* ------------------------------------------------------------------ *)
(** ** Totality *)

Ltac step H :=
  match goal with
  | |- context [pbind ?r _] =>
    pose proof H as ?; destruct r as [?| |]; cbn [pbind]; try exact I; try discriminate; try contradiction
  end.

Lemma nnf_problem_line_len bs : strict (nnf_problem_line bs) bs.
Proof.
  unfold nnf_problem_line, strict. destruct (strip_prefix [110; 110; 102] bs) as [r0|] eqn:E; [|exact I].
  apply strip_prefix_len in E. cbn [length] in E.
  pose proof (space1_len r0) as H1. unfold strict0 in H1.
  destruct (space1 r0) as [r1| |]; cbn [pbind]; try exact I; [|contradiction].
  pose proof (p_usize_len r1) as H2. unfold strict in H2.
  destruct (p_usize r1) as [[n1 r2]| |]; cbn [pbind]; try exact I; [|contradiction].
  pose proof (space1_len r2) as H3. unfold strict0 in H3.
  destruct (space1 r2) as [r3| |]; cbn [pbind]; try exact I; [|contradiction].
  pose proof (p_usize_len r3) as H4. unfold strict in H4.
  destruct (p_usize r3) as [[n2 r4]| |]; cbn [pbind]; try exact I; [|contradiction].
  pose proof (space1_len r4) as H5. unfold strict0 in H5.
  destruct (space1 r4) as [r5| |]; cbn [pbind]; try exact I; [|contradiction].
  pose proof (p_usize_len r5) as H6. unfold strict in H6.
  destruct (p_usize r5) as [[n3 r6]| |]; cbn [pbind]; try exact I; [|contradiction].
  pose proof (line_ending_len r6) as H7. unfold strict0 in H7.
  destruct (line_ending r6) as [r7| |]; cbn [pbind]; try exact I; [|contradiction]. lia.
Qed.

Lemma skip_comments_len : forall bs c, (length (skip_comments c bs) <= length bs)%nat.
Proof.
  induction bs as [|b r IH]; intros c; cbn [skip_comments]; [lia|].
  destruct c.
  - destruct (b =? 10); pose proof (IH false); pose proof (IH true); cbn [length]; lia.
  - destruct (b =? 99); [pose proof (IH true); cbn [length]; lia|lia].
Qed.

Lemma digits_val_lt b r acc : is_digit b = true ->
  (length (snd (digits_val (b :: r) acc)) < length (b :: r))%nat.
Proof.
  intros Hb. cbn [digits_val]. rewrite Hb. pose proof (digits_val_len r (acc * 10 + (b - 48))).
  cbn [length]. lia.
Qed.

Lemma p_i64_len bs : strict (p_i64 bs) bs.
Proof.
  unfold p_i64, strict.
  set (x := if starts_with 45 bs then (true, tl bs) else if starts_with 43 bs then (false, tl bs) else (false, bs)).
  assert (Hx : (length (snd x) <= length bs)%nat).
  { unfold x. destruct bs as [|b r]; [cbn; lia|]. cbn [starts_with tl].
    destruct (b =? 45); [cbn; lia|]. destruct (b =? 43); cbn; lia. }
  destruct x as [neg r]. cbn [snd] in Hx.
  destruct r as [|b r']; [exact I|]. destruct (is_digit b) eqn:Eb; [|exact I].
  pose proof (digits_val_lt b r' 0 Eb) as Hd.
  destruct (digits_val (b :: r') 0) as [v r2]. cbn [snd] in *.
  destruct (if neg then v <=? two63 else v <? two63); [lia|exact I].
Qed.

Lemma nnf_child_len nn bs : strict (nnf_child nn bs) bs.
Proof.
  unfold nnf_child, strict.
  pose proof (space1_len bs) as H1. unfold strict0 in H1.
  destruct (space1 bs) as [r| |]; cbn [pbind]; try exact I; [|contradiction].
  pose proof (p_u64_len r) as H2. unfold strict in H2.
  destruct (p_u64 r) as [[c r']| |]; cbn [pbind]; try exact I; [|contradiction].
  destruct (nn <=? c); [exact I|lia].
Qed.

Lemma nnf_line_len nn ni bs : strict (nnf_line nn ni bs) bs.
Proof.
  unfold nnf_line.
  set (body := match bs with [] => PErr | b :: inp => _ end).
  assert (Hb : strict body bs).
  { unfold body, strict. destruct bs as [|b inp]; [exact I|].
    pose proof (space1_len inp) as H1. unfold strict0 in H1.
    destruct ((b =? 65) || (b =? 97) || (b =? 66) || (b =? 98) || (b =? 88) || (b =? 120)).
    { destruct (space1 inp) as [r0| |]; cbn [pbind]; try exact I; [|contradiction].
      pose proof (p_u64_len r0) as H2. unfold strict in H2.
      destruct (p_u64 r0) as [[ch r1]| |]; cbn [pbind]; try exact I; [|contradiction].
      destruct (ch =? 0); [cbn [length]; lia|].
      pose proof (collect_len (nnf_child nn) ch r1 (nnf_child_len nn)) as H3. unfold weak in H3.
      destruct (collect ch (nnf_child nn) r1) as [[cs r2]| |]; cbn [pbind]; try exact I; [|contradiction].
      cbn [length]. lia. }
    destruct ((b =? 79) || (b =? 111)).
    { destruct (space1 inp) as [r0| |]; cbn [pbind]; try exact I; [|contradiction].
      pose proof (p_u64_len r0) as H2. unfold strict in H2.
      destruct (p_u64 r0) as [[cf r1]| |]; cbn [pbind]; try exact I; [|contradiction].
      destruct (ni <? cf); [exact I|].
      pose proof (space1_len r1) as H3. unfold strict0 in H3.
      destruct (space1 r1) as [r2| |]; cbn [pbind]; try exact I; [|contradiction].
      pose proof (p_u64_len r2) as H4. unfold strict in H4.
      destruct (p_u64 r2) as [[ch r3]| |]; cbn [pbind]; try exact I; [|contradiction].
      destruct (negb (cf =? 0) && negb (ch =? 2)); [exact I|].
      destruct (ch =? 0); [cbn [length]; lia|].
      pose proof (collect_len (nnf_child nn) ch r3 (nnf_child_len nn)) as H5. unfold weak in H5.
      destruct (collect ch (nnf_child nn) r3) as [[cs r4]| |]; cbn [pbind]; try exact I; [|contradiction].
      cbn [length]. lia. }
    destruct ((b =? 76) || (b =? 108)); [|exact I].
    destruct (space1 inp) as [r0| |]; cbn [pbind]; try exact I; [|contradiction].
    pose proof (p_i64_len r0) as H2. unfold strict in H2.
    destruct (p_i64 r0) as [[[neg var] r1]| |]; cbn [pbind]; try exact I; [|contradiction].
    destruct ((var =? 0) || (ni <? var)); [exact I|]. cbn [length]. lia. }
  clearbody body. unfold strict in *.
  destruct body as [[x r]| |]; cbn [pbind]; try exact I; [|contradiction].
  pose proof (space0_len r) as Hs. pose proof (line_ending_len (space0 r)) as Hl. unfold strict0 in Hl.
  destruct (line_ending (space0 r)) as [r'| |]; cbn [pbind]; try exact I; [|contradiction]. lia.
Qed.

Lemma nnf_preamble_nofuel vo bs : nnf_preamble vo bs <> PFuel.
Proof.
  unfold nnf_preamble. destruct vo.
  - pose proof (pre_loop_nofuel None (S (length bs)) ps_init bs (Nat.lt_succ_diag_r _)) as H0.
    destruct (pre_loop (S (length bs)) None ps_init bs) as [[st r0]| |]; cbn [pbind]; try discriminate;
      [|contradiction].
    destruct (pre_before st); [|discriminate].
    pose proof (nnf_problem_line_len r0) as H1. unfold strict in H1.
    destruct (nnf_problem_line r0) as [[[[a b] c] r1]| |]; cbn [pbind]; try discriminate; [|contradiction].
    destruct (pre_after st c); discriminate.
  - pose proof (nnf_problem_line_len (skip_comments false bs)) as H1. unfold strict in H1.
    destruct (nnf_problem_line (skip_comments false bs)) as [[[[a b] c] r1]| |]; cbn [pbind];
      try discriminate. contradiction.
Qed.

(** the model of the NNF reader returns a problem or a diagnostic for every byte string *)
Theorem parse_nnf_total vo ca bs : parse_nnf vo ca bs <> PFuel.
Proof.
  unfold parse_nnf. pose proof (nnf_preamble_nofuel vo bs) as H0.
  destruct (nnf_preamble vo bs) as [[[vars [[nn ne] ni]] r0]| |]; cbn [pbind]; try discriminate;
    [|contradiction].
  destruct (nn =? 0); [discriminate|].
  pose proof (collect_len (nnf_line nn ni) nn r0 (nnf_line_len nn ni)) as H1. unfold weak in H1.
  destruct (collect nn (nnf_line nn ni) r0) as [[ls r1]| |]; cbn [pbind]; try discriminate; [|contradiction].
  destruct (multispace0 r1); [|discriminate].
  destruct (ca && negb (acyclic_g (gates_of ls (node_lits ls 0)))); discriminate.
Qed.

(* ------------------------------------------------------------------ *)
(** ** What an accepted file satisfies *)

Lemma collect_i_forall {A} (p : N -> list N -> pres (A * list N)) (Q : A -> Prop) :
  (forall i bs x r, p i bs = POk (x, r) -> Q x) ->
  forall f n i bs xs r, collect_i f n i p bs = POk (xs, r) -> Forall Q xs.
Proof.
  intros Hp. induction f as [|f IH]; intros n i bs xs r H; cbn [collect_i] in H.
  - destruct (n =? 0); [|discriminate]. inversion H; subst. constructor.
  - destruct (n =? 0); [inversion H; subst; constructor|].
    destruct (p i bs) as [[y r0]| |] eqn:Ep; try discriminate.
    destruct (collect_i f (n - 1) (i + 1) p r0) as [[ys r']| |] eqn:E; try discriminate.
    inversion H; subst. constructor; [eapply Hp; eassumption|eapply IH; eassumption].
Qed.

Lemma collect_forall {A} (p : list N -> pres (A * list N)) (Q : A -> Prop) n bs xs r :
  (forall bs x r, p bs = POk (x, r) -> Q x) -> collect n p bs = POk (xs, r) -> Forall Q xs /\ lenN xs = n.
Proof.
  intros Hp H. unfold collect in H. split.
  - eapply (collect_i_forall (fun _ => p) Q); [intros; eapply Hp; eassumption|exact H].
  - eapply collect_i_length. exact H.
Qed.

Definition line_ok (nn ni : N) (x : nline) : Prop :=
  match x with
  | NLit (ALConst _) => True
  | NLit (ALIn _ k) => k < ni
  | NLit _ => False
  | NGate _ ch => ch <> [] /\ Forall (fun c => c < nn) ch
  end.

Lemma nnf_child_ok nn bs c r : nnf_child nn bs = POk (c, r) -> c < nn.
Proof.
  unfold nnf_child. destruct (space1 bs) as [a| |]; cbn [pbind]; try discriminate.
  destruct (p_u64 a) as [[c0 r0]| |]; cbn [pbind]; try discriminate.
  destruct (N.leb_spec nn c0) as [|Hlt]; [discriminate|]. intros E; inversion E; subst. assumption.
Qed.

Lemma children_ok nn ch bs cs r : ch <> 0 -> collect ch (nnf_child nn) bs = POk (cs, r) ->
  cs <> [] /\ Forall (fun c => c < nn) cs.
Proof.
  intros Hch H. destruct (collect_forall (nnf_child nn) (fun c => c < nn) _ _ _ _ (nnf_child_ok nn) H) as [Hf Hl].
  split; [|exact Hf]. intros E. subst cs. unfold lenN in Hl. cbn [length] in Hl. lia.
Qed.

Lemma nnf_line_ok nn ni bs x r : nnf_line nn ni bs = POk (x, r) -> line_ok nn ni x.
Proof.
  unfold nnf_line. intros H.
  destruct bs as [|b inp]; [discriminate|].
  destruct ((b =? 65) || (b =? 97) || (b =? 66) || (b =? 98) || (b =? 88) || (b =? 120)).
  { destruct (space1 inp) as [r0| |]; cbn [pbind] in H; try discriminate.
    destruct (p_u64 r0) as [[ch r1]| |]; cbn [pbind] in H; try discriminate.
    destruct (N.eqb_spec ch 0).
    - cbn [pbind] in H. destruct (line_ending (space0 r1)); cbn [pbind] in H; try discriminate.
      inversion H; subst. exact I.
    - destruct (collect ch (nnf_child nn) r1) as [[cs r2]| |] eqn:Ec; cbn [pbind] in H; try discriminate.
      destruct (line_ending (space0 r2)); cbn [pbind] in H; try discriminate.
      inversion H; subst. eapply children_ok; eassumption. }
  destruct ((b =? 79) || (b =? 111)).
  { destruct (space1 inp) as [r0| |]; cbn [pbind] in H; try discriminate.
    destruct (p_u64 r0) as [[cf r1]| |]; cbn [pbind] in H; try discriminate.
    destruct (ni <? cf); [discriminate|].
    destruct (space1 r1) as [r2| |]; cbn [pbind] in H; try discriminate.
    destruct (p_u64 r2) as [[ch r3]| |]; cbn [pbind] in H; try discriminate.
    destruct (negb (cf =? 0) && negb (ch =? 2)); [discriminate|].
    destruct (N.eqb_spec ch 0).
    - cbn [pbind] in H. destruct (line_ending (space0 r3)); cbn [pbind] in H; try discriminate.
      inversion H; subst. exact I.
    - destruct (collect ch (nnf_child nn) r3) as [[cs r4]| |] eqn:Ec; cbn [pbind] in H; try discriminate.
      destruct (line_ending (space0 r4)); cbn [pbind] in H; try discriminate.
      inversion H; subst. eapply children_ok; eassumption. }
  destruct ((b =? 76) || (b =? 108)); [|discriminate].
  destruct (space1 inp) as [r0| |]; cbn [pbind] in H; try discriminate.
  destruct (p_i64 r0) as [[[neg var] r1]| |]; cbn [pbind] in H; try discriminate.
  destruct (N.eqb_spec var 0); [discriminate|]. cbn [orb] in H.
  destruct (N.ltb_spec ni var); [discriminate|]. cbn [pbind] in H.
  destruct (line_ending (space0 r1)); cbn [pbind] in H; try discriminate.
  inversion H; subst. cbn. lia.
Qed.

(** number of gate lines *)
Fixpoint cnt_gates (ls : list nline) : N :=
  match ls with
  | [] => 0
  | NLit _ :: r => cnt_gates r
  | NGate _ _ :: r => cnt_gates r + 1
  end.

Definition nlit_ok (ni lo hi : N) (l : alit) : Prop :=
  match l with
  | ALConst _ => True
  | ALIn _ k => k < ni
  | ALGate s j => s = false /\ lo <= j < hi
  | ALUndef _ => False
  end.

Lemma nlit_ok_weaken ni lo hi lo' hi' l : nlit_ok ni lo hi l -> lo' <= lo -> hi <= hi' -> nlit_ok ni lo' hi' l.
Proof. destruct l; cbn; try tauto. intros [? ?] ? ?. split; [assumption|lia]. Qed.

Lemma node_lits_length : forall ls g, length (node_lits ls g) = length ls.
Proof. induction ls as [|[l|k ch] ls IH]; intros g; cbn; [reflexivity| |]; rewrite IH; reflexivity. Qed.

Lemma node_lits_ok nn ni : forall ls g, Forall (line_ok nn ni) ls ->
  Forall (nlit_ok ni g (g + cnt_gates ls)) (node_lits ls g).
Proof.
  induction ls as [|x ls IH]; intros g H; [constructor|]. inversion H as [|? ? Hx Hl]; subst.
  destruct x as [l|k ch]; cbn [node_lits cnt_gates].
  - constructor; [|apply IH; exact Hl]. destruct l; cbn in *; try tauto.
  - constructor; [cbn; split; [reflexivity|lia]|].
    specialize (IH (g + 1) Hl). eapply Forall_impl; [|exact IH].
    intros l Hl0. eapply nlit_ok_weaken; [exact Hl0|lia|lia].
Qed.

Lemma gates_of_length ls nodes : lenN (gates_of ls nodes) = cnt_gates ls.
Proof.
  unfold gates_of. induction ls as [|[l|k ch] ls IH]; cbn [flat_map cnt_gates app]; [reflexivity|exact IH|].
  rewrite lenN_cons, IH. reflexivity.
Qed.

Lemma gates_of_ok nn ni ls nodes (Q : alit -> Prop) :
  Forall (line_ok nn ni) ls -> lenN nodes = nn -> Forall Q nodes ->
  forall g, In g (gates_of ls nodes) -> snd g <> [] /\ Forall Q (snd g).
Proof.
  intros Hl Hn Hq g Hg. unfold gates_of in Hg. apply in_flat_map in Hg. destruct Hg as (x & Hx & Hg).
  rewrite Forall_forall in Hl. specialize (Hl x Hx).
  destruct x as [l|k ch]; [destruct Hg|]. destruct Hg as [<-|[]]. cbn [snd]. destruct Hl as [Hne Hc].
  split; [destruct ch; [congruence|discriminate]|].
  apply Forall_forall. intros l Hl. apply in_map_iff in Hl. destruct Hl as (c & <- & Hc0).
  rewrite Forall_forall in Hc, Hq. apply Hq. apply nth_In. specialize (Hc c Hc0). unfold lenN in Hn. lia.
Qed.

Lemma last_cons_ne {A} (x : A) l d : l <> [] -> last (x :: l) d = last l d.
Proof. destruct l; [congruence|reflexivity]. Qed.

Lemma node_lits_last : forall ls g, ls <> [] ->
  last (node_lits ls g) (ALConst false) =
  match last ls (NLit (ALConst false)) with
  | NLit l => l
  | NGate _ _ => ALGate false (g + cnt_gates ls - 1)
  end.
Proof.
  induction ls as [|x ls IH]; intros g Hne; [congruence|].
  destruct ls as [|y ls'].
  - destruct x; cbn; [reflexivity|]. f_equal. lia.
  - rewrite (last_cons_ne x (y :: ls')) by discriminate.
    assert (Hnl : forall g', node_lits (y :: ls') g' <> []).
    { intros g' E. apply (f_equal (@length alit)) in E. rewrite node_lits_length in E. discriminate. }
    destruct x as [l|k ch].
    + change (node_lits (NLit l :: y :: ls') g) with (l :: node_lits (y :: ls') g).
      rewrite last_cons_ne by apply Hnl. rewrite IH by discriminate. reflexivity.
    + change (node_lits (NGate k ch :: y :: ls') g) with (ALGate false g :: node_lits (y :: ls') (g + 1)).
      rewrite last_cons_ne by apply Hnl. rewrite IH by discriminate.
      change (cnt_gates (NGate k ch :: y :: ls')) with (cnt_gates (y :: ls') + 1).
      destruct (last (y :: ls') (NLit (ALConst false))); [reflexivity|]. f_equal. lia.
Qed.

Lemma varset_new_valid n : varset_valid (varset_new n) /\ varset_order_ok (varset_new n).
Proof.
  unfold varset_valid, varset_order_ok, varset_new. cbn [vs_order vs_tree vs_names vs_len].
  repeat split; auto; try discriminate. unfold lenN. cbn [length]. lia.
Qed.

Lemma nnf_preamble_inv vo bs vars nn ne ni r0 : nnf_preamble vo bs = POk ((vars, (nn, ne, ni)), r0) ->
  vs_len vars = ni /\ varset_valid vars /\ varset_order_ok vars.
Proof.
  unfold nnf_preamble. destruct vo.
  - destruct (pre_loop (S (length bs)) None ps_init bs) as [[st r]| |] eqn:El; cbn [pbind]; try discriminate.
    destruct (pre_before st) eqn:Eb; [|discriminate].
    destruct (nnf_problem_line r) as [[[[a b] c] r1]| |]; cbn [pbind]; try discriminate.
    destruct (pre_after st c) eqn:Ea; [|discriminate]. intros H; inversion H; subst.
    split; [reflexivity|]. eapply pre_loop_varset; eassumption.
  - destruct (nnf_problem_line (skip_comments false bs)) as [[[[a b] c] r1]| |]; cbn [pbind]; try discriminate.
    intros H; inversion H; subst. split; [reflexivity|apply varset_new_valid].
Qed.

Lemma nlit_ok_b ni ng l : nlit_ok ni 0 ng l -> nnf_lit_ok_b ni ng l = true.
Proof.
  destruct l as [| s k | s g |]; cbn; try tauto.
  - intros H. apply N.ltb_lt. exact H.
  - intros [-> [_ H]]. cbn. apply N.ltb_lt. exact H.
Qed.

(** every accepted NNF file: valid variable set, gates with at least one input, all literals
    in range (gate references positive and to existing gates), the root is the last node (a
    constant, an input literal, or the last gate); with [check_acyclic] no gate depends on itself *)
Theorem parse_nnf_accept vo ca bs p : parse_nnf vo ca bs = POk p ->
  let nv := vs_len (rp_vars p) in
  let ng := lenN (rp_gates p) in
  varset_valid (rp_vars p) /\ varset_order_ok (rp_vars p) /\
  (forall g, In g (rp_gates p) -> snd g <> [] /\ forallb (nnf_lit_ok_b nv ng) (snd g) = true) /\
  nnf_root_ok_b nv ng (rp_root p) = true /\
  (ca = true -> acyclic_g (rp_gates p) = true /\ forall g, ~ clos_trans nat (reads_g (rp_gates p)) g g).
Proof.
  unfold parse_nnf. intros H.
  destruct (nnf_preamble vo bs) as [[[vars [[nn ne] ni]] r0]| |] eqn:Ep; cbn [pbind] in H; try discriminate.
  destruct (nnf_preamble_inv _ _ _ _ _ _ _ Ep) as (Hlen & Hval & Hord).
  destruct (N.eqb_spec nn 0) as [|Hnn]; [discriminate|].
  destruct (collect nn (nnf_line nn ni) r0) as [[ls r1]| |] eqn:Ec; cbn [pbind] in H; try discriminate.
  destruct (multispace0 r1); [|discriminate].
  destruct (collect_forall _ (line_ok nn ni) _ _ _ _ (nnf_line_ok nn ni) Ec) as [Hls Hcount].
  set (nodes := node_lits ls 0) in *. set (gates := gates_of ls nodes) in *.
  destruct (ca && negb (acyclic_g gates)) eqn:Eca; [discriminate|].
  inversion H; subst p. clear H. cbn [rp_vars rp_gates rp_root]. rewrite Hlen.
  assert (Hng : lenN gates = cnt_gates ls) by apply gates_of_length.
  pose proof (node_lits_ok nn ni ls 0 Hls) as Hnodes. fold nodes in Hnodes. rewrite N.add_0_l in Hnodes.
  assert (Hnlen : lenN nodes = nn).
  { unfold nodes, lenN. rewrite node_lits_length. exact Hcount. }
  split; [exact Hval|]. split; [exact Hord|]. split; [|split].
  - intros g Hg. destruct (gates_of_ok nn ni ls nodes _ Hls Hnlen Hnodes g Hg) as [Hne Hall].
    split; [exact Hne|]. apply forallb_forall. rewrite Forall_forall in Hall. intros l Hl.
    rewrite Hng. apply nlit_ok_b. apply Hall. exact Hl.
  - assert (Hne : ls <> []).
    { intros E. subst ls. unfold lenN in Hcount. cbn [length] in Hcount. lia. }
    unfold nodes. rewrite node_lits_last by exact Hne. rewrite Hng.
    pose proof (proj1 (Forall_forall _ _) Hls (last ls (NLit (ALConst false)))) as Hlast.
    specialize (Hlast ltac:(destruct ls; [congruence|]; apply (@exists_last _ (n :: ls)) in Hne;
                            destruct Hne as (l' & a & E); rewrite E, last_last; apply in_or_app; right; left; reflexivity)).
    destruct (last ls (NLit (ALConst false))) as [l|k ch] eqn:El.
    + destruct l; cbn in *; try tauto. apply N.ltb_lt. exact Hlast.
    + cbn. apply N.eqb_eq.
      assert (cnt_gates ls <> 0).
      { clear -El Hne. revert El. induction ls as [|x ls IH]; [congruence|]. destruct ls as [|y ls'].
        - cbn. intros ->. cbn. lia.
        - rewrite last_cons_ne by discriminate. intros E. specialize (IH ltac:(discriminate) E).
          destruct x as [l0|k0 ch0].
          + change (cnt_gates (NLit l0 :: y :: ls')) with (cnt_gates (y :: ls')). exact IH.
          + change (cnt_gates (NGate k0 ch0 :: y :: ls')) with (cnt_gates (y :: ls') + 1). lia. }
      lia.
  - intros ->. cbn [andb] in Eca. apply negb_false_iff in Eca. split; [exact Eca|].
    apply acyclic_g_sound. exact Eca.
Qed.

(** the code accepts forward references: node 0 is a gate over node 1 *)
Example forward_ref_file : list N :=
  [110;110;102;32;50;32;49;32;49;10; 65;32;49;32;49;10; 76;32;49;10].   (* "nnf 2 1 1\nA 1 1\nL 1\n" *)

Lemma forward_ref_accepted :
  parse_nnf false true forward_ref_file
  = POk (mkRProblem (varset_new 1) [(DAnd, [ALIn false 0])] (ALIn false 0)).
Proof. vm_compute. reflexivity. Qed.
