(** * C18q proofs, part 7: round trip of the NNF reader

    [parse_print_nnf] / [parse_print_nnf_vo]: for every well-formed problem [p] (decidable
    [wf_nnf_b]: gates with at least one input, literals in range, gate references positive -- forward
    references allowed --, root = a constant, an input literal or the last gate, acyclic if
    [check_acyclic]; sizes within MAX_CAPACITY) the file written by [print_nnf] is read back as [p];
    with [var_order] the same for any well-formed variable set (order tree / linear order / names). *)
From Coq Require Import List NArith ZArith Bool Arith Lia.
From OxiVerif Require Import IO.AigerParse IO.AigerLexProofs IO.AigerSecProofs IO.AigerTotalProofs
  IO.DimacsParse IO.DimacsProofs IO.TreeParse IO.TreeProofs IO.PreambleProofs IO.PreambleRtProofs
  IO.NnfParse IO.NnfProofs.
Import ListNotations.
Open Scope N_scope.

Arguments N.add : simpl never.
Arguments N.sub : simpl never.
Arguments N.mul : simpl never.
Arguments N.ltb : simpl never.
Arguments N.leb : simpl never.
Arguments N.eqb : simpl never.
Arguments N.of_nat : simpl never.
Arguments N.to_nat : simpl never.

(* ------------------------------------------------------------------ *)
(** ** [collect] over printed items whose parser needs a condition on what follows *)

Lemma collect_i_print_guard {X A} (P : list N -> Prop) (p : list N -> pres (A * list N))
      (pr : X -> list N) (val : X -> A) :
  forall items rest, P rest -> (forall x r, P (pr x ++ r)) ->
  (forall x r, In x items -> P r -> p (pr x ++ r) = POk (val x, r)) ->
  collect_i (length items) (lenN items) 0 (fun _ => p) (flat_map pr items ++ rest) = POk (map val items, rest).
Proof.
  assert (G : forall items i rest, P rest -> (forall x r, P (pr x ++ r)) ->
              (forall x r, In x items -> P r -> p (pr x ++ r) = POk (val x, r)) ->
              collect_i (length items) (lenN items) i (fun _ => p) (flat_map pr items ++ rest)
              = POk (map val items, rest)).
  { induction items as [|y items IH]; intros i rest Hrest HP H; [reflexivity|].
    cbn [length collect_i flat_map map]. rewrite lenN_cons.
    destruct (N.eqb_spec (lenN items + 1) 0); [lia|].
    rewrite <- app_assoc.
    assert (Hnext : P (flat_map pr items ++ rest)).
    { destruct items as [|z items']; [exact Hrest|cbn [flat_map]; rewrite <- app_assoc; apply HP]. }
    rewrite (H y _ (or_introl eq_refl) Hnext).
    replace (lenN items + 1 - 1) with (lenN items) by lia.
    rewrite IH; [reflexivity|exact Hrest|exact HP|]. intros x r Hx. apply H. right. exact Hx. }
  intros. apply G; assumption.
Qed.

Lemma flat_map_length_ge {X} (pr : X -> list N) : (forall x, pr x <> []) ->
  forall items, (length items <= length (flat_map pr items))%nat.
Proof.
  intros Hne. induction items as [|x items IH]; [cbn; lia|]. cbn [flat_map length]. rewrite app_length.
  specialize (Hne x). destruct (pr x); [congruence|]. cbn [length]. lia.
Qed.

Lemma collect_print_guard {X A} (P : list N -> Prop) (p : list N -> pres (A * list N))
      (pr : X -> list N) (val : X -> A) items n rest :
  n = lenN items -> (forall x, pr x <> []) -> P rest -> (forall x r, P (pr x ++ r)) ->
  (forall x r, In x items -> P r -> p (pr x ++ r) = POk (val x, r)) ->
  collect n p (flat_map pr items ++ rest) = POk (map val items, rest).
Proof.
  intros -> Hne Hrest HP H. unfold collect.
  eapply collect_i_mono; [apply (collect_i_print_guard P); eassumption|].
  rewrite app_length. pose proof (flat_map_length_ge pr Hne items). lia.
Qed.

(* ------------------------------------------------------------------ *)
(** ** Lines *)

Lemma p_i64_dec (neg : bool) (n : N) (R : list N) : n < two63 -> nodigit R ->
  p_i64 ((if neg then [45] else []) ++ dec n ++ R) = POk ((neg, n), R).
Proof.
  intros Hn HR. unfold p_i64.
  destruct (dec_head n) as (c & t & E & Hc).
  assert (Hc45 : c =? 45 = false) by (apply is_digit_range in Hc; apply N.eqb_neq; lia).
  assert (Hc43 : c =? 43 = false) by (apply is_digit_range in Hc; apply N.eqb_neq; lia).
  assert (Ed : dec n ++ R = c :: (t ++ R)) by (rewrite E; reflexivity).
  assert (Hp : p_u64 (dec n ++ R) = POk (n, R)) by (apply p_u64_dec; [unfold two63, two64 in *; lia|exact HR]).
  unfold p_u64 in Hp. rewrite Ed in Hp. rewrite Hc in Hp.
  destruct (digits_val (c :: t ++ R) 0) as [v r'] eqn:Edv.
  destruct (v <? two64); [|discriminate]. inversion Hp; subst v r'.
  destruct neg; cbn [app starts_with tl].
  - replace (45 =? 45) with true by reflexivity. rewrite Ed. rewrite Hc. rewrite Edv.
    destruct (N.leb_spec n two63); [reflexivity|lia].
  - rewrite Ed. cbn [starts_with]. rewrite Hc45, Hc43, Hc, Edv.
    destruct (N.ltb_spec n two63); [reflexivity|lia].
Qed.

Lemma nnf_line_lit nn ni neg k R : k < ni -> ni <= max_capacity ->
  nnf_line nn ni (print_nnf_lit neg k ++ R) = POk (NLit (ALIn neg k), R).
Proof.
  intros Hk Hni. unfold nnf_line, print_nnf_lit. cbn [app].
  replace ((76 =? 65) || (76 =? 97) || (76 =? 66) || (76 =? 98) || (76 =? 88) || (76 =? 120)) with false by reflexivity.
  replace ((76 =? 79) || (76 =? 111)) with false by reflexivity.
  replace ((76 =? 76) || (76 =? 108)) with true by reflexivity.
  assert (Hsp : space1 (32 :: (if neg then [45] else []) ++ dec (k + 1) ++ nl ++ R)
                = POk ((if neg then [45] else []) ++ dec (k + 1) ++ nl ++ R)).
  { destruct neg; [reflexivity|]. cbn [app]. apply space1_32. }
  rewrite <- !app_assoc. rewrite Hsp. cbn [pbind].
  rewrite p_i64_dec by (try reflexivity; unfold max_capacity, two63 in *; lia). cbn [pbind].
  destruct (N.eqb_spec (k + 1) 0); [lia|]. destruct (N.ltb_spec ni (k + 1)); [lia|]. cbn [orb pbind].
  change (line_ending (space0 (nl ++ R))) with (POk R : pres (list N)). cbn [pbind].
  replace (k + 1 - 1) with k by lia. reflexivity.
Qed.

Lemma p_u64_zero R : nodigit R -> p_u64 (48 :: R) = POk (0, R).
Proof. intros H. change (48 :: R) with (dec 0 ++ R). apply p_u64_dec; [reflexivity|exact H]. Qed.

Lemma nnf_line_true nn ni R : nnf_line nn ni ([65; 32; 48; 10] ++ R) = POk (NLit (ALConst true), R).
Proof.
  unfold nnf_line. cbn [app].
  replace ((65 =? 65) || (65 =? 97) || (65 =? 66) || (65 =? 98) || (65 =? 88) || (65 =? 120)) with true by reflexivity.
  change (space1 (32 :: 48 :: 10 :: R)) with (POk (48 :: 10 :: R) : pres (list N)). cbn [pbind].
  rewrite p_u64_zero by reflexivity. cbn [pbind]. reflexivity.
Qed.

Lemma nnf_line_false nn ni R : nnf_line nn ni ([79; 32; 48; 32; 48; 10] ++ R) = POk (NLit (ALConst false), R).
Proof.
  unfold nnf_line. cbn [app].
  replace ((79 =? 65) || (79 =? 97) || (79 =? 66) || (79 =? 98) || (79 =? 88) || (79 =? 120)) with false by reflexivity.
  replace ((79 =? 79) || (79 =? 111)) with true by reflexivity.
  change (space1 (32 :: 48 :: 32 :: 48 :: 10 :: R)) with (POk (48 :: 32 :: 48 :: 10 :: R) : pres (list N)). cbn [pbind].
  rewrite p_u64_zero by reflexivity. cbn [pbind].
  destruct (N.ltb_spec ni 0); [lia|].
  change (space1 (32 :: 48 :: 10 :: R)) with (POk (48 :: 10 :: R) : pres (list N)). cbn [pbind].
  rewrite p_u64_zero by reflexivity. cbn [pbind]. reflexivity.
Qed.

Lemma nnf_child_print nn c R : c < nn -> nn <= max_capacity -> nodigit R ->
  nnf_child nn (sp ++ dec c ++ R) = POk (c, R).
Proof.
  intros Hc Hn HR. unfold nnf_child. cbn [sp app]. rewrite space1_32. cbn [pbind].
  rewrite p_u64_dec by (try exact HR; unfold max_capacity, two64 in *; lia). cbn [pbind].
  destruct (N.leb_spec nn c); [lia|reflexivity].
Qed.

Lemma nnf_children_print nn (cs : list N) R : nn <= max_capacity -> Forall (fun c => c < nn) cs ->
  collect (lenN cs) (nnf_child nn) (flat_map (fun c => sp ++ dec c) cs ++ nl ++ R) = POk (cs, nl ++ R).
Proof.
  intros Hn Hcs. rewrite <- (map_id cs) at 3.
  apply (collect_print_guard nodigit); try reflexivity.
  - intros x E. destruct (dec_head x) as (c & t & Ed & _). rewrite Ed in E. discriminate.
  - intros x r Hx Hr. rewrite <- app_assoc. rewrite Forall_forall in Hcs. apply nnf_child_print; auto.
Qed.

Definition gate_line (nv : N) (g : dgate) : nline := NGate (fst g) (map (nnf_node_of nv) (snd g)).

Lemma nnf_line_gate nn ni nv g R : nn <= max_capacity -> snd g <> [] -> lenN (snd g) < two64 ->
  Forall (fun l => nnf_node_of nv l < nn) (snd g) ->
  nnf_line nn ni (print_nnf_gate nv g ++ R) = POk (gate_line nv g, R).
Proof.
  intros Hn Hne Hlen Hch. destruct g as [k ins]. cbn [fst snd] in *.
  unfold nnf_line, print_nnf_gate, gate_line. cbn [fst snd].
  assert (Hcnt : lenN ins <> 0) by (destruct ins; [congruence|rewrite lenN_cons; lia]).
  assert (Hfm : flat_map (fun l => sp ++ dec (nnf_node_of nv l)) ins
                = flat_map (fun c => sp ++ dec c) (map (nnf_node_of nv) ins)).
  { clear. induction ins as [|l ins IH]; [reflexivity|]. cbn [flat_map map]. rewrite IH. reflexivity. }
  assert (Hnd : nodigit (flat_map (fun l => sp ++ dec (nnf_node_of nv l)) ins ++ nl ++ R)).
  { destruct ins; reflexivity. }
  assert (Hcs : Forall (fun c => c < nn) (map (nnf_node_of nv) ins)).
  { apply Forall_forall. intros c Hc. apply in_map_iff in Hc. destruct Hc as (l & <- & Hl).
    rewrite Forall_forall in Hch. apply Hch. exact Hl. }
  pose proof (nnf_children_print nn (map (nnf_node_of nv) ins) R Hn Hcs) as Hcoll.
  rewrite lenN_map, <- Hfm in Hcoll.
  destruct k; cbn [app]; rewrite <- !app_assoc.
  - (* OR: "O 0 n ..." *)
    replace ((79 =? 65) || (79 =? 97) || (79 =? 66) || (79 =? 98) || (79 =? 88) || (79 =? 120)) with false by reflexivity.
    replace ((79 =? 79) || (79 =? 111)) with true by reflexivity.
    change (space1 (32 :: 48 :: 32 :: ?X)) with (POk (48 :: 32 :: X) : pres (list N)). cbn [pbind].
    rewrite p_u64_zero by reflexivity. cbn [pbind].
    destruct (N.ltb_spec ni 0); [lia|]. rewrite space1_32. cbn [pbind].
    rewrite p_u64_dec by assumption. cbn [pbind].
    replace (negb (0 =? 0) && negb (lenN ins =? 2)) with false by reflexivity.
    destruct (N.eqb_spec (lenN ins) 0); [contradiction|].
    rewrite Hcoll. cbn [pbind]. reflexivity.
  - (* XOR *)
    replace ((88 =? 65) || (88 =? 97) || (88 =? 66) || (88 =? 98) || (88 =? 88) || (88 =? 120)) with true by reflexivity.
    replace ((88 =? 88) || (88 =? 120)) with true by reflexivity.
    rewrite space1_32. cbn [pbind]. rewrite p_u64_dec by assumption. cbn [pbind].
    destruct (N.eqb_spec (lenN ins) 0); [contradiction|].
    rewrite Hcoll. cbn [pbind]. reflexivity.
  - (* AND *)
    replace ((65 =? 65) || (65 =? 97) || (65 =? 66) || (65 =? 98) || (65 =? 88) || (65 =? 120)) with true by reflexivity.
    replace ((65 =? 88) || (65 =? 120)) with false by reflexivity.
    rewrite space1_32. cbn [pbind]. rewrite p_u64_dec by assumption. cbn [pbind].
    destruct (N.eqb_spec (lenN ins) 0); [contradiction|].
    rewrite Hcoll. cbn [pbind]. reflexivity.
Qed.


(* ------------------------------------------------------------------ *)
(** ** The lines of a printed problem *)

Inductive item := ILit (neg : bool) (k : N) | ITrue | IFalse | IGate (g : dgate).

Definition item_print (nv : N) (x : item) : list N :=
  match x with
  | ILit neg k => print_nnf_lit neg k
  | ITrue => [65; 32; 48; 10]
  | IFalse => [79; 32; 48; 32; 48; 10]
  | IGate g => print_nnf_gate nv g
  end.

Definition item_line (nv : N) (x : item) : nline :=
  match x with
  | ILit neg k => NLit (ALIn neg k)
  | ITrue => NLit (ALConst true)
  | IFalse => NLit (ALConst false)
  | IGate g => gate_line nv g
  end.

Definition lit_items (nv : N) : list item := flat_map (fun k => [ILit false k; ILit true k]) (seqN 0 nv).
Definition root_items (root : alit) : list item :=
  match root with
  | ALIn neg k => [ILit neg k]
  | ALConst true => [ITrue]
  | ALConst false => [IFalse]
  | _ => []
  end.

Definition all_items (p : rproblem) : list item :=
  lit_items (vs_len (rp_vars p)) ++ [ITrue; IFalse] ++ map IGate (rp_gates p) ++ root_items (rp_root p).

Lemma flat_map_app' {A B} (f : A -> list B) l1 l2 : flat_map f (l1 ++ l2) = flat_map f l1 ++ flat_map f l2.
Proof. induction l1; cbn; [reflexivity|]. rewrite IHl1, app_assoc. reflexivity. Qed.

Lemma item_print_ne nv x : item_print nv x <> [].
Proof.
  destruct x as [neg k| | |g]; try discriminate. cbn [item_print]. unfold print_nnf_gate. destruct (fst g); discriminate.
Qed.

Lemma lit_items_print nv :
  flat_map (item_print nv) (lit_items nv)
  = flat_map (fun k => print_nnf_lit false k ++ print_nnf_lit true k) (seqN 0 nv).
Proof.
  unfold lit_items. induction (seqN 0 nv) as [|k l IH]; [reflexivity|].
  change (flat_map ?f (k :: l)) with (f k ++ flat_map f l).
  rewrite flat_map_app', IH. cbn [flat_map item_print]. rewrite app_nil_r, <- app_assoc. reflexivity.
Qed.

Lemma lit_items_len nv : lenN (lit_items nv) = 2 * nv.
Proof.
  unfold lit_items, lenN.
  assert (H : forall l : list N, length (flat_map (fun k => [ILit false k; ILit true k]) l) = (2 * length l)%nat).
  { induction l as [|k l IH]; [reflexivity|]. cbn [flat_map length app]. rewrite IH. lia. }
  rewrite H, seqN_length. lia.
Qed.

Lemma root_items_print nv root : flat_map (item_print nv) (root_items root) = print_nnf_root root.
Proof. destruct root as [[|]| | |]; cbn; rewrite ?app_nil_r; reflexivity. Qed.

Lemma root_items_len root : lenN (root_items root) = nnf_root_extra root.
Proof. destruct root as [[|]| | |]; reflexivity. Qed.

Lemma all_items_len p :
  lenN (all_items p) = 2 * vs_len (rp_vars p) + 2 + lenN (rp_gates p) + nnf_root_extra (rp_root p).
Proof.
  unfold all_items. rewrite !lenN_app, lit_items_len, lenN_map, root_items_len.
  assert (lenN [ITrue; IFalse] = 2) by reflexivity. lia.
Qed.

Lemma body_print p :
  print_nnf_body p =
  [110; 110; 102; 32] ++ dec (lenN (all_items p)) ++ sp
  ++ dec (list_sumN (map (fun g => lenN (snd g)) (rp_gates p))) ++ sp ++ dec (vs_len (rp_vars p)) ++ nl
  ++ flat_map (item_print (vs_len (rp_vars p))) (all_items p).
Proof.
  rewrite all_items_len. unfold print_nnf_body, all_items.
  rewrite !flat_map_app', lit_items_print, root_items_print.
  assert (Hg : flat_map (item_print (vs_len (rp_vars p))) (map IGate (rp_gates p))
               = flat_map (print_nnf_gate (vs_len (rp_vars p))) (rp_gates p)).
  { induction (rp_gates p) as [|g l IH]; [reflexivity|]. cbn [map flat_map item_print]. rewrite IH. reflexivity. }
  rewrite Hg. reflexivity.
Qed.

Lemma nnf_problem_line_print nn ne ni R : nn <= max_capacity -> ne <= max_capacity -> ni <= max_capacity ->
  nnf_problem_line ([110; 110; 102; 32] ++ dec nn ++ sp ++ dec ne ++ sp ++ dec ni ++ nl ++ R)
  = POk ((nn, ne, ni), R).
Proof.
  intros H1 H2 H3. unfold nnf_problem_line. cbn [app strip_prefix]. rewrite !N.eqb_refl.
  rewrite space1_32. cbn [pbind].
  rewrite p_usize_dec by (try reflexivity; assumption). cbn [pbind].
  cbn [sp app]. rewrite space1_32. cbn [pbind].
  rewrite p_usize_dec by (try reflexivity; assumption). cbn [pbind].
  rewrite space1_32. cbn [pbind].
  rewrite p_usize_dec by (try reflexivity; assumption). cbn [pbind]. reflexivity.
Qed.

(* ------------------------------------------------------------------ *)
(** ** Node literals and gates of the lines *)

Lemma node_lits_app : forall l1 l2 g, node_lits (l1 ++ l2) g = node_lits l1 g ++ node_lits l2 (g + cnt_gates l1).
Proof.
  induction l1 as [|[l|k ch] l1 IH]; intros l2 g; cbn [app node_lits cnt_gates].
  - rewrite N.add_0_r. reflexivity.
  - rewrite IH. reflexivity.
  - rewrite IH. f_equal. f_equal. f_equal. lia.
Qed.

Lemma gates_of_app l1 l2 nodes : gates_of (l1 ++ l2) nodes = gates_of l1 nodes ++ gates_of l2 nodes.
Proof. unfold gates_of. apply flat_map_app'. Qed.

Definition lit_of (x : nline) : alit := match x with NLit l => l | _ => ALConst false end.
Definition only_lits (ls : list nline) : Prop := Forall (fun x => match x with NLit _ => True | _ => False end) ls.

Lemma only_lits_facts ls : only_lits ls ->
  cnt_gates ls = 0 /\ (forall nodes, gates_of ls nodes = []) /\ forall g, node_lits ls g = map lit_of ls.
Proof.
  induction 1 as [|x ls Hx _ IH]; [repeat split|]. destruct x as [l|]; [|contradiction].
  destruct IH as (I1 & I2 & I3). cbn [cnt_gates node_lits map]. split; [exact I1|]. split.
  - intros nodes. unfold gates_of in *. cbn [flat_map app]. apply I2.
  - intros g. rewrite I3. reflexivity.
Qed.

Lemma lit_items_only nv : only_lits (map (item_line nv) (lit_items nv)).
Proof.
  unfold lit_items, only_lits. induction (seqN 0 nv) as [|k l IH]; [constructor|].
  cbn [flat_map app map item_line]. constructor; [exact I|]. constructor; [exact I|exact IH].
Qed.

Lemma root_items_only nv root : only_lits (map (item_line nv) (root_items root)).
Proof. destruct root as [[|]| | |]; repeat constructor. Qed.

Lemma lit_nodes_nth nv : forall k (neg : bool), k < nv ->
  nth (N.to_nat (2 * k + b2n neg)) (map lit_of (map (item_line nv) (lit_items nv))) (ALConst false) = ALIn neg k.
Proof.
  intros k neg Hk. unfold lit_items.
  assert (G : forall (l : list N) j (d : N), (j < length l)%nat ->
            nth (2 * j + N.to_nat (b2n neg))
                (map lit_of (map (item_line nv) (flat_map (fun k0 => [ILit false k0; ILit true k0]) l)))
                (ALConst false) = ALIn neg (nth j l d)).
  { induction l as [|x l IH]; intros j d Hj; [cbn in Hj; lia|].
    cbn [flat_map app map item_line lit_of]. destruct j as [|j].
    - destruct neg; reflexivity.
    - replace (2 * S j + N.to_nat (b2n neg))%nat with (S (S (2 * j + N.to_nat (b2n neg)))) by lia.
      cbn [nth length] in *. apply IH. lia. }
  replace (N.to_nat (2 * k + b2n neg)) with (2 * N.to_nat k + N.to_nat (b2n neg))%nat by (destruct neg; cbn [b2n]; lia).
  rewrite (G (seqN 0 nv) (N.to_nat k) 0) by (rewrite seqN_length; lia).
  f_equal. pose proof (nth_error_seqN 0 nv (N.to_nat k)) as E.
  destruct (Nat.ltb_spec (N.to_nat k) (N.to_nat nv)); [|lia].
  apply nth_error_nth with (d := 0) in E. rewrite E. lia.
Qed.

Lemma gate_nodes_nth nv : forall gates g j, (j < length gates)%nat ->
  nth j (node_lits (map (item_line nv) (map IGate gates)) g) (ALConst false) = ALGate false (g + N.of_nat j).
Proof.
  induction gates as [|x gates IH]; intros g j Hj; [cbn in Hj; lia|].
  cbn [map item_line gate_line node_lits]. destruct j as [|j].
  - cbn [nth]. f_equal. lia.
  - cbn [nth length] in *. rewrite IH by lia. f_equal. lia.
Qed.

Lemma gate_items_cnt nv gates : cnt_gates (map (item_line nv) (map IGate gates)) = lenN gates.
Proof.
  induction gates as [|x gates IH]; [reflexivity|]. cbn [map item_line gate_line cnt_gates].
  rewrite IH, lenN_cons. reflexivity.
Qed.

Lemma gate_items_gates nv gates nodes :
  (forall g l, In g gates -> In l (snd g) -> nth (N.to_nat (nnf_node_of nv l)) nodes (ALConst false) = l) ->
  gates_of (map (item_line nv) (map IGate gates)) nodes = gates.
Proof.
  induction gates as [|x gates IH]; intros H; [reflexivity|].
  unfold gates_of in *. cbn [map item_line gate_line flat_map app]. f_equal.
  - destruct x as [k ins]. cbn [fst snd]. f_equal. rewrite map_map. rewrite <- (map_id ins) at 2.
    apply map_ext_in. intros l Hl. apply (H (k, ins)); [left; reflexivity|exact Hl].
  - apply IH. intros g l Hg Hl. apply (H g l); [right; exact Hg|exact Hl].
Qed.

(* ------------------------------------------------------------------ *)
(** ** The round trip *)

Section Roundtrip.
  Variables (ca : bool) (p : rproblem).
  Hypothesis Hwf : wf_nnf_b ca p = true.

  Let nv := vs_len (rp_vars p).
  Let gates := rp_gates p.
  Let ng := lenN gates.
  Let root := rp_root p.
  Let nn := lenN (all_items p).

  Lemma wf_unpack :
    2 * nv + 3 + ng <= max_capacity /\
    list_sumN (map (fun g => lenN (snd g)) gates) <= max_capacity /\
    (forall g, In g gates -> snd g <> [] /\ lenN (snd g) < two64 /\
                             forall l, In l (snd g) -> nnf_lit_ok_b nv ng l = true) /\
    nnf_root_ok_b nv ng root = true /\ (ca = true -> acyclic_g gates = true).
  Proof.
    unfold wf_nnf_b in Hwf. fold nv gates ng root in Hwf. rewrite !andb_true_iff in Hwf.
    destruct Hwf as ((((H1 & H2) & H3) & H4) & H5).
    split; [apply N.leb_le; exact H1|]. split; [apply N.leb_le; exact H2|]. split; [|split; [exact H4|]].
    - intros g Hg. rewrite forallb_forall in H3. specialize (H3 g Hg). rewrite !andb_true_iff in H3.
      destruct H3 as ((A & B) & C). split; [destruct (snd g); [discriminate|discriminate]|].
      split; [apply N.ltb_lt; exact B|]. intros l Hl. rewrite forallb_forall in C. exact (C l Hl).
    - intros ->. cbn in H5. exact H5.
  Qed.

  Lemma nn_eq : nn = 2 * nv + 2 + ng + nnf_root_extra root.
  Proof. apply all_items_len. Qed.

  Lemma node_of_lt l : nnf_lit_ok_b nv ng l = true -> nnf_node_of nv l < nn.
  Proof.
    rewrite nn_eq. destruct l as [[|]| s k | s g |]; cbn [nnf_lit_ok_b nnf_node_of]; try discriminate; try lia.
    - intros H. apply N.ltb_lt in H. destruct s; cbn [b2n]; lia.
    - intros H. apply andb_true_iff in H. destruct H as [_ H]. apply N.ltb_lt in H. lia.
  Qed.

  Lemma nn_cap : nn <= max_capacity /\ nv <= max_capacity.
  Proof.
    destruct wf_unpack as (Hcap & _). rewrite nn_eq.
    assert (nnf_root_extra root <= 1) by (destruct root; cbn; lia). lia.
  Qed.

  Lemma lines_parse R :
    collect nn (nnf_line nn nv) (flat_map (item_print nv) (all_items p) ++ R)
    = POk (map (item_line nv) (all_items p), R).
  Proof.
    destruct wf_unpack as (Hcap & _ & Hg & Hroot & _). destruct nn_cap as [Hnn Hnv].
    apply collect_print; [reflexivity|apply item_print_ne|].
    intros x r Hx. unfold all_items in Hx. fold nv gates root in Hx.
    repeat (apply in_app_or in Hx; destruct Hx as [Hx|Hx]).
    - unfold lit_items in Hx. apply in_flat_map in Hx. destruct Hx as (k & Hk & Hx). apply In_seqN in Hk.
      destruct Hx as [<-|[<-|[]]]; apply nnf_line_lit; try assumption; lia.
    - destruct Hx as [<-|[<-|[]]]; [apply nnf_line_true|apply nnf_line_false].
    - apply in_map_iff in Hx. destruct Hx as (g & <- & Hgin). destruct (Hg g Hgin) as (Hne & Hlen & Hl).
      apply nnf_line_gate; try assumption.
      apply Forall_forall. intros l Hlin. apply node_of_lt. apply Hl. exact Hlin.
    - unfold root_items in Hx. destruct root as [[|]| s k | |]; try destruct Hx as [<-|[]]; try destruct Hx.
      + apply nnf_line_true.
      + apply nnf_line_false.
      + cbn in Hroot. apply N.ltb_lt in Hroot. apply nnf_line_lit; assumption.
  Qed.

  Let lines := map (item_line nv) (all_items p).
  Let nodes := node_lits lines 0.

  Lemma lines_split :
    lines = map (item_line nv) (lit_items nv) ++ [NLit (ALConst true); NLit (ALConst false)]
            ++ map (item_line nv) (map IGate gates) ++ map (item_line nv) (root_items root).
  Proof. unfold lines, all_items. rewrite !map_app. reflexivity. Qed.

  Lemma nodes_split :
    nodes = map lit_of (map (item_line nv) (lit_items nv)) ++ [ALConst true; ALConst false]
            ++ node_lits (map (item_line nv) (map IGate gates)) 0
            ++ map lit_of (map (item_line nv) (root_items root)).
  Proof.
    unfold nodes. rewrite lines_split.
    destruct (only_lits_facts _ (lit_items_only nv)) as (C1 & _ & N1).
    destruct (only_lits_facts _ (root_items_only nv root)) as (_ & _ & N3).
    rewrite node_lits_app, N1, C1. cbn [app node_lits].
    rewrite node_lits_app, N3. rewrite !N.add_0_l. reflexivity.
  Qed.

  Lemma len_A : length (map lit_of (map (item_line nv) (lit_items nv))) = N.to_nat (2 * nv).
  Proof. rewrite !map_length. pose proof (lit_items_len nv) as H. unfold lenN in H. lia. Qed.

  Lemma nodes_nth l : nnf_lit_ok_b nv ng l = true -> nth (N.to_nat (nnf_node_of nv l)) nodes (ALConst false) = l.
  Proof.
    intros Hl. rewrite nodes_split. pose proof len_A as LA.
    destruct l as [[|]| s k | s g |]; cbn [nnf_lit_ok_b nnf_node_of] in *; try discriminate.
    - rewrite app_nth2 by lia. replace (N.to_nat (2 * nv) - _)%nat with 0%nat by lia. reflexivity.
    - rewrite app_nth2 by lia. replace (N.to_nat (2 * nv + 1) - _)%nat with 1%nat by lia. reflexivity.
    - apply N.ltb_lt in Hl. rewrite app_nth1 by (destruct s; cbn [b2n]; lia). apply lit_nodes_nth. exact Hl.
    - apply andb_true_iff in Hl. destruct Hl as [Hs Hg]. apply negb_true_iff in Hs. subst s. apply N.ltb_lt in Hg.
      rewrite app_nth2 by lia.
      replace (N.to_nat (2 * nv + 2 + g) - length (map lit_of (map (item_line nv) (lit_items nv))))%nat
        with (S (S (N.to_nat g))) by lia.
      cbn [app nth]. rewrite app_nth1.
      + rewrite gate_nodes_nth by (unfold ng, lenN in Hg; lia). f_equal. lia.
      + rewrite node_lits_length, !map_length. unfold ng, lenN in Hg. lia.
  Qed.

  Lemma gates_eval : gates_of lines nodes = gates.
  Proof.
    destruct wf_unpack as (_ & _ & Hg & _ & _).
    rewrite lines_split.
    destruct (only_lits_facts _ (lit_items_only nv)) as (_ & G1 & _).
    destruct (only_lits_facts _ (root_items_only nv root)) as (_ & G3 & _).
    rewrite !gates_of_app, G1, G3, app_nil_r. cbn [app].
    change (gates_of [NLit (ALConst true); NLit (ALConst false)] nodes) with (@nil dgate). cbn [app].
    apply gate_items_gates. intros g l Hgin Hl. apply nodes_nth. apply (Hg g Hgin). exact Hl.
  Qed.

  Lemma root_eval : last nodes (ALConst false) = root.
  Proof.
    destruct wf_unpack as (_ & _ & _ & Hroot & _).
    rewrite nodes_split. rewrite !app_assoc.
    destruct root as [[|]| s k | s g |] eqn:Er; cbn [root_items map item_line lit_of];
      try (rewrite last_last; reflexivity); try discriminate.
    cbn [nnf_root_ok_b] in Hroot. apply andb_true_iff in Hroot. destruct Hroot as [Hs Hg].
    apply negb_true_iff in Hs. subst s. apply N.eqb_eq in Hg.
    rewrite app_nil_r.
    assert (Hne : gates <> []).
    { intros E. unfold ng in Hg. rewrite E in Hg. unfold lenN in Hg. cbn [length] in Hg. lia. }
    destruct (exists_last Hne) as (gs & glast & Egs). rewrite Egs.
    rewrite !map_app. cbn [map item_line]. rewrite node_lits_app. cbn [node_lits gate_line]. rewrite app_assoc, last_last.
    f_equal. rewrite gate_items_cnt. unfold ng in Hg. rewrite Egs, lenN_app in Hg. unfold lenN in Hg at 2.
    cbn [length] in Hg. lia.
  Qed.

  (** what [parse_nnf] does behind the preamble *)
  Lemma tail_parse vars0 (r0 : list N) :
    vs_len vars0 = nv -> r0 = flat_map (item_print nv) (all_items p) ->
    (if nn =? 0 then PErr
     else
       do '(ls, r1) <- collect nn (nnf_line nn nv) r0;
       match multispace0 r1 with
       | _ :: _ => PErr
       | [] =>
         let nodes := node_lits ls 0 in
         let gates := gates_of ls nodes in
         if ca && negb (acyclic_g gates) then PErr
         else POk (mkRProblem vars0 gates (last nodes (ALConst false)))
       end)
    = POk (mkRProblem vars0 gates root).
  Proof.
    intros Hv ->. destruct wf_unpack as (_ & _ & _ & _ & Hac).
    assert (Hnn0 : nn <> 0) by (rewrite nn_eq; lia).
    destruct (N.eqb_spec nn 0); [contradiction|].
    rewrite <- (app_nil_r (flat_map (item_print nv) (all_items p))). rewrite lines_parse. cbn [pbind multispace0].
    fold lines. fold nodes. rewrite gates_eval, root_eval.
    assert (Hc : ca && negb (acyclic_g gates) = false).
    { destruct ca; [|reflexivity]. rewrite (Hac eq_refl). reflexivity. }
    rewrite Hc. reflexivity.
  Qed.
End Roundtrip.

(** round trip without variable order: comments are skipped, the variable set has no order / names *)
Theorem parse_print_nnf ca p : wf_nnf_b ca p = true -> rp_vars p = varset_new (vs_len (rp_vars p)) ->
  parse_nnf false ca (print_nnf p) = POk p.
Proof.
  intros Hwf Hvars. unfold parse_nnf, nnf_preamble, print_nnf. rewrite body_print.
  change (skip_comments false ([110; 110; 102; 32] ++ ?x)) with ([110; 110; 102; 32] ++ x).
  destruct (wf_unpack ca p Hwf) as (_ & Hsum & _). destruct (nn_cap ca p Hwf) as [Hnn Hnv].
  rewrite nnf_problem_line_print by assumption. cbn [pbind].
  etransitivity; [exact (tail_parse ca p Hwf (varset_new (vs_len (rp_vars p))) _ eq_refl eq_refl)|].
  rewrite <- Hvars. destruct p; reflexivity.
Qed.

(** round trip with variable order: the lines of [print_vars] in front of the problem line *)
Theorem parse_print_nnf_vo ca p : wf_nnf_b ca p = true -> wf_vars_b (rp_vars p) = true ->
  parse_nnf true ca (print_nnf_vo p) = POk p.
Proof.
  intros Hwf Hvars. unfold parse_nnf, nnf_preamble, print_nnf_vo. rewrite body_print.
  destruct (steps_print_vars None (rp_vars p)
              ([110; 110; 102; 32] ++ dec (lenN (all_items p)) ++ sp
               ++ dec (list_sumN (map (fun g => lenN (snd g)) (rp_gates p))) ++ sp ++ dec (vs_len (rp_vars p)) ++ nl
               ++ flat_map (item_print (vs_len (rp_vars p))) (all_items p)) Hvars)
    as (st & Hsteps & Hb & Ha & Hvs & _).
  rewrite (pre_loop_run _ _ _ _ _ Hsteps) by (apply pre_step_break; reflexivity). cbn [pbind].
  rewrite Hb.
  destruct (wf_unpack ca p Hwf) as (_ & Hsum & _). destruct (nn_cap ca p Hwf) as [Hnn Hnv].
  rewrite nnf_problem_line_print by assumption. cbn [pbind]. rewrite Ha, Hvs.
  etransitivity; [exact (tail_parse ca p Hwf (rp_vars p) _ eq_refl eq_refl)|]. destruct p; reflexivity.
Qed.

(** the hypotheses are satisfiable: three variables with an order tree and names, forward
    reference from gate 0 to gate 1, all three gate kinds *)
Definition ex_nnf : rproblem :=
  mkRProblem (mkVarSet 3 [1; 2; 0] (Some (TInner [TInner [TLeaf 1; TLeaf 2]; TLeaf 0])) [Some [97]; None; Some [99; 32; 100]])
             [(DOr, [ALGate false 1; ALIn true 0]); (DXor, [ALIn false 1; ALIn false 2; ALConst true]);
              (DAnd, [ALGate false 0; ALGate false 1])]
             (ALGate false 2).

Lemma ex_nnf_wf : wf_nnf_b true ex_nnf = true /\ wf_vars_b (rp_vars ex_nnf) = true /\
                  parse_nnf true true (print_nnf_vo ex_nnf) = POk ex_nnf.
Proof. split; [vm_compute; reflexivity|]. split; vm_compute; reflexivity. Qed.
