(** * C18q proofs, part 3: the variable-order preamble ([pre_loop] of TreeParse.v)

    - [pre_loop_total]: never [PFuel] with the length of the input (+1) as fuel; every iteration
      consumes at least one byte
    - [varset_valid]: the variable set of every accepted preamble satisfies the three assertions of
      [VarSet::check_valid] (the debug assertion of the real code), its names vector is not longer
      than the number of variables
    - [varset_order_perm]: the linear order is empty or a permutation of all variables; with an
      order tree it is the flattened tree *)
From Coq Require Import List NArith ZArith Bool Arith Lia Permutation.
From OxiVerif Require Import IO.AigerParse IO.AigerLexProofs IO.AigerSecProofs IO.AigerTotalProofs
  IO.DimacsParse IO.TreeParse IO.TreeProofs.
Import ListNotations.
Open Scope N_scope.

Arguments N.add : simpl never.
Arguments N.sub : simpl never.
Arguments N.mul : simpl never.
Arguments N.ltb : simpl never.
Arguments N.leb : simpl never.
Arguments N.eqb : simpl never.
Arguments N.of_nat : simpl never.
Arguments N.to_nat : simpl never.

(* ------------------------------------------------------------------ *)
(** ** Consumption and totality *)

Lemma skip_line_len : forall bs, (length (skip_line bs) <= length bs)%nat.
Proof. induction bs as [|b r IH]; cbn; [lia|]. destruct (b =? 10); lia. Qed.

Lemma c_space1_len bs r : c_space1 bs = Some r -> (length r + 2 <= length bs)%nat.
Proof.
  unfold c_space1. destruct (strip_prefix [99] bs) as [r0|] eqn:E; [|discriminate].
  apply strip_prefix_len in E. cbn [length] in E.
  pose proof (space1_len r0) as H. unfold strict0 in H.
  destruct (space1 r0) as [r1| |]; try discriminate. intros X; inversion X; subst. lia.
Qed.

Lemma tag2_space1_len a b bs r : tag2_space1 a b bs = Some r -> (length r < length bs)%nat.
Proof.
  unfold tag2_space1. destruct (strip_prefix [a; b] bs) as [r0|] eqn:E; [|discriminate].
  apply strip_prefix_len in E. cbn [length] in E.
  pose proof (space1_len r0) as H. unfold strict0 in H.
  destruct (space1 r0) as [r1| |]; try discriminate. intros X; inversion X; subst. lia.
Qed.

Lemma eol_len bs : strict0 (eol bs) bs.
Proof.
  unfold eol. pose proof (space0_len bs). pose proof (line_ending_len (space0 bs)) as H1.
  unfold strict0 in *. destruct (line_ending (space0 bs)); try exact I; try contradiction. lia.
Qed.

Lemma var_order_record_len bs : strict (var_order_record bs) bs.
Proof.
  unfold var_order_record, strict.
  pose proof (p_u64_len bs) as H0. unfold strict in H0.
  destruct (p_u64 bs) as [[v r0]| |]; cbn [pbind]; try exact I; [|contradiction].
  pose proof (not_line_ending_nofuel r0) as Hn.
  destruct (not_line_ending r0) as [[name r1]| |] eqn:E; cbn [pbind]; try exact I; [|congruence].
  apply not_line_ending_len in E.
  pose proof (line_ending_len r1) as H1. unfold strict0 in H1.
  destruct (line_ending r1) as [r2| |]; cbn [pbind]; try exact I; [|contradiction].
  destruct (trim name); [lia|]. destruct name as [|b ?]; [exact I|]. destruct (is_sp b); [lia|exact I].
Qed.

(** an iteration that continues consumes input; no iteration reports [PFuel] *)
Lemma pre_step_len co st bs :
  match pre_step co st bs with
  | POk (Some (_, r)) => (length r < length bs)%nat
  | POk None => True
  | PErr => True
  | PFuel => False
  end.
Proof.
  unfold pre_step. destruct (c_space1 bs) as [nx|] eqn:Ec; [|exact I].
  apply c_space1_len in Ec.
  destruct (match co with Some _ => tag2_space1 99 111 nx | None => None end) as [nx2|] eqn:Eco.
  - assert (Hl : (length nx2 < length nx)%nat).
    { destruct co; [|discriminate]. eapply tag2_space1_len; eassumption. }
    destruct co as [[|]|]; [| |discriminate].
    + destruct (ps_ctree st); [exact I|].
      pose proof (p_tree_len false false nx2) as Ht. unfold strict in Ht.
      destruct (p_tree false false nx2) as [[[t mx] r]| |]; cbn [pbind]; try exact I; [|contradiction].
      pose proof (eol_len r) as He. unfold strict0 in He.
      destruct (eol r) as [r'| |]; cbn [pbind]; try exact I; [|contradiction]. lia.
    + pose proof (skip_line_len bs). destruct bs as [|b bs']; [cbn in Ec; lia|].
      cbn [skip_line]. destruct (b =? 10); cbn [length]; [lia|]. pose proof (skip_line_len bs'). lia.
  - destruct (tag2_space1 118 111 nx) as [nx2|] eqn:Evo.
    + apply tag2_space1_len in Evo.
      destruct (ps_tree st); [exact I|].
      pose proof (p_tree_len true true nx2) as Ht. unfold strict in Ht.
      destruct (p_tree true true nx2) as [[[t mx] r]| |]; cbn [pbind]; try exact I; [|contradiction].
      pose proof (eol_len r) as He. unfold strict0 in He.
      destruct (eol r) as [r'| |]; cbn [pbind]; try exact I; [|contradiction]. lia.
    + pose proof (var_order_record_len nx) as Hv. unfold strict in Hv.
      destruct (var_order_record nx) as [[[v name] r]| |]; try exact I.
      destruct (record_apply st v name); [lia|exact I].
Qed.

Lemma pre_loop_nofuel co : forall f st bs, (length bs < f)%nat -> pre_loop f co st bs <> PFuel.
Proof.
  induction f as [|f IH]; intros st bs Hf; [lia|]. cbn [pre_loop].
  pose proof (pre_step_len co st bs) as H.
  destruct (pre_step co st bs) as [[[st' r]|]| |]; cbn [pbind]; try discriminate; [|contradiction].
  apply IH. lia.
Qed.

Lemma pre_loop_len co : forall f st bs st' r, pre_loop f co st bs = POk (st', r) ->
  (length r <= length bs)%nat.
Proof.
  induction f as [|f IH]; intros st bs st' r H; [discriminate|]. cbn [pre_loop] in H.
  pose proof (pre_step_len co st bs) as Hs.
  destruct (pre_step co st bs) as [[[st1 r1]|]| |]; cbn [pbind] in H; try discriminate.
  - apply IH in H. lia.
  - inversion H; subst. lia.
Qed.

(* ------------------------------------------------------------------ *)
(** ** The invariant of the loop *)

(** without an order tree the order lists distinct variables that have an entry in the names
    vector; with a tree it is the flattened tree, a permutation of [0 .. max] *)
Definition ps_inv (st : pstate) : Prop :=
  match ps_tree st with
  | None =>
    NoDup (ps_order st) /\
    forall v, In v (ps_order st) -> v < lenN (ps_names st) /\ nth (N.to_nat v) (ps_names st) None <> None
  | Some (t, mx) =>
    ps_order st = flatten t /\ Permutation (flatten t) (seqN 0 (mx + 1)) /\ lenN (flatten t) = mx + 1
  end.

Lemma ps_inv_init : ps_inv ps_init.
Proof. split; [constructor|intros v []]. Qed.

Lemma nth_upd {A} : forall (l : list A) i x j d,
  nth j (upd l i x) d = if (Nat.eqb j i && Nat.ltb i (length l))%bool then x else nth j l d.
Proof.
  induction l as [|y l IH]; intros i x j d.
  - cbn. destruct j, i; cbn; try reflexivity. rewrite andb_false_r. reflexivity.
  - destruct i as [|i], j as [|j]; cbn [upd nth length]; try reflexivity.
    rewrite IH. change (Nat.eqb (S j) (S i)) with (Nat.eqb j i).
    change (Nat.ltb (S i) (S (length l))) with (Nat.ltb i (length l)). reflexivity.
Qed.

Lemma lenN_app {A} (a b : list A) : lenN (a ++ b) = lenN a + lenN b.
Proof. unfold lenN. rewrite app_length. lia. Qed.

Lemma lenN_repeat {A} (x : A) n : lenN (repeat x n) = N.of_nat n.
Proof. unfold lenN. rewrite repeat_length. reflexivity. Qed.

Lemma lenN_upd {A} (l : list A) i x : lenN (upd l i x) = lenN l.
Proof. unfold lenN. rewrite upd_length. reflexivity. Qed.

Lemma nth_app_repeat_None {A} (l : list (option A)) k j :
  nth j (l ++ repeat None k) None = nth j l None.
Proof.
  destruct (Nat.lt_ge_cases j (length l)) as [H|H].
  - apply app_nth1. exact H.
  - rewrite app_nth2 by exact H. rewrite (nth_overflow l) by exact H.
    destruct (Nat.lt_ge_cases (j - length l) k) as [H2|H2].
    + apply nth_repeat.
    + apply nth_overflow. rewrite repeat_length. exact H2.
Qed.

Lemma grow_names_spec names v names' : grow_names names v = Some names' -> v <> 0 ->
  lenN names' = N.max (lenN names) v /\
  nth (N.to_nat (v - 1)) names' None = None /\
  forall j, nth j names' None = nth j names None.
Proof.
  unfold grow_names. intros H Hv. destruct (N.ltb_spec (lenN names) v) as [Hlt|Hge].
  - inversion H; subst names'. clear H. split; [|split].
    + rewrite lenN_app, lenN_repeat. lia.
    + rewrite nth_app_repeat_None. apply nth_overflow. unfold lenN in Hlt. lia.
    + intros j. apply nth_app_repeat_None.
  - destruct (nth (N.to_nat (v - 1)) names None) eqn:E; [discriminate|].
    inversion H; subst names'. split; [lia|]. split; [exact E|reflexivity].
Qed.

Lemma NoDup_snoc {A} (l : list A) x : NoDup l -> ~ In x l -> NoDup (l ++ [x]).
Proof.
  intros Hl Hx. apply NoDup_rev in Hl. rewrite <- (rev_involutive (l ++ [x])). apply NoDup_rev.
  rewrite rev_app_distr. cbn [rev app]. constructor; [rewrite <- in_rev; exact Hx|exact Hl].
Qed.

Lemma record_apply_inv st v name st' : ps_inv st -> record_apply st v name = Some st' -> ps_inv st'.
Proof.
  intros Hinv H. unfold record_apply in H.
  destruct (N.eqb_spec v 0) as [|Hv0]; [discriminate|].
  destruct (max_capacity <? v); [discriminate|].
  destruct (grow_names (ps_names st) v) as [names|] eqn:Hg; [|discriminate].
  destruct (name_entry names name) as [e|]; [|discriminate].
  inversion H; subst st'. clear H.
  destruct (grow_names_spec _ _ _ Hg Hv0) as (Hlen & Hnone & Hsame).
  unfold ps_inv in *. cbn [ps_tree ps_order ps_names].
  destruct (ps_tree st) as [[t mx]|]; [exact Hinv|].
  destruct Hinv as [Hnd Hin].
  assert (Hvlt : (N.to_nat (v - 1) < length names)%nat) by (unfold lenN in Hlen; lia).
  split.
  - apply NoDup_snoc; [exact Hnd|]. intros Hc. destruct (Hin _ Hc) as [_ Hp].
    rewrite <- Hsame in Hp. congruence.
  - intros w Hw. rewrite lenN_upd. apply in_app_or in Hw. destruct Hw as [Hw|[<-|[]]].
    + destruct (Hin _ Hw) as [Hl Hp]. split; [lia|].
      rewrite nth_upd. destruct (Nat.eqb (N.to_nat w) (N.to_nat (v - 1)) && Nat.ltb (N.to_nat (v - 1)) (length names))%bool;
        [discriminate|]. rewrite Hsame. exact Hp.
    + split; [lia|]. rewrite nth_upd, Nat.eqb_refl. cbn [andb].
      destruct (Nat.ltb_spec (N.to_nat (v - 1)) (length names)); [discriminate|lia].
Qed.

Lemma pre_step_inv co st bs st' r : ps_inv st -> pre_step co st bs = POk (Some (st', r)) -> ps_inv st'.
Proof.
  intros Hinv H. unfold pre_step in H. destruct (c_space1 bs) as [nx|]; [|discriminate].
  destruct (match co with Some _ => tag2_space1 99 111 nx | None => None end) as [nx2|].
  - destruct co as [[|]|].
    + destruct (ps_ctree st); [discriminate|].
      destruct (p_tree false false nx2) as [[[t mx] r0]| |]; cbn [pbind] in H; try discriminate.
      destruct (eol r0); cbn [pbind] in H; try discriminate. inversion H; subst. exact Hinv.
    + inversion H; subst. exact Hinv.
    + inversion H; subst. exact Hinv.
  - destruct (tag2_space1 118 111 nx) as [nx2|].
    + destruct (ps_tree st) eqn:Et; [discriminate|].
      destruct (p_tree true true nx2) as [[[t mx] r0]| |] eqn:Ep; cbn [pbind] in H; try discriminate.
      destruct (eol r0); cbn [pbind] in H; try discriminate. inversion H; subst.
      unfold ps_inv. cbn [ps_tree ps_order]. destruct (p_tree_perm _ _ _ _ _ Ep) as [P L]. auto.
    + destruct (var_order_record nx) as [[[v name] r0]| |]; try discriminate.
      destruct (record_apply st v name) as [st1|] eqn:Ea; [|discriminate].
      inversion H; subst. eapply record_apply_inv; eassumption.
Qed.

Lemma pre_loop_inv co : forall f st bs st' r, ps_inv st -> pre_loop f co st bs = POk (st', r) -> ps_inv st'.
Proof.
  induction f as [|f IH]; intros st bs st' r Hinv H; [discriminate|]. cbn [pre_loop] in H.
  destruct (pre_step co st bs) as [[[st1 r1]|]| |] eqn:Es; cbn [pbind] in H; try discriminate.
  - eapply IH; [|exact H]. eapply pre_step_inv; eassumption.
  - inversion H; subst. exact Hinv.
Qed.

(* ------------------------------------------------------------------ *)
(** ** The variable set of an accepted preamble *)

Lemma strip_trailing_last l : strip_trailing l = [] \/ named (last (strip_trailing l) None) = true.
Proof.
  induction l as [|x l IH]; [left; reflexivity|]. cbn [strip_trailing].
  destruct (strip_trailing l) as [|y r] eqn:E.
  - destruct (named x) eqn:En; [right; exact En|left; reflexivity].
  - right. destruct IH as [IH|IH]; [discriminate|]. exact IH.
Qed.

Lemma strip_trailing_length l : (length (strip_trailing l) <= length l)%nat.
Proof.
  induction l as [|x l IH]; [cbn; lia|]. cbn [strip_trailing].
  destruct (strip_trailing l); [destruct (named x)|]; cbn [length] in *; lia.
Qed.

(** [names.last() != Some(&None)] after the cleanup *)
Lemma cleanup_last l : cleanup l = [] \/ last (cleanup l) None <> None.
Proof.
  unfold cleanup. destruct (strip_trailing_last l) as [E|E]; [left; rewrite E; reflexivity|].
  right. destruct (strip_trailing l) as [|y r] eqn:Es; [discriminate|].
  rewrite <- Es in *. clear Es y r.
  assert (H : forall l0 : vnames, l0 <> [] ->
            last (map (fun o : option vname => match o with Some [] => None | _ => o end) l0) None
            = (fun o : option vname => match o with Some [] => None | _ => o end) (last l0 None)).
  { induction l0 as [|a [|b l1] IH]; intros Hne; [congruence|reflexivity|].
    change (last (a :: b :: l1) None) with (last (b :: l1) None).
    rewrite <- IH by discriminate. reflexivity. }
  destruct (strip_trailing l) as [|y r] eqn:Es; [discriminate|]. rewrite <- Es in *.
  rewrite H by (rewrite Es; discriminate).
  destruct (last (strip_trailing l) None) as [[|c n]|]; cbn in E; try discriminate E. discriminate.
Qed.

Lemma cleanup_length l : (length (cleanup l) <= length l)%nat.
Proof. unfold cleanup. rewrite map_length. apply strip_trailing_length. Qed.

(** what [VarSet::check_valid] asserts, plus "no name for a variable that does not exist" *)
Definition varset_valid (vs : varset) : Prop :=
  (vs_order vs = [] \/ lenN (vs_order vs) = vs_len vs) /\
  (vs_order vs = [] -> vs_tree vs = None) /\
  (vs_names vs = [] \/ last (vs_names vs) None <> None) /\
  lenN (vs_names vs) <= vs_len vs.

(** the linear order is empty, or a permutation of all variables; with a tree it is the
    flattened tree *)
Definition varset_order_ok (vs : varset) : Prop :=
  (vs_order vs = [] \/ Permutation (vs_order vs) (seqN 0 (vs_len vs))) /\
  (forall t, vs_tree vs = Some t -> vs_order vs = flatten t).

Lemma NoDup_bounded_perm (l : list N) n : NoDup l -> (forall v, In v l -> v < n) -> lenN l = n ->
  Permutation l (seqN 0 n).
Proof.
  intros Hnd Hb Hl. apply NoDup_Permutation_bis; [exact Hnd| |].
  - rewrite seqN_length. unfold lenN in Hl. lia.
  - intros v Hv. apply In_seqN. specialize (Hb v Hv). lia.
Qed.

Theorem pre_loop_varset co f bs st r nv :
  pre_loop f co ps_init bs = POk (st, r) -> pre_before st = true -> pre_after st nv = true ->
  varset_valid (varset_of st nv) /\ varset_order_ok (varset_of st nv).
Proof.
  intros Hl Hb Ha. pose proof (pre_loop_inv co f _ _ _ _ ps_inv_init Hl) as Hinv.
  unfold ps_inv, pre_before, pre_after, varset_of, varset_valid, varset_order_ok in *.
  cbn [vs_order vs_len vs_tree vs_names].
  pose proof (cleanup_last (ps_names st)) as Hlast.
  pose proof (cleanup_length (ps_names st)) as Hclen.
  destruct (ps_tree st) as [[t mx]|]; cbn [option_map fst].
  - destruct Hinv as (Ho & P & L). apply andb_true_iff in Ha. destruct Ha as [Ha1 Ha2].
    apply N.eqb_eq in Ha1. apply N.leb_le in Ha2. subst nv. rewrite Ho.
    split; [|split].
    + split; [right; exact L|]. split.
      * intros E. rewrite E in L. unfold lenN in L. cbn [length] in L. lia.
      * split; [exact Hlast|]. unfold lenN in *. lia.
    + right. exact P.
    + intros t0 E. inversion E; subst. reflexivity.
  - destruct Hinv as [Hnd Hin]. apply N.eqb_eq in Hb.
    destruct (ps_order st) as [|o os] eqn:Eo.
    + split; [|split].
      * split; [left; reflexivity|]. split; [reflexivity|]. split; [exact Hlast|].
        unfold lenN in *. cbn [length] in Hb. lia.
      * left; reflexivity.
      * discriminate.
    + rewrite <- Eo in *. apply N.eqb_eq in Ha. subst nv.
      split; [|split].
      * split; [right; reflexivity|]. split; [rewrite Eo; discriminate|]. split; [exact Hlast|].
        unfold lenN in *. lia.
      * right. apply NoDup_bounded_perm; [exact Hnd| |reflexivity].
        intros v Hv. destruct (Hin v Hv) as [H1 _]. lia.
      * discriminate.
Qed.
