(** * C18q proofs, part 6: round trip of the variable-order preamble

    [pre_loop_print_vars]: the lines [print_vars vs] (an order tree and / or records, names) of a
    well-formed variable set [vs] are read back by the preamble loop as [vs]: the checks before and
    after the problem line pass and [varset_of] gives [vs] again.  [pre_loop_print_ctree]: the
    same with a clause tree line behind them (DIMACS, [clause_tree = true]). *)
From Coq Require Import List NArith ZArith Bool Arith Lia Permutation.
From OxiVerif Require Import IO.AigerParse IO.AigerLexProofs IO.AigerSecProofs IO.AigerTotalProofs
  IO.AigerSymProofs IO.DimacsParse IO.DimacsProofs IO.TreeParse IO.TreeProofs IO.PreambleProofs.
Import ListNotations.
Open Scope N_scope.

Arguments N.add : simpl never.
Arguments N.sub : simpl never.
Arguments N.mul : simpl never.
Arguments N.ltb : simpl never.
Arguments N.leb : simpl never.
Arguments N.eqb : simpl never.
Arguments N.of_nat : simpl never.
Arguments N.to_nat : simpl never.

(* ------------------------------------------------------------------ *)
(** ** Runs of the loop *)

Inductive steps (co : option bool) : pstate -> list N -> pstate -> list N -> Prop :=
| steps_refl st bs : steps co st bs st bs
| steps_step st bs st1 bs1 st2 bs2 :
    pre_step co st bs = POk (Some (st1, bs1)) -> steps co st1 bs1 st2 bs2 -> steps co st bs st2 bs2.

Lemma steps_trans co st bs st1 bs1 st2 bs2 :
  steps co st bs st1 bs1 -> steps co st1 bs1 st2 bs2 -> steps co st bs st2 bs2.
Proof. induction 1; [auto|]. intros H2. econstructor; [eassumption|auto]. Qed.

Lemma steps_one co st bs st1 bs1 : pre_step co st bs = POk (Some (st1, bs1)) -> steps co st bs st1 bs1.
Proof. intros H. econstructor; [exact H|constructor]. Qed.

(** a run that ends in a state where the loop breaks *)
Lemma pre_loop_steps co st bs st' bs' : steps co st bs st' bs' -> pre_step co st' bs' = POk None ->
  forall f, pre_loop f co st bs = PFuel \/ pre_loop f co st bs = POk (st', bs').
Proof.
  induction 1 as [st bs|st bs st1 bs1 st2 bs2 Hs _ IH]; intros He f.
  - destruct f as [|f]; [left; reflexivity|]. right. cbn [pre_loop]. rewrite He. reflexivity.
  - destruct f as [|f]; [left; reflexivity|]. cbn [pre_loop]. rewrite Hs. cbn [pbind]. apply IH. exact He.
Qed.

Lemma pre_loop_run co st bs st' bs' : steps co st bs st' bs' -> pre_step co st' bs' = POk None ->
  pre_loop (S (length bs)) co st bs = POk (st', bs').
Proof.
  intros Hs He. destruct (pre_loop_steps _ _ _ _ _ Hs He (S (length bs))) as [E|E]; [|exact E].
  exfalso. eapply pre_loop_nofuel; [|exact E]. lia.
Qed.

(** the loop breaks in front of anything that does not begin with 'c' *)
Lemma pre_step_break co st bs : starts_with 99 bs = false -> pre_step co st bs = POk None.
Proof.
  intros H. unfold pre_step, c_space1. destruct bs as [|b r]; [reflexivity|].
  cbn [starts_with] in H. cbn [strip_prefix]. rewrite N.eqb_sym, H. reflexivity.
Qed.

(* ------------------------------------------------------------------ *)
(** ** One record line *)

Definition vname_ok (n : vname) : Prop := vname_ok_b n = true.

Lemma vname_ok_facts n : vname_ok n -> n <> [] /\ name_ok n /\ valid_utf8 n = true.
Proof.
  unfold vname_ok, vname_ok_b. rewrite !andb_true_iff. intros [[H1 H2] H3].
  split; [destruct n; [discriminate|discriminate]|]. split; assumption.
Qed.

Lemma c_space1_dec n R : c_space1 ([99; 32] ++ dec n ++ R) = Some (dec n ++ R).
Proof.
  unfold c_space1. cbn [app strip_prefix]. rewrite N.eqb_refl. rewrite space1_32. reflexivity.
Qed.

Lemma tag2_space1_digit a b c R : is_digit c = true -> is_digit a = false -> tag2_space1 a b (c :: R) = None.
Proof.
  intros Hc Ha. unfold tag2_space1. cbn [strip_prefix].
  destruct (N.eqb_spec a c) as [->|]; [congruence|reflexivity].
Qed.

Lemma tag2_space1_dec a b n R : is_digit a = false -> tag2_space1 a b (dec n ++ R) = None.
Proof.
  intros Ha. destruct (dec_head n) as (c & t & E & Hc). rewrite E. cbn [app].
  apply tag2_space1_digit; assumption.
Qed.

Lemma var_order_record_print v (o : option vname) R :
  v + 1 < two64 -> (forall n, o = Some n -> vname_ok n) ->
  var_order_record (dec (v + 1) ++ match o with Some n => 32 :: n | None => [] end ++ nl ++ R)
  = POk ((v + 1, o), R).
Proof.
  intros Hv Ho. unfold var_order_record.
  assert (Hnd : nodigit (match o with Some n => 32 :: n | None => [] end ++ nl ++ R)).
  { destruct o; reflexivity. }
  rewrite p_u64_dec by assumption. cbn [pbind].
  destruct o as [n|].
  - destruct (vname_ok_facts n (Ho n eq_refl)) as (Hne & Hok & _).
    destruct (name_ok_facts n Hok) as (Hnl & Hnosp & _).
    rewrite (not_line_ending_name (32 :: n) R).
    2:{ constructor; [split; discriminate|exact Hnl]. }
    cbn [pbind]. change (line_ending (nl ++ R)) with (POk R : pres (list N)). cbn [pbind].
    unfold trim. cbn [space0 is_sp]. replace ((32 =? 32) || (32 =? 9)) with true by reflexivity.
    rewrite space0_nosp by exact Hnosp. rewrite trim_end_ok by exact Hok.
    destruct n as [|b n']; [congruence|]. reflexivity.
  - cbn [app]. change (not_line_ending (nl ++ R)) with (POk ([], nl ++ R) : pres (list N * list N)).
    cbn [pbind]. change (line_ending (nl ++ R)) with (POk R : pres (list N)). reflexivity.
Qed.

Lemma pre_step_record co st v o R st' :
  v + 1 < two64 -> (forall n, o = Some n -> vname_ok n) ->
  record_apply st (v + 1) o = Some st' ->
  pre_step co st (print_record (v, o) ++ R) = POk (Some (st', R)).
Proof.
  intros Hv Ho Ha. unfold pre_step, print_record. cbn [fst snd]. rewrite <- !app_assoc.
  rewrite c_space1_dec.
  assert (E1 : match co with Some _ => tag2_space1 99 111 (dec (v + 1) ++ match o with Some n => 32 :: n | None => [] end ++ nl ++ R) | None => None end = None).
  { destruct co; [apply tag2_space1_dec; reflexivity|reflexivity]. }
  rewrite E1. rewrite tag2_space1_dec by reflexivity.
  rewrite var_order_record_print by assumption. rewrite Ha. reflexivity.
Qed.

(* ------------------------------------------------------------------ *)
(** ** A block of record lines *)

Definition mark (o : option vname) : option vname := Some (match o with Some n => n | None => [] end).

(** the names vector after a record *)
Definition rec_names (nm : vnames) (r : N * option vname) : vnames :=
  upd (nm ++ repeat None (N.to_nat (fst r + 1 - lenN nm))) (N.to_nat (fst r)) (mark (snd r)).

Lemma bytes_eqb_eq a : forall b, bytes_eqb a b = true <-> a = b.
Proof.
  induction a as [|x a IH]; intros [|y b]; cbn [bytes_eqb]; try (split; [discriminate|congruence]).
  - split; reflexivity.
  - rewrite andb_true_iff, N.eqb_eq, IH. split; [intros [-> ->]; reflexivity|intros E; inversion E; auto].
Qed.

Lemma name_taken_iff nm n : name_taken nm n = true <-> In (Some n) nm.
Proof.
  unfold name_taken. rewrite existsb_exists. split.
  - intros ([x|] & Hx & E); [|discriminate]. apply bytes_eqb_eq in E. subst. exact Hx.
  - intros H. exists (Some n). split; [exact H|apply bytes_eqb_eq; reflexivity].
Qed.

Lemma In_upd {A} : forall (l : list A) i x y, In y (upd l i x) -> In y l \/ y = x.
Proof.
  induction l as [|z l IH]; intros i x y H; [destruct H|].
  destruct i as [|i]; cbn [upd] in H; destruct H as [H|H]; subst; auto.
  - left; right; exact H.
  - left; left; reflexivity.
  - destruct (IH _ _ _ H); [left; right; assumption|right; assumption].
Qed.

Lemma In_app_repeat_None {A} (l : list (option A)) k y : In y (l ++ repeat None k) -> In y l \/ y = None.
Proof.
  intros H. apply in_app_or in H. destruct H as [H|H]; [left; exact H|right]. apply repeat_spec in H. exact H.
Qed.

Lemma record_apply_ok st v o :
  v + 1 <= max_capacity ->
  nth (N.to_nat v) (ps_names st) None = None ->
  (forall n, o = Some n -> valid_utf8 n = true /\ ~ In (Some n) (ps_names st)) ->
  record_apply st (v + 1) o
  = Some (mkPS (rec_names (ps_names st) (v, o))
               (match ps_tree st with None => ps_order st ++ [v] | Some _ => ps_order st end)
               (ps_tree st) (ps_ctree st)).
Proof.
  intros Hv Hslot Ho. unfold record_apply.
  destruct (N.eqb_spec (v + 1) 0) as [|Hv0]; [lia|]. destruct (N.ltb_spec max_capacity (v + 1)) as [|Hv1]; [lia|].
  replace (v + 1 - 1) with v by lia.
  set (nm := ps_names st) in *.
  assert (Hg : grow_names nm (v + 1) = Some (nm ++ repeat None (N.to_nat (v + 1 - lenN nm)))).
  { unfold grow_names. destruct (N.ltb_spec (lenN nm) (v + 1)) as [|Hge]; [reflexivity|].
    replace (v + 1 - 1) with v by lia. rewrite Hslot.
    replace (v + 1 - lenN nm) with 0 by lia. cbn [repeat]. rewrite app_nil_r. reflexivity. }
  rewrite Hg.
  assert (He : name_entry (nm ++ repeat None (N.to_nat (v + 1 - lenN nm))) o
               = Some (match o with Some n => n | None => [] end)).
  { unfold name_entry. destruct o as [n|]; [|reflexivity]. destruct (Ho n eq_refl) as [Hu Hn]. rewrite Hu.
    destruct (name_taken (nm ++ repeat None (N.to_nat (v + 1 - lenN nm))) n) eqn:Et; [|reflexivity].
    apply name_taken_iff in Et. apply In_app_repeat_None in Et. destruct Et as [Et|Et]; [contradiction|discriminate]. }
  rewrite He. reflexivity.
Qed.

Lemma rec_names_nth nm r i :
  nth i (rec_names nm r) None = if Nat.eqb i (N.to_nat (fst r)) then mark (snd r) else nth i nm None.
Proof.
  unfold rec_names. rewrite nth_upd, nth_app_repeat_None.
  destruct (Nat.eqb_spec i (N.to_nat (fst r))) as [->|]; [|reflexivity]. cbn [andb].
  destruct (Nat.ltb_spec (N.to_nat (fst r)) (length (nm ++ repeat None (N.to_nat (fst r + 1 - lenN nm)))))
    as [|Hge]; [reflexivity|].
  rewrite app_length, repeat_length in Hge. unfold lenN in Hge. lia.
Qed.

Lemma rec_names_len nm r : lenN (rec_names nm r) = N.max (lenN nm) (fst r + 1).
Proof. unfold rec_names. rewrite lenN_upd, lenN_app, lenN_repeat. lia. Qed.

Lemma rec_names_In nm r y : In y (rec_names nm r) -> In y nm \/ y = None \/ y = mark (snd r).
Proof.
  unfold rec_names. intros H. apply In_upd in H. destruct H as [H|H]; [|auto].
  apply In_app_repeat_None in H. tauto.
Qed.

(** names of the records, in order *)
Definition rnames (recs : list (N * option vname)) : list vname :=
  flat_map (fun r => match snd r with Some n => [n] | None => [] end) recs.

Definition ord_after (tr : option (tree * N)) (ord : list N) (recs : list (N * option vname)) : list N :=
  match tr with None => ord ++ map fst recs | Some _ => ord end.

Lemma records_run co tr ct : forall recs nm ord R,
  NoDup (map fst recs) -> NoDup (rnames recs) ->
  (forall r, In r recs -> fst r + 1 <= max_capacity /\ nth (N.to_nat (fst r)) nm None = None /\
                          (forall n, snd r = Some n -> vname_ok n /\ ~ In (Some n) nm)) ->
  steps co (mkPS nm ord tr ct) (flat_map print_record recs ++ R)
           (mkPS (fold_left rec_names recs nm) (ord_after tr ord recs) tr ct) R.
Proof.
  induction recs as [|[v o] recs IH]; intros nm ord R Hk Hn Hall.
  - cbn [flat_map app fold_left]. replace (ord_after tr ord []) with ord; [constructor|].
    unfold ord_after. destruct tr; [reflexivity|]. cbn [map]. rewrite app_nil_r. reflexivity.
  - cbn [flat_map fold_left]. rewrite <- app_assoc.
    destruct (Hall (v, o) (or_introl eq_refl)) as (Hv & Hslot & Ho). cbn [fst snd] in *.
    econstructor.
    + apply pre_step_record.
      * unfold max_capacity, two64 in *. lia.
      * intros n E. apply (Ho n E).
      * apply record_apply_ok; cbn [ps_names]; [exact Hv|exact Hslot|].
        intros n E. destruct (Ho n E) as [Hok Hnot]. split; [apply vname_ok_facts; exact Hok|exact Hnot].
    + cbn [ps_names ps_order ps_tree ps_ctree].
      cbn [map] in Hk. inversion Hk as [|? ? Hv1 Hk1]; subst.
      assert (Hn1 : NoDup (rnames recs) /\ forall n, o = Some n -> ~ In n (rnames recs)).
      { unfold rnames in *. cbn [flat_map snd] in Hn. destruct o as [n|].
        - cbn [app] in Hn. inversion Hn; subst. split; [assumption|]. intros n' E; inversion E; subst. assumption.
        - split; [exact Hn|discriminate]. }
      destruct Hn1 as [Hn1 Hfresh].
      replace (ord_after tr ord ((v, o) :: recs))
        with (ord_after tr (match tr with None => ord ++ [v] | Some _ => ord end) recs).
      2:{ unfold ord_after. destruct tr; [reflexivity|]. cbn [map fst]. rewrite <- app_assoc. reflexivity. }
      apply IH; [exact Hk1|exact Hn1|].
      intros r Hr. destruct (Hall r (or_intror Hr)) as (Hrv & Hrslot & Hro).
      split; [exact Hrv|]. split.
      * rewrite rec_names_nth. cbn [fst snd].
        destruct (Nat.eqb_spec (N.to_nat (fst r)) (N.to_nat v)) as [E|]; [|exact Hrslot].
        exfalso. apply Hv1. apply in_map_iff. exists r. split; [lia|exact Hr].
      * intros n E. destruct (Hro n E) as [Hok Hnot]. split; [exact Hok|].
        intros Hin. apply rec_names_In in Hin. cbn [snd] in Hin.
        destruct Hin as [Hin|[Hin|Hin]]; [contradiction|discriminate|].
        unfold mark in Hin. inversion Hin as [E2]. destruct o as [n0|].
        -- subst n0. apply (Hfresh n eq_refl). unfold rnames. apply in_flat_map. exists r.
           split; [exact Hr|]. rewrite E. left. reflexivity.
        -- subst n. destruct (vname_ok_facts _ Hok) as [Hne _]. congruence.
Qed.

(** the names vector after all records, by position *)
Lemma fold_rec_names_nth : forall recs nm i, NoDup (map fst recs) ->
  nth i (fold_left rec_names recs nm) None =
  match find (fun r => Nat.eqb i (N.to_nat (fst r))) recs with
  | Some r => mark (snd r)
  | None => nth i nm None
  end.
Proof.
  induction recs as [|r recs IH]; intros nm i Hk; [reflexivity|].
  cbn [fold_left find map] in *. inversion Hk as [|? ? Hr Hk1]; subst. rewrite IH by exact Hk1.
  destruct (Nat.eqb_spec i (N.to_nat (fst r))) as [E2|E2].
  - destruct (find (fun r0 => Nat.eqb i (N.to_nat (fst r0))) recs) as [r1|] eqn:Ef.
    + apply find_some in Ef. destruct Ef as [Hin E]. apply Nat.eqb_eq in E.
      exfalso. apply Hr. apply in_map_iff. exists r1. split; [lia|exact Hin].
    + rewrite rec_names_nth. rewrite E2, Nat.eqb_refl. reflexivity.
  - destruct (find (fun r0 => Nat.eqb i (N.to_nat (fst r0))) recs) as [r1|] eqn:Ef; [reflexivity|].
    rewrite rec_names_nth. destruct (Nat.eqb_spec i (N.to_nat (fst r))); [contradiction|reflexivity].
Qed.

Lemma fold_rec_names_len : forall recs nm,
  lenN (fold_left rec_names recs nm) = N.max (lenN nm) (list_maxN (map (fun r => fst r + 1) recs)).
Proof.
  induction recs as [|r recs IH]; intros nm; cbn [fold_left map list_maxN]; [lia|].
  rewrite IH, rec_names_len. lia.
Qed.

(* ------------------------------------------------------------------ *)
(** ** The final names vector and its cleanup *)

Lemma list_maxN_succ_bound (keys : list N) M :
  (forall i, i < M <-> In i keys) -> list_maxN (map (fun k => k + 1) keys) = M.
Proof.
  intros H. destruct (N.eq_dec M 0) as [->|HM].
  - destruct keys as [|k keys]; [reflexivity|]. exfalso. specialize (proj2 (H k) (or_introl eq_refl)). lia.
  - apply N.le_antisymm.
    + assert (Hb : forall l, (forall k, In k l -> k < M) -> list_maxN (map (fun k => k + 1) l) <= M).
      { induction l as [|k l IH]; intros Hl; cbn [map list_maxN]; [lia|].
        specialize (IH (fun k0 Hk0 => Hl k0 (or_intror Hk0))). specialize (Hl k (or_introl eq_refl)). lia. }
      apply Hb. intros k Hk. apply H. exact Hk.
    + assert (Hin : In (M - 1 + 1) (map (fun k => k + 1) keys)).
      { apply in_map_iff. exists (M - 1). split; [reflexivity|]. apply H. lia. }
      apply list_maxN_ge in Hin. lia.
Qed.

Lemma fold_final recs (names : vnames) M :
  NoDup (map fst recs) -> (forall i, i < M <-> In i (map fst recs)) ->
  (forall r, In r recs -> snd r = nth (N.to_nat (fst r)) names None) -> lenN names <= M ->
  fold_left rec_names recs [] = map mark (names ++ repeat None (N.to_nat (M - lenN names))).
Proof.
  intros Hk Hcov Hsnd Hlen.
  assert (HL : lenN (fold_left rec_names recs []) = M).
  { rewrite fold_rec_names_len.
    replace (map (fun r : N * option vname => fst r + 1) recs) with (map (fun k => k + 1) (map fst recs))
      by (rewrite map_map; reflexivity).
    rewrite (list_maxN_succ_bound _ M Hcov). unfold lenN. cbn [length]. lia. }
  assert (HR : lenN (map mark (names ++ repeat None (N.to_nat (M - lenN names)))) = M).
  { rewrite lenN_map, lenN_app, lenN_repeat. lia. }
  apply nth_ext with (d := None) (d' := None); [unfold lenN in *; lia|].
  intros i Hi. rewrite fold_rec_names_nth by exact Hk.
  assert (HiM : N.of_nat i < M) by (unfold lenN in HL; lia).
  destruct (find (fun r => Nat.eqb i (N.to_nat (fst r))) recs) as [r|] eqn:Ef.
  - apply find_some in Ef. destruct Ef as [Hin E]. apply Nat.eqb_eq in E.
    rewrite (Hsnd r Hin).
    assert (Hi2 : (N.to_nat (fst r) < length (map mark (names ++ repeat None (N.to_nat (M - lenN names)))))%nat).
    { unfold lenN in *. rewrite <- E. lia. }
    rewrite E.
    rewrite (nth_indep (map mark (names ++ repeat None (N.to_nat (M - lenN names)))) None (mark None)) by exact Hi2.
    rewrite map_nth, nth_app_repeat_None. reflexivity.
  - exfalso. apply (proj1 (Hcov _)) in HiM. apply in_map_iff in HiM. destruct HiM as (r & E & Hin).
    pose proof (find_none _ _ Ef r Hin) as Hn. cbn beta in Hn. apply Nat.eqb_neq in Hn. lia.
Qed.

Lemma strip_trailing_app_unnamed (a b : vnames) : forallb (fun o => negb (named o)) b = true ->
  strip_trailing (a ++ b) = strip_trailing a.
Proof.
  intros Hb. assert (Hs : strip_trailing b = []).
  { induction b as [|x b IH]; [reflexivity|]. cbn [forallb] in Hb. apply andb_true_iff in Hb.
    destruct Hb as [Hx Hb]. cbn [strip_trailing]. rewrite (IH Hb). apply negb_true_iff in Hx. rewrite Hx. reflexivity. }
  induction a as [|x a IH]; [exact Hs|]. cbn [app strip_trailing]. rewrite IH. reflexivity.
Qed.

Lemma strip_trailing_id (l : vnames) : (l = [] \/ named (last l None) = true) -> strip_trailing l = l.
Proof.
  induction l as [|x l IH]; intros H; [reflexivity|]. destruct H as [H|H]; [discriminate|].
  cbn [strip_trailing]. destruct l as [|y l'].
  - cbn in *. rewrite H. reflexivity.
  - rewrite IH by (right; exact H). reflexivity.
Qed.

(** what the cleanup makes of the final names vector *)
Lemma cleanup_mark (names : vnames) k :
  Forall (fun o => forall n, o = Some n -> n <> []) names ->
  (names = [] \/ exists n, last names None = Some n) ->
  cleanup (map mark (names ++ repeat None k)) = names.
Proof.
  intros Hne Hlast. unfold cleanup. rewrite map_app.
  rewrite strip_trailing_app_unnamed.
  2:{ apply forallb_forall. intros o Ho. apply in_map_iff in Ho. destruct Ho as (x & <- & Hx).
      apply repeat_spec in Hx. subst x. reflexivity. }
  rewrite strip_trailing_id.
  - rewrite map_map. rewrite <- (map_id names) at 2. apply map_ext_in. intros o Ho.
    rewrite Forall_forall in Hne. specialize (Hne o Ho). destruct o as [[|b n]|]; try reflexivity.
    exfalso. apply (Hne [] eq_refl). reflexivity.
  - destruct Hlast as [->|[n Hn]]; [left; reflexivity|]. right.
    assert (Hnn : names <> []) by (intros ->; discriminate).
    assert (Hl : last (map mark names) None = mark (last names None)).
    { clear -Hnn. induction names as [|a [|b l] IH]; [congruence|reflexivity|].
      change (last (a :: b :: l) None) with (last (b :: l) None). rewrite <- IH by discriminate. reflexivity. }
    rewrite Hl, Hn. cbn. rewrite Forall_forall in Hne.
    assert (Hin : In (Some n) names).
    { rewrite <- Hn. destruct (exists_last Hnn) as (l' & a & ->). rewrite last_last. apply in_or_app. right. left. reflexivity. }
    specialize (Hne _ Hin n eq_refl). destruct n; [congruence|reflexivity].
Qed.

(* ------------------------------------------------------------------ *)
(** ** The tree lines *)

Lemma pre_step_vo co st t R :
  ps_tree st = None -> tree_top_ok_b true true t = true ->
  pre_step co st ([99; 32; 118; 111; 32] ++ print_tree true t ++ nl ++ R)
  = POk (Some (mkPS (ps_names st) (flatten t) (Some (t, list_maxN (flatten t))) (ps_ctree st), R)).
Proof.
  intros Ht Hok. unfold pre_step.
  assert (Hst : space0 (print_tree true t ++ nl ++ R) = print_tree true t ++ nl ++ R)
    by (apply tree_start_nosp, print_tree_start).
  assert (E0 : c_space1 ([99; 32; 118; 111; 32] ++ print_tree true t ++ nl ++ R)
               = Some (118 :: 111 :: 32 :: print_tree true t ++ nl ++ R)) by reflexivity.
  rewrite E0.
  assert (E1 : match co with Some _ => tag2_space1 99 111 (118 :: 111 :: 32 :: print_tree true t ++ nl ++ R) | None => None end = None)
    by (destruct co; reflexivity).
  rewrite E1.
  assert (E2 : tag2_space1 118 111 (118 :: 111 :: 32 :: print_tree true t ++ nl ++ R)
               = Some (print_tree true t ++ nl ++ R)).
  { unfold tag2_space1. cbn [strip_prefix]. rewrite !N.eqb_refl. cbn [space1 is_sp].
    replace ((32 =? 32) || (32 =? 9)) with true by reflexivity. rewrite Hst. reflexivity. }
  rewrite E2, Ht. rewrite p_tree_print by (try exact Hok; reflexivity). cbn [pbind].
  change (eol (nl ++ R)) with (POk R : pres (list N)). reflexivity.
Qed.

Lemma pre_step_co st t R :
  ps_ctree st = None -> tree_top_ok_b false false t = true ->
  pre_step (Some true) st (print_ctree t ++ R)
  = POk (Some (mkPS (ps_names st) (ps_order st) (ps_tree st) (Some (t, list_maxN (flatten t))), R)).
Proof.
  intros Ht Hok. unfold pre_step, print_ctree. rewrite <- !app_assoc.
  assert (Hst : space0 (print_tree false t ++ nl ++ R) = print_tree false t ++ nl ++ R)
    by (apply tree_start_nosp, print_tree_start).
  assert (E0 : c_space1 ([99; 32; 99; 111; 32] ++ print_tree false t ++ nl ++ R)
               = Some (99 :: 111 :: 32 :: print_tree false t ++ nl ++ R)) by reflexivity.
  rewrite E0.
  assert (E2 : tag2_space1 99 111 (99 :: 111 :: 32 :: print_tree false t ++ nl ++ R)
               = Some (print_tree false t ++ nl ++ R)).
  { unfold tag2_space1. cbn [strip_prefix]. rewrite !N.eqb_refl. cbn [space1 is_sp].
    replace ((32 =? 32) || (32 =? 9)) with true by reflexivity. rewrite Hst. reflexivity. }
  rewrite E2, Ht. rewrite p_tree_print by (try exact Hok; reflexivity). cbn [pbind].
  change (eol (nl ++ R)) with (POk R : pres (list N)). reflexivity.
Qed.

(** a clause-tree line is skipped when the option is off *)
Lemma skip_line_print : forall s R, Forall (fun b => b <> 10) s -> skip_line (s ++ nl ++ R) = R.
Proof.
  induction s as [|b s IH]; intros R H; [reflexivity|]. inversion H; subst. cbn [app skip_line].
  destruct (N.eqb_spec b 10); [contradiction|]. apply IH. assumption.
Qed.

(* ------------------------------------------------------------------ *)
(** ** Well-formed variable sets *)

Lemma listN_eqb_eq : forall a b, listN_eqb a b = true -> a = b.
Proof.
  induction a as [|x a IH]; intros [|y b] H; cbn [listN_eqb] in H; try discriminate; [reflexivity|].
  apply andb_true_iff in H. destruct H as [H1 H2]. apply N.eqb_eq in H1. subst. f_equal. apply IH. exact H2.
Qed.

Lemma names_distinct_NoDup : forall l, names_distinct_b l = true ->
  NoDup (flat_map (fun o : option vname => match o with Some n => [n] | None => [] end) l).
Proof.
  induction l as [|[n|] l IH]; intros H; cbn [names_distinct_b flat_map] in *; [constructor| |apply IH; exact H].
  apply andb_true_iff in H. destruct H as [H1 H2]. cbn [app]. constructor; [|apply IH; exact H2].
  apply negb_true_iff in H1. intros Hin. apply in_flat_map in Hin. destruct Hin as ([m|] & Hm & Hn); [|destruct Hn].
  destruct Hn as [<-|[]]. assert (name_taken l m = true) by (apply name_taken_iff; exact Hm). congruence.
Qed.

Lemma index_from_spec {A} (d : A) : forall (l : list A) i,
  NoDup (map fst (index_from i l)) /\
  (forall k, In k (map fst (index_from i l)) <-> i <= k < i + lenN l) /\
  (forall r, In r (index_from i l) -> snd r = nth (N.to_nat (fst r - i)) l d /\ In (snd r) l).
Proof.
  induction l as [|x l IH]; intros i.
  - cbn. split; [constructor|]. split; [intros k; unfold lenN; cbn [length]; split; [tauto|lia]|intros r []].
  - destruct (IH (i + 1)) as (H1 & H2 & H3). cbn [index_from map fst]. rewrite lenN_cons. split; [|split].
    + constructor; [|exact H1]. intros Hin. apply H2 in Hin. lia.
    + intros k. cbn [In]. rewrite H2. lia.
    + intros r [<-|Hr].
      * cbn [fst snd]. replace (i - i) with 0 by lia. split; [reflexivity|left; reflexivity].
      * destruct (H3 r Hr) as [E Hin]. split; [|right; exact Hin].
        assert (Hge : i + 1 <= fst r).
        { apply (proj1 (H2 (fst r))). apply in_map. exact Hr. }
        rewrite E. replace (N.to_nat (fst r - i)) with (S (N.to_nat (fst r - (i + 1)))) by lia. reflexivity.
Qed.

Lemma index_from_rnames : forall (l : vnames) i,
  rnames (index_from i l) = flat_map (fun o : option vname => match o with Some n => [n] | None => [] end) l.
Proof.
  induction l as [|x l IH]; intros i; [reflexivity|]. unfold rnames in *. cbn [index_from flat_map snd].
  rewrite IH. reflexivity.
Qed.

Lemma names_distinct_pos : forall (l : vnames) i j n, names_distinct_b l = true ->
  nth i l None = Some n -> nth j l None = Some n -> i = j.
Proof.
  induction l as [|x l IH]; intros i j n Hd Hi Hj; [destruct i; discriminate|].
  assert (Htl : names_distinct_b l = true).
  { destruct x; cbn [names_distinct_b] in Hd; [apply andb_true_iff in Hd; tauto|exact Hd]. }
  assert (Hhead : forall k, x = Some n -> nth k l None = Some n -> False).
  { intros k -> Hk. cbn [names_distinct_b] in Hd. apply andb_true_iff in Hd. destruct Hd as [Hd _].
    apply negb_true_iff in Hd. assert (name_taken l n = true); [|congruence].
    apply name_taken_iff. rewrite <- Hk. apply nth_In.
    destruct (Nat.lt_ge_cases k (length l)); [assumption|]. rewrite nth_overflow in Hk by assumption. discriminate. }
  destruct i as [|i], j as [|j]; cbn [nth] in *; [reflexivity| | |f_equal; eapply IH; eassumption].
  - exfalso. eapply Hhead; eassumption.
  - exfalso. eapply Hhead; eassumption.
Qed.

Lemma nth_nil_None {A} i : nth i (@nil (option A)) None = None.
Proof. destruct i; reflexivity. Qed.

Record wf_facts (vs : varset) : Prop := {
  wf_cap : vs_len vs <= max_capacity;
  wf_nm : forall n, In (Some n) (vs_names vs) -> vname_ok n;
  wf_dist : names_distinct_b (vs_names vs) = true;
  wf_last : vs_names vs = [] \/ exists n, last (vs_names vs) None = Some n;
  wf_nlen : lenN (vs_names vs) <= vs_len vs }.

Lemma wf_vars_facts vs : wf_vars_b vs = true -> wf_facts vs.
Proof.
  unfold wf_vars_b. rewrite !andb_true_iff. intros (((((H1 & H2) & H3) & H4) & H5) & _).
  constructor.
  - apply N.leb_le. exact H1.
  - intros n Hn. rewrite forallb_forall in H2. exact (H2 _ Hn).
  - exact H3.
  - destruct (vs_names vs) as [|x l] eqn:E; [left; reflexivity|]. right.
    destruct (last (x :: l) None) as [n|]; [exists n; reflexivity|discriminate].
  - apply N.leb_le. exact H5.
Qed.

Lemma names_nonempty vs : wf_facts vs ->
  Forall (fun o : option vname => forall n, o = Some n -> n <> []) (vs_names vs).
Proof.
  intros W. apply Forall_forall. intros o Ho n ->. apply (vname_ok_facts n (wf_nm vs W n Ho)).
Qed.

(** the lines of a well-formed variable set are read back as the variable set *)
Theorem steps_print_vars co vs R : wf_vars_b vs = true ->
  exists st, steps co ps_init (print_vars vs ++ R) st R /\
             pre_before st = true /\ pre_after st (vs_len vs) = true /\
             varset_of st (vs_len vs) = vs /\ ps_ctree st = None.
Proof.
  intros Hwf. pose proof (wf_vars_facts vs Hwf) as W.
  unfold wf_vars_b in Hwf. apply andb_true_iff in Hwf. destruct Hwf as [_ Hcase].
  destruct vs as [len order otree names]. cbn [vs_len vs_order vs_tree vs_names] in *.
  unfold print_vars, var_records. cbn [vs_tree vs_names vs_order].
  pose proof (names_nonempty _ W) as Hne. cbn [vs_names] in Hne.
  destruct W as [Wcap Wnm Wdist Wlast Wnlen]. cbn [vs_len vs_names] in *.
  destruct otree as [t|].
  - (* order tree *)
    apply andb_true_iff in Hcase. destruct Hcase as [Hcase Hlen]. apply andb_true_iff in Hcase.
    destruct Hcase as [Htok Hord]. apply listN_eqb_eq in Hord. apply N.eqb_eq in Hlen. subst order.
    destruct (index_from_spec None names 0) as (K1 & K2 & K3).
    eexists. split; [|split; [|split; [|split]]].
    + rewrite <- !app_assoc. eapply steps_trans.
      * apply steps_one. apply (pre_step_vo co ps_init t); [reflexivity|exact Htok].
      * cbn [ps_names ps_ctree ps_init]. apply records_run.
        -- exact K1.
        -- rewrite index_from_rnames. apply names_distinct_NoDup. exact Wdist.
        -- intros r Hr. destruct (K3 r Hr) as [E Hin].
           assert (Hk : fst r < lenN names).
           { specialize (proj1 (K2 (fst r)) (in_map fst _ _ Hr)). lia. }
           split; [lia|]. split; [apply nth_nil_None|].
           intros n En. rewrite En in Hin. split; [apply Wnm; exact Hin|intros []].
    + reflexivity.
    + unfold pre_after. cbn [ps_tree ps_names]. apply andb_true_iff. split; [apply N.eqb_eq; exact Hlen|].
      apply N.leb_le. rewrite fold_rec_names_len.
      replace (map (fun r : N * option vname => fst r + 1) (index_from 0 names))
        with (map (fun k => k + 1) (map fst (index_from 0 names))) by (rewrite map_map; reflexivity).
      rewrite (list_maxN_succ_bound _ (lenN names)) by (intros i; rewrite K2; lia).
      unfold lenN at 1. cbn [length]. lia.
    + unfold varset_of. cbn [ps_order ps_tree ps_names option_map fst ord_after]. f_equal.
      rewrite (fold_final _ names (lenN names)).
      * replace (lenN names - lenN names) with 0 by lia. apply cleanup_mark; assumption.
      * exact K1.
      * intros i. rewrite K2. lia.
      * intros r Hr. destruct (K3 r Hr) as [E _]. rewrite E. f_equal. lia.
      * lia.
    + reflexivity.
  - destruct order as [|o0 order'] eqn:Eo.
    + (* no order at all *)
      destruct names; [|discriminate]. exists ps_init. cbn [map flat_map app].
      split; [constructor|]. repeat split.
    + (* linear order *)
      rewrite <- Eo in *. apply andb_true_iff in Hcase. destruct Hcase as [Hcase Hbound].
      apply andb_true_iff in Hcase. destruct Hcase as [Hlen Hnd]. apply N.eqb_eq in Hlen.
      apply nodupN_b_spec in Hnd. rewrite forallb_forall in Hbound.
      assert (Hcov : forall i, i < len <-> In i order).
      { intros i. split.
        - intros Hi. assert (Hincl : incl (seqN 0 len) order).
          { apply NoDup_length_incl; [exact Hnd|rewrite seqN_length; unfold lenN in Hlen; lia|].
            intros v Hv. apply In_seqN. specialize (Hbound v Hv). apply N.ltb_lt in Hbound. lia. }
          apply Hincl. apply In_seqN. lia.
        - intros Hi. specialize (Hbound i Hi). apply N.ltb_lt in Hbound. exact Hbound. }
      set (recs := map (fun v => (v, nth (N.to_nat v) names None)) order).
      assert (Hkeys : map fst recs = order).
      { unfold recs. rewrite map_map. cbn [fst]. apply map_id. }
      assert (Hrn : NoDup (rnames recs)).
      { unfold recs. clear -Hnd Wdist. induction order as [|v order IH]; [constructor|].
        inversion Hnd as [|? ? Hv Hnd']; subst. unfold rnames in *. cbn [map flat_map snd].
        destruct (nth (N.to_nat v) names None) as [n|] eqn:En; [|apply IH; exact Hnd'].
        cbn [app]. constructor; [|apply IH; exact Hnd'].
        intros Hin. apply in_flat_map in Hin. destruct Hin as (r & Hr & Hn). apply in_map_iff in Hr.
        destruct Hr as (w & <- & Hw). cbn [snd] in Hn.
        destruct (nth (N.to_nat w) names None) as [m|] eqn:Em; [|destruct Hn]. destruct Hn as [<-|[]].
        pose proof (names_distinct_pos names _ _ _ Wdist En Em). apply Hv. replace v with w by lia. exact Hw. }
      eexists. split; [|split; [|split; [|split]]].
      * cbn [app]. apply (records_run co None None recs [] [] R).
        -- rewrite Hkeys. exact Hnd.
        -- exact Hrn.
        -- intros r Hr. unfold recs in Hr. apply in_map_iff in Hr. destruct Hr as (v & <- & Hv). cbn [fst snd].
           apply Hcov in Hv. split; [lia|]. split; [apply nth_nil_None|].
           intros n En. split; [|intros []]. apply Wnm. rewrite <- En. apply nth_In.
           destruct (Nat.lt_ge_cases (N.to_nat v) (length names)); [assumption|].
           rewrite nth_overflow in En by assumption. discriminate.
      * unfold pre_before. cbn [ps_tree ps_names ps_order ord_after app]. apply N.eqb_eq.
        rewrite Hkeys, fold_rec_names_len.
        replace (map (fun r : N * option vname => fst r + 1) recs)
          with (map (fun k => k + 1) (map fst recs)) by (rewrite map_map; reflexivity).
        rewrite Hkeys, (list_maxN_succ_bound _ len Hcov). unfold lenN at 1. cbn [length]. lia.
      * unfold pre_after. cbn [ps_tree ps_order ord_after app]. rewrite Hkeys, Eo. rewrite <- Eo.
        apply N.eqb_eq. lia.
      * unfold varset_of. cbn [ps_order ps_tree ps_names option_map ord_after app]. rewrite Hkeys. f_equal.
        rewrite (fold_final recs names len).
        -- apply cleanup_mark; assumption.
        -- rewrite Hkeys. exact Hnd.
        -- rewrite Hkeys. exact Hcov.
        -- intros r Hr. unfold recs in Hr. apply in_map_iff in Hr. destruct Hr as (v & <- & _). reflexivity.
        -- exact Wnlen.
      * reflexivity.
Qed.

(** the same as a statement about [pre_loop] with the fuel the readers give it: in front of
    anything that does not begin with 'c' (the problem line) the loop returns the state that
    stands for [vs] *)
Theorem pre_loop_print_vars co vs R : wf_vars_b vs = true -> starts_with 99 R = false ->
  exists st, pre_loop (S (length (print_vars vs ++ R))) co ps_init (print_vars vs ++ R) = POk (st, R) /\
             pre_before st = true /\ pre_after st (vs_len vs) = true /\ varset_of st (vs_len vs) = vs.
Proof.
  intros Hwf HR. destruct (steps_print_vars co vs R Hwf) as (st & Hs & Hb & Ha & Hv & _).
  exists st. split; [|auto]. apply pre_loop_run; [exact Hs|apply pre_step_break; exact HR].
Qed.
