(** * Model of the order / clause trees and of the variable-order preamble
      (crates/oxidd-parser/src/util.rs: [tree], [var_order_record];
       the [if parse_var_order ..] branch of [nnf::preamble] and [dimacs::preamble],
       which is the same code in both files up to the [c co] lines)

    Executable Gallina only (no proofs here).  Bytes are [N], the input is a
    [list N]; results are [POk] / [PErr] (the real code returns a diagnostic) /
    [PFuel] (fuel exhausted -- proved impossible in TreeProofs.v).

    Mirrored Rust functions:
    - [tree] [flatten]                = [oxidd_parser::Tree], [Tree::flatten_into]
    - [ptree_rec] [ptree_loop] [p_tree] = [util::tree]: the inner [fn rec] (a number, or '[' and the
                                        loop over the children with the ',' / ']' handling, the
                                        flattening of [[42]] into [42], the running maximum), and the
                                        closure around it ([space0], the checks "tree without leaves"
                                        and "number n missing in tree").  The [FixedBitSet inserted]
                                        is the list [ins] of the numbers inserted so far; its length
                                        [inserted.len()] is [1 + list_maxN ins].
    - [var_order_record] [trim]       = [util::var_order_record], [util::trim]
    - [valid_utf8]                    = [std::str::from_utf8(name).is_ok()] (RFC 3629: no overlong
                                        forms, no surrogates, nothing above U+10FFFF)
    - [pre_step] [pre_loop]           = one iteration / the [loop] of the preamble: [c co <tree>]
                                        (DIMACS only: [co = Some parse_clause_tree]; NNF: [co = None]),
                                        [c vo <tree>], [c <var> [<name>]]
    - [pre_before] [pre_after]        = the checks before / after [problem_line]
    - [cleanup]                       = the two "cleanup" loops over [vars.names]
    - [varset]                        = [VarSet { len, order, order_tree, names }]
    - [rproblem]                      = [Problem { circuit: { inputs, gates }, details: Root(root) }]
    - [acyclic_g]                     = what [Circuit::find_cycle] decides (iterated marking
                                        instead of the DFS, same predicate; soundness in TreeProofs.v)

    Not modelled: allocation ([names.resize(var)], [FixedBitSet::grow], [Vec::with_capacity(65536)]
    -- sizes come from numbers of the input: the recorded known finding), recursion depth of
    [rec] / [flatten_into] (recorded known finding), the text and the spans of the diagnostics.

    Printers ([print_tree], [print_vars]) have no Rust counterpart. *)

From Coq Require Import List NArith Bool.
From OxiVerif Require Import IO.AigerParse IO.DimacsParse.
Import ListNotations.
Open Scope N_scope.

(* ------------------------------------------------------------------ *)
(** ** Trees *)

Inductive tree := TLeaf (n : N) | TInner (l : list tree).

(** [Tree::flatten_into] *)
Fixpoint flatten (t : tree) : list N :=
  match t with
  | TLeaf n => [n]
  | TInner l => flat_map flatten l
  end.

Definition memN (n : N) (l : list N) : bool := existsb (N.eqb n) l.

(** the first byte is [c] *)
Definition starts_with (c : N) (bs : list N) : bool :=
  match bs with b :: _ => b =? c | [] => false end.

(** [Some rest] if [bs] begins with the bytes [p] ([tag]) *)
Fixpoint strip_prefix (p bs : list N) : option (list N) :=
  match p with
  | [] => Some bs
  | x :: p' =>
    match bs with
    | y :: bs' => if x =? y then strip_prefix p' bs' else None
    | [] => None
    end
  end.

Fixpoint list_maxN (l : list N) : N :=
  match l with
  | [] => 0
  | x :: r => N.max x (list_maxN r)
  end.

(** [fn rec] of [util::tree]; [ob] = [one_based], [uq] = [unique_leaves], [ins] = the bit set.
    Result: the tree, the maximal number, the bit set, the remaining input. *)
Fixpoint ptree_rec (fuel : nat) (ob uq : bool) (ins : list N) (bs : list N) {struct fuel}
  : pres (tree * N * list N * list N) :=
  match fuel with
  | O => PFuel
  | S f =>
    match p_u64 bs with
    | POk (n, r) =>
      if max_capacity <? n then PErr
      else if ob && (n =? 0) then PErr
      else
        let n' := if ob then n - 1 else n in
        if uq && memN n' ins then PErr
        else POk (TLeaf n', n', n' :: ins, space0 r)
    | _ =>
      match bs with
      | b :: r =>
        if b =? 91 then
          match ptree_loop f ob uq [] 0 ins (space0 r) with
          | POk (ch, mx, ins', r') =>
            POk (match ch with [t] => t | _ => TInner ch end, mx, ins', r')
          | PErr => PErr
          | PFuel => PFuel
          end
        else PErr
      | [] => PErr
      end
    end
  end
(** the [loop] after '['; [acc] = the children read so far (latest first), [mx] the running maximum *)
with ptree_loop (fuel : nat) (ob uq : bool) (acc : list tree) (mx : N) (ins : list N) (bs : list N)
               {struct fuel} : pres (list tree * N * list N * list N) :=
  match fuel with
  | O => PFuel
  | S f =>
    if starts_with 93 (space0 bs) then POk (rev acc, mx, ins, tl (space0 bs))
    else
      match ptree_rec f ob uq ins (space0 bs) with
      | POk (t, smx, ins', r1) =>
        let mx' := if mx <=? smx then smx else mx in
        if starts_with 93 (space0 r1) then POk (rev (t :: acc), mx', ins', tl (space0 r1))
        else if starts_with 44 (space0 r1) then ptree_loop f ob uq (t :: acc) mx' ins' (tl (space0 r1))
        else PErr
      | PErr => PErr
      | PFuel => PFuel
      end
  end.

(** all numbers below [inserted.len()] are in the bit set ([inserted.zeroes().next()] is [None]).
    The first test only saves time (more numbers below the length than insertions: one of them
    is missing); [ins_complete_spec] in TreeProofs.v shows that it does not change the result. *)
Definition ins_complete (ins : list N) : bool :=
  if lenN ins <? list_maxN ins + 1 then false
  else forallb (fun i => memN i ins) (seqN 0 (list_maxN ins + 1)).

(** [util::tree(one_based, unique_leaves)]: tree, maximal number, remaining input *)
Definition p_tree (ob uq : bool) (bs : list N) : pres (tree * N * list N) :=
  match ptree_rec (S (2 * length bs)) ob uq [] (space0 bs) with
  | POk (t, mx, ins, r) =>
    match ins with
    | [] => PErr
    | _ => if ins_complete ins then POk (t, mx, r) else PErr
    end
  | PErr => PErr
  | PFuel => PFuel
  end.

(* ------------------------------------------------------------------ *)
(** ** [var_order_record] *)

(** [util::trim] *)
Definition trim (s : list N) : list N := trim_end (space0 s).

(** [c <var> [<name>]] after the "c ": the number, the trimmed name (if any) *)
Definition var_order_record (bs : list N) : pres ((N * option (list N)) * list N) :=
  do '(v, r0) <- p_u64 bs;
  do '(name, r1) <- not_line_ending r0;
  do r2 <- line_ending r1;
  match trim name with
  | [] => POk ((v, None), r2)
  | t =>
    match name with
    | b :: _ => if is_sp b then POk ((v, Some t), r2) else PErr
    | [] => PErr
    end
  end.

(** [std::str::from_utf8(..).is_ok()] *)
Definition utf8_cont (b : N) : bool := (128 <=? b) && (b <=? 191).

Fixpoint valid_utf8 (bs : list N) : bool :=
  match bs with
  | [] => true
  | c :: r =>
    if c <? 128 then valid_utf8 r
    else if (194 <=? c) && (c <=? 223) then
      match r with
      | c1 :: r1 => utf8_cont c1 && valid_utf8 r1
      | _ => false
      end
    else if (224 <=? c) && (c <=? 239) then
      match r with
      | c1 :: c2 :: r2 =>
        utf8_cont c1 && utf8_cont c2 && (negb (c =? 224) || (160 <=? c1))
        && (negb (c =? 237) || (c1 <=? 159)) && valid_utf8 r2
      | _ => false
      end
    else if (240 <=? c) && (c <=? 244) then
      match r with
      | c1 :: c2 :: c3 :: r3 =>
        utf8_cont c1 && utf8_cont c2 && utf8_cont c3 && (negb (c =? 240) || (144 <=? c1))
        && (negb (c =? 244) || (c1 <=? 143)) && valid_utf8 r3
      | _ => false
      end
    else false
  end.

(* ------------------------------------------------------------------ *)
(** ** The preamble loop *)

Definition vname := list N.
Definition vnames := list (option vname).

(** the mutable state of the loop: [vars.names] ([Some []] = present, unnamed),
    [vars.order], [vars.order_tree] with [tree_max_var.1], [clause_tree] with [max_clause.1] *)
Record pstate := mkPS {
  ps_names : vnames; ps_order : list N; ps_tree : option (tree * N); ps_ctree : option (tree * N) }.

Definition ps_init : pstate := mkPS [] [] None None.

Fixpoint bytes_eqb (a b : list N) : bool :=
  match a, b with
  | [], [] => true
  | x :: a', y :: b' => (x =? y) && bytes_eqb a' b'
  | _, _ => false
  end.

(** [!name_set.insert(name)] *)
Definition name_taken (names : vnames) (name : vname) : bool :=
  existsb (fun o => match o with Some n => bytes_eqb n name | None => false end) names.

(** [preceded(char('c'), space1)] *)
Definition c_space1 (bs : list N) : option (list N) :=
  match strip_prefix [99] bs with
  | Some r => match space1 r with POk r' => Some r' | _ => None end
  | None => None
  end.

(** [preceded(tag(<a b>), space1)] *)
Definition tag2_space1 (a b : N) (bs : list N) : option (list N) :=
  match strip_prefix [a; b] bs with
  | Some r => match space1 r with POk r' => Some r' | _ => None end
  | None => None
  end.

(** behind the next '\n' (or the end) *)
Fixpoint skip_line (bs : list N) : list N :=
  match bs with
  | [] => []
  | b :: r => if b =? 10 then r else skip_line r
  end.

(** [util::eol] *)
Definition eol (bs : list N) : pres (list N) := line_ending (space0 bs).

(** [if num_vars > vars.names.len() { resize } else if vars.names[var].is_some() { fail }] *)
Definition grow_names (names : vnames) (v : N) : option vnames :=
  if lenN names <? v then Some (names ++ repeat None (N.to_nat (v - lenN names)))
  else match nth (N.to_nat (v - 1)) names None with
       | Some _ => None
       | None => Some names
       end.

(** the value written to [vars.names[var]]: the name if it is valid UTF-8 and new, [""] without name *)
Definition name_entry (names : vnames) (name : option vname) : option vname :=
  match name with
  | Some n => if valid_utf8 n then (if name_taken names n then None else Some n) else None
  | None => Some []
  end.

(** the "var order line" branch: [v] is the number read, [name] the optional name *)
Definition record_apply (st : pstate) (v : N) (name : option vname) : option pstate :=
  if v =? 0 then None
  else if max_capacity <? v then None
  else
    match grow_names (ps_names st) v with
    | None => None
    | Some names =>
      match name_entry names name with
      | None => None
      | Some e =>
        Some (mkPS (upd names (N.to_nat (v - 1)) (Some e))
                   (match ps_tree st with None => ps_order st ++ [v - 1] | Some _ => ps_order st end)
                   (ps_tree st) (ps_ctree st))
      end
    end.

(** one iteration; [POk None] = [break] *)
Definition pre_step (co : option bool) (st : pstate) (bs : list N) : pres (option (pstate * list N)) :=
  match c_space1 bs with
  | None => POk None
  | Some nx =>
    match (match co with Some _ => tag2_space1 99 111 nx | None => None end) with
    | Some nx2 =>
      match co with
      | Some true =>
        match ps_ctree st with
        | Some _ => PErr
        | None =>
          do '(t, mx, r) <- p_tree false false nx2;
          do r' <- eol r;
          POk (Some (mkPS (ps_names st) (ps_order st) (ps_tree st) (Some (t, mx)), r'))
        end
      | _ => POk (Some (st, skip_line bs))
      end
    | None =>
      match tag2_space1 118 111 nx with
      | Some nx2 =>
        match ps_tree st with
        | Some _ => PErr
        | None =>
          do '(t, mx, r) <- p_tree true true nx2;
          do r' <- eol r;
          POk (Some (mkPS (ps_names st) (flatten t) (Some (t, mx)) (ps_ctree st), r'))
        end
      | None =>
        match var_order_record nx with
        | POk ((v, name), r) =>
          match record_apply st v name with
          | Some st' => POk (Some (st', r))
          | None => PErr
          end
        | _ => PErr
        end
      end
    end
  end.

Fixpoint pre_loop (fuel : nat) (co : option bool) (st : pstate) (bs : list N) : pres (pstate * list N) :=
  match fuel with
  | O => PFuel
  | S f =>
    do x <- pre_step co st bs;
    match x with
    | None => POk (st, bs)
    | Some (st', r) => pre_loop f co st' r
    end
  end.

(** the check between the loop and [problem_line]: "expected another variable order line" *)
Definition pre_before (st : pstate) : bool :=
  match ps_tree st with
  | None => lenN (ps_names st) =? lenN (ps_order st)
  | Some _ => true
  end.

(** the checks on the number of variables after [problem_line] *)
Definition pre_after (st : pstate) (num_vars : N) : bool :=
  match ps_tree st with
  | None => match ps_order st with [] => true | _ => num_vars =? lenN (ps_order st) end
  | Some (_, mx) => (num_vars =? mx + 1) && (lenN (ps_names st) <=? num_vars)
  end.

(** [name.as_ref().is_some_and(|n| !n.is_empty())] *)
Definition named (o : option vname) : bool :=
  match o with Some (_ :: _) => true | _ => false end.

(** [while let Some(name) = vars.names.last() { if named break; pop }] *)
Fixpoint strip_trailing (l : vnames) : vnames :=
  match l with
  | [] => []
  | x :: r =>
    match strip_trailing r with
    | [] => if named x then [x] else []
    | r' => x :: r'
    end
  end.

Definition cleanup (l : vnames) : vnames :=
  map (fun o => match o with Some [] => None | _ => o end) (strip_trailing l).

(** [VarSet] *)
Record varset := mkVarSet {
  vs_len : N; vs_order : list N; vs_tree : option tree; vs_names : vnames }.

(** [VarSet::new(n)] *)
Definition varset_new (n : N) : varset := mkVarSet n [] None [].

Definition varset_of (st : pstate) (num_vars : N) : varset :=
  mkVarSet num_vars (ps_order st) (option_map fst (ps_tree st)) (cleanup (ps_names st)).

(** [Problem { circuit, details: Root(root) }] *)
Record rproblem := mkRProblem { rp_vars : varset; rp_gates : list dgate; rp_root : alit }.

(* ------------------------------------------------------------------ *)
(** ** Acyclicity of a gate list ([Circuit::find_cycle] returns [None]) *)

Definition mark_round_g (gates : list dgate) (marks : list bool) : list bool :=
  map (fun g => forallb (lit_marked marks) (snd g)) gates.

Fixpoint mark_rounds_g (k : nat) (gates : list dgate) (marks : list bool) : list bool :=
  match k with
  | O => marks
  | S k' => mark_rounds_g k' gates (mark_round_g gates marks)
  end.

Definition acyclic_g (gates : list dgate) : bool :=
  forallb (fun b => b) (mark_rounds_g (length gates) gates (map (fun _ => false) gates)).

(* ------------------------------------------------------------------ *)
(** ** Printers *)

Definition comma_sp : list N := [44; 32].

(** [[a, b, [c, d]]]; numbers are printed one-based when [ob] *)
Fixpoint print_tree (ob : bool) (t : tree) : list N :=
  match t with
  | TLeaf n => dec (if ob then n + 1 else n)
  | TInner l =>
    [91] ++ (fix go (l : list tree) : list N :=
               match l with
               | [] => []
               | [x] => print_tree ob x
               | x :: r => print_tree ob x ++ comma_sp ++ go r
               end) l ++ [93]
  end.

(** [print_tree] with the inner loop named *)
Fixpoint print_trees (ob : bool) (l : list tree) : list N :=
  match l with
  | [] => []
  | [x] => print_tree ob x
  | x :: r => print_tree ob x ++ comma_sp ++ print_trees ob r
  end.

(** trees [print_tree] can write so that [p_tree] reads them back: numbers within
    MAX_CAPACITY, no inner node with exactly one child (the reader flattens [[42]] into [42]) *)
Fixpoint tree_ok_b (ob : bool) (t : tree) : bool :=
  match t with
  | TLeaf n => n + (if ob then 1 else 0) <=? max_capacity
  | TInner l => negb (Nat.eqb (length l) 1) && forallb (tree_ok_b ob) l
  end.

Fixpoint nodupN_b (l : list N) : bool :=
  match l with
  | [] => true
  | x :: r => negb (memN x r) && nodupN_b r
  end.

(** a whole tree: at least one leaf, the leaves cover [0 .. max], distinct if [uq] *)
Definition tree_top_ok_b (ob uq : bool) (t : tree) : bool :=
  tree_ok_b ob t
  && match flatten t with [] => false | _ => true end
  && forallb (fun i => memN i (flatten t)) (seqN 0 (list_maxN (flatten t) + 1))
  && (negb uq || nodupN_b (flatten t)).

(** [c <var+1>[ <name>]\n] *)
Definition print_record (r : N * option vname) : list N :=
  [99; 32] ++ dec (fst r + 1) ++ match snd r with Some n => 32 :: n | None => [] end ++ nl.

(** the record lines of a variable set: with a tree one record per entry of the names vector
    (a bare [c <var>] for an unnamed variable), with a linear order only one record per variable
    in that order *)
Fixpoint index_from {A} (i : N) (l : list A) : list (N * A) :=
  match l with
  | [] => []
  | x :: r => (i, x) :: index_from (i + 1) r
  end.

Definition var_records (vs : varset) : list (N * option vname) :=
  match vs_tree vs with
  | Some _ => index_from 0 (vs_names vs)
  | None => map (fun v => (v, nth (N.to_nat v) (vs_names vs) None)) (vs_order vs)
  end.

(** the lines a variable set is written as (read back with [var_order = true]): [c vo <tree>]
    if there is a tree, then the records *)
Definition print_vars (vs : varset) : list N :=
  match vs_tree vs with
  | Some t => [99; 32; 118; 111; 32] ++ print_tree true t ++ nl
  | None => []
  end ++ flat_map print_record (var_records vs).

(** a name a record line reproduces: not empty, no line break, no leading / trailing blank,
    valid UTF-8 *)
Definition vname_ok_b (n : vname) : bool :=
  match n with [] => false | _ => true end && name_ok_b n && valid_utf8 n.

Fixpoint names_distinct_b (l : vnames) : bool :=
  match l with
  | [] => true
  | None :: r => names_distinct_b r
  | Some n :: r => negb (name_taken r n) && names_distinct_b r
  end.

Fixpoint listN_eqb (a b : list N) : bool :=
  match a, b with
  | [], [] => true
  | x :: a', y :: b' => (x =? y) && listN_eqb a' b'
  | _, _ => false
  end.

(** variable sets [print_vars] can write so that the preamble reads them back: what the reader
    guarantees ([VarSet::check_valid], order = a permutation / the flattened tree) plus printable
    names *)
Definition wf_vars_b (vs : varset) : bool :=
  (vs_len vs <=? max_capacity)
  && forallb (fun o => match o with Some n => vname_ok_b n | None => true end) (vs_names vs)
  && names_distinct_b (vs_names vs)
  && match vs_names vs with
     | [] => true
     | l => match last l None with Some _ => true | None => false end
     end
  && (lenN (vs_names vs) <=? vs_len vs)
  && match vs_tree vs with
     | Some t =>
       tree_top_ok_b true true t && listN_eqb (vs_order vs) (flatten t)
       && (vs_len vs =? list_maxN (flatten t) + 1)
     | None =>
       match vs_order vs with
       | [] => match vs_names vs with [] => true | _ => false end
       | o => (lenN o =? vs_len vs) && nodupN_b o && forallb (fun v => v <? vs_len vs) o
       end
     end.

(** [c co <tree>\n] *)
Definition print_ctree (t : tree) : list N :=
  [99; 32; 99; 111; 32] ++ print_tree false t ++ nl.
