(** * C18q proofs, part 1: the tree reader [util::tree]

    - [ins_complete_spec]: the short cut in [ins_complete] does not change its value
    - [p_tree_total]: never [PFuel] (fuel [2 * length + 1] covers the two mutually recursive
      functions: [rec] consumes a byte per call, the loop calls [rec] on the same input)
    - [p_tree_accept]: what an accepted tree satisfies -- with [unique_leaves] the flattened tree is
      a duplicate-free enumeration (a permutation) of [0 .. max]; without, it covers [0 .. max]
    - [p_tree_print]: round trip [p_tree (print_tree t ++ rest) = POk (t, max, rest)] *)
From Coq Require Import List NArith ZArith Bool Arith Lia Permutation.
From OxiVerif Require Import IO.AigerParse IO.AigerLexProofs IO.AigerSecProofs IO.AigerTotalProofs
  IO.DimacsParse IO.TreeParse.
Import ListNotations.
Open Scope N_scope.

Arguments N.add : simpl never.
Arguments N.sub : simpl never.
Arguments N.mul : simpl never.
Arguments N.ltb : simpl never.
Arguments N.leb : simpl never.
Arguments N.eqb : simpl never.
Arguments N.max : simpl never.
Arguments N.of_nat : simpl never.
Arguments N.to_nat : simpl never.

(* ------------------------------------------------------------------ *)
(** ** Sets as lists *)

Lemma memN_In n l : memN n l = true <-> In n l.
Proof.
  unfold memN. rewrite existsb_exists. split.
  - intros (x & Hx & E). apply N.eqb_eq in E. subst. exact Hx.
  - intros H. exists n. split; [exact H|apply N.eqb_refl].
Qed.

Lemma memN_false n l : memN n l = false <-> ~ In n l.
Proof. rewrite <- memN_In. destruct (memN n l); split; congruence. Qed.

Lemma In_seqN s n x : In x (seqN s n) <-> s <= x < s + n.
Proof.
  unfold seqN. rewrite in_map_iff. split.
  - intros (k & <- & Hk). apply in_seq in Hk. lia.
  - intros H. exists (N.to_nat x). split; [lia|]. apply in_seq. lia.
Qed.

Lemma NoDup_seqN s n : NoDup (seqN s n).
Proof.
  unfold seqN. apply FinFun.Injective_map_NoDup; [|apply seq_NoDup].
  intros a b H. lia.
Qed.

Lemma list_maxN_ge l x : In x l -> x <= list_maxN l.
Proof.
  induction l as [|y l IH]; cbn [list_maxN In]; [tauto|]. intros [->|H]; [lia|].
  specialize (IH H). lia.
Qed.

Lemma list_maxN_In l : l <> [] -> In (list_maxN l) l.
Proof.
  induction l as [|y l IH]; [congruence|]. intros _. cbn [list_maxN].
  destruct l as [|z l'].
  - cbn [list_maxN]. left. lia.
  - assert (H : In (list_maxN (z :: l')) (z :: l')) by (apply IH; congruence).
    destruct (N.max_spec y (list_maxN (z :: l'))) as [[_ E]|[_ E]]; rewrite E; [right; exact H|left; reflexivity].
Qed.

Lemma list_maxN_app a b : list_maxN (a ++ b) = N.max (list_maxN a) (list_maxN b).
Proof. induction a as [|x a IH]; cbn [app list_maxN]; [lia|]. rewrite IH. lia. Qed.

Lemma list_maxN_rev a : list_maxN (rev a) = list_maxN a.
Proof. induction a as [|x a IH]; cbn [rev list_maxN]; [reflexivity|]. rewrite list_maxN_app, IH. cbn [list_maxN]. lia. Qed.

Lemma NoDup_app_drop_l {A} (l l' : list A) : NoDup (l ++ l') -> NoDup l'.
Proof.
  induction l as [|x l IH]; cbn [app]; [auto|]. intros H. inversion H; auto.
Qed.

(** the bit set is complete iff every number up to the maximum is in it *)
Lemma ins_complete_spec ins :
  ins_complete ins = forallb (fun i => memN i ins) (seqN 0 (list_maxN ins + 1)).
Proof.
  unfold ins_complete. destruct (N.ltb_spec (lenN ins) (list_maxN ins + 1)) as [Hlt|]; [|reflexivity].
  symmetry. apply not_true_is_false. intros H. rewrite forallb_forall in H.
  assert (Hincl : incl (seqN 0 (list_maxN ins + 1)) ins).
  { intros x Hx. apply memN_In. apply H. exact Hx. }
  pose proof (NoDup_incl_length (NoDup_seqN 0 (list_maxN ins + 1)) Hincl) as Hl.
  rewrite seqN_length in Hl. unfold lenN in Hlt. lia.
Qed.

Lemma ins_complete_iff ins :
  ins_complete ins = true <-> forall i, i <= list_maxN ins -> In i ins.
Proof.
  rewrite ins_complete_spec, forallb_forall. split.
  - intros H i Hi. apply memN_In. apply H. apply In_seqN. lia.
  - intros H i Hi. apply memN_In. apply H. apply In_seqN in Hi. lia.
Qed.

(* ------------------------------------------------------------------ *)
(** ** Consumption and totality *)

Definition tstrict {A} (r : pres (A * list N)) (bs : list N) : Prop :=
  match r with POk (_, r') => (length r' < length bs)%nat | _ => True end.

Lemma starts_with_cons c bs : starts_with c bs = true -> exists r, bs = c :: r.
Proof.
  destruct bs as [|b r]; cbn; [discriminate|]. intros H. apply N.eqb_eq in H. subst. eauto.
Qed.

Lemma strip_prefix_len : forall p bs r, strip_prefix p bs = Some r -> (length r + length p = length bs)%nat.
Proof.
  induction p as [|x p IH]; intros bs r H; cbn in *; [inversion H; lia|].
  destruct bs as [|y bs']; [discriminate|]. destruct (x =? y); [|discriminate].
  apply IH in H. cbn. lia.
Qed.

Lemma strip_prefix_app : forall p r, strip_prefix p (p ++ r) = Some r.
Proof. induction p as [|x p IH]; intros r; cbn; [reflexivity|]. rewrite N.eqb_refl. apply IH. Qed.

Lemma ptree_len ob uq : forall f,
  (forall ins bs, tstrict (ptree_rec f ob uq ins bs) bs) /\
  (forall acc mx ins bs, tstrict (ptree_loop f ob uq acc mx ins bs) bs).
Proof.
  induction f as [|f [IHr IHl]]; [split; intros; exact I|]. split.
  - intros ins bs. cbn [ptree_rec].
    pose proof (p_u64_len bs) as Hu. unfold strict in Hu.
    destruct (p_u64 bs) as [[n r]| |].
    + destruct (max_capacity <? n); [exact I|]. destruct (ob && (n =? 0)); [exact I|].
      destruct (uq && memN (if ob then n - 1 else n) ins); [exact I|].
      cbn. pose proof (space0_len r). lia.
    + destruct bs as [|b r]; [exact I|]. destruct (b =? 91); [|exact I].
      specialize (IHl [] 0 ins (space0 r)). unfold tstrict in IHl.
      destruct (ptree_loop f ob uq [] 0 ins (space0 r)) as [[[[ch mx] ins'] r']| |]; try exact I.
      cbn. pose proof (space0_len r). cbn [length]. lia.
    + contradiction.
  - intros acc mx ins bs. cbn [ptree_loop].
    pose proof (space0_len bs) as Hs.
    destruct (starts_with 93 (space0 bs)) eqn:E93.
    + apply starts_with_cons in E93. destruct E93 as [r E]. rewrite E in *. cbn in *. lia.
    + specialize (IHr ins (space0 bs)). unfold tstrict in IHr.
      destruct (ptree_rec f ob uq ins (space0 bs)) as [[[[t smx] ins'] r1]| |]; try exact I.
      pose proof (space0_len r1) as Hs1.
      destruct (starts_with 93 (space0 r1)) eqn:F93.
      * apply starts_with_cons in F93. destruct F93 as [r E]. rewrite E in *. cbn in *. lia.
      * destruct (starts_with 44 (space0 r1)) eqn:F44; [|exact I].
        apply starts_with_cons in F44. destruct F44 as [r E]. rewrite E in *. cbn [tl].
        specialize (IHl (t :: acc) (if mx <=? smx then smx else mx) ins' r). unfold tstrict in *.
        destruct (ptree_loop f ob uq (t :: acc) (if mx <=? smx then smx else mx) ins' r)
          as [[[[ch mx2] ins2] r2]| |]; try exact I.
        cbn [length] in *. lia.
Qed.

Lemma ptree_rec_len ob uq f ins bs : tstrict (ptree_rec f ob uq ins bs) bs.
Proof. apply ptree_len. Qed.
Lemma ptree_loop_len ob uq f acc mx ins bs : tstrict (ptree_loop f ob uq acc mx ins bs) bs.
Proof. apply ptree_len. Qed.

(** enough fuel: never [PFuel] *)
Lemma ptree_nofuel ob uq : forall f,
  (forall ins bs, (2 * length bs + 1 <= f)%nat -> ptree_rec f ob uq ins bs <> PFuel) /\
  (forall acc mx ins bs, (2 * length bs + 2 <= f)%nat -> ptree_loop f ob uq acc mx ins bs <> PFuel).
Proof.
  induction f as [|f [IHr IHl]]; [split; intros; lia|]. split.
  - intros ins bs Hf. cbn [ptree_rec].
    destruct (p_u64 bs) as [[n r]| |] eqn:Eu.
    + destruct (max_capacity <? n); [discriminate|]. destruct (ob && (n =? 0)); [discriminate|].
      destruct (uq && memN (if ob then n - 1 else n) ins); discriminate.
    + destruct bs as [|b r]; [discriminate|]. destruct (b =? 91); [|discriminate].
      pose proof (space0_len r) as Hs. cbn [length] in Hf.
      specialize (IHl [] 0 ins (space0 r) ltac:(lia)).
      destruct (ptree_loop f ob uq [] 0 ins (space0 r)) as [[[[ch mx] ins'] r']| |]; try discriminate.
      contradiction.
    + pose proof (p_u64_len bs) as Hu. rewrite Eu in Hu. contradiction.
  - intros acc mx ins bs Hf. cbn [ptree_loop].
    pose proof (space0_len bs) as Hs.
    destruct (starts_with 93 (space0 bs)); [discriminate|].
    specialize (IHr ins (space0 bs) ltac:(lia)).
    pose proof (ptree_rec_len ob uq f ins (space0 bs)) as Hl. unfold tstrict in Hl.
    destruct (ptree_rec f ob uq ins (space0 bs)) as [[[[t smx] ins'] r1]| |]; try discriminate; [|contradiction].
    pose proof (space0_len r1) as Hs1.
    destruct (starts_with 93 (space0 r1)); [discriminate|].
    destruct (starts_with 44 (space0 r1)) eqn:F44; [|discriminate].
    apply starts_with_cons in F44. destruct F44 as [r E]. rewrite E in *. cbn [tl]. cbn [length] in Hs1.
    apply IHl. lia.
Qed.

Theorem p_tree_total ob uq bs : p_tree ob uq bs <> PFuel.
Proof.
  unfold p_tree. pose proof (space0_len bs) as Hs.
  pose proof (proj1 (ptree_nofuel ob uq (S (2 * length bs))) [] (space0 bs) ltac:(lia)) as H.
  destruct (ptree_rec (S (2 * length bs)) ob uq [] (space0 bs)) as [[[[t mx] ins] r]| |]; try discriminate;
    [|contradiction].
  destruct ins; [discriminate|]. destruct (ins_complete (n :: ins)); discriminate.
Qed.

Lemma p_tree_len ob uq bs : strict (p_tree ob uq bs) bs.
Proof.
  unfold strict. pose proof (p_tree_total ob uq bs) as Ht. unfold p_tree in *.
  pose proof (space0_len bs) as Hs.
  pose proof (ptree_rec_len ob uq (S (2 * length bs)) [] (space0 bs)) as Hl. unfold tstrict in Hl.
  destruct (ptree_rec (S (2 * length bs)) ob uq [] (space0 bs)) as [[[[t mx] ins] r]| |]; try exact I;
    [|congruence].
  destruct ins; [exact I|]. destruct (ins_complete (n :: ins)); [lia|exact I].
Qed.

(* ------------------------------------------------------------------ *)
(** ** What an accepted tree satisfies *)

Lemma max_ite a b : (if a <=? b then b else a) = N.max a b.
Proof. destruct (N.leb_spec a b); lia. Qed.

Lemma flatten_inner l : flatten (TInner l) = flat_map flatten l.
Proof. reflexivity. Qed.

Lemma ptree_inv ob uq : forall f,
  (forall ins bs t mx ins' r, ptree_rec f ob uq ins bs = POk (t, mx, ins', r) ->
     ins' = rev (flatten t) ++ ins /\ mx = list_maxN (flatten t) /\
     (uq = true -> NoDup ins -> NoDup ins')) /\
  (forall acc mx0 ins bs ch mx ins' r, ptree_loop f ob uq acc mx0 ins bs = POk (ch, mx, ins', r) ->
     exists new, ch = rev acc ++ new /\ ins' = rev (flat_map flatten new) ++ ins /\
                 mx = N.max mx0 (list_maxN (flat_map flatten new)) /\
                 (uq = true -> NoDup ins -> NoDup ins')).
Proof.
  induction f as [|f [IHr IHl]]; [split; intros; discriminate|]. split.
  - intros ins bs t mx ins' r H. cbn [ptree_rec] in H.
    destruct (p_u64 bs) as [[n r0]| |] eqn:Eu.
    + destruct (max_capacity <? n); [discriminate|]. destruct (ob && (n =? 0)); [discriminate|].
      destruct (uq && memN (if ob then n - 1 else n) ins) eqn:Em; [discriminate|].
      inversion H; subst. cbn [flatten rev app list_maxN]. split; [reflexivity|]. split; [lia|].
      intros -> Hnd. cbn [andb] in Em. apply memN_false in Em. constructor; assumption.
    + destruct bs as [|b r1]; [discriminate|]. destruct (b =? 91); [|discriminate].
      destruct (ptree_loop f ob uq [] 0 ins (space0 r1)) as [[[[ch mx1] ins1] r2]| |] eqn:El; try discriminate.
      destruct (IHl _ _ _ _ _ _ _ _ El) as (new & Hch & Hins & Hmx & Hnd).
      cbn [rev app] in Hch. subst ch.
      assert (Hfl : flatten (match new with [t] => t | _ => TInner new end) = flat_map flatten new).
      { destruct new as [|t0 [|t2 new']]; try reflexivity. cbn [flat_map]. rewrite app_nil_r. reflexivity. }
      injection H as Ht Hm Hi Hr. subst t mx ins' r.
      rewrite Hfl. split; [exact Hins|]. split; [rewrite Hmx; lia|exact Hnd].
    + destruct bs as [|b r1]; [discriminate|]. destruct (b =? 91); [|discriminate].
      destruct (ptree_loop f ob uq [] 0 ins (space0 r1)) as [[[[ch mx1] ins1] r2]| |] eqn:El; try discriminate.
      destruct (IHl _ _ _ _ _ _ _ _ El) as (new & Hch & Hins & Hmx & Hnd).
      cbn [rev app] in Hch. subst ch.
      assert (Hfl : flatten (match new with [t] => t | _ => TInner new end) = flat_map flatten new).
      { destruct new as [|t0 [|t2 new']]; try reflexivity. cbn [flat_map]. rewrite app_nil_r. reflexivity. }
      injection H as Ht Hm Hi Hr. subst t mx ins' r.
      rewrite Hfl. split; [exact Hins|]. split; [rewrite Hmx; lia|exact Hnd].
  - intros acc mx0 ins bs ch mx ins' r H. cbn [ptree_loop] in H.
    destruct (starts_with 93 (space0 bs)).
    + inversion H; subst. exists []. rewrite app_nil_r. cbn. repeat split; [lia|auto].
    + destruct (ptree_rec f ob uq ins (space0 bs)) as [[[[t smx] ins1] r1]| |] eqn:Er; try discriminate.
      destruct (IHr _ _ _ _ _ _ Er) as (Hins1 & Hsmx & Hnd1). rewrite max_ite in H.
      destruct (starts_with 93 (space0 r1)).
      * inversion H; subst. exists [t]. cbn [rev flat_map]. rewrite app_nil_r.
        repeat split; auto.
      * destruct (starts_with 44 (space0 r1)); [|discriminate].
        destruct (IHl _ _ _ _ _ _ _ _ H) as (new & Hch & Hins & Hmx & Hnd).
        exists (t :: new). cbn [rev flat_map] in *. rewrite <- app_assoc in Hch. cbn [app] in Hch.
        split; [exact Hch|]. split.
        { rewrite Hins, Hins1, rev_app_distr, <- app_assoc. reflexivity. }
        split.
        { rewrite Hmx, Hsmx, list_maxN_app. lia. }
        intros Hu Hn. apply Hnd; [exact Hu|]. apply Hnd1; assumption.
Qed.

(** an accepted tree has leaves, its maximum is the maximal leaf, every number up to the
    maximum is a leaf, and with [unique_leaves] no number occurs twice *)
Theorem p_tree_accept ob uq bs t mx r : p_tree ob uq bs = POk (t, mx, r) ->
  flatten t <> [] /\ mx = list_maxN (flatten t) /\
  (forall i, i <= mx <-> In i (flatten t)) /\
  (uq = true -> NoDup (flatten t)).
Proof.
  unfold p_tree. intros H.
  destruct (ptree_rec (S (2 * length bs)) ob uq [] (space0 bs)) as [[[[t1 mx1] ins] r1]| |] eqn:Er; try discriminate.
  destruct (proj1 (ptree_inv ob uq _) _ _ _ _ _ _ Er) as (Hins & Hmx & Hnd).
  rewrite app_nil_r in Hins.
  destruct ins as [|x ins0] eqn:Ei; [discriminate|]. rewrite <- Ei in *.
  destruct (ins_complete ins) eqn:Ec; [|discriminate]. injection H as Ht Hm Hr.
  rewrite Ht, Hm in *. clear Ht Hm t1 mx1.
  assert (Hne : flatten t <> []).
  { intros E. rewrite E in Hins. cbn in Hins. congruence. }
  split; [exact Hne|]. split; [exact Hmx|].
  assert (Hmax : list_maxN ins = list_maxN (flatten t)) by (rewrite Hins; apply list_maxN_rev).
  split.
  - intros i. split.
    + intros Hi. apply in_rev. rewrite <- Hins. apply (proj1 (ins_complete_iff ins) Ec). lia.
    + intros Hi. rewrite Hmx. apply list_maxN_ge. exact Hi.
  - intros Hu. specialize (Hnd Hu (NoDup_nil _)). rewrite Hins in Hnd.
    apply NoDup_rev in Hnd. rewrite rev_involutive in Hnd. exact Hnd.
Qed.

(** with [unique_leaves] the flattened tree is a permutation of [0 .. max] *)
Theorem p_tree_perm ob bs t mx r : p_tree ob true bs = POk (t, mx, r) ->
  Permutation (flatten t) (seqN 0 (mx + 1)) /\ lenN (flatten t) = mx + 1.
Proof.
  intros H. destruct (p_tree_accept _ _ _ _ _ _ H) as (_ & _ & Hin & Hnd).
  assert (P : Permutation (flatten t) (seqN 0 (mx + 1))).
  { apply NoDup_Permutation; [apply Hnd; reflexivity|apply NoDup_seqN|].
    intros i. rewrite <- Hin, In_seqN. lia. }
  split; [exact P|]. unfold lenN. rewrite (Permutation_length P), seqN_length. lia.
Qed.

(* ------------------------------------------------------------------ *)
(** ** Round trip *)

Section tree_ind2.
  Variable P : tree -> Prop.
  Hypothesis Hleaf : forall n, P (TLeaf n).
  Hypothesis Hinner : forall l, Forall P l -> P (TInner l).
  Fixpoint tree_ind2 (t : tree) : P t :=
    match t with
    | TLeaf n => Hleaf n
    | TInner l =>
      Hinner l ((fix go (l : list tree) : Forall P l :=
                   match l with
                   | [] => Forall_nil P
                   | x :: r => Forall_cons x (tree_ind2 x) (go r)
                   end) l)
    end.
End tree_ind2.

Lemma print_tree_inner ob l : print_tree ob (TInner l) = [91] ++ print_trees ob l ++ [93].
Proof.
  cbn [print_tree]. f_equal. f_equal.
  induction l as [|x l IH]; [reflexivity|].
  destruct l as [|y l']; [reflexivity|].
  change (print_trees ob (x :: y :: l')) with (print_tree ob x ++ comma_sp ++ print_trees ob (y :: l')).
  rewrite <- IH. reflexivity.
Qed.

(** the first byte of a printed tree: a digit or '[' *)
Definition tree_start (bs : list N) : Prop :=
  exists c r, bs = c :: r /\ (is_digit c = true \/ c = 91).

Lemma print_tree_start ob t r : tree_start (print_tree ob t ++ r).
Proof.
  destruct t as [n|l].
  - cbn [print_tree]. destruct (dec_head (if ob then n + 1 else n)) as (c & t & E & Hc).
    rewrite E. exists c, (t ++ r). split; [reflexivity|left; exact Hc].
  - rewrite print_tree_inner. exists 91, (print_trees ob l ++ [93] ++ r). split; [|right; reflexivity].
    cbn [app]. rewrite <- app_assoc. reflexivity.
Qed.

Lemma tree_start_nosp bs : tree_start bs -> space0 bs = bs.
Proof.
  intros (c & r & E & [Hc|Hc]); subst bs; [|subst c; reflexivity].
  cbn [space0]. rewrite (digit_not_sp c Hc). reflexivity.
Qed.

Lemma tree_start_not c bs : tree_start bs -> c <> 91 -> is_digit c = false -> starts_with c bs = false.
Proof.
  intros (d & r & E & [Hd|Hd]) Hc Hdc; subst bs; cbn [starts_with]; apply N.eqb_neq; [|congruence].
  intros E. subst d. congruence.
Qed.

Definition okf {A} (r : pres A) (x : A) : Prop := r = PFuel \/ r = POk x.

Lemma p_u64_nodigit_head c r : is_digit c = false -> p_u64 (c :: r) = PErr.
Proof. intros H. unfold p_u64. rewrite H. reflexivity. Qed.

Section TreePrint.
  Variables ob uq : bool.

  Definition rest_ok (rest : list N) : Prop := nodigit rest /\ space0 rest = rest.

  Lemma rest_ok_93 r : rest_ok (93 :: r).
  Proof. split; reflexivity. Qed.
  Lemma rest_ok_44 r : rest_ok (44 :: r).
  Proof. split; reflexivity. Qed.

  (** statement for one tree *)
  Definition rec_ok (t : tree) : Prop :=
    forall f ins rest, rest_ok rest ->
      (uq = true -> NoDup (rev (flatten t) ++ ins)) ->
      okf (ptree_rec f ob uq ins (print_tree ob t ++ rest))
          (t, list_maxN (flatten t), rev (flatten t) ++ ins, rest).

  Lemma loop_print : forall l, Forall rec_ok l -> forallb (tree_ok_b ob) l = true ->
    forall f acc mx ins rest bs, space0 bs = print_trees ob l ++ 93 :: rest ->
      (uq = true -> NoDup (rev (flat_map flatten l) ++ ins)) ->
      okf (ptree_loop f ob uq acc mx ins bs)
          (rev acc ++ l, N.max mx (list_maxN (flat_map flatten l)), rev (flat_map flatten l) ++ ins, rest).
  Proof.
    induction l as [|x l IH]; intros Hall Hok f acc mx ins rest bs Hbs Hnd.
    - destruct f as [|f]; [left; reflexivity|]. right. cbn [ptree_loop]. rewrite Hbs.
      cbn [print_trees app starts_with tl flat_map rev list_maxN]. rewrite N.eqb_refl, app_nil_r.
      f_equal. f_equal. f_equal. f_equal. lia.
    - inversion Hall as [|? ? Hx Hl]; subst. cbn [forallb] in Hok. apply andb_true_iff in Hok.
      destruct Hok as [Hokx Hokl].
      destruct f as [|f]; [left; reflexivity|]. cbn [ptree_loop]. rewrite Hbs.
      set (rest2 := match l with [] => 93 :: rest | _ => comma_sp ++ print_trees ob l ++ 93 :: rest end).
      assert (E : print_trees ob (x :: l) ++ 93 :: rest = print_tree ob x ++ rest2).
      { unfold rest2. destruct l as [|y l']; [reflexivity|].
        cbn [print_trees]. rewrite <- !app_assoc. reflexivity. }
      rewrite E.
      rewrite (tree_start_not 93 _ (print_tree_start ob x rest2)) by (try reflexivity; congruence).
      assert (Hr2 : rest_ok rest2).
      { unfold rest2. destruct l; [apply rest_ok_93|apply rest_ok_44]. }
      cbn [flat_map] in Hnd. rewrite rev_app_distr, <- app_assoc in Hnd.
      destruct (Hx f ins rest2 Hr2) as [Ef|Ef].
      { intros Hu. specialize (Hnd Hu). apply NoDup_app_drop_l in Hnd. exact Hnd. }
      + left. rewrite Ef. reflexivity.
      + rewrite Ef. rewrite max_ite. destruct Hr2 as [_ Hsp]. rewrite Hsp.
        unfold rest2. destruct l as [|y l'].
        * right. cbn [starts_with tl flat_map rev app list_maxN]. rewrite N.eqb_refl.
          rewrite !app_nil_r. reflexivity.
        * cbn [comma_sp app starts_with tl].
          replace (44 =? 93) with false by reflexivity. rewrite N.eqb_refl.
          destruct (IH Hl Hokl f (x :: acc) (N.max mx (list_maxN (flatten x))) (rev (flatten x) ++ ins) rest
                       (32 :: print_trees ob (y :: l') ++ 93 :: rest)) as [Eg|Eg].
          { cbn [space0 is_sp]. replace ((32 =? 32) || (32 =? 9)) with true by reflexivity.
            apply tree_start_nosp.
            destruct l' as [|z l'']; cbn [print_trees]; [|rewrite <- app_assoc]; apply print_tree_start. }
          { exact Hnd. }
          -- left. exact Eg.
          -- right. rewrite Eg. cbn [rev flat_map]. rewrite <- !app_assoc. cbn [app].
             f_equal. f_equal. f_equal. f_equal.
             ++ rewrite (list_maxN_app (flatten x)). lia.
             ++ rewrite (rev_app_distr (flatten x)), <- app_assoc. reflexivity.
  Qed.

  Lemma rec_print : forall t, tree_ok_b ob t = true -> rec_ok t.
  Proof.
    induction t as [n|l IH] using tree_ind2; intros Hok; unfold rec_ok; intros f ins rest [Hnd Hsp] Hu.
    - destruct f as [|f]; [left; reflexivity|]. right. cbn [ptree_rec print_tree tree_ok_b] in *.
      apply N.leb_le in Hok.
      set (m := if ob then n + 1 else n).
      assert (Hm : m <= max_capacity) by (unfold m; destruct ob; lia).
      rewrite p_u64_dec by (try exact Hnd; unfold max_capacity, two64 in *; lia).
      destruct (N.ltb_spec max_capacity m); [lia|].
      assert (E0 : ob && (m =? 0) = false).
      { unfold m. destruct ob; [|reflexivity]. cbn [andb]. apply N.eqb_neq. lia. }
      rewrite E0.
      assert (En : (if ob then m - 1 else m) = n) by (unfold m; destruct ob; lia).
      rewrite En. cbn [flatten rev app list_maxN] in *.
      assert (Em : uq && memN n ins = false).
      { destruct uq; [|reflexivity]. cbn [andb]. apply memN_false. specialize (Hu eq_refl).
        inversion Hu; assumption. }
      rewrite Em, Hsp. f_equal. f_equal. f_equal. f_equal. lia.
    - cbn [tree_ok_b] in Hok. apply andb_true_iff in Hok. destruct Hok as [Hlen Hokl].
      destruct f as [|f]; [left; reflexivity|]. rewrite print_tree_inner. cbn [app ptree_rec].
      rewrite p_u64_nodigit_head by reflexivity. replace (91 =? 91) with true by reflexivity.
      assert (Hall : Forall rec_ok l).
      { rewrite forallb_forall in Hokl. rewrite Forall_forall in *. intros x Hx. apply IH; auto. }
      rewrite <- app_assoc. cbn [app].
      destruct (loop_print l Hall Hokl f [] 0 ins rest (space0 (print_trees ob l ++ 93 :: rest))) as [E|E].
      { assert (Hst : space0 (print_trees ob l ++ 93 :: rest) = print_trees ob l ++ 93 :: rest).
        { destruct l as [|x [|y l']]; [reflexivity| |]; cbn [print_trees]; [|rewrite <- app_assoc];
            apply tree_start_nosp, print_tree_start. }
        rewrite Hst. exact Hst. }
      { exact Hu. }
      + left. rewrite E. reflexivity.
      + right. rewrite E. cbn [rev app].
        assert (Hm : match l with [t] => t | _ => TInner l end = TInner l).
        { destruct l as [|x [|y l']]; try reflexivity. discriminate. }
        rewrite Hm. cbn [flatten]. f_equal. f_equal. f_equal. f_equal. lia.
  Qed.
End TreePrint.

Lemma nodupN_b_spec l : nodupN_b l = true <-> NoDup l.
Proof.
  induction l as [|x l IH]; cbn [nodupN_b]; [split; [constructor|reflexivity]|].
  rewrite andb_true_iff, negb_true_iff, memN_false, IH. split.
  - intros [H1 H2]. constructor; assumption.
  - intros H. inversion H; auto.
Qed.

(** round trip of [util::tree]: a printed tree is read back as the same tree with the maximal
    leaf, whatever follows (not a digit, not a blank) *)
Theorem p_tree_print ob uq t rest : tree_top_ok_b ob uq t = true ->
  nodigit rest -> space0 rest = rest ->
  p_tree ob uq (print_tree ob t ++ rest) = POk (t, list_maxN (flatten t), rest).
Proof.
  unfold tree_top_ok_b. rewrite !andb_true_iff. intros (((Hok & Hne) & Hcov) & Hnd) Hr1 Hr2.
  pose proof (p_tree_total ob uq (print_tree ob t ++ rest)) as Htot.
  unfold p_tree in *. rewrite (tree_start_nosp _ (print_tree_start ob t rest)) in *.
  assert (Hu : uq = true -> NoDup (rev (flatten t) ++ [])).
  { intros ->. cbn [negb orb] in Hnd. rewrite app_nil_r. apply NoDup_rev. apply nodupN_b_spec. exact Hnd. }
  destruct (rec_print ob uq t Hok (S (2 * length (print_tree ob t ++ rest))) [] rest (conj Hr1 Hr2) Hu) as [E|E].
  - rewrite E in Htot. congruence.
  - rewrite E. rewrite app_nil_r.
    destruct (rev (flatten t)) as [|x l] eqn:Er.
    { apply (f_equal (@rev N)) in Er. rewrite rev_involutive in Er. rewrite Er in Hne. discriminate. }
    rewrite <- Er.
    assert (Hc : ins_complete (rev (flatten t)) = true).
    { apply ins_complete_iff. rewrite list_maxN_rev. intros i Hi. apply -> in_rev.
      rewrite forallb_forall in Hcov. apply memN_In. apply Hcov. apply In_seqN. lia. }
    rewrite Hc. reflexivity.
Qed.
