(** * ALLOC — the slot allocator of the index-based manager
      (executable interleaving model only, no proofs)

    Mirrors /repo/crates/oxidd-manager-index/src/manager.rs, function by function:

      [shared]                 `SharedStoreState`: `next_free` (a `Vec<u32>` used as a stack of
                               list heads; here the LAST element of the vector is the HEAD of
                               the list [s_free]), `allocated` (bump pointer, a slot INDEX),
                               `node_count` (i64), `gc_state`; `gc_lwm` / `gc_hwm` are in [cfg]
      [local]                  `LocalStoreState` (one per OS thread, `LOCAL_STORE_STATE`):
                               `current_store` as seen from THIS store ([CNone] = 0, [CThis] =
                               this store's address, [COther] = another store), `next_free`
                               (a slot ID, 0 = none), `initialized` (a slot INDEX),
                               `node_count_delta`; [l_guard]: the thread holds this store's
                               `LocalStoreStateGuard`
      [slot]                   `union Slot`: `node` / `next_free` / `uninit`; the slot array is
                               the map [sl] from slot IDs (ID = index + TERMINALS) to slots
      [prepare]                `Store::prepare_local_state`
      [drop_guard]             `Drop for LocalStoreStateGuard` incl. `return_preallocated`
                               ([link_range] = its loop over the rest of the chunk)
      [add_node]               `Store::add_node`: local list | initialised range |
                               [get_slot_from_shared]
      [get_slot_from_shared]   `Store::get_slot_from_shared`, both branches (thread-local state
                               bound to this store / not bound: "non-local")
      [free_slot]              `Store::free_slot`: local push, hand-over of the local list when
                               `node_count_delta` reaches `-CHUNK_SIZE`, non-local `return_slot`
      [gc_flush]               the epilogue of the collector thread in `new_manager` (after
                               `Manager::gc`: count + list are returned, `gc_state` reset)
      [bind]                   `LOCAL_STORE_STATE.with(|s| s.current_store.set(store_addr))` of
                               the pool workers (`spawn_broadcast`) and of the collector thread
      [other_enter/leave]      the thread's local state is used for ANOTHER store in between
                               (`prepare_local_state` / guard drop of that store): from this
                               store's point of view only `current_store` matters, `next_free`
                               and `initialized` come back with arbitrary values

    One [act] is one atomic action: everything that touches the shared state happens under
    `Store::state` (a mutex) in ONE critical section per call; the thread-local state and the
    slots a thread owns are only accessed by that thread.

    `CHUNK_SIZE` (65536 in the code), `TERMINALS` and the capacity are parameters ([cfg]).
    Branches that only managers with  capacity > CHUNK_SIZE  reach: [PSharedChunk] (a chunk is
    pre-allocated), [PLocalRange], the "take the whole list" case of [PSharedList], the range
    part of [drop_guard]; the hand-over in [free_slot] needs CHUNK_SIZE frees by one thread.

    [variant]: the same step function with one deviation switched on = a known defect:
      [v_take_all]      the code before /repo 45ba7ac (a worker always takes the whole list)
      [v_cap_first]     seeded C14f (non-local branch: capacity check before the list lookup)
      [v_no_reset]      seeded C01e (hand-over without resetting the local list head)
      [v_tail_zero]     seeded C05c (guard drop terminates the chunk list with 0)
      [v_no_prep_reset] seeded C07b (`prepare_local_state` does not reset `next_free`)
      [v_oom_drift]     the code before the fix "a failed allocation is not counted"
      [v_ho_drift]      the code before the fix "the free that triggers the hand-over is counted"
    [good] = the code as it is.

    Not modelled: u32 / i32 / i64 overflow (ids, `node_count_delta`), the contents of a node,
    the condition variable itself (only `gc_state`), memory ordering. *)

From Coq Require Import List NArith ZArith PArith Bool Arith FMapPositive.
Import ListNotations.
Local Open Scope N_scope.

(** ** configuration *)

Record cfg := mkCfg {
  cap : N;        (* `inner_nodes.slots.len()` *)
  chunk : N;      (* `CHUNK_SIZE` *)
  term : N;       (* `TERMINALS` *)
  lwm : Z;        (* `gc_lwm` *)
  hwm : Z         (* `gc_hwm` *)
}.

Record variant := mkVar {
  v_take_all : bool; v_cap_first : bool; v_no_reset : bool; v_tail_zero : bool;
  v_no_prep_reset : bool; v_oom_drift : bool; v_ho_drift : bool }.

Definition good : variant := mkVar false false false false false false false.
Definition var_take_all : variant := mkVar true false false false false false false.
Definition var_cap_first : variant := mkVar false true false false false false false.
Definition var_no_reset : variant := mkVar false false true false false false false.
Definition var_tail_zero : variant := mkVar false false false true false false false.
Definition var_no_prep_reset : variant := mkVar false false false false true false false.
Definition var_oom_drift : variant := mkVar false false false false false true false.
Definition var_ho_drift : variant := mkVar false false false false false false true.

(** ** state *)

Inductive slot := SUninit | SNode | SFree (nx : N).

Definition smap := PositiveMap.t slot.
Definition key (id : N) : positive := N.succ_pos id.
Definition sget (m : smap) (id : N) : slot :=
  match PositiveMap.find (key id) m with Some s => s | None => SUninit end.
Definition sset (m : smap) (id : N) (s : slot) : smap := PositiveMap.add (key id) s m.

Definition is_node (s : slot) : bool := match s with SNode => true | _ => false end.

Inductive gcst := GDisabled | GInit | GTriggered.
Definition gcst_eqb (a b : gcst) : bool :=
  match a, b with
  | GDisabled, GDisabled | GInit, GInit | GTriggered, GTriggered => true
  | _, _ => false
  end.

Record shared := mkSh { s_free : list N; s_alloc : N; s_count : Z; s_gc : gcst }.

Inductive cur := CNone | CThis | COther.
Definition is_this (c : cur) : bool := match c with CThis => true | _ => false end.
Definition is_none (c : cur) : bool := match c with CNone => true | _ => false end.
Definition is_other (c : cur) : bool := match c with COther => true | _ => false end.

Record local := mkL { l_cur : cur; l_guard : bool; l_next : N; l_init : N; l_delta : Z }.

(** the const-initialised thread-local of a new OS thread *)
Definition lfresh : local := mkL CNone false 0 0 0%Z.

Record st := mkSt { sh : shared; sl : smap; th : list local }.

(** `new_manager`: nothing allocated, no lists, count 0; automatic collection is disabled when
    `gc_lwm >= gc_hwm`; [n] threads exist (more can be added by [ASpawn]) *)
Definition init (c : cfg) (n : nat) : st :=
  mkSt (mkSh [] 0 0%Z (if (lwm c <? hwm c)%Z then GInit else GDisabled))
       (PositiveMap.empty slot) (repeat lfresh n).

Fixpoint upd {A : Type} (l : list A) (i : nat) (x : A) : list A :=
  match l, i with
  | [], _ => []
  | _ :: r, O => x :: r
  | y :: r, S j => y :: upd r j x
  end.

Definition set_th (s : st) (t : nat) (l : local) : st := mkSt (sh s) (sl s) (upd (th s) t l).

(** ** chunk arithmetic (slot INDICES) *)

(** `index % CHUNK_SIZE != 0` *)
Definition in_chunk (c : cfg) (i : N) : bool := negb (i mod chunk c =? 0).
(** `(index / CHUNK_SIZE + 1) * CHUNK_SIZE` *)
Definition chunk_end (c : cfg) (i : N) : N := (i / chunk c + 1) * chunk c.

(** ** observations (what the hooks report) *)

Inductive path :=
| PLocalList | PLocalRange | PSharedList | PSharedChunk | PSharedBump | PNonLocalList | PNonLocalBump
| POom.

Inductive obs :=
| OUnit
| OPrep (took : bool)                       (* `prepare_local_state` returned `Some` *)
| OAlloc (id : option N) (p : path)         (* `add_node`: slot ID or `Err(OutOfMemory)` *)
| OFree (handover : bool)
| ODrop (returned : bool) (pushed : N)      (* `return_preallocated` ran / list head pushed (0: none) *)
| OFlush (pushed : N).

(** ** actions *)

Inductive act :=
| ASpawn                                  (* a new OS thread (index = number of threads so far) *)
| APrepare (t : nat)
| ADropGuard (t : nat)
| ABind (t : nat)
| AOtherEnter (t : nat)
| AOtherLeave (t : nat) (nx ini : N)
| AAlloc (t : nat)
| AFree (t : nat) (id : N)
| AGcFlush (t : nat).

(** *** `Store::prepare_local_state` *)
Definition prepare (v : variant) (s : st) (t : nat) (l : local) : st * obs :=
  if is_none (l_cur l) then
    (set_th s t (mkL CThis true (if v_no_prep_reset v then l_next l else 0) 0 (l_delta l)), OPrep true)
  else (s, OPrep false).

(** *** `return_preallocated`: the loop over `slots[start..end - 1]` and the last slot.
    [link_range m i n tl]: the [n] slots with indices [i .. i+n-1] become a list
    (each slot points to the ID of the next index), the last one points to [tl]. *)
Fixpoint link_range (c : cfg) (m : smap) (i : N) (n : nat) (tl : N) : smap :=
  match n with
  | O => m
  | S k =>
    sset (link_range c m (i + 1) k tl) (i + term c)
         (SFree (match k with O => tl | S _ => i + term c + 1 end))
  end.

(** *** `Drop for LocalStoreStateGuard` *)
Definition drop_guard (c : cfg) (v : variant) (s : st) (t : nat) (l : local) : st * obs :=
  (* `local.current_store.set(0)`; `next_free` / `initialized` keep their values *)
  if negb (l_next l =? 0) || in_chunk c (l_init l) || negb (l_delta l =? 0)%Z then
    (* return_preallocated *)
    let start := l_init l in
    let '(m', nf) :=
      if in_chunk c start then
        (link_range c (sl s) start (N.to_nat (chunk_end c start - start))
                    (if v_tail_zero v then 0 else l_next l),
         start + term c)
      else (sl s, l_next l) in
    let sh' := mkSh (if nf =? 0 then s_free (sh s) else nf :: s_free (sh s))
                    (s_alloc (sh s)) (s_count (sh s) + l_delta l)%Z (s_gc (sh s)) in
    (mkSt sh' m' (upd (th s) t (mkL CNone false (l_next l) (l_init l) 0%Z)), ODrop true nf)
  else
    (set_th s t (mkL CNone false (l_next l) (l_init l) (l_delta l)), ODrop false 0).

(** *** `Store::get_slot_from_shared` ([l]: the thread's local state as `add_node` left it,
    [d]: `delta`).  [None]: the model is stuck (a list head that is not a free slot). *)
Definition get_slot_from_shared (c : cfg) (v : variant) (s : st) (t : nat) (l : local) (d : Z)
  : option (st * obs) :=
  let s0 := sh s in
  (* a failed allocation is not counted *)
  let d := if negb (v_oom_drift v) &&
              (match s_free s0 with [] => true | _ => false end) && (cap c <=? s_alloc s0)
           then (d - 1)%Z else d in
  let cnt := (s_count s0 + d)%Z in
  let g := if gcst_eqb (s_gc s0) GInit && (hwm c <=? cnt)%Z then GTriggered else s_gc s0 in
  if is_this (l_cur l) then
    match s_free s0 with
    | id :: rest =>
      match sget (sl s) id with
      | SFree nx =>
        if v_take_all v || (s_alloc s0 + chunk c <? cap c) then
          Some (mkSt (mkSh rest (s_alloc s0) cnt g) (sset (sl s) id SNode)
                     (upd (th s) t (mkL (l_cur l) (l_guard l) nx (l_init l) (l_delta l))),
                OAlloc (Some id) PSharedList)
        else
          Some (mkSt (mkSh (if nx =? 0 then rest else nx :: rest) (s_alloc s0) cnt g)
                     (sset (sl s) id SNode) (upd (th s) t l),
                OAlloc (Some id) PSharedList)
      | _ => None
      end
    | [] =>
      let index := s_alloc s0 in
      if index + chunk c <? cap c then
        Some (mkSt (mkSh [] (chunk_end c index) cnt g) (sset (sl s) (index + term c) SNode)
                   (upd (th s) t (mkL (l_cur l) (l_guard l) (l_next l) (index + 1) (l_delta l))),
              OAlloc (Some (index + term c)) PSharedChunk)
      else if index <? cap c then
        Some (mkSt (mkSh [] (index + 1) cnt g) (sset (sl s) (index + term c) SNode)
                   (upd (th s) t l),
              OAlloc (Some (index + term c)) PSharedBump)
      else
        Some (mkSt (mkSh [] index cnt g) (sl s) (upd (th s) t l), OAlloc None POom)
    end
  else
    if v_cap_first v && (cap c <=? s_alloc s0) then
      Some (mkSt (mkSh (s_free s0) (s_alloc s0) cnt g) (sl s) (upd (th s) t l), OAlloc None POom)
    else
    match s_free s0 with
    | id :: rest =>
      match sget (sl s) id with
      | SFree nx =>
        Some (mkSt (mkSh (if nx =? 0 then rest else nx :: rest) (s_alloc s0) cnt g)
                   (sset (sl s) id SNode) (upd (th s) t l),
              OAlloc (Some id) PNonLocalList)
      | _ => None
      end
    | [] =>
      let index := s_alloc s0 in
      if cap c <=? index then
        Some (mkSt (mkSh [] index cnt g) (sl s) (upd (th s) t l), OAlloc None POom)
      else
        Some (mkSt (mkSh [] (index + 1) cnt g) (sset (sl s) (index + term c) SNode)
                   (upd (th s) t l),
              OAlloc (Some (index + term c)) PNonLocalBump)
    end.

(** *** `Store::add_node` *)
Definition add_node (c : cfg) (v : variant) (s : st) (t : nat) (l : local) : option (st * obs) :=
  if is_this (l_cur l) then
    let delta := (l_delta l + 1)%Z in
    if negb (l_next l =? 0) then
      match sget (sl s) (l_next l) with
      | SFree nx =>
        Some (mkSt (sh s) (sset (sl s) (l_next l) SNode)
                   (upd (th s) t (mkL (l_cur l) (l_guard l) nx (l_init l) delta)),
              OAlloc (Some (l_next l)) PLocalList)
      | _ => None
      end
    else if in_chunk c (l_init l) then
      Some (mkSt (sh s) (sset (sl s) (l_init l + term c) SNode)
                 (upd (th s) t (mkL (l_cur l) (l_guard l) (l_next l) (l_init l + 1) delta)),
            OAlloc (Some (l_init l + term c)) PLocalRange)
    else
      get_slot_from_shared c v s t (mkL (l_cur l) (l_guard l) (l_next l) (l_init l) 0%Z) delta
  else get_slot_from_shared c v s t l 1%Z.

(** *** `Store::free_slot` of the slot [id] (which contains a node) *)
Definition free_slot (c : cfg) (v : variant) (s : st) (t : nat) (l : local) (id : N) : st * obs :=
  if is_this (l_cur l) then
    let m' := sset (sl s) id (SFree (l_next l)) in
    let delta := (l_delta l - 1)%Z in
    if (- Z.of_N (chunk c) <? delta)%Z then
      (mkSt (sh s) m' (upd (th s) t (mkL (l_cur l) (l_guard l) id (l_init l) delta)), OFree false)
    else
      (* hand-over: `shared.next_free.push(state.next_free.replace(0))`,
         `shared.node_count += state.node_count_delta.replace(0)` *)
      (mkSt (mkSh (id :: s_free (sh s)) (s_alloc (sh s))
                  (s_count (sh s) + (if v_ho_drift v then l_delta l else delta))%Z (s_gc (sh s)))
            m'
            (upd (th s) t (mkL (l_cur l) (l_guard l) (if v_no_reset v then id else 0) (l_init l) 0%Z)),
       OFree true)
  else
    (* `return_slot`: `slot.next_free = shared.next_free.pop().unwrap_or(0)`, push, count - 1 *)
    let '(nx, rest) := match s_free (sh s) with [] => (0, []) | h :: r => (h, r) end in
    (mkSt (mkSh (id :: rest) (s_alloc (sh s)) (s_count (sh s) - 1)%Z (s_gc (sh s)))
          (sset (sl s) id (SFree nx)) (th s),
     OFree false).

(** *** the collector thread after `Manager::gc` *)
Definition gc_flush (c : cfg) (s : st) (t : nat) (l : local) : st * obs :=
  let '(fr, cnt, l', pushed) :=
    if negb (l_next l =? 0) then
      (l_next l :: s_free (sh s), (s_count (sh s) + l_delta l)%Z,
       mkL (l_cur l) (l_guard l) 0 (l_init l) 0%Z, l_next l)
    else (s_free (sh s), s_count (sh s), l, 0) in
  let g := if (cnt <? lwm c)%Z && negb (gcst_eqb (s_gc (sh s)) GDisabled) then GInit else s_gc (sh s) in
  (mkSt (mkSh fr (s_alloc (sh s)) cnt g) (sl s) (upd (th s) t l'), OFlush pushed).

(** ** one step.  [None] = the action is not enabled (or the model is stuck, see
    [get_slot_from_shared]; the invariant excludes that) *)
Definition step (c : cfg) (v : variant) (s : st) (a : act) : option (st * obs) :=
  match a with
  | ASpawn => Some (mkSt (sh s) (sl s) (th s ++ [lfresh]), OUnit)
  | APrepare t =>
    match nth_error (th s) t with Some l => Some (prepare v s t l) | None => None end
  | ADropGuard t =>
    match nth_error (th s) t with
    | Some l => if l_guard l && is_this (l_cur l) then Some (drop_guard c v s t l) else None
    | None => None
    end
  | ABind t =>
    match nth_error (th s) t with
    | Some l =>
      if is_none (l_cur l) && negb (l_guard l) && (l_next l =? 0) && (l_init l =? 0) && (l_delta l =? 0)%Z
      then Some (set_th s t (mkL CThis false 0 0 0%Z), OUnit) else None
    | None => None
    end
  | AOtherEnter t =>
    match nth_error (th s) t with
    | Some l =>
      if is_none (l_cur l) then Some (set_th s t (mkL COther false 0 0 (l_delta l)), OUnit) else None
    | None => None
    end
  | AOtherLeave t nx ini =>
    match nth_error (th s) t with
    | Some l =>
      if is_other (l_cur l) then Some (set_th s t (mkL CNone false nx ini (l_delta l)), OUnit) else None
    | None => None
    end
  | AAlloc t =>
    match nth_error (th s) t with Some l => add_node c v s t l | None => None end
  | AFree t id =>
    match nth_error (th s) t with
    | Some l => if is_node (sget (sl s) id) then Some (free_slot c v s t l id) else None
    | None => None
    end
  | AGcFlush t =>
    match nth_error (th s) t with
    | Some l => if is_this (l_cur l) && negb (l_guard l) then Some (gc_flush c s t l) else None
    | None => None
    end
  end.

(** a schedule = any list of actions of any threads; the observations are collected *)
Fixpoint run (c : cfg) (v : variant) (s : st) (sched : list act) : option (st * list obs) :=
  match sched with
  | [] => Some (s, [])
  | a :: r =>
    match step c v s a with
    | Some (s', o) =>
      match run c v s' r with Some (s'', os) => Some (s'', o :: os) | None => None end
    | None => None
    end
  end.

(** ** the partition of the slot IDs (executable; audits of the driver and theorem statements) *)

(** all slot IDs: `TERMINALS .. TERMINALS + capacity` *)
Definition ids (c : cfg) : list N :=
  map (fun i => term c + N.of_nat i) (seq 0 (N.to_nat (cap c))).

Definition fuel (c : cfg) : nat := S (N.to_nat (cap c)).

(** the list that starts at head [h] (0 = empty): follows `next_free`; stops after [n] slots or
    at a slot that is not free ([chain_ok] tells) *)
Fixpoint chainl (n : nat) (m : smap) (h : N) : list N :=
  match n with
  | O => []
  | S k => if h =? 0 then [] else
             match sget m h with SFree nx => h :: chainl k m nx | _ => [] end
  end.

Fixpoint chain_ok (n : nat) (m : smap) (h : N) : bool :=
  match n with
  | O => false
  | S k => if h =? 0 then true else
             match sget m h with SFree nx => chain_ok k m nx | _ => false end
  end.

(** IDs of the slot indices [i .. i + n - 1] *)
Fixpoint range_ids (c : cfg) (i : N) (n : nat) : list N :=
  match n with O => [] | S k => (i + term c) :: range_ids c (i + 1) k end.

(** the rest of the chunk a thread has pre-allocated: indices `initialized .. chunk end` *)
Definition lrange (c : cfg) (l : local) : list N :=
  if is_this (l_cur l) && in_chunk c (l_init l)
  then range_ids c (l_init l) (N.to_nat (chunk_end c (l_init l) - l_init l)) else [].

Definition lchain (c : cfg) (m : smap) (l : local) : list N :=
  if is_this (l_cur l) then chainl (fuel c) m (l_next l) else [].

Definition shared_slots (c : cfg) (s : st) : list N := flat_map (chainl (fuel c) (sl s)) (s_free (sh s)).
Definition local_slots (c : cfg) (s : st) : list N := flat_map (lchain c (sl s)) (th s).
Definition range_slots (c : cfg) (s : st) : list N := flat_map (lrange c) (th s).
(** never handed out: indices `allocated .. capacity` *)
Definition unalloc_slots (c : cfg) (s : st) : list N :=
  range_ids c (s_alloc (sh s)) (N.to_nat (cap c - s_alloc (sh s))).
Definition live_slots (c : cfg) (s : st) : list N :=
  filter (fun id => is_node (sget (sl s) id)) (ids c).

(** everything that is free *)
Definition free_slots (c : cfg) (s : st) : list N :=
  shared_slots c s ++ local_slots c s ++ range_slots c s ++ unalloc_slots c s.

Definition nlive (c : cfg) (s : st) : nat := length (live_slots c s).

(** the sum of the threads' `node_count_delta` *)
Definition sum_delta (s : st) : Z := fold_right (fun l a => (l_delta l + a)%Z) 0%Z (th s).

(** slots of one thread *)
Definition thread_slots (c : cfg) (s : st) (t : nat) : list N :=
  match nth_error (th s) t with Some l => lchain c (sl s) l ++ lrange c l | None => [] end.

(** no slot is parked with a thread other than [t] *)
Definition others_idle (c : cfg) (s : st) (t : nat) : bool :=
  forallb (fun p => Nat.eqb (fst p) t ||
                    negb (is_this (l_cur (snd p))) ||
                    ((l_next (snd p) =? 0) && negb (in_chunk c (l_init (snd p)))))
          (combine (seq 0 (length (th s))) (th s)).

(** ** executable invariant checker (small capacities: examples, audits of the driver) *)

Fixpoint nodup_b (l : list N) : bool :=
  match l with [] => true | x :: r => negb (existsb (N.eqb x) r) && nodup_b r end.

Definition mem_b (x : N) (l : list N) : bool := existsb (N.eqb x) l.

Definition local_ok_b (c : cfg) (m : smap) (s : shared) (l : local) : bool :=
  (implb (l_guard l) (is_this (l_cur l))) &&
  (is_this (l_cur l) || (l_delta l =? 0)%Z) &&
  (negb (is_this (l_cur l)) ||
   (chain_ok (fuel c) m (l_next l) &&
    (negb (in_chunk c (l_init l)) || (chunk_end c (l_init l) <=? s_alloc s)))).

Definition ainv_b (c : cfg) (s : st) : bool :=
  (1 <=? chunk c) && (1 <=? term c) &&
  (s_alloc (sh s) <=? cap c) &&
  forallb (fun h => negb (h =? 0) && chain_ok (fuel c) (sl s) h) (s_free (sh s)) &&
  forallb (local_ok_b c (sl s) (sh s)) (th s) &&
  nodup_b (free_slots c s) &&
  forallb (fun id => (term c <=? id) && (id <? term c + cap c)) (free_slots c s) &&
  forallb (fun id => Bool.eqb (is_node (sget (sl s) id)) (negb (mem_b id (free_slots c s)))) (ids c) &&
  (s_count (sh s) + sum_delta s =? Z.of_nat (nlive c s))%Z.
