(** * ALLOC — basic lemmas for the slot allocator model (coq/Mgr/Alloc.v):
      the slot map, [upd], free lists as heap chains ([Chain]), ID ranges, counting. *)

From Coq Require Import List NArith ZArith PArith Bool Arith Lia Permutation FMapPositive.
From OxiVerif Require Import Mgr.Alloc.
Import ListNotations.
Local Open Scope N_scope.

Arguments N.add : simpl never.
Arguments N.sub : simpl never.
Arguments N.mul : simpl never.
Arguments N.div : simpl never.
Arguments N.modulo : simpl never.

(** ** the slot map *)

Lemma key_inj : forall a b, key a = key b -> a = b.
Proof.
  unfold key. intros a b H.
  assert (Npos (N.succ_pos a) = Npos (N.succ_pos b)) as E by (rewrite H; reflexivity).
  rewrite !N.succ_pos_spec in E. lia.
Qed.

Lemma sget_sset_same : forall m id s, sget (sset m id s) id = s.
Proof. intros. unfold sget, sset. rewrite PositiveMap.gss. reflexivity. Qed.

Lemma sget_sset_other : forall m id s j, j <> id -> sget (sset m id s) j = sget m j.
Proof.
  intros. unfold sget, sset. rewrite PositiveMap.gso; [reflexivity|].
  intro E. apply H. apply key_inj. exact E.
Qed.

Lemma sget_empty : forall id, sget (PositiveMap.empty slot) id = SUninit.
Proof. intros. unfold sget. rewrite PositiveMap.gempty. reflexivity. Qed.

(** ** [upd] *)

Lemma upd_length : forall (A : Type) (l : list A) i x, length (upd l i x) = length l.
Proof. induction l; destruct i; simpl; intros; auto. Qed.

Lemma nth_error_upd_same : forall (A : Type) (l : list A) i x y,
  nth_error l i = Some y -> nth_error (upd l i x) i = Some x.
Proof. induction l; destruct i; simpl; intros; try discriminate; eauto. Qed.

Lemma nth_error_upd_other : forall (A : Type) (l : list A) i j x,
  i <> j -> nth_error (upd l i x) j = nth_error l j.
Proof.
  induction l; destruct i; destruct j; simpl; intros; auto; try congruence.
Qed.

Lemma nth_error_split_upd : forall (A : Type) (l : list A) i y,
  nth_error l i = Some y ->
  exists a b, l = a ++ y :: b /\ length a = i /\ forall x, upd l i x = a ++ x :: b.
Proof.
  induction l; destruct i; simpl; intros; try discriminate.
  - inversion H; subst. exists [], l. repeat split; auto.
  - destruct (IHl _ _ H) as (p & q & E & L & U).
    exists (a :: p), q. subst. repeat split; simpl; auto. intros. rewrite U. reflexivity.
Qed.

Lemma upd_same_id : forall (A : Type) (l : list A) i y, nth_error l i = Some y -> upd l i y = l.
Proof. induction l; destruct i; simpl; intros; try discriminate; try congruence. f_equal. auto. Qed.

Lemma map_upd : forall (A B : Type) (f : A -> B) l i x, map f (upd l i x) = upd (map f l) i (f x).
Proof. induction l; destruct i; simpl; intros; auto. f_equal. auto. Qed.

Lemma Forall_upd : forall (A : Type) (P : A -> Prop) l i x, Forall P l -> P x -> Forall P (upd l i x).
Proof.
  induction l; destruct i; simpl; intros; auto; inversion H; subst; constructor; auto.
Qed.

Lemma Forall2_upd : forall (A B : Type) (P : A -> B -> Prop) l k i x y,
  Forall2 P l k -> P x y -> Forall2 P (upd l i x) (upd k i y).
Proof.
  intros A B P l k i x y H. revert i. induction H; destruct i; simpl; intros; constructor; auto.
Qed.

Lemma Forall2_nth : forall (A B : Type) (P : A -> B -> Prop) l k i x,
  Forall2 P l k -> nth_error l i = Some x -> exists y, nth_error k i = Some y /\ P x y.
Proof.
  intros A B P l k i x H. revert i. induction H; destruct i; simpl; intros; try discriminate.
  - inversion H1; subst. eauto.
  - eauto.
Qed.

Lemma Forall2_nth2 : forall (A B : Type) (P : A -> B -> Prop) l k i y,
  Forall2 P l k -> nth_error k i = Some y -> exists x, nth_error l i = Some x /\ P x y.
Proof.
  intros A B P l k i y H. revert i. induction H; destruct i; simpl; intros; try discriminate.
  - inversion H1; subst. eauto.
  - eauto.
Qed.

Lemma Forall2_app_one : forall (A B : Type) (P : A -> B -> Prop) l k x y,
  Forall2 P l k -> P x y -> Forall2 P (l ++ [x]) (k ++ [y]).
Proof. intros. apply Forall2_app; auto. Qed.

(** the other entries of a list of lists, as a multiset *)
Lemma concat_upd_perm : forall (ls : list (list N)) i x,
  nth_error ls i = Some x ->
  exists R, Permutation (concat ls) (x ++ R) /\
            forall x', Permutation (concat (upd ls i x')) (x' ++ R).
Proof.
  intros ls i x H. destruct (nth_error_split_upd _ _ _ _ H) as (a & b & E & _ & U).
  exists (concat a ++ concat b). split.
  - subst. rewrite concat_app. simpl.
    rewrite app_assoc. rewrite (Permutation_app_comm (concat a) x). rewrite <- app_assoc. reflexivity.
  - intros x'. rewrite U. rewrite concat_app. simpl.
    rewrite app_assoc. rewrite (Permutation_app_comm (concat a) x'). rewrite <- app_assoc. reflexivity.
Qed.

Lemma flat_map_upd_perm : forall (A : Type) (f : A -> list N) (l : list A) i y,
  nth_error l i = Some y ->
  exists R, Permutation (flat_map f l) (f y ++ R) /\
            forall x, Permutation (flat_map f (upd l i x)) (f x ++ R).
Proof.
  intros A f l i y H.
  destruct (concat_upd_perm (map f l) i (f y)) as (R & P1 & P2).
  { rewrite nth_error_map, H. reflexivity. }
  exists R. split.
  - rewrite flat_map_concat_map. exact P1.
  - intros x. rewrite flat_map_concat_map, map_upd. apply P2.
Qed.

Lemma in_concat_nth : forall (ls : list (list N)) i x id,
  nth_error ls i = Some x -> In id x -> In id (concat ls).
Proof.
  intros. apply in_concat. exists x. split; auto. eapply nth_error_In; eauto.
Qed.

(** ** free lists in the heap *)

Inductive Chain (m : smap) : N -> list N -> Prop :=
| Chain_nil : Chain m 0 []
| Chain_cons : forall h nx l, h <> 0 -> sget m h = SFree nx -> Chain m nx l -> Chain m h (h :: l).

Lemma Chain_fun : forall m h l, Chain m h l -> forall l', Chain m h l' -> l = l'.
Proof.
  induction 1; intros l' H'; inversion H'; subst; try congruence.
  rewrite H0 in H3. inversion H3; subst. f_equal. auto.
Qed.

Lemma Chain_zero : forall m l, Chain m 0 l -> l = [].
Proof. intros. inversion H; subst; auto. congruence. Qed.

Lemma Chain_frame : forall m h l id s, Chain m h l -> ~ In id l -> Chain (sset m id s) h l.
Proof.
  induction 1; intros; [constructor|]. econstructor; eauto.
  - rewrite sget_sset_other; eauto. intro; subst. apply H2. left; auto.
  - apply IHChain. intro. apply H2. right; auto.
Qed.

Lemma Chain_no_zero : forall m h l, Chain m h l -> ~ In 0 l.
Proof. induction 1; simpl; intuition. Qed.

Lemma Chain_free : forall m h l x, Chain m h l -> In x l -> exists nx, sget m x = SFree nx.
Proof. induction 1; simpl; intros; [contradiction|]. destruct H2; subst; eauto. Qed.

Lemma Chain_push : forall m h l id,
  id <> 0 -> Chain m h l -> ~ In id l -> Chain (sset m id (SFree h)) id (id :: l).
Proof.
  intros. econstructor; eauto.
  - apply sget_sset_same.
  - apply Chain_frame; auto.
Qed.

Lemma Chain_head : forall m h l, Chain m h l -> h <> 0 ->
  exists nx l', sget m h = SFree nx /\ l = h :: l' /\ Chain m nx l'.
Proof. intros. inversion H; subst; [congruence|]. eauto. Qed.

Lemma Chain_nonnil_head : forall m h l, Chain m h l -> h = 0 <-> l = [].
Proof. intros. inversion H; subst; split; intros; auto; congruence. Qed.

(** the executable versions *)
Lemma chainl_of_Chain : forall m h l, Chain m h l ->
  forall n, (length l < n)%nat -> chainl n m h = l /\ chain_ok n m h = true.
Proof.
  induction 1; intros n Hn.
  - destruct n; [lia|]. simpl. split; reflexivity.
  - destruct n; [simpl in Hn; lia|]. simpl.
    destruct (N.eqb_spec h 0); [congruence|]. rewrite H0.
    destruct (IHChain n) as [E1 E2]; [simpl in Hn; lia|]. rewrite E1, E2. split; reflexivity.
Qed.

Lemma Chain_of_chain_ok : forall n m h, chain_ok n m h = true -> Chain m h (chainl n m h).
Proof.
  induction n; simpl; intros; [discriminate|].
  destruct (N.eqb_spec h 0); [subst; constructor|].
  destruct (sget m h) eqn:E; try discriminate.
  econstructor; eauto.
Qed.

(** ** ID ranges *)

Lemma range_ids_length : forall c i n, length (range_ids c i n) = n.
Proof. intros c i n. revert i. induction n; simpl; intros; auto. Qed.

Lemma in_range_ids : forall c n i id,
  In id (range_ids c i n) <-> (i + term c <= id < i + term c + N.of_nat n).
Proof.
  intros c n. induction n; intros i id.
  - simpl. split; [contradiction | lia].
  - cbn [range_ids In]. rewrite IHn. rewrite Nat2N.inj_succ. lia.
Qed.

Lemma range_ids_nodup : forall c n i, NoDup (range_ids c i n).
Proof.
  intros c n. induction n; intros i; cbn [range_ids]; constructor; auto.
  rewrite in_range_ids. lia.
Qed.

Lemma range_ids_app : forall c n k i,
  range_ids c i (n + k) = range_ids c i n ++ range_ids c (i + N.of_nat n) k.
Proof.
  intros c n. induction n; intros k i.
  - simpl. replace (i + 0) with i by lia. reflexivity.
  - cbn [range_ids plus app]. rewrite IHn. f_equal. f_equal. f_equal. lia.
Qed.

Lemma in_ids : forall c id, In id (ids c) <-> (term c <= id < term c + cap c).
Proof.
  intros c id. unfold ids. rewrite in_map_iff. split.
  - intros (i & E & Hi). apply in_seq in Hi. lia.
  - intros H. exists (N.to_nat (id - term c)). split; [lia|]. apply in_seq. lia.
Qed.

Lemma ids_nodup : forall c, NoDup (ids c).
Proof.
  intros c. unfold ids. apply FinFun.Injective_map_NoDup.
  - intros a b H. lia.
  - apply seq_NoDup.
Qed.

Lemma ids_length : forall c, length (ids c) = N.to_nat (cap c).
Proof. intros. unfold ids. rewrite map_length, seq_length. reflexivity. Qed.

(** ** counting *)

Lemma filter_length_le : forall (A : Type) (f : A -> bool) l, (length (filter f l) <= length l)%nat.
Proof. induction l; simpl; auto. destruct (f a); simpl; lia. Qed.

(** a duplicate-free sub-list of the IDs and its complement *)
Lemma complement_count : forall (U F : list N) (f : N -> bool),
  NoDup U -> NoDup F -> (forall x, In x F -> In x U) ->
  (forall x, In x U -> (f x = true <-> ~ In x F)) ->
  (length (filter f U) + length F = length U)%nat.
Proof.
  induction U as [|u U IH]; intros F f HU HF Hsub Hf.
  - destruct F; [reflexivity|]. exfalso. apply (Hsub n). left; auto.
  - inversion HU; subst.
    destruct (in_dec N.eq_dec u F) as [HuF | HuF].
    + (* u is in F: remove it *)
      destruct (in_split _ _ HuF) as (F1 & F2 & EF). subst F.
      assert (NoDup (F1 ++ F2)) as HF' by (eapply NoDup_remove_1; eauto).
      assert (~ In u (F1 ++ F2)) as Hnu by (eapply NoDup_remove_2; eauto).
      cbn [filter]. destruct (f u) eqn:Efu.
      { exfalso. apply (proj1 (Hf u (or_introl eq_refl))); auto. }
      specialize (IH (F1 ++ F2) f H2 HF').
      assert (length (filter f U) + length (F1 ++ F2) = length U)%nat as E.
      { apply IH.
        - intros x Hx. assert (In x (F1 ++ u :: F2)) as Hx'.
          { apply in_app_or in Hx. apply in_or_app. destruct Hx; [left | right; right]; auto. }
          destruct (Hsub x Hx'); auto. subst. contradiction.
        - intros x Hx. rewrite (Hf x (or_intror Hx)). split; intros Hn Hi; apply Hn.
          + apply in_app_or in Hi. apply in_or_app. destruct Hi; [left | right; right]; auto.
          + apply in_app_or in Hi. apply in_or_app. destruct Hi as [|[|]]; auto. subst. contradiction. }
      rewrite app_length in *. cbn [length] in *. lia.
    + cbn [filter]. destruct (f u) eqn:Efu.
      2:{ exfalso. assert (f u = true) by (apply (Hf u (or_introl eq_refl)); auto). congruence. }
      cbn [length].
      assert (length (filter f U) + length F = length U)%nat as E; [|lia].
      apply IH; auto.
      * intros x Hx. destruct (Hsub x Hx); auto. subst. contradiction.
      * intros x Hx. apply Hf. right; auto.
Qed.

(** a single slot changes *)
Lemma filter_ext_in : forall (A : Type) (f g : A -> bool) l,
  (forall x, In x l -> f x = g x) -> filter f l = filter g l.
Proof.
  induction l; simpl; intros; auto. rewrite H by (left; auto).
  destruct (g a); [f_equal|]; apply IHl; intros; apply H; right; auto.
Qed.

Lemma filter_flip_length : forall (f g : N -> bool) (l : list N) x,
  NoDup l -> In x l -> (forall y, y <> x -> f y = g y) -> f x = false -> g x = true ->
  length (filter g l) = S (length (filter f l)).
Proof.
  induction l as [|a l IH]; intros x Hnd Hin Hext Hf Hg; [contradiction|].
  inversion Hnd; subst. cbn [filter]. destruct Hin as [E | Hin].
  - subst a. rewrite Hf, Hg. cbn [length]. f_equal. f_equal.
    apply filter_ext_in. intros y Hy. symmetry. apply Hext. intro; subst; contradiction.
  - assert (a <> x) as Hax by (intro; subst; contradiction).
    rewrite (Hext a Hax). destruct (g a); cbn [length]; [f_equal|]; eapply IH; eauto.
Qed.

Lemma nlive_set_node : forall c m id,
  term c <= id < term c + cap c -> sget m id <> SNode ->
  length (filter (fun x => is_node (sget (sset m id SNode) x)) (ids c)) =
  S (length (filter (fun x => is_node (sget m x)) (ids c))).
Proof.
  intros c m id Hr Hn. apply filter_flip_length with (x := id).
  - apply ids_nodup.
  - apply in_ids; auto.
  - intros y Hy. rewrite sget_sset_other; auto.
  - destruct (sget m id); simpl; congruence.
  - rewrite sget_sset_same. reflexivity.
Qed.

Lemma nlive_unset_node : forall c m id s,
  term c <= id < term c + cap c -> sget m id = SNode -> s <> SNode ->
  length (filter (fun x => is_node (sget m x)) (ids c)) =
  S (length (filter (fun x => is_node (sget (sset m id s) x)) (ids c))).
Proof.
  intros c m id s Hr Hn Hs. apply filter_flip_length with (x := id).
  - apply ids_nodup.
  - apply in_ids; auto.
  - intros y Hy. rewrite sget_sset_other; auto.
  - rewrite sget_sset_same. destruct s; simpl; congruence.
  - rewrite Hn. reflexivity.
Qed.

Lemma nlive_same : forall c m m',
  (forall id, term c <= id < term c + cap c -> is_node (sget m' id) = is_node (sget m id)) ->
  length (filter (fun x => is_node (sget m' x)) (ids c)) =
  length (filter (fun x => is_node (sget m x)) (ids c)).
Proof.
  intros. f_equal. apply filter_ext_in. intros x Hx. apply H. apply in_ids. exact Hx.
Qed.

(** ** the sum of the deltas *)

Lemma sum_delta_app : forall sh m a b,
  sum_delta (mkSt sh m (a ++ b)) = (sum_delta (mkSt sh m a) + sum_delta (mkSt sh m b))%Z.
Proof.
  intros. unfold sum_delta. simpl. induction a; simpl; [lia|]. rewrite IHa. lia.
Qed.

Definition sumd (l : list local) : Z := fold_right (fun l a => (l_delta l + a)%Z) 0%Z l.

Lemma sum_delta_sumd : forall s, sum_delta s = sumd (th s).
Proof. reflexivity. Qed.

Lemma sumd_app : forall a b, sumd (a ++ b) = (sumd a + sumd b)%Z.
Proof. induction a; simpl; intros; [lia|]. rewrite IHa. lia. Qed.

Lemma sumd_upd : forall l i y x, nth_error l i = Some y ->
  sumd (upd l i x) = (sumd l - l_delta y + l_delta x)%Z.
Proof.
  intros l i y x H. destruct (nth_error_split_upd _ _ _ _ H) as (a & b & E & _ & U).
  rewrite U. subst l. rewrite !sumd_app. simpl. lia.
Qed.

Lemma sumd_repeat_fresh : forall n, sumd (repeat lfresh n) = 0%Z.
Proof. induction n; simpl; auto. Qed.
