(** * ALLOC — concrete runs of the slot allocator model: non-vacuity of the invariant
      (2-3 threads, chunk size 2, capacity 6, every action, every path) and computed
      schedules on which the known defective variants violate the theorems. *)

From Coq Require Import List NArith ZArith PArith Bool Arith Lia.
From OxiVerif Require Import Mgr.Alloc Mgr.AllocBase Mgr.AllocInv Mgr.AllocStep Mgr.AllocProofs.
Import ListNotations.
Local Open Scope N_scope.

(** capacity 6, chunk size 2, 2 terminals (slot IDs 2..7), no background collector *)
Definition ex_cfg : cfg := mkCfg 6 2 2 0 0.

Lemma ex_cfg_ok : 1 <= chunk ex_cfg /\ 1 <= term ex_cfg.
Proof. cbv. split; discriminate. Qed.

(** thread 0: guard, chunk pre-allocation, range, hand-over after 2 frees, guard drop returning the
    rest of its chunk; thread 1: a bound worker; non-local free and allocation; a third thread;
    out of memory; the collector epilogue *)
Definition ex_sched_a : list act :=
  [APrepare 0; AAlloc 0; AAlloc 0; AAlloc 0; ABind 1; AAlloc 1; APrepare 1;
   AFree 0 2; AFree 0 3; AAlloc 1; ADropGuard 0; AOtherEnter 0; APrepare 0; AFree 0 4; AAlloc 0; AAlloc 0;
   AOtherLeave 0 7 9; ASpawn; APrepare 2; AAlloc 2; AAlloc 2; AAlloc 2; AFree 1 6; AGcFlush 1; AAlloc 2;
   AFree 2 4; ADropGuard 2; AAlloc 1; AAlloc 1; AGcFlush 1].

Definition ex_obs_a : list obs :=
  [OPrep true; OAlloc (Some 2) PSharedChunk; OAlloc (Some 3) PLocalRange; OAlloc (Some 4) PSharedChunk; OUnit;
   OAlloc (Some 6) PSharedBump; OPrep false; OFree false; OFree true; OAlloc (Some 3) PSharedList;
   ODrop true 5; OUnit; OPrep false; OFree false; OAlloc (Some 4) PNonLocalList; OAlloc (Some 5) PNonLocalList;
   OUnit; OUnit; OPrep true; OAlloc (Some 2) PSharedList; OAlloc (Some 7) PSharedBump; OAlloc None POom;
   OFree false; OFlush 6; OAlloc (Some 6) PSharedList; OFree false; ODrop true 4; OAlloc (Some 4) PSharedList;
   OAlloc None POom; OFlush 0].

(** guard drop with nothing to return, local list, taking a whole shared list (a chunk can still
    be pre-allocated), non-local bump *)
Definition ex_sched_b : list act :=
  [APrepare 0; ADropGuard 0; APrepare 0; AAlloc 0; AFree 0 2; ADropGuard 0;
   ASpawn; ABind 1; AAlloc 1; AAlloc 1; AOtherEnter 0; AAlloc 0; AOtherLeave 0 7 9;
   APrepare 2; APrepare 2; AAlloc 2; AAlloc 2; AAlloc 2; AAlloc 2;
   AFree 2 5; AFree 2 6; AFree 1 3; AGcFlush 1; AAlloc 2; ADropGuard 2;
   AOtherEnter 2; AFree 2 4; AAlloc 2; AOtherLeave 2 0 0; AAlloc 1; AAlloc 1; AGcFlush 1].

Definition ex_obs_b : list obs :=
  [OPrep true; ODrop false 0; OPrep true; OAlloc (Some 2) PSharedChunk; OFree false; ODrop true 3; OUnit; OUnit;
   OAlloc (Some 3) PSharedList; OAlloc (Some 2) PLocalList; OUnit; OAlloc (Some 4) PNonLocalBump; OUnit;
   OPrep true; OPrep false; OAlloc (Some 5) PSharedChunk; OAlloc (Some 6) PSharedBump; OAlloc (Some 7) PSharedBump;
   OAlloc None POom; OFree false; OFree true; OFree false; OFlush 3; OAlloc (Some 3) PSharedList; ODrop false 0;
   OUnit; OFree false; OAlloc (Some 4) PNonLocalList; OUnit; OAlloc (Some 6) PSharedList;
   OAlloc (Some 5) PSharedList; OFlush 0].

Definition paths_of (os : list obs) : list path :=
  flat_map (fun o => match o with OAlloc _ p => [p] | _ => [] end) os.

Definition path_eqb (a b : path) : bool :=
  match a, b with
  | PLocalList, PLocalList | PLocalRange, PLocalRange | PSharedList, PSharedList | PSharedChunk, PSharedChunk
  | PSharedBump, PSharedBump | PNonLocalList, PNonLocalList | PNonLocalBump, PNonLocalBump | POom, POom => true
  | _, _ => false
  end.

Definition all_paths : list path :=
  [PLocalList; PLocalRange; PSharedList; PSharedChunk; PSharedBump; PNonLocalList; PNonLocalBump; POom].

(** the hypotheses of all theorems are satisfiable: both schedules are behaviours of the model,
    they reach states with all 6 slots live after going through every action and every path,
    the reached states satisfy the invariant (and the executable checker agrees) *)
Theorem example_runs :
  exists sa sb,
    run ex_cfg good (init ex_cfg 2) ex_sched_a = Some (sa, ex_obs_a) /\
    run ex_cfg good (init ex_cfg 2) ex_sched_b = Some (sb, ex_obs_b) /\
    AInv ex_cfg sa /\ AInv ex_cfg sb /\
    ainv_b ex_cfg sa = true /\ ainv_b ex_cfg sb = true /\
    live_slots ex_cfg sa = [2; 3; 4; 5; 6; 7] /\ live_slots ex_cfg sb = [2; 3; 4; 5; 6; 7] /\
    forallb (fun p => existsb (path_eqb p) (paths_of (ex_obs_a ++ ex_obs_b))) all_paths = true.
Proof.
  destruct (run ex_cfg good (init ex_cfg 2) ex_sched_a) as [[sa oa]|] eqn:Ea; [|vm_compute in Ea; discriminate].
  destruct (run ex_cfg good (init ex_cfg 2) ex_sched_b) as [[sb ob]|] eqn:Eb; [|vm_compute in Eb; discriminate].
  assert (AInv ex_cfg sa) as Ia.
  { eapply run_inv; [|exact Ea]. apply init_inv; apply ex_cfg_ok. }
  assert (AInv ex_cfg sb) as Ib.
  { eapply run_inv; [|exact Eb]. apply init_inv; apply ex_cfg_ok. }
  exists sa, sb. vm_compute in Ea. vm_compute in Eb. inversion Ea; subst. inversion Eb; subst.
  repeat split; auto; vm_compute; reflexivity.
Qed.

(** ** refutations of the defective variants (computed schedules) *)

Definition summary (c : cfg) (r : option (st * list obs)) :=
  match r with
  | Some (s, os) =>
    Some (last os OUnit, s_free (sh s), s_count (sh s), sum_delta s, nlive c s, map l_next (th s),
          live_slots c s, (shared_slots c s, local_slots c s, range_slots c s, unalloc_slots c s), ainv_b c s)
  | None => None
  end.

(** seeded C01e ([v_no_reset]): thread 0 frees two slots (chunk size 2: the second free hands its
    list [3; 2] over to the shared state) and allocates again.  The variant keeps the list head:
    slot 3 is handed out from the thread's local list although it is the head of a shared list; it
    now holds a node AND heads a free list (the partition is violated), the next thread that asks the
    shared state would be handed the live slot 3 (the model is stuck on a list head that is a node).
    The code as it is hands out slot 5 from the thread's range instead. *)
Definition sched_no_reset : list act :=
  [APrepare 0; AAlloc 0; AAlloc 0; AAlloc 0; AFree 0 2; AFree 0 3; AAlloc 0].

Theorem no_reset_refuted :
  summary ex_cfg (run ex_cfg var_no_reset (init ex_cfg 2) sched_no_reset) =
    Some (OAlloc (Some 3) PLocalList, [3], 1%Z, 1%Z, 2%nat, [2; 0], [3; 4], ([], [2], [5], [6; 7]), false) /\
  run ex_cfg var_no_reset (init ex_cfg 2) (sched_no_reset ++ [ABind 1; AAlloc 1]) = None /\
  summary ex_cfg (run ex_cfg good (init ex_cfg 2) sched_no_reset) =
    Some (OAlloc (Some 5) PLocalRange, [3], 1%Z, 1%Z, 2%nat, [0; 0], [4; 5], ([3; 2], [], [], [6; 7]), true).
Proof. repeat split; vm_compute; reflexivity. Qed.

(** capacity 3 <= chunk size 4: a manager that never pre-allocates a chunk (as the small managers
    of the correspondence runs) *)
Definition sm_cfg : cfg := mkCfg 3 4 2 0 0.

(** seeded C14f ([v_cap_first]): a single thread whose local state belongs to another store fills
    the store, frees slot 3 and allocates again: OutOfMemory although slot 3 is in the shared list
    (contradicts [oom_iff] / [oom_single]); the code as it is returns slot 3 *)
Definition sched_cap_first : list act :=
  [AOtherEnter 0; AAlloc 0; AAlloc 0; AAlloc 0; AFree 0 3; AAlloc 0].

Theorem cap_first_refuted :
  summary sm_cfg (run sm_cfg var_cap_first (init sm_cfg 1) sched_cap_first) =
    Some (OAlloc None POom, [3], 3%Z, 0%Z, 2%nat, [0], [2; 4], ([3], [], [], []), false) /\
  summary sm_cfg (run sm_cfg good (init sm_cfg 1) sched_cap_first) =
    Some (OAlloc (Some 3) PNonLocalList, [], 3%Z, 0%Z, 3%nat, [0], [2; 3; 4], ([], [], [], []), true).
Proof. repeat split; vm_compute; reflexivity. Qed.

(** the code before /repo 45ba7ac ([v_take_all]): thread 0 returns a list of three slots at guard
    drop; the worker thread 1 allocates ONE node and takes the whole list: it now holds slots 3 and
    2 although it never freed a slot (contradicts [alloc_no_hoard_scarce]), and thread 0 gets
    OutOfMemory with 1 of 3 slots live.  The code as it is hands slot 3 to thread 0. *)
Definition sched_take_all : list act :=
  [APrepare 0; AAlloc 0; AAlloc 0; AAlloc 0; AFree 0 2; AFree 0 3; AFree 0 4; ADropGuard 0;
   ABind 1; AAlloc 1; APrepare 0; AAlloc 0].

Theorem take_all_refuted :
  summary sm_cfg (run sm_cfg var_take_all (init sm_cfg 2) sched_take_all) =
    Some (OAlloc None POom, [], 1%Z, 0%Z, 1%nat, [0; 3], [4], ([], [3; 2], [], []), true) /\
  summary sm_cfg (run sm_cfg good (init sm_cfg 2) sched_take_all) =
    Some (OAlloc (Some 3) PSharedList, [2], 2%Z, 0%Z, 2%nat, [0; 0], [3; 4], ([2], [], [], []), true).
Proof. repeat split; vm_compute; reflexivity. Qed.

(** seeded C05c ([v_tail_zero]): capacity 10, chunk size 4; thread 0 allocates slot 2 from a new
    chunk (range 3..5), frees it (local list [2]) and drops its guard: the variant terminates the
    chunk list with 0, slot 2 is in no list any more: at quiescence 9 free slots + 0 live <> 10
    (contradicts [quiescent_no_leak]) *)
Definition lk_cfg : cfg := mkCfg 10 4 2 0 0.
Definition sched_tail_zero : list act := [APrepare 0; AAlloc 0; AFree 0 2; ADropGuard 0].

Theorem tail_zero_refuted :
  summary lk_cfg (run lk_cfg var_tail_zero (init lk_cfg 1) sched_tail_zero) =
    Some (ODrop true 3, [3], 0%Z, 0%Z, 0%nat, [2], [], ([3; 4; 5], [], [], [6; 7; 8; 9; 10; 11]), false) /\
  summary lk_cfg (run lk_cfg good (init lk_cfg 1) sched_tail_zero) =
    Some (ODrop true 3, [3], 0%Z, 0%Z, 0%nat, [2], [], ([3; 4; 5; 2], [], [], [6; 7; 8; 9; 10; 11]), true).
Proof. repeat split; vm_compute; reflexivity. Qed.

(** seeded C07b ([v_no_prep_reset]): thread 0 returns the list [3; 2] at guard drop and enters the
    manager again: the variant still has 3 as its local list head and hands it out while it heads
    the shared list; the next request to the shared state is stuck on the live slot 3 *)
Definition sched_no_prep_reset : list act :=
  [APrepare 0; AAlloc 0; AAlloc 0; AFree 0 2; AFree 0 3; ADropGuard 0; APrepare 0; AAlloc 0].

Theorem no_prep_reset_refuted :
  summary sm_cfg (run sm_cfg var_no_prep_reset (init sm_cfg 2) sched_no_prep_reset) =
    Some (OAlloc (Some 3) PLocalList, [3], 0%Z, 1%Z, 1%nat, [2; 0], [3], ([], [2], [], [4]), false) /\
  run sm_cfg var_no_prep_reset (init sm_cfg 2) (sched_no_prep_reset ++ [ABind 1; AAlloc 1]) = None /\
  summary sm_cfg (run sm_cfg good (init sm_cfg 2) sched_no_prep_reset) =
    Some (OAlloc (Some 3) PSharedList, [2], 1%Z, 0%Z, 1%nat, [0; 0], [3], ([2], [], [], [4]), true).
Proof. repeat split; vm_compute; reflexivity. Qed.

(** the code before the fix "a failed node allocation is not counted" ([v_oom_drift]): two failed
    allocations on a full store of capacity 3: shared count 5 with 3 live slots at quiescence
    (contradicts [count_exact] / [quiescent_count]) *)
Definition sched_oom_drift : list act :=
  [APrepare 0; AAlloc 0; AAlloc 0; AAlloc 0; AAlloc 0; AAlloc 0; ADropGuard 0].

Theorem oom_drift_refuted :
  summary sm_cfg (run sm_cfg var_oom_drift (init sm_cfg 1) sched_oom_drift) =
    Some (ODrop false 0, [], 5%Z, 0%Z, 3%nat, [0], [2; 3; 4], ([], [], [], []), false) /\
  summary sm_cfg (run sm_cfg good (init sm_cfg 1) sched_oom_drift) =
    Some (ODrop false 0, [], 3%Z, 0%Z, 3%nat, [0], [2; 3; 4], ([], [], [], []), true).
Proof. repeat split; vm_compute; reflexivity. Qed.

(** the code before the fix "the freed node that triggers the hand-over is counted"
    ([v_ho_drift]): chunk size 2, the second free hands the list over: shared count 2 with 1 live slot *)
Definition sched_ho_drift : list act :=
  [APrepare 0; AAlloc 0; AAlloc 0; AAlloc 0; AFree 0 2; AFree 0 3; ADropGuard 0].

Theorem ho_drift_refuted :
  summary ex_cfg (run ex_cfg var_ho_drift (init ex_cfg 1) sched_ho_drift) =
    Some (ODrop true 5, [5; 3], 2%Z, 0%Z, 1%nat, [0], [4], ([5; 3; 2], [], [], [6; 7]), false) /\
  summary ex_cfg (run ex_cfg good (init ex_cfg 1) sched_ho_drift) =
    Some (ODrop true 5, [5; 3], 1%Z, 0%Z, 1%nat, [0], [4], ([5; 3; 2], [], [], [6; 7]), true).
Proof. repeat split; vm_compute; reflexivity. Qed.
