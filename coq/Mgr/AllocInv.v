(** * ALLOC — the invariant of the slot allocator model and generic preservation lemmas

    [AInvW c s fs ls]: [fs] are the shared free lists, [ls] the threads' local free lists as
    lists of slot IDs (ghost witnesses; they are determined by the state: [Chain_fun]).  The
    invariant says that they really are the heap chains that start at the heads stored in the
    state, that together with the threads' pre-allocated ranges and the never-allocated rest
    of the slot array they are duplicate-free and inside the slot array, that exactly the other
    slots hold a node, and that the node count bookkeeping is exact. *)

From Coq Require Import List NArith ZArith PArith Bool Arith Lia Permutation FMapPositive.
From OxiVerif Require Import Mgr.Alloc Mgr.AllocBase.
Import ListNotations.
Local Open Scope N_scope.

Arguments N.add : simpl never.
Arguments N.sub : simpl never.
Arguments N.mul : simpl never.
Arguments N.div : simpl never.
Arguments N.modulo : simpl never.

(** ** permutations through occurrence counts *)

Lemma perm_of_count : forall l1 l2 : list N,
  (forall z, count_occ N.eq_dec l1 z = count_occ N.eq_dec l2 z) -> Permutation l1 l2.
Proof. intros. apply (Permutation_count_occ N.eq_dec). assumption. Qed.

Lemma count_of_perm : forall (l1 l2 : list N) z,
  Permutation l1 l2 -> count_occ N.eq_dec l1 z = count_occ N.eq_dec l2 z.
Proof. intros. apply (Permutation_count_occ N.eq_dec). assumption. Qed.

Ltac perm_count :=
  apply perm_of_count; let z := fresh "z" in intro z;
  repeat match goal with H : Permutation _ _ |- _ => apply (fun a b => count_of_perm a b z) in H end;
  repeat (rewrite ?count_occ_app in *; cbn [count_occ concat flat_map app] in *);
  repeat match goal with
         | |- context [N.eq_dec ?a ?b] => destruct (N.eq_dec a b)
         | H : context [N.eq_dec ?a ?b] |- _ => destruct (N.eq_dec a b)
         end; try lia.

Lemma NoDup_app_disj : forall (a b : list N) x, NoDup (a ++ b) -> In x a -> ~ In x b.
Proof.
  induction a; simpl; intros; [contradiction|]. inversion H; subst. destruct H0.
  - subst. intro. apply H3. apply in_or_app. right; auto.
  - eapply IHa; eauto.
Qed.

Lemma NoDup_app_l : forall (a b : list N), NoDup (a ++ b) -> NoDup a.
Proof. induction a; simpl; intros; [constructor|]. inversion H; subst. constructor; eauto.
  intro. apply H2. apply in_or_app; auto. Qed.

Lemma NoDup_app_r : forall (a b : list N), NoDup (a ++ b) -> NoDup b.
Proof. induction a; simpl; intros; auto. inversion H; subst. auto. Qed.

(** ** the invariant *)

Definition lchainP (m : smap) (l : local) (x : list N) : Prop :=
  if is_this (l_cur l) then Chain m (l_next l) x else x = [].

Definition local_ok (c : cfg) (s : shared) (l : local) : Prop :=
  (l_guard l = true -> l_cur l = CThis) /\
  (l_cur l <> CThis -> l_delta l = 0%Z) /\
  (l_cur l = CThis -> in_chunk c (l_init l) = true -> chunk_end c (l_init l) <= s_alloc s).

Definition unalloc (c : cfg) (a : N) : list N := range_ids c a (N.to_nat (cap c - a)).

(** all free slots, from the witnesses *)
Definition wfree (c : cfg) (s : st) (fs ls : list (list N)) : list N :=
  concat fs ++ concat ls ++ flat_map (lrange c) (th s) ++ unalloc c (s_alloc (sh s)).

Definition in_arr (c : cfg) (id : N) : Prop := term c <= id < term c + cap c.

Record AInvW (c : cfg) (s : st) (fs ls : list (list N)) : Prop := mkInv {
  w_chunk : 1 <= chunk c;
  w_term : 1 <= term c;
  w_alloc : s_alloc (sh s) <= cap c;
  w_heads : Forall (fun h => h <> 0) (s_free (sh s));
  w_schains : Forall2 (Chain (sl s)) (s_free (sh s)) fs;
  w_lchains : Forall2 (lchainP (sl s)) (th s) ls;
  w_locals : Forall (local_ok c (sh s)) (th s);
  w_nodup : NoDup (wfree c s fs ls);
  w_range : forall id, In id (wfree c s fs ls) -> in_arr c id;
  w_nodes : forall id, sget (sl s) id = SNode -> in_arr c id;
  w_live : forall id, in_arr c id -> (sget (sl s) id = SNode <-> ~ In id (wfree c s fs ls));
  w_count : (s_count (sh s) + sumd (th s))%Z = Z.of_nat (nlive c s)
}.

Definition AInv (c : cfg) (s : st) : Prop := exists fs ls, AInvW c s fs ls.

(** ** chains under heap changes *)

Lemma Chain_ext : forall m m' h l,
  Chain m h l -> (forall j, In j l -> sget m' j = sget m j) -> Chain m' h l.
Proof.
  induction 1; intros; [constructor|]. econstructor; eauto.
  - rewrite H2; [eauto | left; auto].
  - apply IHChain. intros. apply H2. right; auto.
Qed.

Lemma schains_ext : forall m m' hs fs,
  Forall2 (Chain m) hs fs -> (forall j, In j (concat fs) -> sget m' j = sget m j) ->
  Forall2 (Chain m') hs fs.
Proof.
  induction 1; intros; constructor.
  - eapply Chain_ext; eauto. intros. apply H1. simpl. apply in_or_app. left; auto.
  - apply IHForall2. intros. apply H1. simpl. apply in_or_app. right; auto.
Qed.

Lemma lchains_ext : forall m m' a la,
  Forall2 (lchainP m) a la -> (forall j, In j (concat la) -> sget m' j = sget m j) ->
  Forall2 (lchainP m') a la.
Proof.
  induction 1; intros; constructor.
  - unfold lchainP in *. destruct (is_this (l_cur x)); auto.
    eapply Chain_ext; eauto. intros. apply H1. simpl. apply in_or_app. left; auto.
  - apply IHForall2. intros. apply H1. simpl. apply in_or_app. right; auto.
Qed.

Lemma Forall2_split_nth : forall (A B : Type) (P : A -> B -> Prop) l k i x,
  Forall2 P l k -> nth_error l i = Some x ->
  exists a b ka y kb,
    l = a ++ x :: b /\ k = ka ++ y :: kb /\ length a = i /\
    Forall2 P a ka /\ P x y /\ Forall2 P b kb /\
    (forall x', upd l i x' = a ++ x' :: b) /\ (forall y', upd k i y' = ka ++ y' :: kb).
Proof.
  intros A B P l k i x H. revert i. induction H; destruct i; simpl; intros; try discriminate.
  - inversion H1; subst. exists [], l, [], y, l'. repeat split; auto.
  - destruct (IHForall2 _ H1) as (a & b & ka & y0 & kb & E1 & E2 & L & F1 & Py & F2 & U1 & U2).
    exists (x0 :: a), b, (y :: ka), y0, kb. subst. repeat split; simpl; auto.
    + intros. rewrite U1. reflexivity.
    + intros. rewrite U2. reflexivity.
Qed.

Lemma locals_mono : forall c s s' ls,
  Forall (local_ok c s) ls -> s_alloc s <= s_alloc s' -> Forall (local_ok c s') ls.
Proof.
  intros. eapply Forall_impl; [|eassumption]. intros l (A & B & C). repeat split; auto.
  intros. specialize (C H1 H2). lia.
Qed.

Lemma local_ok_sh : forall c s s' l, s_alloc s = s_alloc s' -> local_ok c s l -> local_ok c s' l.
Proof. unfold local_ok. intros. rewrite <- H. assumption. Qed.

(** ** generic preservation: a slot is handed out / returned / slots move between lists *)

Lemma in_arr_nonzero : forall c id, 1 <= term c -> in_arr c id -> id <> 0.
Proof. unfold in_arr. intros. lia. Qed.

Lemma inv_alloc_generic : forall c s fs ls s' fs' ls' id,
  AInvW c s fs ls ->
  Permutation (id :: wfree c s' fs' ls') (wfree c s fs ls) ->
  sl s' = sset (sl s) id SNode ->
  s_alloc (sh s') <= cap c ->
  Forall (fun h => h <> 0) (s_free (sh s')) ->
  Forall2 (Chain (sl s')) (s_free (sh s')) fs' ->
  Forall2 (lchainP (sl s')) (th s') ls' ->
  Forall (local_ok c (sh s')) (th s') ->
  (s_count (sh s') + sumd (th s') = s_count (sh s) + sumd (th s) + 1)%Z ->
  AInvW c s' fs' ls'.
Proof.
  intros c s fs ls s' fs' ls' id I P Hm Ha Hh Hs Hl Hlo Hc.
  assert (In id (wfree c s fs ls)) as Hin by (eapply Permutation_in; [exact P | left; auto]).
  assert (NoDup (id :: wfree c s' fs' ls')) as Hnd.
  { eapply Permutation_NoDup; [apply Permutation_sym; exact P | apply (w_nodup _ _ _ _ I)]. }
  inversion Hnd as [|? ? Hni Hnd']; subst.
  assert (in_arr c id) as Hr by (apply (w_range _ _ _ _ I); auto).
  assert (sget (sl s) id <> SNode) as Hnn.
  { intro E. apply (proj1 (w_live _ _ _ _ I id Hr) E). exact Hin. }
  constructor; auto; try (destruct I; assumption).
  - intros j Hj. apply (w_range _ _ _ _ I). eapply Permutation_in; [exact P | right; auto].
  - intros j Hj. rewrite Hm in Hj. destruct (N.eq_dec j id); [subst; auto|].
    rewrite sget_sset_other in Hj; auto. apply (w_nodes _ _ _ _ I); auto.
  - intros j Hj. rewrite Hm. destruct (N.eq_dec j id).
    + subst. rewrite sget_sset_same. split; auto.
    + rewrite sget_sset_other; auto. rewrite (w_live _ _ _ _ I j Hj). split; intros Hn Hi; apply Hn.
      * eapply Permutation_in; [exact P | right; auto].
      * eapply Permutation_in in Hi; [|apply Permutation_sym; exact P]. destruct Hi; [congruence | auto].
  - rewrite Hc. rewrite (w_count _ _ _ _ I). unfold nlive, live_slots. rewrite Hm.
    rewrite (nlive_set_node c (sl s) id Hr Hnn). lia.
Qed.

Lemma inv_free_generic : forall c s fs ls s' fs' ls' id x,
  AInvW c s fs ls ->
  sget (sl s) id = SNode ->
  Permutation (wfree c s' fs' ls') (id :: wfree c s fs ls) ->
  sl s' = sset (sl s) id (SFree x) ->
  s_alloc (sh s') <= cap c ->
  Forall (fun h => h <> 0) (s_free (sh s')) ->
  Forall2 (Chain (sl s')) (s_free (sh s')) fs' ->
  Forall2 (lchainP (sl s')) (th s') ls' ->
  Forall (local_ok c (sh s')) (th s') ->
  (s_count (sh s') + sumd (th s') = s_count (sh s) + sumd (th s) - 1)%Z ->
  AInvW c s' fs' ls'.
Proof.
  intros c s fs ls s' fs' ls' id x I Hn P Hm Ha Hh Hs Hl Hlo Hc.
  assert (in_arr c id) as Hr by (apply (w_nodes _ _ _ _ I); auto).
  assert (~ In id (wfree c s fs ls)) as Hni by (apply (w_live _ _ _ _ I id Hr); auto).
  constructor; auto; try (destruct I; assumption).
  - eapply Permutation_NoDup; [apply Permutation_sym; exact P|]. constructor; auto. apply (w_nodup _ _ _ _ I).
  - intros j Hj. eapply Permutation_in in Hj; [|exact P]. destruct Hj; [subst; auto|].
    apply (w_range _ _ _ _ I); auto.
  - intros j Hj. rewrite Hm in Hj. destruct (N.eq_dec j id).
    + subst. rewrite sget_sset_same in Hj. discriminate.
    + rewrite sget_sset_other in Hj; auto. apply (w_nodes _ _ _ _ I); auto.
  - intros j Hj. rewrite Hm. destruct (N.eq_dec j id).
    + subst. rewrite sget_sset_same. split; [discriminate|]. intros Hx. exfalso. apply Hx.
      eapply Permutation_in; [apply Permutation_sym; exact P | left; auto].
    + rewrite sget_sset_other; auto. rewrite (w_live _ _ _ _ I j Hj). split; intros Hx Hi; apply Hx.
      * eapply Permutation_in in Hi; [|exact P]. destruct Hi; [congruence | auto].
      * eapply Permutation_in; [apply Permutation_sym; exact P | right; auto].
  - rewrite Hc. rewrite (w_count _ _ _ _ I). unfold nlive, live_slots. rewrite Hm.
    rewrite (nlive_unset_node c (sl s) id (SFree x) Hr Hn) by discriminate. lia.
Qed.

Lemma inv_move_generic : forall c s fs ls s' fs' ls',
  AInvW c s fs ls ->
  Permutation (wfree c s' fs' ls') (wfree c s fs ls) ->
  (forall j, sget (sl s') j = SNode <-> sget (sl s) j = SNode) ->
  s_alloc (sh s') <= cap c ->
  Forall (fun h => h <> 0) (s_free (sh s')) ->
  Forall2 (Chain (sl s')) (s_free (sh s')) fs' ->
  Forall2 (lchainP (sl s')) (th s') ls' ->
  Forall (local_ok c (sh s')) (th s') ->
  (s_count (sh s') + sumd (th s') = s_count (sh s) + sumd (th s))%Z ->
  AInvW c s' fs' ls'.
Proof.
  intros c s fs ls s' fs' ls' I P Hm Ha Hh Hs Hl Hlo Hc.
  constructor; auto; try (destruct I; assumption).
  - eapply Permutation_NoDup; [apply Permutation_sym; exact P|]. apply (w_nodup _ _ _ _ I).
  - intros j Hj. apply (w_range _ _ _ _ I). eapply Permutation_in; eauto.
  - intros j Hj. apply (w_nodes _ _ _ _ I). apply Hm; auto.
  - intros j Hj. rewrite Hm. rewrite (w_live _ _ _ _ I j Hj). split; intros Hx Hi; apply Hx.
    + eapply Permutation_in; eauto.
    + eapply Permutation_in; [apply Permutation_sym; exact P | auto].
  - rewrite Hc. rewrite (w_count _ _ _ _ I). unfold nlive, live_slots. f_equal.
    apply nlive_same. intros id _.
    destruct (sget (sl s') id) eqn:E1; destruct (sget (sl s) id) eqn:E2; simpl; auto.
    + assert (sget (sl s') id = SNode) as X by (apply Hm; auto). congruence.
    + assert (sget (sl s) id = SNode) as X by (apply Hm; auto). congruence.
    + assert (sget (sl s) id = SNode) as X by (apply Hm; auto). congruence.
    + assert (sget (sl s') id = SNode) as X by (apply Hm; auto). congruence.
Qed.

(** ** chunk arithmetic *)

Lemma chunk_step : forall c i, 1 <= chunk c ->
  i < chunk_end c i /\ chunk_end c i <= i + chunk c /\
  (in_chunk c (i + 1) = true -> chunk_end c (i + 1) = chunk_end c i) /\
  (in_chunk c (i + 1) = false -> i + 1 = chunk_end c i).
Proof.
  intros c i Hc. unfold chunk_end, in_chunk.
  assert (chunk c <> 0) as Hz by lia.
  pose proof (N.div_mod i (chunk c) Hz) as E.
  pose proof (N.mod_lt i (chunk c) Hz) as L.
  set (q := i / chunk c) in *. set (r := i mod chunk c) in *.
  assert ((q + 1) * chunk c = chunk c * q + chunk c) as E2 by lia.
  repeat split; try lia.
  - intros H. apply negb_true_iff in H. apply N.eqb_neq in H.
    assert (r + 1 < chunk c) as L2.
    { destruct (N.lt_ge_cases (r + 1) (chunk c)); auto. exfalso. apply H.
      assert (i + 1 = chunk c * (q + 1) + 0) as E3 by lia.
      symmetry. apply (N.mod_unique _ _ (q + 1) 0); lia. }
    assert ((i + 1) / chunk c = q) as E3.
    { symmetry. apply (N.div_unique _ _ q (r + 1)); lia. }
    rewrite E3. reflexivity.
  - intros H. apply negb_false_iff in H. apply N.eqb_eq in H.
    destruct (N.lt_ge_cases (r + 1) (chunk c)).
    + exfalso. assert ((i + 1) mod chunk c = r + 1) as E3.
      { symmetry. apply (N.mod_unique _ _ q (r + 1)); lia. }
      lia.
    + lia.
Qed.

Lemma in_chunk_zero : forall c, in_chunk c 0 = false.
Proof. intros. unfold in_chunk. destruct (chunk c); reflexivity. Qed.
