(** * ALLOC — theorems about the slot allocator model (coq/Mgr/Alloc.v), for every
      interleaving of the threads' actions ([run_inv], coq/Mgr/AllocStep.v):
      partition of the slot IDs, hand-outs, out-of-memory, quiescence, capacity probe. *)

From Coq Require Import List NArith ZArith PArith Bool Arith Lia Permutation FMapPositive.
From OxiVerif Require Import Mgr.Alloc Mgr.AllocBase Mgr.AllocInv Mgr.AllocStep.
Import ListNotations.
Local Open Scope N_scope.

Arguments N.add : simpl never.
Arguments N.sub : simpl never.
Arguments N.mul : simpl never.
Arguments N.div : simpl never.
Arguments N.modulo : simpl never.

(** ** the witnesses of the invariant are the executable lists *)

Lemma NoDup_app_intro : forall (a b : list N),
  NoDup a -> NoDup b -> (forall x, In x a -> In x b -> False) -> NoDup (a ++ b).
Proof.
  induction a; simpl; intros; auto. inversion H; subst. constructor.
  - intro Hi. apply in_app_or in Hi. destruct Hi; [contradiction|]. apply (H1 a); auto.
  - apply IHa; auto. intros. apply (H1 x); auto.
Qed.

Lemma NoDup_concat_in : forall (L : list (list N)) f, NoDup (concat L) -> In f L -> NoDup f.
Proof.
  induction L; simpl; intros; [contradiction|]. destruct H0.
  - subst. eapply NoDup_app_l; eauto.
  - apply IHL; auto. eapply NoDup_app_r; eauto.
Qed.

Lemma nodup_in_arr_length : forall c (f : list N),
  NoDup f -> (forall id, In id f -> in_arr c id) -> (length f <= N.to_nat (cap c))%nat.
Proof.
  intros c f ND Hin. rewrite <- ids_length.
  apply NoDup_incl_length; auto. intros id Hi. apply in_ids. apply Hin. auto.
Qed.

Lemma witness_shared : forall c s fs ls,
  AInvW c s fs ls -> fs = map (chainl (fuel c) (sl s)) (s_free (sh s)).
Proof.
  intros c s fs ls I.
  pose proof (w_nodup _ _ _ _ I) as ND. pose proof (w_range _ _ _ _ I) as HR.
  unfold wfree in *. apply NoDup_app_l in ND.
  assert (forall f, In f fs -> (length f < fuel c)%nat) as HL.
  { intros f Hf. unfold fuel. apply Nat.lt_succ_r. apply nodup_in_arr_length.
    - eapply NoDup_concat_in; eauto.
    - intros id Hi. apply HR. apply in_or_app. left. apply in_concat. eauto. }
  pose proof (w_schains _ _ _ _ I) as SC. clear ND HR I.
  induction SC; cbn [map]; auto. f_equal.
  - symmetry. apply (proj1 (chainl_of_Chain _ _ _ H _ (HL _ (or_introl eq_refl)))).
  - apply IHSC. intros. apply HL. right; auto.
Qed.

Lemma witness_local : forall c s fs ls,
  AInvW c s fs ls -> ls = map (lchain c (sl s)) (th s).
Proof.
  intros c s fs ls I.
  pose proof (w_nodup _ _ _ _ I) as ND. pose proof (w_range _ _ _ _ I) as HR.
  unfold wfree in *. apply NoDup_app_r in ND. apply NoDup_app_l in ND.
  assert (forall f, In f ls -> (length f < fuel c)%nat) as HL.
  { intros f Hf. unfold fuel. apply Nat.lt_succ_r. apply nodup_in_arr_length.
    - eapply NoDup_concat_in; eauto.
    - intros id Hi. apply HR. apply in_or_app. right. apply in_or_app. left. apply in_concat. eauto. }
  pose proof (w_lchains _ _ _ _ I) as SC. clear ND HR I.
  induction SC; cbn [map]; auto. f_equal.
  - unfold lchainP, lchain in *. destruct (is_this (l_cur x)); auto.
    symmetry. apply (proj1 (chainl_of_Chain _ _ _ H _ (HL _ (or_introl eq_refl)))).
  - apply IHSC. intros. apply HL. right; auto.
Qed.

Lemma wfree_free_slots : forall c s fs ls, AInvW c s fs ls -> wfree c s fs ls = free_slots c s.
Proof.
  intros c s fs ls I. unfold wfree, free_slots, shared_slots, local_slots, range_slots, unalloc_slots.
  rewrite (witness_shared _ _ _ _ I) at 1. rewrite (witness_local _ _ _ _ I) at 1.
  rewrite !flat_map_concat_map. reflexivity.
Qed.

(** the heads stored in the state really head well-formed lists *)
Theorem chains_ok : forall c s, AInv c s ->
  Forall (fun h => h <> 0 /\ chain_ok (fuel c) (sl s) h = true) (s_free (sh s)) /\
  Forall (fun l => is_this (l_cur l) = true -> chain_ok (fuel c) (sl s) (l_next l) = true) (th s).
Proof.
  intros c s (fs & ls & I).
  pose proof (witness_shared _ _ _ _ I) as E1. pose proof (witness_local _ _ _ _ I) as E2.
  pose proof (w_nodup _ _ _ _ I) as ND. pose proof (w_range _ _ _ _ I) as HR. unfold wfree in *.
  split.
  - pose proof (w_heads _ _ _ _ I) as HH. pose proof (w_schains _ _ _ _ I) as SC.
    assert (forall f, In f fs -> (length f < fuel c)%nat) as HL.
    { intros f Hf. unfold fuel. apply Nat.lt_succ_r. apply nodup_in_arr_length.
      - eapply NoDup_concat_in; [eapply NoDup_app_l; eauto | auto].
      - intros id Hi. apply HR. apply in_or_app. left. apply in_concat. eauto. }
    clear E1 E2 ND HR I. induction SC; constructor.
    + inversion HH; subst. split; auto. apply (proj2 (chainl_of_Chain _ _ _ H _ (HL _ (or_introl eq_refl)))).
    + inversion HH; subst. apply IHSC; auto. intros. apply HL. right; auto.
  - pose proof (w_lchains _ _ _ _ I) as SC.
    assert (forall f, In f ls -> (length f < fuel c)%nat) as HL.
    { intros f Hf. unfold fuel. apply Nat.lt_succ_r. apply nodup_in_arr_length.
      - eapply NoDup_concat_in; [eapply NoDup_app_l; eapply NoDup_app_r; eauto | auto].
      - intros id Hi. apply HR. apply in_or_app. right. apply in_or_app. left. apply in_concat. eauto. }
    clear E1 E2 ND HR I. induction SC; constructor.
    + intros Et. unfold lchainP in H. rewrite Et in H.
      apply (proj2 (chainl_of_Chain _ _ _ H _ (HL _ (or_introl eq_refl)))).
    + apply IHSC. intros. apply HL. right; auto.
Qed.

(** ** (a) SAFETY: the partition of the slot array *)

Lemma in_live_slots : forall c s id, In id (live_slots c s) <-> in_arr c id /\ sget (sl s) id = SNode.
Proof.
  intros. unfold live_slots. rewrite filter_In, in_ids. unfold in_arr.
  destruct (sget (sl s) id); simpl; intuition congruence.
Qed.

(** live slots, slots of the shared lists, of the threads' local lists, of the threads'
    pre-allocated ranges and the never-allocated rest: pairwise disjoint, duplicate-free, and
    together exactly the slot IDs TERMINALS .. TERMINALS + capacity *)
Theorem partition : forall c s, AInv c s ->
  NoDup (live_slots c s ++ shared_slots c s ++ local_slots c s ++ range_slots c s ++ unalloc_slots c s) /\
  Permutation (live_slots c s ++ shared_slots c s ++ local_slots c s ++ range_slots c s ++ unalloc_slots c s)
              (ids c).
Proof.
  intros c s (fs & ls & I).
  pose proof (wfree_free_slots _ _ _ _ I) as EW. unfold free_slots in EW.
  assert (NoDup (live_slots c s ++ wfree c s fs ls)) as ND.
  { apply NoDup_app_intro.
    - apply NoDup_filter. apply ids_nodup.
    - apply (w_nodup _ _ _ _ I).
    - intros id H1 H2. apply in_live_slots in H1. destruct H1 as [Hr Hn].
      apply (proj1 (w_live _ _ _ _ I id Hr) Hn). exact H2. }
  rewrite EW in ND. split; [exact ND|].
  apply NoDup_Permutation; [exact ND | apply ids_nodup|].
  intros id. rewrite in_ids. rewrite <- EW. rewrite in_app_iff, in_live_slots. split.
  - intros [[Hr _] | Hi]; [exact Hr | apply (w_range _ _ _ _ I); auto].
  - intros Hr. destruct (in_dec N.eq_dec id (wfree c s fs ls)); [right; auto|].
    left. split; [exact Hr|]. apply (w_live _ _ _ _ I id Hr). auto.
Qed.

(** ** what `add_node` does, by cases (no invariant needed) *)

Ltac split_ifs H :=
  repeat match type of H with
         | context [if ?b then _ else _] => let E := fresh "E" in destruct b eqn:E
         | context [match ?x with SUninit => _ | SNode => _ | SFree _ => _ end] =>
           let E := fresh "E" in destruct x eqn:E
         | context [match ?x with [] => _ | _ :: _ => _ end] =>
           let E := fresh "E" in destruct x eqn:E
         end; try discriminate.

Lemma add_node_shape : forall c s t l s' id p,
  add_node c good s t l = Some (s', OAlloc (Some id) p) ->
  sl s' = sset (sl s) id SNode /\
  match p with
  | PLocalList => is_this (l_cur l) = true /\ id = l_next l /\ id <> 0
  | PLocalRange => is_this (l_cur l) = true /\ l_next l = 0 /\ in_chunk c (l_init l) = true /\
                   id = l_init l + term c
  | PSharedList => is_this (l_cur l) = true /\ l_next l = 0 /\ in_chunk c (l_init l) = false /\
                   exists rest, s_free (sh s) = id :: rest
  | PNonLocalList => is_this (l_cur l) = false /\ exists rest, s_free (sh s) = id :: rest
  | PSharedChunk => is_this (l_cur l) = true /\ l_next l = 0 /\ in_chunk c (l_init l) = false /\
                    s_free (sh s) = [] /\ s_alloc (sh s) + chunk c < cap c /\ id = s_alloc (sh s) + term c
  | PSharedBump => is_this (l_cur l) = true /\ l_next l = 0 /\ in_chunk c (l_init l) = false /\
                   s_free (sh s) = [] /\ s_alloc (sh s) < cap c /\ id = s_alloc (sh s) + term c
  | PNonLocalBump => is_this (l_cur l) = false /\
                     s_free (sh s) = [] /\ s_alloc (sh s) < cap c /\ id = s_alloc (sh s) + term c
  | POom => False
  end.
Proof.
  intros c s t l s' id p H. unfold add_node, get_slot_from_shared in H.
  cbn [v_oom_drift v_take_all v_cap_first good l_cur l_guard l_next l_init l_delta negb andb orb] in H.
  destruct (is_this (l_cur l)) eqn:Et.
  - destruct (N.eqb_spec (l_next l) 0) as [En | En]; cbn [negb] in H.
    + destruct (in_chunk c (l_init l)) eqn:Hin.
      * inversion H; subst. simpl. auto.
      * destruct (s_free (sh s)) as [|h rest] eqn:Ef.
        -- destruct (s_alloc (sh s) + chunk c <? cap c) eqn:E1.
           ++ inversion H; subst. simpl. apply N.ltb_lt in E1. repeat split; auto.
           ++ destruct (s_alloc (sh s) <? cap c) eqn:E2; inversion H; subst.
              simpl. apply N.ltb_lt in E2. repeat split; auto.
        -- destruct (sget (sl s) h) eqn:Eg; try discriminate.
           destruct (s_alloc (sh s) + chunk c <? cap c); inversion H; subst; simpl; repeat split; eauto.
    + destruct (sget (sl s) (l_next l)) eqn:Eg; try discriminate. inversion H; subst. simpl. auto.
  - destruct (s_free (sh s)) as [|h rest] eqn:Ef.
    + destruct (cap c <=? s_alloc (sh s)) eqn:E1; inversion H; subst.
      simpl. apply N.leb_gt in E1. repeat split; auto.
    + destruct (sget (sl s) h) eqn:Eg; try discriminate. inversion H; subst. simpl. repeat split; eauto.
Qed.

Lemma add_node_oom_shape : forall c s t l s' p,
  add_node c good s t l = Some (s', OAlloc None p) ->
  p = POom /\ sl s' = sl s /\ s_free (sh s) = [] /\ cap c <= s_alloc (sh s) /\
  (is_this (l_cur l) = true -> l_next l = 0 /\ in_chunk c (l_init l) = false).
Proof.
  intros c s t l s' p H. unfold add_node, get_slot_from_shared in H.
  cbn [v_oom_drift v_take_all v_cap_first good l_cur l_guard l_next l_init l_delta negb andb orb] in H.
  destruct (is_this (l_cur l)) eqn:Et.
  - destruct (N.eqb_spec (l_next l) 0) as [En | En]; cbn [negb] in H.
    + destruct (in_chunk c (l_init l)) eqn:Hin; [inversion H|].
      destruct (s_free (sh s)) as [|h rest] eqn:Ef.
      * destruct (s_alloc (sh s) + chunk c <? cap c) eqn:E1; [inversion H|].
        destruct (s_alloc (sh s) <? cap c) eqn:E2; inversion H; subst.
        apply N.ltb_ge in E2. simpl. repeat split; auto.
      * destruct (sget (sl s) h) eqn:Eg; try discriminate.
        destruct (s_alloc (sh s) + chunk c <? cap c); try discriminate; try (inversion H; fail).
    + destruct (sget (sl s) (l_next l)) eqn:Eg; try discriminate; try (inversion H; fail).
  - destruct (s_free (sh s)) as [|h rest] eqn:Ef.
    + destruct (cap c <=? s_alloc (sh s)) eqn:E1; inversion H; subst.
      apply N.leb_le in E1. simpl. repeat split; auto; intros; congruence.
    + destruct (sget (sl s) h) eqn:Eg; try discriminate; try (inversion H; fail).
Qed.

Lemma add_node_oom_when : forall c s t l,
  s_free (sh s) = [] -> cap c <= s_alloc (sh s) ->
  (is_this (l_cur l) = true -> l_next l = 0 /\ in_chunk c (l_init l) = false) ->
  exists s', add_node c good s t l = Some (s', OAlloc None POom).
Proof.
  intros c s t l Hf Hc Ht. unfold add_node, get_slot_from_shared.
  cbn [v_oom_drift v_take_all v_cap_first good l_cur l_guard l_next l_init l_delta negb andb orb].
  rewrite Hf.
  assert ((s_alloc (sh s) + chunk c <? cap c) = false) as E1 by (apply N.ltb_ge; lia).
  assert ((s_alloc (sh s) <? cap c) = false) as E2 by (apply N.ltb_ge; lia).
  assert ((cap c <=? s_alloc (sh s)) = true) as E3 by (apply N.leb_le; lia).
  destruct (is_this (l_cur l)) eqn:Et.
  - destruct (Ht eq_refl) as [En Hin]. rewrite En, Hin. simpl. rewrite E1, E2. eauto.
  - rewrite E3. eauto.
Qed.

(** `add_node` is never stuck in a state that satisfies the invariant *)
Lemma add_node_total : forall c s t l,
  AInv c s -> nth_error (th s) t = Some l -> exists s' o, add_node c good s t l = Some (s', o).
Proof.
  intros c s t l (fs & ls & I) H.
  destruct (Forall2_nth _ _ _ _ _ _ _ (w_lchains _ _ _ _ I) H) as (x & _ & Px).
  unfold add_node, get_slot_from_shared.
  cbn [v_oom_drift v_take_all v_cap_first good l_cur l_guard l_next l_init l_delta negb andb orb].
  assert (forall h rest, s_free (sh s) = h :: rest -> exists nx, sget (sl s) h = SFree nx) as Hhead.
  { intros h rest E. pose proof (w_schains _ _ _ _ I) as SC. pose proof (w_heads _ _ _ _ I) as HH.
    rewrite E in SC, HH. inversion SC as [|? ? ? ? C1 ?]; subst. inversion HH as [|? ? Hh ?]; subst.
    destruct (Chain_head _ _ _ C1 Hh) as (nx & ? & G & _). eauto. }
  destruct (is_this (l_cur l)) eqn:Et.
  - destruct (N.eqb_spec (l_next l) 0) as [En | En]; cbn [negb].
    + destruct (in_chunk c (l_init l)); [eauto|].
      destruct (s_free (sh s)) as [|h rest] eqn:Ef.
      * destruct (s_alloc (sh s) + chunk c <? cap c); [eauto|].
        destruct (s_alloc (sh s) <? cap c); eauto.
      * destruct (Hhead h rest eq_refl) as (nx & G). rewrite G.
        destruct (s_alloc (sh s) + chunk c <? cap c); eauto.
    + unfold lchainP in Px. rewrite Et in Px.
      destruct (Chain_head _ _ _ Px En) as (nx & ? & G & _). rewrite G. eauto.
  - destruct (s_free (sh s)) as [|h rest] eqn:Ef.
    + destruct (cap c <=? s_alloc (sh s)); eauto.
    + destruct (Hhead h rest eq_refl) as (nx & G). rewrite G. eauto.
Qed.

(** ** hand-outs *)

Lemma nth_map_lchain : forall c m (thr : list local) ls t l x,
  ls = map (lchain c m) thr -> nth_error thr t = Some l -> nth_error ls t = Some x -> x = lchain c m l.
Proof. intros. subst. rewrite nth_error_map, H0 in H1. simpl in H1. congruence. Qed.

Lemma in_flat_map_nth : forall (A : Type) (f : A -> list N) (l : list A) id,
  In id (flat_map f l) -> exists u x, nth_error l u = Some x /\ In id (f x).
Proof.
  intros. apply in_flat_map in H. destruct H as (x & Hx & Hi).
  destruct (In_nth_error _ _ Hx) as (u & E). eauto.
Qed.

Lemma nth_in_flat_map : forall (A : Type) (f : A -> list N) (l : list A) u x id,
  nth_error l u = Some x -> In id (f x) -> In id (flat_map f l).
Proof. intros. apply in_flat_map. exists x. split; auto. eapply nth_error_In; eauto. Qed.

(** where the slot comes from, by path *)
Theorem alloc_source : forall c s t l s' id p,
  AInv c s -> nth_error (th s) t = Some l ->
  add_node c good s t l = Some (s', OAlloc (Some id) p) ->
  match p with
  | PLocalList => exists r, lchain c (sl s) l = id :: r      (* the head of the thread's own list *)
  | PLocalRange => exists r, lrange c l = id :: r             (* the first slot of the thread's range *)
  | PSharedList | PNonLocalList =>                             (* the head of the first shared list *)
    exists h rest r, s_free (sh s) = h :: rest /\ chainl (fuel c) (sl s) h = id :: r
  | PSharedChunk | PSharedBump | PNonLocalBump =>              (* the first never-allocated slot *)
    exists r, unalloc_slots c s = id :: r
  | POom => False
  end.
Proof.
  intros c s t l s' id p (fs & ls & I) H G.
  destruct (add_node_shape _ _ _ _ _ _ _ G) as (_ & Sh).
  pose proof (witness_shared _ _ _ _ I) as E1. pose proof (witness_local _ _ _ _ I) as E2.
  assert (forall rest, s_free (sh s) = id :: rest ->
          exists h rest0 r, s_free (sh s) = h :: rest0 /\ chainl (fuel c) (sl s) h = id :: r) as Hsh.
  { intros rest E. pose proof (w_schains _ _ _ _ I) as SC. pose proof (w_heads _ _ _ _ I) as HH.
    rewrite E1 in SC. rewrite E in SC, HH. cbn [map] in SC.
    inversion SC as [|? ? ? ? C1 ?]. inversion HH as [|? ? Hh ?].
    destruct (Chain_head _ _ _ C1 Hh) as (nx & f1' & _ & Ef & _).
    exists id, rest, f1'. split; auto. }
  assert (forall a, a < cap c -> unalloc_slots c (mkSt (mkSh (s_free (sh s)) a (s_count (sh s)) (s_gc (sh s))) (sl s) (th s))
                                 = (a + term c) :: unalloc c (a + 1)) as Hun.
  { intros a Ha. unfold unalloc_slots. simpl. apply unalloc_step. auto. }
  destruct p; try contradiction.
  - destruct Sh as (Et & Eid & Hn).
    destruct (Forall2_nth _ _ _ _ _ _ _ (w_lchains _ _ _ _ I) H) as (x & Ex & Px).
    unfold lchainP in Px. rewrite Et in Px. subst id.
    destruct (Chain_head _ _ _ Px Hn) as (nx & x' & _ & Ef & _).
    rewrite <- (nth_map_lchain _ _ _ _ _ _ _ E2 H Ex). eauto.
  - destruct Sh as (Et & En & Hin & Eid). subst id.
    rewrite (lrange_step c l (l_guard l) (l_next l) (l_delta l + 1)%Z (w_chunk _ _ _ _ I) Et Hin). eauto.
  - destruct Sh as (_ & _ & _ & rest & E). eauto.
  - destruct Sh as (_ & _ & _ & _ & Ha & Eid). subst id. exists (unalloc c (s_alloc (sh s) + 1)).
    unfold unalloc_slots. apply unalloc_step. lia.
  - destruct Sh as (_ & _ & _ & _ & Ha & Eid). subst id. exists (unalloc c (s_alloc (sh s) + 1)).
    unfold unalloc_slots. apply unalloc_step. lia.
  - destruct Sh as (_ & rest & E). eauto.
  - destruct Sh as (_ & _ & Ha & Eid). subst id. exists (unalloc c (s_alloc (sh s) + 1)).
    unfold unalloc_slots. apply unalloc_step. lia.
Qed.

(** the slot handed out was free (in exactly one of the lists / ranges), not live, inside the
    slot array; afterwards it is live and in no list or range *)
Theorem alloc_safe : forall c s t s' id p,
  AInv c s -> step c good s (AAlloc t) = Some (s', OAlloc (Some id) p) ->
  in_arr c id /\ In id (free_slots c s) /\ ~ In id (live_slots c s) /\
  In id (live_slots c s') /\ ~ In id (free_slots c s') /\ AInv c s'.
Proof.
  intros c s t s' id p I H.
  pose proof (step_inv _ _ _ _ _ I H) as I'.
  simpl in H. destruct (nth_error (th s) t) as [l|] eqn:E; [|discriminate].
  destruct (add_node_shape _ _ _ _ _ _ _ H) as (Esl & _).
  pose proof (alloc_source _ _ _ _ _ _ _ I E H) as Src.
  assert (In id (free_slots c s)) as Hfree.
  { unfold free_slots, shared_slots, local_slots, range_slots.
    destruct p; try contradiction.
    - destruct Src as (r & Er). apply in_or_app. right. apply in_or_app. left.
      eapply nth_in_flat_map; eauto. rewrite Er. left; auto.
    - destruct Src as (r & Er). apply in_or_app. right. apply in_or_app. right. apply in_or_app. left.
      eapply nth_in_flat_map; eauto. rewrite Er. left; auto.
    - destruct Src as (h & rest & r & Ef & Er). apply in_or_app. left. rewrite Ef. cbn [flat_map]. rewrite Er. left; auto.
    - destruct Src as (r & Er). rewrite Er. do 3 (apply in_or_app; right). left; auto.
    - destruct Src as (r & Er). rewrite Er. do 3 (apply in_or_app; right). left; auto.
    - destruct Src as (h & rest & r & Ef & Er). apply in_or_app. left. rewrite Ef. cbn [flat_map]. rewrite Er. left; auto.
    - destruct Src as (r & Er). rewrite Er. do 3 (apply in_or_app; right). left; auto. }
  destruct I as (fs & ls & I). destruct I' as (fs' & ls' & I').
  rewrite <- (wfree_free_slots _ _ _ _ I) in Hfree.
  assert (in_arr c id) as Hr by (apply (w_range _ _ _ _ I); auto).
  assert (sget (sl s') id = SNode) as Hn' by (rewrite Esl; apply sget_sset_same).
  split; [exact Hr|]. split; [rewrite <- (wfree_free_slots _ _ _ _ I); exact Hfree|].
  split; [|split; [|split]].
  - intros Hl. apply in_live_slots in Hl. destruct Hl as [_ Hn].
    apply (proj1 (w_live _ _ _ _ I id Hr) Hn). exact Hfree.
  - apply in_live_slots. split; auto.
  - rewrite <- (wfree_free_slots _ _ _ _ I'). apply (w_live _ _ _ _ I' id Hr). exact Hn'.
  - exists fs', ls'. exact I'.
Qed.

(** `add_node` is never stuck *)
Theorem alloc_enabled : forall c s t,
  AInv c s -> (t < length (th s))%nat -> exists s' o, step c good s (AAlloc t) = Some (s', o).
Proof.
  intros c s t I Ht. simpl. destruct (nth_error (th s) t) as [l|] eqn:E.
  - eapply add_node_total; eauto.
  - apply nth_error_None in E. lia.
Qed.

(** ** (d) the node count bookkeeping and (b) no slot is lost *)

(** shared count + the threads' deltas = number of slots that hold a node *)
Theorem count_exact : forall c s, AInv c s ->
  (s_count (sh s) + sum_delta s)%Z = Z.of_nat (nlive c s).
Proof. intros c s (fs & ls & I). rewrite sum_delta_sumd. apply (w_count _ _ _ _ I). Qed.

(** #live + #free = capacity *)
Theorem free_count : forall c s, AInv c s ->
  (nlive c s + length (free_slots c s))%nat = N.to_nat (cap c).
Proof.
  intros c s I. destruct (partition c s I) as [_ P]. apply Permutation_length in P.
  rewrite ids_length in P. rewrite app_length in P. unfold nlive, free_slots. exact P.
Qed.

(** a thread holds no slot *)
Definition holds_nothing (c : cfg) (l : local) : Prop :=
  is_this (l_cur l) = true -> l_next l = 0 /\ in_chunk c (l_init l) = false.

Lemma holds_nothing_slots : forall c m l, holds_nothing c l -> lchain c m l ++ lrange c l = [].
Proof.
  unfold holds_nothing, lchain, lrange. intros c m l H. destruct (is_this (l_cur l)); [|reflexivity].
  destruct (H eq_refl) as [E1 E2]. rewrite E1, E2. reflexivity.
Qed.

Lemma slots_holds_nothing : forall c s t l, AInv c s -> nth_error (th s) t = Some l ->
  lchain c (sl s) l ++ lrange c l = [] -> holds_nothing c l.
Proof.
  intros c s t l (fs & ls & I) H E Et. apply app_eq_nil in E. destruct E as [E1 E2].
  destruct (Forall2_nth _ _ _ _ _ _ _ (w_lchains _ _ _ _ I) H) as (x & Ex & Px).
  rewrite <- (nth_map_lchain _ _ _ _ _ _ _ (witness_local _ _ _ _ I) H Ex) in E1. subst x.
  unfold lchainP in Px. rewrite Et in Px. split.
  - apply (Chain_nonnil_head _ _ _ Px). reflexivity.
  - unfold lrange in E2. rewrite Et in E2. destruct (in_chunk c (l_init l)) eqn:Hin; auto. exfalso.
    destruct (chunk_step c (l_init l) (w_chunk _ _ _ _ I)) as (A & _). simpl in E2.
    destruct (N.to_nat (chunk_end c (l_init l) - l_init l)) eqn:En; [lia | discriminate].
Qed.

(** no thread but [t] holds a slot *)
Definition others_idle_p (c : cfg) (s : st) (t : nat) : Prop :=
  forall u l, u <> t -> nth_error (th s) u = Some l -> holds_nothing c l.

Lemma flat_map_nil : forall (A : Type) (f : A -> list N) l,
  (forall x, In x l -> f x = []) -> flat_map f l = [].
Proof. induction l; simpl; intros; auto. rewrite H by (left; auto). rewrite IHl; auto. Qed.

Lemma flat_map_only : forall (A : Type) (f : A -> list N) (l : list A) t y,
  nth_error l t = Some y -> (forall u x, u <> t -> nth_error l u = Some x -> f x = []) ->
  flat_map f l = f y.
Proof.
  intros A f l. induction l; intros t y H Ho; destruct t; simpl in *; try discriminate.
  - inversion H; subst. rewrite flat_map_nil; [apply app_nil_r|].
    intros x Hx. destruct (In_nth_error _ _ Hx) as (u & Eu). apply (Ho (S u) x); auto.
  - rewrite (Ho 0%nat a) by auto. simpl. apply (IHl t y H). intros u x Hu. apply (Ho (S u) x). lia.
Qed.

Lemma lchain_nil : forall c m l, holds_nothing c l -> lchain c m l = [].
Proof. intros. pose proof (holds_nothing_slots c m l H) as E. apply app_eq_nil in E. tauto. Qed.

Lemma lrange_nil : forall c l, holds_nothing c l -> lrange c l = [].
Proof.
  intros. pose proof (holds_nothing_slots c (PositiveMap.empty slot) l H) as E. apply app_eq_nil in E. tauto.
Qed.

(** the free slots when only thread [t] may hold some *)
Lemma free_slots_single : forall c s t l, nth_error (th s) t = Some l -> others_idle_p c s t ->
  free_slots c s = shared_slots c s ++ lchain c (sl s) l ++ lrange c l ++ unalloc_slots c s.
Proof.
  intros c s t l H Ho. unfold free_slots, local_slots, range_slots.
  rewrite (flat_map_only _ (lchain c (sl s)) (th s) t l H).
  2:{ intros u x Hu Hx. apply lchain_nil. eapply Ho; eauto. }
  rewrite (flat_map_only _ (lrange c) (th s) t l H).
  2:{ intros u x Hu Hx. apply lrange_nil. eapply Ho; eauto. }
  reflexivity.
Qed.

(** at quiescence (no thread holds a slot: all guards dropped, the collector has returned its
    list) every slot that holds no node is reachable from the shared state *)
Theorem quiescent_no_leak : forall c s, AInv c s ->
  (forall t l, nth_error (th s) t = Some l -> holds_nothing c l) ->
  free_slots c s = shared_slots c s ++ unalloc_slots c s /\
  (nlive c s + length (shared_slots c s) + length (unalloc_slots c s))%nat = N.to_nat (cap c).
Proof.
  intros c s I Hq.
  assert (free_slots c s = shared_slots c s ++ unalloc_slots c s) as E.
  { unfold free_slots, local_slots, range_slots.
    rewrite (flat_map_nil _ (lchain c (sl s))).
    2:{ intros x Hx. destruct (In_nth_error _ _ Hx) as (u & Eu). apply lchain_nil. eauto. }
    rewrite (flat_map_nil _ (lrange c)).
    2:{ intros x Hx. destruct (In_nth_error _ _ Hx) as (u & Eu). apply lrange_nil. eauto. }
    reflexivity. }
  split; auto. pose proof (free_count c s I) as F. rewrite E, app_length in F. lia.
Qed.

(** ... and when no thread is bound to the store the shared count is exact *)
Theorem quiescent_count : forall c s, AInv c s ->
  (forall t l, nth_error (th s) t = Some l -> is_this (l_cur l) = false) ->
  s_count (sh s) = Z.of_nat (nlive c s).
Proof.
  intros c s I Hq. rewrite <- (count_exact c s I). destruct I as (fs & ls & I).
  assert (sumd (th s) = 0%Z) as E.
  { pose proof (w_locals _ _ _ _ I) as W.
    assert (forall l, In l (th s) -> is_this (l_cur l) = false) as Hq'.
    { intros l Hl. destruct (In_nth_error _ _ Hl) as (u & Eu). eauto. }
    clear Hq. induction W; simpl; auto. rewrite IHW by (intros; apply Hq'; right; auto).
    destruct H as (_ & W2 & _). rewrite W2; [lia|]. apply not_this_is. apply Hq'. left; auto. }
  rewrite sum_delta_sumd, E. lia.
Qed.

(** ** (c) OUT OF MEMORY *)

Local Opaque fuel.

Lemma shared_slots_nil : forall c s, AInv c s -> shared_slots c s = [] -> s_free (sh s) = [].
Proof.
  intros c s (fs & ls & I) E. destruct (s_free (sh s)) as [|h rest] eqn:Ef; auto. exfalso.
  pose proof (w_schains _ _ _ _ I) as SC. pose proof (w_heads _ _ _ _ I) as HH.
  rewrite (witness_shared _ _ _ _ I) in SC. rewrite Ef in SC, HH. cbn [map] in SC.
  inversion SC as [|? ? ? ? C1 ?]. inversion HH as [|? ? Hh ?].
  destruct (Chain_head _ _ _ C1 Hh) as (nx & f & _ & E2 & _).
  unfold shared_slots in E. rewrite Ef in E. cbn [flat_map] in E. rewrite E2 in E. discriminate.
Qed.

Lemma unalloc_slots_nil : forall c s, unalloc_slots c s = [] <-> cap c <= s_alloc (sh s).
Proof.
  intros. unfold unalloc_slots. split; intros H.
  - pose proof (range_ids_length c (s_alloc (sh s)) (N.to_nat (cap c - s_alloc (sh s)))) as L.
    rewrite H in L. simpl in L. lia.
  - apply unalloc_full. exact H.
Qed.

(** `add_node` of thread [t] fails if and only if no free slot is reachable by [t]: no shared
    list, nothing left to allocate, nothing in [t]'s own list or range.  (Slots parked in OTHER
    threads' local lists / ranges are not reachable: the code's documented imprecision.) *)
Theorem oom_iff : forall c s t l, AInv c s -> nth_error (th s) t = Some l ->
  ((exists s' p, step c good s (AAlloc t) = Some (s', OAlloc None p)) <->
   (shared_slots c s = [] /\ unalloc_slots c s = [] /\ thread_slots c s t = [])).
Proof.
  intros c s t l I H. unfold thread_slots. rewrite H. simpl. rewrite H. split.
  - intros (s' & p & G). destruct (add_node_oom_shape _ _ _ _ _ _ G) as (_ & _ & Ef & Ec & Ht).
    split; [unfold shared_slots; rewrite Ef; reflexivity|].
    split; [apply unalloc_slots_nil; auto|]. apply holds_nothing_slots. exact Ht.
  - intros (E1 & E2 & E3).
    destruct (add_node_oom_when c s t l) as (s' & G).
    + apply (shared_slots_nil c); auto.
    + apply (unalloc_slots_nil c); auto.
    + eapply slots_holds_nothing; eauto.
    + eauto.
Qed.

(** after a failed `add_node` every free slot is parked with another thread; the failed call
    changes no slot *)
Theorem oom_only_parked : forall c s t s' p, AInv c s ->
  step c good s (AAlloc t) = Some (s', OAlloc None p) ->
  p = POom /\ sl s' = sl s /\
  forall id, In id (free_slots c s) -> exists u, u <> t /\ In id (thread_slots c s u).
Proof.
  intros c s t s' p I G.
  assert (exists l, nth_error (th s) t = Some l) as (l & H).
  { simpl in G. destruct (nth_error (th s) t); [eauto | discriminate]. }
  destruct (proj1 (oom_iff c s t l I H) (ex_intro _ s' (ex_intro _ p G))) as (E1 & E2 & E3).
  simpl in G. rewrite H in G. destruct (add_node_oom_shape _ _ _ _ _ _ G) as (Ep & Esl & _).
  split; auto. split; auto. intros id Hi. unfold free_slots in Hi. rewrite E1, E2 in Hi.
  rewrite app_nil_r in Hi. simpl in Hi. apply in_app_or in Hi.
  assert (forall u lu, nth_error (th s) u = Some lu -> In id (lchain c (sl s) lu ++ lrange c lu) ->
          u <> t /\ In id (thread_slots c s u)) as Hu.
  { intros u lu Eu Hin. split.
    - intro; subst u. unfold thread_slots in E3. rewrite Eu in E3. rewrite E3 in Hin. contradiction.
    - unfold thread_slots. rewrite Eu. exact Hin. }
  destruct Hi as [Hi | Hi].
  - destruct (in_flat_map_nth _ _ _ _ Hi) as (u & lu & Eu & Hin). exists u.
    apply (Hu u lu Eu). apply in_or_app. left; auto.
  - destruct (in_flat_map_nth _ _ _ _ Hi) as (u & lu & Eu & Hin). exists u.
    apply (Hu u lu Eu). apply in_or_app. right; auto.
Qed.

(** when no other thread holds a slot: out of memory iff all capacity slots hold a node *)
Theorem oom_single : forall c s t l, AInv c s -> nth_error (th s) t = Some l -> others_idle_p c s t ->
  ((exists s' p, step c good s (AAlloc t) = Some (s', OAlloc None p)) <-> nlive c s = N.to_nat (cap c)).
Proof.
  intros c s t l I H Ho. rewrite (oom_iff c s t l I H).
  pose proof (free_count c s I) as F. rewrite (free_slots_single c s t l H Ho) in F.
  unfold thread_slots. rewrite H. rewrite !app_length in F. split.
  - intros (E1 & E2 & E3). apply app_eq_nil in E3. destruct E3 as [E3 E4].
    rewrite E1, E2, E3, E4 in F. simpl in F. lia.
  - intros E. assert (forall (x : list N), length x = 0%nat -> x = []) as Z by (destruct x; simpl; auto; discriminate).
    split; [apply Z; lia|]. split; [apply Z; lia|].
    rewrite (Z (lchain c (sl s) l)) by lia. rewrite (Z (lrange c l)) by lia. reflexivity.
Qed.

(** ** the capacity probe: in a state where no other thread holds a slot, thread [t] can create
    exactly  capacity - #live  nodes before OutOfMemory *)

Fixpoint allocs (c : cfg) (s : st) (t : nat) (n : nat) : option (st * list N) :=
  match n with
  | O => Some (s, [])
  | S k =>
    match step c good s (AAlloc t) with
    | Some (s1, OAlloc (Some id) _) =>
      match allocs c s1 t k with Some (s2, ids) => Some (s2, id :: ids) | None => None end
    | _ => None
    end
  end.

Lemma add_node_others : forall c s t l s' o u,
  add_node c good s t l = Some (s', o) -> u <> t -> nth_error (th s') u = nth_error (th s) u.
Proof.
  intros c s t l s' o u H Hu. unfold add_node, get_slot_from_shared in H.
  cbn [v_oom_drift v_take_all v_cap_first good negb andb orb] in H.
  split_ifs H; inversion H; subst; simpl; apply nth_error_upd_other; auto.
Qed.

Lemma alloc_nlive : forall c s t s' id p, AInv c s ->
  step c good s (AAlloc t) = Some (s', OAlloc (Some id) p) -> nlive c s' = S (nlive c s).
Proof.
  intros c s t s' id p I H. destruct (alloc_safe _ _ _ _ _ _ I H) as (Hr & _ & Hnl & _).
  simpl in H. destruct (nth_error (th s) t) as [l|] eqn:E; [|discriminate].
  destruct (add_node_shape _ _ _ _ _ _ _ H) as (Esl & _).
  unfold nlive, live_slots. rewrite Esl. apply nlive_set_node; auto.
  intro En. apply Hnl. apply in_live_slots. auto.
Qed.

Theorem capacity_probe : forall c k s t l, AInv c s -> nth_error (th s) t = Some l -> others_idle_p c s t ->
  (nlive c s + k = N.to_nat (cap c))%nat ->
  exists s' ids, allocs c s t k = Some (s', ids) /\ length ids = k /\
    AInv c s' /\ nlive c s' = N.to_nat (cap c) /\
    exists s'', step c good s' (AAlloc t) = Some (s'', OAlloc None POom).
Proof.
  intros c k. induction k; intros s t l I H Ho Hk.
  - exists s, []. simpl. repeat split; auto; [lia|].
    destruct (proj2 (oom_single c s t l I H Ho)) as (s'' & p & G); [lia|].
    destruct (oom_only_parked _ _ _ _ _ I G) as (Ep & _). subst p. eauto.
  - destruct (alloc_enabled c s t I) as (s1 & o & G).
    { apply nth_error_Some. congruence. }
    destruct o as [| | [id|] p | | |]; try (simpl in G; rewrite H in G; exfalso;
      unfold add_node, get_slot_from_shared in G; split_ifs G; inversion G; fail).
    + pose proof (alloc_safe _ _ _ _ _ _ I G) as (_ & _ & _ & _ & _ & I1).
      pose proof (alloc_nlive _ _ _ _ _ _ I G) as N1.
      assert (exists l1, nth_error (th s1) t = Some l1) as (l1 & H1).
      { simpl in G. rewrite H in G. unfold add_node, get_slot_from_shared in G.
        cbn [v_oom_drift v_take_all v_cap_first good negb andb orb] in G.
        split_ifs G; inversion G; subst; simpl; erewrite nth_error_upd_same; eauto. }
      assert (others_idle_p c s1 t) as Ho1.
      { intros u lu Hu Eu. simpl in G. rewrite H in G.
        rewrite (add_node_others _ _ _ _ _ _ u G Hu) in Eu. eapply Ho; eauto. }
      destruct (IHk s1 t l1 I1 H1 Ho1) as (s' & ids' & A & L & I' & N' & Oom); [lia|].
      exists s', (id :: ids'). cbn [allocs]. rewrite G, A. simpl. repeat split; auto.
    + exfalso. assert (nlive c s = N.to_nat (cap c)); [|lia].
      apply (proj1 (oom_single c s t l I H Ho)). eauto.
Qed.

(** ** a slot that holds a node is not touched until it is freed *)

Lemma step_keeps_node : forall c s a s' o id, AInv c s ->
  sget (sl s) id = SNode -> step c good s a = Some (s', o) ->
  (forall t, a <> AFree t id) ->
  sget (sl s') id = SNode /\ (forall p, o <> OAlloc (Some id) p).
Proof.
  intros c s a s' o id I Hn H Hnf.
  assert (in_arr c id /\ ~ In id (free_slots c s)) as [Hr Hni].
  { destruct I as (fs & ls & I). assert (in_arr c id) as Hr by (apply (w_nodes _ _ _ _ I); auto).
    split; auto. rewrite <- (wfree_free_slots _ _ _ _ I). apply (w_live _ _ _ _ I id Hr); auto. }
  destruct a; simpl in H.
  - inversion H; subst. split; auto; discriminate.
  - destruct (nth_error (th s) t) as [l|]; [|discriminate]. unfold prepare in H.
    destruct (is_none (l_cur l)); inversion H; subst; split; auto; discriminate.
  - destruct (nth_error (th s) t) as [l|] eqn:E; [|discriminate].
    destruct (l_guard l && is_this (l_cur l)) eqn:G; [|discriminate].
    apply andb_prop in G. destruct G as [_ Et].
    unfold drop_guard in H. cbn [v_tail_zero good] in H.
    destruct (negb (l_next l =? 0) || in_chunk c (l_init l) || negb (l_delta l =? 0)%Z).
    + destruct (in_chunk c (l_init l)) eqn:Hin; inversion H; subst; simpl; (split; [|discriminate]); auto.
      rewrite link_range_other; auto. intro Hi. apply Hni.
      unfold free_slots, range_slots. apply in_or_app. right. apply in_or_app. right. apply in_or_app. left.
      eapply nth_in_flat_map; eauto. unfold lrange. rewrite Et, Hin. exact Hi.
    + inversion H; subst. split; auto; discriminate.
  - destruct (nth_error (th s) t) as [l|]; [|discriminate].
    match type of H with (if ?b then _ else _) = _ => destruct b end; inversion H; subst.
    split; auto; discriminate.
  - destruct (nth_error (th s) t) as [l|]; [|discriminate].
    destruct (is_none (l_cur l)); inversion H; subst. split; auto; discriminate.
  - destruct (nth_error (th s) t) as [l|]; [|discriminate].
    destruct (is_other (l_cur l)); inversion H; subst. split; auto; discriminate.
  - destruct o as [| | [id'|] p | | |]; try (destruct (nth_error (th s) t); [|discriminate];
      exfalso; unfold add_node, get_slot_from_shared in H; split_ifs H; inversion H; fail).
    + assert (step c good s (AAlloc t) = Some (s', OAlloc (Some id') p)) as H' by exact H.
      destruct (alloc_safe _ _ _ _ _ _ I H') as (_ & _ & Hnl & _).
      destruct (nth_error (th s) t) as [l|]; [|discriminate].
      destruct (add_node_shape _ _ _ _ _ _ _ H) as (Esl & _).
      assert (id' <> id) as Hne.
      { intro; subst id'. apply Hnl. apply in_live_slots. auto. }
      split; [rewrite Esl, sget_sset_other; auto|]. intros p0 E. inversion E. congruence.
    + destruct (nth_error (th s) t) as [l|]; [|discriminate].
      destruct (add_node_oom_shape _ _ _ _ _ _ H) as (_ & Esl & _). rewrite Esl.
      split; auto; discriminate.
  - destruct (nth_error (th s) t) as [l|]; [|discriminate].
    destruct (is_node (sget (sl s) id0)) eqn:G; [|discriminate].
    assert (id0 <> id) as Hne by (intro; subst; apply (Hnf t); reflexivity).
    unfold free_slot in H. cbn [v_ho_drift v_no_reset good] in H.
    destruct (is_this (l_cur l)).
    + destruct (- Z.of_N (chunk c) <? l_delta l - 1)%Z; inversion H; subst; simpl;
        (split; [rewrite sget_sset_other; auto | discriminate]).
    + destruct (s_free (sh s)); inversion H; subst; simpl;
        (split; [rewrite sget_sset_other; auto | discriminate]).
  - destruct (nth_error (th s) t) as [l|]; [|discriminate].
    destruct (is_this (l_cur l) && negb (l_guard l)); [|discriminate].
    unfold gc_flush in H. destruct (negb (l_next l =? 0)); inversion H; subst; simpl; split; auto; discriminate.
Qed.

Fixpoint frees_slot (sched : list act) (id : N) : bool :=
  match sched with
  | [] => false
  | AFree _ j :: r => (j =? id) || frees_slot r id
  | _ :: r => frees_slot r id
  end.

(** never handed out twice: while a slot holds a node and no thread frees it, no `add_node` of
    any thread returns it, under every schedule *)
Theorem no_double_handout : forall c sched s s' os id, AInv c s ->
  In id (live_slots c s) -> run c good s sched = Some (s', os) -> frees_slot sched id = false ->
  In id (live_slots c s') /\ forall p, ~ In (OAlloc (Some id) p) os.
Proof.
  intros c sched. induction sched as [|a r IH]; intros s s' os id I Hl H Hf; simpl in H.
  - inversion H; subst. split; auto.
  - destruct (step c good s a) as [[s1 o]|] eqn:E; [|discriminate].
    destruct (run c good s1 r) as [[s2 os2]|] eqn:E2; [|discriminate]. inversion H; subst.
    apply in_live_slots in Hl. destruct Hl as [Hr Hn].
    assert (forall t, a <> AFree t id) as Hnf.
    { intros t Ea. subst a. simpl in Hf. rewrite N.eqb_refl in Hf. discriminate. }
    destruct (step_keeps_node _ _ _ _ _ _ I Hn E Hnf) as (Hn1 & Ho).
    assert (frees_slot r id = false) as Hf'.
    { destruct a; simpl in Hf; auto. apply orb_false_iff in Hf. tauto. }
    destruct (IH s1 s' os2 id (step_inv _ _ _ _ _ I E)) as (Hl' & Hos); auto.
    { apply in_live_slots. auto. }
    split; auto. intros p [Eo | Hi]; [apply (Ho p); auto | apply (Hos p); auto].
Qed.

(** ** small managers (capacity <= chunk size: a chunk is never pre-allocated, as in the
    correspondence runs with few slots): `add_node` never parks a slot with a thread *)

Theorem alloc_no_hoard_scarce : forall c s t l s' o,
  cap c <= chunk c -> nth_error (th s) t = Some l -> step c good s (AAlloc t) = Some (s', o) ->
  (forall u, u <> t -> nth_error (th s') u = nth_error (th s) u) /\
  exists l', nth_error (th s') t = Some l' /\ l_cur l' = l_cur l /\
             (holds_nothing c l -> holds_nothing c l').
Proof.
  intros c s t l s' o Hc H G. simpl in G. rewrite H in G. split.
  - intros u Hu. eapply add_node_others; eauto.
  - unfold add_node, get_slot_from_shared in G.
    cbn [v_oom_drift v_take_all v_cap_first good negb andb orb l_cur l_guard l_next l_init l_delta] in G.
    assert ((s_alloc (sh s) + chunk c <? cap c) = false) as E1 by (apply N.ltb_ge; lia).
    rewrite E1 in G. unfold holds_nothing.
    split_ifs G; inversion G; subst; simpl; erewrite nth_error_upd_same by eauto;
      eexists; (split; [reflexivity|]); simpl; (split; [reflexivity|]); intros Hh Et;
      try congruence;
      (first [destruct (Hh Et) as [A B] | destruct (Hh eq_refl) as [A B]]);
      try (rewrite A in *; simpl in *; discriminate); try congruence; split; auto.
Qed.
