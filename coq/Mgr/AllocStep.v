(** * ALLOC — every action of every thread preserves the invariant (coq/Mgr/AllocInv.v) *)

From Coq Require Import List NArith ZArith PArith Bool Arith Lia Permutation FMapPositive.
From OxiVerif Require Import Mgr.Alloc Mgr.AllocBase Mgr.AllocInv.
Import ListNotations.
Local Open Scope N_scope.

Arguments N.add : simpl never.
Arguments N.sub : simpl never.
Arguments N.mul : simpl never.
Arguments N.div : simpl never.
Arguments N.modulo : simpl never.

(** ** tactics: membership and duplicate-freeness through occurrence counts *)

Lemma nodup_count_le : forall (l : list N) z, NoDup l -> (count_occ N.eq_dec l z <= 1)%nat.
Proof. intros. apply (NoDup_count_occ N.eq_dec). assumption. Qed.

Lemma in_count_pos : forall (l : list N) z, In z l -> (count_occ N.eq_dec l z > 0)%nat.
Proof. intros. apply (count_occ_In N.eq_dec). assumption. Qed.

Lemma count_pos_in : forall (l : list N) z, (count_occ N.eq_dec l z > 0)%nat -> In z l.
Proof. intros. apply (count_occ_In N.eq_dec). assumption. Qed.

Lemma notin_count_zero : forall (l : list N) z, ~ In z l -> count_occ N.eq_dec l z = 0%nat.
Proof. intros. apply (count_occ_not_In N.eq_dec). assumption. Qed.

Lemma count_zero_notin : forall (l : list N) z, count_occ N.eq_dec l z = 0%nat -> ~ In z l.
Proof. intros. apply (count_occ_not_In N.eq_dec). assumption. Qed.

Ltac norm_lists :=
  repeat (rewrite ?concat_app, ?flat_map_app, ?count_occ_app in *;
          cbn [count_occ concat flat_map app] in *).

(** [count_at z]: all facts about membership of [z] become facts about counts *)
Ltac count_at z :=
  repeat match goal with
         | H : NoDup _ |- _ => apply (fun l => nodup_count_le l z) in H
         | H : In z _ |- _ => apply in_count_pos in H
         | H : ~ In z _ |- _ => apply notin_count_zero in H
         | H : Permutation _ _ |- _ => apply (fun a b => count_of_perm a b z) in H
         end;
  norm_lists;
  repeat match goal with
         | |- context [N.eq_dec ?a ?b] => destruct (N.eq_dec a b)
         | H : context [N.eq_dec ?a ?b] |- _ => destruct (N.eq_dec a b)
         end.

Ltac perm_count ::= apply perm_of_count; let z := fresh "z" in intro z; count_at z; try lia.

Ltac notin_by_count z := apply count_zero_notin; count_at z; try lia.
Ltac in_by_count z := apply count_pos_in; count_at z; try lia.

Lemma sset_frame : forall (m : smap) id s (L : list N),
  ~ In id L -> forall j, In j L -> sget (sset m id s) j = sget m j.
Proof. intros. apply sget_sset_other. intro; subst. contradiction. Qed.

(** ** a thread and its witnesses *)

Lemma inv_thread_split : forall c s fs ls t l,
  AInvW c s fs ls -> nth_error (th s) t = Some l ->
  exists a b la x lb,
    th s = a ++ l :: b /\ ls = la ++ x :: lb /\ length a = t /\
    Forall2 (lchainP (sl s)) a la /\ lchainP (sl s) l x /\ Forall2 (lchainP (sl s)) b lb /\
    (forall l', upd (th s) t l' = a ++ l' :: b) /\
    local_ok c (sh s) l /\ Forall (local_ok c (sh s)) a /\ Forall (local_ok c (sh s)) b.
Proof.
  intros c s fs ls t l I H.
  destruct (Forall2_split_nth _ _ _ _ _ _ _ (w_lchains _ _ _ _ I) H)
    as (a & b & la & x & lb & E1 & E2 & L & F1 & P & F2 & U1 & _).
  exists a, b, la, x, lb. pose proof (w_locals _ _ _ _ I) as W. rewrite E1 in W.
  apply Forall_app in W. destruct W as [Wa Wb]. inversion Wb as [|? ? Wl Wb']; subst.
  split; [exact E1|]. split; [reflexivity|]. split; [reflexivity|].
  split; [exact F1|]. split; [exact P|]. split; [exact F2|]. split; [exact U1|].
  split; [exact Wl|]. split; [exact Wa | exact Wb'].
Qed.

Lemma Forall2_mid : forall (A B : Type) (P : A -> B -> Prop) a b ka kb x y,
  Forall2 P a ka -> P x y -> Forall2 P b kb -> Forall2 P (a ++ x :: b) (ka ++ y :: kb).
Proof. intros. apply Forall2_app; auto. Qed.

Lemma Forall_mid : forall (A : Type) (P : A -> Prop) a b x,
  Forall P a -> P x -> Forall P b -> Forall P (a ++ x :: b).
Proof. intros. apply Forall_app. split; auto. Qed.

Lemma sumd_mid : forall a l b, sumd (a ++ l :: b) = (sumd a + l_delta l + sumd b)%Z.
Proof. intros. rewrite sumd_app. simpl. lia. Qed.

(** ** actions that only touch a thread's `current_store` *)

(** the thread's witness list stays, its range stays, its delta stays *)
Lemma inv_local_change : forall c sh0 m a l b fs la x lb l',
  AInvW c (mkSt sh0 m (a ++ l :: b)) fs (la ++ x :: lb) ->
  Forall2 (lchainP m) a la -> Forall2 (lchainP m) b lb ->
  Forall (local_ok c sh0) a -> Forall (local_ok c sh0) b ->
  lchainP m l' x -> lrange c l' = lrange c l -> l_delta l' = l_delta l -> local_ok c sh0 l' ->
  AInvW c (mkSt sh0 m (a ++ l' :: b)) fs (la ++ x :: lb).
Proof.
  intros c sh0 m a l b fs la x lb l' I Fa Fb Wa Wb Hx Hr Hd Hok.
  assert (wfree c (mkSt sh0 m (a ++ l' :: b)) fs (la ++ x :: lb) =
          wfree c (mkSt sh0 m (a ++ l :: b)) fs (la ++ x :: lb)) as EW.
  { unfold wfree. simpl. rewrite !flat_map_app. simpl. rewrite Hr. reflexivity. }
  eapply inv_move_generic; [exact I | rewrite EW; reflexivity | | | | | | | ]; simpl;
    try (destruct I; assumption); try tauto.
  - apply Forall2_mid; auto.
  - apply Forall_mid; auto.
  - rewrite !sumd_mid. rewrite Hd. reflexivity.
Qed.

Ltac thread_start I H :=
  let a := fresh "a" in let b := fresh "b" in let la := fresh "la" in let x := fresh "x" in
  let lb := fresh "lb" in
  destruct (inv_thread_split _ _ _ _ _ _ I H)
    as (a & b & la & x & lb & Eth & Els & Elen & Fa & Px & Fb & Upd & Wl & Wa & Wb).

Lemma lrange_not_this : forall c l, is_this (l_cur l) = false -> lrange c l = [].
Proof. intros. unfold lrange. rewrite H. reflexivity. Qed.

Lemma lrange_not_chunk : forall c l, in_chunk c (l_init l) = false -> lrange c l = [].
Proof. intros. unfold lrange. rewrite H. rewrite andb_false_r. reflexivity. Qed.

Lemma prepare_inv : forall c s t l,
  AInv c s -> nth_error (th s) t = Some l -> AInv c (fst (prepare good s t l)).
Proof.
  intros c s t l (fs & ls & I) H. unfold prepare.
  destruct (is_none (l_cur l)) eqn:En; [|exists fs, ls; exact I].
  thread_start I H. destruct s as [sh0 m th0]. simpl in *. subst th0 ls.
  exists fs, (la ++ x :: lb). unfold set_th. simpl. rewrite Upd.
  assert (is_this (l_cur l) = false) as Et by (destruct (l_cur l); simpl in *; congruence).
  eapply inv_local_change; eauto.
  - unfold lchainP in *. rewrite Et in Px. subst x. simpl. constructor.
  - rewrite (lrange_not_this c l Et). apply lrange_not_chunk. simpl. apply in_chunk_zero.
  - destruct Wl as (W1 & W2 & W3). repeat split; simpl; intros; auto; try congruence.
    rewrite in_chunk_zero in H1. discriminate.
Qed.

Lemma bind_inv : forall c s t l,
  AInv c s -> nth_error (th s) t = Some l ->
  is_none (l_cur l) && negb (l_guard l) && (l_next l =? 0) && (l_init l =? 0) && (l_delta l =? 0)%Z = true ->
  AInv c (set_th s t (mkL CThis false 0 0 0%Z)).
Proof.
  intros c s t l (fs & ls & I) H Hc.
  repeat (apply andb_prop in Hc; destruct Hc as [Hc ?]).
  thread_start I H. destruct s as [sh0 m th0]. simpl in *. subst th0 ls.
  exists fs, (la ++ x :: lb). unfold set_th. simpl. rewrite Upd.
  assert (is_this (l_cur l) = false) as Et by (destruct (l_cur l); simpl in *; congruence).
  eapply inv_local_change; eauto.
  - unfold lchainP in *. rewrite Et in Px. subst x. simpl. constructor.
  - rewrite (lrange_not_this c l Et). apply lrange_not_chunk. simpl. apply in_chunk_zero.
  - simpl. apply Z.eqb_eq in H0. auto.
  - repeat split; simpl; intros; auto; try congruence.
    rewrite in_chunk_zero in H5. discriminate.
Qed.

Lemma other_enter_inv : forall c s t l,
  AInv c s -> nth_error (th s) t = Some l -> is_none (l_cur l) = true ->
  AInv c (set_th s t (mkL COther false 0 0 (l_delta l))).
Proof.
  intros c s t l (fs & ls & I) H Hc.
  thread_start I H. destruct s as [sh0 m th0]. simpl in *. subst th0 ls.
  exists fs, (la ++ x :: lb). unfold set_th. simpl. rewrite Upd.
  assert (is_this (l_cur l) = false) as Et by (destruct (l_cur l); simpl in *; congruence).
  eapply inv_local_change; eauto.
  - unfold lchainP in *. rewrite Et in Px. subst x. simpl. reflexivity.
  - rewrite (lrange_not_this c l Et). apply lrange_not_this. reflexivity.
  - destruct Wl as (W1 & W2 & W3). repeat split; simpl; intros; auto; try congruence.
    apply W2. destruct (l_cur l); simpl in *; congruence.
Qed.

Lemma other_leave_inv : forall c s t l nx ini,
  AInv c s -> nth_error (th s) t = Some l -> is_other (l_cur l) = true ->
  AInv c (set_th s t (mkL CNone false nx ini (l_delta l))).
Proof.
  intros c s t l nx ini (fs & ls & I) H Hc.
  thread_start I H. destruct s as [sh0 m th0]. simpl in *. subst th0 ls.
  exists fs, (la ++ x :: lb). unfold set_th. simpl. rewrite Upd.
  assert (is_this (l_cur l) = false) as Et by (destruct (l_cur l); simpl in *; congruence).
  eapply inv_local_change; eauto.
  - unfold lchainP in *. rewrite Et in Px. subst x. simpl. reflexivity.
  - rewrite (lrange_not_this c l Et). apply lrange_not_this. reflexivity.
  - destruct Wl as (W1 & W2 & W3). repeat split; simpl; intros; auto; try congruence.
    apply W2. destruct (l_cur l); simpl in *; congruence.
Qed.

Lemma spawn_inv : forall c s, AInv c s -> AInv c (mkSt (sh s) (sl s) (th s ++ [lfresh])).
Proof.
  intros c s (fs & ls & I). exists fs, (ls ++ [[]]).
  assert (wfree c (mkSt (sh s) (sl s) (th s ++ [lfresh])) fs (ls ++ [[]]) = wfree c s fs ls) as EW.
  { unfold wfree. simpl. rewrite concat_app, flat_map_app. simpl. rewrite !app_nil_r. reflexivity. }
  eapply inv_move_generic; [exact I | rewrite EW; reflexivity | | | | | | | ]; simpl;
    try (destruct I; assumption); try tauto.
  - apply Forall2_app; [destruct I; assumption|]. constructor; [reflexivity | constructor].
  - apply Forall_app. split; [destruct I; assumption|]. constructor; [|constructor].
    repeat split; simpl; intros; auto; congruence.
  - rewrite sumd_app. simpl. lia.
Qed.

(** ** `add_node`: the thread-local list and the pre-allocated range *)

Lemma alloc_local_list_inv : forall c sh0 m a l b fs la x lb nx,
  AInvW c (mkSt sh0 m (a ++ l :: b)) fs (la ++ x :: lb) ->
  Forall2 (lchainP m) a la -> Forall2 (lchainP m) b lb -> lchainP m l x ->
  Forall (local_ok c sh0) a -> Forall (local_ok c sh0) b -> local_ok c sh0 l ->
  is_this (l_cur l) = true -> l_next l <> 0 -> sget m (l_next l) = SFree nx ->
  exists x', x = l_next l :: x' /\
  AInvW c (mkSt sh0 (sset m (l_next l) SNode)
                (a ++ mkL (l_cur l) (l_guard l) nx (l_init l) (l_delta l + 1)%Z :: b))
        fs (la ++ x' :: lb).
Proof.
  intros c sh0 m a l b fs la x lb nx I Fa Fb Px Wa Wb Wl Et Hn Hg.
  unfold lchainP in Px. rewrite Et in Px.
  destruct (Chain_head _ _ _ Px Hn) as (nx0 & x' & G & Ex & Cx). rewrite Hg in G. inversion G; subst nx0 x.
  exists x'. split; [reflexivity|].
  set (id := l_next l) in *.
  pose proof (w_nodup _ _ _ _ I) as ND. unfold wfree in ND. simpl in ND.
  assert (~ In id (concat fs)) as N1 by (notin_by_count id).
  assert (~ In id (concat la)) as N2 by (notin_by_count id).
  assert (~ In id (concat lb)) as N3 by (notin_by_count id).
  assert (~ In id x') as N4 by (notin_by_count id).
  eapply inv_alloc_generic with (id := id); [exact I | | reflexivity | | | | | | ]; simpl;
    try (destruct I; assumption).
  - unfold wfree. simpl. rewrite !flat_map_app. cbn [flat_map].
    change (lrange c (mkL (l_cur l) (l_guard l) nx (l_init l) (l_delta l + 1)%Z)) with (lrange c l).
    perm_count.
  - eapply schains_ext; [destruct I; eassumption|]. apply sset_frame; auto.
  - apply Forall2_mid.
    + eapply lchains_ext; eauto. apply sset_frame; auto.
    + unfold lchainP. simpl. rewrite Et. eapply Chain_ext; eauto. apply sset_frame; auto.
    + eapply lchains_ext; eauto. apply sset_frame; auto.
  - apply Forall_mid; auto. destruct Wl as (W1 & W2 & W3). repeat split; simpl; auto.
    intros. destruct (l_cur l); simpl in *; congruence.
  - rewrite !sumd_mid. simpl. lia.
Qed.

Lemma lrange_step : forall c l g nx d,
  1 <= chunk c -> is_this (l_cur l) = true -> in_chunk c (l_init l) = true ->
  lrange c l = (l_init l + term c) :: lrange c (mkL (l_cur l) g nx (l_init l + 1) d).
Proof.
  intros c l g nx d Hc Et Hin. unfold lrange. simpl. rewrite Et, Hin. simpl.
  destruct (chunk_step c (l_init l) Hc) as (A & B & C & D).
  destruct (in_chunk c (l_init l + 1)) eqn:E.
  - rewrite (C eq_refl).
    replace (N.to_nat (chunk_end c (l_init l) - l_init l))
      with (S (N.to_nat (chunk_end c (l_init l) - (l_init l + 1)))) by lia.
    reflexivity.
  - specialize (D eq_refl).
    replace (N.to_nat (chunk_end c (l_init l) - l_init l)) with 1%nat by lia. reflexivity.
Qed.

Lemma alloc_local_range_inv : forall c sh0 m a l b fs la x lb,
  AInvW c (mkSt sh0 m (a ++ l :: b)) fs (la ++ x :: lb) ->
  Forall2 (lchainP m) a la -> Forall2 (lchainP m) b lb -> lchainP m l x ->
  Forall (local_ok c sh0) a -> Forall (local_ok c sh0) b -> local_ok c sh0 l ->
  is_this (l_cur l) = true -> l_next l = 0 -> in_chunk c (l_init l) = true ->
  AInvW c (mkSt sh0 (sset m (l_init l + term c) SNode)
                (a ++ mkL (l_cur l) (l_guard l) (l_next l) (l_init l + 1) (l_delta l + 1)%Z :: b))
        fs (la ++ x :: lb).
Proof.
  intros c sh0 m a l b fs la x lb I Fa Fb Px Wa Wb Wl Et Hn Hin.
  pose proof (w_chunk _ _ _ _ I) as Hc.
  set (id := l_init l + term c) in *.
  set (l' := mkL (l_cur l) (l_guard l) (l_next l) (l_init l + 1) (l_delta l + 1)%Z) in *.
  assert (lrange c l = id :: lrange c l') as ER by (apply lrange_step; auto).
  pose proof (w_nodup _ _ _ _ I) as ND. unfold wfree in ND. simpl in ND.
  rewrite !flat_map_app in ND. cbn [flat_map] in ND. rewrite ER in ND.
  assert (~ In id (concat fs)) as N1 by (notin_by_count id).
  assert (~ In id (concat la)) as N2 by (notin_by_count id).
  assert (~ In id (concat lb)) as N3 by (notin_by_count id).
  assert (~ In id x) as N4 by (notin_by_count id).
  eapply inv_alloc_generic with (id := id); [exact I | | reflexivity | | | | | | ]; simpl;
    try (destruct I; assumption).
  - unfold wfree. simpl. rewrite !flat_map_app. cbn [flat_map]. rewrite ER. perm_count.
  - eapply schains_ext; [destruct I; eassumption|]. apply sset_frame; auto.
  - apply Forall2_mid.
    + eapply lchains_ext; eauto. apply sset_frame; auto.
    + unfold lchainP in *. subst l'. simpl. rewrite Et in *. eapply Chain_ext; eauto. apply sset_frame; auto.
    + eapply lchains_ext; eauto. apply sset_frame; auto.
  - apply Forall_mid; auto. destruct Wl as (W1 & W2 & W3). subst l'. split; [|split]; simpl; auto.
    + intros. destruct (l_cur l); simpl in *; congruence.
    + intros E1 E2. destruct (chunk_step c (l_init l) Hc) as (_ & _ & C & _).
      rewrite (C E2). apply W3; auto.
  - rewrite !sumd_mid. subst l'. simpl. lia.
Qed.

(** ** `get_slot_from_shared` *)

Lemma upd_mid : forall (A : Type) (a : list A) l b l', upd (a ++ l :: b) (length a) l' = a ++ l' :: b.
Proof. induction a; simpl; intros; auto. f_equal. auto. Qed.

Lemma nth_error_mid : forall (A : Type) (a : list A) l b, nth_error (a ++ l :: b) (length a) = Some l.
Proof. induction a; simpl; intros; auto. Qed.

Lemma unalloc_step : forall c i, i < cap c -> unalloc c i = (i + term c) :: unalloc c (i + 1).
Proof.
  intros. unfold unalloc.
  replace (N.to_nat (cap c - i)) with (S (N.to_nat (cap c - (i + 1)))) by lia. reflexivity.
Qed.

Lemma unalloc_split : forall c i e, i <= e -> e <= cap c ->
  unalloc c i = range_ids c i (N.to_nat (e - i)) ++ unalloc c e.
Proof.
  intros. unfold unalloc.
  replace (N.to_nat (cap c - i)) with (N.to_nat (e - i) + N.to_nat (cap c - e))%nat by lia.
  rewrite range_ids_app. f_equal. f_equal. lia.
Qed.

Lemma unalloc_full : forall c i, cap c <= i -> unalloc c i = [].
Proof. intros. unfold unalloc. replace (N.to_nat (cap c - i)) with 0%nat by lia. reflexivity. Qed.

(** the thread pops the first shared list and keeps its rest *)
Lemma gsfs_take_inv : forall c m a l b fs la x lb id rest al cnt g cnt' g' nx d1,
  AInvW c (mkSt (mkSh (id :: rest) al cnt g) m (a ++ l :: b)) fs (la ++ x :: lb) ->
  Forall2 (lchainP m) a la -> Forall2 (lchainP m) b lb -> lchainP m l x ->
  Forall (local_ok c (mkSh (id :: rest) al cnt g)) a -> Forall (local_ok c (mkSh (id :: rest) al cnt g)) b ->
  local_ok c (mkSh (id :: rest) al cnt g) l ->
  is_this (l_cur l) = true -> l_next l = 0 -> sget m id = SFree nx ->
  (cnt' + d1 = cnt + l_delta l + 1)%Z ->
  exists fs' x',
  AInvW c (mkSt (mkSh rest al cnt' g') (sset m id SNode)
                (a ++ mkL (l_cur l) (l_guard l) nx (l_init l) d1 :: b))
        fs' (la ++ x' :: lb).
Proof.
  intros c m a l b fs la x lb id rest al cnt g cnt' g' nx d1 I Fa Fb Px Wa Wb Wl Et Hn Hg Hcnt.
  pose proof (w_schains _ _ _ _ I) as SC. simpl in SC. inversion SC as [|? f1 ? frest C1 Cr]; subst.
  pose proof (w_heads _ _ _ _ I) as HH. simpl in HH. inversion HH as [|? ? Hid Hrest]; subst.
  destruct (Chain_head _ _ _ C1 Hid) as (nx0 & f1' & G & Ef & Cf). rewrite Hg in G. inversion G; subst nx0 f1.
  unfold lchainP in Px. rewrite Et, Hn in Px. apply Chain_zero in Px. subst x.
  exists frest, f1'.
  pose proof (w_nodup _ _ _ _ I) as ND. unfold wfree in ND. simpl in ND.
  assert (~ In id (concat frest)) as N1 by (notin_by_count id).
  assert (~ In id (concat la)) as N2 by (notin_by_count id).
  assert (~ In id (concat lb)) as N3 by (notin_by_count id).
  assert (~ In id f1') as N4 by (notin_by_count id).
  eapply inv_alloc_generic with (id := id); [exact I | | reflexivity | | | | | | ]; simpl;
    try (destruct I; assumption).
  - unfold wfree. simpl. rewrite !flat_map_app. cbn [flat_map].
    change (lrange c (mkL (l_cur l) (l_guard l) nx (l_init l) d1)) with (lrange c l). perm_count.
  - eapply schains_ext; eauto. apply sset_frame; auto.
  - apply Forall2_mid.
    + eapply lchains_ext; eauto. apply sset_frame; auto.
    + unfold lchainP. simpl. rewrite Et. eapply Chain_ext; eauto. apply sset_frame; auto.
    + eapply lchains_ext; eauto. apply sset_frame; auto.
  - apply Forall_mid.
    + eapply Forall_impl; [|exact Wa]. intros. eapply local_ok_sh; [|eassumption]. reflexivity.
    + destruct Wl as (W1 & W2 & W3). split; [|split]; simpl; auto.
      intros. destruct (l_cur l); simpl in *; congruence.
    + eapply Forall_impl; [|exact Wb]. intros. eapply local_ok_sh; [|eassumption]. reflexivity.
  - rewrite !sumd_mid. simpl. lia.
Qed.

(** a slot is popped from the first shared list, the rest of the list goes back *)
Lemma gsfs_pop_inv : forall c m a l b fs la x lb id rest al cnt g cnt' g' nx d1,
  AInvW c (mkSt (mkSh (id :: rest) al cnt g) m (a ++ l :: b)) fs (la ++ x :: lb) ->
  Forall2 (lchainP m) a la -> Forall2 (lchainP m) b lb -> lchainP m l x ->
  Forall (local_ok c (mkSh (id :: rest) al cnt g)) a -> Forall (local_ok c (mkSh (id :: rest) al cnt g)) b ->
  local_ok c (mkSh (id :: rest) al cnt g) l ->
  sget m id = SFree nx ->
  (cnt' + d1 = cnt + l_delta l + 1)%Z -> (l_cur l <> CThis -> d1 = 0%Z) ->
  exists fs',
  AInvW c (mkSt (mkSh (if nx =? 0 then rest else nx :: rest) al cnt' g') (sset m id SNode)
                (a ++ mkL (l_cur l) (l_guard l) (l_next l) (l_init l) d1 :: b))
        fs' (la ++ x :: lb).
Proof.
  intros c m a l b fs la x lb id rest al cnt g cnt' g' nx d1 I Fa Fb Px Wa Wb Wl Hg Hcnt Hd1.
  pose proof (w_schains _ _ _ _ I) as SC. simpl in SC. inversion SC as [|? f1 ? frest C1 Cr]; subst.
  pose proof (w_heads _ _ _ _ I) as HH. simpl in HH. inversion HH as [|? ? Hid Hrest]; subst.
  destruct (Chain_head _ _ _ C1 Hid) as (nx0 & f1' & G & Ef & Cf). rewrite Hg in G. inversion G; subst nx0 f1.
  exists (if nx =? 0 then frest else f1' :: frest).
  pose proof (w_nodup _ _ _ _ I) as ND. unfold wfree in ND. simpl in ND.
  assert (~ In id (concat frest)) as N1 by (notin_by_count id).
  assert (~ In id (concat la)) as N2 by (notin_by_count id).
  assert (~ In id (concat lb)) as N3 by (notin_by_count id).
  assert (~ In id f1') as N4 by (notin_by_count id).
  assert (~ In id x) as N5 by (notin_by_count id).
  assert (nx = 0 -> f1' = []) as Hz by (intros; subst; apply (Chain_zero _ _ Cf)).
  eapply inv_alloc_generic with (id := id); [exact I | | reflexivity | | | | | | ]; simpl;
    try (destruct I; assumption).
  - unfold wfree. simpl. rewrite !flat_map_app. cbn [flat_map].
    change (lrange c (mkL (l_cur l) (l_guard l) (l_next l) (l_init l) d1)) with (lrange c l).
    destruct (N.eqb_spec nx 0) as [E|E]; [rewrite (Hz E)|]; perm_count.
  - destruct (N.eqb_spec nx 0); auto.
  - destruct (N.eqb_spec nx 0).
    + eapply schains_ext; eauto. apply sset_frame; auto.
    + constructor.
      * eapply Chain_ext; eauto. apply sset_frame; auto.
      * eapply schains_ext; eauto. apply sset_frame; auto.
  - apply Forall2_mid.
    + eapply lchains_ext; eauto. apply sset_frame; auto.
    + unfold lchainP in *. simpl. destruct (is_this (l_cur l)); auto.
      eapply Chain_ext; eauto. apply sset_frame; auto.
    + eapply lchains_ext; eauto. apply sset_frame; auto.
  - apply Forall_mid.
    + eapply Forall_impl; [|exact Wa]. intros. eapply local_ok_sh; [|eassumption]. reflexivity.
    + destruct Wl as (W1 & W2 & W3). split; [|split]; simpl; auto.
    + eapply Forall_impl; [|exact Wb]. intros. eapply local_ok_sh; [|eassumption]. reflexivity.
  - rewrite !sumd_mid. simpl. destruct (N.eqb_spec nx 0); simpl; lia.
Qed.

(** a single never-used slot *)
Lemma gsfs_bump_inv : forall c m a l b fs la x lb al cnt g cnt' g' d1,
  AInvW c (mkSt (mkSh [] al cnt g) m (a ++ l :: b)) fs (la ++ x :: lb) ->
  Forall2 (lchainP m) a la -> Forall2 (lchainP m) b lb -> lchainP m l x ->
  Forall (local_ok c (mkSh [] al cnt g)) a -> Forall (local_ok c (mkSh [] al cnt g)) b ->
  local_ok c (mkSh [] al cnt g) l ->
  al < cap c ->
  (cnt' + d1 = cnt + l_delta l + 1)%Z -> (l_cur l <> CThis -> d1 = 0%Z) ->
  AInvW c (mkSt (mkSh [] (al + 1) cnt' g') (sset m (al + term c) SNode)
                (a ++ mkL (l_cur l) (l_guard l) (l_next l) (l_init l) d1 :: b))
        fs (la ++ x :: lb).
Proof.
  intros c m a l b fs la x lb al cnt g cnt' g' d1 I Fa Fb Px Wa Wb Wl Hal Hcnt Hd1.
  set (id := al + term c) in *.
  pose proof (w_schains _ _ _ _ I) as SC. simpl in SC. inversion SC; subst.
  pose proof (w_nodup _ _ _ _ I) as ND. unfold wfree in ND. simpl in ND.
  rewrite (unalloc_step c al Hal) in ND. fold id in ND.
  assert (~ In id (concat la)) as N2 by (notin_by_count id).
  assert (~ In id (concat lb)) as N3 by (notin_by_count id).
  assert (~ In id x) as N5 by (notin_by_count id).
  eapply inv_alloc_generic with (id := id); [exact I | | reflexivity | | | | | | ]; simpl;
    try (destruct I; assumption).
  - unfold wfree. simpl. rewrite !flat_map_app. cbn [flat_map].
    change (lrange c (mkL (l_cur l) (l_guard l) (l_next l) (l_init l) d1)) with (lrange c l).
    rewrite (unalloc_step c al Hal). fold id. perm_count.
  - lia.
  - constructor.
  - apply Forall2_mid.
    + eapply lchains_ext; eauto. apply sset_frame; auto.
    + unfold lchainP in *. simpl. destruct (is_this (l_cur l)); auto.
      eapply Chain_ext; eauto. apply sset_frame; auto.
    + eapply lchains_ext; eauto. apply sset_frame; auto.
  - apply Forall_mid.
    + eapply locals_mono; [exact Wa|]. simpl. lia.
    + destruct Wl as (W1 & W2 & W3). split; [|split]; simpl in *; auto.
      intros E1 E2. specialize (W3 E1 E2). lia.
    + eapply locals_mono; [exact Wb|]. simpl. lia.
  - rewrite !sumd_mid. simpl. lia.
Qed.

(** a chunk is pre-allocated: its first slot is handed out, the rest becomes the thread's range *)
Lemma gsfs_chunk_inv : forall c m a l b fs la x lb al cnt g cnt' g' d1,
  AInvW c (mkSt (mkSh [] al cnt g) m (a ++ l :: b)) fs (la ++ x :: lb) ->
  Forall2 (lchainP m) a la -> Forall2 (lchainP m) b lb -> lchainP m l x ->
  Forall (local_ok c (mkSh [] al cnt g)) a -> Forall (local_ok c (mkSh [] al cnt g)) b ->
  local_ok c (mkSh [] al cnt g) l ->
  is_this (l_cur l) = true -> in_chunk c (l_init l) = false ->
  al + chunk c < cap c ->
  (cnt' + d1 = cnt + l_delta l + 1)%Z ->
  AInvW c (mkSt (mkSh [] (chunk_end c al) cnt' g') (sset m (al + term c) SNode)
                (a ++ mkL (l_cur l) (l_guard l) (l_next l) (al + 1) d1 :: b))
        fs (la ++ x :: lb).
Proof.
  intros c m a l b fs la x lb al cnt g cnt' g' d1 I Fa Fb Px Wa Wb Wl Et Hin Hal Hcnt.
  pose proof (w_chunk _ _ _ _ I) as Hc.
  set (id := al + term c) in *.
  set (l' := mkL (l_cur l) (l_guard l) (l_next l) (al + 1) d1).
  destruct (chunk_step c al Hc) as (A & B & C & D).
  pose proof (w_schains _ _ _ _ I) as SC. simpl in SC. inversion SC; subst.
  assert (lrange c l = []) as ER0 by (apply lrange_not_chunk; auto).
  assert (unalloc c al = id :: lrange c l' ++ unalloc c (chunk_end c al)) as EU.
  { rewrite (unalloc_step c al) by lia. fold id. f_equal.
    rewrite (unalloc_split c (al + 1) (chunk_end c al)) by lia. f_equal.
    unfold lrange, l'. simpl. rewrite Et. simpl.
    destruct (in_chunk c (al + 1)) eqn:E.
    - rewrite (C eq_refl). reflexivity.
    - rewrite <- (D eq_refl). replace (N.to_nat (al + 1 - (al + 1))) with 0%nat by lia. reflexivity. }
  pose proof (w_nodup _ _ _ _ I) as ND. unfold wfree in ND. simpl in ND. rewrite EU in ND.
  assert (~ In id (concat la)) as N2 by (notin_by_count id).
  assert (~ In id (concat lb)) as N3 by (notin_by_count id).
  assert (~ In id x) as N5 by (notin_by_count id).
  eapply inv_alloc_generic with (id := id); [exact I | | reflexivity | | | | | | ]; simpl;
    try (destruct I; assumption).
  - unfold wfree. simpl. rewrite !flat_map_app. cbn [flat_map]. fold l'. rewrite EU, ER0. perm_count.
  - lia.
  - constructor.
  - apply Forall2_mid.
    + eapply lchains_ext; eauto. apply sset_frame; auto.
    + unfold lchainP in *. simpl. destruct (is_this (l_cur l)); auto.
      eapply Chain_ext; eauto. apply sset_frame; auto.
    + eapply lchains_ext; eauto. apply sset_frame; auto.
  - apply Forall_mid.
    + eapply locals_mono; [exact Wa|]. simpl. lia.
    + destruct Wl as (W1 & W2 & W3). split; [|split]; simpl in *; auto.
      * intros. destruct (l_cur l); simpl in *; congruence.
      * intros E1 E2. rewrite (C E2). lia.
    + eapply locals_mono; [exact Wb|]. simpl. lia.
  - rewrite !sumd_mid. simpl. lia.
Qed.

(** out of memory: nothing changes but the counts *)
Lemma gsfs_oom_inv : forall c m a l b fs la x lb fr al cnt g cnt' g' d1,
  AInvW c (mkSt (mkSh fr al cnt g) m (a ++ l :: b)) fs (la ++ x :: lb) ->
  Forall2 (lchainP m) a la -> Forall2 (lchainP m) b lb -> lchainP m l x ->
  Forall (local_ok c (mkSh fr al cnt g)) a -> Forall (local_ok c (mkSh fr al cnt g)) b ->
  local_ok c (mkSh fr al cnt g) l ->
  (cnt' + d1 = cnt + l_delta l)%Z -> (l_cur l <> CThis -> d1 = 0%Z) ->
  AInvW c (mkSt (mkSh fr al cnt' g') m
                (a ++ mkL (l_cur l) (l_guard l) (l_next l) (l_init l) d1 :: b))
        fs (la ++ x :: lb).
Proof.
  intros c m a l b fs la x lb fr al cnt g cnt' g' d1 I Fa Fb Px Wa Wb Wl Hcnt Hd1.
  eapply inv_move_generic; [exact I | | | | | | | | ]; simpl; try (destruct I; assumption); try tauto.
  - unfold wfree. simpl. rewrite !flat_map_app. cbn [flat_map].
    change (lrange c (mkL (l_cur l) (l_guard l) (l_next l) (l_init l) d1)) with (lrange c l). reflexivity.
  - apply Forall2_mid; auto.
  - apply Forall_mid.
    + eapply Forall_impl; [|exact Wa]. intros. eapply local_ok_sh; [|eassumption]. reflexivity.
    + destruct Wl as (W1 & W2 & W3). split; [|split]; simpl in *; auto.
    + eapply Forall_impl; [|exact Wb]. intros. eapply local_ok_sh; [|eassumption]. reflexivity.
  - rewrite !sumd_mid. simpl. lia.
Qed.

Lemma this_is : forall cu, is_this cu = true -> cu = CThis.
Proof. destruct cu; simpl; congruence. Qed.

Lemma not_this_is : forall cu, is_this cu = false -> cu <> CThis.
Proof. destruct cu; simpl; congruence. Qed.

Lemma gsfs_inv : forall c m a b fs la x lb sh0 cu gu nxl ini de d1 d s' o,
  AInvW c (mkSt sh0 m (a ++ mkL cu gu nxl ini de :: b)) fs (la ++ x :: lb) ->
  Forall2 (lchainP m) a la -> Forall2 (lchainP m) b lb -> lchainP m (mkL cu gu nxl ini de) x ->
  Forall (local_ok c sh0) a -> Forall (local_ok c sh0) b -> local_ok c sh0 (mkL cu gu nxl ini de) ->
  (d1 + d = de + 1)%Z ->
  (is_this cu = true -> nxl = 0 /\ in_chunk c ini = false) ->
  (is_this cu = false -> d1 = 0%Z) ->
  get_slot_from_shared c good (mkSt sh0 m (a ++ mkL cu gu nxl ini de :: b)) (length a)
                       (mkL cu gu nxl ini d1) d = Some (s', o) ->
  AInv c s'.
Proof.
  intros c m a b fs la x lb sh0 cu gu nxl ini de d1 d s' o I Fa Fb Px Wa Wb Wl Hd Hthis Hnot G.
  destruct sh0 as [fr al cnt g]. unfold get_slot_from_shared in G. cbn [v_oom_drift v_take_all v_cap_first good
    sh sl th s_free s_alloc s_count s_gc l_cur l_guard l_next l_init l_delta negb andb orb] in G.
  rewrite !upd_mid in G.
  destruct (is_this cu) eqn:Et.
  - destruct (Hthis eq_refl) as [Hn Hin]. subst nxl.
    destruct fr as [|id rest].
    + destruct (N.leb_spec (cap c) al) as [Hfull | Hroom].
      * (* out of memory *)
        assert ((al + chunk c <? cap c) = false) as E1 by (apply N.ltb_ge; lia).
        assert ((al <? cap c) = false) as E2 by (apply N.ltb_ge; lia).
        rewrite E1, E2 in G. inversion G; subst; rewrite ?upd_mid. exists fs, (la ++ x :: lb).
        eapply (gsfs_oom_inv c m a (mkL cu gu 0 ini de) b); eauto; simpl; try lia.
        intros. exfalso. apply H. apply this_is; auto.
      * destruct (al + chunk c <? cap c) eqn:E1.
        -- inversion G; subst; rewrite ?upd_mid. exists fs, (la ++ x :: lb).
           eapply (gsfs_chunk_inv c m a (mkL cu gu 0 ini de) b); eauto; simpl; try lia.
           apply N.ltb_lt; auto.
        -- assert ((al <? cap c) = true) as E2 by (apply N.ltb_lt; lia).
           rewrite E2 in G. inversion G; subst; rewrite ?upd_mid. exists fs, (la ++ x :: lb).
           eapply (gsfs_bump_inv c m a (mkL cu gu 0 ini de) b); eauto; simpl; try lia.
           intros. exfalso. apply H. apply this_is; auto.
    + cbn [andb] in G. destruct (sget m id) eqn:Eg; try discriminate.
      destruct (al + chunk c <? cap c) eqn:E1.
      * inversion G; subst; rewrite ?upd_mid.
        destruct (gsfs_take_inv c m a (mkL cu gu 0 ini de) b fs la x lb id rest al cnt g
                    (cnt + d)%Z
                    (if gcst_eqb g GInit && (hwm c <=? cnt + d)%Z then GTriggered else g) nx d1)
          as (fs' & x' & I'); auto; simpl; try lia.
        exists fs', (la ++ x' :: lb). exact I'.
      * inversion G; subst; rewrite ?upd_mid.
        destruct (gsfs_pop_inv c m a (mkL cu gu 0 ini de) b fs la x lb id rest al cnt g
                    (cnt + d)%Z
                    (if gcst_eqb g GInit && (hwm c <=? cnt + d)%Z then GTriggered else g) nx d1)
          as (fs' & I'); auto; simpl; try lia.
        { intros. exfalso. apply H. apply this_is; auto. }
        exists fs', (la ++ x :: lb). exact I'.
  - specialize (Hnot eq_refl). subst d1.
    assert (de = 0%Z) as Hde.
    { destruct Wl as (_ & W2 & _). apply W2. simpl. apply not_this_is; auto. }
    subst de.
    destruct fr as [|id rest].
    + destruct (N.leb_spec (cap c) al) as [Hfull | Hroom].
      * inversion G; subst; rewrite ?upd_mid. exists fs, (la ++ x :: lb).
        eapply (gsfs_oom_inv c m a (mkL cu gu nxl ini 0%Z) b); eauto; simpl; try lia.
      * inversion G; subst; rewrite ?upd_mid. exists fs, (la ++ x :: lb).
        eapply (gsfs_bump_inv c m a (mkL cu gu nxl ini 0%Z) b); eauto; simpl; try lia.
    + cbn [andb] in G. destruct (sget m id) eqn:Eg; try discriminate.
      inversion G; subst; rewrite ?upd_mid.
      destruct (gsfs_pop_inv c m a (mkL cu gu nxl ini 0%Z) b fs la x lb id rest al cnt g
                  (cnt + d)%Z
                  (if gcst_eqb g GInit && (hwm c <=? cnt + d)%Z then GTriggered else g) nx 0%Z)
        as (fs' & I'); auto; simpl; try lia.
      exists fs', (la ++ x :: lb). exact I'.
Qed.

Lemma add_node_inv : forall c s t l s' o,
  AInv c s -> nth_error (th s) t = Some l -> add_node c good s t l = Some (s', o) -> AInv c s'.
Proof.
  intros c s t l s' o (fs & ls & I) H G.
  thread_start I H. destruct s as [sh0 m th0]. simpl in *. subst th0 ls t.
  destruct l as [cu gu nxl ini de]. unfold add_node in G.
  cbn [sh sl th l_cur l_guard l_next l_init l_delta] in G.
  destruct (is_this cu) eqn:Et.
  - destruct (N.eqb_spec nxl 0) as [En | En]; cbn [negb] in G.
    + subst nxl. destruct (in_chunk c ini) eqn:Hin.
      * inversion G; subst; rewrite ?upd_mid. exists fs, (la ++ x :: lb).
        apply (alloc_local_range_inv c sh0 m a (mkL cu gu 0 ini de) b); auto.
      * eapply (gsfs_inv c m a b fs la x lb sh0 cu gu 0 ini de 0%Z (de + 1)%Z); eauto; try lia;
          try (intros; congruence).
    + destruct (sget m nxl) eqn:Eg; try discriminate.
      inversion G; subst; rewrite ?upd_mid.
      destruct (alloc_local_list_inv c sh0 m a (mkL cu gu nxl ini de) b fs la x lb nx)
        as (x' & _ & I'); auto.
      exists fs, (la ++ x' :: lb). exact I'.
  - assert (de = 0%Z) as Hde.
    { destruct Wl as (_ & W2 & _). apply W2. simpl. apply not_this_is; auto. }
    eapply (gsfs_inv c m a b fs la x lb sh0 cu gu nxl ini de de 1%Z); eauto; try lia;
      try (intros; congruence).
Qed.

(** ** `free_slot` *)

Lemma free_local_inv : forall c sh0 m a l b fs la x lb id,
  AInvW c (mkSt sh0 m (a ++ l :: b)) fs (la ++ x :: lb) ->
  Forall2 (lchainP m) a la -> Forall2 (lchainP m) b lb -> lchainP m l x ->
  Forall (local_ok c sh0) a -> Forall (local_ok c sh0) b -> local_ok c sh0 l ->
  is_this (l_cur l) = true -> sget m id = SNode ->
  AInvW c (mkSt sh0 (sset m id (SFree (l_next l)))
                (a ++ mkL (l_cur l) (l_guard l) id (l_init l) (l_delta l - 1)%Z :: b))
        fs (la ++ (id :: x) :: lb).
Proof.
  intros c sh0 m a l b fs la x lb id I Fa Fb Px Wa Wb Wl Et Hn.
  assert (in_arr c id) as Hr by (apply (w_nodes _ _ _ _ I); auto).
  assert (~ In id (wfree c (mkSt sh0 m (a ++ l :: b)) fs (la ++ x :: lb))) as Hni
    by (apply (w_live _ _ _ _ I id Hr); auto).
  unfold wfree in Hni. simpl in Hni.
  assert (~ In id (concat fs)) as N1 by (notin_by_count id).
  assert (~ In id (concat la)) as N2 by (notin_by_count id).
  assert (~ In id (concat lb)) as N3 by (notin_by_count id).
  assert (~ In id x) as N4 by (notin_by_count id).
  assert (id <> 0) as Hid by (eapply in_arr_nonzero; [apply (w_term _ _ _ _ I) | auto]).
  eapply inv_free_generic with (id := id); [exact I | exact Hn | | reflexivity | | | | | | ]; simpl;
    try (destruct I; assumption).
  - unfold wfree. simpl. rewrite !flat_map_app. cbn [flat_map].
    change (lrange c (mkL (l_cur l) (l_guard l) id (l_init l) (l_delta l - 1)%Z)) with (lrange c l).
    perm_count.
  - eapply schains_ext; [destruct I; eassumption|]. apply sset_frame; auto.
  - apply Forall2_mid.
    + eapply lchains_ext; eauto. apply sset_frame; auto.
    + unfold lchainP in *. simpl. rewrite Et in *. apply Chain_push; auto.
    + eapply lchains_ext; eauto. apply sset_frame; auto.
  - apply Forall_mid; auto. destruct Wl as (W1 & W2 & W3). split; [|split]; simpl; auto.
    intros. exfalso. apply H. apply this_is; auto.
  - rewrite !sumd_mid. simpl. lia.
Qed.

Lemma free_handover_inv : forall c fr al cnt g m a l b fs la x lb id,
  AInvW c (mkSt (mkSh fr al cnt g) m (a ++ l :: b)) fs (la ++ x :: lb) ->
  Forall2 (lchainP m) a la -> Forall2 (lchainP m) b lb -> lchainP m l x ->
  Forall (local_ok c (mkSh fr al cnt g)) a -> Forall (local_ok c (mkSh fr al cnt g)) b ->
  local_ok c (mkSh fr al cnt g) l ->
  is_this (l_cur l) = true -> sget m id = SNode ->
  AInvW c (mkSt (mkSh (id :: fr) al (cnt + (l_delta l - 1))%Z g) (sset m id (SFree (l_next l)))
                (a ++ mkL (l_cur l) (l_guard l) 0 (l_init l) 0%Z :: b))
        ((id :: x) :: fs) (la ++ [] :: lb).
Proof.
  intros c fr al cnt g m a l b fs la x lb id I Fa Fb Px Wa Wb Wl Et Hn.
  assert (in_arr c id) as Hr by (apply (w_nodes _ _ _ _ I); auto).
  assert (~ In id (wfree c (mkSt (mkSh fr al cnt g) m (a ++ l :: b)) fs (la ++ x :: lb))) as Hni
    by (apply (w_live _ _ _ _ I id Hr); auto).
  unfold wfree in Hni. simpl in Hni.
  assert (~ In id (concat fs)) as N1 by (notin_by_count id).
  assert (~ In id (concat la)) as N2 by (notin_by_count id).
  assert (~ In id (concat lb)) as N3 by (notin_by_count id).
  assert (~ In id x) as N4 by (notin_by_count id).
  assert (id <> 0) as Hid by (eapply in_arr_nonzero; [apply (w_term _ _ _ _ I) | auto]).
  eapply inv_free_generic with (id := id); [exact I | exact Hn | | reflexivity | | | | | | ]; simpl;
    try (destruct I; assumption).
  - unfold wfree. simpl. rewrite !flat_map_app. cbn [flat_map].
    change (lrange c (mkL (l_cur l) (l_guard l) 0 (l_init l) 0%Z)) with (lrange c l).
    perm_count.
  - constructor; auto. destruct I; assumption.
  - constructor.
    + unfold lchainP in Px. rewrite Et in Px. apply Chain_push; auto.
    + eapply schains_ext; [destruct I; eassumption|]. apply sset_frame; auto.
  - apply Forall2_mid.
    + eapply lchains_ext; eauto. apply sset_frame; auto.
    + unfold lchainP. simpl. rewrite Et. constructor.
    + eapply lchains_ext; eauto. apply sset_frame; auto.
  - apply Forall_mid.
    + eapply Forall_impl; [|exact Wa]. intros. eapply local_ok_sh; [|eassumption]. reflexivity.
    + destruct Wl as (W1 & W2 & W3). split; [|split]; simpl in *; auto.
    + eapply Forall_impl; [|exact Wb]. intros. eapply local_ok_sh; [|eassumption]. reflexivity.
  - rewrite !sumd_mid. simpl. lia.
Qed.

Lemma free_nonlocal_inv : forall c fr al cnt g m thr fs ls id,
  AInvW c (mkSt (mkSh fr al cnt g) m thr) fs ls ->
  sget m id = SNode ->
  exists fs',
  AInvW c (mkSt (mkSh (id :: (match fr with [] => [] | _ :: r => r end)) al (cnt - 1)%Z g)
                (sset m id (SFree (match fr with [] => 0 | h :: _ => h end))) thr)
        fs' ls.
Proof.
  intros c fr al cnt g m thr fs ls id I Hn.
  assert (in_arr c id) as Hr by (apply (w_nodes _ _ _ _ I); auto).
  assert (~ In id (wfree c (mkSt (mkSh fr al cnt g) m thr) fs ls)) as Hni
    by (apply (w_live _ _ _ _ I id Hr); auto).
  unfold wfree in Hni. simpl in Hni.
  assert (id <> 0) as Hid by (eapply in_arr_nonzero; [apply (w_term _ _ _ _ I) | auto]).
  assert (~ In id (concat fs)) as N1 by (notin_by_count id).
  assert (~ In id (concat ls)) as N2 by (notin_by_count id).
  pose proof (w_schains _ _ _ _ I) as SC. simpl in SC.
  pose proof (w_heads _ _ _ _ I) as HH. simpl in HH.
  destruct fr as [|h r].
  - inversion SC; subst. exists [[id]].
    eapply inv_free_generic with (id := id); [exact I | exact Hn | | reflexivity | | | | | | ]; simpl;
      try (destruct I; assumption).
    + unfold wfree. simpl. perm_count.
    + constructor; auto.
    + constructor; [|constructor]. apply Chain_push; auto. constructor.
    + eapply lchains_ext; [destruct I; eassumption|]. apply sset_frame; auto.
    + lia.
  - inversion SC as [|? f1 ? frest C1 Cr]; subst. inversion HH; subst. exists ((id :: f1) :: frest).
    assert (~ In id f1) as N3 by (simpl in N1; intro; apply N1; apply in_or_app; left; auto).
    assert (~ In id (concat frest)) as N4 by (simpl in N1; intro; apply N1; apply in_or_app; right; auto).
    eapply inv_free_generic with (id := id); [exact I | exact Hn | | reflexivity | | | | | | ]; simpl;
      try (destruct I; assumption).
    + unfold wfree. simpl. perm_count.
    + constructor; auto.
    + constructor.
      * apply Chain_push; auto.
      * eapply schains_ext; eauto. apply sset_frame; auto.
    + eapply lchains_ext; [destruct I; eassumption|]. apply sset_frame; auto.
    + lia.
Qed.

Lemma free_slot_inv : forall c s t l id,
  AInv c s -> nth_error (th s) t = Some l -> is_node (sget (sl s) id) = true ->
  AInv c (fst (free_slot c good s t l id)).
Proof.
  intros c s t l id (fs & ls & I) H Hn.
  assert (sget (sl s) id = SNode) as Hn' by (destruct (sget (sl s) id); simpl in *; congruence).
  unfold free_slot. cbn [v_ho_drift v_no_reset good].
  destruct (is_this (l_cur l)) eqn:Et.
  - thread_start I H. destruct s as [[fr al cnt g] m th0]. simpl in *. subst th0 ls t.
    destruct (- Z.of_N (chunk c) <? l_delta l - 1)%Z.
    + simpl. rewrite upd_mid. exists fs, (la ++ (id :: x) :: lb). apply free_local_inv; auto.
    + simpl. rewrite upd_mid. exists ((id :: x) :: fs), (la ++ [] :: lb). apply free_handover_inv; auto.
  - destruct s as [[fr al cnt g] m th0]. simpl in *.
    destruct (free_nonlocal_inv c fr al cnt g m th0 fs ls id I Hn') as (fs' & I').
    exists fs', ls. destruct fr; simpl; exact I'.
Qed.

(** ** guard drop and the collector's epilogue *)

Lemma link_range_other : forall c n m i tl j,
  ~ In j (range_ids c i n) -> sget (link_range c m i n tl) j = sget m j.
Proof.
  intros c n. induction n; intros m i tl j Hj; [reflexivity|].
  cbn [link_range]. cbn [range_ids In] in Hj.
  rewrite sget_sset_other by (intro; subst; apply Hj; left; auto).
  apply IHn. intro. apply Hj. right; auto.
Qed.

Lemma link_range_in : forall c n m i tl j,
  In j (range_ids c i n) -> exists nx, sget (link_range c m i n tl) j = SFree nx.
Proof.
  intros c n. induction n; intros m i tl j Hj; [contradiction|].
  cbn [link_range]. cbn [range_ids In] in Hj.
  destruct (N.eq_dec j (i + term c)).
  - subst. rewrite sget_sset_same. eauto.
  - rewrite sget_sset_other by auto. apply IHn. destruct Hj; [congruence | auto].
Qed.

Lemma link_range_chain : forall c n m i tl x,
  1 <= term c -> (1 <= n)%nat -> Chain m tl x ->
  (forall j, In j (range_ids c i n) -> ~ In j x) ->
  Chain (link_range c m i n tl) (i + term c) (range_ids c i n ++ x).
Proof.
  intros c n. induction n; intros m i tl x Ht Hn Cx Hd; [lia|].
  cbn [link_range range_ids app]. destruct n as [|k].
  - simpl. apply Chain_push; auto; [lia|]. apply Hd. left; auto.
  - assert (Chain (link_range c m (i + 1) (S k) tl) (i + 1 + term c) (range_ids c (i + 1) (S k) ++ x)) as IH.
    { apply IHn; auto; [lia|]. intros j Hj. apply Hd. right; auto. }
    replace (i + 1 + term c) with (i + term c + 1) in IH by lia.
    apply Chain_push; auto; [lia|].
    intro Hin. apply in_app_or in Hin. destruct Hin as [Hin | Hin].
    + apply in_range_ids in Hin. lia.
    + apply (Hd (i + term c)); auto. left; auto.
Qed.

(** the thread's list (head [l_next l <> 0]) goes to the shared state, its delta is flushed *)
Lemma push_local_inv : forall c fr al cnt g g' m a l b fs la x lb l',
  AInvW c (mkSt (mkSh fr al cnt g) m (a ++ l :: b)) fs (la ++ x :: lb) ->
  Forall2 (lchainP m) a la -> Forall2 (lchainP m) b lb -> lchainP m l x ->
  Forall (local_ok c (mkSh fr al cnt g)) a -> Forall (local_ok c (mkSh fr al cnt g)) b ->
  is_this (l_cur l) = true -> l_next l <> 0 ->
  lchainP m l' [] -> lrange c l' = lrange c l -> l_delta l' = 0%Z -> local_ok c (mkSh fr al cnt g) l' ->
  AInvW c (mkSt (mkSh (l_next l :: fr) al (cnt + l_delta l)%Z g') m (a ++ l' :: b))
        (x :: fs) (la ++ [] :: lb).
Proof.
  intros c fr al cnt g g' m a l b fs la x lb l' I Fa Fb Px Wa Wb Et Hn Px' Hr Hd Hok.
  unfold lchainP in Px. rewrite Et in Px.
  eapply inv_move_generic; [exact I | | | | | | | | ]; simpl; try (destruct I; assumption); try tauto.
  - unfold wfree. simpl. rewrite !flat_map_app. cbn [flat_map]. rewrite Hr. perm_count.
  - constructor; auto. destruct I; assumption.
  - constructor; auto. destruct I; assumption.
  - apply Forall2_mid; auto.
  - apply Forall_mid.
    + eapply Forall_impl; [|exact Wa]. intros. eapply local_ok_sh; [|eassumption]. reflexivity.
    + eapply local_ok_sh; [|exact Hok]. reflexivity.
    + eapply Forall_impl; [|exact Wb]. intros. eapply local_ok_sh; [|eassumption]. reflexivity.
  - rewrite !sumd_mid. rewrite Hd. lia.
Qed.

(** only the delta is flushed *)
Lemma flush_delta_inv : forall c fr al cnt g g' m a l b fs la x lb l',
  AInvW c (mkSt (mkSh fr al cnt g) m (a ++ l :: b)) fs (la ++ x :: lb) ->
  Forall2 (lchainP m) a la -> Forall2 (lchainP m) b lb ->
  Forall (local_ok c (mkSh fr al cnt g)) a -> Forall (local_ok c (mkSh fr al cnt g)) b ->
  lchainP m l' x -> lrange c l' = lrange c l -> l_delta l' = 0%Z -> local_ok c (mkSh fr al cnt g) l' ->
  AInvW c (mkSt (mkSh fr al (cnt + l_delta l)%Z g') m (a ++ l' :: b)) fs (la ++ x :: lb).
Proof.
  intros c fr al cnt g g' m a l b fs la x lb l' I Fa Fb Wa Wb Px' Hr Hd Hok.
  eapply inv_move_generic; [exact I | | | | | | | | ]; simpl; try (destruct I; assumption); try tauto.
  - unfold wfree. simpl. rewrite !flat_map_app. cbn [flat_map]. rewrite Hr. reflexivity.
  - apply Forall2_mid; auto.
  - apply Forall_mid.
    + eapply Forall_impl; [|exact Wa]. intros. eapply local_ok_sh; [|eassumption]. reflexivity.
    + eapply local_ok_sh; [|exact Hok]. reflexivity.
    + eapply Forall_impl; [|exact Wb]. intros. eapply local_ok_sh; [|eassumption]. reflexivity.
  - rewrite !sumd_mid. rewrite Hd. lia.
Qed.

(** the rest of the thread's chunk is linked in front of its list, everything goes to the shared state *)
Lemma return_range_inv : forall c fr al cnt g m a l b fs la x lb,
  AInvW c (mkSt (mkSh fr al cnt g) m (a ++ l :: b)) fs (la ++ x :: lb) ->
  Forall2 (lchainP m) a la -> Forall2 (lchainP m) b lb -> lchainP m l x ->
  Forall (local_ok c (mkSh fr al cnt g)) a -> Forall (local_ok c (mkSh fr al cnt g)) b ->
  is_this (l_cur l) = true -> in_chunk c (l_init l) = true ->
  AInvW c (mkSt (mkSh ((l_init l + term c) :: fr) al (cnt + l_delta l)%Z g)
                (link_range c m (l_init l) (N.to_nat (chunk_end c (l_init l) - l_init l)) (l_next l))
                (a ++ mkL CNone false (l_next l) (l_init l) 0%Z :: b))
        ((lrange c l ++ x) :: fs) (la ++ [] :: lb).
Proof.
  intros c fr al cnt g m a l b fs la x lb I Fa Fb Px Wa Wb Et Hin.
  pose proof (w_chunk _ _ _ _ I) as Hc. pose proof (w_term _ _ _ _ I) as Ht.
  destruct (chunk_step c (l_init l) Hc) as (A & _).
  set (n := N.to_nat (chunk_end c (l_init l) - l_init l)) in *.
  assert (lrange c l = range_ids c (l_init l) n) as ER by (unfold lrange; rewrite Et, Hin; reflexivity).
  unfold lchainP in Px. rewrite Et in Px.
  pose proof (w_nodup _ _ _ _ I) as ND. unfold wfree in ND. simpl in ND.
  rewrite !flat_map_app in ND. cbn [flat_map] in ND. rewrite ER in ND.
  set (m' := link_range c m (l_init l) n (l_next l)).
  assert (forall j, ~ In j (range_ids c (l_init l) n) -> sget m' j = sget m j) as Hoth
    by (intros; apply link_range_other; auto).
  eapply inv_move_generic; [exact I | | | | | | | | ]; simpl; try (destruct I; assumption).
  - unfold wfree. simpl. rewrite !flat_map_app. cbn [flat_map]. rewrite ER.
    rewrite (lrange_not_this c (mkL CNone false (l_next l) (l_init l) 0%Z)) by reflexivity. perm_count.
  - intros j. destruct (in_dec N.eq_dec j (range_ids c (l_init l) n)) as [Hj | Hj].
    + destruct (link_range_in c n m (l_init l) (l_next l) j Hj) as (nx & E). fold m' in E. rewrite E.
      split; [discriminate|]. intros Hn. exfalso.
      assert (in_arr c j) as Hr by (apply (w_nodes _ _ _ _ I); auto).
      apply (proj1 (w_live _ _ _ _ I j Hr) Hn).
      unfold wfree. simpl. rewrite !flat_map_app. cbn [flat_map]. rewrite ER.
      apply in_or_app. right. apply in_or_app. right. apply in_or_app. left.
      apply in_or_app. right. apply in_or_app. left. exact Hj.
    + rewrite (Hoth j Hj). tauto.
  - constructor; [lia | destruct I; assumption].
  - constructor.
    + rewrite ER. apply link_range_chain; auto; [lia|]. intros j Hj. notin_by_count j.
    + eapply schains_ext; [destruct I; eassumption|]. intros j Hj. apply Hoth. notin_by_count j.
  - apply Forall2_mid.
    + eapply lchains_ext; eauto. intros j Hj. apply Hoth. notin_by_count j.
    + reflexivity.
    + eapply lchains_ext; eauto. intros j Hj. apply Hoth. notin_by_count j.
  - apply Forall_mid.
    + eapply Forall_impl; [|exact Wa]. intros. eapply local_ok_sh; [|eassumption]. reflexivity.
    + split; [|split]; simpl; intros; auto; congruence.
    + eapply Forall_impl; [|exact Wb]. intros. eapply local_ok_sh; [|eassumption]. reflexivity.
  - rewrite !sumd_mid. simpl. lia.
Qed.

Lemma drop_guard_inv : forall c s t l,
  AInv c s -> nth_error (th s) t = Some l -> l_guard l && is_this (l_cur l) = true ->
  AInv c (fst (drop_guard c good s t l)).
Proof.
  intros c s t l (fs & ls & I) H Hg. apply andb_prop in Hg. destruct Hg as [Hgu Et].
  thread_start I H. destruct s as [[fr al cnt g] m th0]. simpl in *. subst th0 ls t.
  pose proof (w_term _ _ _ _ I) as Ht.
  unfold drop_guard. cbn [v_tail_zero good sh sl th s_free s_alloc s_count s_gc].
  destruct (negb (l_next l =? 0) || in_chunk c (l_init l) || negb (l_delta l =? 0)%Z) eqn:Econd.
  - destruct (in_chunk c (l_init l)) eqn:Hin.
    + (* the rest of the chunk is returned *)
      destruct (N.eqb_spec (l_init l + term c) 0) as [E0 | E0]; [lia|].
      simpl. rewrite upd_mid.
      exists ((lrange c l ++ x) :: fs), (la ++ [] :: lb). apply return_range_inv; auto.
    + destruct (N.eqb_spec (l_next l) 0) as [E0 | E0].
      * simpl. rewrite upd_mid. exists fs, (la ++ x :: lb).
        eapply (flush_delta_inv c fr al cnt g g m a l b); eauto.
        -- unfold lchainP in *. simpl. rewrite Et, E0 in Px. apply Chain_zero in Px. auto.
        -- rewrite (lrange_not_chunk c l Hin). apply lrange_not_this. reflexivity.
        -- split; [|split]; simpl; intros; auto; congruence.
      * simpl. rewrite upd_mid. exists (x :: fs), (la ++ [] :: lb).
        eapply (push_local_inv c fr al cnt g g m a l b); eauto.
        -- reflexivity.
        -- rewrite (lrange_not_chunk c l Hin). apply lrange_not_this. reflexivity.
        -- split; [|split]; simpl; intros; auto; congruence.
  - apply orb_false_iff in Econd. destruct Econd as [E1 E3].
    apply orb_false_iff in E1. destruct E1 as [E1 E2].
    apply negb_false_iff in E1. apply N.eqb_eq in E1.
    apply negb_false_iff in E3. apply Z.eqb_eq in E3.
    unfold set_th. simpl. rewrite upd_mid. exists fs, (la ++ x :: lb).
    eapply inv_local_change; eauto.
    + unfold lchainP in *. simpl. rewrite Et, E1 in Px. apply Chain_zero in Px. auto.
    + rewrite (lrange_not_chunk c l E2). apply lrange_not_this. reflexivity.
    + split; [|split]; simpl; intros; auto; congruence.
Qed.

Lemma gc_flush_inv : forall c s t l,
  AInv c s -> nth_error (th s) t = Some l -> is_this (l_cur l) && negb (l_guard l) = true ->
  AInv c (fst (gc_flush c s t l)).
Proof.
  intros c s t l (fs & ls & I) H Hg. apply andb_prop in Hg. destruct Hg as [Et Hgu].
  thread_start I H. destruct s as [[fr al cnt g] m th0]. simpl in *. subst th0 ls t.
  unfold gc_flush. cbn [sh sl th s_free s_alloc s_count s_gc].
  destruct (N.eqb_spec (l_next l) 0) as [E0 | E0]; cbn [negb].
  - simpl. rewrite upd_mid. exists fs, (la ++ x :: lb).
    eapply inv_move_generic; [exact I | | | | | | | | ]; simpl; try (destruct I; assumption); try tauto.
    reflexivity.
  - simpl. rewrite upd_mid. exists (x :: fs), (la ++ [] :: lb).
    eapply (push_local_inv c fr al cnt g _ m a l b); eauto.
    + unfold lchainP. simpl. rewrite Et. constructor.
    + destruct Wl as (W1 & W2 & W3). split; [|split]; simpl in *; auto.
Qed.

(** ** every action, every schedule *)

Theorem step_inv : forall c s a s' o,
  AInv c s -> step c good s a = Some (s', o) -> AInv c s'.
Proof.
  intros c s a s' o I H. destruct a; simpl in H.
  - inversion H; subst. apply spawn_inv; auto.
  - destruct (nth_error (th s) t) eqn:E; [|discriminate]. inversion H.
    pose proof (prepare_inv c s t l I E) as P. rewrite H1 in P. exact P.
  - destruct (nth_error (th s) t) eqn:E; [|discriminate].
    destruct (l_guard l && is_this (l_cur l)) eqn:G; [|discriminate]. inversion H.
    pose proof (drop_guard_inv c s t l I E G) as P. rewrite H1 in P. exact P.
  - destruct (nth_error (th s) t) eqn:E; [|discriminate].
    match type of H with (if ?b then _ else _) = _ => destruct b eqn:G end; [|discriminate].
    inversion H; subst. eapply bind_inv; eauto.
  - destruct (nth_error (th s) t) eqn:E; [|discriminate].
    destruct (is_none (l_cur l)) eqn:G; [|discriminate]. inversion H; subst. apply other_enter_inv; auto.
  - destruct (nth_error (th s) t) eqn:E; [|discriminate].
    destruct (is_other (l_cur l)) eqn:G; [|discriminate]. inversion H; subst. apply other_leave_inv; auto.
  - destruct (nth_error (th s) t) eqn:E; [|discriminate]. eapply add_node_inv; eauto.
  - destruct (nth_error (th s) t) eqn:E; [|discriminate].
    destruct (is_node (sget (sl s) id)) eqn:G; [|discriminate]. inversion H.
    pose proof (free_slot_inv c s t l id I E G) as P. rewrite H1 in P. exact P.
  - destruct (nth_error (th s) t) eqn:E; [|discriminate].
    destruct (is_this (l_cur l) && negb (l_guard l)) eqn:G; [|discriminate]. inversion H.
    pose proof (gc_flush_inv c s t l I E G) as P. rewrite H1 in P. exact P.
Qed.

Theorem run_inv : forall c sched s s' os,
  AInv c s -> run c good s sched = Some (s', os) -> AInv c s'.
Proof.
  intros c sched. induction sched as [|a r IH]; intros s s' os I H; simpl in H.
  - inversion H; subst. exact I.
  - destruct (step c good s a) as [[s1 o]|] eqn:E; [|discriminate].
    destruct (run c good s1 r) as [[s2 os2]|] eqn:E2; [|discriminate]. inversion H; subst.
    eapply IH; [|eassumption]. eapply step_inv; eauto.
Qed.

Theorem init_inv : forall c n, 1 <= chunk c -> 1 <= term c -> AInv c (init c n).
Proof.
  intros c n Hc Ht. exists [], (repeat [] n). unfold init.
  assert (flat_map (lrange c) (repeat lfresh n) = []) as ER.
  { induction n; simpl; auto. }
  assert (concat (repeat ([] : list N) n) = []) as EC.
  { induction n; simpl; auto. }
  constructor; simpl; auto; try lia.
  - induction n; simpl; constructor; auto. reflexivity.
  - induction n; simpl; constructor; auto. repeat split; simpl; intros; auto; congruence.
  - unfold wfree. simpl. rewrite EC, ER. simpl. apply range_ids_nodup.
  - unfold wfree. simpl. rewrite EC, ER. simpl. intros id Hi. unfold unalloc in Hi.
    apply in_range_ids in Hi. unfold in_arr. lia.
  - intros id. rewrite sget_empty. discriminate.
  - intros id Hr. rewrite sget_empty. split; [discriminate|]. intros Hn. exfalso. apply Hn.
    unfold wfree. simpl. rewrite EC, ER. simpl. unfold unalloc. apply in_range_ids. unfold in_arr in Hr. lia.
  - rewrite sumd_repeat_fresh. unfold nlive, live_slots. simpl.
    assert (filter (fun id => is_node (sget (PositiveMap.empty slot) id)) (ids c) = []) as EF.
    { induction (ids c); simpl; auto. rewrite sget_empty. simpl. auto. }
    rewrite EF. reflexivity.
Qed.
