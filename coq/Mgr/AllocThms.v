(** * ALLOC — the theorems of coq/Mgr/AllocProofs.v for every state that is reachable from a new
      manager under ANY interleaving of the threads' actions *)

From Coq Require Import List NArith ZArith PArith Bool Arith Lia Permutation.
From OxiVerif Require Import Mgr.Alloc Mgr.AllocBase Mgr.AllocInv Mgr.AllocStep Mgr.AllocProofs.
Import ListNotations.
Local Open Scope N_scope.

(** a state of the store after any schedule of any number of threads ([ASpawn] adds threads) *)
Definition reachable (c : cfg) (s : st) : Prop :=
  exists n sched os, 1 <= chunk c /\ 1 <= term c /\ run c good (init c n) sched = Some (s, os).

Lemma reachable_inv : forall c s, reachable c s -> AInv c s.
Proof.
  intros c s (n & sched & os & Hc & Ht & H). eapply run_inv; [|exact H]. apply init_inv; auto.
Qed.

Lemma run_app : forall c v a b s s1 o1 s2 o2,
  run c v s a = Some (s1, o1) -> run c v s1 b = Some (s2, o2) -> run c v s (a ++ b) = Some (s2, o1 ++ o2).
Proof.
  intros c v a. induction a as [|x a IH]; intros b s s1 o1 s2 o2 H1 H2; simpl in *.
  - inversion H1; subst. exact H2.
  - destruct (step c v s x) as [[s' o]|]; [|discriminate].
    destruct (run c v s' a) as [[s'' os]|] eqn:E; [|discriminate]. inversion H1; subst.
    rewrite (IH b s' s1 os s2 o2 E H2). reflexivity.
Qed.

Lemma reachable_init : forall c n, 1 <= chunk c -> 1 <= term c -> reachable c (init c n).
Proof. intros. exists n, [], []. auto. Qed.

Lemma reachable_step : forall c s a s' o, reachable c s -> step c good s a = Some (s', o) -> reachable c s'.
Proof.
  intros c s a s' o (n & sched & os & Hc & Ht & H) G. exists n, (sched ++ [a]), (os ++ [o]).
  repeat split; auto. eapply run_app; eauto. simpl. rewrite G. reflexivity.
Qed.

Lemma reachable_run : forall c sched s s' os, reachable c s -> run c good s sched = Some (s', os) -> reachable c s'.
Proof.
  intros c sched. induction sched as [|a r IH]; intros s s' os R H; simpl in H.
  - inversion H; subst. exact R.
  - destruct (step c good s a) as [[s1 o]|] eqn:E; [|discriminate].
    destruct (run c good s1 r) as [[s2 os2]|] eqn:E2; [|discriminate]. inversion H; subst.
    eapply IH; [|exact E2]. eapply reachable_step; eauto.
Qed.

(** (a) the partition of the slot array *)
Theorem r_partition : forall c s, reachable c s ->
  NoDup (live_slots c s ++ shared_slots c s ++ local_slots c s ++ range_slots c s ++ unalloc_slots c s) /\
  Permutation (live_slots c s ++ shared_slots c s ++ local_slots c s ++ range_slots c s ++ unalloc_slots c s)
              (ids c).
Proof. intros. apply partition. apply reachable_inv. auto. Qed.

(** (a) the slot handed out: inside the array, in exactly one free list / range before, not live
    before; live and in no list or range afterwards *)
Theorem r_alloc_safe : forall c s t s' id p, reachable c s ->
  step c good s (AAlloc t) = Some (s', OAlloc (Some id) p) ->
  (term c <= id < term c + cap c) /\ In id (free_slots c s) /\ ~ In id (live_slots c s) /\
  In id (live_slots c s') /\ ~ In id (free_slots c s').
Proof.
  intros c s t s' id p R H. destruct (alloc_safe _ _ _ _ _ _ (reachable_inv _ _ R) H) as (A & B & C & D & E & _).
  repeat split; auto; apply A.
Qed.

(** (a) where it comes from, by path *)
Theorem r_alloc_source : forall c s t l s' id p, reachable c s -> nth_error (th s) t = Some l ->
  step c good s (AAlloc t) = Some (s', OAlloc (Some id) p) ->
  match p with
  | PLocalList => exists r, lchain c (sl s) l = id :: r
  | PLocalRange => exists r, lrange c l = id :: r
  | PSharedList | PNonLocalList =>
    exists h rest r, s_free (sh s) = h :: rest /\ chainl (fuel c) (sl s) h = id :: r
  | PSharedChunk | PSharedBump | PNonLocalBump => exists r, unalloc_slots c s = id :: r
  | POom => False
  end.
Proof.
  intros c s t l s' id p R H G. simpl in G. rewrite H in G.
  eapply alloc_source; eauto. apply reachable_inv; auto.
Qed.

(** (a) never handed out twice *)
Theorem r_no_double_handout : forall c sched s s' os id, reachable c s ->
  In id (live_slots c s) -> run c good s sched = Some (s', os) -> frees_slot sched id = false ->
  In id (live_slots c s') /\ forall p, ~ In (OAlloc (Some id) p) os.
Proof. intros. eapply no_double_handout; eauto. apply reachable_inv; auto. Qed.

(** `add_node` is never stuck (no list head that is not a free slot) *)
Theorem r_alloc_enabled : forall c s t, reachable c s -> (t < length (th s))%nat ->
  exists s' o, step c good s (AAlloc t) = Some (s', o).
Proof. intros. apply alloc_enabled; auto. apply reachable_inv; auto. Qed.

Theorem r_chains_ok : forall c s, reachable c s ->
  Forall (fun h => h <> 0 /\ chain_ok (fuel c) (sl s) h = true) (s_free (sh s)) /\
  Forall (fun l => is_this (l_cur l) = true -> chain_ok (fuel c) (sl s) (l_next l) = true) (th s).
Proof. intros. apply chains_ok. apply reachable_inv; auto. Qed.

(** (d) node count bookkeeping *)
Theorem r_count_exact : forall c s, reachable c s ->
  (s_count (sh s) + sum_delta s)%Z = Z.of_nat (nlive c s).
Proof. intros. apply count_exact. apply reachable_inv; auto. Qed.

(** the number that `get_slot_from_shared` compares with the high-water mark (the shared count
    after its update) is the number of live slots, the new node included, minus the OTHER threads'
    pending deltas *)
Theorem r_trigger_count : forall c s t l s' id p, reachable c s -> nth_error (th s) t = Some l ->
  step c good s (AAlloc t) = Some (s', OAlloc (Some id) p) ->
  match p with PLocalList | PLocalRange => True | _ =>
    (s_count (sh s') = Z.of_nat (nlive c s') - (sum_delta s - l_delta l))%Z
  end.
Proof.
  intros c s t l s' id p R H G.
  pose proof (r_count_exact c s' (reachable_step _ _ _ _ _ R G)) as C'.
  assert (is_this (l_cur l) = false -> l_delta l = 0%Z) as Hd.
  { intros Et. destruct (reachable_inv _ _ R) as (fs & ls & I).
    pose proof (w_locals _ _ _ _ I) as W. rewrite Forall_forall in W.
    destruct (W l (nth_error_In _ _ H)) as (_ & W2 & _). apply W2. apply not_this_is; auto. }
  simpl in G. rewrite H in G. unfold add_node, get_slot_from_shared in G.
  cbn [v_oom_drift v_take_all v_cap_first good negb andb orb l_cur l_guard l_next l_init l_delta] in G.
  rewrite sum_delta_sumd in *.
  destruct (is_this (l_cur l)) eqn:Et; [|specialize (Hd eq_refl)];
  split_ifs G; inversion G; subst; auto; simpl in *;
    rewrite (sumd_upd _ _ l _ H) in C'; simpl in C'; lia.
Qed.

(** (b) no leak *)
Theorem r_free_count : forall c s, reachable c s ->
  (nlive c s + length (free_slots c s))%nat = N.to_nat (cap c).
Proof. intros. apply free_count. apply reachable_inv; auto. Qed.

Theorem r_quiescent_no_leak : forall c s, reachable c s ->
  (forall t l, nth_error (th s) t = Some l -> holds_nothing c l) ->
  free_slots c s = shared_slots c s ++ unalloc_slots c s /\
  (nlive c s + length (shared_slots c s) + length (unalloc_slots c s))%nat = N.to_nat (cap c).
Proof. intros. apply quiescent_no_leak; auto. apply reachable_inv; auto. Qed.

Theorem r_quiescent_count : forall c s, reachable c s ->
  (forall t l, nth_error (th s) t = Some l -> is_this (l_cur l) = false) ->
  s_count (sh s) = Z.of_nat (nlive c s).
Proof. intros. apply quiescent_count; auto. apply reachable_inv; auto. Qed.

(** (b) the capacity probe; with [nlive c s = 0] (everything dropped and collected): every slot
    can be allocated again *)
Theorem r_capacity_probe : forall c k s t l, reachable c s -> nth_error (th s) t = Some l ->
  others_idle_p c s t -> (nlive c s + k = N.to_nat (cap c))%nat ->
  exists s' ids, allocs c s t k = Some (s', ids) /\ length ids = k /\ reachable c s' /\
    nlive c s' = N.to_nat (cap c) /\
    exists s'', step c good s' (AAlloc t) = Some (s'', OAlloc None POom).
Proof.
  intros c k s t l R H Ho Hk.
  destruct (capacity_probe c k s t l (reachable_inv _ _ R) H Ho Hk) as (s' & ids & A & L & _ & N' & O).
  exists s', ids. repeat split; auto.
  clear - R A. revert s s' ids R A. induction k; intros s s' ids R A; cbn [allocs] in A.
  - inversion A; subst. auto.
  - destruct (step c good s (AAlloc t)) as [[s1 o]|] eqn:E; [|discriminate].
    destruct o as [| | [id|] p | | |]; try discriminate.
    destruct (allocs c s1 t k) as [[s2 ids2]|] eqn:E2; [|discriminate]. inversion A; subst.
    eapply IHk; [|exact E2]. eapply reachable_step; eauto.
Qed.

(** (c) out of memory *)
Theorem r_oom_iff : forall c s t l, reachable c s -> nth_error (th s) t = Some l ->
  ((exists s' p, step c good s (AAlloc t) = Some (s', OAlloc None p)) <->
   (shared_slots c s = [] /\ unalloc_slots c s = [] /\ thread_slots c s t = [])).
Proof. intros. eapply oom_iff; eauto. apply reachable_inv; auto. Qed.

Theorem r_oom_only_parked : forall c s t s' p, reachable c s ->
  step c good s (AAlloc t) = Some (s', OAlloc None p) ->
  p = POom /\ sl s' = sl s /\
  forall id, In id (free_slots c s) -> exists u, u <> t /\ In id (thread_slots c s u).
Proof. intros. apply oom_only_parked; auto. apply reachable_inv; auto. Qed.

Theorem r_oom_single : forall c s t l, reachable c s -> nth_error (th s) t = Some l -> others_idle_p c s t ->
  ((exists s' p, step c good s (AAlloc t) = Some (s', OAlloc None p)) <-> nlive c s = N.to_nat (cap c)).
Proof. intros. eapply oom_single; eauto. apply reachable_inv; auto. Qed.

(** the executable [others_idle] decides [others_idle_p] *)
Lemma others_idle_spec : forall c s t, others_idle c s t = true -> others_idle_p c s t.
Proof.
  intros c s t H u l Hu E Et. unfold others_idle in H. rewrite forallb_forall in H.
  assert (In (u, l) (combine (seq 0 (length (th s))) (th s))) as Hin.
  { clear - E. assert (forall k, In (k + u, l)%nat (combine (seq k (length (th s))) (th s))) as G.
    { revert u E. induction (th s) as [|x r IH]; intros u E k; destruct u; simpl in *; try discriminate.
      - inversion E; subst. left. f_equal. lia.
      - right. replace (k + S u)%nat with (S k + u)%nat by lia. apply IH. auto. }
    apply (G 0%nat). }
  specialize (H _ Hin). simpl in H.
  destruct (Nat.eqb_spec u t); [contradiction|]. simpl in H. rewrite Et in H. simpl in H.
  apply andb_prop in H. destruct H as [A B]. apply N.eqb_eq in A. apply negb_true_iff in B. auto.
Qed.

(** (c) once a slot is free and no OTHER thread holds slots, `add_node` succeeds *)
Theorem r_alloc_succeeds : forall c s t l, reachable c s -> nth_error (th s) t = Some l ->
  others_idle_p c s t -> (nlive c s < N.to_nat (cap c))%nat ->
  exists s' id p, step c good s (AAlloc t) = Some (s', OAlloc (Some id) p).
Proof.
  intros c s t l R H Ho Hn.
  destruct (r_alloc_enabled c s t R) as (s' & o & G).
  { apply nth_error_Some. congruence. }
  destruct o as [| | [id|] p | | |]; try (simpl in G; rewrite H in G; exfalso;
    unfold add_node, get_slot_from_shared in G; split_ifs G; inversion G; fail).
  - eauto.
  - exfalso. assert (nlive c s = N.to_nat (cap c)); [|lia].
    apply (proj1 (r_oom_single c s t l R H Ho)). eauto.
Qed.
