(** * C07 — interleaving model of the concurrent unique table and of the
      reference counts (executable definitions only, no proofs)

    Mirrors /repo/crates/oxidd-manager-index/src/manager.rs
    (the text of /repo/crates/oxidd-manager-pointer/src/manager.rs is analogous):

      [step _ (AGoi ..)]     `LevelViewSet::get_or_insert` (called through
                             `LevelView::get_or_insert` with the level mutex held):
                             `find_or_find_insert_slot` = [find_shape];
                             found:     `drop(node)` = `node.drop_with(|e| store.drop_edge(e))`
                                        = [dec_children], then `clone_edge_unchecked` of the
                                        table's edge = [rc_inc];
                             not found: `Store::add_node` writes the node with rc 2 (= the
                                        table's edge + the returned edge; the API reports
                                        rc - 1 = 1 = [crc]) into the slot handed out by the
                                        allocator ([fresh]) and the table's edge is inserted
                                        (`insert_in_slot_unchecked`); the children's edges are
                                        moved into the node, their counts do not change.
      [step _ (ARetain ..)]  `Store::clone_edge`  (atomic rc + 1) of an edge the thread can
                             borrow: an edge owned by some thread or a child edge of a node
                             reachable from one ([can_borrow_b]; the recursion of the apply
                             algorithms clones `Borrowed` children of its operands, the
                             workers of the parallel recursion borrow from the joining thread)
      [step _ (ARelease ..)] `Store::drop_edge`   (atomic rc - 1)
      [step _ (AMove ..)]    an `Edge`/`Function` value is handed to another thread
                             (join of the parallel recursion, channel, ...): no memory access
      [step _ (ANot ..)]     BCDD only: complementing an owned edge flips the tag bit of the
                             edge value (`not_owned`), no memory access
      [step _ (AGcNode id)]  one iteration of `retain` in `LevelViewSet::gc` (level mutex
                             held by the collector): the entry is dropped iff
                             `load_rc(Acquire) == 1`, i.e. API count [crc] = 0; then
                             `Store::free_slot` = `node.drop_with(|e| store.drop_edge(e))`
                             = [dec_children] and the slot is returned to the allocator.

    One [act] is one atomic action: the level mutex makes `get_or_insert` and the
    collector's test-and-remove atomic w.r.t. each other on one level, and the
    reference-count updates are atomic read-modify-write operations.  The hooks of the
    harness yield exactly between such actions (DESIGN.md section 5, C07 "R").

    [crc] is the reference count as REPORTED by the API (`InnerNode::ref_count`), i.e.
    the unique table's own reference is excluded; the implementation's stored value is
    [crc + 1].

    Not in the model (trusted base, see notes/C07-coq.md): the slot allocator
    (thread-local free lists; it only has to hand out a slot that is not in use:
    [fresh] is an argument of the action and the action is disabled if the slot is in
    use), hashing inside the level's table (abstracted to "first entry with equal level
    and children"), memory ordering below the atomic actions, the apply cache. *)

From Coq Require Import List NArith PArith Bool Arith FMapPositive.
From OxiVerif Require Import DD.Table.
Import ListNotations.

(** reference count [crc]: as reported by the API (table's reference excluded) *)
Record cnode := mkC { cl : nat; cch : list edge; crc : N }.

(** association list; keys pairwise distinct (part of the invariant) *)
Definition ctable := list (positive * cnode).

(** [cown]: multiset of the edges OWNED by the threads, (thread id, edge) *)
Record cst := mkCst { cn : ctable; cown : list (nat * edge) }.

Definition cempty : cst := mkCst [] [].

Inductive act :=
| AGoi (tid lvl : nat) (ch : list edge) (fresh : positive)
| ARetain (tid : nat) (e : edge)
| ARelease (tid : nat) (e : edge)
| AMove (tid tid' : nat) (e : edge)
| AGcNode (id : positive)
| ANot (tid : nat) (e : edge).

(** table-only actions (what the implementation's log contains) *)
Inductive tact :=
| TGoi (lvl : nat) (ch : list edge) (fresh : positive)
| TGc (id : positive).

Definition erase (a : act) : option tact :=
  match a with
  | AGoi _ lvl ch fresh => Some (TGoi lvl ch fresh)
  | AGcNode id => Some (TGc id)
  | _ => None
  end.

Definition set_rc (nd : cnode) (x : N) : cnode := mkC (cl nd) (cch nd) x.

(** slot lookup: the node stored under [id] *)
Fixpoint cfind (t : ctable) (id : positive) : option cnode :=
  match t with
  | [] => None
  | (i, nd) :: r => if Pos.eqb i id then Some nd else cfind r id
  end.

(** atomic read-modify-write of the count of node [id] (`retain` / `release`) *)
Fixpoint rc_upd (f : N -> N) (id : positive) (t : ctable) : ctable :=
  match t with
  | [] => []
  | (i, nd) :: r =>
    if Pos.eqb i id then (i, set_rc nd (f (crc nd))) :: r else (i, nd) :: rc_upd f id r
  end.

Definition rc_inc := rc_upd N.succ.
Definition rc_dec := rc_upd N.pred.

(** `Store::drop_edge`: terminals are not counted in this model *)
Definition dec_ref (t : ctable) (r : ref) : ctable :=
  match r with
  | RN id => rc_dec id t
  | RT _ => t
  end.

(** `node.drop_with(|e| store.drop_edge(e))` *)
Fixpoint dec_children (t : ctable) (ch : list edge) : ctable :=
  match ch with
  | [] => t
  | e :: r => dec_children (dec_ref t (eref e)) r
  end.

(** removal of the entry of [id] from its level's table *)
Fixpoint cremove (id : positive) (t : ctable) : ctable :=
  match t with
  | [] => []
  | (i, nd) :: r => if Pos.eqb i id then r else (i, nd) :: cremove id r
  end.

(** forget the counts *)
Definition cn_shape (t : ctable) : ctable := map (fun p => (fst p, set_rc (snd p) 0%N)) t.

(** ** counting owners *)

Definition points_to (id : positive) (e : edge) : bool :=
  match eref e with
  | RN j => Pos.eqb j id
  | RT _ => false
  end.

(** number of edges of [ch] that point to the inner node [id] *)
Fixpoint cnt (id : positive) (ch : list edge) : nat :=
  match ch with
  | [] => 0
  | e :: r => (if points_to id e then 1 else 0) + cnt id r
  end.

(** number of tokens (of any thread) whose edge points to [id] *)
Definition owners (own : list (nat * edge)) (id : positive) : nat := cnt id (map snd own).

(** number of child edges of stored nodes that point to [id] *)
Fixpoint parents (t : ctable) (id : positive) : nat :=
  match t with
  | [] => 0
  | (_, nd) :: r => cnt id (cch nd) + parents r id
  end.

Definition has_parent_b (t : ctable) (id : positive) : bool :=
  existsb (fun p => existsb (points_to id) (cch (snd p))) t.

(** ** ownership tokens *)

Definition tok_eqb (a b : nat * edge) : bool :=
  Nat.eqb (fst a) (fst b) && edge_eqb (snd a) (snd b).

Definition owns_b (own : list (nat * edge)) (x : nat * edge) : bool := existsb (tok_eqb x) own.

(** remove one occurrence of the token *)
Fixpoint take_tok (x : nat * edge) (own : list (nat * edge)) : option (list (nat * edge)) :=
  match own with
  | [] => None
  | y :: r =>
    if tok_eqb x y then Some r
    else match take_tok x r with Some r' => Some (y :: r') | None => None end
  end.

(** one token per INNER child edge (terminal edges are not tracked) *)
Fixpoint take_toks (tid : nat) (ch : list edge) (own : list (nat * edge)) : option (list (nat * edge)) :=
  match ch with
  | [] => Some own
  | e :: r =>
    match eref e with
    | RT _ => take_toks tid r own
    | RN _ =>
      match take_tok (tid, e) own with
      | None => None
      | Some own' => take_toks tid r own'
      end
    end
  end.

(** [e] is [root] itself or a child edge of a node reachable from [root]
    (what `Borrowed<Edge>` values derived from an owned edge can be) *)
Fixpoint borrow_b (t : ctable) (fuel : nat) (root e : edge) : bool :=
  edge_eqb root e ||
  match fuel with
  | O => false
  | S f =>
    match eref root with
    | RT _ => false
    | RN id =>
      match cfind t id with
      | Some nd => existsb (fun x => borrow_b t f x e) (cch nd)
      | None => false
      end
    end
  end.

Section Model.
Variable k : kind.
Variable terms : list (N * N).     (* static terminal table: id |-> value code *)
Variable nl : nat.                 (* number of levels *)

(** level of a reference; terminals (and missing nodes) sit below all levels *)
Definition crlevel (t : ctable) (r : ref) : nat :=
  match r with
  | RT _ => nl
  | RN id => match cfind t id with Some nd => cl nd | None => nl end
  end.

Definition cref_ok_b (t : ctable) (r : ref) : bool :=
  match r with
  | RT x => match assoc_N terms x with Some _ => true | None => false end
  | RN id => match cfind t id with Some _ => true | None => false end
  end.

Definition cis_term_with (r : ref) (v : N) : bool :=
  match r with
  | RT x => match assoc_N terms x with Some w => N.eqb v w | None => false end
  | RN _ => false
  end.

(** the three reduction rules, exactly as [reduced_b] of DD/Table.v *)
Definition creduced_b (ch : list edge) : bool :=
  match k with
  | KZbdd => match ch with hi :: _ => negb (cis_term_with (eref hi) 0) | [] => false end
  | KBcdd => negb (all_equal ch) && match ch with t :: _ => negb (etag t) | [] => false end
  | _ => negb (all_equal ch)
  end.

Definition ctags_ok_b (ch : list edge) : bool :=
  match k with
  | KBcdd => true
  | _ => forallb (fun e => negb (etag e)) ch
  end.

(** what the caller of `get_or_insert` guarantees (`reduce` of the rules crate has
    applied the reduction rule; the children are existing nodes below [lvl]) *)
Definition node_pre_b (t : ctable) (lvl : nat) (ch : list edge) : bool :=
  Nat.eqb (length ch) (arity k)
  && Nat.ltb lvl nl
  && forallb (fun e => cref_ok_b t (eref e) && Nat.ltb lvl (crlevel t (eref e))) ch
  && creduced_b ch
  && ctags_ok_b ch.

(** an edge value a thread may hold *)
Definition edge_ok_b (t : ctable) (e : edge) : bool :=
  cref_ok_b t (eref e) && match k with KBcdd => true | _ => negb (etag e) end.

(** unique-table lookup: first id with that level and children
    (`find_or_find_insert_slot` with `LevelViewSet::eq`) *)
Fixpoint find_shape (t : ctable) (lvl : nat) (ch : list edge) : option positive :=
  match t with
  | [] => None
  | (i, nd) :: r =>
    if Nat.eqb (cl nd) lvl && edges_eqb (cch nd) ch then Some i else find_shape r lvl ch
  end.

(** some thread owns an edge from which [e] can be borrowed (fuel [nl]: levels strictly
    increase along child edges) *)
Definition can_borrow_b (s : cst) (e : edge) : bool :=
  existsb (fun o => borrow_b (cn s) nl (snd o) e) (cown s).

Definition is_bcdd : bool := match k with KBcdd => true | _ => false end.

(** one atomic action; [None] = not enabled *)
Definition step (s : cst) (a : act) : option (cst * option positive) :=
  match a with
  | AGoi tid lvl ch fresh =>
    if node_pre_b (cn s) lvl ch then
      match take_toks tid ch (cown s) with
      | None => None
      | Some own1 =>
        match find_shape (cn s) lvl ch with
        | Some id =>
          Some (mkCst (rc_inc id (dec_children (cn s) ch))
                      ((tid, mkEdge (RN id) false) :: own1), Some id)
        | None =>
          match cfind (cn s) fresh with
          | Some _ => None
          | None =>
            Some (mkCst ((fresh, mkC lvl ch 1%N) :: cn s)
                        ((tid, mkEdge (RN fresh) false) :: own1), Some fresh)
          end
        end
      end
    else None
  | ARetain tid e =>
    match eref e with
    | RT _ => if cref_ok_b (cn s) (eref e) then Some (s, None) else None
    | RN id =>
      if can_borrow_b s e
      then Some (mkCst (rc_inc id (cn s)) ((tid, e) :: cown s), None)
      else None
    end
  | ARelease tid e =>
    match eref e with
    | RT _ => if cref_ok_b (cn s) (eref e) then Some (s, None) else None
    | RN id =>
      match take_tok (tid, e) (cown s) with
      | None => None
      | Some own' => Some (mkCst (rc_dec id (cn s)) own', None)
      end
    end
  | AMove tid tid' e =>
    match eref e with
    | RT _ => if cref_ok_b (cn s) (eref e) then Some (s, None) else None
    | RN _ =>
      match take_tok (tid, e) (cown s) with
      | None => None
      | Some own' => Some (mkCst (cn s) ((tid', e) :: own'), None)
      end
    end
  | ANot tid e =>
    if is_bcdd then
      match eref e with
      | RT _ => if cref_ok_b (cn s) (eref e) then Some (s, None) else None
      | RN _ =>
        match take_tok (tid, e) (cown s) with
        | None => None
        | Some own' => Some (mkCst (cn s) ((tid, mkEdge (eref e) (negb (etag e))) :: own'), None)
        end
      end
    else None
  | AGcNode id =>
    match cfind (cn s) id with
    | None => None
    | Some nd =>
      if N.eqb (crc nd) 0
      then Some (mkCst (dec_children (cremove id (cn s)) (cch nd)) (cown s), None)
      else None
    end
  end.

(** a schedule = any list of actions of any threads; [None] as soon as one action is
    not enabled *)
Fixpoint run (s : cst) (sched : list act) : option cst :=
  match sched with
  | [] => Some s
  | a :: r =>
    match step s a with
    | None => None
    | Some (s', _) => run s' r
    end
  end.

(** the same, collecting the results of the actions *)
Fixpoint run_results (s : cst) (sched : list act) : option (cst * list (option positive)) :=
  match sched with
  | [] => Some (s, [])
  | a :: r =>
    match step s a with
    | None => None
    | Some (s', res) =>
      match run_results s' r with
      | None => None
      | Some (s'', l) => Some (s'', res :: l)
      end
    end
  end.

(** table-only projection used to replay the implementation's log: no ownership or
    count preconditions and no count updates (a new node gets count 0) *)
Definition step_tbl (t : ctable) (a : tact) : option (ctable * option positive) :=
  match a with
  | TGoi lvl ch fresh =>
    if node_pre_b t lvl ch then
      match find_shape t lvl ch with
      | Some id => Some (t, Some id)
      | None =>
        match cfind t fresh with
        | Some _ => None
        | None => Some ((fresh, mkC lvl ch 0%N) :: t, Some fresh)
        end
      end
    else None
  | TGc id =>
    match cfind t id with
    | None => None
    | Some _ => if has_parent_b t id then None else Some (cremove id t, None)
    end
  end.

Fixpoint run_tbl (t : ctable) (l : list tact) : option ctable :=
  match l with
  | [] => Some t
  | a :: r =>
    match step_tbl t a with
    | None => None
    | Some (t', _) => run_tbl t' r
    end
  end.

(** ** count-tracking projection

    Between [step] and [step_tbl]: the table WITH its reference counts but without the
    ownership tokens.  Usable to replay a log that records, per event, the node whose
    count is incremented / decremented (`retain` / `release`), so that the counts of
    the implementation can be compared after every event.  Extra guards (an
    implementation that violates them has a reference-count bug): a decrement never
    meets a count of 0, the collector only frees count 0. *)

Inductive ract :=
| RGoi (lvl : nat) (ch : list edge) (fresh : positive)
| RInc (id : positive)
| RDec (id : positive)
| RGc (id : positive).

Definition erase_rc (a : act) : option ract :=
  match a with
  | AGoi _ lvl ch fresh => Some (RGoi lvl ch fresh)
  | ARetain _ e => match eref e with RN id => Some (RInc id) | RT _ => None end
  | ARelease _ e => match eref e with RN id => Some (RDec id) | RT _ => None end
  | AGcNode id => Some (RGc id)
  | AMove _ _ _ | ANot _ _ => None
  end.

(** every inner child of [ch] is stored with a count that covers the decrements *)
Definition dec_ok_b (t : ctable) (ch : list edge) : bool :=
  forallb (fun e => match eref e with
                    | RT _ => true
                    | RN id => match cfind t id with
                               | Some nd => N.leb (N.of_nat (cnt id ch)) (crc nd)
                               | None => false
                               end
                    end) ch.

Definition step_rc (t : ctable) (a : ract) : option (ctable * option positive) :=
  match a with
  | RGoi lvl ch fresh =>
    if node_pre_b t lvl ch then
      match find_shape t lvl ch with
      | Some id =>
        if dec_ok_b t ch then Some (rc_inc id (dec_children t ch), Some id) else None
      | None =>
        match cfind t fresh with
        | Some _ => None
        | None => Some ((fresh, mkC lvl ch 1%N) :: t, Some fresh)
        end
      end
    else None
  | RInc id =>
    match cfind t id with
    | Some _ => Some (rc_inc id t, None)
    | None => None
    end
  | RDec id =>
    match cfind t id with
    | Some nd => if N.eqb (crc nd) 0 then None else Some (rc_dec id t, None)
    | None => None
    end
  | RGc id =>
    match cfind t id with
    | None => None
    | Some nd =>
      if N.eqb (crc nd) 0 then
        let t1 := cremove id t in
        if dec_ok_b t1 (cch nd) then Some (dec_children t1 (cch nd), None) else None
      else None
    end
  end.

Fixpoint run_rc (t : ctable) (l : list ract) : option ctable :=
  match l with
  | [] => Some t
  | a :: r =>
    match step_rc t a with
    | None => None
    | Some (t', _) => run_rc t' r
    end
  end.

(** ** the snapshot of a concurrent state (the state type of the C01/C03/C05 theorems) *)

Definition to_node (nd : cnode) : node := mkNode (cl nd) (cch nd) (cl nd) (crc nd).

Definition to_map (t : ctable) : PositiveMap.t node :=
  fold_right (fun p m => PositiveMap.add (fst p) (to_node (snd p)) m) (PositiveMap.empty node) t.

Definition to_snap (s : cst) : snap :=
  mkSnap k (to_map (cn s)) terms (seq 0 nl) (seq 0 nl)
         (map (fun p : nat * edge => (N.of_nat (fst p), snd p)) (cown s)).

(** ** executable form of the invariant [CInv] of Mgr/ConcProofs.v *)

Fixpoint keys_nodup_b (t : ctable) : bool :=
  match t with
  | [] => true
  | (i, _) :: r => negb (existsb (fun p => Pos.eqb (fst p) i) r) && keys_nodup_b r
  end.

Fixpoint shapes_unique_b (t : ctable) : bool :=
  match t with
  | [] => true
  | (_, nd) :: r =>
    negb (existsb (fun p => Nat.eqb (cl (snd p)) (cl nd) && edges_eqb (cch (snd p)) (cch nd)) r)
    && shapes_unique_b r
  end.

Definition cinv_b (s : cst) : bool :=
  keys_nodup_b (cn s)
  && forallb (fun p => node_pre_b (cn s) (cl (snd p)) (cch (snd p))) (cn s)
  && shapes_unique_b (cn s)
  && forallb (fun o => edge_ok_b (cn s) (snd o)) (cown s)
  && forallb (fun p => N.eqb (crc (snd p))
                             (N.of_nat (owners (cown s) (fst p) + parents (cn s) (fst p))))
             (cn s).

End Model.
