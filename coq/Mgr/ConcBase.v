(** * C07 — basic facts about the definitions of Mgr/Conc.v

    Lookup after each table primitive ([rc_upd], [dec_children], [cremove],
    insertion), "shape" congruence (everything structural depends on
    [cn_shape] only, i.e. not on the counts), counting lemmas for tokens and
    parents, and the structural table invariant [TInv] with its preservation
    under insertion of a fresh reduced node and removal of an unreferenced
    node. *)

From Coq Require Import List NArith PArith Bool Arith Lia.
From OxiVerif Require Import DD.Table DD.TableProofs Mgr.Conc.
Import ListNotations.

Arguments N.add : simpl never.
Arguments N.sub : simpl never.
Arguments N.mul : simpl never.

Lemma forallb_ext' : forall (A : Type) (f g : A -> bool) l,
  (forall x, f x = g x) -> forallb f l = forallb g l.
Proof. intros A f g l H. induction l as [|x r IH]; simpl; [reflexivity | rewrite H, IH; reflexivity]. Qed.

(** ** lookup *)

Lemma cfind_In : forall t id nd, cfind t id = Some nd -> In (id, nd) t.
Proof.
  induction t as [|[i n] r IH]; intros id nd H; simpl in H; [discriminate|].
  destruct (Pos.eqb_spec i id) as [->|Hne].
  - inversion H; subst. left. reflexivity.
  - right. apply IH. exact H.
Qed.

Lemma cfind_None_keys : forall t id, cfind t id = None <-> ~ In id (map fst t).
Proof.
  induction t as [|[i n] r IH]; intros id; simpl.
  - split; [intros _ [] | reflexivity].
  - destruct (Pos.eqb_spec i id) as [->|Hne].
    + split; [discriminate | intros H; exfalso; apply H; left; reflexivity].
    + rewrite IH. split; [intros H [E|E]; [congruence | contradiction] | intros H E; apply H; right; exact E].
Qed.

Lemma cfind_Some_keys : forall t id nd, cfind t id = Some nd -> In id (map fst t).
Proof. intros t id nd H. apply cfind_In in H. apply (in_map fst) in H. exact H. Qed.

Lemma In_cfind : forall t id nd, NoDup (map fst t) -> In (id, nd) t -> cfind t id = Some nd.
Proof.
  induction t as [|[i n] r IH]; intros id nd Hnd Hin; simpl in *; [destruct Hin|].
  inversion Hnd as [|? ? Hi Hr]; subst.
  destruct Hin as [E|Hin].
  - inversion E; subst. rewrite Pos.eqb_refl. reflexivity.
  - destruct (Pos.eqb_spec i id) as [->|Hne].
    + exfalso. apply Hi. apply (in_map fst) in Hin. exact Hin.
    + apply IH; assumption.
Qed.

Lemma cfind_cons : forall i n t j,
  cfind ((i, n) :: t) j = if Pos.eqb i j then Some n else cfind t j.
Proof. reflexivity. Qed.

Lemma cfind_rc_upd : forall f id t j,
  cfind (rc_upd f id t) j =
  if Pos.eqb j id then option_map (fun nd => set_rc nd (f (crc nd))) (cfind t j) else cfind t j.
Proof.
  induction t as [|[i n] r IH]; intros j; simpl.
  - destruct (Pos.eqb j id); reflexivity.
  - destruct (Pos.eqb_spec i id) as [->|Hne]; simpl.
    + destruct (Pos.eqb_spec id j) as [->|Hne2].
      * rewrite Pos.eqb_refl. reflexivity.
      * destruct (Pos.eqb_spec j id) as [->|_]; [congruence | reflexivity].
    + destruct (Pos.eqb_spec i j) as [->|Hne2].
      * destruct (Pos.eqb_spec j id) as [->|_]; [congruence | reflexivity].
      * apply IH.
Qed.

Lemma points_to_RN : forall id j b, points_to id (mkEdge (RN j) b) = Pos.eqb j id.
Proof. reflexivity. Qed.

Lemma points_to_spec : forall id e, points_to id e = true <-> eref e = RN id.
Proof.
  intros id e. unfold points_to. destruct (eref e) as [x|j].
  - split; discriminate.
  - rewrite Pos.eqb_eq. split; congruence.
Qed.

Lemma cfind_dec_children : forall ch t j,
  cfind (dec_children t ch) j =
  option_map (fun nd => set_rc nd (crc nd - N.of_nat (cnt j ch))) (cfind t j).
Proof.
  induction ch as [|e r IH]; intros t j; simpl dec_children.
  - simpl. destruct (cfind t j) as [[l c x]|]; simpl; [|reflexivity].
    unfold set_rc. simpl. rewrite N.sub_0_r. reflexivity.
  - rewrite IH. simpl cnt. unfold points_to, dec_ref. destruct (eref e) as [x|id].
    + reflexivity.
    + unfold rc_dec. rewrite cfind_rc_upd. rewrite (Pos.eqb_sym id j).
      destruct (Pos.eqb j id).
      * destruct (cfind t j) as [nd|]; simpl; [|reflexivity].
        unfold set_rc. simpl. f_equal. f_equal. lia.
      * reflexivity.
Qed.

Lemma cfind_cremove : forall id t j, NoDup (map fst t) ->
  cfind (cremove id t) j = if Pos.eqb j id then None else cfind t j.
Proof.
  induction t as [|[i n] r IH]; intros j Hnd; simpl.
  - destruct (Pos.eqb j id); reflexivity.
  - inversion Hnd as [|? ? Hi Hr]; subst.
    destruct (Pos.eqb_spec i id) as [->|Hne].
    + destruct (Pos.eqb_spec j id) as [->|Hne2].
      * apply cfind_None_keys. exact Hi.
      * destruct (Pos.eqb_spec id j) as [->|_]; [congruence | reflexivity].
    + simpl. destruct (Pos.eqb_spec i j) as [->|Hne2].
      * destruct (Pos.eqb_spec j id) as [->|_]; [congruence | reflexivity].
      * apply IH. exact Hr.
Qed.

Lemma cremove_keys_incl : forall id t x, In x (map fst (cremove id t)) -> In x (map fst t).
Proof.
  induction t as [|[i n] r IH]; intros x H; simpl in *; [exact H|].
  destruct (Pos.eqb i id); simpl in *; [right; exact H|].
  destruct H as [H|H]; [left; exact H | right; apply IH; exact H].
Qed.

Lemma cremove_nodup : forall id t, NoDup (map fst t) -> NoDup (map fst (cremove id t)).
Proof.
  induction t as [|[i n] r IH]; intros Hnd; simpl; [constructor|].
  inversion Hnd as [|? ? Hi Hr]; subst.
  destruct (Pos.eqb i id); [exact Hr|].
  simpl. constructor; [|apply IH; exact Hr].
  intros H. apply Hi. eapply cremove_keys_incl. exact H.
Qed.

(** ** shapes: the table with the counts forgotten *)

Lemma cfind_cn_shape : forall t j,
  cfind (cn_shape t) j = option_map (fun nd => set_rc nd 0%N) (cfind t j).
Proof.
  induction t as [|[i n] r IH]; intros j; simpl; [reflexivity|].
  destruct (Pos.eqb i j); [reflexivity | apply IH].
Qed.

Lemma keys_cn_shape : forall t, map fst (cn_shape t) = map fst t.
Proof. intros t. unfold cn_shape. rewrite map_map. reflexivity. Qed.

Lemma cn_shape_rc_upd : forall f id t, cn_shape (rc_upd f id t) = cn_shape t.
Proof.
  induction t as [|[i n] r IH]; simpl; [reflexivity|].
  destruct (Pos.eqb i id); simpl; [reflexivity | rewrite IH; reflexivity].
Qed.

Lemma cn_shape_dec_children : forall ch t, cn_shape (dec_children t ch) = cn_shape t.
Proof.
  induction ch as [|e r IH]; intros t; simpl; [reflexivity|].
  rewrite IH. unfold dec_ref. destruct (eref e); [reflexivity | apply cn_shape_rc_upd].
Qed.

Lemma cn_shape_cremove : forall id t, cn_shape (cremove id t) = cremove id (cn_shape t).
Proof.
  induction t as [|[i n] r IH]; simpl; [reflexivity|].
  destruct (Pos.eqb i id); simpl; [reflexivity | rewrite IH; reflexivity].
Qed.

Lemma cn_shape_idem : forall t, cn_shape (cn_shape t) = cn_shape t.
Proof. intros t. unfold cn_shape. rewrite map_map. reflexivity. Qed.

(** equal shapes: the same ids carry nodes with the same level and children *)
Lemma shape_eq_find : forall t t' j nd, cn_shape t = cn_shape t' -> cfind t j = Some nd ->
  exists nd', cfind t' j = Some nd' /\ cl nd' = cl nd /\ cch nd' = cch nd.
Proof.
  intros t t' j nd E H.
  pose proof (cfind_cn_shape t j) as H1. pose proof (cfind_cn_shape t' j) as H2.
  rewrite E, H2, H in H1. simpl in H1.
  destruct (cfind t' j) as [nd'|]; simpl in H1; [|discriminate].
  exists nd'. inversion H1. auto.
Qed.

Lemma shape_eq_none : forall t t' j, cn_shape t = cn_shape t' -> cfind t j = None -> cfind t' j = None.
Proof.
  intros t t' j E H. apply cfind_None_keys. rewrite <- (keys_cn_shape t'), <- E, keys_cn_shape.
  apply cfind_None_keys. exact H.
Qed.

Lemma parents_cn_shape : forall t id, parents (cn_shape t) id = parents t id.
Proof. induction t as [|[i n] r IH]; intros id; simpl; [reflexivity | rewrite IH; reflexivity]. Qed.

Lemma parents_congr : forall t t' id, cn_shape t = cn_shape t' -> parents t id = parents t' id.
Proof. intros t t' id E. rewrite <- (parents_cn_shape t), E, parents_cn_shape. reflexivity. Qed.

Lemma has_parent_b_cn_shape : forall t id, has_parent_b (cn_shape t) id = has_parent_b t id.
Proof.
  unfold has_parent_b.
  induction t as [|[i n] r IH]; intros id; simpl; [reflexivity|].
  rewrite IH. reflexivity.
Qed.

(** ** counting *)

Lemma cnt_app : forall id a b, cnt id (a ++ b) = cnt id a + cnt id b.
Proof. induction a as [|e r IH]; intros b; simpl; [reflexivity | rewrite IH; lia]. Qed.

Lemma cnt_zero_iff : forall id ch, cnt id ch = 0 <-> forall e, In e ch -> eref e <> RN id.
Proof.
  induction ch as [|e r IH]; simpl.
  - split; [intros _ e [] | reflexivity].
  - destruct (points_to id e) eqn:P.
    + split; [discriminate|]. intros H. exfalso. apply (H e); [left; reflexivity|].
      apply points_to_spec. exact P.
    + simpl. rewrite IH. split.
      * intros H x [<-|Hx]; [|apply H; exact Hx].
        intros Hx. apply points_to_spec in Hx. congruence.
      * intros H x Hx. apply H. right. exact Hx.
Qed.

Lemma cnt_pos_In : forall id ch, 0 < cnt id ch -> exists e, In e ch /\ eref e = RN id.
Proof.
  induction ch as [|e r IH]; simpl; [lia|].
  destruct (points_to id e) eqn:P.
  - intros _. exists e. split; [left; reflexivity | apply points_to_spec; exact P].
  - simpl. intros H. destruct (IH H) as [x [Hx1 Hx2]]. exists x. split; [right|]; assumption.
Qed.

Lemma In_cnt_pos : forall id ch e, In e ch -> eref e = RN id -> 0 < cnt id ch.
Proof.
  intros id ch e Hin He. destruct (cnt id ch) eqn:E; [|lia].
  exfalso. apply (proj1 (cnt_zero_iff id ch) E e Hin He).
Qed.

Lemma parents_zero_iff : forall t id,
  parents t id = 0 <-> forall j nd e, In (j, nd) t -> In e (cch nd) -> eref e <> RN id.
Proof.
  induction t as [|[i n] r IH]; intros id; simpl.
  - split; [intros _ j nd e [] | reflexivity].
  - split.
    + intros H j nd e [E|Hin] He.
      * inversion E; subst. apply (proj1 (cnt_zero_iff id (cch nd))); [lia | exact He].
      * apply (proj1 (IH id) ltac:(lia) j nd e Hin He).
    + intros H.
      assert (H1 : cnt id (cch n) = 0).
      { apply cnt_zero_iff. intros e He. apply (H i n e); [left; reflexivity | exact He]. }
      assert (H2 : parents r id = 0).
      { apply IH. intros j nd e Hin He. apply (H j nd e); [right; exact Hin | exact He]. }
      lia.
Qed.

Lemma parents_pos_In : forall t id, 0 < parents t id ->
  exists j nd e, In (j, nd) t /\ In e (cch nd) /\ eref e = RN id.
Proof.
  induction t as [|[i n] r IH]; intros id; simpl; [lia|].
  intros H. destruct (cnt id (cch n)) eqn:E.
  - destruct (IH id ltac:(lia)) as [j [nd [e [H1 [H2 H3]]]]].
    exists j, nd, e. split; [right|]; auto.
  - destruct (cnt_pos_In id (cch n) ltac:(lia)) as [e [H1 H2]].
    exists i, n, e. split; [left; reflexivity | auto].
Qed.

Lemma parents_ge_cnt : forall t id j nd, In (j, nd) t -> cnt id (cch nd) <= parents t id.
Proof.
  induction t as [|[i n] r IH]; intros id j nd Hin; simpl; [destruct Hin|].
  destruct Hin as [E|Hin]; [inversion E; subst; lia|].
  pose proof (IH id j nd Hin). lia.
Qed.

Lemma has_parent_b_false_iff : forall t id, has_parent_b t id = false <-> parents t id = 0.
Proof.
  intros t id. rewrite parents_zero_iff. unfold has_parent_b. split.
  - intros H j nd e Hin He Hr.
    assert (X : existsb (fun p => existsb (points_to id) (cch (snd p))) t = true).
    { apply existsb_exists. exists (j, nd). split; [exact Hin|]. simpl.
      apply existsb_exists. exists e. split; [exact He | apply points_to_spec; exact Hr]. }
    congruence.
  - intros H. destruct (existsb _ t) eqn:E; [|reflexivity].
    apply existsb_exists in E. destruct E as [[j nd] [Hin E]]. simpl in E.
    apply existsb_exists in E. destruct E as [e [He P]]. apply points_to_spec in P.
    exfalso. exact (H j nd e Hin He P).
Qed.

(** removing the entry of [id] removes exactly its children from the parent counts *)
Lemma parents_cremove : forall id t nd j, cfind t id = Some nd ->
  parents t j = cnt j (cch nd) + parents (cremove id t) j.
Proof.
  induction t as [|[i n] r IH]; intros nd j H; simpl in *; [discriminate|].
  destruct (Pos.eqb i id).
  - inversion H; subst. reflexivity.
  - simpl. rewrite (IH nd j H). lia.
Qed.

(** ** tokens *)

Lemma tok_eqb_eq : forall a b, tok_eqb a b = true <-> a = b.
Proof.
  intros [t1 e1] [t2 e2]. unfold tok_eqb. simpl. rewrite andb_true_iff, Nat.eqb_eq, edge_eqb_eq.
  split; [intros [-> ->]; reflexivity | intros H; inversion H; auto].
Qed.

Lemma owns_b_In : forall own x, owns_b own x = true <-> In x own.
Proof.
  intros own x. unfold owns_b. rewrite existsb_exists. split.
  - intros [y [Hy E]]. apply tok_eqb_eq in E. subst. exact Hy.
  - intros H. exists x. split; [exact H | apply tok_eqb_eq; reflexivity].
Qed.

Lemma owners_cons : forall o own id,
  owners (o :: own) id = (if points_to id (snd o) then 1 else 0) + owners own id.
Proof. reflexivity. Qed.

Lemma take_tok_owners : forall x own own' id, take_tok x own = Some own' ->
  owners own id = (if points_to id (snd x) then 1 else 0) + owners own' id.
Proof.
  induction own as [|y r IH]; intros own' id H; simpl in H; [discriminate|].
  destruct (tok_eqb x y) eqn:E.
  - apply tok_eqb_eq in E. subst y. inversion H; subst. apply owners_cons.
  - destruct (take_tok x r) as [r'|] eqn:Er; [|discriminate]. inversion H; subst.
    rewrite !owners_cons, (IH r' id eq_refl). lia.
Qed.

Lemma take_tok_In : forall x own own', take_tok x own = Some own' -> In x own.
Proof.
  induction own as [|y r IH]; intros own' H; simpl in H; [discriminate|].
  destruct (tok_eqb x y) eqn:E.
  - apply tok_eqb_eq in E. left. congruence.
  - destruct (take_tok x r) as [r'|] eqn:Er; [|discriminate]. right. eapply IH. reflexivity.
Qed.

Lemma take_tok_incl : forall x own own' o, take_tok x own = Some own' -> In o own' -> In o own.
Proof.
  induction own as [|y r IH]; intros own' o H Ho; simpl in H; [discriminate|].
  destruct (tok_eqb x y) eqn:E.
  - inversion H; subst. right. exact Ho.
  - destruct (take_tok x r) as [r'|] eqn:Er; [|discriminate]. inversion H; subst.
    destruct Ho as [<-|Ho]; [left; reflexivity | right; eapply IH; eauto].
Qed.

Lemma In_take_tok : forall x own, In x own -> exists own', take_tok x own = Some own'.
Proof.
  induction own as [|y r IH]; intros H; [destruct H|]. simpl.
  destruct (tok_eqb x y) eqn:E; [eauto|].
  destruct H as [H|H].
  - subst y. assert (X : tok_eqb x x = true) by (apply tok_eqb_eq; reflexivity). congruence.
  - destruct (IH H) as [r' Hr]. rewrite Hr. eauto.
Qed.

Lemma take_toks_owners : forall tid ch own own' id, take_toks tid ch own = Some own' ->
  owners own id = cnt id ch + owners own' id.
Proof.
  induction ch as [|e r IH]; intros own own' id H; simpl in H.
  - inversion H; subst. reflexivity.
  - simpl cnt. unfold points_to at 1. destruct (eref e) as [x|j] eqn:Er.
    + apply IH. exact H.
    + destruct (take_tok (tid, e) own) as [own1|] eqn:E1; [|discriminate].
      rewrite (take_tok_owners _ _ _ id E1), (IH own1 own' id H). simpl snd.
      unfold points_to. rewrite Er. lia.
Qed.

Lemma take_toks_incl : forall tid ch own own' o, take_toks tid ch own = Some own' ->
  In o own' -> In o own.
Proof.
  induction ch as [|e r IH]; intros own own' o H Ho; simpl in H.
  - inversion H; subst. exact Ho.
  - destruct (eref e) as [x|j].
    + eapply IH; eauto.
    + destruct (take_tok (tid, e) own) as [own1|] eqn:E1; [|discriminate].
      eapply take_tok_incl; [exact E1|]. eapply IH; eauto.
Qed.

(** every inner child edge was owned by the calling thread *)
Lemma take_toks_owned : forall tid ch own own' e, take_toks tid ch own = Some own' ->
  In e ch -> (exists id, eref e = RN id) -> In (tid, e) own.
Proof.
  induction ch as [|x r IH]; intros own own' e H He Hi; simpl in H; [destruct He|].
  destruct He as [<-|He].
  - destruct Hi as [id Hi]. rewrite Hi in H.
    destruct (take_tok (tid, x) own) as [own1|] eqn:E1; [|discriminate].
    eapply take_tok_In. exact E1.
  - destruct (eref x) as [y|j].
    + eapply IH; eauto.
    + destruct (take_tok (tid, x) own) as [own1|] eqn:E1; [|discriminate].
      eapply take_tok_incl; [exact E1|]. eapply IH; eauto.
Qed.

Lemma owners_zero_iff : forall own id,
  owners own id = 0 <-> forall o, In o own -> eref (snd o) <> RN id.
Proof.
  intros own id. unfold owners. rewrite cnt_zero_iff. split.
  - intros H o Ho. apply H. apply in_map. exact Ho.
  - intros H e He. apply in_map_iff in He. destruct He as [o [<- Ho]]. apply H. exact Ho.
Qed.

Lemma owners_pos_In : forall own id, 0 < owners own id ->
  exists o, In o own /\ eref (snd o) = RN id.
Proof.
  intros own id H. destruct (cnt_pos_In id _ H) as [e [He Hr]].
  apply in_map_iff in He. destruct He as [o [<- Ho]]. eauto.
Qed.

Lemma In_owners_pos : forall own id o, In o own -> eref (snd o) = RN id -> 0 < owners own id.
Proof. intros own id o Ho Hr. apply (In_cnt_pos id _ (snd o)); [apply in_map; exact Ho | exact Hr]. Qed.

(** ** kind-dependent definitions *)

Section WithKind.
Variable k : kind.
Variable terms : list (N * N).
Variable nl : nat.

Notation crlevel := (crlevel nl).
Notation cref_ok_b := (cref_ok_b terms).
Notation node_pre_b := (node_pre_b k terms nl).
Notation edge_ok_b := (edge_ok_b k terms).

Lemma crlevel_cn_shape : forall t r, crlevel (cn_shape t) r = crlevel t r.
Proof.
  intros t [x|id]; simpl; [reflexivity|]. rewrite cfind_cn_shape.
  destruct (cfind t id); reflexivity.
Qed.

Lemma cref_ok_b_cn_shape : forall t r, cref_ok_b (cn_shape t) r = cref_ok_b t r.
Proof.
  intros t [x|id]; simpl; [reflexivity|]. rewrite cfind_cn_shape.
  destruct (cfind t id); reflexivity.
Qed.

Lemma node_pre_b_cn_shape : forall t lvl ch, node_pre_b (cn_shape t) lvl ch = node_pre_b t lvl ch.
Proof.
  intros t lvl ch. unfold Conc.node_pre_b. f_equal. f_equal. f_equal.
  apply forallb_ext'. intros e. rewrite cref_ok_b_cn_shape, crlevel_cn_shape. reflexivity.
Qed.

Lemma edge_ok_b_cn_shape : forall t e, edge_ok_b (cn_shape t) e = edge_ok_b t e.
Proof. intros t e. unfold Conc.edge_ok_b. rewrite cref_ok_b_cn_shape. reflexivity. Qed.

Lemma find_shape_cn_shape : forall t lvl ch, find_shape (cn_shape t) lvl ch = find_shape t lvl ch.
Proof.
  induction t as [|[i n] r IH]; intros lvl ch; simpl; [reflexivity|].
  rewrite IH. reflexivity.
Qed.

Lemma node_pre_b_congr : forall t t' lvl ch, cn_shape t = cn_shape t' ->
  node_pre_b t lvl ch = node_pre_b t' lvl ch.
Proof. intros t t' lvl ch E. rewrite <- (node_pre_b_cn_shape t), E. apply node_pre_b_cn_shape. Qed.

Lemma edge_ok_b_congr : forall t t' e, cn_shape t = cn_shape t' -> edge_ok_b t e = edge_ok_b t' e.
Proof. intros t t' e E. rewrite <- (edge_ok_b_cn_shape t), E. apply edge_ok_b_cn_shape. Qed.

Lemma find_shape_congr : forall t t' lvl ch, cn_shape t = cn_shape t' ->
  find_shape t lvl ch = find_shape t' lvl ch.
Proof. intros t t' lvl ch E. rewrite <- (find_shape_cn_shape t), E. apply find_shape_cn_shape. Qed.

(** the lookup finds an entry of that shape; [None] = no entry has it *)
Lemma find_shape_Some : forall t lvl ch id, NoDup (map fst t) -> find_shape t lvl ch = Some id ->
  exists nd, cfind t id = Some nd /\ cl nd = lvl /\ cch nd = ch.
Proof.
  induction t as [|[i n] r IH]; intros lvl ch id Hnd H; simpl in H; [discriminate|].
  inversion Hnd as [|? ? Hi Hr]; subst.
  destruct (Nat.eqb (cl n) lvl && edges_eqb (cch n) ch) eqn:E.
  - inversion H; subst. apply andb_true_iff in E. destruct E as [E1 E2].
    apply Nat.eqb_eq in E1. apply edges_eqb_eq in E2.
    exists n. simpl. rewrite Pos.eqb_refl. auto.
  - destruct (IH lvl ch id Hr H) as [nd [F [H1 H2]]]. exists nd. split; [|auto].
    simpl. destruct (Pos.eqb_spec i id) as [->|_]; [|exact F].
    exfalso. apply Hi. eapply cfind_Some_keys. exact F.
Qed.

Lemma find_shape_None : forall t lvl ch, find_shape t lvl ch = None ->
  forall id nd, In (id, nd) t -> ~ (cl nd = lvl /\ cch nd = ch).
Proof.
  induction t as [|[i n] r IH]; intros lvl ch H id nd Hin; simpl in *; [destruct Hin|].
  destruct (Nat.eqb (cl n) lvl && edges_eqb (cch n) ch) eqn:E; [discriminate|].
  destruct Hin as [Hin|Hin].
  - inversion Hin; subst. intros [H1 H2].
    assert (X : Nat.eqb (cl nd) lvl && edges_eqb (cch nd) ch = true).
    { apply andb_true_iff. split; [apply Nat.eqb_eq; exact H1 | apply edges_eqb_eq; exact H2]. }
    congruence.
  - apply (IH lvl ch H id nd Hin).
Qed.

Lemma find_shape_complete : forall t lvl ch id nd, cfind t id = Some nd -> cl nd = lvl -> cch nd = ch ->
  exists id', find_shape t lvl ch = Some id'.
Proof.
  intros t lvl ch id nd F H1 H2. destruct (find_shape t lvl ch) as [id'|] eqn:E; [eauto|].
  exfalso. apply (find_shape_None t lvl ch E id nd (cfind_In _ _ _ F)). auto.
Qed.

(** [node_pre_b] only looks at the entries of the children *)
Lemma node_pre_b_ext : forall t t' lvl ch,
  (forall e id nd, In e ch -> eref e = RN id -> cfind t id = Some nd ->
     exists nd', cfind t' id = Some nd' /\ cl nd' = cl nd) ->
  node_pre_b t lvl ch = true -> node_pre_b t' lvl ch = true.
Proof.
  intros t t' lvl ch Hext H. unfold Conc.node_pre_b in *.
  rewrite !andb_true_iff in *. destruct H as [[[[H1 H2] H3] H4] H5].
  repeat split; auto.
  rewrite forallb_forall in *. intros e He. specialize (H3 e He).
  apply andb_true_iff in H3. destruct H3 as [Ho Hl]. apply andb_true_iff.
  destruct (eref e) as [x|id] eqn:Er; simpl in *; [auto|].
  destruct (cfind t id) as [nd|] eqn:F; [|discriminate].
  destruct (Hext e id nd He Er F) as [nd' [F' Hc]]. rewrite F', Hc. auto.
Qed.

Lemma edge_ok_b_ext : forall t t' e,
  (forall id nd, eref e = RN id -> cfind t id = Some nd -> exists nd', cfind t' id = Some nd') ->
  edge_ok_b t e = true -> edge_ok_b t' e = true.
Proof.
  intros t t' e Hext H. unfold Conc.edge_ok_b in *. apply andb_true_iff in H. destruct H as [H1 H2].
  apply andb_true_iff. split; [|exact H2].
  destruct (eref e) as [x|id] eqn:Er; simpl in *; [exact H1|].
  destruct (cfind t id) as [nd|] eqn:F; [|discriminate].
  destruct (Hext id nd eq_refl F) as [nd' F']. rewrite F'. reflexivity.
Qed.

Lemma edge_ok_b_inner : forall t e id, edge_ok_b t e = true -> eref e = RN id ->
  exists nd, cfind t id = Some nd.
Proof.
  intros t e id H Er. unfold Conc.edge_ok_b in H. apply andb_true_iff in H. destruct H as [H _].
  rewrite Er in H. simpl in H. destruct (cfind t id) as [nd|]; [eauto | discriminate].
Qed.

(** the children named by a node that passes [node_pre_b] are stored below it *)
Lemma node_pre_b_child : forall t lvl ch e id, node_pre_b t lvl ch = true -> In e ch -> eref e = RN id ->
  exists nd, cfind t id = Some nd /\ lvl < cl nd.
Proof.
  intros t lvl ch e id H He Er. unfold Conc.node_pre_b in H.
  rewrite !andb_true_iff in H. destruct H as [[[[_ _] H3] _] _].
  rewrite forallb_forall in H3. specialize (H3 e He). apply andb_true_iff in H3.
  destruct H3 as [Ho Hl]. rewrite Er in Ho, Hl. simpl in Ho, Hl.
  destruct (cfind t id) as [nd|]; [|discriminate]. exists nd. split; [reflexivity|].
  apply Nat.ltb_lt. exact Hl.
Qed.

(** ... and are valid edge values *)
Lemma node_pre_b_child_ok : forall t lvl ch e, node_pre_b t lvl ch = true -> In e ch ->
  edge_ok_b t e = true.
Proof.
  intros t lvl ch e H He. unfold Conc.node_pre_b in H.
  rewrite !andb_true_iff in H. destruct H as [[[[_ _] H3] _] H5].
  rewrite forallb_forall in H3. specialize (H3 e He). apply andb_true_iff in H3.
  destruct H3 as [Ho _]. unfold Conc.edge_ok_b. rewrite Ho. simpl.
  unfold ctags_ok_b in H5. destruct k; try reflexivity;
    rewrite forallb_forall in H5; apply (H5 e He).
Qed.

Lemma node_pre_b_cnt_absent : forall t lvl ch id, node_pre_b t lvl ch = true -> cfind t id = None ->
  cnt id ch = 0.
Proof.
  intros t lvl ch id H F. apply cnt_zero_iff. intros e He Er.
  destruct (node_pre_b_child t lvl ch e id H He Er) as [nd [F' _]]. congruence.
Qed.

(** ** the structural invariant of the table *)

Record TInv (t : ctable) : Prop := mkTInv {
  ti_nodup : NoDup (map fst t);
  ti_pre : forall id nd, cfind t id = Some nd -> node_pre_b t (cl nd) (cch nd) = true;
  ti_uniq : forall i1 i2 n1 n2, cfind t i1 = Some n1 -> cfind t i2 = Some n2 ->
      cl n1 = cl n2 -> cch n1 = cch n2 -> i1 = i2
}.

Lemma TInv_nil : TInv [].
Proof. constructor; simpl; [constructor | discriminate | discriminate]. Qed.

Lemma TInv_congr : forall t t', cn_shape t = cn_shape t' -> TInv t -> TInv t'.
Proof.
  intros t t' E [H1 H2 H3]. constructor.
  - rewrite <- (keys_cn_shape t'), <- E, keys_cn_shape. exact H1.
  - intros id nd' F'. destruct (shape_eq_find t' t id nd' (eq_sym E) F') as [nd [F [Hl Hc]]].
    rewrite <- Hl, <- Hc, <- (node_pre_b_congr t t' _ _ E). apply (H2 id nd F).
  - intros i1 i2 n1 n2 F1 F2 Hl Hc.
    destruct (shape_eq_find t' t i1 n1 (eq_sym E) F1) as [m1 [G1 [L1 C1]]].
    destruct (shape_eq_find t' t i2 n2 (eq_sym E) F2) as [m2 [G2 [L2 C2]]].
    apply (H3 i1 i2 m1 m2 G1 G2); congruence.
Qed.

Lemma TInv_parents_absent : forall t id, TInv t -> cfind t id = None -> parents t id = 0.
Proof.
  intros t id H F. apply parents_zero_iff. intros j nd e Hin He Er.
  pose proof (In_cfind t j nd (ti_nodup t H) Hin) as Fj.
  destruct (node_pre_b_child t _ _ e id (ti_pre t H j nd Fj) He Er) as [nd' [F' _]]. congruence.
Qed.

(** insertion of a fresh node that passes the caller's precondition and whose shape
    is not yet in the table *)
Lemma TInv_insert : forall t lvl ch fr rc, TInv t ->
  node_pre_b t lvl ch = true -> find_shape t lvl ch = None -> cfind t fr = None ->
  TInv ((fr, mkC lvl ch rc) :: t).
Proof.
  intros t lvl ch fr rc H Hpre Hfs Hfr.
  assert (Hext : forall l c, node_pre_b t l c = true ->
                   node_pre_b ((fr, mkC lvl ch rc) :: t) l c = true).
  { intros l c. apply node_pre_b_ext. intros e id nd _ _ F. exists nd. split; [|reflexivity].
    rewrite cfind_cons. destruct (Pos.eqb_spec fr id) as [->|_]; [congruence | exact F]. }
  constructor.
  - simpl. constructor; [apply cfind_None_keys; exact Hfr | apply (ti_nodup t H)].
  - intros id nd F. rewrite cfind_cons in F. destruct (Pos.eqb_spec fr id) as [->|Hne].
    + inversion F; subst. simpl. apply Hext. exact Hpre.
    + apply Hext. apply (ti_pre t H id nd F).
  - intros i1 i2 n1 n2 F1 F2 Hl Hc. rewrite cfind_cons in F1, F2.
    destruct (Pos.eqb_spec fr i1) as [E1|N1], (Pos.eqb_spec fr i2) as [E2|N2].
    + congruence.
    + inversion F1; subst. simpl in *. exfalso.
      apply (find_shape_None t _ _ Hfs i2 n2 (cfind_In _ _ _ F2)). auto.
    + inversion F2; subst. simpl in *. exfalso.
      apply (find_shape_None t _ _ Hfs i1 n1 (cfind_In _ _ _ F1)). auto.
    + apply (ti_uniq t H i1 i2 n1 n2 F1 F2 Hl Hc).
Qed.

(** removal of a node that no stored node refers to *)
Lemma TInv_remove : forall t id, TInv t -> parents t id = 0 -> TInv (cremove id t).
Proof.
  intros t id H Hp.
  pose proof (ti_nodup t H) as Hnd.
  assert (Hf : forall j nd, cfind (cremove id t) j = Some nd -> cfind t j = Some nd /\ j <> id).
  { intros j nd F. rewrite (cfind_cremove id t j Hnd) in F.
    destruct (Pos.eqb_spec j id); [discriminate | auto]. }
  constructor.
  - apply cremove_nodup. exact Hnd.
  - intros j nd F. destruct (Hf j nd F) as [F' Hne].
    apply (node_pre_b_ext t); [|apply (ti_pre t H j nd F')].
    intros e c ndc He Er Fc. exists ndc. split; [|reflexivity].
    rewrite (cfind_cremove id t c Hnd). destruct (Pos.eqb_spec c id) as [->|_]; [|exact Fc].
    exfalso. apply (proj1 (parents_zero_iff t id) Hp j nd e (cfind_In _ _ _ F') He Er).
  - intros i1 i2 n1 n2 F1 F2. destruct (Hf i1 n1 F1) as [G1 _]. destruct (Hf i2 n2 F2) as [G2 _].
    apply (ti_uniq t H i1 i2 n1 n2 G1 G2).
Qed.

End WithKind.
