(** * C07 — the apply cache's weak references and the collector's cache protocol
      (executable definitions only, no proofs)

    Extends the interleaving model of Mgr/Conc.v (state [cst] = unique table with
    reference counts + ownership tokens) by the apply cache of
    /repo/crates/oxidd-cache/src/direct.rs (`DMApplyCache`) and by the phases of
    `Manager::gc` (/repo/crates/oxidd-manager-index/src/manager.rs), which runs under the
    SHARED manager lock, i.e. next to apply operations of other threads.

    The cache is an array of buckets (`Entry`): a spin lock bit (`RawMutex`,
    crates/oxidd-cache/src/util.rs) + at most one entry.  An entry holds the operator, the
    operand edges, numeric operands, the value edges and numeric values.  ALL edges of an
    entry (operands and values) are WEAK: `Datum::write_edge` stores the edge value without
    touching the reference count.

      [CTryLock tid b]       `Entry::try_lock` of `get_extended` / `add_extended`:
                             `!swap(true)`: succeeds iff the bit was clear; a busy bucket is
                             a miss / the insertion is skipped (result [KRBusy], no change)
      [CAdd tid b c]         `EntryGuard::set` (lock held by [tid]): clear + write the
                             operator, the BORROWED operand and value edges (no count
                             changes) + the counts; the edges are edges the thread can borrow
                             ([can_borrow_b], as for [ARetain]) or terminals
      [CGet tid b op args nums]
                             `EntryGuard::get` (lock held by [tid]): if the bucket is
                             occupied and operator / operand edges / numeric operands are
                             equal, every value edge is cloned (`manager.clone_edge`: count
                             + 1, the thread gets a token), result [KRHit]; otherwise
                             [KRMiss].  Operand edges are compared BY VALUE (no dereference).
      [CUnlock tid b]        `Drop for EntryGuard`: `store(false)` -- unconditionally
      [GcBegin]              `Manager::gc`: `gc_ongoing.try_lock()` succeeded, `pre_gc` starts
      [GcPeek b]             (only relevant for the broken-lock variant) a `load` of the bit of
                             the next bucket that returned false
      [GcLockBucket b]       one iteration of `pre_gc`: `entry.lock()` (blocking: enabled iff
                             the bit is clear; sets it), `entry.clear()`, `forget(guard)`:
                             the bucket stays locked.  Buckets are taken in ascending order
      [GcSweepBegin]         `pre_gc` is done, the sweep over the levels starts
      [KBase (AGcNode id)]   one iteration of `retain` in `LevelViewSet::gc`: ONLY in phase
                             [GSweep]
      [GcSweepDone]          the sweep is done, `post_gc` starts
      [GcUnlockBucket b]     one iteration of `post_gc`: `entry.mutex.unlock()`, ascending
      [GcEnd]                `gc_ongoing.unlock()`
      [KBase a]              any action of Mgr/Conc.v (get_or_insert, retain, release, move,
                             tag flip) of any thread at any time

    One [kact] is one atomic action: accesses to a bucket's entry are made with the bucket's
    lock held, the lock operations are single atomic read-modify-write operations.

    PROTOCOL VARIANTS ([proto]).  [kstep] is parameterised by two switches so that the very
    same step function also describes two broken protocols (both were seeded into the code
    as defects; the refutations in ConcCacheProofs.v run them to a dangling entry):
      [p_skip_empty]   `pre_gc` leaves unoccupied buckets unlocked
                       (`if !entry.is_occupied() { continue; }`)
      [p_blind_lock]   the blocking `lock()` waits with `load` until it reads false and
                       then does `swap(true)` WITHOUT looking at the swapped value
                       ([GcPeek] then [GcLockBucket] whatever the bit is by then)
    [good] = both off = the code.

    The log-level projection [lstep] (table shape + cache, no counts / tokens / worker lock
    steps) is what ocaml/c07_main.ml replays on the event log of the hooks. *)

From Coq Require Import List NArith PArith Bool Arith.
From OxiVerif Require Import DD.Table Mgr.Conc.
Import ListNotations.

(** ** cache entries *)

(** `Entry`: operator, operand edges, numeric operands, value edges, numeric values *)
Record centry := mkCE {
  ce_op : N; ce_args : list edge; ce_nums : list N; ce_vals : list edge; ce_vnums : list N }.

(** all (weak) edges of an entry *)
Definition ce_edges (c : centry) : list edge := ce_args c ++ ce_vals c.

Fixpoint nums_eqb (a b : list N) : bool :=
  match a, b with
  | [], [] => true
  | x :: r, y :: s => N.eqb x y && nums_eqb r s
  | _, _ => false
  end.

(** the comparison of `EntryGuard::get` *)
Definition key_match (op : N) (args : list edge) (nums : list N) (c : centry) : bool :=
  N.eqb op (ce_op c) && edges_eqb args (ce_args c) && nums_eqb nums (ce_nums c).

(** a bucket: entry + lock bit *)
Record bucket := mkB { b_ent : option centry; b_bit : bool }.

Definition bucket0 : bucket := mkB None false.

Fixpoint upd_nth {A : Type} (l : list A) (i : nat) (x : A) : list A :=
  match l, i with
  | [], _ => []
  | _ :: r, O => x :: r
  | y :: r, S j => y :: upd_nth r j x
  end.

(** phases of `Manager::gc` *)
Inductive gphase := GIdle | GLock | GSweep | GUnlock.

Definition gphase_eqb (a b : gphase) : bool :=
  match a, b with
  | GIdle, GIdle | GLock, GLock | GSweep, GSweep | GUnlock, GUnlock => true
  | _, _ => false
  end.

(** [knext]: number of buckets `pre_gc` (phase [GLock]) resp. `post_gc` (phase [GUnlock])
    has processed; [kpeek]: the collector has read the bit of bucket [knext] as clear;
    [kwk]: (thread, bucket) for every worker between a successful `try_lock` and the drop
    of its guard *)
Record kst := mkK {
  kc : cst; kb : list bucket; kph : gphase; knext : nat; kpeek : bool; kwk : list (nat * nat) }.

(** the empty manager with [nb] buckets *)
Definition kinit (nb : nat) : kst := mkK cempty (repeat bucket0 nb) GIdle 0 false [].

(** buckets the collector holds (believes to hold) *)
Definition gc_claimed_b (ph : gphase) (next nb b : nat) : bool :=
  Nat.ltb b nb &&
  match ph with
  | GIdle => false
  | GLock => Nat.ltb b next
  | GSweep => true
  | GUnlock => Nat.leb next b
  end.

Record proto := mkP { p_skip_empty : bool; p_blind_lock : bool }.
Definition good : proto := mkP false false.
Definition proto_skip_empty : proto := mkP true false.
Definition proto_blind_lock : proto := mkP false true.

Inductive kact :=
| KBase (a : act)
| CTryLock (tid b : nat)
| CAdd (tid b : nat) (c : centry)
| CGet (tid b : nat) (op : N) (args : list edge) (nums : list N)
| CUnlock (tid b : nat)
| GcBegin
| GcPeek (b : nat)
| GcLockBucket (b : nat)
| GcSweepBegin
| GcSweepDone
| GcUnlockBucket (b : nat)
| GcEnd.

Inductive kres :=
| KRBase (r : option positive)
| KRUnit
| KRBusy
| KRMiss
| KRHit (vals : list edge) (vnums : list N).

Definition claim_eqb (a b : nat * nat) : bool := Nat.eqb (fst a) (fst b) && Nat.eqb (snd a) (snd b).

Definition has_claim (wk : list (nat * nat)) (x : nat * nat) : bool := existsb (claim_eqb x) wk.

Fixpoint drop_claim (x : nat * nat) (wk : list (nat * nat)) : list (nat * nat) :=
  match wk with
  | [] => []
  | y :: r => if claim_eqb x y then r else y :: drop_claim x r
  end.

(** `manager.clone_edge` of every value edge of a hit: count + 1 and a token per INNER edge *)
Fixpoint retain_all (tid : nat) (vals : list edge) (s : cst) : cst :=
  match vals with
  | [] => s
  | e :: r =>
    match eref e with
    | RT _ => retain_all tid r s
    | RN id => retain_all tid r (mkCst (rc_inc id (cn s)) ((tid, e) :: cown s))
    end
  end.

Definition is_gc_act (a : act) : bool := match a with AGcNode _ => true | _ => false end.

Definition set_bit (bk : bucket) (x : bool) : bucket := mkB (b_ent bk) x.

Section Model.
Variable k : kind.
Variable terms : list (N * N).
Variable nl : nat.
Variable p : proto.

(** an edge a thread may pass to `add`: a terminal, or something it can borrow *)
Definition addable_b (s : cst) (e : edge) : bool :=
  match eref e with
  | RT _ => edge_ok_b k terms (cn s) e
  | RN _ => can_borrow_b nl s e && edge_ok_b k terms (cn s) e
  end.

Definition kstep (s : kst) (a : kact) : option (kst * kres) :=
  let nb := length (kb s) in
  match a with
  | KBase a0 =>
    if is_gc_act a0 && negb (gphase_eqb (kph s) GSweep) then None
    else
      match step k terms nl (kc s) a0 with
      | None => None
      | Some (c', r) => Some (mkK c' (kb s) (kph s) (knext s) (kpeek s) (kwk s), KRBase r)
      end
  | CTryLock tid b =>
    (* a thread holds at most one bucket *)
    if existsb (fun c => Nat.eqb (fst c) tid) (kwk s) then None
    else
      match nth_error (kb s) b with
      | None => None
      | Some bk =>
        if b_bit bk then Some (s, KRBusy)
        else Some (mkK (kc s) (upd_nth (kb s) b (set_bit bk true)) (kph s) (knext s) (kpeek s)
                       ((tid, b) :: kwk s), KRUnit)
      end
  | CAdd tid b c =>
    if has_claim (kwk s) (tid, b) then
      match nth_error (kb s) b with
      | None => None
      | Some bk =>
        if forallb (addable_b (kc s)) (ce_edges c)
        then Some (mkK (kc s) (upd_nth (kb s) b (mkB (Some c) (b_bit bk))) (kph s) (knext s) (kpeek s)
                       (kwk s), KRUnit)
        else None
      end
    else None
  | CGet tid b op args nums =>
    if has_claim (kwk s) (tid, b) then
      match nth_error (kb s) b with
      | None => None
      | Some bk =>
        match b_ent bk with
        | Some c =>
          if key_match op args nums c
          then Some (mkK (retain_all tid (ce_vals c) (kc s)) (kb s) (kph s) (knext s) (kpeek s) (kwk s),
                     KRHit (ce_vals c) (ce_vnums c))
          else Some (s, KRMiss)
        | None => Some (s, KRMiss)
        end
      end
    else None
  | CUnlock tid b =>
    if has_claim (kwk s) (tid, b) then
      match nth_error (kb s) b with
      | None => None
      | Some bk =>
        Some (mkK (kc s) (upd_nth (kb s) b (set_bit bk false)) (kph s) (knext s) (kpeek s)
                  (drop_claim (tid, b) (kwk s)), KRUnit)
      end
    else None
  | GcBegin =>
    match kph s with
    | GIdle => Some (mkK (kc s) (kb s) GLock 0 false (kwk s), KRUnit)
    | _ => None
    end
  | GcPeek b =>
    match kph s with
    | GLock =>
      if Nat.eqb b (knext s) then
        match nth_error (kb s) b with
        | Some bk => if b_bit bk then None
                     else Some (mkK (kc s) (kb s) GLock (knext s) true (kwk s), KRUnit)
        | None => None
        end
      else None
    | _ => None
    end
  | GcLockBucket b =>
    match kph s with
    | GLock =>
      if Nat.eqb b (knext s) then
        match nth_error (kb s) b with
        | None => None
        | Some bk =>
          (* `lock()`: the code's atomic swap loop succeeds iff the bit is clear; the
             broken variant goes on after a `load` that returned false *)
          if (if p_blind_lock p then kpeek s else negb (b_bit bk)) then
            let bk' :=
              match b_ent bk with
              | None => if p_skip_empty p then set_bit bk false else mkB None true
              | Some _ => mkB None true
              end in
            Some (mkK (kc s) (upd_nth (kb s) b bk') GLock (S (knext s)) false (kwk s), KRUnit)
          else None
        end
      else None
    | _ => None
    end
  | GcSweepBegin =>
    match kph s with
    | GLock => if Nat.eqb (knext s) nb
               then Some (mkK (kc s) (kb s) GSweep 0 false (kwk s), KRUnit) else None
    | _ => None
    end
  | GcSweepDone =>
    match kph s with
    | GSweep => Some (mkK (kc s) (kb s) GUnlock 0 false (kwk s), KRUnit)
    | _ => None
    end
  | GcUnlockBucket b =>
    match kph s with
    | GUnlock =>
      if Nat.eqb b (knext s) then
        match nth_error (kb s) b with
        | None => None
        | Some bk =>
          Some (mkK (kc s) (upd_nth (kb s) b (set_bit bk false)) GUnlock (S (knext s)) false (kwk s), KRUnit)
        end
      else None
    | _ => None
    end
  | GcEnd =>
    match kph s with
    | GUnlock => if Nat.eqb (knext s) nb
                 then Some (mkK (kc s) (kb s) GIdle 0 false (kwk s), KRUnit) else None
    | _ => None
    end
  end.

(** a schedule = any list of actions of any threads and of the collector *)
Fixpoint krun (s : kst) (sched : list kact) : option kst :=
  match sched with
  | [] => Some s
  | a :: r =>
    match kstep s a with
    | None => None
    | Some (s', _) => krun s' r
    end
  end.

Fixpoint krun_results (s : kst) (sched : list kact) : option (kst * list kres) :=
  match sched with
  | [] => Some (s, [])
  | a :: r =>
    match kstep s a with
    | None => None
    | Some (s', res) =>
      match krun_results s' r with
      | None => None
      | Some (s'', l) => Some (s'', res :: l)
      end
    end
  end.

(** ** what is to be avoided: a dangling weak edge *)

(** first bucket with an entry one of whose edges does not point to a stored node /
    existing terminal (or is tagged although the kind has no tags) *)
Definition entry_ok_b (t : ctable) (c : centry) : bool := forallb (edge_ok_b k terms t) (ce_edges c).

Definition bucket_ok_b (t : ctable) (bk : bucket) : bool :=
  match b_ent bk with Some c => entry_ok_b t c | None => true end.

Definition no_dangling_b (s : kst) : bool := forallb (bucket_ok_b (cn (kc s))) (kb s).

(** an UNLOCKED bucket with a dangling entry: the next `get` with that key returns it *)
Definition dangling_unlocked_b (s : kst) : bool :=
  existsb (fun bk => negb (b_bit bk) && negb (bucket_ok_b (cn (kc s)) bk)) (kb s).

(** ** log-level projection: what the hooks of /repo record

    Table shape (as [step_tbl] of Mgr/Conc.v) + per bucket the operand / value edges of the
    entry as far as the log determines them ([LUnknown]: written before the logged block)
    + the collector's phase.  No reference counts, no ownership, no worker lock steps: an
    `add` / a `get` hit is ONE log event, emitted while the worker holds the bucket. *)

Inductive lentry := LUnknown | LEmpty | LFull (args vals : list edge).

Record lst := mkL { lt : ctable; lb : list lentry; lph : gphase; lnext : nat }.

Inductive lact :=
| LTbl (a : tact)                 (* EV G / EV R *)
| LPreGc (n : nat)                (* CACHE_PRE_GC: `pre_gc` starts, [n] buckets *)
| LLock (b : nat)                 (* CACHE_PRE_GC_BUCKET *)
| LSweep                          (* GC_BEGIN *)
| LUnlock (b : nat)               (* CACHE_POST_GC_BUCKET *)
| LGcEnd                          (* GC_END *)
| LAdd (b : nat) (args vals : list edge)     (* CACHE_ADD_DONE *)
| LHit (b : nat) (args vals : list edge).    (* CACHE_HIT *)

Definition is_tgc (a : tact) : bool := match a with TGc _ => true | TGoi _ _ _ => false end.

Definition ledges_ok_b (t : ctable) (args vals : list edge) : bool :=
  forallb (edge_ok_b k terms t) (args ++ vals).

Definition lstep (l : lst) (a : lact) : option lst :=
  let nb := length (lb l) in
  match a with
  | LTbl a0 =>
    (* the collector removes nodes only while it holds every bucket *)
    if is_tgc a0 && negb (gphase_eqb (lph l) GSweep) then None
    else
      match step_tbl k terms nl (lt l) a0 with
      | None => None
      | Some (t', _) => Some (mkL t' (lb l) (lph l) (lnext l))
      end
  | LPreGc n =>
    match lph l with
    | GIdle => if Nat.eqb n nb then Some (mkL (lt l) (lb l) GLock 0) else None
    | _ => None
    end
  | LLock b =>
    match lph l with
    | GLock =>
      if Nat.eqb b (lnext l) && Nat.ltb b nb
      then Some (mkL (lt l) (upd_nth (lb l) b LEmpty) GLock (S (lnext l)))
      else None
    | _ => None
    end
  | LSweep =>
    match lph l with
    | GLock => if Nat.eqb (lnext l) nb then Some (mkL (lt l) (lb l) GSweep 0) else None
    | _ => None
    end
  | LUnlock b =>
    (* the end of the sweep is not logged: the first unlock implies it *)
    let next := match lph l with GSweep => 0 | _ => lnext l end in
    match lph l with
    | GSweep | GUnlock =>
      if Nat.eqb b next && Nat.ltb b nb
      then Some (mkL (lt l) (lb l) GUnlock (S next))
      else None
    | _ => None
    end
  | LGcEnd =>
    match lph l with
    | GUnlock => if Nat.eqb (lnext l) nb then Some (mkL (lt l) (lb l) GIdle 0) else None
    | GSweep => if Nat.eqb nb 0 then Some (mkL (lt l) (lb l) GIdle 0) else None   (* no bucket at all *)
    | _ => None
    end
  | LAdd b args vals =>
    (* no insertion into a bucket the collector holds; only edges to stored nodes *)
    if gc_claimed_b (lph l) (lnext l) nb b then None
    else
      match nth_error (lb l) b with
      | None => None
      | Some _ =>
        if ledges_ok_b (lt l) args vals
        then Some (mkL (lt l) (upd_nth (lb l) b (LFull args vals)) (lph l) (lnext l))
        else None
      end
  | LHit b args vals =>
    (* no hit in a bucket the collector holds; the entry is the one written last; every
       edge of it points to a stored node *)
    if gc_claimed_b (lph l) (lnext l) nb b then None
    else
      match nth_error (lb l) b with
      | None => None
      | Some le =>
        if ledges_ok_b (lt l) args vals then
          match le with
          | LUnknown => Some (mkL (lt l) (upd_nth (lb l) b (LFull args vals)) (lph l) (lnext l))
          | LEmpty => None
          | LFull a0 v0 => if edges_eqb args a0 && edges_eqb vals v0 then Some l else None
          end
        else None
      end
  end.

Fixpoint lrun (l : lst) (log : list lact) : option lst :=
  match log with
  | [] => Some l
  | a :: r => match lstep l a with Some l' => lrun l' r | None => None end
  end.

(** ** compressed log: the collector's per-bucket events come in runs

    `pre_gc` / `post_gc` visit ALL buckets in ascending order (millions of events per run of
    the check): the harness writes a maximal run of consecutive buckets as one line.
    [llock_run l first count] = [count] times [LLock], [lunlock_run] likewise
    (ConcCacheLog.v: [lock_run_eq], [unlock_run_eq]), computed in one pass. *)

Fixpoint clear_range (l : list lentry) (first count : nat) {struct l} : list lentry :=
  match l with
  | [] => []
  | x :: r =>
    match first, count with
    | S f, _ => x :: clear_range r f count
    | O, S c => LEmpty :: clear_range r O c
    | O, O => l
    end
  end.

Definition llock_run (l : lst) (first count : nat) : option lst :=
  match count, lph l with
  | S _, GLock =>
    if Nat.eqb first (lnext l) && Nat.leb (first + count) (length (lb l))
    then Some (mkL (lt l) (clear_range (lb l) first count) GLock (first + count))
    else None
  | _, _ => None
  end.

Definition lunlock_run (l : lst) (first count : nat) : option lst :=
  let next := match lph l with GSweep => 0 | _ => lnext l end in
  match count, lph l with
  | S _, GSweep | S _, GUnlock =>
    if Nat.eqb first next && Nat.leb (first + count) (length (lb l))
    then Some (mkL (lt l) (lb l) GUnlock (first + count))
    else None
  | _, _ => None
  end.

Inductive clact :=
| CL (a : lact)
| CLockRun (first count : nat)        (* EV CL *)
| CUnlockRun (first count : nat).     (* EV CU *)

Definition clstep (l : lst) (a : clact) : option lst :=
  match a with
  | CL a0 => lstep l a0
  | CLockRun f c => llock_run l f c
  | CUnlockRun f c => lunlock_run l f c
  end.

Definition cexpand (a : clact) : list lact :=
  match a with
  | CL a0 => [a0]
  | CLockRun f c => map LLock (seq f c)
  | CUnlockRun f c => map LUnlock (seq f c)
  end.

Fixpoint clrun (l : lst) (log : list clact) : option lst :=
  match log with
  | [] => Some l
  | a :: r => match clstep l a with Some l' => clrun l' r | None => None end
  end.

(** ** the projection of the full model onto the log *)

Definition kerase (s : kst) (a : kact) (r : kres) : option lact :=
  match a with
  | KBase a0 => match erase a0 with Some ta => Some (LTbl ta) | None => None end
  | CAdd _ b c => Some (LAdd b (ce_args c) (ce_vals c))
  | CGet _ b _ _ _ =>
    match r, nth_error (kb s) b with
    | KRHit _ _, Some bk =>
      match b_ent bk with Some c => Some (LHit b (ce_args c) (ce_vals c)) | None => None end
    | _, _ => None
    end
  | GcBegin => Some (LPreGc (length (kb s)))
  | GcLockBucket b => Some (LLock b)
  | GcSweepBegin => Some LSweep
  | GcUnlockBucket b => Some (LUnlock b)
  | GcEnd => Some LGcEnd
  | CTryLock _ _ | CUnlock _ _ | GcPeek _ | GcSweepDone => None
  end.

End Model.
