(** * C07 — the cache protocol: satisfiable hypotheses, and the two broken variants refuted

    BDD over 2 levels, terminals 0 |-> false, 1 |-> true (as in ConcExamples.v), a cache of
    2 buckets (1 bucket for the broken lock).

    [ok_*]:    the code's protocol: an entry is written, hit by another thread, a collection
               locks and clears every bucket, sweeps, unlocks; the invariant holds by the
               theorem (reachable state) and the checkers agree; the log projects onto a
               log that [lstep] accepts.
    [skip_*]:  `pre_gc` leaves empty buckets unlocked ([proto_skip_empty]): a worker inserts
               into such a bucket during the sweep, drops its result, the sweep frees the
               node: a DANGLING entry in an unlocked bucket after the collection; the next
               `get` returns the dangling edge and the state violates [CInv].  The very same
               schedule is not a behaviour of the code's protocol.
    [blind_*]: the collector's `lock()` does not look at the swapped value
               ([proto_blind_lock]): a worker's `try_lock` between the collector's `load` and
               `swap` makes both hold the bucket; the worker's insertion survives the clear and
               its unlock releases the collector's hold: same outcome. *)

From Coq Require Import List NArith PArith Bool Arith.
From OxiVerif Require Import DD.Table DD.TableExtra DD.TableProofs
  Mgr.Conc Mgr.ConcBase Mgr.ConcProofs Mgr.ConcSnap Mgr.ConcExamples
  Mgr.ConcCache Mgr.ConcCacheProofs Mgr.ConcCacheThms Mgr.ConcCacheLog.
Import ListNotations.

Definition ent_x1 : centry := mkCE 7 [E 1; T1] [] [E 1] [].     (* "x1 op true = x1" *)

(** ** the code's protocol *)

Definition ok_sched : list kact :=
  [ KBase (AGoi 0 1 [T1; T0] 1)          (* thread 0 creates x1 *)
  ; CTryLock 0 1; CAdd 0 1 ent_x1; CUnlock 0 1      (* ... and memoises it in bucket 1 *)
  ; CTryLock 1 1                          (* thread 1 looks the key up *)
  ; CGet 1 1 7 [E 1; T1] []               (*   hit: clone_edge of the value edge *)
  ; CUnlock 1 1
  ; KBase (ARelease 0 (E 1))              (* thread 0 drops its handle *)
  ; GcBegin
  ; GcLockBucket 0                        (* pre_gc *)
  ; CTryLock 0 0                          (*   thread 0 tries bucket 0: busy *)
  ; CTryLock 0 1; CGet 0 1 7 [E 1; T0] []; CUnlock 0 1   (* bucket 1 is still free: a miss (other key) *)
  ; GcLockBucket 1
  ; GcSweepBegin
  ; KBase (ARelease 1 (E 1))              (* thread 1 drops the node during the sweep *)
  ; KBase (AGcNode 1)                     (* the collector frees it *)
  ; CTryLock 1 1                          (* busy *)
  ; GcSweepDone
  ; GcUnlockBucket 0; GcUnlockBucket 1
  ; GcEnd
  ; CTryLock 1 1; CGet 1 1 7 [E 1; T1] []; CUnlock 1 1   (* miss: the bucket was cleared *)
  ].

Definition ok_final : kst := mkK cempty [bucket0; bucket0] GIdle 0 false [].

Example ok_run : krun KBdd ex_terms 2 good (kinit 2) ok_sched = Some ok_final.
Proof. vm_compute. reflexivity. Qed.

Example ok_results :
  option_map snd (krun_results KBdd ex_terms 2 good (kinit 2) ok_sched) =
  Some [ KRBase (Some 1%positive); KRUnit; KRUnit; KRUnit; KRUnit; KRHit [E 1] []; KRUnit;
         KRBase None; KRUnit; KRUnit; KRBusy; KRUnit; KRMiss; KRUnit; KRUnit; KRUnit;
         KRBase None; KRBase None; KRBusy; KRUnit; KRUnit; KRUnit; KRUnit; KRUnit; KRMiss; KRUnit ].
Proof. vm_compute. reflexivity. Qed.

(** the state after the hit: one node with two owners, an occupied unlocked bucket *)
Definition ok_mid : kst :=
  mkK (mkCst [(1%positive, mkC 1 [T1; T0] 2%N)] [(1, E 1); (0, E 1)])
      [bucket0; mkB (Some ent_x1) false] GIdle 0 false [].

Example ok_mid_run : krun KBdd ex_terms 2 good (kinit 2) (firstn 7 ok_sched) = Some ok_mid.
Proof. vm_compute. reflexivity. Qed.

(** the hypotheses of the theorems are satisfiable by a non-trivial state *)
Example ok_mid_inv : KInv KBdd ex_terms 2 ok_mid.
Proof. apply (kreachable_inv KBdd ex_terms 2 2 (firstn 7 ok_sched)). exact ok_mid_run. Qed.

Example ok_mid_checks :
  no_dangling_b KBdd ex_terms ok_mid = true /\ dangling_unlocked_b KBdd ex_terms ok_mid = false /\
  cinv_b KBdd ex_terms 2 (kc ok_mid) = true.
Proof. vm_compute. auto. Qed.

(** the projected log is accepted by the replay *)
Example ok_log :
  match ktrace KBdd ex_terms 2 (kinit 2) ok_sched with
  | Some (_, log) =>
    length log = 11 /\
    lrun KBdd ex_terms 2 (labs_unknown (kinit 2)) log =
      Some (mkL [] [LEmpty; LEmpty] GIdle 0)
  | None => False
  end.
Proof. vm_compute. auto. Qed.

(** ** refutation 1: empty buckets are not kept locked *)

Definition skip_sched : list kact :=
  [ KBase (AGoi 0 1 [T1; T0] 1)          (* thread 0 holds x1 *)
  ; GcBegin
  ; GcLockBucket 0; GcLockBucket 1        (* both buckets are empty: "nothing to invalidate" *)
  ; GcSweepBegin
  ; CTryLock 0 1; CAdd 0 1 ent_x1; CUnlock 0 1      (* insertion DURING the sweep *)
  ; KBase (ARelease 0 (E 1))              (* the result is dropped *)
  ; KBase (AGcNode 1)                     (* ... and freed by this very collection *)
  ; GcSweepDone
  ; GcUnlockBucket 0; GcUnlockBucket 1
  ; GcEnd
  ].

Definition skip_final : kst :=
  mkK cempty [bucket0; mkB (Some ent_x1) false] GIdle 0 false [].

Theorem skip_empty_dangling :
  krun KBdd ex_terms 2 proto_skip_empty (kinit 2) skip_sched = Some skip_final /\
  dangling_unlocked_b KBdd ex_terms skip_final = true /\
  no_dangling_b KBdd ex_terms skip_final = false.
Proof. vm_compute. auto. Qed.

(** the next lookup returns the dangling edge: the thread owns a handle to a node that is
    not stored *)
Theorem skip_empty_hit_corrupts :
  exists s, krun KBdd ex_terms 2 proto_skip_empty skip_final [CTryLock 1 1; CGet 1 1 7 [E 1; T1] []] = Some s /\
            In (1, E 1) (cown (kc s)) /\ cfind (cn (kc s)) 1%positive = None /\
            cinv_b KBdd ex_terms 2 (kc s) = false.
Proof. eexists. vm_compute. split; [reflexivity|]. auto. Qed.

(** the code's protocol does not allow this schedule (the insertion finds the bucket busy) *)
Theorem skip_sched_impossible : krun KBdd ex_terms 2 good (kinit 2) skip_sched = None.
Proof. vm_compute. reflexivity. Qed.

(** ** refutation 2: a `lock()` that two parties can acquire *)

Definition blind_sched : list kact :=
  [ KBase (AGoi 0 1 [T1; T0] 1)
  ; GcBegin
  ; GcPeek 0                              (* the collector's `load`: false *)
  ; CTryLock 0 0                          (* the worker's swap comes first: it holds the bucket *)
  ; GcLockBucket 0                        (* the collector's swap: the value read (true) is ignored *)
  ; CAdd 0 0 ent_x1                       (* the worker writes after the collector's clear *)
  ; CUnlock 0 0                           (* store(false): releases the collector's hold as well *)
  ; GcSweepBegin
  ; KBase (ARelease 0 (E 1))
  ; KBase (AGcNode 1)
  ; GcSweepDone
  ; GcUnlockBucket 0
  ; GcEnd
  ].

Definition blind_final : kst := mkK cempty [mkB (Some ent_x1) false] GIdle 0 false [].

Theorem blind_lock_dangling :
  krun KBdd ex_terms 2 proto_blind_lock (kinit 1) blind_sched = Some blind_final /\
  dangling_unlocked_b KBdd ex_terms blind_final = true /\
  no_dangling_b KBdd ex_terms blind_final = false.
Proof. vm_compute. auto. Qed.

(** already during the sweep the bucket is occupied and unlocked *)
Theorem blind_lock_mid :
  exists s, krun KBdd ex_terms 2 proto_blind_lock (kinit 1) (firstn 8 blind_sched) = Some s /\
            kph s = GSweep /\ kb s = [mkB (Some ent_x1) false].
Proof. eexists. vm_compute. auto. Qed.

Theorem blind_lock_hit_corrupts :
  exists s, krun KBdd ex_terms 2 proto_blind_lock blind_final [CTryLock 1 0; CGet 1 0 7 [E 1; T1] []] = Some s /\
            In (1, E 1) (cown (kc s)) /\ cfind (cn (kc s)) 1%positive = None /\
            cinv_b KBdd ex_terms 2 (kc s) = false.
Proof. eexists. vm_compute. split; [reflexivity|]. auto. Qed.

(** with the code's atomic swap the collector cannot take the bucket the worker holds *)
Theorem blind_sched_impossible : krun KBdd ex_terms 2 good (kinit 1) blind_sched = None.
Proof. vm_compute. reflexivity. Qed.

(** the replay rejects the logs of both broken runs: the insertion falls between the
    collector's lock and unlock events of the bucket *)
Theorem broken_logs_rejected :
  lrun KBdd ex_terms 2 (labs_unknown (kinit 2))
    [ LTbl (TGoi 1 [T1; T0] 1); LPreGc 2; LSweep ] = None /\
  lrun KBdd ex_terms 2 (labs_unknown (kinit 1))
    [ LTbl (TGoi 1 [T1; T0] 1); LPreGc 1; LLock 0; LAdd 0 [E 1; T1] [E 1] ] = None.
Proof. vm_compute. auto. Qed.
