(** * C07 — the log-level replay ([lstep]) of the cache protocol

    [ksim] / [ktrace_sim]: every behaviour of the full model (any schedule, the code's
      protocol) projects onto a log that [lstep] accepts: a log the driver's replay REJECTS
      is not a behaviour of the proved model.
    [lstep_inv] / [lrun_inv]: conversely every log that [lstep] accepts keeps, at every
      point, all determined cache entries free of dangling edges and the buckets held by
      the collector empty: a log the replay ACCEPTS exhibits no dangling weak edge. *)

From Coq Require Import List NArith PArith Bool Arith Lia.
From OxiVerif Require Import DD.Table DD.TableProofs
  Mgr.Conc Mgr.ConcBase Mgr.ConcProofs Mgr.ConcCache Mgr.ConcCacheProofs Mgr.ConcCacheThms.
Import ListNotations.

Section Log.
Variable k : kind.
Variable terms : list (N * N).
Variable nl : nat.

Notation step := (step k terms nl).
Notation step_tbl := (step_tbl k terms nl).
Notation edge_ok_b := (edge_ok_b k terms).
Notation CInv := (CInv k terms nl).
Notation KInv := (KInv k terms nl).
Notation TInv := (TInv k terms nl).
Notation kstep := (kstep k terms nl).
Notation lstep := (lstep k terms nl).
Notation lrun := (lrun k terms nl).
Notation ledges_ok_b := (ledges_ok_b k terms).

(** ** abstraction: what the log-level state knows about the full state *)

Definition lent_abs (le : lentry) (o : option centry) : Prop :=
  match le with
  | LUnknown => True
  | LEmpty => o = None
  | LFull a v => exists c, o = Some c /\ ce_args c = a /\ ce_vals c = v
  end.

(** the end of the sweep is not logged *)
Definition phase_abs (s : kst) (l : lst) : Prop :=
  (lph l = kph s /\ lnext l = knext s) \/ (kph s = GUnlock /\ knext s = 0 /\ lph l = GSweep).

Record labs (s : kst) (l : lst) : Prop := mkLabs {
  la_t : lt l = cn_shape (cn (kc s));
  la_len : length (lb l) = length (kb s);
  la_ent : forall b le bk, nth_error (lb l) b = Some le -> nth_error (kb s) b = Some bk ->
      lent_abs le (b_ent bk);
  la_ph : phase_abs s l
}.

(** the log-level state that knows nothing about the cache contents *)
Definition labs_unknown (s : kst) : lst :=
  mkL (cn_shape (cn (kc s))) (repeat LUnknown (length (kb s))) (kph s) (knext s).

Lemma nth_error_repeat' : forall (A : Type) (x : A) n i, i < n -> nth_error (repeat x n) i = Some x.
Proof.
  induction n as [|n IH]; intros [|i] H; simpl; try lia; [reflexivity | apply IH; lia].
Qed.

Theorem labs_of_state : forall s, labs s (labs_unknown s).
Proof.
  intros s. constructor; simpl.
  - reflexivity.
  - apply repeat_length.
  - intros b le bk Hn _. apply nth_error_repeat in Hn. subst. exact I.
  - left. auto.
Qed.

Lemma claimed_abs : forall s l b, labs s l ->
  gc_claimed_b (lph l) (lnext l) (length (lb l)) b = gc_claimed_b (kph s) (knext s) (length (kb s)) b.
Proof.
  intros s l b A. rewrite (la_len s l A).
  destruct (la_ph s l A) as [[-> ->]|[-> [-> ->]]]; [reflexivity|].
  unfold gc_claimed_b. simpl. reflexivity.
Qed.

Lemma labs_nth : forall s l b bk, labs s l -> nth_error (kb s) b = Some bk ->
  exists le, nth_error (lb l) b = Some le.
Proof.
  intros s l b bk A Hn. destruct (nth_error (lb l) b) as [le|] eqn:E; [eauto|].
  apply nth_error_None in E. rewrite (la_len s l A) in E.
  assert (b < length (kb s)) by (apply nth_error_Some; congruence). lia.
Qed.

(** only the lock bit of a bucket changes *)
Lemma labs_set_bit : forall s l l' b bk x c' ph nx pk wk, labs s l -> nth_error (kb s) b = Some bk ->
  cn_shape (cn c') = cn_shape (cn (kc s)) -> lt l' = lt l -> lb l' = lb l ->
  phase_abs (mkK c' (upd_nth (kb s) b (set_bit bk x)) ph nx pk wk) l' ->
  labs (mkK c' (upd_nth (kb s) b (set_bit bk x)) ph nx pk wk) l'.
Proof.
  intros s l l' b bk x c' ph nx pk wk A Hn Hsh Elt Elb Hph. constructor; simpl.
  - rewrite Hsh, Elt. apply (la_t s l A).
  - rewrite length_upd_nth, Elb. apply (la_len s l A).
  - rewrite Elb. intros b' le bk' Hl Hn'. apply nth_error_upd_nth in Hn'.
    destruct Hn' as [[<- ->]|[_ Hn']]; [apply (la_ent s l A b le bk Hl Hn) | apply (la_ent s l A b' le bk' Hl Hn')].
  - exact Hph.
Qed.

Lemma entry_edges_ok_shape : forall t c, forallb (edge_ok_b t) (ce_edges c) = true ->
  ledges_ok_b (cn_shape t) (ce_args c) (ce_vals c) = true.
Proof.
  intros t c H. unfold ConcCache.ledges_ok_b. fold (ce_edges c). rewrite forallb_forall in *.
  intros e He. rewrite (edge_ok_b_cn_shape k terms). apply H. exact He.
Qed.

(** 1. the log-level replay simulates the full model *)
Theorem ksim : forall s l a s' r, KInv s -> labs s l -> kstep good s a = Some (s', r) ->
  match kerase s a r with
  | Some la => exists l', lstep l la = Some l' /\ labs s' l'
  | None => labs s' l
  end.
Proof.
  intros s l a s' r H A Hs.
  destruct a as [a0|tid b|tid b c|tid b op args nums|tid b| |b|b| | |b| ]; simpl in Hs; simpl kerase.
  - (* action of Mgr/Conc.v *)
    destruct (is_gc_act a0 && negb (gphase_eqb (kph s) GSweep)) eqn:G; [discriminate|].
    destruct (step (kc s) a0) as [[c' r0]|] eqn:S0; [|discriminate]. inversion Hs; subst.
    pose proof (erase_sim k terms nl _ _ _ _ (ki_c k terms nl s H) S0) as He.
    destruct (erase a0) as [ta|] eqn:Ea.
    + assert (Hg : is_tgc ta && negb (gphase_eqb (lph l) GSweep) = false).
      { destruct a0; simpl in Ea; inversion Ea; subst; simpl; auto.
        simpl in G. destruct (la_ph s l A) as [[-> _]|[Hp _]]; [exact G|].
        rewrite Hp in G. discriminate. }
      unfold ConcCache.lstep. rewrite Hg, (la_t s l A), He. eexists. split; [reflexivity|].
      constructor; simpl; try apply A. reflexivity.
    + destruct He as [He _]. constructor; simpl; try apply A. rewrite He. apply (la_t s l A).
  - (* try_lock *)
    destruct (existsb _ (kwk s)); [discriminate|].
    destruct (nth_error (kb s) b) as [bk|] eqn:Hn; [|discriminate].
    destruct (b_bit bk); inversion Hs; subst; [exact A|].
    apply (labs_set_bit s l); auto. apply (la_ph s l A).
  - (* add *)
    destruct (has_claim (kwk s) (tid, b)) eqn:Hc; [|discriminate]. apply has_claim_In in Hc.
    destruct (nth_error (kb s) b) as [bk|] eqn:Hn; [|discriminate].
    destruct (forallb (addable_b k terms nl (kc s)) (ce_edges c)) eqn:Ha; [|discriminate].
    inversion Hs; subst.
    pose proof (worker_not_claimed k terms nl s tid b H Hc) as Hnc. unfold claimed in Hnc.
    destruct (labs_nth s l b bk A Hn) as [le Hl].
    unfold ConcCache.lstep. rewrite (claimed_abs s l b A).
    destruct (gc_claimed_b (kph s) (knext s) (length (kb s)) b); [congruence|]. rewrite Hl.
    assert (Hok : ledges_ok_b (lt l) (ce_args c) (ce_vals c) = true).
    { rewrite (la_t s l A). apply entry_edges_ok_shape. rewrite forallb_forall in *.
      intros e He. apply (addable_ok k terms nl); [apply (ki_c k terms nl s H) | apply Ha; exact He]. }
    rewrite Hok. eexists. split; [reflexivity|].
    constructor; simpl.
    + apply (la_t s l A).
    + rewrite !length_upd_nth. apply (la_len s l A).
    + intros b' le' bk' Hl' Hn'. apply nth_error_upd_nth in Hl'. apply nth_error_upd_nth in Hn'.
      destruct Hl' as [[<- ->]|[Hne Hl']]; destruct Hn' as [[E ->]|[Hne' Hn']]; try congruence.
      * simpl. exists c. auto.
      * apply (la_ent s l A b' le' bk' Hl' Hn').
    + apply (la_ph s l A).
  - (* get *)
    destruct (has_claim (kwk s) (tid, b)) eqn:Hc; [|discriminate]. apply has_claim_In in Hc.
    destruct (nth_error (kb s) b) as [bk|] eqn:Hn; [|discriminate].
    destruct (b_ent bk) as [c|] eqn:He; [|inversion Hs; subst; exact A].
    destruct (key_match op args nums c); [|inversion Hs; subst; exact A].
    inversion Hs; subst.
    pose proof (worker_not_claimed k terms nl s tid b H Hc) as Hnc. unfold claimed in Hnc.
    destruct (labs_nth s l b bk A Hn) as [le Hl].
    unfold ConcCache.lstep. rewrite (claimed_abs s l b A).
    destruct (gc_claimed_b (kph s) (knext s) (length (kb s)) b); [congruence|]. rewrite Hl.
    assert (Hok : ledges_ok_b (lt l) (ce_args c) (ce_vals c) = true).
    { rewrite (la_t s l A). apply entry_edges_ok_shape. apply forallb_forall.
      intros e Hin. apply (ki_ent k terms nl s H b bk c e Hn He Hin). }
    rewrite Hok.
    pose proof (la_ent s l A b le bk Hl Hn) as Hab. rewrite He in Hab.
    destruct le as [| |a0 v0]; simpl in Hab.
    + eexists. split; [reflexivity|]. constructor; simpl.
      * rewrite retain_all_shape. apply (la_t s l A).
      * rewrite length_upd_nth. apply (la_len s l A).
      * intros b' le' bk' Hl' Hn'. apply nth_error_upd_nth in Hl'.
        destruct Hl' as [[<- ->]|[Hne Hl']]; [|apply (la_ent s l A b' le' bk' Hl' Hn')].
        rewrite Hn in Hn'. inversion Hn'; subst bk'. simpl. exists c. auto.
      * apply (la_ph s l A).
    + discriminate.
    + destruct Hab as [c' [Ec [Ea Ev]]]. inversion Ec; subst c'. subst a0 v0.
      rewrite (proj2 (edges_eqb_eq _ _) eq_refl), (proj2 (edges_eqb_eq _ _) eq_refl). simpl.
      eexists. split; [reflexivity|]. constructor; simpl; try apply A.
      rewrite retain_all_shape. apply (la_t s l A).
  - (* unlock by a worker *)
    destruct (has_claim (kwk s) (tid, b)); [|discriminate].
    destruct (nth_error (kb s) b) as [bk|] eqn:Hn; [|discriminate]. inversion Hs; subst.
    apply (labs_set_bit s l); auto. apply (la_ph s l A).
  - (* gc begins *)
    destruct (kph s) eqn:Hp; try discriminate. inversion Hs; subst.
    unfold ConcCache.lstep.
    destruct (la_ph s l A) as [[E1 E2]|[E1 _]]; [|congruence]. rewrite E1, Hp, (la_len s l A), Nat.eqb_refl.
    eexists. split; [reflexivity|]. constructor; simpl; try apply A. left. auto.
  - (* peek *)
    destruct (kph s) eqn:Hp; try discriminate.
    destruct (Nat.eqb b (knext s)); [|discriminate].
    destruct (nth_error (kb s) b) as [bk|]; [|discriminate].
    destruct (b_bit bk); [discriminate|]. inversion Hs; subst.
    destruct (la_ph s l A) as [[E1 E2]|[E1 _]]; [|congruence].
    constructor; simpl; [apply (la_t s l A) | apply (la_len s l A) | apply (la_ent s l A) |].
    left. simpl. rewrite <- Hp. auto.
  - (* pre_gc: one bucket *)
    destruct (kph s) eqn:Hp; try discriminate.
    destruct (Nat.eqb_spec b (knext s)) as [Eb|]; [|discriminate].
    destruct (nth_error (kb s) b) as [bk|] eqn:Hn; [|discriminate].
    simpl in Hs. destruct (negb (b_bit bk)); [|discriminate].
    assert (Hs' : s' = mkK (kc s) (upd_nth (kb s) b (mkB None true)) GLock (S (knext s)) false (kwk s)).
    { destruct (b_ent bk); inversion Hs; reflexivity. }
    clear Hs. subst s'.
    assert (Hlt : b < length (kb s)) by (apply nth_error_Some; congruence).
    destruct (la_ph s l A) as [[E1 E2]|[E1 _]]; [|congruence].
    unfold ConcCache.lstep. rewrite E1, Hp, E2, (la_len s l A).
    rewrite (proj2 (Nat.eqb_eq _ _) Eb), (proj2 (Nat.ltb_lt _ _) Hlt). simpl.
    eexists. split; [reflexivity|]. constructor; simpl.
    + apply (la_t s l A).
    + rewrite !length_upd_nth. apply (la_len s l A).
    + intros b' le' bk' Hl' Hn'. apply nth_error_upd_nth in Hl'. apply nth_error_upd_nth in Hn'.
      destruct Hl' as [[<- ->]|[Hne Hl']]; destruct Hn' as [[E ->]|[Hne' Hn']]; try congruence.
      * reflexivity.
      * apply (la_ent s l A b' le' bk' Hl' Hn').
    + left. auto.
  - (* the sweep begins *)
    destruct (kph s) eqn:Hp; try discriminate.
    destruct (Nat.eqb_spec (knext s) (length (kb s))) as [En|]; [|discriminate]. inversion Hs; subst.
    destruct (la_ph s l A) as [[E1 E2]|[E1 _]]; [|congruence].
    unfold ConcCache.lstep. rewrite E1, Hp, E2, (la_len s l A), En, Nat.eqb_refl.
    eexists. split; [reflexivity|]. constructor; simpl; try apply A. left. auto.
  - (* the sweep is done: not logged *)
    destruct (kph s) eqn:Hp; try discriminate. inversion Hs; subst.
    destruct (la_ph s l A) as [[E1 E2]|[E1 _]]; [|congruence].
    constructor; simpl; try apply A. right. rewrite E1, Hp. auto.
  - (* post_gc: one bucket *)
    destruct (kph s) eqn:Hp; try discriminate.
    destruct (Nat.eqb_spec b (knext s)) as [Eb|]; [|discriminate].
    destruct (nth_error (kb s) b) as [bk|] eqn:Hn; [|discriminate]. inversion Hs; subst.
    assert (Hlt : knext s < length (kb s)) by (apply nth_error_Some; congruence).
    unfold ConcCache.lstep. rewrite (la_len s l A).
    destruct (la_ph s l A) as [[E1 E2]|[_ [E2 E3]]].
    + rewrite E1, Hp, E2, Nat.eqb_refl, (proj2 (Nat.ltb_lt _ _) Hlt). simpl.
      eexists. split; [reflexivity|]. apply (labs_set_bit s l); auto. left. simpl. auto.
    + rewrite E3, E2. rewrite E2 in Hlt. simpl. rewrite (proj2 (Nat.ltb_lt _ _) Hlt).
      eexists. split; [reflexivity|]. rewrite E2 in Hn. apply (labs_set_bit s l); auto.
      left. simpl. auto.
  - (* gc ends *)
    destruct (kph s) eqn:Hp; try discriminate.
    destruct (Nat.eqb_spec (knext s) (length (kb s))) as [En|]; [|discriminate]. inversion Hs; subst.
    unfold ConcCache.lstep. rewrite (la_len s l A).
    destruct (la_ph s l A) as [[E1 E2]|[_ [E2 E3]]].
    + rewrite E1, Hp, E2, En, Nat.eqb_refl.
      eexists. split; [reflexivity|]. constructor; simpl; try apply A. left. auto.
    + rewrite E3. rewrite E2 in En. rewrite <- En. simpl.
      eexists. split; [reflexivity|]. constructor; simpl; try apply A. left. auto.
Qed.

(** the log of a schedule: the projected events of the enabled actions, in order *)
Fixpoint ktrace (s : kst) (sched : list kact) : option (kst * list lact) :=
  match sched with
  | [] => Some (s, [])
  | a :: rest =>
    match kstep good s a with
    | None => None
    | Some (s1, r) =>
      match ktrace s1 rest with
      | None => None
      | Some (s', log) =>
        Some (s', match kerase s a r with Some la => la :: log | None => log end)
      end
    end
  end.

Theorem ktrace_sim : forall sched s l s' log, KInv s -> labs s l -> ktrace s sched = Some (s', log) ->
  exists l', lrun l log = Some l' /\ labs s' l'.
Proof.
  induction sched as [|a rest IH]; intros s l s' log H A Ht; simpl in Ht.
  - inversion Ht; subst. exists l. split; [reflexivity | exact A].
  - destruct (kstep good s a) as [[s1 r]|] eqn:Hs; [|discriminate].
    destruct (ktrace s1 rest) as [[s2 log2]|] eqn:Hr; [|discriminate]. inversion Ht; subst.
    pose proof (kstep_inv k terms nl _ _ _ _ H Hs) as H1.
    pose proof (ksim s l a s1 r H A Hs) as Hk.
    destruct (kerase s a r) as [la|].
    + destruct Hk as [l1 [Hl A1]]. simpl. rewrite Hl. apply (IH s1 l1 s' log2 H1 A1 Hr).
    + apply (IH s1 l s' log2 H1 Hk Hr).
Qed.

(** ** 2. what an accepted log guarantees *)

Record LInv (l : lst) : Prop := mkLInv {
  li_t : TInv (lt l);
  (* NO DANGLING WEAK EDGE in any entry the log determines *)
  li_ent : forall b a v, nth_error (lb l) b = Some (LFull a v) -> ledges_ok_b (lt l) a v = true;
  (* buckets held by the collector are empty *)
  li_gc : forall b le, nth_error (lb l) b = Some le ->
      gc_claimed_b (lph l) (lnext l) (length (lb l)) b = true -> le = LEmpty
}.

Lemma step_tbl_goi_keeps_ok : forall t lvl ch fr t' r e,
  step_tbl t (TGoi lvl ch fr) = Some (t', r) -> edge_ok_b t e = true -> edge_ok_b t' e = true.
Proof.
  intros t lvl ch fr t' r e Hs Hok. unfold Conc.step_tbl in Hs.
  destruct (node_pre_b k terms nl t lvl ch); [|discriminate].
  destruct (find_shape t lvl ch); [inversion Hs; subst; exact Hok|].
  destruct (cfind t fr) eqn:F; [discriminate|]. inversion Hs; subst.
  apply (edge_ok_b_ext k terms t); [|exact Hok].
  intros id nd _ Fi. exists nd. rewrite cfind_cons.
  destruct (Pos.eqb_spec fr id) as [E|_]; [congruence | exact Fi].
Qed.

Theorem lstep_inv : forall l a l', LInv l -> lstep l a = Some l' -> LInv l'.
Proof.
  intros l a l' H Hs. destruct a as [a0|n|b| |b| |b a v|b a v]; unfold ConcCache.lstep in Hs.
  - destruct (is_tgc a0 && negb (gphase_eqb (lph l) GSweep)) eqn:G; [discriminate|].
    destruct (step_tbl (lt l) a0) as [[t' r]|] eqn:S0; [|discriminate]. inversion Hs; subst.
    constructor; simpl.
    + apply (step_tbl_inv k terms nl _ _ _ _ (li_t l H) S0).
    + intros b a v Hn. destruct a0 as [lvl ch fr|id].
      * pose proof (li_ent l H b a v Hn) as Hok. unfold ConcCache.ledges_ok_b in *.
        rewrite forallb_forall in *. intros e He.
        apply (step_tbl_goi_keeps_ok _ _ _ _ _ _ e S0). apply Hok. exact He.
      * simpl in G. assert (Hp : lph l = GSweep) by (destruct (lph l); simpl in G; congruence).
        assert (C : gc_claimed_b (lph l) (lnext l) (length (lb l)) b = true).
        { rewrite Hp. unfold gc_claimed_b. apply andb_true_iff. split; [|reflexivity].
          apply Nat.ltb_lt. apply nth_error_Some. congruence. }
        pose proof (li_gc l H b _ Hn C). discriminate.
    + apply (li_gc l H).
  - destruct (lph l) eqn:Hp; try discriminate. destruct (Nat.eqb n (length (lb l))); [|discriminate].
    inversion Hs; subst. constructor; simpl; try apply H.
    intros b le Hn C. gcc. lia.
  - destruct (lph l) eqn:Hp; try discriminate.
    destruct (Nat.eqb b (lnext l) && Nat.ltb b (length (lb l))) eqn:G; [|discriminate].
    inversion Hs; subst. apply andb_true_iff in G. destruct G as [G1 G2].
    apply Nat.eqb_eq in G1. apply Nat.ltb_lt in G2.
    constructor; simpl; try rewrite length_upd_nth.
    + apply (li_t l H).
    + intros b' a v Hn. apply nth_error_upd_nth in Hn. destruct Hn as [[_ E]|[_ Hn]]; [discriminate|].
      apply (li_ent l H b' a v Hn).
    + intros b' le Hn C. apply nth_error_upd_nth in Hn. destruct Hn as [[_ E]|[Hne Hn]]; [exact E|].
      apply (li_gc l H b' le Hn). rewrite Hp. gcc; lia.
  - destruct (lph l) eqn:Hp; try discriminate.
    destruct (Nat.eqb_spec (lnext l) (length (lb l))) as [En|]; [|discriminate].
    inversion Hs; subst. constructor; simpl; try apply H.
    intros b le Hn C. apply (li_gc l H b le Hn). rewrite Hp. gcc; lia.
  - assert (Hcase : exists next, (lph l = GSweep /\ next = 0 \/ lph l = GUnlock /\ next = lnext l) /\
              b = next /\ b < length (lb l) /\ l' = mkL (lt l) (lb l) GUnlock (S next)).
    { destruct (lph l) eqn:Hp; try discriminate.
      - destruct (Nat.eqb b 0 && Nat.ltb b (length (lb l))) eqn:G; [|discriminate].
        apply andb_true_iff in G. destruct G as [G1 G2]. apply Nat.eqb_eq in G1. apply Nat.ltb_lt in G2.
        inversion Hs; subst. exists 0. auto.
      - destruct (Nat.eqb b (lnext l) && Nat.ltb b (length (lb l))) eqn:G; [|discriminate].
        apply andb_true_iff in G. destruct G as [G1 G2]. apply Nat.eqb_eq in G1. apply Nat.ltb_lt in G2.
        inversion Hs; subst. exists (lnext l). auto. }
    destruct Hcase as [next [Hph [Eb [Hlt ->]]]]. constructor; simpl; try apply H.
    intros b' le Hn C. apply (li_gc l H b' le Hn).
    destruct Hph as [[-> ->]|[-> ->]]; gcc; auto; lia.
  - assert (Hl' : l' = mkL (lt l) (lb l) GIdle 0).
    { destruct (lph l); try discriminate.
      - destruct (Nat.eqb (length (lb l)) 0); inversion Hs; reflexivity.
      - destruct (Nat.eqb (lnext l) (length (lb l))); inversion Hs; reflexivity. }
    subst l'. constructor; simpl; try apply H. intros b le Hn C. gcc. discriminate.
  - destruct (gc_claimed_b (lph l) (lnext l) (length (lb l)) b) eqn:C0; [discriminate|].
    destruct (nth_error (lb l) b) as [le0|] eqn:Hn0; [|discriminate].
    destruct (ledges_ok_b (lt l) a v) eqn:Hok; [|discriminate]. inversion Hs; subst.
    constructor; simpl; try rewrite length_upd_nth.
    + apply (li_t l H).
    + intros b' a' v' Hn. apply nth_error_upd_nth in Hn. destruct Hn as [[_ E]|[_ Hn]].
      * inversion E; subst. exact Hok.
      * apply (li_ent l H b' a' v' Hn).
    + intros b' le Hn C. apply nth_error_upd_nth in Hn. destruct Hn as [[<- _]|[_ Hn]]; [congruence|].
      apply (li_gc l H b' le Hn C).
  - destruct (gc_claimed_b (lph l) (lnext l) (length (lb l)) b) eqn:C0; [discriminate|].
    destruct (nth_error (lb l) b) as [le0|] eqn:Hn0; [|discriminate].
    destruct (ledges_ok_b (lt l) a v) eqn:Hok; [|discriminate].
    destruct le0 as [| |a0 v0]; [|discriminate|].
    + inversion Hs; subst. constructor; simpl; try rewrite length_upd_nth.
      * apply (li_t l H).
      * intros b' a' v' Hn. apply nth_error_upd_nth in Hn. destruct Hn as [[_ E]|[_ Hn]].
        -- inversion E; subst. exact Hok.
        -- apply (li_ent l H b' a' v' Hn).
      * intros b' le Hn C. apply nth_error_upd_nth in Hn. destruct Hn as [[<- _]|[_ Hn]]; [congruence|].
        apply (li_gc l H b' le Hn C).
    + destruct (edges_eqb a a0 && edges_eqb v v0); inversion Hs; subst. exact H.
Qed.

Theorem lrun_inv : forall log l l', LInv l -> lrun l log = Some l' -> LInv l'.
Proof.
  induction log as [|a r IH]; intros l l' H Hr; simpl in Hr.
  - inversion Hr; subst. exact H.
  - destruct (lstep l a) as [l1|] eqn:Hs; [|discriminate].
    apply (IH l1 l' (lstep_inv l a l1 H Hs) Hr).
Qed.

(** the state the replay of a block starts from: the table of the snapshot, nothing known
    about the cache contents, no collection in progress *)
Theorem LInv_start : forall t nb, TInv t -> LInv (mkL t (repeat LUnknown nb) GIdle 0).
Proof.
  intros t nb Ht. constructor; simpl.
  - exact Ht.
  - intros b a v Hn. apply nth_error_repeat in Hn. discriminate.
  - intros b le Hn C. gcc. discriminate.
Qed.

(** a hit accepted by the replay names stored nodes only *)
Theorem lhit_no_dangling : forall l b a v l' e, lstep l (LHit b a v) = Some l' -> In e (a ++ v) ->
  edge_ok_b (lt l) e = true.
Proof.
  intros l b a v l' e Hs He. unfold ConcCache.lstep in Hs.
  destruct (gc_claimed_b (lph l) (lnext l) (length (lb l)) b); [discriminate|].
  destruct (nth_error (lb l) b); [|discriminate].
  destruct (ledges_ok_b (lt l) a v) eqn:Hok; [|discriminate].
  unfold ConcCache.ledges_ok_b in Hok. rewrite forallb_forall in Hok. apply Hok. exact He.
Qed.

(** ** 3. the compressed log *)

Lemma clear_range_nil : forall f c, clear_range [] f c = [].
Proof. intros. reflexivity. Qed.

Lemma clear_range_1 : forall l f, clear_range l f 1 = upd_nth l f LEmpty.
Proof.
  induction l as [|x r IH]; intros [|f]; simpl; auto.
  - destruct r; reflexivity.
  - rewrite IH. reflexivity.
Qed.

Lemma clear_range_S : forall l f c, clear_range (upd_nth l f LEmpty) (S f) c = clear_range l f (S c).
Proof.
  induction l as [|x r IH]; intros [|f] c; simpl; auto.
  rewrite IH. reflexivity.
Qed.

Lemma lrun_cons : forall l a r,
  lrun l (a :: r) = match lstep l a with Some l' => lrun l' r | None => None end.
Proof. reflexivity. Qed.

Lemma lstep_lock : forall l f,
  lstep l (LLock f) =
  match lph l with
  | GLock => if Nat.eqb f (lnext l) && Nat.ltb f (length (lb l))
             then Some (mkL (lt l) (upd_nth (lb l) f LEmpty) GLock (S (lnext l))) else None
  | _ => None
  end.
Proof. reflexivity. Qed.

Lemma lstep_unlock : forall l f,
  lstep l (LUnlock f) =
  match lph l with
  | GSweep => if Nat.eqb f 0 && Nat.ltb f (length (lb l))
              then Some (mkL (lt l) (lb l) GUnlock 1) else None
  | GUnlock => if Nat.eqb f (lnext l) && Nat.ltb f (length (lb l))
               then Some (mkL (lt l) (lb l) GUnlock (S (lnext l))) else None
  | _ => None
  end.
Proof. intros l f. unfold ConcCache.lstep. destruct (lph l); reflexivity. Qed.

Theorem lock_run_eq : forall c l f, lrun l (map LLock (seq f (S c))) = llock_run l f (S c).
Proof.
  induction c as [|c IH]; intros l f.
  - change (map LLock (seq f 1)) with [LLock f]. rewrite lrun_cons, lstep_lock.
    unfold llock_run. destruct (lph l); try reflexivity.
    rewrite Nat.add_1_r. change (Nat.leb (S f) (length (lb l))) with (Nat.ltb f (length (lb l))).
    destruct (Nat.eqb_spec f (lnext l)) as [->|]; [|reflexivity].
    destruct (Nat.ltb (lnext l) (length (lb l))); [|reflexivity]. cbn [andb lrun].
    rewrite clear_range_1. reflexivity.
  - change (map LLock (seq f (S (S c)))) with (LLock f :: map LLock (seq (S f) (S c))).
    rewrite lrun_cons, lstep_lock. unfold llock_run at 1. destruct (lph l) eqn:Hp; try reflexivity.
    destruct (Nat.eqb_spec f (lnext l)) as [E|Hne]; cbn [andb]; [|reflexivity].
    destruct (Nat.ltb_spec f (length (lb l))) as [Hlt|Hge].
    + rewrite IH. unfold llock_run. cbn [lph lnext lb lt].
      rewrite length_upd_nth. rewrite <- E. rewrite Nat.eqb_refl. cbn [andb].
      replace (S f + S c) with (f + S (S c)) by lia.
      destruct (Nat.leb (f + S (S c)) (length (lb l))); [|reflexivity].
      rewrite clear_range_S. reflexivity.
    + destruct (Nat.leb_spec (f + S (S c)) (length (lb l))) as [Hle|_]; [lia | reflexivity].
Qed.

Theorem unlock_run_eq : forall c l f, lrun l (map LUnlock (seq f (S c))) = lunlock_run l f (S c).
Proof.
  induction c as [|c IH]; intros l f.
  - change (map LUnlock (seq f 1)) with [LUnlock f]. rewrite lrun_cons, lstep_unlock.
    unfold lunlock_run. rewrite Nat.add_1_r.
    change (Nat.leb (S f) (length (lb l))) with (Nat.ltb f (length (lb l))).
    destruct (lph l); try reflexivity.
    + destruct (Nat.eqb_spec f 0) as [->|]; [|reflexivity].
      destruct (Nat.ltb 0 (length (lb l))); reflexivity.
    + destruct (Nat.eqb_spec f (lnext l)) as [->|]; [|reflexivity].
      destruct (Nat.ltb (lnext l) (length (lb l))); reflexivity.
  - change (map LUnlock (seq f (S (S c)))) with (LUnlock f :: map LUnlock (seq (S f) (S c))).
    rewrite lrun_cons, lstep_unlock. unfold lunlock_run at 1.
    assert (Hgen : forall next,
      match (if Nat.eqb f next && Nat.ltb f (length (lb l))
             then Some (mkL (lt l) (lb l) GUnlock (S next)) else None) with
      | Some l' => lrun l' (map LUnlock (seq (S f) (S c)))
      | None => None
      end =
      (if Nat.eqb f next && Nat.leb (f + S (S c)) (length (lb l))
       then Some (mkL (lt l) (lb l) GUnlock (f + S (S c))) else None)).
    { intros next. destruct (Nat.eqb_spec f next) as [E|Hne]; cbn [andb]; [|reflexivity].
      destruct (Nat.ltb_spec f (length (lb l))) as [Hlt|Hge].
      - rewrite IH. unfold lunlock_run. cbn [lph lnext lb lt].
        rewrite <- E. rewrite Nat.eqb_refl. cbn [andb].
        replace (S f + S c) with (f + S (S c)) by lia. reflexivity.
      - destruct (Nat.leb_spec (f + S (S c)) (length (lb l))) as [Hle|_]; [lia | reflexivity]. }
    destruct (lph l) eqn:Hp; try reflexivity.
    + apply (Hgen 0).
    + apply (Hgen (lnext l)).
Qed.

(** a run is well-formed if it is not empty *)
Definition cwf (a : clact) : Prop :=
  match a with CL _ => True | CLockRun _ c | CUnlockRun _ c => c <> 0 end.

(** the compressed replay is the plain replay of the expanded log *)
Theorem clstep_expand : forall l a, cwf a -> lrun l (cexpand a) = clstep k terms nl l a.
Proof.
  intros l [a0|f c|f c] Hw; simpl in *.
  - destruct (lstep l a0); reflexivity.
  - destruct c as [|c]; [congruence|]. apply lock_run_eq.
  - destruct c as [|c]; [congruence|]. apply unlock_run_eq.
Qed.

Lemma lrun_app : forall a b l, lrun l (a ++ b) = match lrun l a with Some l' => lrun l' b | None => None end.
Proof.
  induction a as [|x r IH]; intros b l; simpl; [reflexivity|].
  destruct (lstep l x); [apply IH | reflexivity].
Qed.

Theorem clrun_expand : forall log l, (forall a, In a log -> cwf a) ->
  clrun k terms nl l log = lrun l (flat_map cexpand log).
Proof.
  induction log as [|a r IH]; intros l Hw; simpl; [reflexivity|].
  rewrite lrun_app, (clstep_expand l a (Hw a (or_introl eq_refl))).
  destruct (clstep k terms nl l a); [apply IH; intros; apply Hw; right; assumption | reflexivity].
Qed.

(** an empty run is never accepted *)
Lemma clstep_wf : forall l a l', clstep k terms nl l a = Some l' -> cwf a.
Proof.
  intros l [a0|f c|f c] l' H; simpl in *; auto; destruct c; try discriminate; congruence.
Qed.

(** hence: whatever the compressed replay accepts keeps the log-level invariant *)
Theorem clstep_inv : forall l a l', LInv l -> clstep k terms nl l a = Some l' -> LInv l'.
Proof.
  intros l a l' H Hs. pose proof (clstep_wf l a l' Hs) as Hw.
  rewrite <- (clstep_expand l a Hw) in Hs. apply (lrun_inv _ l l' H Hs).
Qed.

Theorem clrun_inv : forall log l l', LInv l -> clrun k terms nl l log = Some l' -> LInv l'.
Proof.
  induction log as [|a r IH]; intros l l' H Hr; simpl in Hr.
  - inversion Hr; subst. exact H.
  - destruct (clstep k terms nl l a) as [l1|] eqn:Hs; [|discriminate].
    apply (IH l1 l' (clstep_inv l a l1 H Hs) Hr).
Qed.

End Log.
