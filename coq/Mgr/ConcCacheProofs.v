(** * C07 — the apply cache protocol: no dangling weak edge, under every schedule

    [KInv] = the invariant [CInv] of Mgr/ConcProofs.v for the table / counts / tokens
           + every edge of every cache entry points to a stored node or existing terminal
             (NO DANGLING WEAK EDGE -- in every bucket, locked or not)
           + a bucket the collector holds is empty, has its bit set and no worker is in it
           + at most one worker per bucket, and a worker's bucket has its bit set
           + the lock bit is exact (set => held by the collector or by a worker).
    [kstep_inv]: every enabled action of every thread and of the collector preserves it
    under the code's protocol ([good]); [krun_inv]: hence every schedule. *)

From Coq Require Import List NArith PArith Bool Arith Lia.
From OxiVerif Require Import DD.Table DD.TableProofs Mgr.Conc Mgr.ConcBase Mgr.ConcProofs Mgr.ConcCache.
Import ListNotations.

Arguments N.add : simpl never.
Arguments N.sub : simpl never.
Arguments N.mul : simpl never.

(** ** lists *)

Lemma length_upd_nth : forall (A : Type) (l : list A) i x, length (upd_nth l i x) = length l.
Proof. induction l as [|y r IH]; intros [|i] x; simpl; auto. Qed.

Lemma nth_error_upd_nth_eq : forall (A : Type) (l : list A) i x y,
  nth_error l i = Some y -> nth_error (upd_nth l i x) i = Some x.
Proof.
  induction l as [|z r IH]; intros [|i] x y H; simpl in *; try discriminate; auto.
  eapply IH; eauto.
Qed.

Lemma nth_error_upd_nth_ne : forall (A : Type) (l : list A) i j x,
  i <> j -> nth_error (upd_nth l i x) j = nth_error l j.
Proof.
  induction l as [|z r IH]; intros [|i] [|j] x H; simpl; auto; try congruence.
Qed.

Lemma nth_error_upd_nth : forall (A : Type) (l : list A) i j x y,
  nth_error (upd_nth l i x) j = Some y ->
  (i = j /\ y = x) \/ (i <> j /\ nth_error l j = Some y).
Proof.
  intros A l i j x y H. destruct (Nat.eq_dec i j) as [->|Hne].
  - left. split; [reflexivity|].
    destruct (nth_error l j) as [z|] eqn:E.
    + rewrite (nth_error_upd_nth_eq A l j x z E) in H. congruence.
    + exfalso. apply nth_error_None in E.
      assert (nth_error (upd_nth l j x) j <> None) by congruence.
      apply nth_error_Some in H0. rewrite length_upd_nth in H0. lia.
  - right. split; [exact Hne|]. rewrite nth_error_upd_nth_ne in H; auto.
Qed.

Lemma nth_error_repeat : forall (A : Type) (x y : A) n i, nth_error (repeat x n) i = Some y -> y = x.
Proof.
  induction n as [|n IH]; intros [|i] H; simpl in *; try discriminate.
  - congruence.
  - apply (IH i H).
Qed.

(** ** worker claims *)

Lemma claim_eqb_eq : forall a b, claim_eqb a b = true <-> a = b.
Proof.
  intros [a1 a2] [b1 b2]. unfold claim_eqb. simpl.
  rewrite andb_true_iff, !Nat.eqb_eq. split; [intros [-> ->]; reflexivity | intros E; inversion E; auto].
Qed.

Lemma has_claim_In : forall wk x, has_claim wk x = true <-> In x wk.
Proof.
  intros wk x. unfold has_claim. rewrite existsb_exists. split.
  - intros [y [Hy E]]. apply claim_eqb_eq in E. subst. exact Hy.
  - intros H. exists x. split; [exact H | apply claim_eqb_eq; reflexivity].
Qed.

Lemma drop_claim_incl : forall x wk y, In y (drop_claim x wk) -> In y wk.
Proof.
  induction wk as [|z r IH]; intros y H; simpl in *; [exact H|].
  destruct (claim_eqb x z); [right; exact H|].
  destruct H as [<-|H]; [left; reflexivity | right; apply IH; exact H].
Qed.

Lemma drop_claim_snd_incl : forall x wk b, In b (map snd (drop_claim x wk)) -> In b (map snd wk).
Proof.
  intros x wk b H. apply in_map_iff in H. destruct H as [y [E Hy]]. apply in_map_iff.
  exists y. split; [exact E | eapply drop_claim_incl; eauto].
Qed.

Lemma drop_claim_nodup : forall x wk, NoDup (map snd wk) -> NoDup (map snd (drop_claim x wk)).
Proof.
  induction wk as [|z r IH]; intros H; simpl in *; [exact H|].
  inversion H as [|? ? Hz Hr]; subst.
  destruct (claim_eqb x z); [exact Hr|]. simpl. constructor; [|apply IH; exact Hr].
  intros Hin. apply Hz. eapply drop_claim_snd_incl; eauto.
Qed.

Lemma drop_claim_gone : forall x wk, NoDup (map snd wk) -> In x wk ->
  ~ In (snd x) (map snd (drop_claim x wk)).
Proof.
  induction wk as [|z r IH]; intros Hnd Hin; simpl in *; [contradiction|].
  inversion Hnd as [|? ? Hz Hr]; subst.
  destruct (claim_eqb x z) eqn:E.
  - apply claim_eqb_eq in E. subst z. exact Hz.
  - destruct Hin as [->|Hin]; [rewrite (proj2 (claim_eqb_eq x x) eq_refl) in E; discriminate|].
    simpl. intros [E2|H2].
    + apply Hz. rewrite E2. apply in_map. exact Hin.
    + apply (IH Hr Hin H2).
Qed.

Lemma drop_claim_other : forall x wk b, In b (map snd wk) -> b <> snd x -> In b (map snd (drop_claim x wk)).
Proof.
  induction wk as [|z r IH]; intros b H Hne; simpl in *; [exact H|].
  destruct (claim_eqb x z) eqn:E.
  - apply claim_eqb_eq in E. subst z. destruct H as [H|H]; [congruence | exact H].
  - simpl. destruct H as [H|H]; [left; exact H | right; apply IH; auto].
Qed.

(** ** the collector's claim *)

Lemma gc_claimed_lt : forall ph next nb b, gc_claimed_b ph next nb b = true -> b < nb.
Proof.
  intros ph next nb b H. unfold gc_claimed_b in H. apply andb_true_iff in H.
  destruct H as [H _]. apply Nat.ltb_lt. exact H.
Qed.

Ltac gcc :=
  unfold gc_claimed_b in *;
  repeat match goal with
         | H : _ && _ = true |- _ => apply andb_true_iff in H; destruct H
         | H : Nat.ltb _ _ = true |- _ => apply Nat.ltb_lt in H
         | H : Nat.leb _ _ = true |- _ => apply Nat.leb_le in H
         | H : Nat.eqb _ _ = true |- _ => apply Nat.eqb_eq in H
         | |- _ && _ = true => apply andb_true_iff; split
         | |- Nat.ltb _ _ = true => apply Nat.ltb_lt
         | |- Nat.leb _ _ = true => apply Nat.leb_le
         end.

(** ** an action of the threads never removes or alters a stored node (whatever its count) *)

Section Proofs.
Variable k : kind.
Variable terms : list (N * N).
Variable nl : nat.

Notation step := (step k terms nl).
Notation edge_ok_b := (edge_ok_b k terms).
Notation CInv := (CInv k terms nl).
Notation kstep := (kstep k terms nl).
Notation krun := (krun k terms nl).

Theorem step_keeps_shape : forall s a s' r id nd, step s a = Some (s', r) -> is_gc_act a = false ->
  cfind (cn s) id = Some nd ->
  exists nd', cfind (cn s') id = Some nd' /\ cl nd' = cl nd /\ cch nd' = cch nd.
Proof.
  intros s a s' r id nd Hs Hg F.
  assert (Hsh : forall t', cn_shape t' = cn_shape (cn s) ->
            exists nd', cfind t' id = Some nd' /\ cl nd' = cl nd /\ cch nd' = cch nd).
  { intros t' E. apply (shape_eq_find (cn s) t' id nd (eq_sym E) F). }
  destruct a as [tid lvl ch fr|tid e|tid e|tid tid' e|gid|tid e]; simpl in Hs; try discriminate Hg.
  - destruct (node_pre_b k terms nl (cn s) lvl ch); [|discriminate].
    destruct (take_toks tid ch (cown s)) as [own1|]; [|discriminate].
    destruct (find_shape (cn s) lvl ch) as [id0|].
    + inversion Hs; subst. simpl. apply Hsh. unfold rc_inc.
      rewrite cn_shape_rc_upd, cn_shape_dec_children. reflexivity.
    + destruct (cfind (cn s) fr) eqn:Hfr; [discriminate|]. inversion Hs; subst. simpl.
      destruct (Pos.eqb_spec fr id) as [E|_]; [congruence|]. exists nd. auto.
  - destruct (eref e) as [x|j].
    + destruct (cref_ok_b terms (cn s) (RT x)); inversion Hs; subst. exists nd. auto.
    + destruct (can_borrow_b nl s e); [|discriminate]. inversion Hs; subst. simpl.
      apply Hsh. apply cn_shape_rc_upd.
  - destruct (eref e) as [x|j].
    + destruct (cref_ok_b terms (cn s) (RT x)); inversion Hs; subst. exists nd. auto.
    + destruct (take_tok (tid, e) (cown s)); [|discriminate]. inversion Hs; subst. simpl.
      apply Hsh. apply cn_shape_rc_upd.
  - destruct (eref e) as [x|j].
    + destruct (cref_ok_b terms (cn s) (RT x)); inversion Hs; subst. exists nd. auto.
    + destruct (take_tok (tid, e) (cown s)); [|discriminate]. inversion Hs; subst. exists nd. auto.
  - destruct (is_bcdd k); [|discriminate]. destruct (eref e) as [x|j].
    + destruct (cref_ok_b terms (cn s) (RT x)); inversion Hs; subst. exists nd. auto.
    + destruct (take_tok (tid, e) (cown s)); [|discriminate]. inversion Hs; subst. exists nd. auto.
Qed.

Lemma step_keeps_edge_ok : forall s a s' r e, step s a = Some (s', r) -> is_gc_act a = false ->
  edge_ok_b (cn s) e = true -> edge_ok_b (cn s') e = true.
Proof.
  intros s a s' r e Hs Hg H. apply (edge_ok_b_ext k terms (cn s)); [|exact H].
  intros id nd _ F. destruct (step_keeps_shape s a s' r id nd Hs Hg F) as [nd' [F' _]]. eauto.
Qed.

(** ** `clone_edge` of the value edges of a hit *)

Lemma retain_all_shape : forall tid vals s, cn_shape (cn (retain_all tid vals s)) = cn_shape (cn s).
Proof.
  induction vals as [|e r IH]; intros s; simpl; [reflexivity|].
  destruct (eref e) as [x|id]; [apply IH|]. rewrite IH. simpl. apply cn_shape_rc_upd.
Qed.

Lemma retain_all_inv : forall tid vals s, CInv s ->
  (forall e, In e vals -> edge_ok_b (cn s) e = true) -> CInv (retain_all tid vals s).
Proof.
  induction vals as [|e r IH]; intros s H Hok; simpl; [exact H|].
  destruct (eref e) as [x|id] eqn:Er.
  - apply IH; [exact H | intros e' He'; apply Hok; right; exact He'].
  - apply IH.
    + apply (inv_retain k terms nl s tid e id H Er). apply Hok. left. reflexivity.
    + intros e' He'. simpl. rewrite (edge_ok_b_congr k terms _ (cn s)); [|apply cn_shape_rc_upd].
      apply Hok. right. exact He'.
Qed.

Lemma retain_all_tokens : forall tid vals s e id, In e vals -> eref e = RN id ->
  In (tid, e) (cown (retain_all tid vals s)).
Proof.
  assert (Hmono : forall tid vals s o, In o (cown s) -> In o (cown (retain_all tid vals s))).
  { induction vals as [|e r IH]; intros s o Ho; simpl; [exact Ho|].
    destruct (eref e); apply IH; [exact Ho | simpl; right; exact Ho]. }
  induction vals as [|e0 r IH]; intros s e id He Er; simpl; [contradiction|].
  destruct He as [->|He].
  - rewrite Er. apply Hmono. simpl. left. reflexivity.
  - destruct (eref e0); eapply IH; eauto.
Qed.

(** ** the invariant *)

Definition claimed (s : kst) (b : nat) : Prop :=
  gc_claimed_b (kph s) (knext s) (length (kb s)) b = true.

Record KInv (s : kst) : Prop := mkKInv {
  (* table, tokens, exact counts *)
  ki_c : CInv (kc s);
  (* NO DANGLING WEAK EDGE: operand and value edges of every entry of every bucket *)
  ki_ent : forall b bk c e, nth_error (kb s) b = Some bk -> b_ent bk = Some c -> In e (ce_edges c) ->
      edge_ok_b (cn (kc s)) e = true;
  (* a bucket the collector holds is empty and locked, no worker is inside *)
  ki_gc : forall b bk, nth_error (kb s) b = Some bk -> claimed s b ->
      b_ent bk = None /\ b_bit bk = true /\ ~ In b (map snd (kwk s));
  (* at most one worker per bucket *)
  ki_wk1 : NoDup (map snd (kwk s));
  (* a worker's bucket exists and is locked *)
  ki_wk : forall tid b, In (tid, b) (kwk s) -> exists bk, nth_error (kb s) b = Some bk /\ b_bit bk = true;
  (* the lock bit is exact *)
  ki_bit : forall b bk, nth_error (kb s) b = Some bk -> b_bit bk = true ->
      claimed s b \/ In b (map snd (kwk s));
  ki_next : knext s <= length (kb s)
}.

Theorem KInv_init : forall nb, KInv (kinit nb).
Proof.
  intros nb. constructor; simpl.
  - apply CInv_empty.
  - intros b bk c e H E. apply nth_error_repeat in H. subst. discriminate.
  - intros b bk H C. unfold claimed in C. simpl in C. gcc. discriminate.
  - constructor.
  - intros tid b [].
  - intros b bk H E. apply nth_error_repeat in H. subst. discriminate.
  - lia.
Qed.

Ltac nc C := unfold claimed in C; simpl in C; rewrite ?length_upd_nth in C.
Ltac ncg := unfold claimed; simpl; rewrite ?length_upd_nth.

(** a worker inside a bucket excludes the collector *)
Lemma worker_not_claimed : forall s tid b, KInv s -> In (tid, b) (kwk s) -> ~ claimed s b.
Proof.
  intros s tid b H Hin C. destruct (ki_wk s H tid b Hin) as [bk [Hn _]].
  destruct (ki_gc s H b bk Hn C) as [_ [_ Hno]]. apply Hno.
  apply in_map_iff. exists (tid, b). auto.
Qed.

(** the table / tokens change, the cache does not; valid edges stay valid *)
Lemma kinv_change_c : forall s c' pk, KInv s -> CInv c' ->
  (forall e, edge_ok_b (cn (kc s)) e = true -> edge_ok_b (cn c') e = true) ->
  KInv (mkK c' (kb s) (kph s) (knext s) pk (kwk s)).
Proof.
  intros s c' pk H Hc Hok. constructor; simpl.
  - exact Hc.
  - intros b bk c e Hn He Hin. apply Hok. apply (ki_ent s H b bk c e Hn He Hin).
  - apply (ki_gc s H).
  - apply (ki_wk1 s H).
  - apply (ki_wk s H).
  - apply (ki_bit s H).
  - apply (ki_next s H).
Qed.

(** during the sweep every bucket is empty *)
Lemma sweep_all_empty : forall s b bk, KInv s -> kph s = GSweep -> nth_error (kb s) b = Some bk ->
  b_ent bk = None /\ b_bit bk = true.
Proof.
  intros s b bk H Hp Hn.
  assert (C : claimed s b).
  { unfold claimed. rewrite Hp. unfold gc_claimed_b. apply andb_true_iff. split; [|reflexivity].
    apply Nat.ltb_lt. apply nth_error_Some. congruence. }
  destruct (ki_gc s H b bk Hn C) as [E [B _]]. auto.
Qed.

Lemma sweep_no_worker : forall s, KInv s -> kph s = GSweep -> kwk s = [].
Proof.
  intros s H Hp. destruct (kwk s) as [|[tid b] r] eqn:E; [reflexivity|]. exfalso.
  assert (Hin : In (tid, b) (kwk s)) by (rewrite E; left; reflexivity).
  apply (worker_not_claimed s tid b H Hin).
  destruct (ki_wk s H tid b Hin) as [bk [Hn _]].
  unfold claimed. rewrite Hp. unfold gc_claimed_b. apply andb_true_iff. split; [|reflexivity].
  apply Nat.ltb_lt. apply nth_error_Some. congruence.
Qed.

Lemma kinv_sweep_c : forall s c' pk, KInv s -> kph s = GSweep -> CInv c' ->
  KInv (mkK c' (kb s) (kph s) (knext s) pk (kwk s)).
Proof.
  intros s c' pk H Hp Hc. constructor; simpl.
  - exact Hc.
  - intros b bk c e Hn He Hin. destruct (sweep_all_empty s b bk H Hp Hn) as [E _]. congruence.
  - apply (ki_gc s H).
  - apply (ki_wk1 s H).
  - apply (ki_wk s H).
  - apply (ki_bit s H).
  - apply (ki_next s H).
Qed.

Lemma addable_ok : forall c e, CInv c -> addable_b k terms nl c e = true -> edge_ok_b (cn c) e = true.
Proof.
  intros c e H Ha. unfold addable_b in Ha. destruct (eref e); [exact Ha|].
  apply andb_true_iff in Ha. destruct Ha as [_ Ha]. exact Ha.
Qed.

(** 1. every enabled action of every thread and of the collector preserves the invariant
    (the code's protocol) *)
Theorem kstep_inv : forall s a s' r, KInv s -> kstep good s a = Some (s', r) -> KInv s'.
Proof.
  intros s a s' r H Hs.
  destruct a as [a0|tid b|tid b c|tid b op args nums|tid b| |b|b| | |b| ]; simpl in Hs.
  - (* action of Mgr/Conc.v *)
    destruct (is_gc_act a0 && negb (gphase_eqb (kph s) GSweep)) eqn:G; [discriminate|].
    destruct (step (kc s) a0) as [[c' r0]|] eqn:S0; [|discriminate]. inversion Hs; subst.
    pose proof (step_inv k terms nl _ _ _ _ (ki_c s H) S0) as Hc.
    destruct (is_gc_act a0) eqn:Ga.
    + simpl in G. assert (Hp : kph s = GSweep) by (destruct (kph s); simpl in G; congruence).
      apply kinv_sweep_c; assumption.
    + apply kinv_change_c; [exact H | exact Hc|].
      intros e. apply (step_keeps_edge_ok _ _ _ _ e S0 Ga).
  - (* try_lock *)
    destruct (existsb (fun c => Nat.eqb (fst c) tid) (kwk s)); [discriminate|].
    destruct (nth_error (kb s) b) as [bk|] eqn:Hn; [|discriminate].
    destruct (b_bit bk) eqn:Hb; inversion Hs; subst; [exact H|].
    assert (Hnc : ~ claimed s b).
    { intros C. destruct (ki_gc s H b bk Hn C) as [_ [B _]]. congruence. }
    unfold claimed in Hnc.
    assert (Hnw : ~ In b (map snd (kwk s))).
    { intros Hin. apply in_map_iff in Hin. destruct Hin as [[t b'] [E Hin]]. simpl in E. subst b'.
      destruct (ki_wk s H t b Hin) as [bk' [Hn' B']]. congruence. }
    constructor; simpl; try rewrite length_upd_nth.
    + apply (ki_c s H).
    + intros b' bk' c e Hn' He Hin. apply nth_error_upd_nth in Hn'.
      destruct Hn' as [[<- ->]|[Hne Hn']]; [apply (ki_ent s H b bk c e Hn He Hin)|].
      apply (ki_ent s H b' bk' c e Hn' He Hin).
    + intros b' bk' Hn' C. nc C. apply nth_error_upd_nth in Hn'.
      destruct Hn' as [[<- ->]|[Hne Hn']]; [contradiction|].
      destruct (ki_gc s H b' bk' Hn' C) as [E [B Hno]]. repeat split; auto.
      intros [E2|Hin]; [congruence | contradiction].
    + constructor; [exact Hnw | apply (ki_wk1 s H)].
    + intros t b' [E|Hin].
      * inversion E; subst. exists (set_bit bk true). split; [|reflexivity].
        eapply nth_error_upd_nth_eq; eauto.
      * destruct (ki_wk s H t b' Hin) as [bk' [Hn' B']].
        destruct (Nat.eq_dec b b') as [<-|Hne].
        -- exists (set_bit bk true). split; [eapply nth_error_upd_nth_eq; eauto | reflexivity].
        -- exists bk'. rewrite nth_error_upd_nth_ne; auto.
    + intros b' bk' Hn' B'. apply nth_error_upd_nth in Hn'.
      destruct Hn' as [[<- ->]|[Hne Hn']]; [right; left; reflexivity|].
      destruct (ki_bit s H b' bk' Hn' B') as [C|Hin]; [left; ncg; exact C | right; right; exact Hin].
    + apply (ki_next s H).
  - (* add *)
    destruct (has_claim (kwk s) (tid, b)) eqn:Hc; [|discriminate]. apply has_claim_In in Hc.
    destruct (nth_error (kb s) b) as [bk|] eqn:Hn; [|discriminate].
    destruct (forallb (addable_b k terms nl (kc s)) (ce_edges c)) eqn:Ha; [|discriminate].
    inversion Hs; subst. rewrite forallb_forall in Ha.
    pose proof (worker_not_claimed s tid b H Hc) as Hnc. unfold claimed in Hnc.
    destruct (ki_wk s H tid b Hc) as [bk0 [Hn0 B0]]. rewrite Hn in Hn0. inversion Hn0; subst bk0.
    constructor; simpl; try rewrite length_upd_nth.
    + apply (ki_c s H).
    + intros b' bk' c' e Hn' He Hin. apply nth_error_upd_nth in Hn'.
      destruct Hn' as [[<- ->]|[Hne Hn']].
      * simpl in He. inversion He; subst c'. apply addable_ok; [apply (ki_c s H) | apply Ha; exact Hin].
      * apply (ki_ent s H b' bk' c' e Hn' He Hin).
    + intros b' bk' Hn' C. nc C. apply nth_error_upd_nth in Hn'.
      destruct Hn' as [[<- ->]|[Hne Hn']]; [contradiction|]. apply (ki_gc s H b' bk' Hn' C).
    + apply (ki_wk1 s H).
    + intros t b' Hin. destruct (ki_wk s H t b' Hin) as [bk' [Hn' B']].
      destruct (Nat.eq_dec b b') as [<-|Hne].
      * exists (mkB (Some c) (b_bit bk)). split; [eapply nth_error_upd_nth_eq; eauto | exact B0].
      * exists bk'. rewrite nth_error_upd_nth_ne; auto.
    + intros b' bk' Hn' B'. apply nth_error_upd_nth in Hn'.
      destruct Hn' as [[<- ->]|[Hne Hn']].
      * right. apply in_map_iff. exists (tid, b). auto.
      * destruct (ki_bit s H b' bk' Hn' B') as [C|Hin]; [left; ncg; exact C | right; exact Hin].
    + apply (ki_next s H).
  - (* get *)
    destruct (has_claim (kwk s) (tid, b)) eqn:Hc; [|discriminate].
    destruct (nth_error (kb s) b) as [bk|] eqn:Hn; [|discriminate].
    destruct (b_ent bk) as [c|] eqn:He; [|inversion Hs; subst; exact H].
    destruct (key_match op args nums c); [|inversion Hs; subst; exact H].
    inversion Hs; subst.
    assert (Hv : forall e, In e (ce_vals c) -> edge_ok_b (cn (kc s)) e = true).
    { intros e Hin. apply (ki_ent s H b bk c e Hn He). unfold ce_edges. apply in_or_app. right. exact Hin. }
    apply kinv_change_c; [exact H | apply retain_all_inv; [apply (ki_c s H) | exact Hv] |].
    intros e Hok. rewrite (edge_ok_b_congr k terms _ (cn (kc s))); [exact Hok | apply retain_all_shape].
  - (* unlock by a worker *)
    destruct (has_claim (kwk s) (tid, b)) eqn:Hc; [|discriminate]. apply has_claim_In in Hc.
    destruct (nth_error (kb s) b) as [bk|] eqn:Hn; [|discriminate]. inversion Hs; subst.
    pose proof (worker_not_claimed s tid b H Hc) as Hnc. unfold claimed in Hnc.
    pose proof (drop_claim_gone (tid, b) (kwk s) (ki_wk1 s H) Hc) as Hgone. simpl in Hgone.
    constructor; simpl; try rewrite length_upd_nth.
    + apply (ki_c s H).
    + intros b' bk' c e Hn' He Hin. apply nth_error_upd_nth in Hn'.
      destruct Hn' as [[<- ->]|[Hne Hn']]; [apply (ki_ent s H b bk c e Hn He Hin)|].
      apply (ki_ent s H b' bk' c e Hn' He Hin).
    + intros b' bk' Hn' C. nc C. apply nth_error_upd_nth in Hn'.
      destruct Hn' as [[<- ->]|[Hne Hn']]; [contradiction|].
      destruct (ki_gc s H b' bk' Hn' C) as [E [B Hno]]. repeat split; auto.
      intros Hin. apply Hno. eapply drop_claim_snd_incl; eauto.
    + apply drop_claim_nodup. apply (ki_wk1 s H).
    + intros t b' Hin. pose proof (drop_claim_incl _ _ _ Hin) as Hin0.
      destruct (ki_wk s H t b' Hin0) as [bk' [Hn' B']].
      destruct (Nat.eq_dec b b') as [<-|Hne].
      * exfalso. apply Hgone. apply in_map_iff. exists (t, b). auto.
      * exists bk'. rewrite nth_error_upd_nth_ne; auto.
    + intros b' bk' Hn' B'. apply nth_error_upd_nth in Hn'.
      destruct Hn' as [[<- ->]|[Hne Hn']]; [discriminate|].
      destruct (ki_bit s H b' bk' Hn' B') as [C|Hin]; [left; ncg; exact C|].
      right. apply drop_claim_other; auto.
    + apply (ki_next s H).
  - (* gc begins *)
    destruct (kph s) eqn:Hp; try discriminate. inversion Hs; subst.
    constructor; simpl.
    + apply (ki_c s H).
    + apply (ki_ent s H).
    + intros b bk Hn C. unfold claimed in C. simpl in C. gcc. lia.
    + apply (ki_wk1 s H).
    + apply (ki_wk s H).
    + intros b bk Hn B. destruct (ki_bit s H b bk Hn B) as [C|Hin]; [|right; exact Hin].
      unfold claimed in C. rewrite Hp in C. gcc. discriminate.
    + lia.
  - (* peek *)
    destruct (kph s) eqn:Hp; try discriminate.
    destruct (Nat.eqb b (knext s)); [|discriminate].
    destruct (nth_error (kb s) b) as [bk|]; [|discriminate].
    destruct (b_bit bk); [discriminate|]. inversion Hs; subst.
    constructor; simpl; try (rewrite <- Hp); apply H.
  - (* pre_gc: one bucket *)
    destruct (kph s) eqn:Hp; try discriminate.
    destruct (Nat.eqb_spec b (knext s)) as [Eb|]; [|discriminate].
    destruct (nth_error (kb s) b) as [bk|] eqn:Hn; [|discriminate].
    simpl in Hs. destruct (b_bit bk) eqn:Hb; [discriminate|]. simpl in Hs.
    assert (Hs' : s' = mkK (kc s) (upd_nth (kb s) b (mkB None true)) GLock (S (knext s)) false (kwk s)).
    { destruct (b_ent bk); inversion Hs; reflexivity. }
    clear Hs. subst s'.
    assert (Hlt : b < length (kb s)) by (apply nth_error_Some; congruence).
    assert (Hnw : ~ In b (map snd (kwk s))).
    { intros Hin. apply in_map_iff in Hin. destruct Hin as [[t b'] [E Hin]]. simpl in E. subst b'.
      destruct (ki_wk s H t b Hin) as [bk' [Hn' B']]. congruence. }
    constructor; simpl; try rewrite length_upd_nth.
    + apply (ki_c s H).
    + intros b' bk' c e Hn' He Hin. apply nth_error_upd_nth in Hn'.
      destruct Hn' as [[<- ->]|[Hne Hn']]; [discriminate|]. apply (ki_ent s H b' bk' c e Hn' He Hin).
    + intros b' bk' Hn' C. apply nth_error_upd_nth in Hn'.
      destruct Hn' as [[<- ->]|[Hne Hn']]; [simpl; auto|].
      apply (ki_gc s H b' bk' Hn'). unfold claimed in *. rewrite Hp. simpl in C. gcc; lia.
    + apply (ki_wk1 s H).
    + intros t b' Hin. destruct (ki_wk s H t b' Hin) as [bk' [Hn' B']].
      destruct (Nat.eq_dec b b') as [<-|Hne].
      * exfalso. apply Hnw. apply in_map_iff. exists (t, b). auto.
      * exists bk'. rewrite nth_error_upd_nth_ne; auto.
    + intros b' bk' Hn' B'. apply nth_error_upd_nth in Hn'.
      destruct Hn' as [[<- ->]|[Hne Hn']].
      * left. unfold claimed. simpl. rewrite length_upd_nth. gcc; lia.
      * destruct (ki_bit s H b' bk' Hn' B') as [C|Hin]; [left|right; exact Hin].
        unfold claimed in *. rewrite Hp in C. simpl. rewrite length_upd_nth. gcc; lia.
    + lia.
  - (* the sweep begins *)
    destruct (kph s) eqn:Hp; try discriminate.
    destruct (Nat.eqb_spec (knext s) (length (kb s))) as [En|]; [|discriminate]. inversion Hs; subst.
    constructor; simpl; try apply H.
    + intros b bk Hn C. apply (ki_gc s H b bk Hn). unfold claimed in *. rewrite Hp. simpl in C.
      gcc; lia.
    + intros b bk Hn B. destruct (ki_bit s H b bk Hn B) as [C|Hin]; [left|right; exact Hin].
      unfold claimed in *. rewrite Hp in C. simpl. gcc; auto.
    + lia.
  - (* the sweep is done *)
    destruct (kph s) eqn:Hp; try discriminate. inversion Hs; subst.
    constructor; simpl; try apply H.
    + intros b bk Hn C. apply (ki_gc s H b bk Hn). unfold claimed in *. rewrite Hp. simpl in C.
      gcc; auto.
    + intros b bk Hn B. destruct (ki_bit s H b bk Hn B) as [C|Hin]; [left|right; exact Hin].
      unfold claimed in *. rewrite Hp in C. simpl. gcc; auto. lia.
    + lia.
  - (* post_gc: one bucket *)
    destruct (kph s) eqn:Hp; try discriminate.
    destruct (Nat.eqb_spec b (knext s)) as [Eb|]; [|discriminate].
    destruct (nth_error (kb s) b) as [bk|] eqn:Hn; [|discriminate]. inversion Hs; subst.
    assert (Hlt : knext s < length (kb s)) by (apply nth_error_Some; congruence).
    assert (C0 : claimed s (knext s)) by (unfold claimed; rewrite Hp; gcc; lia).
    destruct (ki_gc s H _ bk Hn C0) as [E0 [B0 Hnw]].
    constructor; simpl; try rewrite length_upd_nth.
    + apply (ki_c s H).
    + intros b' bk' c e Hn' He Hin. apply nth_error_upd_nth in Hn'.
      destruct Hn' as [[<- ->]|[Hne Hn']]; [simpl in He; congruence|].
      apply (ki_ent s H b' bk' c e Hn' He Hin).
    + intros b' bk' Hn' C. apply nth_error_upd_nth in Hn'.
      destruct Hn' as [[<- ->]|[Hne Hn']].
      * exfalso. unfold claimed in C. simpl in C. rewrite length_upd_nth in C. gcc. lia.
      * apply (ki_gc s H b' bk' Hn'). unfold claimed in *. rewrite Hp. simpl in C.
        rewrite length_upd_nth in C. gcc; lia.
    + apply (ki_wk1 s H).
    + intros t b' Hin. destruct (ki_wk s H t b' Hin) as [bk' [Hn' B']].
      destruct (Nat.eq_dec (knext s) b') as [<-|Hne].
      * exfalso. apply Hnw. apply in_map_iff. exists (t, knext s). auto.
      * exists bk'. rewrite nth_error_upd_nth_ne; auto.
    + intros b' bk' Hn' B'. apply nth_error_upd_nth in Hn'.
      destruct Hn' as [[<- ->]|[Hne Hn']]; [discriminate|].
      destruct (ki_bit s H b' bk' Hn' B') as [C|Hin]; [left|right; exact Hin].
      unfold claimed in *. rewrite Hp in C. simpl. rewrite length_upd_nth. gcc; lia.
    + lia.
  - (* gc ends *)
    destruct (kph s) eqn:Hp; try discriminate.
    destruct (Nat.eqb_spec (knext s) (length (kb s))) as [En|]; [|discriminate]. inversion Hs; subst.
    constructor; simpl; try apply H.
    + intros b bk Hn C. unfold claimed in C. simpl in C. gcc. discriminate.
    + intros b bk Hn B. destruct (ki_bit s H b bk Hn B) as [C|Hin]; [|right; exact Hin].
      exfalso. unfold claimed in C. rewrite Hp in C. gcc. lia.
    + lia.
Qed.

(** 2. any interleaving = any list of actions *)
Theorem krun_inv : forall sched s s', KInv s -> krun good s sched = Some s' -> KInv s'.
Proof.
  induction sched as [|a r IH]; intros s s' H Hr; simpl in Hr.
  - inversion Hr; subst. exact H.
  - destruct (kstep good s a) as [[s1 res]|] eqn:Hs; [|discriminate].
    apply (IH s1 s' (kstep_inv s a s1 res H Hs) Hr).
Qed.

Theorem kreachable_inv : forall nb sched s, krun good (kinit nb) sched = Some s -> KInv s.
Proof. intros nb sched s. apply krun_inv. apply KInv_init. Qed.

End Proofs.
