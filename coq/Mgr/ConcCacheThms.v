(** * C07 — consequences of the cache invariant

    [no_dangling] / [no_dangling_unlocked]: in every state satisfying [KInv] the executable
      checkers find no dangling entry.
    [cache_hit_valid]: a hit returns the value edges of the entry, every one of them points
      to a stored node (or terminal), the thread owns a token for it, the count is positive
      and the invariant still holds.
    [gc_node_cache_empty]: whenever the collector removes a node, every bucket is empty and
      locked and no worker is inside a bucket.
    [kstep_entry_sem] / [krun_entry_sem] / [cache_hit_memo]: an entry stays untouched until
      it is overwritten or cleared, and as long as it is there the denotation of all its
      edges (operands and values) is the one they had when the entry was written: a hit
      yields the memoised function. *)

From Coq Require Import List NArith PArith Bool Arith Lia FMapPositive.
From OxiVerif Require Import DD.Table DD.TableExtra DD.TableProofs
  Mgr.Conc Mgr.ConcBase Mgr.ConcProofs Mgr.ConcSnap Mgr.ConcSem Mgr.ConcCache Mgr.ConcCacheProofs.
Import ListNotations.

(** the entry of bucket [b] *)
Definition kent (s : kst) (b : nat) : option centry :=
  match nth_error (kb s) b with Some bk => b_ent bk | None => None end.

Section Thms.
Variable k : kind.
Variable terms : list (N * N).
Variable nl : nat.

Notation step := (step k terms nl).
Notation edge_ok_b := (edge_ok_b k terms).
Notation CInv := (CInv k terms nl).
Notation KInv := (KInv k terms nl).
Notation kstep := (kstep k terms nl).
Notation krun := (krun k terms nl).
Notation to_snap := (to_snap k terms nl).

(** the invariant, clause by clause *)
Lemma KInv_flat : forall s,
  KInv s <->
  (CInv (kc s) /\
   (forall b bk c e, nth_error (kb s) b = Some bk -> b_ent bk = Some c -> In e (ce_edges c) ->
      edge_ok_b (cn (kc s)) e = true) /\
   (forall b bk, nth_error (kb s) b = Some bk ->
      gc_claimed_b (kph s) (knext s) (length (kb s)) b = true ->
      b_ent bk = None /\ b_bit bk = true /\ ~ In b (map snd (kwk s))) /\
   NoDup (map snd (kwk s)) /\
   (forall tid b, In (tid, b) (kwk s) -> exists bk, nth_error (kb s) b = Some bk /\ b_bit bk = true) /\
   (forall b bk, nth_error (kb s) b = Some bk -> b_bit bk = true ->
      gc_claimed_b (kph s) (knext s) (length (kb s)) b = true \/ In b (map snd (kwk s))) /\
   knext s <= length (kb s)).
Proof.
  intros s. split.
  - intros [H1 H2 H3 H4 H5 H6 H7]. exact (conj H1 (conj H2 (conj H3 (conj H4 (conj H5 (conj H6 H7)))))).
  - intros [H1 [H2 [H3 [H4 [H5 [H6 H7]]]]]]. constructor; assumption.
Qed.

(** ** no dangling weak edge (executable form) *)

Theorem no_dangling : forall s, KInv s -> no_dangling_b k terms s = true.
Proof.
  intros s H. unfold no_dangling_b. apply forallb_forall. intros bk Hin.
  apply In_nth_error in Hin. destruct Hin as [b Hn].
  unfold bucket_ok_b. destruct (b_ent bk) as [c|] eqn:E; [|reflexivity].
  unfold entry_ok_b. apply forallb_forall. intros e He. apply (ki_ent k terms nl s H b bk c e Hn E He).
Qed.

Theorem no_dangling_unlocked : forall s, KInv s -> dangling_unlocked_b k terms s = false.
Proof.
  intros s H. unfold dangling_unlocked_b.
  destruct (existsb _ (kb s)) eqn:E; [|reflexivity].
  apply existsb_exists in E. destruct E as [bk [Hin E]]. apply andb_true_iff in E. destruct E as [_ E].
  pose proof (no_dangling s H) as N. unfold no_dangling_b in N. rewrite forallb_forall in N.
  rewrite (N bk Hin) in E. discriminate.
Qed.

(** ** a hit *)

Theorem cache_hit_valid : forall s tid b op args nums s' vals vnums, KInv s ->
  kstep good s (CGet tid b op args nums) = Some (s', KRHit vals vnums) ->
  exists c, kent s b = Some c /\ key_match op args nums c = true /\
    vals = ce_vals c /\ vnums = ce_vnums c /\
    (forall e, In e vals -> edge_ok_b (cn (kc s')) e = true) /\
    (forall e id, In e vals -> eref e = RN id ->
       In (tid, e) (cown (kc s')) /\ exists nd, cfind (cn (kc s')) id = Some nd /\ crc nd <> 0%N) /\
    KInv s'.
Proof.
  intros s tid b op args nums s' vals vnums H Hs.
  pose proof (kstep_inv k terms nl _ _ _ _ H Hs) as H'.
  simpl in Hs. destruct (has_claim (kwk s) (tid, b)); [|discriminate].
  unfold kent. destruct (nth_error (kb s) b) as [bk|] eqn:Hn; [|discriminate].
  destruct (b_ent bk) as [c|] eqn:He; [|discriminate].
  destruct (key_match op args nums c) eqn:Hk; [|discriminate]. inversion Hs; subst.
  exists c. split; [reflexivity|]. split; [exact Hk|]. split; [reflexivity|]. split; [reflexivity|].
  split; [|split; [|exact H']].
  - intros e Hin. simpl. rewrite (edge_ok_b_congr k terms _ (cn (kc s))); [|apply retain_all_shape].
    apply (ki_ent k terms nl s H b bk c e Hn He). unfold ce_edges. apply in_or_app. right. exact Hin.
  - intros e id Hin Er.
    assert (Ht : In (tid, e) (cown (kc (mkK (retain_all tid (ce_vals c) (kc s)) (kb s) (kph s) (knext s) (kpeek s) (kwk s)))))
      by (simpl; eapply retain_all_tokens; eauto).
    split; [exact Ht|].
    apply (owned_live k terms nl _ (tid, e) id (ki_c k terms nl _ H') Ht Er).
Qed.

(** ** the sweep *)

Theorem gc_node_cache_empty : forall s id s' r, KInv s ->
  kstep good s (KBase (AGcNode id)) = Some (s', r) ->
  kph s = GSweep /\ kwk s = [] /\
  forall b bk, nth_error (kb s) b = Some bk -> b_ent bk = None /\ b_bit bk = true.
Proof.
  intros s id s' r H Hs. simpl in Hs.
  destruct (gphase_eqb (kph s) GSweep) eqn:G; [|discriminate].
  assert (Hp : kph s = GSweep) by (destruct (kph s); simpl in G; congruence).
  split; [exact Hp|]. split; [apply (sweep_no_worker k terms nl s H Hp)|].
  intros b bk Hn. apply (sweep_all_empty k terms nl s b bk H Hp Hn).
Qed.

(** the collector can only remove a node no thread owns, no stored node refers to, and no
    cache entry names *)
Theorem gc_node_safe : forall s id s' r, KInv s ->
  kstep good s (KBase (AGcNode id)) = Some (s', r) ->
  owners (cown (kc s)) id = 0 /\ parents (cn (kc s)) id = 0 /\
  forall b c e, kent s b = Some c -> In e (ce_edges c) -> eref e <> RN id.
Proof.
  intros s id s' r H Hs.
  destruct (gc_node_cache_empty s id s' r H Hs) as [_ [_ Hall]].
  simpl in Hs. destruct (gphase_eqb (kph s) GSweep); [|discriminate]. simpl in Hs.
  destruct (cfind (cn (kc s)) id) as [nd|] eqn:F; [|discriminate].
  destruct (N.eqb_spec (crc nd) 0) as [Hz|_]; [|discriminate].
  pose proof (ci_rc k terms nl _ (ki_c k terms nl s H) id nd F) as Hrc.
  split; [lia|]. split; [lia|].
  intros b c e Hk. unfold kent in Hk. destruct (nth_error (kb s) b) as [bk|] eqn:Hn; [|discriminate].
  destruct (Hall b bk Hn) as [E _]. congruence.
Qed.

(** ** entries and what they denote *)

(** an entry changes only by an insertion into its bucket or by the collector's clear *)
Lemma kstep_ent_cases : forall p s a s' r b, ConcCache.kstep k terms nl p s a = Some (s', r) ->
  kent s' b = kent s b \/
  (exists tid c, a = CAdd tid b c /\ kent s' b = Some c) \/
  (a = GcLockBucket b /\ kent s' b = None).
Proof.
  intros p s a s' r b Hs. unfold kent.
  assert (Hupd : forall i bk0 bk', nth_error (kb s) i = Some bk0 -> b_ent bk' = b_ent bk0 ->
            match nth_error (upd_nth (kb s) i bk') b with Some bk => b_ent bk | None => None end =
            match nth_error (kb s) b with Some bk => b_ent bk | None => None end).
  { intros i bk0 bk' Hn E. destruct (Nat.eq_dec i b) as [->|Hne].
    - rewrite (nth_error_upd_nth_eq _ _ _ bk' bk0 Hn), Hn. exact E.
    - rewrite nth_error_upd_nth_ne by exact Hne. reflexivity. }
  destruct a as [a0|tid b0|tid b0 c|tid b0 op args nums|tid b0| |b0|b0| | |b0| ]; simpl in Hs.
  - destruct (is_gc_act a0 && negb (gphase_eqb (kph s) GSweep)); [discriminate|].
    destruct (Conc.step k terms nl (kc s) a0) as [[c' r0]|]; [|discriminate]. inversion Hs; subst. auto.
  - destruct (existsb _ (kwk s)); [discriminate|].
    destruct (nth_error (kb s) b0) as [bk|] eqn:Hn; [|discriminate].
    destruct (b_bit bk); inversion Hs; subst; auto. left. simpl. apply (Hupd b0 bk); auto.
  - destruct (has_claim (kwk s) (tid, b0)); [|discriminate].
    destruct (nth_error (kb s) b0) as [bk|] eqn:Hn; [|discriminate].
    destruct (forallb _ (ce_edges c)); [|discriminate]. inversion Hs; subst. simpl.
    destruct (Nat.eq_dec b0 b) as [->|Hne].
    + right. left. exists tid, c. split; [reflexivity|].
      rewrite (nth_error_upd_nth_eq _ _ _ _ bk Hn). reflexivity.
    + left. rewrite nth_error_upd_nth_ne by exact Hne. reflexivity.
  - destruct (has_claim (kwk s) (tid, b0)); [|discriminate].
    destruct (nth_error (kb s) b0) as [bk|]; [|discriminate].
    destruct (b_ent bk) as [c|]; [|inversion Hs; subst; auto].
    destruct (key_match op args nums c); inversion Hs; subst; auto.
  - destruct (has_claim (kwk s) (tid, b0)); [|discriminate].
    destruct (nth_error (kb s) b0) as [bk|] eqn:Hn; [|discriminate]. inversion Hs; subst.
    left. simpl. apply (Hupd b0 bk); auto.
  - destruct (kph s); inversion Hs; subst; auto.
  - destruct (kph s); try discriminate. destruct (Nat.eqb b0 (knext s)); [|discriminate].
    destruct (nth_error (kb s) b0) as [bk|]; [|discriminate].
    destruct (b_bit bk); inversion Hs; subst; auto.
  - destruct (kph s); try discriminate. destruct (Nat.eqb b0 (knext s)); [|discriminate].
    destruct (nth_error (kb s) b0) as [bk|] eqn:Hn; [|discriminate].
    destruct (if p_blind_lock p then kpeek s else negb (b_bit bk)); [|discriminate].
    inversion Hs; subst. simpl.
    destruct (Nat.eq_dec b0 b) as [->|Hne].
    + destruct (b_ent bk) eqn:E.
      * right. right. split; [reflexivity|]. rewrite (nth_error_upd_nth_eq _ _ _ _ bk Hn). reflexivity.
      * right. right. split; [reflexivity|]. rewrite (nth_error_upd_nth_eq _ _ _ _ bk Hn).
        destruct (p_skip_empty p); simpl; auto.
    + left. rewrite nth_error_upd_nth_ne by exact Hne. reflexivity.
  - destruct (kph s); try discriminate. destruct (Nat.eqb (knext s) (length (kb s))); inversion Hs; subst; auto.
  - destruct (kph s); inversion Hs; subst; auto.
  - destruct (kph s); try discriminate. destruct (Nat.eqb b0 (knext s)); [|discriminate].
    destruct (nth_error (kb s) b0) as [bk|] eqn:Hn; [|discriminate]. inversion Hs; subst.
    left. simpl. apply (Hupd b0 bk); auto.
  - destruct (kph s); try discriminate. destruct (Nat.eqb (knext s) (length (kb s))); inversion Hs; subst; auto.
Qed.

(** the denotation of every valid edge is unchanged if every stored node keeps its level
    and children *)
Lemma sem_shape_preserved : forall s s', CInv s ->
  (forall id nd, cfind (cn s) id = Some nd ->
     exists nd', cfind (cn s') id = Some nd' /\ cl nd' = cl nd /\ cch nd' = cch nd) ->
  forall e cfg, edge_ok_b (cn s) e = true -> sem_edge (to_snap s') e cfg = sem_edge (to_snap s) e cfg.
Proof.
  intros s s' H Hsh e cfg Hok. symmetry.
  set (P := fun r : ref => forall id, r = RN id -> cfind (cn s) id <> None).
  apply (sem_edge_agree (to_snap s) (to_snap s') P eq_refl eq_refl).
  - rewrite !(nlevels_to_snap k terms nl). reflexivity.
  - intros id Hp. rewrite !(find_node_to_snap k terms nl).
    destruct (cfind (cn s) id) as [nd|] eqn:F; simpl; [|exact I].
    destruct (Hsh id nd F) as [nd' [F' [L C]]]. exists (to_node nd'). rewrite F'. simpl.
    repeat split; auto.
    intros x Hx j Er. destruct (node_pre_b_child k terms nl _ _ _ x j
      (ti_pre _ _ _ _ (ci_tbl k terms nl s H) id nd F) Hx Er) as [ndc [Fc _]]. congruence.
  - intros id Hp. rewrite (find_node_to_snap k terms nl). specialize (Hp id eq_refl).
    destruct (cfind (cn s) id); [discriminate | congruence].
  - intros id Er. destruct (edge_ok_b_inner k terms _ _ id Hok Er) as [nd F]. congruence.
Qed.

(** one action: the entry of a bucket that is still there afterwards (and was not just
    written) is the same entry and all its edges denote what they denoted before *)
Theorem kstep_entry_sem : forall s a s' r b c, KInv s -> kstep good s a = Some (s', r) ->
  kent s b = Some c -> (forall tid c', a <> CAdd tid b c') ->
  kent s' b = None \/
  (kent s' b = Some c /\
   forall e cfg, In e (ce_edges c) ->
     sem_edge (to_snap (kc s')) e cfg = sem_edge (to_snap (kc s)) e cfg).
Proof.
  intros s a s' r b c H Hs Hk Hna.
  destruct (kstep_ent_cases good s a s' r b Hs) as [E|[[tid [c' [Ea _]]]|[_ E]]];
    [|exfalso; apply (Hna tid c' Ea)|left; exact E].
  right. split; [congruence|]. intros e cfg He.
  assert (Hok : edge_ok_b (cn (kc s)) e = true).
  { unfold kent in Hk. destruct (nth_error (kb s) b) as [bk|] eqn:Hn; [|discriminate].
    apply (ki_ent k terms nl s H b bk c e Hn Hk He). }
  assert (Hsame : (forall a0, a <> KBase a0) -> kc s' = kc s \/
            exists tid vals, kc s' = retain_all tid vals (kc s)).
  { intros Hnb. clear Hna E Hk.
    destruct a as [a0|tid b0|tid b0 c0|tid b0 op args nums|tid b0| |b0|b0| | |b0| ]; simpl in Hs;
      [exfalso; apply (Hnb a0); reflexivity| | | | | | | | | | | ].
    - destruct (existsb _ (kwk s)); [discriminate|].
      destruct (nth_error (kb s) b0) as [bk|]; [|discriminate].
      destruct (b_bit bk); inversion Hs; subst; auto.
    - destruct (has_claim (kwk s) (tid, b0)); [|discriminate].
      destruct (nth_error (kb s) b0) as [bk|]; [|discriminate].
      destruct (forallb _ (ce_edges c0)); inversion Hs; subst; auto.
    - destruct (has_claim (kwk s) (tid, b0)); [|discriminate].
      destruct (nth_error (kb s) b0) as [bk|]; [|discriminate].
      destruct (b_ent bk) as [c1|]; [|inversion Hs; subst; auto].
      destruct (key_match op args nums c1); inversion Hs; subst; auto.
      right. exists tid, (ce_vals c1). reflexivity.
    - destruct (has_claim (kwk s) (tid, b0)); [|discriminate].
      destruct (nth_error (kb s) b0) as [bk|]; inversion Hs; subst; auto.
    - destruct (kph s); inversion Hs; subst; auto.
    - destruct (kph s); try discriminate. destruct (Nat.eqb b0 (knext s)); [|discriminate].
      destruct (nth_error (kb s) b0) as [bk|]; [|discriminate].
      destruct (b_bit bk); inversion Hs; subst; auto.
    - destruct (kph s); try discriminate. destruct (Nat.eqb b0 (knext s)); [|discriminate].
      destruct (nth_error (kb s) b0) as [bk|]; [|discriminate]. simpl in Hs.
      destruct (negb (b_bit bk)); inversion Hs; subst; auto.
    - destruct (kph s); try discriminate.
      destruct (Nat.eqb (knext s) (length (kb s))); inversion Hs; subst; auto.
    - destruct (kph s); inversion Hs; subst; auto.
    - destruct (kph s); try discriminate. destruct (Nat.eqb b0 (knext s)); [|discriminate].
      destruct (nth_error (kb s) b0) as [bk|]; inversion Hs; subst; auto.
    - destruct (kph s); try discriminate.
      destruct (Nat.eqb (knext s) (length (kb s))); inversion Hs; subst; auto. }
  destruct a as [a0|tid b0|tid b0 c0|tid b0 op args nums|tid b0| |b0|b0| | |b0| ];
    try (destruct Hsame as [Ec|[tid' [vals Ec]]]; [intros; discriminate| |];
         rewrite Ec; [reflexivity|];
         apply (sem_shape_preserved (kc s) _ (ki_c k terms nl s H)); [|exact Hok];
         intros id nd F; apply (shape_eq_find (cn (kc s)) _ id nd); [|exact F];
         symmetry; apply retain_all_shape).
  (* an action of Mgr/Conc.v *)
  simpl in Hs.
  destruct (is_gc_act a0 && negb (gphase_eqb (kph s) GSweep)) eqn:G; [discriminate|].
  destruct (Conc.step k terms nl (kc s) a0) as [[c' r0]|] eqn:S0; [|discriminate].
  inversion Hs; subst. simpl.
  destruct (is_gc_act a0) eqn:Ga.
  - (* the collector: every bucket is empty *)
    exfalso. simpl in G. assert (Hp : kph s = GSweep) by (destruct (kph s); simpl in G; congruence).
    unfold kent in Hk. destruct (nth_error (kb s) b) as [bk|] eqn:Hn; [|discriminate].
    destruct (sweep_all_empty k terms nl s b bk H Hp Hn) as [E0 _]. congruence.
  - apply (sem_shape_preserved (kc s) c' (ki_c k terms nl s H)); [|exact Hok].
    intros id nd F. apply (step_keeps_shape k terms nl (kc s) a0 c' r0 id nd S0 Ga F).
Qed.

(** without an insertion, an empty bucket stays empty *)
Lemma krun_none_stays : forall sched s s' b, krun good s sched = Some s' ->
  (forall a, In a sched -> forall tid c', a <> CAdd tid b c') -> kent s b = None -> kent s' b = None.
Proof.
  induction sched as [|a rest IH]; intros s s' b Hr Hna Hk; simpl in Hr.
  - inversion Hr; subst. exact Hk.
  - destruct (kstep good s a) as [[s1 res]|] eqn:Hs; [|discriminate].
    apply (IH s1 s' b Hr (fun a0 Ha => Hna a0 (or_intror Ha))).
    destruct (kstep_ent_cases good s a s1 res b Hs) as [E|[[tid [c' [Ea _]]]|[_ E]]];
      [congruence | exfalso; apply (Hna a (or_introl eq_refl) tid c' Ea) | exact E].
Qed.

(** any schedule without an insertion into bucket [b]: if the bucket is occupied at the end,
    it still holds the entry of the beginning and the entry's edges denote the same *)
Theorem krun_entry_sem : forall sched s s' b c c', KInv s -> krun good s sched = Some s' ->
  (forall a, In a sched -> forall tid c0, a <> CAdd tid b c0) ->
  kent s b = Some c -> kent s' b = Some c' ->
  c' = c /\ forall e cfg, In e (ce_edges c) ->
     sem_edge (to_snap (kc s')) e cfg = sem_edge (to_snap (kc s)) e cfg.
Proof.
  induction sched as [|a rest IH]; intros s s' b c c' H Hr Hna Hk Hk'; simpl in Hr.
  - inversion Hr; subst. split; [congruence | reflexivity].
  - destruct (kstep good s a) as [[s1 res]|] eqn:Hs; [|discriminate].
    pose proof (kstep_inv k terms nl _ _ _ _ H Hs) as H1.
    destruct (kstep_entry_sem s a s1 res b c H Hs Hk (Hna a (or_introl eq_refl))) as [E|[E Hsem]].
    + pose proof (krun_none_stays rest s1 s' b Hr (fun a0 Ha => Hna a0 (or_intror Ha)) E). congruence.
    + destruct (IH s1 s' b c c' H1 Hr (fun a0 Ha => Hna a0 (or_intror Ha)) E Hk') as [Ec Hsem'].
      split; [exact Ec|]. intros e cfg He. rewrite (Hsem' e cfg He). apply Hsem. exact He.
Qed.

Lemma cadd_ent : forall p s tid b c s1 r, ConcCache.kstep k terms nl p s (CAdd tid b c) = Some (s1, r) ->
  kent s1 b = Some c.
Proof.
  intros p s tid b c s1 r Ha. simpl in Ha. destruct (has_claim (kwk s) (tid, b)); [|discriminate].
  destruct (nth_error (kb s) b) as [bk|] eqn:Hn; [|discriminate].
  destruct (forallb _ (ce_edges c)); [|discriminate]. inversion Ha; subst.
  unfold kent. simpl. rewrite (nth_error_upd_nth_eq _ _ _ _ bk Hn). reflexivity.
Qed.

(** THE MEMOISED FUNCTION: thread [tid0] writes the entry [c]; after ANY schedule of all
    threads and of the collector without another insertion into that bucket, a hit of any
    thread returns exactly the value edges of [c], for exactly the operator and operand edges
    of [c], and every operand and value edge denotes what it denoted when the entry was
    written *)
Theorem cache_hit_memo : forall s0 tid0 b c s1 r0 sched s2 tid op args nums s3 vals vnums,
  KInv s0 -> kstep good s0 (CAdd tid0 b c) = Some (s1, r0) ->
  krun good s1 sched = Some s2 ->
  (forall a, In a sched -> forall t c0, a <> CAdd t b c0) ->
  kstep good s2 (CGet tid b op args nums) = Some (s3, KRHit vals vnums) ->
  op = ce_op c /\ args = ce_args c /\ vals = ce_vals c /\ vnums = ce_vnums c /\
  (forall e, In e vals -> edge_ok_b (cn (kc s3)) e = true) /\
  forall e cfg, In e (ce_edges c) ->
    sem_edge (to_snap (kc s3)) e cfg = sem_edge (to_snap (kc s1)) e cfg.
Proof.
  intros s0 tid0 b c s1 r0 sched s2 tid op args nums s3 vals vnums H0 Ha Hr Hna Hg.
  pose proof (kstep_inv k terms nl _ _ _ _ H0 Ha) as H1.
  pose proof (krun_inv k terms nl _ _ _ H1 Hr) as H2.
  pose proof (cadd_ent good s0 tid0 b c s1 r0 Ha) as K1.
  destruct (cache_hit_valid s2 tid b op args nums s3 vals vnums H2 Hg)
    as [c2 [K2 [Hm [Ev [Evn [Hok [_ _]]]]]]].
  destruct (krun_entry_sem sched s1 s2 b c c2 H1 Hr Hna K1 K2) as [Ec Hsem]. subst c2.
  unfold key_match in Hm. rewrite !andb_true_iff in Hm. destruct Hm as [[M1 M2] _].
  apply N.eqb_eq in M1. apply edges_eqb_eq in M2.
  repeat split; auto.
  intros e cfg He. rewrite <- (Hsem e cfg He).
  assert (Hn : forall t c0, CGet tid b op args nums <> CAdd t b c0) by (intros; discriminate).
  destruct (kstep_entry_sem s2 _ s3 _ b c H2 Hg K2 Hn) as [E|[_ Hsem3]]; [|apply Hsem3; exact He].
  exfalso. destruct (kstep_ent_cases good s2 _ s3 _ b Hg) as [E'|[[t [c' [Ea _]]]|[Ea _]]];
    [congruence | discriminate | discriminate].
Qed.

End Thms.
