(** * C07 — the hypotheses are satisfiable: concrete two-thread schedules

    BDD over 2 levels, terminals 0 |-> false, 1 |-> true.  Threads 0 and 1:
    both create the node "x1" (the second one finds the first one's), a handle is
    cloned, moved to the other thread, used as a child of a new node, released; the
    collector removes unreferenced nodes while a thread still holds another one. *)

From Coq Require Import List NArith PArith Bool Arith.
From OxiVerif Require Import DD.Table DD.TableExtra DD.TableProofs
  Mgr.Conc Mgr.ConcBase Mgr.ConcProofs Mgr.ConcSnap.
Import ListNotations.

Definition ex_terms : list (N * N) := [(0%N, 0%N); (1%N, 1%N)].
Definition T0 : edge := mkEdge (RT 0) false.
Definition T1 : edge := mkEdge (RT 1) false.
Definition E (i : positive) : edge := mkEdge (RN i) false.

Definition ex_sched : list act :=
  [ AGoi 0 1 [T1; T0] 1            (* thread 0 creates x1 in slot 1 *)
  ; AGoi 1 1 [T1; T0] 2            (* thread 1 asks for the same node: finds slot 1 *)
  ; AGoi 1 1 [T0; T1] 2            (* thread 1 creates (not x1) in slot 2 *)
  ; ARetain 1 (E 2)                (* clone *)
  ; AMove 1 0 (E 2)                (* one copy is sent to thread 0 *)
  ; ARetain 0 (E 1)
  ; AGoi 0 0 [E 1; E 2] 3          (* thread 0: x0 ? x1 : not x1, consumes one handle each *)
  ; ARelease 1 (E 1)
  ; ARelease 0 (E 1)               (* node 1 is now only referenced by node 3 *)
  ; ARelease 0 (E 3)               (* node 3 unreferenced *)
  ; AGcNode 3                      (* the collector frees it: children lose one reference *)
  ; AGcNode 1                      (* node 1 became unreferenced, node 2 is held by thread 1 *)
  ].

Definition ex_final : cst :=
  mkCst [(2%positive, mkC 1 [T0; T1] 1%N)] [(1, E 2)].

Example ex_run : run KBdd ex_terms 2 cempty ex_sched = Some ex_final.
Proof. vm_compute. reflexivity. Qed.

(** the results of the actions: the second get_or_insert returns the first one's node *)
Example ex_results :
  option_map snd (run_results KBdd ex_terms 2 cempty ex_sched) =
  Some [Some 1%positive; Some 1%positive; Some 2%positive; None; None; None; Some 3%positive;
        None; None; None; None; None].
Proof. vm_compute. reflexivity. Qed.

(** the invariant of the final state: by the theorem ... *)
Example ex_final_inv : CInv KBdd ex_terms 2 ex_final.
Proof. apply (reachable_inv KBdd ex_terms 2 ex_sched). exact ex_run. Qed.

(** ... and by computation (the checker is complete) *)
Example ex_final_inv_b : cinv_b KBdd ex_terms 2 ex_final = true.
Proof. vm_compute. reflexivity. Qed.

(** the intermediate state with three nodes and four handles held by two threads *)
Definition ex_mid : cst :=
  mkCst [(3%positive, mkC 0 [E 1; E 2] 1%N); (2%positive, mkC 1 [T0; T1] 2%N); (1%positive, mkC 1 [T1; T0] 3%N)]
        [(0, E 3); (1, E 2); (1, E 1); (0, E 1)].

Example ex_mid_run : run KBdd ex_terms 2 cempty (firstn 7 ex_sched) = Some ex_mid.
Proof. vm_compute. reflexivity. Qed.

Example ex_mid_inv : CInv KBdd ex_terms 2 ex_mid.
Proof. apply (reachable_inv KBdd ex_terms 2 (firstn 7 ex_sched)). exact ex_mid_run. Qed.

Example ex_terms_ok : terms_ok KBdd ex_terms.
Proof. split; [vm_compute; reflexivity | exact I]. Qed.

Example ex_mid_snapshot :
  wf_full_b (to_snap KBdd ex_terms 2 ex_mid) = true /\
  rc_exact_b (to_snap KBdd ex_terms 2 ex_mid) [] = true /\
  sem_edge (to_snap KBdd ex_terms 2 ex_mid) (E 3) (fun _ => 0) = Some 1%N /\
  sem_edge (to_snap KBdd ex_terms 2 ex_mid) (E 3) (fun l => l) = Some 0%N.
Proof. vm_compute. repeat split; reflexivity. Qed.

(** actions that must NOT be enabled *)
Example ex_disabled :
  (* the collector cannot take a node that is owned or has a parent *)
  step KBdd ex_terms 2 ex_mid (AGcNode 1) = None /\
  step KBdd ex_terms 2 ex_mid (AGcNode 3) = None /\
  (* nobody can release or pass on what he does not own *)
  step KBdd ex_terms 2 ex_mid (ARelease 1 (E 3)) = None /\
  step KBdd ex_terms 2 ex_mid (AGoi 0 0 [E 2; E 1] 4) = None /\
  (* the caller of get_or_insert must have applied the reduction rule *)
  step KBdd ex_terms 2 ex_mid (AGoi 0 0 [E 1; E 1] 4) = None /\
  (* the allocator must not hand out a slot that is in use *)
  step KBdd ex_terms 2 ex_mid (AGoi 1 0 [E 2; T1] 2) = None /\
  (* children must be below the node *)
  step KBdd ex_terms 2 ex_mid (AGoi 1 1 [E 2; T1] 4) = None.
Proof. vm_compute. repeat split; reflexivity. Qed.

(** the frame theorems are not vacuous: thread 1 sits on its two handles while thread 0
    releases its own and the collector frees node 3; thread 1's handles and what they
    denote are untouched *)
Definition ex_others : list act := [ARelease 0 (E 1); ARelease 0 (E 3); AGcNode 3].

Example ex_idle_run : exists s', run KBdd ex_terms 2 ex_mid ex_others = Some s' /\ cfind (cn s') 3 = None.
Proof. eexists. split; vm_compute; reflexivity. Qed.

Example ex_idle_hyp : forall a, In a ex_others -> act_tid a <> Some 1.
Proof. intros a [<-|[<-|[<-|[]]]]; discriminate. Qed.

(** borrowing: a worker thread (5) clones a child of the node thread 0 holds; nobody can
    clone an edge to a node that no owned edge leads to *)
Example ex_borrow :
  (exists s', step KBdd ex_terms 2 ex_mid (ARetain 5 (E 2)) = Some (s', None) /\
              In (5, E 2) (cown s') /\ cinv_b KBdd ex_terms 2 s' = true) /\
  (exists s1, run KBdd ex_terms 2 ex_mid [ARelease 0 (E 3)] = Some s1 /\
              cfind (cn s1) 3 <> None /\ step KBdd ex_terms 2 s1 (ARetain 0 (E 3)) = None).
Proof.
  split; eexists; (split; [vm_compute; reflexivity|]); split;
    try (vm_compute; reflexivity); try (vm_compute; discriminate); vm_compute; auto.
Qed.

(** the table-only replay of the same schedule *)
Example ex_tbl_replay :
  run_tbl KBdd ex_terms 2 [] (erase_list ex_sched) = Some (cn_shape (cn ex_final)).
Proof. vm_compute. reflexivity. Qed.

(** the count-tracking replay of the same schedule ends in the same table, counts included *)
Example ex_rc_replay :
  run_rc KBdd ex_terms 2 [] (erase_rc_list ex_sched) = Some (cn ex_final).
Proof. vm_compute. reflexivity. Qed.

(** it rejects a decrement at count 0 and a collection of a referenced node *)
Example ex_rc_rejects :
  step_rc KBdd ex_terms 2 (cn ex_final) (RGc 2) = None /\
  step_rc KBdd ex_terms 2 [(2%positive, mkC 1 [T0; T1] 0%N)] (RDec 2) = None.
Proof. vm_compute. split; reflexivity. Qed.

(** BCDD: one terminal, complement edges; a tag flip of an owned edge *)
Definition bc_terms : list (N * N) := [(0%N, 1%N)].
Definition B (i : positive) (t : bool) : edge := mkEdge (RN i) t.
Definition BT (t : bool) : edge := mkEdge (RT 0) t.

Definition bc_sched : list act :=
  [ AGoi 0 1 [BT false; BT true] 1            (* x1 *)
  ; ARetain 0 (B 1 false)
  ; ANot 0 (B 1 false)                        (* not x1: same node, tag set *)
  ; AGoi 0 0 [B 1 false; B 1 true] 2          (* x0 <-> x1; consumes both handles *)
  ; AGoi 1 1 [BT false; BT true] 3            (* thread 1 finds x1 *)
  ; ANot 1 (B 1 false)
  ; AMove 1 0 (B 1 true)
  ].

Definition bc_final : cst :=
  mkCst [(2%positive, mkC 0 [B 1 false; B 1 true] 1%N); (1%positive, mkC 1 [BT false; BT true] 3%N)]
        [(0, B 1 true); (0, B 2 false)].

Example bc_run : run KBcdd bc_terms 2 cempty bc_sched = Some bc_final.
Proof. vm_compute. reflexivity. Qed.

Example bc_final_inv : CInv KBcdd bc_terms 2 bc_final.
Proof. apply (reachable_inv KBcdd bc_terms 2 bc_sched). exact bc_run. Qed.

Example bc_terms_ok : terms_ok KBcdd bc_terms.
Proof. split; [vm_compute; reflexivity | simpl; auto]. Qed.

Example bc_snapshot :
  wf_full_b (to_snap KBcdd bc_terms 2 bc_final) = true /\
  rc_exact_b (to_snap KBcdd bc_terms 2 bc_final) [] = true /\
  sem_edge (to_snap KBcdd bc_terms 2 bc_final) (B 2 false) (fun l => l) = Some 0%N /\
  sem_edge (to_snap KBcdd bc_terms 2 bc_final) (B 1 true) (fun _ => 0) = Some 0%N.
Proof. vm_compute. repeat split; reflexivity. Qed.

(** a tag flip is not an action of the other kinds *)
Example bdd_no_flip : step KBdd ex_terms 2 ex_mid (ANot 0 (E 1)) = None.
Proof. reflexivity. Qed.
