(** * C05 / C07 — a whole garbage collection as a schedule of the interleaving model
      (executable definitions only)

    Mirrors `Manager::gc` of /repo/crates/oxidd-manager-index/src/manager.rs:

        for level in &self.unique_table {          // level 0 (top) first
            let mut level = level.lock();
            unsafe { level.gc(store) };            // LevelViewSet::gc: `retain` over the entries:
        }                                          //   entry dropped iff load_rc == 1, then
                                                   //   free_slot = drop_with(drop_edge) on the children

    [gc_try s id] is one iteration of that `retain` = the action [AGcNode id] of
    Mgr/Conc.v if it is enabled (count 0 at the moment the entry is visited), nothing
    otherwise.  [gc_level] visits the entries that are on the level when its mutex is
    taken (nothing is inserted meanwhile: the mutex is held; removals on the level only
    touch the counts of nodes on LOWER levels, i.e. with larger level numbers).
    [collect] sweeps the levels 0, 1, .., nl-1 in this order, so a node that becomes
    unreferenced only because its parent was just removed is collected in the same run.
    By construction [collect s] is the result of a schedule of [AGcNode] actions
    (ConcGcProofs.v, [collect_is_run]).

    The order in which `retain` meets the entries of one level (hash order) is
    irrelevant: removals on a level do not change the counts on that level. *)

From Coq Require Import List NArith PArith Bool Arith.
From OxiVerif Require Import DD.Table Mgr.Conc.
Import ListNotations.

Section Collect.
Variable k : kind.
Variable terms : list (N * N).
Variable nl : nat.

(** one iteration of `retain` in `LevelViewSet::gc` *)
Definition gc_try (s : cst) (id : positive) : cst :=
  match step k terms nl s (AGcNode id) with
  | Some (s', _) => s'
  | None => s
  end.

(** the entries of level [l] *)
Definition ids_at_level (t : ctable) (l : nat) : list positive :=
  map fst (filter (fun p => Nat.eqb (cl (snd p)) l) t).

(** `LevelViewSet::gc` of level [l] under its mutex *)
Definition gc_level (s : cst) (l : nat) : cst :=
  fold_left gc_try (ids_at_level (cn s) l) s.

(** `Manager::gc`: all levels, top-down *)
Definition collect (s : cst) : cst := fold_left gc_level (seq 0 nl) s.

(** the AGcNode actions that [collect] actually performs, in order (the schedule) *)
Definition gc_try_sched (s : cst) (id : positive) : list act :=
  match step k terms nl s (AGcNode id) with
  | Some _ => [AGcNode id]
  | None => []
  end.

Fixpoint gc_ids_sched (s : cst) (ids : list positive) : list act :=
  match ids with
  | [] => []
  | id :: r => gc_try_sched s id ++ gc_ids_sched (gc_try s id) r
  end.

Fixpoint gc_levels_sched (s : cst) (ls : list nat) : list act :=
  match ls with
  | [] => []
  | l :: r => gc_ids_sched s (ids_at_level (cn s) l) ++ gc_levels_sched (gc_level s l) r
  end.

Definition collect_sched (s : cst) : list act := gc_levels_sched s (seq 0 nl).

(** ** histories: actions of the threads interleaved with whole collections *)

Inductive hact :=
| HAct (a : act)
| HCollect.

Definition hstep (s : cst) (h : hact) : option cst :=
  match h with
  | HAct a => match step k terms nl s a with Some (s', _) => Some s' | None => None end
  | HCollect => Some (collect s)
  end.

Fixpoint hrun (s : cst) (hist : list hact) : option cst :=
  match hist with
  | [] => Some s
  | h :: r => match hstep s h with Some s' => hrun s' r | None => None end
  end.

End Collect.

(** executable reachability from the owned edges through child edges ([fuel] = number
    of levels suffices: levels strictly increase along child edges) *)
Fixpoint reach_from_b (t : ctable) (fuel : nat) (r : ref) (id : positive) : bool :=
  match r with
  | RT _ => false
  | RN j =>
    Pos.eqb j id ||
    match fuel with
    | O => false
    | S f =>
      match cfind t j with
      | Some nd => existsb (fun e => reach_from_b t f (eref e) id) (cch nd)
      | None => false
      end
    end
  end.

Definition reach_own_b (nl : nat) (s : cst) (id : positive) : bool :=
  existsb (fun o => reach_from_b (cn s) nl (eref (snd o)) id) (cown s).
