(** * C05 — the return value of a collection, and the collection of a lifted snapshot

    The correspondence run (driver ocaml/c05s_main.ml, stage of checks/C05.py) lifts the
    snapshot taken before every explicit `Manager::gc` of a history to a state of the
    interleaving model ([of_snap]: the stored nodes with the reported counts; owners =
    the harness' handles and, for ZBDDs, the manager's own edges to its tautology
    chain), runs the extracted [collect] (Mgr/ConcGc.v) on it and compares ids, counts
    and gc()'s return value with the snapshot taken afterwards.  Here:

    - [collect_keys]: the ids stored after the collection are (as a set, without
      repetition) the stored ids that the executable reachability test accepts;
    - [collect_count]: the number of freed nodes (what `Manager::gc` returns for the
      kinds with static terminals) = the number of stored nodes that no owned edge
      reaches;
    - [of_snap] facts: [cfind] on the lifted table is [find_node] on the snapshot;
      reachability from an owned edge of the lifted state is [reachable] (DD/TableProofs.v,
      the relation of C05_no_dead_reachable) from the handles and the extra owners;
    - [gc_snap_exact], [gc_snap_count]: both statements directly on the snapshot, with
      the executable hypothesis [cinv_b] that the driver evaluates. *)

From Coq Require Import List NArith PArith Bool Arith Lia Permutation FMapPositive.
From OxiVerif Require Import DD.Table DD.TableExtra DD.TableProofs
  Mgr.Conc Mgr.ConcBase Mgr.ConcProofs Mgr.ConcSnap Mgr.ConcSem Mgr.ConcGc Mgr.ConcGcProofs.
Import ListNotations.

Lemma filter_split_length : forall (A : Type) (p : A -> bool) (l : list A),
  length l = length (filter p l) + length (filter (fun x => negb (p x)) l).
Proof.
  intros A p. induction l as [|x l IH]; simpl; [reflexivity|].
  destruct (p x); simpl; lia.
Qed.

Section Count.
Variable k : kind.
Variable terms : list (N * N).
Variable nl : nat.

Notation CInv := (CInv k terms nl).
Notation collect := (collect k terms nl).

(** the stored ids an owned edge reaches / does not reach *)
Definition survivors (s : cst) : list positive := filter (reach_own_b nl s) (map fst (cn s)).
Definition garbage (s : cst) : list positive :=
  filter (fun id => negb (reach_own_b nl s id)) (map fst (cn s)).

(** `collected` of `Manager::gc`: sum over the levels of (entries before - entries after) *)
Definition collected (s : cst) : nat := length (cn s) - length (cn (collect s)).

Theorem collect_keys : forall s, CInv s ->
  NoDup (map fst (cn (collect s))) /\
  forall id, In id (map fst (cn (collect s))) <-> In id (survivors s).
Proof.
  intros s H. split; [apply (ti_nodup _ _ _ _ (ci_tbl _ _ _ _ (collect_inv k terms nl s H)))|].
  intros id. unfold survivors. rewrite filter_In.
  destruct (collect_exact k terms nl s id H) as [Hiff _].
  rewrite (reach_own_b_spec k terms nl s id H). split.
  - intros Hin. destruct (cfind (cn (collect s)) id) as [nd'|] eqn:F.
    + destruct (proj1 Hiff (ex_intro _ nd' eq_refl)) as [[nd Fs] Hr]. split; [apply (cfind_Some_keys _ _ _ Fs) | exact Hr].
    + apply cfind_None_keys in F. contradiction.
  - intros [Hin Hr]. destruct (cfind (cn s) id) as [nd|] eqn:F.
    + destruct (proj2 Hiff (conj (ex_intro _ nd eq_refl) Hr)) as [nd' F']. apply (cfind_Some_keys _ _ _ F').
    + apply cfind_None_keys in F. contradiction.
Qed.

Theorem collect_keys_perm : forall s, CInv s -> Permutation (map fst (cn (collect s))) (survivors s).
Proof.
  intros s H. destruct (collect_keys s H) as [Hn Hiff].
  apply NoDup_Permutation; [exact Hn | | exact Hiff].
  apply NoDup_filter. apply (ti_nodup _ _ _ _ (ci_tbl _ _ _ _ H)).
Qed.

Theorem collect_count : forall s, CInv s ->
  length (cn s) = length (cn (collect s)) + length (garbage s) /\
  collected s = length (garbage s).
Proof.
  intros s H.
  assert (E : length (cn s) = length (cn (collect s)) + length (garbage s)).
  { pose proof (Permutation_length (collect_keys_perm s H)) as P. rewrite map_length in P.
    rewrite P. unfold survivors, garbage.
    rewrite <- (map_length fst (cn s)) at 1. apply filter_split_length. }
  split; [exact E|]. unfold collected. lia.
Qed.

End Count.

(** ** Lifting a snapshot *)

Definition to_c (nd : node) : cnode := mkC (nlevel nd) (nchildren nd) (nrc nd).

Definition of_nodes (m : PositiveMap.t node) : ctable :=
  map (fun p : positive * node => (fst p, to_c (snd p))) (PositiveMap.elements m).

(** handles = tokens of thread 0, manager-owned edges ([extra]) = tokens of thread 1 *)
Definition of_snap (s : snap) (extra : list edge) : cst :=
  mkCst (of_nodes (s_nodes s))
        (map (fun h : N * edge => (0, snd h)) (s_handles s) ++ map (fun e : edge => (1, e)) extra).

Lemma of_nodes_keys : forall m, map fst (of_nodes m) = map fst (PositiveMap.elements m).
Proof. intros m. unfold of_nodes. rewrite map_map. reflexivity. Qed.

Lemma cfind_of_snap : forall s extra id,
  cfind (cn (of_snap s extra)) id = option_map to_c (find_node s id).
Proof.
  intros s extra id. simpl.
  assert (Hn : NoDup (map fst (of_nodes (s_nodes s)))) by (rewrite of_nodes_keys; apply elements_keys_nodup).
  destruct (find_node s id) as [nd|] eqn:F; simpl.
  - apply (In_cfind _ _ _ Hn). apply find_node_elements in F. unfold of_nodes.
    apply in_map_iff. exists (id, nd). auto.
  - apply cfind_None_keys. rewrite of_nodes_keys. intros Hin. apply in_map_iff in Hin.
    destruct Hin as [[i nd] [Ei Hin]]. simpl in Ei. subst i. apply find_node_elements in Hin. congruence.
Qed.

Lemma length_of_snap : forall s extra,
  length (cn (of_snap s extra)) = PositiveMap.cardinal (s_nodes s).
Proof. intros s extra. simpl. unfold of_nodes. rewrite map_length, PositiveMap.cardinal_1. reflexivity. Qed.

(** reachable from an owned edge of the lifted state = [reachable] from the handles and the extra owners *)
Lemma reach_own_of_snap : forall s extra id,
  reach_own (of_snap s extra) id <-> reachable s (handle_refs s ++ map eref extra) (RN id).
Proof.
  intros s extra id. unfold reach_own. split.
  - intros [o [Ho Hr]].
    assert (Hroot : In (eref (snd o)) (handle_refs s ++ map eref extra)).
    { simpl in Ho. apply in_app_iff in Ho. apply in_app_iff. destruct Ho as [Ho|Ho].
      - left. apply in_map_iff in Ho. destruct Ho as [h [<- Hh]]. simpl. unfold handle_refs.
        apply in_map_iff. exists h. auto.
      - right. apply in_map_iff in Ho. destruct Ho as [e [<- He]]. simpl. apply in_map. exact He. }
    remember (RN id) as tgt eqn:Et. clear Et.
    induction Hr as [|j nd e Hr IH F He].
    + apply reach_root. exact Hroot.
    + rewrite cfind_of_snap in F. destruct (find_node s j) as [nd0|] eqn:F0; [|discriminate].
      simpl in F. inversion F; subst nd. simpl in He.
      apply (reach_child s _ j nd0 e IH F0 He).
  - intros Hr. remember (RN id) as tgt eqn:Et. revert id Et.
    induction Hr as [r Hroot|j nd e Hr IH F He]; intros id Et.
    + assert (Ho : exists o, In o (cown (of_snap s extra)) /\ eref (snd o) = r).
      { simpl. apply in_app_iff in Hroot. destruct Hroot as [Hh|He].
        - unfold handle_refs in Hh. apply in_map_iff in Hh. destruct Hh as [h [<- Hh]].
          exists (0, snd h). split; [|reflexivity]. apply in_app_iff. left. apply in_map_iff. exists h. auto.
        - apply in_map_iff in He. destruct He as [e [<- He]].
          exists (1, e). split; [|reflexivity]. apply in_app_iff. right. apply in_map. exact He. }
      destruct Ho as [o [Ho Eo]]. exists o. split; [exact Ho|]. rewrite Eo. replace (RN id) with r by congruence. apply creach_refl.
    + destruct (IH j eq_refl) as [o [Ho Hc]]. exists o. split; [exact Ho|]. replace (RN id) with (eref e) by congruence.
      apply (creach_child _ _ j (to_c nd) e Hc); [rewrite cfind_of_snap, F; reflexivity | exact He].
Qed.

(** ** The two statements on the snapshot itself *)

Theorem gc_snap_exact : forall s extra id,
  cinv_b (s_kind s) (s_terms s) (nlevels s) (of_snap s extra) = true ->
  let s' := collect (s_kind s) (s_terms s) (nlevels s) (of_snap s extra) in
  ((exists nd', cfind (cn s') id = Some nd') <->
   (exists nd, find_node s id = Some nd) /\ reachable s (handle_refs s ++ map eref extra) (RN id)) /\
  (forall nd', cfind (cn s') id = Some nd' ->
     exists nd, find_node s id = Some nd /\ cl nd' = nlevel nd /\ cch nd' = nchildren nd) /\
  cown s' = cown (of_snap s extra).
Proof.
  intros s extra id Hb. apply cinv_b_spec in Hb. cbv zeta.
  destruct (collect_exact _ _ _ _ id Hb) as [Hiff Hsame]. split; [|split].
  - rewrite Hiff. rewrite reach_own_of_snap.
    rewrite cfind_of_snap. split.
    + intros [[nd F] Hr]. destruct (find_node s id) as [nd0|]; [|discriminate]. split; [eauto | exact Hr].
    + intros [[nd F] Hr]. rewrite F. split; [simpl; eauto | exact Hr].
  - intros nd' F'. destruct (Hsame nd' F') as [nd [F [E1 E2]]]. rewrite cfind_of_snap in F.
    destruct (find_node s id) as [nd0|]; [|discriminate]. simpl in F. inversion F; subst nd.
    exists nd0. auto.
  - apply (proj1 (collect_keeps _ _ _ _ Hb)).
Qed.

(** gc()'s return value = number of stored nodes that no handle (or extra owner) reaches *)
Theorem gc_snap_count : forall s extra,
  cinv_b (s_kind s) (s_terms s) (nlevels s) (of_snap s extra) = true ->
  collected (s_kind s) (s_terms s) (nlevels s) (of_snap s extra) =
  length (garbage (nlevels s) (of_snap s extra)) /\
  forall id, In id (garbage (nlevels s) (of_snap s extra)) <->
    (exists nd, find_node s id = Some nd) /\ ~ reachable s (handle_refs s ++ map eref extra) (RN id).
Proof.
  intros s extra Hb. apply cinv_b_spec in Hb. split; [apply (proj2 (collect_count _ _ _ _ Hb))|].
  intros id. unfold garbage. rewrite filter_In, negb_true_iff.
  rewrite <- reach_own_of_snap.
  rewrite <- (reach_own_b_spec _ _ _ _ id Hb). rewrite <- not_true_iff_false. split.
  - intros [Hin Hn]. split; [|exact Hn].
    destruct (find_node s id) as [nd|] eqn:F; [eauto|]. exfalso.
    assert (Fc : cfind (cn (of_snap s extra)) id = None) by (rewrite cfind_of_snap, F; reflexivity).
    apply cfind_None_keys in Fc. contradiction.
  - intros [[nd F] Hn]. split; [|exact Hn].
    apply (cfind_Some_keys _ _ (to_c nd)). rewrite cfind_of_snap, F. reflexivity.
Qed.

(** ** Non-vacuity: a snapshot with a dead chain of two nodes (node 3 on level 0 with count 0,
    node 1 on level 1 referenced only by node 3) and a handle on node 2: the hypothesis
    holds, gc() returns 2, node 2 survives with count 1, nodes 1 and 3 are the garbage *)
Definition gc_snap_ex : snap :=
  let e (r : ref) := mkEdge r false in
  mkSnap KBdd
    (PositiveMap.add 3%positive (mkNode 0 [e (RN 1); e (RN 2)] 0 0%N)
      (PositiveMap.add 2%positive (mkNode 1 [e (RT 0%N); e (RT 1%N)] 1 2%N)
        (PositiveMap.add 1%positive (mkNode 1 [e (RT 1%N); e (RT 0%N)] 1 1%N) (PositiveMap.empty node))))
    [(0%N, 0%N); (1%N, 1%N)] [0; 1] [0; 1] [(7%N, e (RN 2))].

Example gc_snap_example :
  cinv_b KBdd (s_terms gc_snap_ex) (nlevels gc_snap_ex) (of_snap gc_snap_ex []) = true /\
  collected KBdd (s_terms gc_snap_ex) (nlevels gc_snap_ex) (of_snap gc_snap_ex []) = 2 /\
  garbage (nlevels gc_snap_ex) (of_snap gc_snap_ex []) = [1%positive; 3%positive] /\
  cn (collect KBdd (s_terms gc_snap_ex) (nlevels gc_snap_ex) (of_snap gc_snap_ex [])) =
    [(2%positive, mkC 1 [mkEdge (RT 0%N) false; mkEdge (RT 1%N) false] 1%N)].
Proof. vm_compute. repeat split; reflexivity. Qed.
