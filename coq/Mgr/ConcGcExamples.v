(** * C05 — non-vacuity of the collection theorems

    BDD, 2 levels.  Node 3 (level 0, children 1 and 2) is unreferenced; node 1
    (level 1) is referenced only by node 3: a dead chain of two nodes on different
    levels.  Node 2 (level 1) is held by thread 1 (and is a child of node 3).
    The collection removes exactly the chain: node 1 has count 1 when the collection
    starts and becomes unreferenced only because node 3 is removed first (level 0 is
    swept before level 1). *)

From Coq Require Import List NArith PArith Bool Arith.
From OxiVerif Require Import DD.Table DD.TableExtra DD.TableProofs
  Mgr.Conc Mgr.ConcBase Mgr.ConcProofs Mgr.ConcSnap Mgr.ConcExamples Mgr.ConcGc Mgr.ConcGcProofs.
Import ListNotations.

Definition gc_ex : cst :=
  mkCst [(3%positive, mkC 0 [E 1; E 2] 0%N); (2%positive, mkC 1 [T0; T1] 2%N); (1%positive, mkC 1 [T1; T0] 1%N)]
        [(1, E 2)].

Definition gc_ex_after : cst := mkCst [(2%positive, mkC 1 [T0; T1] 1%N)] [(1, E 2)].

Example gc_ex_inv : CInv KBdd ex_terms 2 gc_ex.
Proof. apply cinv_b_spec. vm_compute. reflexivity. Qed.

(** the state is reachable: it is [ex_mid] after three releases *)
Example gc_ex_reachable :
  run KBdd ex_terms 2 cempty (firstn 7 ex_sched ++ [ARelease 1 (E 1); ARelease 0 (E 1); ARelease 0 (E 3)])
  = Some gc_ex.
Proof. vm_compute. reflexivity. Qed.

Example gc_ex_collect : collect KBdd ex_terms 2 gc_ex = gc_ex_after.
Proof. vm_compute. reflexivity. Qed.

Example gc_ex_sched : collect_sched KBdd ex_terms 2 gc_ex = [AGcNode 3; AGcNode 1].
Proof. vm_compute. reflexivity. Qed.

(** exactly the chain is unreachable from the owned edge *)
Example gc_ex_reach :
  reach_own_b 2 gc_ex 2 = true /\ reach_own_b 2 gc_ex 1 = false /\ reach_own_b 2 gc_ex 3 = false.
Proof. vm_compute. repeat split; reflexivity. Qed.

(** the handle of thread 1 denotes "not x1" before and after *)
Example gc_ex_sem :
  sem_edge (to_snap KBdd ex_terms 2 gc_ex) (E 2) (fun _ => 0) = Some 0%N /\
  sem_edge (to_snap KBdd ex_terms 2 gc_ex_after) (E 2) (fun _ => 0) = Some 0%N /\
  sem_edge (to_snap KBdd ex_terms 2 gc_ex) (E 2) (fun _ => 1) = Some 1%N /\
  sem_edge (to_snap KBdd ex_terms 2 gc_ex_after) (E 2) (fun _ => 1) = Some 1%N /\
  no_dead_b (to_snap KBdd ex_terms 2 gc_ex) = false /\
  no_dead_b (to_snap KBdd ex_terms 2 gc_ex_after) = true.
Proof. vm_compute. repeat split; reflexivity. Qed.

(** the sweep order matters: bottom-up would leave node 1 behind *)
Example gc_ex_wrong_order :
  cn (fold_left (gc_level KBdd ex_terms 2) [1; 0] gc_ex)
  = [(2%positive, mkC 1 [T0; T1] 1%N); (1%positive, mkC 1 [T1; T0] 0%N)].
Proof. vm_compute. reflexivity. Qed.

(** dropping the last handle and collecting returns the empty manager *)
Example gc_ex_all_dropped :
  hrun KBdd ex_terms 2 gc_ex [HCollect; HAct (ARelease 1 (E 2)); HCollect] = Some cempty.
Proof. vm_compute. reflexivity. Qed.

(** a history with collections in between: thread 1 holds (E 2) throughout *)
Definition gc_hist : list hact :=
  [HAct (ARetain 0 (E 2)); HCollect; HAct (AGoi 0 0 [E 2; T1] 1); HCollect; HAct (ARelease 0 (E 1)); HCollect].

Example gc_hist_run : exists s', hrun KBdd ex_terms 2 gc_ex gc_hist = Some s' /\ s' = gc_ex_after.
Proof. eexists. split; vm_compute; reflexivity. Qed.

Example gc_hist_held : held_through KBdd ex_terms 2 gc_ex gc_hist (E 2).
Proof. vm_compute. repeat split; try (exists 1; auto 10); auto. Qed.
