(** * C05 — a whole collection frees exactly the unreferenced nodes

    [collect] (Mgr/ConcGc.v) is a schedule of [AGcNode] actions of the interleaving model
    ([collect_is_run]); therefore it preserves [CInv] (exact counts, well-formed
    snapshot).  Using the sweep order (a parent lies on a numerically lower level than
    its children and is visited first) it leaves no node with count 0
    ([collect_no_dead]); hence a node survives IFF it was reachable from an owned edge
    ([collect_exact]); tokens and their denotations are unchanged ([collect_keeps]);
    with no handle left the table is empty ([collect_all_dropped]); [collect] is
    idempotent.  Histories = actions of any threads interleaved with whole
    collections ([hrun]): counts stay exact and a handle that is held denotes the same
    function throughout ([history_inv], [history_sem]). *)

From Coq Require Import List NArith PArith Bool Arith Lia.
From OxiVerif Require Import DD.Table DD.TableExtra DD.TableProofs
  Mgr.Conc Mgr.ConcBase Mgr.ConcProofs Mgr.ConcSnap Mgr.ConcSem Mgr.ConcGc.
Import ListNotations.

Arguments N.add : simpl never.
Arguments N.sub : simpl never.
Arguments N.mul : simpl never.

Section GcProofs.
Variable k : kind.
Variable terms : list (N * N).
Variable nl : nat.

Notation step := (step k terms nl).
Notation run := (run k terms nl).
Notation CInv := (CInv k terms nl).
Notation to_snap := (to_snap k terms nl).
Notation gc_try := (gc_try k terms nl).
Notation gc_level := (gc_level k terms nl).
Notation collect := (collect k terms nl).
Notation collect_sched := (collect_sched k terms nl).
Notation hstep := (hstep k terms nl).
Notation hrun := (hrun k terms nl).

(** reachable from an owned edge (of any thread) through child edges *)
Definition reach_own (s : cst) (id : positive) : Prop :=
  exists o, In o (cown s) /\ creach (cn s) (eref (snd o)) (RN id).

Definition is_gc (a : act) : Prop := exists id, a = AGcNode id.
Definition gc_only (sched : list act) : Prop := forall a, In a sched -> is_gc a.

(** ** (a) the collection is a schedule of AGcNode actions *)

Lemma run_app : forall a b s,
  run s (a ++ b) = match run s a with Some s1 => run s1 b | None => None end.
Proof.
  induction a as [|x a IH]; intros b s; simpl; [reflexivity|].
  destruct (step s x) as [[s1 r]|]; [apply IH | reflexivity].
Qed.

Lemma run_cons : forall s a r,
  run s (a :: r) = match step s a with None => None | Some (s', _) => run s' r end.
Proof. reflexivity. Qed.

Lemma gc_try_run : forall s id, run s (gc_try_sched k terms nl s id) = Some (gc_try s id).
Proof.
  intros s id. unfold gc_try_sched, Mgr.ConcGc.gc_try.
  destruct (step s (AGcNode id)) as [[s' r]|] eqn:E; [rewrite run_cons, E|]; reflexivity.
Qed.

Lemma gc_ids_run : forall ids s,
  run s (gc_ids_sched k terms nl s ids) = Some (fold_left gc_try ids s).
Proof.
  induction ids as [|id r IH]; intros s; simpl; [reflexivity|].
  rewrite run_app, gc_try_run. apply IH.
Qed.

Lemma gc_levels_run : forall ls s,
  run s (gc_levels_sched k terms nl s ls) = Some (fold_left gc_level ls s).
Proof.
  induction ls as [|l r IH]; intros s; simpl; [reflexivity|].
  rewrite run_app, gc_ids_run. apply IH.
Qed.

Lemma gc_only_app : forall a b, gc_only a -> gc_only b -> gc_only (a ++ b).
Proof. intros a b Ha Hb x Hx. apply in_app_or in Hx. destruct Hx; auto. Qed.

Lemma gc_try_sched_only : forall s id, gc_only (gc_try_sched k terms nl s id).
Proof.
  intros s id x Hx. unfold gc_try_sched in Hx.
  destruct (step s (AGcNode id)); simpl in Hx; [|contradiction].
  destruct Hx as [<-|[]]. exists id. reflexivity.
Qed.

Lemma gc_ids_sched_only : forall ids s, gc_only (gc_ids_sched k terms nl s ids).
Proof.
  induction ids as [|id r IH]; intros s; simpl; [intros x []|].
  apply gc_only_app; [apply gc_try_sched_only | apply IH].
Qed.

Lemma gc_levels_sched_only : forall ls s, gc_only (gc_levels_sched k terms nl s ls).
Proof.
  induction ls as [|l r IH]; intros s; simpl; [intros x []|].
  apply gc_only_app; [apply gc_ids_sched_only | apply IH].
Qed.

Theorem collect_is_run : forall s,
  run s (collect_sched s) = Some (collect s) /\ gc_only (collect_sched s).
Proof. intros s. split; [apply gc_levels_run | apply gc_levels_sched_only]. Qed.

Theorem collect_inv : forall s, CInv s -> CInv (collect s).
Proof. intros s H. apply (run_inv k terms nl _ s _ H (proj1 (collect_is_run s))). Qed.

Theorem collect_wf : forall s, CInv s -> terms_unique_b terms = true ->
  CInv (collect s) /\ WF (to_snap (collect s)) /\ rc_exact_b (to_snap (collect s)) [] = true.
Proof.
  intros s H Ht. pose proof (collect_inv s H) as H'. split; [exact H'|]. apply conc_wf; assumption.
Qed.

(** counts are exact after any schedule of any threads from the empty manager *)
Theorem run_counts_exact : forall sched s, terms_unique_b terms = true ->
  run cempty sched = Some s ->
  WF (to_snap s) /\ rc_exact_b (to_snap s) [] = true.
Proof.
  intros sched s Ht Hr. apply conc_wf; [|exact Ht]. apply (reachable_inv k terms nl sched s Hr).
Qed.

(** ** facts about schedules of collector actions *)

Lemma gc_step_shape : forall s id s' r, CInv s -> step s (AGcNode id) = Some (s', r) ->
  exists gnd, cfind (cn s) id = Some gnd /\ crc gnd = 0%N /\ cown s' = cown s /\
  forall j, cfind (cn s') j =
            if Pos.eqb j id then None
            else option_map (fun nd => set_rc nd (crc nd - N.of_nat (cnt j (cch gnd)))) (cfind (cn s) j).
Proof.
  intros s id s' r H Hs. simpl in Hs.
  destruct (cfind (cn s) id) as [gnd|] eqn:F; [|discriminate].
  destruct (N.eqb_spec (crc gnd) 0) as [Hz|_]; [|discriminate]. inversion Hs; subst. simpl.
  exists gnd. repeat split; auto. intros j.
  rewrite cfind_dec_children, (cfind_cremove id _ j (ti_nodup _ _ _ _ (ci_tbl _ _ _ s H))).
  destruct (Pos.eqb j id); reflexivity.
Qed.

Lemma gc_step_sub : forall s id s' r j nd', CInv s -> step s (AGcNode id) = Some (s', r) ->
  cfind (cn s') j = Some nd' ->
  exists nd, cfind (cn s) j = Some nd /\ cl nd' = cl nd /\ cch nd' = cch nd.
Proof.
  intros s id s' r j nd' H Hs F'.
  destruct (gc_step_shape s id s' r H Hs) as [gnd [_ [_ [_ Hf]]]]. rewrite Hf in F'.
  destruct (Pos.eqb j id); [discriminate|].
  destruct (cfind (cn s) j) as [nd|]; simpl in F'; [|discriminate].
  exists nd. inversion F'; subst. simpl. auto.
Qed.

Lemma gc_run_facts : forall sched s s', CInv s -> gc_only sched -> run s sched = Some s' ->
  cown s' = cown s /\
  forall j nd', cfind (cn s') j = Some nd' ->
    exists nd, cfind (cn s) j = Some nd /\ cl nd' = cl nd /\ cch nd' = cch nd.
Proof.
  induction sched as [|a rest IH]; intros s s' H Hg Hr; simpl in Hr.
  - inversion Hr; subst. split; [reflexivity|]. intros j nd' F. exists nd'. auto.
  - destruct (step s a) as [[s1 res]|] eqn:Hs; [|discriminate].
    destruct (Hg a (or_introl eq_refl)) as [id ->].
    destruct (IH s1 s' (step_inv k terms nl _ _ _ _ H Hs) (fun x Hx => Hg x (or_intror Hx)) Hr)
      as [Ho Hsub].
    destruct (gc_step_shape s id s1 res H Hs) as [g2 [_ [_ [Ho1 _]]]].
    split; [congruence|]. intros j nd' F'.
    destruct (Hsub j nd' F') as [nd1 [F1 [L1 C1]]].
    destruct (gc_step_sub s id s1 res j nd1 H Hs F1) as [nd [F [L C]]].
    exists nd. split; [exact F|]. split; congruence.
Qed.

Lemma gc_only_idle : forall sched tid, gc_only sched -> forall a, In a sched -> act_tid a <> Some tid.
Proof. intros sched tid Hg a Ha. destruct (Hg a Ha) as [id ->]. discriminate. Qed.

(** reachability in a table obtained by removals is reachability in the original *)
Lemma creach_sub : forall t t' r r',
  (forall j nd', cfind t' j = Some nd' -> exists nd, cfind t j = Some nd /\ cl nd' = cl nd /\ cch nd' = cch nd) ->
  creach t' r r' -> creach t r r'.
Proof.
  intros t t' r r' Hsub Hr. induction Hr as [|j nd' e Hr IH F He]; [constructor|].
  destruct (Hsub j nd' F) as [nd [Fj [_ Hc]]].
  apply (creach_child t r j nd e IH Fj). rewrite <- Hc. exact He.
Qed.

(** ** (d) the sweep order leaves no node with count 0 *)

(** every stored node above level [l] has a positive count *)
Definition level_done (l : nat) (s : cst) : Prop :=
  forall j nd, cfind (cn s) j = Some nd -> cl nd < l -> crc nd <> 0%N.

Lemma gc_try_inv : forall s id, CInv s -> CInv (gc_try s id).
Proof.
  intros s id H. unfold Mgr.ConcGc.gc_try.
  destruct (step s (AGcNode id)) as [[s' r]|] eqn:E; [|exact H].
  apply (step_inv k terms nl _ _ _ _ H E).
Qed.

Lemma gc_try_cases : forall s id, CInv s ->
  (gc_try s id = s /\ forall nd, cfind (cn s) id = Some nd -> crc nd <> 0%N) \/
  (exists gnd r, cfind (cn s) id = Some gnd /\ crc gnd = 0%N /\
                 step s (AGcNode id) = Some (gc_try s id, r)).
Proof.
  intros s id H. unfold Mgr.ConcGc.gc_try.
  destruct (step s (AGcNode id)) as [[s' r]|] eqn:E.
  - right. destruct (gc_step_shape s id s' r H E) as [gnd [F [Hz _]]]. exists gnd, r. auto.
  - left. split; [reflexivity|]. intros nd F Hz. simpl in E. rewrite F, Hz in E. discriminate.
Qed.

(** removing a node does not touch the nodes on its own level or above *)
Lemma gc_try_low : forall s id gnd j nd, CInv s -> cfind (cn s) id = Some gnd -> j <> id ->
  cfind (cn s) j = Some nd -> cl nd <= cl gnd -> cfind (cn (gc_try s id)) j = Some nd.
Proof.
  intros s id gnd j nd H Fg Hne Fj Hle.
  destruct (gc_try_cases s id H) as [[E _]|[g [r [Fg' [Hz Hs]]]]]; [rewrite E; exact Fj|].
  rewrite Fg in Fg'. inversion Fg'; subst g.
  destruct (gc_step_shape s id _ r H Hs) as [g [Fg2 [_ [_ Hf]]]].
  rewrite Fg in Fg2. inversion Fg2; subst g.
  rewrite Hf, Fj. destruct (Pos.eqb_spec j id); [contradiction|]. simpl.
  assert (Hc : cnt j (cch gnd) = 0).
  { destruct (cnt j (cch gnd)) eqn:E; [reflexivity|]. exfalso.
    destruct (cnt_pos_In j (cch gnd) ltac:(lia)) as [e [He Er]].
    destruct (child_live k terms nl s id gnd e j H Fg He Er) as [ndc [Fc [_ Hlt]]].
    rewrite Fj in Fc. inversion Fc; subst. lia. }
  rewrite Hc. destruct nd as [l c x]. unfold set_rc. simpl. rewrite N.sub_0_r. reflexivity.
Qed.

Lemma gc_try_sub : forall s id j nd', CInv s -> cfind (cn (gc_try s id)) j = Some nd' ->
  exists nd, cfind (cn s) j = Some nd /\ cl nd' = cl nd /\ cch nd' = cch nd.
Proof.
  intros s id j nd' H F'.
  destruct (gc_try_cases s id H) as [[E _]|[g [r [_ [_ Hs]]]]].
  - rewrite E in F'. exists nd'. auto.
  - apply (gc_step_sub s id _ r j nd' H Hs F').
Qed.

Lemma sweep_level : forall l rest s, CInv s -> level_done l s ->
  (forall id gnd, In id rest -> cfind (cn s) id = Some gnd -> cl gnd = l) ->
  (forall j nd, cfind (cn s) j = Some nd -> cl nd = l -> crc nd = 0%N -> In j rest) ->
  level_done (S l) (fold_left gc_try rest s).
Proof.
  induction rest as [|id rest IH]; intros s H Hd Hlv Hcov; simpl.
  - intros j nd F Hl Hz. destruct (Nat.eq_dec (cl nd) l) as [E|Hne].
    + apply (Hcov j nd F E Hz).
    + apply (Hd j nd F ltac:(lia) Hz).
  - assert (Hcase := gc_try_cases s id H).
    apply IH.
    + apply gc_try_inv. exact H.
    + (* the levels above stay done *)
      intros j nd' F' Hl.
      destruct Hcase as [[E _]|[g [r [Fg [Hz Hs]]]]]; [rewrite E in F'; apply (Hd j nd' F' Hl)|].
      destruct (gc_try_sub s id j nd' H F') as [nd [Fj [L C]]].
      pose proof (Hlv id g (or_introl eq_refl) Fg) as Hg.
      assert (Hne : j <> id).
      { intros ->. rewrite Fg in Fj. inversion Fj; subst. lia. }
      rewrite (gc_try_low s id g j nd H Fg Hne Fj ltac:(lia)) in F'. inversion F'; subst nd'.
      apply (Hd j nd Fj ltac:(lia)).
    + intros id' g' Hin F'. destruct (gc_try_sub s id id' g' H F') as [g0 [F0 [L _]]].
      rewrite L. apply (Hlv id' g0 (or_intror Hin) F0).
    + (* the dead nodes of this level are still to be visited *)
      intros j nd' F' Hl Hz.
      destruct Hcase as [[E Hnz]|[g [r [Fg [Hgz Hs]]]]].
      * rewrite E in F'. destruct (Hcov j nd' F' Hl Hz) as [->|Hin]; [|exact Hin].
        exfalso. apply (Hnz nd' F' Hz).
      * destruct (gc_try_sub s id j nd' H F') as [nd [Fj [L C]]].
        pose proof (Hlv id g (or_introl eq_refl) Fg) as Hg.
        destruct (gc_step_shape s id _ r H Hs) as [g2 [_ [_ [_ Hf]]]].
        assert (Hne : j <> id).
        { intros E0. rewrite Hf, E0, Pos.eqb_refl in F'. discriminate. }
        rewrite (gc_try_low s id g j nd H Fg Hne Fj ltac:(lia)) in F'. inversion F'; subst nd'.
        destruct (Hcov j nd Fj Hl Hz) as [E|Hin]; [congruence | exact Hin].
Qed.

Lemma ids_at_level_In : forall t l id, In id (ids_at_level t l) <->
  exists nd, In (id, nd) t /\ cl nd = l.
Proof.
  intros t l id. unfold ids_at_level. rewrite in_map_iff. split.
  - intros [[i nd] [E Hin]]. simpl in E. subst i. apply filter_In in Hin. destruct Hin as [Hin Hl].
    simpl in Hl. apply Nat.eqb_eq in Hl. eauto.
  - intros [nd [Hin Hl]]. exists (id, nd). split; [reflexivity|]. apply filter_In. split; [exact Hin|].
    simpl. apply Nat.eqb_eq. exact Hl.
Qed.

Lemma gc_level_done : forall l s, CInv s -> level_done l s -> level_done (S l) (gc_level s l).
Proof.
  intros l s H Hd. unfold Mgr.ConcGc.gc_level. apply sweep_level; auto.
  - intros id gnd Hin F. apply ids_at_level_In in Hin. destruct Hin as [nd [Hin Hl]].
    rewrite (In_cfind _ _ _ (ti_nodup _ _ _ _ (ci_tbl _ _ _ s H)) Hin) in F. congruence.
  - intros j nd F Hl _. apply ids_at_level_In. exists nd. split; [apply cfind_In; exact F | exact Hl].
Qed.

Lemma gc_ids_inv : forall ids s, CInv s -> CInv (fold_left gc_try ids s).
Proof. induction ids as [|id r IH]; intros s H; simpl; [exact H | apply IH; apply gc_try_inv; exact H]. Qed.

Lemma gc_level_inv : forall l s, CInv s -> CInv (gc_level s l).
Proof. intros l s H. apply gc_ids_inv. exact H. Qed.

Lemma collect_levels_done : forall n a s, CInv s -> level_done a s ->
  level_done (a + n) (fold_left gc_level (seq a n) s).
Proof.
  induction n as [|n IH]; intros a s H Hd; simpl.
  - rewrite Nat.add_0_r. exact Hd.
  - replace (a + S n) with (S a + n) by lia.
    apply IH; [apply gc_level_inv; exact H | apply gc_level_done; assumption].
Qed.

Lemma stored_level_lt : forall s j nd, CInv s -> cfind (cn s) j = Some nd -> cl nd < nl.
Proof.
  intros s j nd H F. pose proof (ti_pre _ _ _ _ (ci_tbl _ _ _ s H) j nd F) as Hp.
  unfold node_pre_b in Hp. rewrite !andb_true_iff in Hp. destruct Hp as [[[[_ Hl] _] _] _].
  apply Nat.ltb_lt. exact Hl.
Qed.

(** (d) after a collection no stored node has count 0 *)
Theorem collect_no_dead : forall s, CInv s ->
  forall j nd, cfind (cn (collect s)) j = Some nd -> crc nd <> 0%N.
Proof.
  intros s H j nd F.
  assert (Hd : level_done (0 + nl) (collect s)).
  { apply collect_levels_done; [exact H|]. intros j' nd' _ Hl. lia. }
  apply (Hd j nd F). simpl. apply (stored_level_lt (collect s) j nd (collect_inv s H) F).
Qed.

Corollary collect_no_dead_b : forall s, CInv s -> no_dead_b (to_snap (collect s)) = true.
Proof.
  intros s H. apply no_dead_b_spec. intros id nd F.
  destruct (find_node_to_snap_inv k terms nl _ id nd F) as [cnd [Fc ->]]. simpl.
  apply (collect_no_dead s H id cnd Fc).
Qed.

(** ** (b) exactly the unreferenced nodes are freed *)

(** exact counts and no count 0: every stored node is reachable from an owned edge
    (top-down induction on the level: a node of the top-most populated level has no
    parent) *)
Lemma no_dead_reach_own : forall s, CInv s ->
  (forall j nd, cfind (cn s) j = Some nd -> crc nd <> 0%N) ->
  forall id nd, cfind (cn s) id = Some nd -> reach_own s id.
Proof.
  intros s H Hnz.
  assert (Hind : forall n id nd, cl nd = n -> cfind (cn s) id = Some nd -> reach_own s id).
  { induction n as [n IH] using lt_wf_ind. intros id nd Hn F.
    pose proof (ci_rc _ _ _ s H id nd F) as Hrc. pose proof (Hnz id nd F) as Hz.
    destruct (owners (cown s) id) as [|a] eqn:Eo.
    - destruct (parents (cn s) id) as [|b] eqn:Ep; [exfalso; apply Hz; rewrite Hrc; reflexivity|].
      destruct (parents_pos_In (cn s) id ltac:(lia)) as [j [ndj [e [Hin [He Er]]]]].
      pose proof (In_cfind _ _ _ (ti_nodup _ _ _ _ (ci_tbl _ _ _ s H)) Hin) as Fj.
      destruct (child_live k terms nl s j ndj e id H Fj He Er) as [ndc [Fc [_ Hlt]]].
      rewrite F in Fc. inversion Fc; subst ndc.
      destruct (IH (cl ndj) ltac:(lia) j ndj eq_refl Fj) as [o [Ho Hr]].
      exists o. split; [exact Ho|]. rewrite <- Er. apply (creach_child _ _ j ndj e Hr Fj He).
    - destruct (owners_pos_In (cown s) id ltac:(lia)) as [o [Ho Er]].
      exists o. split; [exact Ho|]. rewrite Er. constructor. }
  intros id nd F. apply (Hind (cl nd) id nd eq_refl F).
Qed.

Theorem collect_exact : forall s id, CInv s ->
  ((exists nd', cfind (cn (collect s)) id = Some nd') <->
   (exists nd, cfind (cn s) id = Some nd) /\ reach_own s id) /\
  (forall nd', cfind (cn (collect s)) id = Some nd' ->
     exists nd, cfind (cn s) id = Some nd /\ cl nd' = cl nd /\ cch nd' = cch nd).
Proof.
  intros s id H.
  destruct (collect_is_run s) as [Hrun Hgc].
  destruct (gc_run_facts _ s _ H Hgc Hrun) as [Hown Hsub].
  split; [split|].
  - (* what survives was stored and is reachable *)
    intros [nd' F']. destruct (Hsub id nd' F') as [nd [F _]]. split; [eauto|].
    destruct (no_dead_reach_own (collect s) (collect_inv s H) (collect_no_dead s H) id nd' F')
      as [o [Ho Hr]].
    exists o. rewrite Hown in Ho. split; [exact Ho|]. apply (creach_sub _ _ _ _ Hsub Hr).
  - (* what is reachable survives *)
    intros [[nd F] [[tid e] [Ho Hr]]]. simpl in Hr.
    destruct (run_frame_idle k terms nl _ s _ tid e H Hrun (gc_only_idle _ tid Hgc) Ho) as [_ Hk].
    destruct (Hk (RN id) Hr) as [_ Hkeep]. destruct (Hkeep id nd eq_refl F) as [nd' [F' _]]. eauto.
  - intros nd' F'. apply (Hsub id nd' F').
Qed.

(** the executable reachability test decides [reach_own] *)

Lemma creach_from_term : forall t x r, creach t (RT x) r -> r = RT x.
Proof. intros t x r Hr. induction Hr as [|i nd e Hr IH F He]; [reflexivity | discriminate]. Qed.

Lemma creach_cons_left : forall t j nd e r, cfind t j = Some nd -> In e (cch nd) ->
  creach t (eref e) r -> creach t (RN j) r.
Proof.
  intros t j nd e r F He Hr. induction Hr as [|i ndi x Hr IH Fi Hx].
  - apply (creach_child t _ j nd e (creach_refl t _) F He).
  - apply (creach_child t _ i ndi x IH Fi Hx).
Qed.

Lemma creach_left : forall t j r, creach t (RN j) r ->
  r = RN j \/ exists nd e, cfind t j = Some nd /\ In e (cch nd) /\ creach t (eref e) r.
Proof.
  intros t j r Hr. induction Hr as [|i ndi x Hr IH Fi Hx]; [left; reflexivity|]. right.
  destruct IH as [E|[nd [e [F [He Hre]]]]].
  - inversion E; subst i. exists ndi, x. split; [exact Fi|]. split; [exact Hx | constructor].
  - exists nd, e. split; [exact F|]. split; [exact He|]. apply (creach_child t _ i ndi x Hre Fi Hx).
Qed.

Lemma reach_from_b_sound : forall t f r id, reach_from_b t f r id = true -> creach t r (RN id).
Proof.
  induction f as [|f IH]; intros r id Hb; destruct r as [x|j]; simpl in Hb; try discriminate;
    apply orb_true_iff in Hb; destruct Hb as [Hb|Hb]; try discriminate;
    try (apply Pos.eqb_eq in Hb; subst; constructor).
  destruct (cfind t j) as [nd|] eqn:F; [|discriminate].
  apply existsb_exists in Hb. destruct Hb as [e [He Hb]].
  apply (creach_cons_left t j nd e _ F He (IH _ _ Hb)).
Qed.

Lemma reach_from_b_complete : forall s id, CInv s -> forall f j,
  creach (cn s) (RN j) (RN id) ->
  (forall nd, cfind (cn s) j = Some nd -> nl - cl nd <= S f) ->
  reach_from_b (cn s) f (RN j) id = true.
Proof.
  intros s id H. induction f as [|f IH]; intros j Hr Hlv; simpl; apply orb_true_iff;
    (destruct (Pos.eqb_spec j id) as [E|Hne]; [left; reflexivity | right]);
    (destruct (creach_left _ _ _ Hr) as [E|[nd [e [F [He Hre]]]]]; [inversion E; congruence|]);
    (destruct (eref e) as [x|c] eqn:Er;
      [apply creach_from_term in Hre; discriminate|]);
    destruct (child_live k terms nl s j nd e c H F He Er) as [ndc [Fc [_ Hlt]]];
    pose proof (stored_level_lt s c ndc H Fc) as Hc; pose proof (Hlv nd F) as Hl.
  - lia.
  - rewrite F. apply existsb_exists. exists e. split; [exact He|]. rewrite Er. apply IH; [exact Hre|].
    intros nd' F'. rewrite Fc in F'. inversion F'; subst. lia.
Qed.

Theorem reach_own_b_spec : forall s id, CInv s -> (reach_own_b nl s id = true <-> reach_own s id).
Proof.
  intros s id H. unfold reach_own_b, reach_own. rewrite existsb_exists. split.
  - intros [o [Ho Hb]]. exists o. split; [exact Ho | apply (reach_from_b_sound _ _ _ _ Hb)].
  - intros [o [Ho Hr]]. exists o. split; [exact Ho|].
    destruct (eref (snd o)) as [x|j] eqn:Er; [apply creach_from_term in Hr; discriminate|].
    apply (reach_from_b_complete s id H nl j Hr). intros nd F. lia.
Qed.

(** ** (c) tokens and their denotations are unchanged *)

Theorem collect_keeps : forall s, CInv s ->
  cown (collect s) = cown s /\
  forall tid e c, In (tid, e) (cown s) ->
    sem_edge (to_snap (collect s)) e c = sem_edge (to_snap s) e c.
Proof.
  intros s H. destruct (collect_is_run s) as [Hrun Hgc].
  split; [apply (gc_run_facts _ s _ H Hgc Hrun)|].
  intros tid e c Ho.
  apply (run_sem_idle k terms nl _ s _ tid e c H Hrun (gc_only_idle _ tid Hgc) Ho).
Qed.

(** ** (e) all handles dropped: the table is empty again *)

Lemma table_nil : forall t : ctable, (forall id, cfind t id = None) -> t = [].
Proof.
  intros [|[i n] r] Hf; [reflexivity|]. specialize (Hf i). simpl in Hf.
  rewrite Pos.eqb_refl in Hf. discriminate.
Qed.

Theorem collect_all_dropped : forall s, CInv s -> cown s = [] -> collect s = cempty.
Proof.
  intros s H Ho.
  assert (Ht : cn (collect s) = []).
  { apply table_nil. intros id. destruct (cfind (cn (collect s)) id) as [nd'|] eqn:F'; [|reflexivity].
    destruct (proj1 (proj1 (collect_exact s id H)) (ex_intro _ nd' F')) as [_ [o [Hin _]]].
    rewrite Ho in Hin. destruct Hin. }
  pose proof (proj1 (collect_keeps s H)) as Hc. rewrite Ho in Hc.
  destruct (collect s) as [t o]. simpl in *. subst. reflexivity.
Qed.

(** ** (f) idempotence *)

Lemma gc_try_fix : forall s id, (forall j nd, cfind (cn s) j = Some nd -> crc nd <> 0%N) -> gc_try s id = s.
Proof.
  intros s id Hnz. unfold Mgr.ConcGc.gc_try. simpl.
  destruct (cfind (cn s) id) as [nd|] eqn:F; [|reflexivity].
  destruct (N.eqb_spec (crc nd) 0) as [Hz|_]; [|reflexivity]. exfalso. apply (Hnz id nd F Hz).
Qed.

Lemma collect_fix : forall s, (forall j nd, cfind (cn s) j = Some nd -> crc nd <> 0%N) -> collect s = s.
Proof.
  intros s Hnz. unfold Mgr.ConcGc.collect.
  assert (Hl : forall l, gc_level s l = s).
  { intros l. unfold Mgr.ConcGc.gc_level. induction (ids_at_level (cn s) l) as [|id r IH]; simpl;
      [reflexivity | rewrite gc_try_fix; assumption]. }
  induction (seq 0 nl) as [|l r IH]; simpl; [reflexivity | rewrite Hl; exact IH].
Qed.

Theorem collect_idem : forall s, CInv s -> collect (collect s) = collect s.
Proof. intros s H. apply collect_fix. apply collect_no_dead. exact H. Qed.

(** a collection changes nothing iff there is nothing to free *)
Theorem collect_noop_iff : forall s, CInv s ->
  (collect s = s <-> forall j nd, cfind (cn s) j = Some nd -> crc nd <> 0%N).
Proof.
  intros s H. split; [|apply collect_fix].
  intros E j nd F. rewrite <- E in F. apply (collect_no_dead s H j nd F).
Qed.

(** ** histories: actions of any threads interleaved with whole collections *)

Lemma hrun_is_run : forall hist s s', hrun s hist = Some s' ->
  exists sched, run s sched = Some s' /\
                forall a, In a sched -> In (HAct a) hist \/ is_gc a.
Proof.
  induction hist as [|h rest IH]; intros s s' Hr; simpl in Hr.
  - inversion Hr; subst. exists []. split; [reflexivity | intros a []].
  - destruct h as [a|]; simpl in Hr.
    + destruct (step s a) as [[s1 r]|] eqn:Hs; [|discriminate].
      destruct (IH s1 s' Hr) as [sched [Hrun Hin]]. exists (a :: sched). split.
      * simpl. rewrite Hs. exact Hrun.
      * intros x [<-|Hx]; [left; left; reflexivity|].
        destruct (Hin x Hx) as [Hh|Hg]; [left; right; exact Hh | right; exact Hg].
    + destruct (IH (collect s) s' Hr) as [sched [Hrun Hin]].
      destruct (collect_is_run s) as [Hc Hgc].
      exists (collect_sched s ++ sched). split.
      * rewrite run_app, Hc. exact Hrun.
      * intros x Hx. apply in_app_or in Hx. destruct Hx as [Hx|Hx]; [right; apply Hgc; exact Hx|].
        destruct (Hin x Hx) as [Hh|Hg]; [left; right; exact Hh | right; exact Hg].
Qed.

Theorem history_inv : forall hist s s', CInv s -> hrun s hist = Some s' -> CInv s'.
Proof.
  intros hist s s' H Hr. destruct (hrun_is_run hist s s' Hr) as [sched [Hrun _]].
  apply (run_inv k terms nl sched s s' H Hrun).
Qed.

(** after ANY history from the empty manager: well-formed, counts exact *)
Theorem history_counts_exact : forall hist s, terms_unique_b terms = true ->
  hrun cempty hist = Some s ->
  CInv s /\ WF (to_snap s) /\ rc_exact_b (to_snap s) [] = true.
Proof.
  intros hist s Ht Hr.
  pose proof (history_inv hist cempty s (CInv_empty k terms nl) Hr) as H.
  split; [exact H|]. apply conc_wf; assumption.
Qed.

(** some thread holds the edge [e] in every state of the history *)
Fixpoint held_through (s : cst) (hist : list hact) (e : edge) : Prop :=
  (exists tid, In (tid, e) (cown s)) /\
  match hist with
  | [] => True
  | h :: r => match hstep s h with Some s' => held_through s' r e | None => True end
  end.

(** a handle that is held denotes the same function at the end of the history as at the
    moment it was obtained, whatever else happens in between: operations of the same or
    of other threads on other handles, any number of collections *)
Theorem history_sem : forall hist s s' e c, CInv s -> hrun s hist = Some s' ->
  held_through s hist e ->
  sem_edge (to_snap s') e c = sem_edge (to_snap s) e c.
Proof.
  induction hist as [|h rest IH]; intros s s' e c H Hr Hh; simpl in Hr.
  - inversion Hr; subst. reflexivity.
  - destruct Hh as [[tid Ho] Hrest].
    destruct (hstep s h) as [s1|] eqn:Hs; [|discriminate].
    assert (H1 : CInv s1) by (apply (history_inv [h] s s1 H); simpl; rewrite Hs; reflexivity).
    rewrite (IH s1 s' e c H1 Hr Hrest).
    destruct h as [a|]; simpl in Hs.
    + destruct (step s a) as [[s2 r]|] eqn:Ha; [|discriminate]. inversion Hs; subst s2.
      apply (step_sem_preserved k terms nl s a s1 r e c H Ha).
      apply (owned_live_ref k terms nl s tid e H Ho).
    + inversion Hs; subst s1. apply (proj2 (collect_keeps s H) tid e c Ho).
Qed.

End GcProofs.
