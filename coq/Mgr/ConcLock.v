(** * C07 — lock order: a wait-for graph under an ordered locking discipline is acyclic

    Abstract statement ([wait_for_acyclic]): locks carry a strict partial order
    [before]; a thread that waits for a lock holds only locks that come strictly
    before it (in particular it never re-acquires a lock it holds).  A thread is
    blocked by the holders of the lock it waits for and, for fair / writer-preferring
    locks (parking_lot's `RawRwLock::lock_shared` queues readers behind a waiting
    writer), by the threads queued AHEAD of it for the same lock.  Then no thread
    is (transitively) blocked by itself: there is no deadlock among the modelled
    locks.

    Instance ([oxidd_order]) = the acquisition order read off
    /repo/crates/oxidd-manager-index/src/manager.rs and /repo/crates/oxidd-cache/src/direct.rs:

      manager RwLock          `with_manager_shared` / `with_manager_exclusive` (outermost)
      gc_ongoing              `Manager::gc`: try-lock only, never waited for
      apply-cache bucket i    `pre_gc` locks bucket 0, 1, 2, ... in ascending order and keeps
                              them until `post_gc`; `get`/`add` use `try_lock` only
      level mutex             `LevelViewSet` of one level; at most one at a time
                              (`Manager::gc`: `for level in &self.unique_table { level.lock() .. }`,
                              `get_node` -> `level(..).get_or_insert`)
      store mutex             `Store::state` (`get_slot_from_shared`, `free_slot`), innermost;
                              also taken alone by the gc thread after the collection
      gc_signal mutex         only around the condition-variable wait of the gc thread, which
                              holds nothing else at that time

    That every thread of the implementation obeys the discipline is established by
    reading the code (see notes/C07-coq.md), not by this file. *)

From Coq Require Import Relations Relation_Operators Operators_Properties Arith Lia.

Section WaitFor.
Variables thread lock : Type.

(** strict partial order on locks *)
Variable before : lock -> lock -> Prop.
Hypothesis before_trans : forall a b c, before a b -> before b c -> before a c.
Hypothesis before_irrefl : forall a, ~ before a a.

(** a snapshot of the lock state *)
Variable holds : thread -> lock -> Prop.
Variable waits : thread -> lock -> Prop.
(** [ahead t' t]: both wait for the same lock and [t'] is served before [t] *)
Variable ahead : thread -> thread -> Prop.
Hypothesis ahead_trans : forall a b c, ahead a b -> ahead b c -> ahead a c.
Hypothesis ahead_irrefl : forall a, ~ ahead a a.

(** a blocked thread waits for one lock *)
Hypothesis waits_fun : forall t l l', waits t l -> waits t l' -> l = l'.

(** the discipline: whoever waits for [l] holds only locks strictly before [l] *)
Hypothesis discipline : forall t l l', waits t l -> holds t l' -> before l' l.

Definition blocked_by (t t' : thread) : Prop :=
  exists l, waits t l /\ (holds t' l \/ (waits t' l /\ ahead t' t)).

(** what a wait-for path from [t] to [t'] implies for the lock [l] that [t] waits for *)
Definition path_inv (t t' : thread) : Prop :=
  forall l, waits t l ->
    (exists l', holds t' l' /\ (l = l' \/ before l l')) \/
    (exists l', waits t' l' /\ before l l') \/
    (waits t' l /\ ahead t' t).

Lemma path_inv_holds : forall t t', clos_trans_n1 thread blocked_by t t' ->
  (exists l, waits t l) /\ path_inv t t'.
Proof.
  intros t t' Hp. induction Hp as [t' [m [Hw Hb]]|t' t'' [m [Hw Hb]] Hp [Hex IH]].
  - split; [eauto|]. intros l Hl. rewrite (waits_fun t l m Hl Hw).
    destruct Hb as [Hh|[Hw' Ha]]; [left; exists m; auto | right; right; auto].
  - split; [exact Hex|]. intros l Hl. destruct (IH l Hl) as [[l' [Hh Hle]]|[[l' [Hw' Hlt]]|[Hw' Ha]]].
    + (* t' holds l' (at or after l) and waits for m: l' before m *)
      pose proof (discipline t' m l' Hw Hh) as Hb'.
      assert (Hlm : before l m) by (destruct Hle as [->|Hle]; [exact Hb' | eapply before_trans; eauto]).
      destruct Hb as [Hh''|[Hw'' _]]; [left; exists m; auto | right; left; exists m; auto].
    + rewrite (waits_fun t' m l' Hw Hw') in Hb.
      destruct Hb as [Hh''|[Hw'' _]]; [left; exists l'; auto | right; left; exists l'; auto].
    + rewrite (waits_fun t' m l Hw Hw') in Hb.
      destruct Hb as [Hh''|[Hw'' Ha'']]; [left; exists l; auto|].
      right; right. split; [exact Hw''|]. eapply ahead_trans; eauto.
Qed.

(** 9. no thread is transitively blocked by itself *)
Theorem wait_for_acyclic : forall t, ~ clos_trans thread blocked_by t t.
Proof.
  intros t Hc. apply clos_trans_tn1 in Hc.
  destruct (path_inv_holds t t Hc) as [[l Hl] Hinv].
  destruct (Hinv l Hl) as [[l' [Hh Hle]]|[[l' [Hw' Hlt]]|[_ Ha]]].
  - pose proof (discipline t l l' Hl Hh) as Hb. destruct Hle as [->|Hle].
    + exact (before_irrefl _ Hb).
    + exact (before_irrefl _ (before_trans _ _ _ Hle Hb)).
  - rewrite (waits_fun t l' l Hw' Hl) in Hlt. exact (before_irrefl _ Hlt).
  - exact (ahead_irrefl _ Ha).
Qed.

(** hence among the blocked threads of any non-empty finite wait-for chain the last
    one waits for a lock whose holders are all running: stated as "every chain of
    length > number of threads is impossible" is a consequence of acyclicity; the
    form used in the notes is [wait_for_acyclic]. *)

End WaitFor.

(** ** the acquisition order of the implementation *)

Inductive olock :=
| LManager
| LGcOngoing
| LBucket (i : nat)
| LLevel (i : nat)
| LStore
| LGcSignal.

(** lexicographic rank; all level mutexes share one rank (never two at a time) *)
Definition orank (l : olock) : nat * nat :=
  match l with
  | LManager => (0, 0)
  | LGcOngoing => (1, 0)
  | LBucket i => (2, i)
  | LLevel _ => (3, 0)
  | LStore => (4, 0)
  | LGcSignal => (5, 0)
  end.

Definition lex_lt (a b : nat * nat) : Prop :=
  fst a < fst b \/ (fst a = fst b /\ snd a < snd b).

Definition oxidd_order (a b : olock) : Prop := lex_lt (orank a) (orank b).

Lemma oxidd_order_trans : forall a b c, oxidd_order a b -> oxidd_order b c -> oxidd_order a c.
Proof. unfold oxidd_order, lex_lt. intros a b c. lia. Qed.

Lemma oxidd_order_irrefl : forall a, ~ oxidd_order a a.
Proof. unfold oxidd_order, lex_lt. intros a. lia. Qed.

(** the discipline in words of the instance: manager lock first, then the cache buckets
    in ascending order, then ONE level mutex, then the store mutex *)
Example oxidd_order_chain :
  oxidd_order LManager LGcOngoing /\ oxidd_order LGcOngoing (LBucket 0) /\
  (forall i j, i < j -> oxidd_order (LBucket i) (LBucket j)) /\
  (forall i j, oxidd_order (LBucket i) (LLevel j)) /\
  (forall i j, ~ oxidd_order (LLevel i) (LLevel j)) /\
  (forall i, oxidd_order (LLevel i) LStore) /\
  (forall i, oxidd_order LManager (LLevel i)).
Proof. unfold oxidd_order, lex_lt. simpl. repeat split; intros; lia. Qed.

(** 9 (instance): any lock state in which every waiting thread holds only locks that
    come earlier in [oxidd_order] has an acyclic wait-for graph *)
Theorem oxidd_no_deadlock : forall (thread : Type)
  (holds waits : thread -> olock -> Prop) (ahead : thread -> thread -> Prop),
  (forall a b c, ahead a b -> ahead b c -> ahead a c) -> (forall a, ~ ahead a a) ->
  (forall t l l', waits t l -> waits t l' -> l = l') ->
  (forall t l l', waits t l -> holds t l' -> oxidd_order l' l) ->
  forall t, ~ clos_trans thread (blocked_by thread olock holds waits ahead) t t.
Proof.
  intros thread holds waits ahead Ht Hi Hf Hd.
  apply (wait_for_acyclic thread olock oxidd_order oxidd_order_trans oxidd_order_irrefl
           holds waits ahead Ht Hi Hf Hd).
Qed.

(** the hypotheses are satisfiable by a state with real contention: thread 0 (an
    application thread inside get_or_insert) holds the manager lock (shared) and the
    mutex of level 1 and waits for the store mutex; thread 1 (the collector) holds the
    manager lock (shared), gc_ongoing, two cache buckets and the store mutex, running;
    thread 2 waits for the mutex of level 1; thread 3 (reordering) waits for the
    manager lock (exclusive), thread 4 is a reader queued behind it. *)
Definition ex_holds (t : nat) (l : olock) : Prop :=
  match t with
  | 0 => l = LManager \/ l = LLevel 1
  | 1 => l = LManager \/ l = LGcOngoing \/ l = LBucket 0 \/ l = LBucket 1 \/ l = LStore
  | 2 => l = LManager
  | _ => False
  end.

Definition ex_waits (t : nat) (l : olock) : Prop :=
  match t with
  | 0 => l = LStore
  | 2 => l = LLevel 1
  | 3 => l = LManager
  | 4 => l = LManager
  | _ => False
  end.

Definition ex_ahead (a b : nat) : Prop := a = 3 /\ b = 4.

Example ex_lock_state_ok :
  (forall a b c, ex_ahead a b -> ex_ahead b c -> ex_ahead a c) /\ (forall a, ~ ex_ahead a a) /\
  (forall t l l', ex_waits t l -> ex_waits t l' -> l = l') /\
  (forall t l l', ex_waits t l -> ex_holds t l' -> oxidd_order l' l) /\
  blocked_by nat olock ex_holds ex_waits ex_ahead 2 0 /\
  blocked_by nat olock ex_holds ex_waits ex_ahead 0 1 /\
  blocked_by nat olock ex_holds ex_waits ex_ahead 4 3.
Proof.
  unfold ex_ahead. split; [intros; lia|]. split; [intros; lia|]. split; [|split].
  - intros t l l' H1 H2. destruct t as [|[|[|[|[|t]]]]]; simpl in *; try contradiction; congruence.
  - intros t l l' H1 H2. unfold oxidd_order, lex_lt.
    destruct t as [|[|[|[|[|t]]]]]; simpl in *; try contradiction; subst;
      repeat (destruct H2 as [H2|H2]); subst; simpl; lia.
  - split; [|split].
    + exists (LLevel 1). simpl. auto.
    + exists LStore. simpl. tauto.
    + exists LManager. simpl. split; [reflexivity|]. right. auto.
Qed.
