(** * C07 — the invariant of the interleaving model and its preservation

    [CInv] (structural table invariant, owned edges valid, reference counts
    EXACT = owners + parents) is preserved by every enabled action of every
    thread ([step_inv]), hence by every schedule ([run_inv]).  Further:
    result of [get_or_insert] ([goi_result], [goi_agree]), frame property
    ([step_frame], [step_keeps_token], [run_frame_idle]), safety and
    enabledness of the collector ([gc_safe], [gc_enabled], [release_safe]) and
    the simulation by the table-only projection ([erase_sim], [run_erase_sim]). *)

From Coq Require Import List NArith PArith Bool Arith Lia.
From OxiVerif Require Import DD.Table DD.TableProofs Mgr.Conc Mgr.ConcBase.
Import ListNotations.

Arguments N.add : simpl never.
Arguments N.sub : simpl never.
Arguments N.mul : simpl never.

Section Proofs.
Variable k : kind.
Variable terms : list (N * N).
Variable nl : nat.

Notation step := (step k terms nl).
Notation run := (run k terms nl).
Notation step_tbl := (step_tbl k terms nl).
Notation run_tbl := (run_tbl k terms nl).
Notation node_pre_b := (node_pre_b k terms nl).
Notation edge_ok_b := (edge_ok_b k terms).
Notation TInv := (TInv k terms nl).

Record CInv (s : cst) : Prop := mkCInv {
  (* keys pairwise distinct; every stored node passes [node_pre_b] w.r.t. the current
     table; per-level uniqueness *)
  ci_tbl : TInv (cn s);
  (* every owned edge points to a stored node / an existing terminal and is untagged
     unless the kind is BCDD *)
  ci_own : forall o, In o (cown s) -> edge_ok_b (cn s) (snd o) = true;
  (* reference counts are exact *)
  ci_rc : forall id nd, cfind (cn s) id = Some nd ->
      crc nd = N.of_nat (owners (cown s) id + parents (cn s) id)
}.

(** the clauses spelled out *)
Lemma CInv_flat : forall s,
  CInv s <->
  (NoDup (map fst (cn s)) /\
   (forall id nd, cfind (cn s) id = Some nd -> node_pre_b (cn s) (cl nd) (cch nd) = true) /\
   (forall i1 i2 n1 n2, cfind (cn s) i1 = Some n1 -> cfind (cn s) i2 = Some n2 ->
      cl n1 = cl n2 -> cch n1 = cch n2 -> i1 = i2) /\
   (forall o, In o (cown s) -> edge_ok_b (cn s) (snd o) = true) /\
   (forall id nd, cfind (cn s) id = Some nd ->
      crc nd = N.of_nat (owners (cown s) id + parents (cn s) id))).
Proof.
  intros s. split.
  - intros [[H1 H2 H3] H4 H5]. auto.
  - intros [H1 [H2 [H3 [H4 H5]]]]. constructor; [constructor|idtac|idtac]; assumption.
Qed.

Theorem CInv_empty : CInv cempty.
Proof. constructor; simpl; [apply TInv_nil | intros o [] | discriminate]. Qed.

Lemma untagged_inner_ok : forall t id nd, cfind t id = Some nd ->
  edge_ok_b t (mkEdge (RN id) false) = true.
Proof. intros t id nd F. unfold Conc.edge_ok_b. simpl. rewrite F. destruct k; reflexivity. Qed.

(** an owned edge to an inner node: the node is stored and its count is positive *)
Lemma owned_live : forall s o id, CInv s -> In o (cown s) -> eref (snd o) = RN id ->
  exists nd, cfind (cn s) id = Some nd /\ crc nd <> 0%N.
Proof.
  intros s o id H Ho Er.
  destruct (edge_ok_b_inner k terms _ _ id (ci_own s H o Ho) Er) as [nd F].
  exists nd. split; [exact F|]. rewrite (ci_rc s H id nd F).
  pose proof (In_owners_pos (cown s) id o Ho Er). lia.
Qed.

(** a child edge of a stored node: the child is stored and its count is positive *)
Lemma child_live : forall s j nd e id, CInv s -> cfind (cn s) j = Some nd -> In e (cch nd) ->
  eref e = RN id -> exists ndc, cfind (cn s) id = Some ndc /\ crc ndc <> 0%N /\ cl nd < cl ndc.
Proof.
  intros s j nd e id H F He Er.
  destruct (node_pre_b_child k terms nl _ _ _ e id (ti_pre _ _ _ _ (ci_tbl s H) j nd F) He Er)
    as [ndc [Fc Hl]].
  exists ndc. split; [exact Fc|]. split; [|exact Hl]. rewrite (ci_rc s H id ndc Fc).
  pose proof (parents_ge_cnt (cn s) id j nd (cfind_In _ _ _ F)).
  pose proof (In_cnt_pos id (cch nd) e He Er). lia.
Qed.

(** every child edge of a stored node is a valid edge value *)
Lemma child_edge_ok : forall s j nd x, CInv s -> cfind (cn s) j = Some nd -> In x (cch nd) ->
  edge_ok_b (cn s) x = true.
Proof.
  intros s j nd x H F Hx.
  apply (node_pre_b_child_ok k terms nl _ _ _ x (ti_pre _ _ _ _ (ci_tbl s H) j nd F) Hx).
Qed.

(** whatever can be borrowed from a valid edge is a valid edge *)
Lemma borrow_ok : forall s, CInv s -> forall f root e, edge_ok_b (cn s) root = true ->
  borrow_b (cn s) f root e = true -> edge_ok_b (cn s) e = true.
Proof.
  intros s H. induction f as [|f IH]; intros root e Hok Hb; simpl in Hb;
    apply orb_true_iff in Hb; destruct Hb as [Hb|Hb];
    try (apply edge_eqb_eq in Hb; subst; exact Hok); try discriminate.
  destruct (eref root) as [x|id]; [discriminate|].
  destruct (cfind (cn s) id) as [nd|] eqn:F; [|discriminate].
  apply existsb_exists in Hb. destruct Hb as [x [Hx Hb]].
  apply (IH x e (child_edge_ok s id nd x H F Hx) Hb).
Qed.

Lemma can_borrow_ok : forall s e, CInv s -> can_borrow_b nl s e = true -> edge_ok_b (cn s) e = true.
Proof.
  intros s e H Hb. unfold can_borrow_b in Hb. apply existsb_exists in Hb.
  destruct Hb as [o [Ho Hb]]. apply (borrow_ok s H nl (snd o) e (ci_own s H o Ho) Hb).
Qed.

(** a thread can always clone what it owns *)
Lemma own_can_borrow : forall s tid e, In (tid, e) (cown s) -> can_borrow_b nl s e = true.
Proof.
  intros s tid e Hin. unfold can_borrow_b. apply existsb_exists. exists (tid, e).
  split; [exact Hin|]. simpl snd.
  assert (X : edge_eqb e e = true) by (apply edge_eqb_eq; reflexivity).
  destruct nl; simpl; rewrite X; reflexivity.
Qed.

(** ** preservation, action by action *)

Lemma inv_goi_found : forall s tid lvl ch own1 id, CInv s ->
  take_toks tid ch (cown s) = Some own1 -> find_shape (cn s) lvl ch = Some id ->
  CInv (mkCst (rc_inc id (dec_children (cn s) ch)) ((tid, mkEdge (RN id) false) :: own1)).
Proof.
  intros s tid lvl ch own1 id H Ht Hf.
  assert (E : cn_shape (rc_inc id (dec_children (cn s) ch)) = cn_shape (cn s)).
  { unfold rc_inc. rewrite cn_shape_rc_upd, cn_shape_dec_children. reflexivity. }
  destruct (find_shape_Some _ _ _ id (ti_nodup _ _ _ _ (ci_tbl s H)) Hf) as [nd0 [F0 _]].
  constructor; simpl.
  - apply (TInv_congr k terms nl (cn s)); [symmetry; exact E | apply (ci_tbl s H)].
  - intros o [<-|Ho]; rewrite (edge_ok_b_congr k terms _ (cn s) _ E).
    + simpl. apply (untagged_inner_ok _ id nd0 F0).
    + apply (ci_own s H). eapply take_toks_incl; eauto.
  - intros j nd' F. unfold rc_inc in F. rewrite cfind_rc_upd, cfind_dec_children in F.
    rewrite (parents_congr _ (cn s) j E), owners_cons. simpl snd. rewrite points_to_RN.
    pose proof (take_toks_owners tid ch _ _ j Ht) as Ho.
    destruct (cfind (cn s) j) as [nd|] eqn:Fj; simpl in F; [|destruct (Pos.eqb j id); discriminate].
    pose proof (ci_rc s H j nd Fj) as Hrc.
    rewrite (Pos.eqb_sym id j). destruct (Pos.eqb j id); inversion F; subst; simpl; lia.
Qed.

Lemma owners_absent : forall s id, CInv s -> cfind (cn s) id = None -> owners (cown s) id = 0.
Proof.
  intros s id H F. apply owners_zero_iff. intros o Ho Er.
  destruct (edge_ok_b_inner k terms _ _ id (ci_own s H o Ho) Er) as [nd F']. congruence.
Qed.

Lemma inv_goi_new : forall s tid lvl ch own1 fr, CInv s ->
  node_pre_b (cn s) lvl ch = true ->
  take_toks tid ch (cown s) = Some own1 -> find_shape (cn s) lvl ch = None ->
  cfind (cn s) fr = None ->
  CInv (mkCst ((fr, mkC lvl ch 1%N) :: cn s) ((tid, mkEdge (RN fr) false) :: own1)).
Proof.
  intros s tid lvl ch own1 fr H Hpre Ht Hf Hfr.
  constructor; simpl.
  - apply TInv_insert; auto. apply (ci_tbl s H).
  - intros o [<-|Ho].
    + simpl. apply (untagged_inner_ok _ fr (mkC lvl ch 1%N)). simpl. rewrite Pos.eqb_refl. reflexivity.
    + apply (edge_ok_b_ext k terms (cn s)).
      * intros id nd _ F. exists nd. rewrite cfind_cons.
        destruct (Pos.eqb_spec fr id) as [E|_]; [congruence | exact F].
      * apply (ci_own s H). eapply take_toks_incl; eauto.
  - intros j nd' F. rewrite owners_cons. simpl snd. rewrite points_to_RN.
    pose proof (take_toks_owners tid ch _ _ j Ht) as Ho.
    destruct (Pos.eqb_spec fr j) as [E|Hne].
    + subst j. inversion F; subst. simpl.
      pose proof (owners_absent s fr H Hfr).
      pose proof (node_pre_b_cnt_absent k terms nl _ _ _ fr Hpre Hfr).
      pose proof (TInv_parents_absent k terms nl _ fr (ci_tbl s H) Hfr). lia.
    + pose proof (ci_rc s H j nd' F). lia.
Qed.

Lemma inv_retain : forall s tid e id, CInv s -> eref e = RN id -> edge_ok_b (cn s) e = true ->
  CInv (mkCst (rc_inc id (cn s)) ((tid, e) :: cown s)).
Proof.
  intros s tid e id H Er Hok.
  assert (E : cn_shape (rc_inc id (cn s)) = cn_shape (cn s)) by apply cn_shape_rc_upd.
  constructor; simpl.
  - apply (TInv_congr k terms nl (cn s)); [symmetry; exact E | apply (ci_tbl s H)].
  - intros o Ho. rewrite (edge_ok_b_congr k terms _ (cn s) _ E).
    destruct Ho as [<-|Ho]; [exact Hok | apply (ci_own s H o Ho)].
  - intros j nd' F. unfold rc_inc in F. rewrite cfind_rc_upd in F.
    rewrite (parents_congr _ (cn s) j E), owners_cons. simpl snd.
    unfold points_to. rewrite Er.
    destruct (cfind (cn s) j) as [nd|] eqn:Fj; simpl in F; [|destruct (Pos.eqb j id); discriminate].
    pose proof (ci_rc s H j nd Fj) as Hrc.
    rewrite (Pos.eqb_sym id j). destruct (Pos.eqb j id); inversion F; subst; simpl; lia.
Qed.

Lemma inv_release : forall s tid e id own', CInv s -> eref e = RN id ->
  take_tok (tid, e) (cown s) = Some own' ->
  CInv (mkCst (rc_dec id (cn s)) own').
Proof.
  intros s tid e id own' H Er Ht.
  assert (E : cn_shape (rc_dec id (cn s)) = cn_shape (cn s)) by apply cn_shape_rc_upd.
  constructor; simpl.
  - apply (TInv_congr k terms nl (cn s)); [symmetry; exact E | apply (ci_tbl s H)].
  - intros o Ho. rewrite (edge_ok_b_congr k terms _ (cn s) _ E). apply (ci_own s H).
    eapply take_tok_incl; eauto.
  - intros j nd' F. unfold rc_dec in F. rewrite cfind_rc_upd in F.
    rewrite (parents_congr _ (cn s) j E).
    pose proof (take_tok_owners _ _ _ j Ht) as Ho. simpl snd in Ho. unfold points_to in Ho.
    rewrite Er in Ho.
    destruct (cfind (cn s) j) as [nd|] eqn:Fj; simpl in F; [|destruct (Pos.eqb j id); discriminate].
    pose proof (ci_rc s H j nd Fj) as Hrc.
    rewrite (Pos.eqb_sym id j) in Ho. destruct (Pos.eqb j id); inversion F; subst; simpl; lia.
Qed.

(** a token is replaced by a token for the same node (move to another thread, tag flip) *)
Lemma inv_retoken : forall s x y own', CInv s ->
  take_tok x (cown s) = Some own' -> eref (snd y) = eref (snd x) ->
  edge_ok_b (cn s) (snd y) = true ->
  CInv (mkCst (cn s) (y :: own')).
Proof.
  intros s x y own' H Ht Er Hok. constructor; simpl.
  - apply (ci_tbl s H).
  - intros o [<-|Ho]; [exact Hok|]. apply (ci_own s H). eapply take_tok_incl; eauto.
  - intros j nd F. rewrite owners_cons. pose proof (take_tok_owners _ _ _ j Ht) as Ho.
    unfold points_to in *. rewrite Er. rewrite <- Ho. apply (ci_rc s H j nd F).
Qed.

Lemma inv_gc : forall s id nd, CInv s -> cfind (cn s) id = Some nd -> crc nd = 0%N ->
  CInv (mkCst (dec_children (cremove id (cn s)) (cch nd)) (cown s)).
Proof.
  intros s id nd H F Hz.
  pose proof (ci_rc s H id nd F) as Hrc.
  assert (Ho0 : owners (cown s) id = 0) by lia.
  assert (Hp0 : parents (cn s) id = 0) by lia.
  pose proof (ti_nodup _ _ _ _ (ci_tbl s H)) as Hnd.
  assert (E : cn_shape (dec_children (cremove id (cn s)) (cch nd)) = cn_shape (cremove id (cn s)))
    by apply cn_shape_dec_children.
  constructor; simpl.
  - apply (TInv_congr k terms nl (cremove id (cn s))); [symmetry; exact E|].
    apply TInv_remove; [apply (ci_tbl s H) | exact Hp0].
  - intros o Ho. rewrite (edge_ok_b_congr k terms _ _ _ E).
    apply (edge_ok_b_ext k terms (cn s)); [|apply (ci_own s H o Ho)].
    intros j ndj Er Fj. exists ndj. rewrite (cfind_cremove id _ j Hnd).
    destruct (Pos.eqb_spec j id) as [->|_]; [|exact Fj].
    exfalso. apply (proj1 (owners_zero_iff _ _) Ho0 o Ho Er).
  - intros j nd' Fj. rewrite cfind_dec_children, (cfind_cremove id _ j Hnd) in Fj.
    rewrite (parents_congr _ _ j E).
    destruct (Pos.eqb_spec j id) as [->|Hne]; [discriminate|].
    destruct (cfind (cn s) j) as [ndj|] eqn:Fj'; simpl in Fj; [|discriminate].
    inversion Fj; subst. simpl.
    pose proof (ci_rc s H j ndj Fj'). pose proof (parents_cremove id (cn s) nd j F). lia.
Qed.

Lemma bcdd_edge_ok_flip : forall t e, is_bcdd k = true -> edge_ok_b t e = true ->
  edge_ok_b t (mkEdge (eref e) (negb (etag e))) = true.
Proof.
  intros t e Hk H. unfold Conc.edge_ok_b, is_bcdd in *. simpl.
  destruct k; try discriminate. exact H.
Qed.

(** 1. every enabled action of every thread preserves the invariant *)
Theorem step_inv : forall s a s' r, CInv s -> step s a = Some (s', r) -> CInv s'.
Proof.
  intros s a s' r H Hs. destruct a as [tid lvl ch fr|tid e|tid e|tid tid' e|id|tid e]; simpl in Hs.
  - (* get_or_insert *)
    destruct (node_pre_b (cn s) lvl ch) eqn:Hpre; [|discriminate].
    destruct (take_toks tid ch (cown s)) as [own1|] eqn:Ht; [|discriminate].
    destruct (find_shape (cn s) lvl ch) as [id|] eqn:Hf.
    + inversion Hs; subst. eapply inv_goi_found; eauto.
    + destruct (cfind (cn s) fr) eqn:Hfr; [discriminate|].
      inversion Hs; subst. apply inv_goi_new; auto.
  - (* retain *)
    destruct (eref e) as [x|id] eqn:Er.
    + destruct (cref_ok_b terms (cn s) (RT x)); inversion Hs; subst; exact H.
    + destruct (can_borrow_b nl s e) eqn:Ho; [|discriminate].
      inversion Hs; subst. apply inv_retain; auto. apply can_borrow_ok; assumption.
  - (* release *)
    destruct (eref e) as [x|id] eqn:Er.
    + destruct (cref_ok_b terms (cn s) (RT x)); inversion Hs; subst; exact H.
    + destruct (take_tok (tid, e) (cown s)) as [own'|] eqn:Ht; [|discriminate].
      inversion Hs; subst. eapply inv_release; eauto.
  - (* move *)
    destruct (eref e) as [x|id] eqn:Er.
    + destruct (cref_ok_b terms (cn s) (RT x)); inversion Hs; subst; exact H.
    + destruct (take_tok (tid, e) (cown s)) as [own'|] eqn:Ht; [|discriminate].
      inversion Hs; subst. eapply (inv_retoken s (tid, e) (tid', e)); eauto.
      apply (ci_own s H (tid, e)). eapply take_tok_In; eauto.
  - (* gc of one node *)
    destruct (cfind (cn s) id) as [nd|] eqn:F; [|discriminate].
    destruct (N.eqb_spec (crc nd) 0) as [Hz|_]; [|discriminate].
    inversion Hs; subst. apply inv_gc; auto.
  - (* tag flip *)
    destruct (is_bcdd k) eqn:Hk; [|discriminate].
    destruct (eref e) as [x|id] eqn:Er.
    + destruct (cref_ok_b terms (cn s) (RT x)); inversion Hs; subst; exact H.
    + destruct (take_tok (tid, e) (cown s)) as [own'|] eqn:Ht; [|discriminate].
      inversion Hs; subst. rewrite <- Er.
      eapply (inv_retoken s (tid, e) (tid, mkEdge (eref e) (negb (etag e)))); eauto.
      apply bcdd_edge_ok_flip; [exact Hk|].
      apply (ci_own s H (tid, e)). eapply take_tok_In; eauto.
Qed.

(** 2. any interleaving = any list of actions *)
Theorem run_inv : forall sched s s', CInv s -> run s sched = Some s' -> CInv s'.
Proof.
  induction sched as [|a r IH]; intros s s' H Hr; simpl in Hr.
  - inversion Hr; subst. exact H.
  - destruct (step s a) as [[s1 res]|] eqn:Hs; [|discriminate].
    apply (IH s1 s' (step_inv s a s1 res H Hs) Hr).
Qed.

Theorem reachable_inv : forall sched s, run cempty sched = Some s -> CInv s.
Proof. intros sched s. apply run_inv. apply CInv_empty. Qed.

(** ** 5. the result of get_or_insert *)

Theorem goi_result : forall s tid lvl ch fr s' r, CInv s ->
  step s (AGoi tid lvl ch fr) = Some (s', r) ->
  exists id nd, r = Some id /\ cfind (cn s') id = Some nd /\ cl nd = lvl /\ cch nd = ch /\
                In (tid, mkEdge (RN id) false) (cown s') /\
                (find_shape (cn s) lvl ch = None -> id = fr /\ cfind (cn s) fr = None).
Proof.
  intros s tid lvl ch fr s' r H Hs. simpl in Hs.
  destruct (node_pre_b (cn s) lvl ch) eqn:Hpre; [|discriminate].
  destruct (take_toks tid ch (cown s)) as [own1|] eqn:Ht; [|discriminate].
  destruct (find_shape (cn s) lvl ch) as [id|] eqn:Hf.
  - inversion Hs; subst. simpl.
    destruct (find_shape_Some _ _ _ id (ti_nodup _ _ _ _ (ci_tbl s H)) Hf) as [nd0 [F0 [H1 H2]]].
    exists id. eexists. split; [reflexivity|].
    unfold rc_inc. rewrite cfind_rc_upd, cfind_dec_children, Pos.eqb_refl, F0. simpl.
    split; [reflexivity|]. simpl. split; [exact H1|]. split; [exact H2|].
    split; [left; reflexivity | discriminate].
  - destruct (cfind (cn s) fr) eqn:Hfr; [discriminate|].
    inversion Hs; subst. simpl. exists fr. eexists. rewrite Pos.eqb_refl.
    split; [reflexivity|]. split; [reflexivity|]. simpl. auto.
Qed.

(** whenever a node of that level and children is stored, ANY thread's get_or_insert
    returns exactly its id, whatever slot [fr] the allocator proposes and whoever
    created the node; no second copy is made *)
Theorem goi_agree : forall s tid lvl ch fr s' r id nd, CInv s ->
  cfind (cn s) id = Some nd -> cl nd = lvl -> cch nd = ch ->
  step s (AGoi tid lvl ch fr) = Some (s', r) ->
  r = Some id /\ cn_shape (cn s') = cn_shape (cn s).
Proof.
  intros s tid lvl ch fr s' r id nd H F Hl Hc Hs. simpl in Hs.
  destruct (node_pre_b (cn s) lvl ch) eqn:Hpre; [|discriminate].
  destruct (take_toks tid ch (cown s)) as [own1|] eqn:Ht; [|discriminate].
  destruct (find_shape_complete (cn s) lvl ch id nd F Hl Hc) as [id' Hf]. rewrite Hf in Hs.
  inversion Hs; subst. simpl.
  destruct (find_shape_Some _ _ _ id' (ti_nodup _ _ _ _ (ci_tbl s H)) Hf) as [nd0 [F0 [H1 H2]]].
  split.
  - f_equal. apply (ti_uniq _ _ _ _ (ci_tbl s H) id' id nd0 nd F0 F); congruence.
  - unfold rc_inc. rewrite cn_shape_rc_upd, cn_shape_dec_children. reflexivity.
Qed.

(** two threads asking for the same node one after the other get the same id *)
Corollary goi_twice : forall s t1 t2 lvl ch f1 f2 s1 s2 r1 r2, CInv s ->
  step s (AGoi t1 lvl ch f1) = Some (s1, r1) ->
  step s1 (AGoi t2 lvl ch f2) = Some (s2, r2) -> r2 = r1.
Proof.
  intros s t1 t2 lvl ch f1 f2 s1 s2 r1 r2 H S1 S2.
  destruct (goi_result _ _ _ _ _ _ _ H S1) as [id [nd [-> [F [Hl [Hc _]]]]]].
  apply (goi_agree s1 t2 lvl ch f2 s2 r2 id nd (step_inv _ _ _ _ H S1) F Hl Hc S2).
Qed.

(** ** 6. frame: no action removes or alters a node that is in use *)

Definition same_shape (a b : cnode) : Prop := cl a = cl b /\ cch a = cch b.

Theorem step_frame : forall s a s' r id nd, CInv s -> step s a = Some (s', r) ->
  cfind (cn s) id = Some nd -> crc nd <> 0%N ->
  exists nd', cfind (cn s') id = Some nd' /\ same_shape nd' nd.
Proof.
  intros s a s' r id nd H Hs F Hnz. unfold same_shape.
  assert (Hsh : forall t', cn_shape t' = cn_shape (cn s) ->
            exists nd', cfind t' id = Some nd' /\ cl nd' = cl nd /\ cch nd' = cch nd).
  { intros t' E. apply (shape_eq_find (cn s) t' id nd (eq_sym E) F). }
  destruct a as [tid lvl ch fr|tid e|tid e|tid tid' e|gid|tid e]; simpl in Hs.
  - destruct (node_pre_b (cn s) lvl ch); [|discriminate].
    destruct (take_toks tid ch (cown s)) as [own1|]; [|discriminate].
    destruct (find_shape (cn s) lvl ch) as [id0|].
    + inversion Hs; subst. simpl. apply Hsh. unfold rc_inc.
      rewrite cn_shape_rc_upd, cn_shape_dec_children. reflexivity.
    + destruct (cfind (cn s) fr) eqn:Hfr; [discriminate|]. inversion Hs; subst. simpl.
      destruct (Pos.eqb_spec fr id) as [E|_]; [congruence|]. exists nd. auto.
  - destruct (eref e) as [x|j].
    + destruct (cref_ok_b terms (cn s) (RT x)); inversion Hs; subst. exists nd. auto.
    + destruct (can_borrow_b nl s e); [|discriminate]. inversion Hs; subst. simpl.
      apply Hsh. apply cn_shape_rc_upd.
  - destruct (eref e) as [x|j].
    + destruct (cref_ok_b terms (cn s) (RT x)); inversion Hs; subst. exists nd. auto.
    + destruct (take_tok (tid, e) (cown s)); [|discriminate]. inversion Hs; subst. simpl.
      apply Hsh. apply cn_shape_rc_upd.
  - destruct (eref e) as [x|j].
    + destruct (cref_ok_b terms (cn s) (RT x)); inversion Hs; subst. exists nd. auto.
    + destruct (take_tok (tid, e) (cown s)); [|discriminate]. inversion Hs; subst. exists nd. auto.
  - destruct (cfind (cn s) gid) as [gnd|] eqn:Fg; [|discriminate].
    destruct (N.eqb_spec (crc gnd) 0) as [Hz|_]; [|discriminate]. inversion Hs; subst. simpl.
    rewrite cfind_dec_children, (cfind_cremove gid _ id (ti_nodup _ _ _ _ (ci_tbl s H))).
    destruct (Pos.eqb_spec id gid) as [E|_]; [subst; congruence|].
    rewrite F. simpl. eexists. split; [reflexivity|]. simpl. auto.
  - destruct (is_bcdd k); [|discriminate]. destruct (eref e) as [x|j].
    + destruct (cref_ok_b terms (cn s) (RT x)); inversion Hs; subst. exists nd. auto.
    + destruct (take_tok (tid, e) (cown s)); [|discriminate]. inversion Hs; subst. exists nd. auto.
Qed.

(** the thread an action belongs to (the collector is no application thread) *)
Definition act_tid (a : act) : option nat :=
  match a with
  | AGoi tid _ _ _ | ARetain tid _ | ARelease tid _ | AMove tid _ _ | ANot tid _ => Some tid
  | AGcNode _ => None
  end.

Lemma take_tok_other : forall x own own' o, take_tok x own = Some own' -> o <> x ->
  In o own -> In o own'.
Proof.
  induction own as [|y r IH]; intros own' o H Hne Ho; simpl in H; [discriminate|].
  destruct (tok_eqb x y) eqn:E.
  - apply tok_eqb_eq in E. subst y. inversion H; subst.
    destruct Ho as [Ho|Ho]; [congruence | exact Ho].
  - destruct (take_tok x r) as [r'|] eqn:Er; [|discriminate]. inversion H; subst.
    destruct Ho as [Ho|Ho]; [left; exact Ho | right; eapply IH; eauto].
Qed.

Lemma take_toks_other : forall tid ch own own' o, take_toks tid ch own = Some own' ->
  fst o <> tid -> In o own -> In o own'.
Proof.
  induction ch as [|e r IH]; intros own own' o H Hne Ho; simpl in H.
  - inversion H; subst. exact Ho.
  - destruct (eref e) as [x|j].
    + eapply IH; eauto.
    + destruct (take_tok (tid, e) own) as [own1|] eqn:E1; [|discriminate].
      eapply IH; eauto. eapply take_tok_other; eauto. intros ->. apply Hne. reflexivity.
Qed.

(** the actions of the other threads and of the collector never take away a token *)
Theorem step_keeps_token : forall s a s' r tid e, step s a = Some (s', r) ->
  act_tid a <> Some tid -> In (tid, e) (cown s) -> In (tid, e) (cown s').
Proof.
  intros s a s' r tid e Hs Hne Hin.
  assert (Hneq : forall t x, Some t <> Some tid -> (tid, e) <> (t, x)) by (intros t x N E; inversion E; congruence).
  destruct a as [t lvl ch fr|t x|t x|t t' x|gid|t x]; simpl in Hs, Hne.
  - destruct (node_pre_b (cn s) lvl ch); [|discriminate].
    destruct (take_toks t ch (cown s)) as [own1|] eqn:Ht; [|discriminate].
    assert (Hin1 : In (tid, e) own1).
    { eapply take_toks_other; [exact Ht | | exact Hin]. simpl. intros E. apply Hne. congruence. }
    destruct (find_shape (cn s) lvl ch).
    + inversion Hs; subst. right. exact Hin1.
    + destruct (cfind (cn s) fr); [discriminate|]. inversion Hs; subst. right. exact Hin1.
  - destruct (eref x).
    + destruct (cref_ok_b terms (cn s) (RT t0)); inversion Hs; subst. exact Hin.
    + destruct (can_borrow_b nl s x); [|discriminate]. inversion Hs; subst. right. exact Hin.
  - destruct (eref x).
    + destruct (cref_ok_b terms (cn s) (RT t0)); inversion Hs; subst. exact Hin.
    + destruct (take_tok (t, x) (cown s)) eqn:Ht; [|discriminate]. inversion Hs; subst. simpl.
      eapply take_tok_other; eauto.
  - destruct (eref x).
    + destruct (cref_ok_b terms (cn s) (RT t0)); inversion Hs; subst. exact Hin.
    + destruct (take_tok (t, x) (cown s)) eqn:Ht; [|discriminate]. inversion Hs; subst. simpl.
      right. eapply take_tok_other; eauto.
  - destruct (cfind (cn s) gid) as [gnd|]; [|discriminate].
    destruct (N.eqb (crc gnd) 0); [|discriminate]. inversion Hs; subst. exact Hin.
  - destruct (is_bcdd k); [|discriminate]. destruct (eref x).
    + destruct (cref_ok_b terms (cn s) (RT t0)); inversion Hs; subst. exact Hin.
    + destruct (take_tok (t, x) (cown s)) eqn:Ht; [|discriminate]. inversion Hs; subst. simpl.
      right. eapply take_tok_other; eauto.
Qed.

(** reachability through child edges inside the table *)
Inductive creach (t : ctable) (r : ref) : ref -> Prop :=
| creach_refl : creach t r r
| creach_child : forall id nd e, creach t r (RN id) -> cfind t id = Some nd -> In e (cch nd) ->
    creach t r (eref e).

(** everything reachable from a node in use is in use *)
Lemma creach_live : forall s r r', CInv s -> creach (cn s) r r' ->
  (forall id, r = RN id -> exists nd, cfind (cn s) id = Some nd /\ crc nd <> 0%N) ->
  forall id, r' = RN id -> exists nd, cfind (cn s) id = Some nd /\ crc nd <> 0%N.
Proof.
  intros s r r' H Hr Hroot. induction Hr as [|j nd e Hr IH F He]; [exact Hroot|].
  intros id Er. destruct (child_live s j nd e id H F He Er) as [ndc [Fc [Hc _]]]. eauto.
Qed.

(** Corollary of 6: while a thread sits on a handle (it performs no action itself),
    the other threads and the collector, whatever they do and in whatever order, leave
    the handle and every node reachable from it stored with unchanged level and
    children. *)
Theorem run_frame_idle : forall sched s s' tid e, CInv s -> run s sched = Some s' ->
  (forall a, In a sched -> act_tid a <> Some tid) ->
  In (tid, e) (cown s) ->
  In (tid, e) (cown s') /\
  forall r, creach (cn s) (eref e) r ->
    creach (cn s') (eref e) r /\
    forall id nd, r = RN id -> cfind (cn s) id = Some nd ->
      exists nd', cfind (cn s') id = Some nd' /\ same_shape nd' nd.
Proof.
  induction sched as [|a rest IH]; intros s s' tid e H Hr Hidle Hin; simpl in Hr.
  - inversion Hr; subst. split; [exact Hin|]. intros r Hre. split; [exact Hre|].
    intros id nd _ F. exists nd. unfold same_shape. auto.
  - destruct (step s a) as [[s1 res]|] eqn:Hs; [|discriminate].
    pose proof (step_inv s a s1 res H Hs) as H1.
    assert (Hin1 : In (tid, e) (cown s1)).
    { eapply step_keeps_token; eauto. apply Hidle. left. reflexivity. }
    destruct (IH s1 s' tid e H1 Hr (fun a0 Ha => Hidle a0 (or_intror Ha)) Hin1) as [Hin' Hrest].
    split; [exact Hin'|].
    (* one step: reachable nodes are live, hence kept with their shape *)
    assert (Hroot : forall id, eref e = RN id -> exists nd, cfind (cn s) id = Some nd /\ crc nd <> 0%N).
    { intros id Er. apply (owned_live s (tid, e) id H Hin Er). }
    assert (Hone : forall r, creach (cn s) (eref e) r ->
              creach (cn s1) (eref e) r /\
              forall id nd, r = RN id -> cfind (cn s) id = Some nd ->
                exists nd1, cfind (cn s1) id = Some nd1 /\ same_shape nd1 nd).
    { intros r Hre.
      assert (Hkeep : forall id nd, r = RN id -> cfind (cn s) id = Some nd ->
                 exists nd1, cfind (cn s1) id = Some nd1 /\ same_shape nd1 nd).
      { intros id nd Er F. destruct (creach_live s _ _ H Hre Hroot id Er) as [nd0 [F0 Hnz]].
        rewrite F in F0. inversion F0; subst nd0.
        apply (step_frame s a s1 res id nd H Hs F Hnz). }
      split; [|exact Hkeep].
      clear Hkeep. induction Hre as [|j nd x Hre IHre F Hx]; [constructor|].
      destruct (creach_live s _ _ H Hre Hroot j eq_refl) as [nd0 [F0 Hnz]].
      rewrite F in F0. inversion F0; subst nd0.
      destruct (step_frame s a s1 res j nd H Hs F Hnz) as [nd1 [F1 [_ Hc]]].
      apply (creach_child (cn s1) _ j nd1 x IHre F1). rewrite Hc. exact Hx. }
    intros r Hre. destruct (Hone r Hre) as [Hre1 Hk1].
    destruct (Hrest r Hre1) as [Hre' Hk']. split; [exact Hre'|].
    intros id nd Er F. destruct (Hk1 id nd Er F) as [nd1 [F1 [L1 C1]]].
    destruct (Hk' id nd1 Er F1) as [nd' [F' [L' C']]].
    exists nd'. unfold same_shape. split; [exact F'|]. split; congruence.
Qed.

(** ** 7. the collector *)

(** the collector only removes a node that no thread owns an edge to and that no
    stored node refers to *)
Theorem gc_safe : forall s id s' r, CInv s -> step s (AGcNode id) = Some (s', r) ->
  owners (cown s) id = 0 /\ parents (cn s) id = 0 /\
  (forall o, In o (cown s) -> eref (snd o) <> RN id) /\
  (forall j nd e, cfind (cn s) j = Some nd -> In e (cch nd) -> eref e <> RN id) /\
  cfind (cn s') id = None.
Proof.
  intros s id s' r H Hs. simpl in Hs.
  destruct (cfind (cn s) id) as [nd|] eqn:F; [|discriminate].
  destruct (N.eqb_spec (crc nd) 0) as [Hz|_]; [|discriminate]. inversion Hs; subst. simpl.
  pose proof (ci_rc s H id nd F) as Hrc.
  assert (Ho0 : owners (cown s) id = 0) by lia.
  assert (Hp0 : parents (cn s) id = 0) by lia.
  split; [exact Ho0|]. split; [exact Hp0|]. split; [|split].
  - apply owners_zero_iff. exact Ho0.
  - intros j ndj e Fj He. apply (proj1 (parents_zero_iff _ _) Hp0 j ndj e (cfind_In _ _ _ Fj) He).
  - rewrite cfind_dec_children, (cfind_cremove id _ id (ti_nodup _ _ _ _ (ci_tbl s H))),
      Pos.eqb_refl. reflexivity.
Qed.

(** ... and every node without owner and parent can be collected *)
Theorem gc_enabled : forall s id nd, CInv s -> cfind (cn s) id = Some nd ->
  (crc nd = 0%N <-> owners (cown s) id = 0 /\ parents (cn s) id = 0) /\
  (crc nd = 0%N -> exists s', step s (AGcNode id) = Some (s', None)).
Proof.
  intros s id nd H F. pose proof (ci_rc s H id nd F) as Hrc. split; [split; lia|].
  intros Hz. simpl. rewrite F, Hz. simpl. eauto.
Qed.

(** the decrements never underflow: whoever releases an edge finds a positive count, and
    the collector finds positive counts at the children of the node it frees *)
Theorem release_safe : forall s tid e id, CInv s -> In (tid, e) (cown s) -> eref e = RN id ->
  exists nd s', cfind (cn s) id = Some nd /\ crc nd <> 0%N /\
                step s (ARelease tid e) = Some (s', None) /\
                exists nd', cfind (cn s') id = Some nd' /\ crc nd' = N.pred (crc nd).
Proof.
  intros s tid e id H Hin Er.
  destruct (owned_live s (tid, e) id H Hin Er) as [nd [F Hnz]].
  destruct (In_take_tok _ _ Hin) as [own' Ht].
  exists nd. eexists. split; [exact F|]. split; [exact Hnz|]. simpl. rewrite Er, Ht.
  split; [reflexivity|]. simpl. unfold rc_dec. rewrite cfind_rc_upd, Pos.eqb_refl, F. simpl.
  eexists. split; reflexivity.
Qed.

(** cloning is enabled for every edge that can be borrowed from an owned edge of any
    thread: the edge itself or a child edge of a node reachable from it *)
Theorem retain_enabled : forall s tid o e id, In o (cown s) ->
  borrow_b (cn s) nl (snd o) e = true -> eref e = RN id ->
  exists s', step s (ARetain tid e) = Some (s', None) /\ In (tid, e) (cown s') /\
             cn s' = rc_inc id (cn s).
Proof.
  intros s tid o e id Ho Hb Er. simpl. rewrite Er.
  assert (X : can_borrow_b nl s e = true).
  { unfold can_borrow_b. apply existsb_exists. exists o. auto. }
  rewrite X. eexists. split; [reflexivity|]. simpl. auto.
Qed.

(** ** 8. the table-only projection simulates the full model *)

Theorem erase_sim : forall s a s' r, CInv s -> step s a = Some (s', r) ->
  match erase a with
  | Some ta => step_tbl (cn_shape (cn s)) ta = Some (cn_shape (cn s'), r)
  | None => cn_shape (cn s') = cn_shape (cn s) /\ r = None
  end.
Proof.
  intros s a s' r H Hs.
  destruct a as [tid lvl ch fr|tid e|tid e|tid tid' e|id|tid e]; simpl in Hs; simpl erase; cbv iota.
  - unfold Conc.step_tbl. rewrite node_pre_b_cn_shape, find_shape_cn_shape, cfind_cn_shape.
    destruct (node_pre_b (cn s) lvl ch); [|discriminate].
    destruct (take_toks tid ch (cown s)) as [own1|]; [|discriminate].
    destruct (find_shape (cn s) lvl ch) as [id0|].
    + inversion Hs; subst. simpl. unfold rc_inc.
      rewrite cn_shape_rc_upd, cn_shape_dec_children. reflexivity.
    + destruct (cfind (cn s) fr); [discriminate|]. inversion Hs; subst. reflexivity.
  - destruct (eref e) as [x|j].
    + destruct (cref_ok_b terms (cn s) (RT x)); inversion Hs; subst. auto.
    + destruct (can_borrow_b nl s e); [|discriminate]. inversion Hs; subst. simpl.
      split; [apply cn_shape_rc_upd | reflexivity].
  - destruct (eref e) as [x|j].
    + destruct (cref_ok_b terms (cn s) (RT x)); inversion Hs; subst. auto.
    + destruct (take_tok (tid, e) (cown s)); [|discriminate]. inversion Hs; subst. simpl.
      split; [apply cn_shape_rc_upd | reflexivity].
  - destruct (eref e) as [x|j].
    + destruct (cref_ok_b terms (cn s) (RT x)); inversion Hs; subst. auto.
    + destruct (take_tok (tid, e) (cown s)); [|discriminate]. inversion Hs; subst. auto.
  - destruct (gc_safe s id s' r H Hs) as [_ [Hp0 _]]. simpl in Hs.
    unfold Conc.step_tbl. rewrite cfind_cn_shape, has_parent_b_cn_shape.
    destruct (cfind (cn s) id) as [nd|]; [|discriminate]. simpl.
    destruct (N.eqb (crc nd) 0); [|discriminate]. inversion Hs; subst. simpl.
    rewrite (proj2 (has_parent_b_false_iff _ _) Hp0).
    rewrite cn_shape_dec_children, cn_shape_cremove. reflexivity.
  - destruct (is_bcdd k); [|discriminate]. destruct (eref e) as [x|j].
    + destruct (cref_ok_b terms (cn s) (RT x)); inversion Hs; subst. auto.
    + destruct (take_tok (tid, e) (cown s)); [|discriminate]. inversion Hs; subst. auto.
Qed.

(** the table actions of a schedule, in order *)
Definition erase_list (sched : list act) : list tact :=
  flat_map (fun a => match erase a with Some x => [x] | None => [] end) sched.

Theorem run_erase_sim : forall sched s s', CInv s -> run s sched = Some s' ->
  run_tbl (cn_shape (cn s)) (erase_list sched) = Some (cn_shape (cn s')).
Proof.
  induction sched as [|a rest IH]; intros s s' H Hr; simpl in Hr.
  - inversion Hr; subst. reflexivity.
  - destruct (step s a) as [[s1 res]|] eqn:Hs; [|discriminate].
    pose proof (erase_sim s a s1 res H Hs) as He.
    pose proof (IH s1 s' (step_inv s a s1 res H Hs) Hr) as Hrest.
    unfold erase_list. simpl. fold (erase_list rest).
    destruct (erase a) as [ta|].
    + simpl. rewrite He. exact Hrest.
    + simpl. destruct He as [He _]. rewrite <- He. exact Hrest.
Qed.

(** ** 8'. the count-tracking projection reproduces the table of the full model exactly *)

Lemma goi_dec_ok : forall s tid lvl ch own1, CInv s -> node_pre_b (cn s) lvl ch = true ->
  take_toks tid ch (cown s) = Some own1 -> dec_ok_b (cn s) ch = true.
Proof.
  intros s tid lvl ch own1 H Hpre Ht. unfold dec_ok_b. apply forallb_forall. intros e He.
  destruct (eref e) as [x|j] eqn:Er; [reflexivity|].
  destruct (node_pre_b_child k terms nl _ _ _ e j Hpre He Er) as [ndj [Fj _]]. rewrite Fj.
  apply N.leb_le. rewrite (ci_rc s H j ndj Fj), (take_toks_owners tid ch _ _ j Ht). lia.
Qed.

Lemma gc_dec_ok : forall s id nd, CInv s -> cfind (cn s) id = Some nd ->
  dec_ok_b (cremove id (cn s)) (cch nd) = true.
Proof.
  intros s id nd H F. unfold dec_ok_b. apply forallb_forall. intros e He.
  destruct (eref e) as [x|j] eqn:Er; [reflexivity|].
  destruct (child_live s id nd e j H F He Er) as [ndc [Fc [_ Hlt]]].
  rewrite (cfind_cremove id _ j (ti_nodup _ _ _ _ (ci_tbl s H))).
  destruct (Pos.eqb_spec j id) as [E|_].
  - subst j. rewrite F in Fc. inversion Fc; subst. lia.
  - rewrite Fc. apply N.leb_le. rewrite (ci_rc s H j ndc Fc).
    pose proof (parents_ge_cnt (cn s) j id nd (cfind_In _ _ _ F)). lia.
Qed.

Theorem erase_rc_sim : forall s a s' r, CInv s -> step s a = Some (s', r) ->
  match erase_rc a with
  | Some ra => step_rc k terms nl (cn s) ra = Some (cn s', r)
  | None => cn s' = cn s /\ r = None
  end.
Proof.
  intros s a s' r H Hs.
  destruct a as [tid lvl ch fr|tid e|tid e|tid tid' e|id|tid e]; simpl in Hs; simpl erase_rc.
  - unfold step_rc.
    destruct (node_pre_b (cn s) lvl ch) eqn:Hpre; [|discriminate].
    destruct (take_toks tid ch (cown s)) as [own1|] eqn:Ht; [|discriminate].
    destruct (find_shape (cn s) lvl ch) as [id0|].
    + rewrite (goi_dec_ok s tid lvl ch own1 H Hpre Ht). inversion Hs; subst. reflexivity.
    + destruct (cfind (cn s) fr); [discriminate|]. inversion Hs; subst. reflexivity.
  - destruct (eref e) as [x|j] eqn:Er.
    + destruct (cref_ok_b terms (cn s) (RT x)); inversion Hs; subst. auto.
    + destruct (can_borrow_b nl s e) eqn:Ho; [|discriminate]. inversion Hs; subst. simpl.
      destruct (edge_ok_b_inner k terms _ _ j (can_borrow_ok s e H Ho) Er) as [nd F].
      rewrite F. reflexivity.
  - destruct (eref e) as [x|j] eqn:Er.
    + destruct (cref_ok_b terms (cn s) (RT x)); inversion Hs; subst. auto.
    + destruct (take_tok (tid, e) (cown s)) eqn:Ht; [|discriminate]. inversion Hs; subst. simpl.
      destruct (owned_live s (tid, e) j H (take_tok_In _ _ _ Ht) Er) as [nd [F Hnz]].
      rewrite F. destruct (N.eqb_spec (crc nd) 0); [contradiction | reflexivity].
  - destruct (eref e) as [x|j].
    + destruct (cref_ok_b terms (cn s) (RT x)); inversion Hs; subst. auto.
    + destruct (take_tok (tid, e) (cown s)); [|discriminate]. inversion Hs; subst. auto.
  - unfold step_rc. destruct (cfind (cn s) id) as [nd|] eqn:F; [|discriminate].
    destruct (N.eqb (crc nd) 0); [|discriminate]. inversion Hs; subst. simpl.
    rewrite (gc_dec_ok s id nd H F). reflexivity.
  - destruct (is_bcdd k); [|discriminate]. destruct (eref e) as [x|j].
    + destruct (cref_ok_b terms (cn s) (RT x)); inversion Hs; subst. auto.
    + destruct (take_tok (tid, e) (cown s)); [|discriminate]. inversion Hs; subst. auto.
Qed.

Definition erase_rc_list (sched : list act) : list ract :=
  flat_map (fun a => match erase_rc a with Some x => [x] | None => [] end) sched.

Theorem run_erase_rc_sim : forall sched s s', CInv s -> run s sched = Some s' ->
  run_rc k terms nl (cn s) (erase_rc_list sched) = Some (cn s').
Proof.
  induction sched as [|a rest IH]; intros s s' H Hr; simpl in Hr.
  - inversion Hr; subst. reflexivity.
  - destruct (step s a) as [[s1 res]|] eqn:Hs; [|discriminate].
    pose proof (erase_rc_sim s a s1 res H Hs) as He.
    pose proof (IH s1 s' (step_inv s a s1 res H Hs) Hr) as Hrest.
    unfold erase_rc_list. simpl. fold (erase_rc_list rest).
    destruct (erase_rc a) as [ra|].
    + simpl. rewrite He. exact Hrest.
    + simpl. destruct He as [He _]. rewrite <- He. exact Hrest.
Qed.

(** the count-tracking replay forgets to the table-only replay's shape for the two
    actions that do not touch the shape, and keeps the structural invariant for
    get_or_insert *)
Theorem step_rc_shape : forall t a t' r, step_rc k terms nl t a = Some (t', r) ->
  match a with
  | RGoi lvl ch fr => step_tbl (cn_shape t) (TGoi lvl ch fr) = Some (cn_shape t', r)
  | RInc _ | RDec _ => cn_shape t' = cn_shape t /\ r = None
  | RGc id => cn_shape t' = cremove id (cn_shape t) /\ r = None
  end.
Proof.
  intros t a t' r Hs. destruct a as [lvl ch fr|id|id|id]; simpl in Hs.
  - unfold Conc.step_tbl. rewrite node_pre_b_cn_shape, find_shape_cn_shape, cfind_cn_shape.
    destruct (node_pre_b t lvl ch); [|discriminate].
    destruct (find_shape t lvl ch) as [id0|].
    + destruct (dec_ok_b t ch); [|discriminate]. inversion Hs; subst. unfold rc_inc.
      rewrite cn_shape_rc_upd, cn_shape_dec_children. reflexivity.
    + destruct (cfind t fr); [discriminate|]. inversion Hs; subst. reflexivity.
  - destruct (cfind t id); [|discriminate]. inversion Hs; subst.
    split; [apply cn_shape_rc_upd | reflexivity].
  - destruct (cfind t id) as [nd|]; [|discriminate]. destruct (N.eqb (crc nd) 0); [discriminate|].
    inversion Hs; subst. split; [apply cn_shape_rc_upd | reflexivity].
  - destruct (cfind t id) as [nd|]; [|discriminate]. destruct (N.eqb (crc nd) 0); [|discriminate].
    destruct (dec_ok_b (cremove id t) (cch nd)); [|discriminate]. inversion Hs; subst.
    rewrite cn_shape_dec_children, cn_shape_cremove. auto.
Qed.

(** the table-only replay keeps the structural invariant by itself (no ownership
    information needed): what the driver checks on the implementation's log *)
Theorem step_tbl_inv : forall t a t' r, TInv t -> step_tbl t a = Some (t', r) -> TInv t'.
Proof.
  intros t a t' r H Hs. destruct a as [lvl ch fr|id]; simpl in Hs.
  - destruct (node_pre_b t lvl ch) eqn:Hpre; [|discriminate].
    destruct (find_shape t lvl ch) as [id|] eqn:Hf.
    + inversion Hs; subst. exact H.
    + destruct (cfind t fr) eqn:Hfr; [discriminate|]. inversion Hs; subst.
      apply TInv_insert; auto.
  - destruct (cfind t id) as [nd|]; [|discriminate].
    destruct (has_parent_b t id) eqn:Hp; [discriminate|]. inversion Hs; subst.
    apply TInv_remove; [exact H | apply has_parent_b_false_iff; exact Hp].
Qed.

End Proofs.
